import Crusta.Proofs.NonVacuity
import Crusta.Props.C05
import Crusta.Props.C08
import Crusta.Props.C09
import Crusta.Props.C13
import Crusta.Props.C14
import Crusta.Props.C16

/-!
# Non-vacuity witnesses, part 2: dynamic solvers, command line, readers and writers

Same purpose and technique as `Proofs/NonVacuity.lean` (concrete instances on which **all** the
hypotheses of an end-to-end theorem hold jointly, `RunSound` discharged through its Boolean mirror
`runSoundB`), for

1. the buffered dynamic **stable** solver (`C08.dynamic_answers_for_current_framework`,
   `C09.usable_after_any_history`): `dyn_hyps_ST` / `dyn_concl_ST`;
2. the buffered dynamic **preferred** solver, skeptical queries on a framework with two preferred
   extensions (also `C09.preferred_solver_stays_usable`): `dyn_hyps_PR_no`, `dyn_hyps_PR` /
   `dyn_concl_PR_no`, `dyn_concl_PR`;
3. an **attack-assumption** solver with reservation factor 2/1 (`C08.attack_assumption_solvers_answer`,
   `C09.attack_assumption_solvers_stay_usable`): `dynatt_hyps` / `dynatt_concl`;
4. the **command line** on the bytes of an ICCMA'23 file (`C05.cli_on_readable_file`):
   `cli_hyps` / `cli_concl`;
5. **readers and writers** (`C14.store_framework_roundtrip_default`,
   `C13.iccma_wellformed_accepted_general`, `C16.malformed_reply_aborts`): `io_store_concl`,
   `io_hyps` / `io_concl`.

Every `*_hyps` theorem is an existential over the universally quantified variables of the property
theorem, whose body is the conjunction of exactly the hypotheses of that theorem followed by
equations that pin the witnesses down; every `*_concl` theorem is obtained by *applying* the
property theorem to these witnesses.

Technical notes.  The states reached through earlier queries are defined from the interpreter's
result (`DRun.d`, `DRun.a`); these definitions are marked `@[irreducible]` so that the elaborator
never tries to evaluate the model itself: all evaluation is done by the kernel (`decide +kernel`,
i.e. `Decidable.decide … = true` checked by `Eq.refl true` in the kernel, with no compiled evaluation and
nothing assumed).  No elaborator limit is changed.
-/

namespace Crusta.NonVacuity
open Crusta Crusta.Dyn

/-! ## helpers: the value returned by a run, and histories of update calls -/

/-- the value a run returned (`dflt` if it did not return) -/
def doneD {α : Type} (x : Outcome α × World) (dflt : α) : α := match x.1 with | .done a => a | _ => dflt

def isDoneB {α : Type} (x : Outcome α × World) : Bool := match x.1 with | .done _ => true | _ => false

theorem done_eq {α : Type} (x : Outcome α × World) (dflt : α) (h : isDoneB x = true) :
    x = (.done (doneD x dflt), x.2) := by
  obtain ⟨o, w⟩ := x
  cases o <;> first | rfl | cases h

def ansNo : AccAns := ⟨false, none⟩

/-- result of a query of a buffered dynamic solver -/
abbrev DRun := Outcome (DState × AccAns) × World
def DRun.d (x : DRun) : DState := (doneD x ({ enc := { sem := .CO } }, ansNo)).1
def DRun.a (x : DRun) : AccAns := (doneD x ({ enc := { sem := .CO } }, ansNo)).2
theorem DRun.eq (x : DRun) (h : isDoneB x = true) : x = (.done (x.d, x.a), x.2) := done_eq x _ h

/-- result of a query of an attack-assumption solver -/
abbrev ARun := Outcome (DynAtt.ADState × AccAns) × World
def ARun.d (x : ARun) : DynAtt.ADState := (doneD x ({ enc := { sem := .CO } }, ansNo)).1
def ARun.a (x : ARun) : AccAns := (doneD x ({ enc := { sem := .CO } }, ansNo)).2
theorem ARun.eq (x : ARun) (h : isDoneB x = true) : x = (.done (x.d, x.a), x.2) := done_eq x _ h

/-- the state after a sequence of update calls -/
def updates (d : DState) (ops : List StoreOp) : DState := ops.foldl (fun d op => (d.update op).1) d

/-- `Reach.update`, iterated -/
theorem reach_updates {sem : DSem} {fuel : Nat} :
    ∀ (ops' : List StoreOp) {ops : List StoreOp} {d : DState} {w : World},
      Reach sem fuel ops d w → Reach sem fuel (ops ++ ops') (updates d ops') w
  | [], ops, d, w, h => by rw [List.append_nil]; exact h
  | op :: rest, ops, d, w, h => by
    have := reach_updates rest (Reach.update op h)
    rw [List.append_assoc] at this
    exact this

def aupdates (d : DynAtt.ADState) (ops : List StoreOp) : DynAtt.ADState :=
  ops.foldl (fun d op => (d.update op).1) d

/-- `DynAtt.Reach.update`, iterated -/
theorem areach_updates {sem : DSem} {num den : Nat} :
    ∀ (ops' : List StoreOp) {ops : List StoreOp} {d : DynAtt.ADState} {w : World},
      DynAtt.Reach sem num den ops d w → DynAtt.Reach sem num den (ops ++ ops') (aupdates d ops') w
  | [], ops, d, w, h => by rw [List.append_nil]; exact h
  | op :: rest, ops, d, w, h => by
    have := areach_updates rest (DynAtt.Reach.update op h)
    rw [List.append_assoc] at this
    exact this

/-- the world in which a dynamic solver starts: its SAT solver has been created -/
def w0 : World := ({} : World).onNew

/-! ## 1. the buffered dynamic stable solver

History: `A1; A2; +1>2; -A7` (rejected) `;` **query DC 2** (NO, `unsat`) `; A3; +2>3; A4; +4>1; -A4`
(a removal: the id 3 is retired, with its attack), then the query **DC 3**: YES with the
certificate `{0, 2}` (ids of the labels 1 and 3), after a second SAT call on the same solver, the
buffered updates having been replayed on top of the encoding of the first query. -/

def opsST1 : List StoreOp := [.newArg 1, .newArg 2, .newAtt 1 2, .remArg 7]
@[irreducible] def dST1 : DState := updates (DState.init .ST) opsST1
@[irreducible] def runST1 : DRun := interp (query 0 dST1 .cred 2) [.unsat] w0
def opsST2 : List StoreOp := [.newArg 3, .newAtt 2 3, .newArg 4, .newAtt 4 1, .remArg 4]
@[irreducible] def dST3 : DState := updates runST1.d opsST2
/-- variables: `x0 x1` (1, 2), the retired selector 3, selector 4, `x2` (5), the variable 6 of the
removed argument, the selectors 7 and 8 -/
def mST3 : Model := [some true, some false, some false, some true, some true, some true, some true, some true]
@[irreducible] def runST3 : DRun := interp (query 0 dST3 .cred 3) [.sat mST3] runST1.2

theorem reach_ST1 : Reach .ST 0 opsST1 dST1 w0 := by
  unfold dST1; exact reach_updates opsST1 Reach.init

theorem runST1_eq : interp (query 0 dST1 .cred 2) [.unsat] w0 = (.done (runST1.d, runST1.a), runST1.2) := by
  have := runST1.eq (by decide +kernel)
  unfold runST1 at this ⊢
  exact this

/-- the state after the first query, by `Reach.query` -/
theorem reach_ST2 : Reach .ST 0 opsST1 runST1.d runST1.2 :=
  Reach.query .cred 2 1 [.unsat] _ _ _ reach_ST1 (by unfold Store.Live; decide +kernel)
    (runSoundB_sound _ _ _ (by decide +kernel)) runST1_eq

theorem reach_ST3 : Reach .ST 0 (opsST1 ++ opsST2) dST3 runST1.2 := by
  unfold dST3; exact reach_updates opsST2 reach_ST2

theorem runST3_eq :
    interp (query 0 dST3 .cred 3) [.sat mST3] runST1.2 = (.done (runST3.d, runST3.a), runST3.2) := by
  have := runST3.eq (by decide +kernel)
  unfold runST3 at this ⊢
  exact this

/-- all hypotheses of `C08.dynamic_answers_for_current_framework` and of `C09.usable_after_any_history`
(with `fuel' = fuel`), for the stable solver -/
theorem dyn_hyps_ST :
    ∃ (fuel : Nat) (ops : List StoreOp) (d : DState) (w : World) (q : DQuery) (l id : Nat)
      (rs : List Reply) (d' : DState) (a : AccAns) (w' : World),
      Reach .ST fuel ops d w ∧
      d.pending.Live id l ∧
      RunSound (query fuel d q l) rs w ∧
      interp (query fuel d q l) rs w = (.done (d', a), w') ∧
      Supported .ST q ∧ FuelOK .ST d.pending fuel ∧
      -- the witnesses and the evaluated answer
      ops = [.newArg 1, .newArg 2, .newAtt 1 2, .remArg 7, .newArg 3, .newAtt 2 3, .newArg 4, .newAtt 4 1,
        .remArg 4] ∧
      q = .cred ∧ l = 3 ∧ id = 2 ∧ rs = [.sat mST3] ∧
      a.status = true ∧ a.cert = some [0, 2] ∧ w.calls = 1 ∧ w'.calls = 2 := by
  refine ⟨0, _, dST3, runST1.2, .cred, 3, 2, [.sat mST3], runST3.d, runST3.a, runST3.2,
    reach_ST3, ?_, runSoundB_sound _ _ _ (by decide +kernel), runST3_eq, trivial,
    (by unfold FuelOK; intro h; cases h), rfl, rfl, rfl, rfl, rfl, ?_, ?_, ?_, ?_⟩
  · unfold Store.Live; decide +kernel
  · decide +kernel
  · decide +kernel
  · decide +kernel
  · decide +kernel

/-- the conclusions of C08 / C09 on this run, by applying the theorems: the framework the answer is
about is the one obtained from the update calls (the rejected one dropped), `{0, 2}` is a stable
extension of it, and the solver state after the query satisfies the invariant again -/
theorem dyn_concl_ST :
    ∃ st : Store,
      Store.runOps Store.empty [.newArg 1, .newArg 2, .newAtt 1 2, .remArg 7, .newArg 3, .newAtt 2 3, .newArg 4,
        .newAtt 4 1, .remArg 4] = some st ∧
      st.Live 2 3 ∧ st.g.Stable (ofList [0, 2]) ∧
      ∃ d' w', QInv .ST d' w' ∧ d'.pending = st := by
  obtain ⟨fuel, ops, d, w, q, l, id, rs, d', a, w', hreach, hl, hs, hrun, hq, hfuel, hops, hqe, hle, hid, hrs,
    hst, hcert, _⟩ := dyn_hyps_ST
  obtain ⟨h1, h2⟩ := C08.dynamic_answers_for_current_framework hreach q hl hs hrun
  subst hops hqe hle hid
  refine ⟨d.pending, h1, hl, ?_, ?_⟩
  · obtain ⟨e, he, hext, _⟩ := (C08.credulous_answer_meaning .ST d.pending 3 2 a h2 hl).1 hst
    rw [hcert] at he
    injection he with he
    subst he
    exact hext
  · rcases C09.usable_after_any_history hreach .cred hq hl hfuel hs with
      ⟨d'', a'', w'', _, hinv, hp, _⟩ | ⟨w'', h⟩ | ⟨w'', h⟩
    · exact ⟨d'', w'', hinv, hp⟩
    · rw [hrun] at h; cases h
    · rw [hrun] at h; cases h

/-! ## 2. the buffered dynamic preferred solver

History: `A1; A2; A3; +1>2; +2>1; +3>9` (rejected) `; +2>3; A6; +6>2; -A6` (a removal); the framework
`1 ↔ 2 → 3` has the preferred extensions `{1, 3}` and `{2}`.  **Query DS 3**: the SAT solver offers
`{1, 3}` (contains 3: discarded), then `{2}`, then proves that `{2}` has no complete proper
superset (`unsat`): NO with the counter-example `{1}` (id of label 2).  Then `A4; +1>4; +2>4; A5; +4>5`
(argument 5 is defended by both preferred extensions) and the **query DS 5**: both preferred
extensions are enumerated (each contains 5), the third call is `unsat`: YES.  The fuel is 200
(`prFuel` is 50 at the first query and 194 at the second one). -/

def opsPR1 : List StoreOp :=
  [.newArg 1, .newArg 2, .newArg 3, .newAtt 1 2, .newAtt 2 1, .newAtt 3 9, .newAtt 2 3, .newArg 6, .newAtt 6 2,
   .remArg 6]
@[irreducible] def dPR1 : DState := updates (DState.init .PR) opsPR1
/-- variables: `x0 d0 x1 d1 x2 d2` (1–6), `x d` of the removed argument (7, 8), the selectors 9 10 11
of the attack constraints, 12 the selector of the search; the complete extension `{0, 2}` -/
def mPR1a : Model :=
  [some true, some false, some false, some true, some true, some false, some true, some false, some true,
   some true, some true, some false]
/-- the complete extension `{1}` -/
def mPR1b : Model :=
  [some false, some true, some true, some false, some false, some true, some true, some false, some true,
   some true, some true, some false]
def rsPR1 : List Reply := [.sat mPR1a, .sat mPR1b, .unsat]
@[irreducible] def runPR1 : DRun := interp (query 200 dPR1 .skep 3) rsPR1 w0
def opsPR2 : List StoreOp := [.newArg 4, .newAtt 1 4, .newAtt 2 4, .newArg 5, .newAtt 4 5]
@[irreducible] def dPR2 : DState := updates runPR1.d opsPR2
/-- 19 variables (13–16: `x d` of the arguments 4 and 5; 17, 18 their selectors; 19 the selector of
the second search); the complete extension `{0, 2, 5}` -/
def mPR2a : Model :=
  [some true, some false, some false, some true, some true, some false, some true, some false, some true,
   some true, some true, some true, some false, some true, some true, some false, some true, some true,
   some false]
/-- the complete extension `{1, 5}` -/
def mPR2b : Model :=
  [some false, some true, some true, some false, some false, some true, some true, some false, some true,
   some true, some true, some true, some false, some true, some true, some false, some true, some true,
   some false]
def rsPR2 : List Reply := [.sat mPR2a, .sat mPR2b, .unsat]
@[irreducible] def runPR2 : DRun := interp (query 200 dPR2 .skep 5) rsPR2 runPR1.2

theorem reach_PR1 : Reach .PR 200 opsPR1 dPR1 w0 := by
  unfold dPR1; exact reach_updates opsPR1 Reach.init

theorem runPR1_eq : interp (query 200 dPR1 .skep 3) rsPR1 w0 = (.done (runPR1.d, runPR1.a), runPR1.2) := by
  have := runPR1.eq (by decide +kernel)
  unfold runPR1 at this ⊢
  exact this

/-- the `unsat` reply is checked by `refuteB` on the 12 variables -/
theorem sound_PR1 : RunSound (query 200 dPR1 .skep 3) rsPR1 w0 := runSoundB_sound _ _ _ (by decide +kernel)

theorem live_PR1 : dPR1.pending.Live 2 3 := by unfold Store.Live; decide +kernel

/-- first query: all hypotheses of `C08.dynamic_answers_for_current_framework`,
`C09.preferred_solver_stays_usable` and `C09.usable_after_any_history` for the preferred solver -/
theorem dyn_hyps_PR_no :
    ∃ (fuel : Nat) (ops : List StoreOp) (d : DState) (w : World) (q : DQuery) (l id : Nat)
      (rs : List Reply) (d' : DState) (a : AccAns) (w' : World),
      Reach .PR fuel ops d w ∧
      d.pending.Live id l ∧
      RunSound (query fuel d q l) rs w ∧
      interp (query fuel d q l) rs w = (.done (d', a), w') ∧
      Supported .PR q ∧ FuelOK .PR d.pending fuel ∧ prFuel d.pending ≤ fuel ∧
      ops = [.newArg 1, .newArg 2, .newArg 3, .newAtt 1 2, .newAtt 2 1, .newAtt 3 9, .newAtt 2 3, .newArg 6,
        .newAtt 6 2, .remArg 6] ∧
      q = .skep ∧ l = 3 ∧ id = 2 ∧ rs = [.sat mPR1a, .sat mPR1b, .unsat] ∧
      a.status = false ∧ a.cert = some [1] ∧ w'.calls = 3 := by
  have hf : prFuel dPR1.pending ≤ 200 := by decide +kernel
  refine ⟨200, _, dPR1, w0, .skep, 3, 2, rsPR1, runPR1.d, runPR1.a, runPR1.2,
    reach_PR1, live_PR1, sound_PR1, runPR1_eq, trivial, fun _ => hf, hf, rfl, rfl, rfl, rfl, rfl, ?_, ?_, ?_⟩
  · decide +kernel
  · decide +kernel
  · decide +kernel

theorem reach_PR2 : Reach .PR 200 (opsPR1 ++ opsPR2) dPR2 runPR1.2 := by
  unfold dPR2
  exact reach_updates opsPR2 (Reach.query .skep 3 2 rsPR1 _ _ _ reach_PR1 live_PR1 sound_PR1 runPR1_eq)

theorem runPR2_eq :
    interp (query 200 dPR2 .skep 5) rsPR2 runPR1.2 = (.done (runPR2.d, runPR2.a), runPR2.2) := by
  have := runPR2.eq (by decide +kernel)
  unfold runPR2 at this ⊢
  exact this

/-- the `unsat` reply is checked by `refuteB` on the 19 variables -/
theorem sound_PR2 : RunSound (query 200 dPR2 .skep 5) rsPR2 runPR1.2 :=
  runSoundB_sound _ _ _ (by decide +kernel)

/-- second query, in the state reached through the first one (`Reach.query`) and five more updates -/
theorem dyn_hyps_PR :
    ∃ (fuel : Nat) (ops : List StoreOp) (d : DState) (w : World) (q : DQuery) (l id : Nat)
      (rs : List Reply) (d' : DState) (a : AccAns) (w' : World),
      Reach .PR fuel ops d w ∧
      d.pending.Live id l ∧
      RunSound (query fuel d q l) rs w ∧
      interp (query fuel d q l) rs w = (.done (d', a), w') ∧
      Supported .PR q ∧ FuelOK .PR d.pending fuel ∧ prFuel d.pending ≤ fuel ∧
      ops = [.newArg 1, .newArg 2, .newArg 3, .newAtt 1 2, .newAtt 2 1, .newAtt 3 9, .newAtt 2 3, .newArg 6,
        .newAtt 6 2, .remArg 6, .newArg 4, .newAtt 1 4, .newAtt 2 4, .newArg 5, .newAtt 4 5] ∧
      q = .skep ∧ l = 5 ∧ id = 5 ∧ rs = [.sat mPR2a, .sat mPR2b, .unsat] ∧
      a.status = true ∧ a.cert = none ∧ w.calls = 3 ∧ w'.calls = 6 ∧ prFuel d.pending = 194 := by
  have hf : prFuel dPR2.pending ≤ 200 := by decide +kernel
  refine ⟨200, _, dPR2, runPR1.2, .skep, 5, 5, rsPR2, runPR2.d, runPR2.a, runPR2.2,
    reach_PR2, ?_, sound_PR2, runPR2_eq, trivial, fun _ => hf, hf, rfl, rfl, rfl, rfl, rfl, ?_, ?_, ?_, ?_, ?_⟩
  · unfold Store.Live; decide +kernel
  · decide +kernel
  · decide +kernel
  · decide +kernel
  · decide +kernel
  · decide +kernel

/-- conclusions of C08 / C09 on the first query: `{1}` is a preferred extension of the framework
reached, and it does not contain the argument 2 (label 3); the run cannot have panicked -/
theorem dyn_concl_PR_no :
    ∃ st : Store,
      Store.runOps Store.empty [.newArg 1, .newArg 2, .newArg 3, .newAtt 1 2, .newAtt 2 1, .newAtt 3 9,
        .newAtt 2 3, .newArg 6, .newAtt 6 2, .remArg 6] = some st ∧
      st.Live 2 3 ∧ st.g.Preferred (ofList [1]) ∧ 2 ∉ [1] ∧
      ∀ msg w', interp (query 200 dPR1 .skep 3) rsPR1 w0 ≠ (.crashed msg, w') := by
  obtain ⟨fuel, ops, d, w, q, l, id, rs, d', a, w', hreach, hl, hs, hrun, hq, hfuel, hfuel', hops, hqe, hle, hid,
    hrs, hst, hcert, _⟩ := dyn_hyps_PR_no
  obtain ⟨h1, h2⟩ := C08.dynamic_answers_for_current_framework hreach q hl hs hrun
  subst hops hqe hle hid
  obtain ⟨e, he, hext, hne⟩ := (C08.skeptical_answer_meaning .PR d.pending 3 2 a h2 hl).2 hst
  rw [hcert] at he
  injection he with he
  subst he
  exact ⟨d.pending, h1, hl, hext, hne, C09.preferred_solver_stays_usable reach_PR1 live_PR1 (by decide +kernel) sound_PR1⟩

/-- conclusions of C08 / C09 on the second query: every preferred extension of the framework reached
contains the argument 5; the state after the query satisfies the invariant again -/
theorem dyn_concl_PR :
    ∃ st : Store,
      Store.runOps Store.empty [.newArg 1, .newArg 2, .newArg 3, .newAtt 1 2, .newAtt 2 1, .newAtt 3 9,
        .newAtt 2 3, .newArg 6, .newAtt 6 2, .remArg 6, .newArg 4, .newAtt 1 4, .newAtt 2 4, .newArg 5,
        .newAtt 4 5] = some st ∧
      st.Live 5 5 ∧ (∀ S, st.g.Preferred S → S 5 = true) ∧
      ∃ d' w', QInv .PR d' w' ∧ d'.pending = st := by
  obtain ⟨fuel, ops, d, w, q, l, id, rs, d', a, w', hreach, hl, hs, hrun, hq, hfuel, hfuel', hops, hqe, hle, hid,
    hrs, hst, hcert, _⟩ := dyn_hyps_PR
  obtain ⟨h1, h2⟩ := C08.dynamic_answers_for_current_framework hreach q hl hs hrun
  subst hops hqe hle hid
  refine ⟨d.pending, h1, hl, ((C08.skeptical_answer_meaning .PR d.pending 5 5 a h2 hl).1 hst).2, ?_⟩
  have hnp := C09.preferred_solver_stays_usable hreach hl hfuel' hs
  rcases C09.usable_after_any_history hreach .skep hq hl hfuel hs with
    ⟨d'', a'', w'', _, hinv, hp, _⟩ | ⟨w'', h⟩ | ⟨w'', h⟩
  · exact ⟨d'', w'', hinv, hp⟩
  · rw [hrun] at h; cases h
  · rw [hrun] at h; cases h

/-! ## 3. an attack-assumption solver (stable semantics, reservation factor 2/1)

History: `A1; A2; +1>2; -2>1` (rejected) `;` **query DC 1** — first encoding, in a fresh SAT solver
(index 1) with `2 * 2 = 4` argument slots, 16 attack variables and 16 auxiliary ones: YES `{0}`;
`A3; +2>3` — the new argument takes the reserved slot 3, no re-encoding; **query DC 3** on the same
solver: YES `{0, 2}`; `-A1; A4; +4>3` — the slots are used up (`next_dummy_arg_var = 4 = n_arg_vars`):
the next query re-encodes in a new solver (index 2, `2 * 3 = 6` slots, 78 variables);
**query DS 3**: NO with the stable extension `{1, 3}` (labels 2 and 4). -/

def opsA1 : List StoreOp := [.newArg 1, .newArg 2, .newAtt 1 2, .remAtt 2 1]
@[irreducible] def dA1 : DynAtt.ADState := aupdates (DynAtt.ADState.init .ST 2 1) opsA1
/-- argument slots 1–4 (3 and 4 are unused slots: unattacked, hence true), attack variables 5–20
(`1 → 2` is variable 9), auxiliary variables 21–36 -/
def mA1 : Model :=
  [some true, some false, some true, some true, some false, some false, some false, some false, some true,
   some false, some false, some false, some false, some false, some false, some false, some false, some false,
   some false, some false, some false, some false, some false, some false, some true, some false, some false,
   some false, some false, some false, some false, some false, some false, some false, some false, some false]
@[irreducible] def runA1 : ARun := interp (DynAtt.query dA1 .cred 1) [.sat mA1] w0
def opsA2 : List StoreOp := [.newArg 3, .newAtt 2 3]
@[irreducible] def dA2 : DynAtt.ADState := aupdates runA1.d opsA2
/-- as `mA1`, with the attack `2 → 3` (variable 14) -/
def mA2 : Model :=
  [some true, some false, some true, some true, some false, some false, some false, some false, some true,
   some false, some false, some false, some false, some true, some false, some false, some false, some false,
   some false, some false, some false, some false, some false, some false, some true, some false, some false,
   some false, some false, some false, some false, some false, some false, some false, some false, some false]
@[irreducible] def runA2 : ARun := interp (DynAtt.query dA2 .cred 3) [.sat mA2] runA1.2
def opsA3 : List StoreOp := [.remArg 1, .newArg 4, .newAtt 4 3]
@[irreducible] def dA3 : DynAtt.ADState := aupdates runA2.d opsA3
/-- second encoding: argument slots 1–6 (labels 2, 3, 4, then three unused slots), attack variables
7–42, auxiliary variables 43–78 -/
def mA3 : Model :=
  [some true, some false, some true, some true, some true, some true, some false, some false, some false,
   some false, some false, some false, some true, some false, some true, some false, some false, some false,
   some false, some false, some false, some false, some false, some false, some false, some false, some false,
   some false, some false, some false, some false, some false, some false, some false, some false, some false,
   some false, some false, some false, some false, some false, some false, some false, some false, some false,
   some false, some false, some false, some true, some false, some true, some false, some false, some false,
   some false, some false, some false, some false, some false, some false, some false, some false, some false,
   some false, some false, some false, some false, some false, some false, some false, some false, some false,
   some false, some false, some false, some false, some false, some false]
@[irreducible] def runA3 : ARun := interp (DynAtt.query dA3 .skep 3) [.sat mA3] runA2.2

theorem reach_A1 : DynAtt.Reach .ST 2 1 opsA1 dA1 w0 := by
  unfold dA1; exact areach_updates opsA1 DynAtt.Reach.init

theorem runA1_eq : interp (DynAtt.query dA1 .cred 1) [.sat mA1] w0 = (.done (runA1.d, runA1.a), runA1.2) := by
  have := runA1.eq (by decide +kernel)
  unfold runA1 at this ⊢
  exact this

theorem reach_A2 : DynAtt.Reach .ST 2 1 (opsA1 ++ opsA2) dA2 runA1.2 := by
  unfold dA2
  exact areach_updates opsA2 (DynAtt.Reach.query .cred 1 0 [.sat mA1] _ _ _ reach_A1
    (by unfold Store.Live; decide +kernel) (runSoundB_sound _ _ _ (by decide +kernel)) runA1_eq)

theorem runA2_eq :
    interp (DynAtt.query dA2 .cred 3) [.sat mA2] runA1.2 = (.done (runA2.d, runA2.a), runA2.2) := by
  have := runA2.eq (by decide +kernel)
  unfold runA2 at this ⊢
  exact this

theorem reach_A3 : DynAtt.Reach .ST 2 1 (opsA1 ++ opsA2 ++ opsA3) dA3 runA2.2 := by
  unfold dA3
  exact areach_updates opsA3 (DynAtt.Reach.query .cred 3 2 [.sat mA2] _ _ _ reach_A2
    (by unfold Store.Live; decide +kernel) (runSoundB_sound _ _ _ (by decide +kernel)) runA2_eq)

theorem runA3_eq :
    interp (DynAtt.query dA3 .skep 3) [.sat mA3] runA2.2 = (.done (runA3.d, runA3.a), runA3.2) := by
  have := runA3.eq (by decide +kernel)
  unfold runA3 at this ⊢
  exact this

/-- all hypotheses of `C08.attack_assumption_solvers_answer` and of
`C09.attack_assumption_solvers_stay_usable`, on the third query of the history; the evaluated facts
show that the first two queries (YES `{0}`, YES `{0, 2}`) shared one SAT solver and that the third one
re-encoded in a new one -/
theorem dynatt_hyps :
    ∃ (sem : DSem) (num den : Nat) (ops : List StoreOp) (d : DynAtt.ADState) (w : World) (q : DQuery)
      (l id : Nat) (rs : List Reply) (d' : DynAtt.ADState) (a : AccAns) (w' : World),
      sem ≠ .PR ∧ (0 < den ∧ den ≤ num) ∧
      DynAtt.Reach sem num den ops d w ∧
      d.pending.Live id l ∧
      RunSound (DynAtt.query d q l) rs w ∧
      interp (DynAtt.query d q l) rs w = (.done (d', a), w') ∧
      DynAtt.AttSupported sem q ∧
      sem = .ST ∧ num = 2 ∧ den = 1 ∧
      ops = [.newArg 1, .newArg 2, .newAtt 1 2, .remAtt 2 1, .newArg 3, .newAtt 2 3, .remArg 1, .newArg 4,
        .newAtt 4 3] ∧
      q = .skep ∧ l = 3 ∧ id = 2 ∧ rs = [.sat mA3] ∧
      a.status = false ∧ a.cert = some [1, 3] ∧
      -- the two earlier queries, and the solvers used
      runA1.a.status = true ∧ runA1.a.cert = some [0] ∧ runA2.a.status = true ∧ runA2.a.cert = some [0, 2] ∧
      runA1.d.enc.solver = 1 ∧ runA2.d.enc.solver = 1 ∧ runA2.d.enc.nArgVars = 4 ∧
      d'.enc.solver = 2 ∧ d'.enc.nArgVars = 6 ∧ w.solvers.length = 2 ∧ w'.solvers.length = 3 ∧
      w'.calls = 3 := by
  refine ⟨.ST, 2, 1, _, dA3, runA2.2, .skep, 3, 2, [.sat mA3], runA3.d, runA3.a, runA3.2,
    (by intro h; cases h), ⟨by decide, by decide⟩, reach_A3, ?_, runSoundB_sound _ _ _ (by decide +kernel),
    runA3_eq, trivial, rfl, rfl, rfl, rfl, rfl, rfl, rfl, rfl, ?_, ?_, ?_, ?_, ?_, ?_, ?_, ?_, ?_, ?_, ?_,
    ?_, ?_, ?_⟩
  · unfold Store.Live; decide +kernel
  all_goals decide +kernel

/-- the conclusions of C08 / C09, by applying the theorems: `{1, 3}` is a stable extension of the
framework reached by the update calls and does not contain the argument 2 (label 3); the state after
the query is again reachable and satisfies the invariant -/
theorem dynatt_concl :
    ∃ st : Store,
      Store.runOps Store.empty [.newArg 1, .newArg 2, .newAtt 1 2, .remAtt 2 1, .newArg 3, .newAtt 2 3, .remArg 1,
        .newArg 4, .newAtt 4 3] = some st ∧
      st.Live 2 3 ∧ st.g.Stable (ofList [1, 3]) ∧ 2 ∉ [1, 3] ∧
      ∃ d' w', DynAtt.AQInv .ST d' w' ∧ d'.pending = st := by
  obtain ⟨sem, num, den, ops, d, w, q, l, id, rs, d', a, w', hsem, hfac, hreach, hl, hs, hrun, hq, hse, _, _, hops,
    hqe, hle, hid, _, hst, hcert, _⟩ := dynatt_hyps
  obtain ⟨st, h1, h2, h3⟩ := C08.attack_assumption_solvers_answer hsem hfac hreach q hl hs hrun
  subst hse hops hqe hle hid h2
  obtain ⟨e, he, hext, hne⟩ := (C08.skeptical_answer_meaning .ST d.pending 3 2 a h3 hl).2 hst
  rw [hcert] at he
  injection he with he
  subst he
  refine ⟨d.pending, h1, hl, hext, hne, ?_⟩
  rcases (C09.attack_assumption_solvers_stay_usable hfac hreach .skep hq hl hs).2 with
    ⟨d'', a'', w'', _, _, hinv, hp, _⟩ | ⟨w'', h⟩ | ⟨w'', h⟩
  · exact ⟨d'', w'', hinv, hp⟩
  · rw [hrun] at h; cases h
  · rw [hrun] at h; cases h

/-! ## 4. the command line on the bytes of an instance file -/

section cli
open Crusta.Cli

/-- `p af 3\n1 2\n2 1\n2 3\n` -/
def bytesA : List UInt8 :=
  [112, 32, 97, 102, 32, 51, 10, 49, 32, 50, 10, 50, 32, 49, 10, 50, 32, 51, 10]
def fwA : IO.IccmaFw := ⟨3, [(0, 1), (1, 0), (1, 2)]⟩
/-- `DC-PR` -/
def sDCPR : Cli.Str := [68, 67, 45, 80, 82]
def storeA : Store := Store.ofIccma 3 [(0, 1), (1, 0), (1, 2)]
/-- the program the command line dispatches DC-PR to: the complete solver's credulous query -/
def pCli : Prog Ans := certOnly true (coDCcert cfgA storeA.view [2])

/-- all hypotheses of `C05.cli_on_readable_file`: the file `p af 3\n1 2\n2 1\n2 3\n` (bytes), the
problem string `DC-PR`, the default encoding, `-a 3` (the string `3`), certificate requested -/
theorem cli_hyps :
    ∃ (bs : List UInt8) (fw : IO.IccmaFw) (s : Cli.Str) (t : Task) (σ : Sem) (enc : Option String) (cfg : Cfg)
      (cert : Bool) (argStr : Cli.Str) (a : Nat) (w : World),
      IO.readIccma bs = .ok fw ∧
      readProblem s = some (t, σ) ∧
      (∀ k, dispatchEncoder σ enc (decide (s = s_SEPR)) = some k → cfg.enc = k) ∧
      (t ≠ .SE → IO.iccmaArgOfStr fw.n argStr = some a) ∧
      w.Bounded ∧
      cfg.fuel ≥ fuelFor (1 + (Store.ofIccma fw.n fw.atts).view.maxId.getD 0) ∧
      bs = [112, 32, 97, 102, 32, 51, 10, 49, 32, 50, 10, 50, 32, 49, 10, 50, 32, 51, 10] ∧
      fw = ⟨3, [(0, 1), (1, 0), (1, 2)]⟩ ∧ s = [68, 67, 45, 80, 82] ∧ t = .DC ∧ σ = .PR ∧ enc = none ∧
      cfg = cfgA ∧ cert = true ∧ argStr = [51] ∧ a = 2 ∧ w = {} := by
  refine ⟨bytesA, fwA, sDCPR, .DC, .PR, none, cfgA, true, [51], 2, {}, by decide +kernel, by decide +kernel, ?_,
    fun _ => by decide +kernel, Bounded_empty, by decide +kernel, rfl, rfl, rfl, rfl, rfl, rfl, rfl, rfl, rfl, rfl,
    rfl⟩
  intro k hk
  have h : dispatchEncoder .PR none (decide (sDCPR = s_SEPR)) = some .auxCO := by decide +kernel
  rw [h] at hk
  injection hk

/-- the conclusion of `C05.cli_on_readable_file` by applying it, and then read on a run: the program
is `pCli`; on the sound reply list `[sat mCO]` (the model of `static_hyps_CO_dc`) it returns YES
with the certificate `{2, 0}`, which — by the theorem — is a complete extension of the graph
declared by the file and contains the argument 2 (`-a 3`), some preferred extension containing it -/
theorem cli_concl :
    ∃ (p : Prog Ans) (rs : List Reply) (w' : World),
      entryProg (dispatchSolver .DC .PR) cfgA storeA.view (entryOf .DC true [2]) = some p ∧
      rs = [.sat mCO] ∧ RunSound p rs {} ∧
      interp p rs {} = (.done (.acc ⟨true, some [2, 0]⟩ true), w') ∧
      (∀ x, storeA.g.live x = true ↔ x < 3) ∧
      (∀ x y, storeA.g.att x y ↔ (x, y) ∈ [(0, 1), (1, 0), (1, 2)]) ∧
      (∃ S, Sem.PR.GExt storeA.g S ∧ HitsL [2] S) ∧
      Sem.CO.GExt storeA.g (ofList [2, 0]) ∧ HitsL [2] (ofList [2, 0]) := by
  obtain ⟨bs, fw, s, t, σ, enc, cfg, cert, argStr, a, w, hfile, hread, henc, harg, hb, hfuel, _, hfw, _, ht, hσ, _,
    hcfg, hcert, _, ha, hw⟩ := cli_hyps
  subst hfw ht hσ hcfg hcert ha hw
  obtain ⟨hlive, hatt, p, hp, hwp⟩ := C05.cli_on_readable_file bs _ hfile s .DC .PR hread enc cfgA henc true
    argStr 2 (fun h => harg h) {} hb hfuel
  have hp' : p = pCli := by
    have : entryProg (dispatchSolver .DC .PR) cfgA storeA.view (entryOf .DC true [2]) = some pCli := rfl
    exact Option.some.inj (hp.symm.trans this)
  subst hp'
  have hs : RunSound pCli [.sat mCO] {} := runSoundB_sound _ _ _ (by decide +kernel)
  have hrun : interp pCli [.sat mCO] {} =
      (.done (.acc ⟨true, some [2, 0]⟩ true), (interp pCli [.sat mCO] {}).2) := rfl
  obtain ⟨_, hdc, _⟩ := wp_sound _ _ _ _ _ _ hwp hs hrun
  obtain ⟨hS, hc⟩ := hdc.1 rfl
  obtain ⟨e, he, hext, hhit⟩ := hc rfl
  injection he with he
  subst he
  exact ⟨pCli, _, _, hp, rfl, hs, hrun, hlive, hatt, hS, hext, hhit⟩

end cli

/-! ## 5. readers and writers -/

section io
open Crusta.IO Crusta.Sat

/-! ### (a) `C14.store_framework_roundtrip_default` (no hypothesis) on a history with a rejected
update, a removal and a re-addition -/

def opsIO : List StoreOp :=
  [.newArg 1, .newArg 2, .newArg 3, .newAtt 1 2, .newAtt 2 3, .newAtt 3 1, .remAtt 9 9, .remArg 2, .newArg 2,
   .newAtt 2 1]
def storeIO : Store :=
  opsIO.foldl (fun s o => match s.step o with | .ok s' => s' | .err s' => s' | .panic => s) Store.empty
def nameIO : Nat → IO.Str := fun l : Nat => strOf "a" ++ natToStr l
def labelsIO : List IO.Str := storeIO.liveArgs.map (fun p => nameIO p.2)
def attsIO : List (IO.Str × IO.Str) :=
  storeIO.iterAttacks.map (fun p => (nameIO ((storeIO.labelOf p.1).getD 0), nameIO ((storeIO.labelOf p.2).getD 0)))
/-- `arg(a1).\narg(a3).\narg(a2).\natt(a3,a1).\natt(a2,a1).\n` -/
def textIO : IO.Str :=
  [97, 114, 103, 40, 97, 49, 41, 46, 10, 97, 114, 103, 40, 97, 51, 41, 46, 10, 97, 114, 103, 40, 97, 50, 41, 46, 10,
   97, 116, 116, 40, 97, 51, 44, 97, 49, 41, 46, 10, 97, 116, 116, 40, 97, 50, 44, 97, 49, 41, 46, 10]

/-- the theorem instantiated on `opsIO` (`labelsIO` / `attsIO` are its `labels` / `atts`): the store
holds the arguments 1, 3, 2 (ids 0, 2, 3) and the attacks `3 → 1`, `2 → 1`; the text written is
`textIO`; it reads back as the labels `a1 a3 a2` with the attacks `(1, 0)`, `(2, 0)` -/
theorem io_store_concl :
    storeIO.liveArgs = [(0, 1), (2, 3), (3, 2)] ∧ storeIO.iterAttacks = [(2, 0), (3, 0)] ∧
    writeApx labelsIO attsIO = textIO ∧
    readApx (encodeUtf8 textIO) = .ok ⟨[[97, 49], [97, 51], [97, 50]], [(1, 0), (2, 0)]⟩ := by
  have h : readApx (encodeUtf8 (writeApx labelsIO attsIO)) =
      .ok ⟨labelsIO, attsIO.map (fun p => ((idxOf labelsIO p.1).getD 9999, (idxOf labelsIO p.2).getD 9999))⟩ :=
    C14.store_framework_roundtrip_default opsIO
  have e1 : writeApx labelsIO attsIO = textIO := by decide +kernel
  have e2 : (⟨labelsIO, attsIO.map (fun p => ((idxOf labelsIO p.1).getD 9999, (idxOf labelsIO p.2).getD 9999))⟩ :
      ApxFw) = ⟨[[97, 49], [97, 51], [97, 50]], [(1, 0), (2, 0)]⟩ := by decide +kernel
  rw [e1, e2] at h
  exact ⟨by decide +kernel, by decide +kernel, e1, h⟩

/-! ### (b) `C13.iccma_wellformed_accepted_general` -/

/-- `#hi\np af 2\n#x\n1 2\n\n#end` — a comment before the header, one between the attack lines, a
blank line and a comment after them, no final newline -/
def bytesB : List UInt8 :=
  [35, 104, 105, 10, 112, 32, 97, 102, 32, 50, 10, 35, 120, 10, 49, 32, 50, 10, 10, 35, 101, 110, 100]

theorem io_hyps_iccma :
    ∃ (n : Nat) (pre : List IO.Str) (items : List IccmaItem) (post : List IO.Str) (finalNl : Bool),
      n ≤ 9223372036854775807 ∧
      (∀ t ∈ pre, LineOk (35 :: t)) ∧ (∀ it ∈ items, it.Ok n) ∧
      (∀ t ∈ post, TrailOk t) ∧ (finalNl = false → post.getLast? ≠ some []) ∧
      n = 2 ∧ pre = [[104, 105]] ∧ items = [.comment [120], .att (0, 1)] ∧ post = [[], [35, 101, 110, 100]] ∧
      finalNl = false ∧
      -- the bytes of the file the theorem is about
      encodeUtf8 (joinLines
        (pre.map (fun t => 35 :: t) ++ (iccmaHeader n :: (items.map IccmaItem.line ++ post))) finalNl) = bytesB := by
  refine ⟨2, [[104, 105]], [.comment [120], .att (0, 1)], [[], [35, 101, 110, 100]], false, by decide, ?_, ?_, ?_,
    fun _ => by decide, rfl, rfl, rfl, rfl, rfl, by decide +kernel⟩
  · intro t ht
    simp only [List.mem_singleton] at ht; subst ht
    exact lineOk_of_small _ (by decide) (by decide)
  · intro it hit
    simp only [List.mem_cons, List.not_mem_nil, or_false] at hit
    rcases hit with rfl | rfl
    · exact lineOk_of_small _ (by decide) (by decide)
    · exact ⟨by decide, by decide⟩
  · intro t ht
    simp only [List.mem_cons, List.not_mem_nil, or_false] at ht
    rcases ht with rfl | rfl
    · exact Or.inl rfl
    · exact Or.inr ⟨_, rfl, lineOk_of_small _ (by decide) (by decide)⟩

/-- the conclusion, by applying the theorem: the file is read as 2 arguments and the attack `(0, 1)` -/
theorem io_concl_iccma : readIccma bytesB = .ok ⟨2, [(0, 1)]⟩ := by
  obtain ⟨n, pre, items, post, finalNl, hn, hpre, hit, hpost, hlast, _, _, hitems, _, _, hb⟩ := io_hyps_iccma
  have h := C13.iccma_wellformed_accepted_general n pre items post finalNl hn hpre hit hpost hlast
  rw [hb] at h
  subst_vars
  exact h

/-! ### (c) `C16.malformed_reply_aborts`, part 3 -/

/-- `s UNSATISFIABLE\ns SATISFIABLE\nv 1 0\n` -/
def bytesC : List UInt8 :=
  [115, 32, 85, 78, 83, 65, 84, 73, 83, 70, 73, 65, 66, 76, 69, 10, 115, 32, 83, 65, 84, 73, 83, 70, 73, 65, 66, 76, 69,
   10, 118, 32, 49, 32, 48, 10]

theorem io_hyps_reply :
    ∃ (nv : Nat) (out : List UInt8) (a b : List (Option IO.Str)),
      IO.lines out = a ++ some sUnsat :: b ∧
      (∃ l ∈ b, BadLine nv l ∨ StatusLine l) ∧
      nv = 1 ∧ out = bytesC ∧ a = [] ∧ b = [some sSat, some [118, 32, 49, 32, 48]] := by
  refine ⟨1, bytesC, [], [some sSat, some [118, 32, 49, 32, 48]], by decide +kernel,
    ⟨some sSat, by simp, Or.inr (Or.inl rfl)⟩, rfl, rfl, rfl, rfl⟩

/-- the conclusion, by applying the theorem (and the evaluated outcome: the call aborts) -/
theorem io_concl_reply : parseReply 1 bytesC ≠ .unsat ∧ ∃ e, parseReply 1 bytesC = .abort e := by
  obtain ⟨nv, out, a, b, hl, hb, hnv, hout, _, _⟩ := io_hyps_reply
  subst hnv hout
  exact ⟨(C16.malformed_reply_aborts 1 bytesC).2.2.1 a b hl hb, ⟨_, rfl⟩⟩

/-- (b) and (c) together -/
theorem io_hyps :
    (∃ (n : Nat) (pre : List IO.Str) (items : List IccmaItem) (post : List IO.Str) (finalNl : Bool),
      n ≤ 9223372036854775807 ∧
      (∀ t ∈ pre, LineOk (35 :: t)) ∧ (∀ it ∈ items, it.Ok n) ∧
      (∀ t ∈ post, TrailOk t) ∧ (finalNl = false → post.getLast? ≠ some []) ∧
      encodeUtf8 (joinLines
        (pre.map (fun t => 35 :: t) ++ (iccmaHeader n :: (items.map IccmaItem.line ++ post))) finalNl) = bytesB) ∧
    (∃ (nv : Nat) (out : List UInt8) (a b : List (Option IO.Str)),
      IO.lines out = a ++ some sUnsat :: b ∧ (∃ l ∈ b, BadLine nv l ∨ StatusLine l) ∧ nv = 1 ∧ out = bytesC) := by
  obtain ⟨n, pre, items, post, finalNl, h1, h2, h3, h4, h5, _, _, _, _, _, h6⟩ := io_hyps_iccma
  obtain ⟨nv, out, a, b, g1, g2, g3, g4, _⟩ := io_hyps_reply
  exact ⟨⟨n, pre, items, post, finalNl, h1, h2, h3, h4, h5, h6⟩, ⟨nv, out, a, b, g1, g2, g3, g4⟩⟩

theorem io_concl :
    readApx (encodeUtf8 textIO) = .ok ⟨[[97, 49], [97, 51], [97, 50]], [(1, 0), (2, 0)]⟩ ∧
    readIccma bytesB = .ok ⟨2, [(0, 1)]⟩ ∧
    parseReply 1 bytesC ≠ .unsat :=
  ⟨io_store_concl.2.2.2, io_concl_iccma, io_concl_reply.1⟩

end io

end Crusta.NonVacuity
