import Crusta.Model.Readers

/-!
# What the Aspartix reader accepts is a well-formed framework

`readApx_wfa`: whatever the bytes, a framework returned by `readApx` has pairwise distinct labels,
every attack between positions of declared labels, and no attack listed twice.
-/

namespace Crusta.IO
open Crusta

/-- pairwise distinct labels, attacks between declared positions, no attack twice -/
structure ApxFw.WFA (fw : ApxFw) : Prop where
  labels_nodup : fw.labels.Nodup
  atts_lt : ∀ p ∈ fw.atts, p.1 < fw.labels.length ∧ p.2 < fw.labels.length
  atts_nodup : fw.atts.Nodup

def ApxSt.WFA (st : ApxSt) : Prop := ∀ af, st.af = some af → af.WFA

theorem dedup_go_nodup (l acc : List Str) (h : acc.Nodup) :
    (l.foldl (fun acc x => if acc.contains x then acc else acc ++ [x]) acc).Nodup := by
  induction l generalizing acc with
  | nil => exact h
  | cons x xs ih =>
    simp only [List.foldl_cons]
    split
    · exact ih acc h
    · rename_i hc
      apply ih
      rw [List.nodup_append]
      refine ⟨h, List.pairwise_singleton _ _, ?_⟩
      intro a ha b hb e
      simp only [List.mem_singleton] at hb
      subst hb; subst e
      exact hc (by simpa using ha)

/-- `dedup` returns pairwise distinct labels, whatever the list -/
theorem dedup_is_nodup (l : List Str) : (dedup l).Nodup :=
  dedup_go_nodup l [] List.nodup_nil

/-- a position returned by the label look-up is a position of the list -/
theorem idxOf_lt (l : List Str) (x : Str) (i : Nat) (h : idxOf l x = some i) : i < l.length := by
  unfold idxOf at h
  rw [List.findIdx?_eq_some_iff_findIdx_eq] at h
  exact h.1

theorem wfa_fresh (labels : List Str) : (⟨dedup labels, []⟩ : ApxFw).WFA :=
  ⟨dedup_is_nodup labels, fun p hp => by simp at hp, List.nodup_nil⟩

/-- the attack step of the line parser on a well-formed framework -/
theorem apxAtt_wfa (st st' : ApxSt) (a b : Str) (af0 : ApxFw) (hwf : af0.WFA)
    (hr : (match idxOf af0.labels a, idxOf af0.labels b with
      | some i, some j =>
        if af0.atts.contains (i, j) then Except.ok { st with af := some af0 }
        else .ok { st with af := some { af0 with atts := af0.atts ++ [(i, j)] } }
      | _, _ => (.error "cannot add an attack: unknown argument" : Except String ApxSt)) = .ok st') :
    st'.WFA := by
  split at hr
  · rename_i i j hi hj
    split at hr
    · cases hr
      intro af haf
      simp only [Option.some.injEq] at haf
      subst haf
      exact hwf
    · rename_i hc
      cases hr
      intro af haf
      simp only [Option.some.injEq] at haf
      subst haf
      refine ⟨hwf.labels_nodup, ?_, ?_⟩
      · intro p hp
        simp only [List.mem_append, List.mem_singleton] at hp
        rcases hp with hp | hp
        · exact hwf.atts_lt p hp
        · subst hp
          exact ⟨idxOf_lt _ _ _ hi, idxOf_lt _ _ _ hj⟩
      · show (af0.atts ++ [(i, j)]).Nodup
        rw [List.nodup_append]
        refine ⟨hwf.atts_nodup, List.pairwise_singleton _ _, ?_⟩
        intro p hp q hq e
        simp only [List.mem_singleton] at hq
        subst hq; subst e
        exact hc (by simpa using hp)
  · cases hr

theorem apxLine_wfa (st st' : ApxSt) (line : Option Str) (h : st.WFA) (hr : apxLine st line = .ok st') :
    st'.WFA := by
  unfold apxLine at hr
  split at hr
  · cases hr
  · rename_i l
    split at hr
    · cases hr; exact h
    · split at hr
      · split at hr
        · cases hr
        · cases hr
          intro af haf
          exact h af haf
      · split at hr
        · cases hr
        · rename_i a b _
          simp only [] at hr
          have hwf : (match st.af with | some af => af | none => (⟨dedup st.labels, []⟩ : ApxFw)).WFA := by
            cases haf : st.af with
            | none => exact wfa_fresh _
            | some af => exact h af haf
          exact apxAtt_wfa st st' a b _ hwf hr

theorem foldLines_apx_wfa : ∀ (ls : List (Option Str)) (st st' : ApxSt), st.WFA →
    foldLines apxLine st ls = .ok st' → st'.WFA
  | [], st, st', h, hr => by simp [foldLines] at hr; subst hr; exact h
  | l :: ls, st, st', h, hr => by
    simp only [foldLines] at hr
    split at hr
    · rename_i s' hs'
      exact foldLines_apx_wfa ls s' st' (apxLine_wfa st s' l h hs') hr
    · cases hr

/-- every file the Aspartix reader accepts denotes a well-formed framework -/
theorem readApx_wfa (bs : List UInt8) (fw : ApxFw) (h : readApx bs = .ok fw) :
    fw.labels.Nodup ∧ (∀ p ∈ fw.atts, p.1 < fw.labels.length ∧ p.2 < fw.labels.length) ∧ fw.atts.Nodup := by
  suffices hw : fw.WFA from ⟨hw.labels_nodup, hw.atts_lt, hw.atts_nodup⟩
  unfold readApx at h
  split at h
  · cases h
  · rename_i st hst
    have hst' : st.WFA := foldLines_apx_wfa _ _ st (by intro af h; cases h) hst
    split at h
    · rename_i af haf
      cases h
      exact hst' _ haf
    · cases h
      exact wfa_fresh _

end Crusta.IO
