#!/bin/sh
# usage: harmtest.sh <worktree> <props...> : applies a property-preserving patch to /repo, runs the checks, reverts
WT=$1; shift
cd /repo && git apply $WT/patch.diff || { echo "patch does not apply"; exit 3; }
for p in "$@"; do
  cd /verif; O=$(./check $p 2>&1); echo "$O" | grep -E "quick" ; echo "$O" | grep -E "^  - " | cut -c1-220 | head -4
done
cd /repo && git checkout -- . && git status --short | head -3
