import Driver.Enc
import Crusta.Model.Solvers

/-! Driver side of the solver traces: replay the recorded replies on the `Prog` models. -/

namespace Driver
open Crusta

def storeOfSpec (spec : String) : Option Store :=
  if spec.startsWith "h:" then
    let ops := opsOf (spec.drop 2).toString
    some (ops.foldl (fun s o => match s.step o with | .ok s' => s' | .err s' => s' | .panic => s) Store.empty)
  else if spec.startsWith "i:" then
    let (n, atts) := match (spec.drop 2).toString.splitOn ":" with
      | [n] => (natOf n, [])
      | [n, a] => (natOf n, attList a)
      | _ => (0, [])
    some (Store.ofIccma n (atts.map (fun p => (p.1 - 1, p.2 - 1))))
  else none

def solverKindOf (s : String) : Option SolverKind :=
  match s with
  | "GR" => some .GR | "CO" => some .CO | "PR" => some .PR | "ST" => some .ST
  | "SST" => some .SST | "STG" => some .STG | "ID" => some .ID | _ => none

def encOf (sk : SolverKind) (name : String) : Option EncKind :=
  if name == "def" || name == "" then
    match sk with
    | .STG => some .auxCF
    | .ST => some .stb
    | .GR => some .stb
    | _ => some .auxCO
  else if sk == .ST || sk == .GR then some .stb
  else EncKind.ofString? name

def renderLits (l : List Lit) : String := " ".intercalate (l.map (fun x => toString x.toInt))

def renderModel (m : Model) : String :=
  String.ofList (m.map (fun v => match v with | some true => '+' | some false => '-' | none => '?'))

def renderEv : Ev → String
  | .new s => s!"S {s} new"
  | .reserve s n => s!"S {s} r {n}"
  | .clause s c => s!"S {s} c {renderLits c}"
  | .nvars s v => s!"S {s} n {v}"
  | .solve s a => s!"S {s} q {renderLits a}"
  | .reply s (.sat m) => s!"S {s} s {renderModel m}"
  | .reply s .unsat => s!"S {s} u"
  | .reply s .unknown => s!"S {s} k"

def parseReply (l : String) : Option Reply :=
  match toks l with
  | ["S", _, "s", bits] => some (.sat (parseBits bits))
  | ["S", _, "s"] => some (.sat [])
  | ["S", _, "u"] => some .unsat
  | ["S", _, "k"] => some .unknown
  | _ => none

def denseOf (s : Store) (ids : List Nat) : String :=
  let live := s.liveArgs.map (·.1)
  if ids.isEmpty then "[]" else ",".intercalate (ids.map (fun i => toString ((posOf live i).getD 9999)))

def renderAns (s : Store) : Ans → String
  | .ext none => "ans SE ext=NONE members=1"
  | .ext (some e) => s!"ans SE ext={denseOf s e} members=1"
  | .acc a certVariant =>
    let c := if !certVariant then "-" else match a.cert with | none => "NONE" | some e => denseOf s e
    s!"ans ACC status={if a.status then "YES" else "NO"} cert={c} members=1"

/-- split the lines of a case into per-query chunks (from each `query` line up to the next) -/
def queryChunks (lines : List String) : List (List String) :=
  let rec go (ls : List String) (cur : Option (List String)) (acc : List (List String)) : List (List String) :=
    match ls with
    | [] => (match cur with | some c => (c.reverse :: acc) | none => acc).reverse
    | l :: rest =>
      if l.startsWith "query " then
        go rest (some [l]) (match cur with | some c => c.reverse :: acc | none => acc)
      else if l.startsWith "unchanged" then
        go rest none (match cur with | some c => c.reverse :: acc | none => acc)
      else go rest (cur.map (fun c => l :: c)) acc
  go lines none []

def runTrace (lines : List String) : List String := Id.run do
  let inl := (lines.find? (fun l => l.startsWith "in ")).getD ""
  let ts := toks inl
  let some store := storeOfSpec (kvGetD ts "fw" "") | return ["T-ERR unparsable framework"]
  let some sk := solverKindOf (kvGetD ts "sem" "") | return ["T-ERR unknown solver"]
  let some enc := encOf sk (kvGetD ts "enc" "def") | return ["T-ERR unknown encoder"]
  let v := store.view
  let mut world : World := {}
  let mut out : List String := []
  for chunk in queryChunks lines do
    let q := toks (chunk.headD "")
    let task := kvGetD q "task" ""
    let cert := kvGetD q "cert" "0" == "1"
    -- dense ranks back to ids
    let live := store.liveArgs.map (·.1)
    let args := (natList (kvGetD q "args" "-")).map (fun r => live.getD r 0)
    let entry : Entry := if task == "SE" then .se else if task == "DC" then .dc cert args else .ds cert args
    let replies := chunk.filterMap parseReply
    out := (chunk.headD "") :: out
    match entryProg sk ⟨enc, 100000⟩ v entry with
    | none => out := "T-ERR entry point not offered by this solver" :: out
    | some p =>
      let w0 : World := { world with trace := [], calls := 0 }
      let (oc, w) := interp p replies w0
      world := w
      for e in w.trace.reverse do
        out := renderEv e :: out
      match oc with
      | .done a => out := renderAns store a :: out
      | .abort => out := "panic abort" :: out
      | .crashed m => out := s!"panic crash {m}" :: out
      | .starved => out := "T-STARVED" :: out
      out := s!"calls {w.calls}" :: out
  return out.reverse

end Driver
