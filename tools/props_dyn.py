"""C08 (dynamic solvers answer for the current framework), C09 (redundant / invalid updates)."""
import re

from engine import Property, Finding

KINDS = {
    "co": ["dc"], "st": ["dc", "ds"], "pr": ["ds"], "co_att": ["dc"], "st_att": ["dc", "ds"],
    "dummy_GR": ["dc", "ds"], "dummy_CO": ["dc"], "dummy_PR": ["ds"], "dummy_ST": ["dc", "ds"],
    "dummy_SST": ["dc", "ds"], "dummy_STG": ["dc", "ds"], "dummy_ID": ["dc", "ds"],
}
FACTORS = ["1", "1.5", "2", "3.7"]
MODELLED = ("co", "st", "pr", "co_att", "st_att", "dummy_GR", "dummy_CO", "dummy_PR", "dummy_ST", "dummy_SST", "dummy_STG", "dummy_ID")   # kinds with a Lean model replayed call by call (buffered solvers: Model/Dyn.lean; attack-assumption variants: Model/DynAtt.lean; recompute wrapper: store + static solver programs)


def impl_stream(impl):
    out = []
    dead = False
    for l in impl:
        t = l.split(" ")
        if l.startswith("S "):
            if dead:
                continue   # destructor calls while a panic unwinds
            if len(t) == 3 and t[2] == "k":
                dead = True
            out.append(" ".join(x for x in t if x))
        elif l.startswith("U "):
            out.append("U %s %s" % (t[1], t[2]))
        elif l.startswith("Q "):
            dead = False
            out.append(l)
        elif l.startswith("ans "):
            out.append("ans %s %s" % (t[2], t[3]))
        elif l.startswith("panic"):
            out.append("panic")
    return out


def model_stream(model):
    out = []
    stopped = False
    for l in model:
        t = l.split(" ")
        if l.startswith("T "):
            out.append(" ".join(x for x in t[1:] if x))
        elif l.startswith("mU "):
            out.append("U %s %s" % (t[1], t[2]))
        elif l.startswith("mQ "):
            out.append("Q %s %s" % (t[1], t[2]))
        elif l.startswith("mans ACC"):
            out.append("ans %s %s" % (t[2], t[3]))
        elif l.startswith("mans "):
            out.append("panic")
        elif l == "mstop":
            stopped = True
    return out, stopped


def gen_history(rng, kind, length, bad_rate=0.0):
    u = rng.randint(3, 7)
    universe = rng.sample(range(1, 50), u)
    live = []
    atts = set()
    gone = []
    toks = []
    queries = KINDS[kind]
    for _ in range(length):
        r = rng.random()
        if bad_rate and rng.random() < bad_rate:
            k = rng.choice(["dupA", "dup+", "R?", "-?", "+?", "-gone", "-gone"])
            if k == "-gone" and gone:
                # an attack that vanished when one of its endpoints was removed (the endpoint possibly re-added since,
                # or re-added right now): removing it is invalid
                a, b = rng.choice(gone)
                for x in (a, b):
                    if x not in live and rng.random() < 0.5:
                        live.append(x)
                        toks.append("A%d" % x)
                if (a, b) not in atts:
                    toks.append("-%d>%d" % (a, b))
                    continue
            if k == "dupA" and live:
                toks.append("A%d" % rng.choice(live))
                continue
            if k == "dup+" and atts:
                a, b = rng.choice(sorted(atts))
                toks.append("+%d>%d" % (a, b))
                continue
            dead = [x for x in universe if x not in live] or [99]
            if k == "R?":
                toks.append("R%d" % rng.choice(dead))
                continue
            if k == "-?" and live:
                a, b = rng.choice(live), rng.choice(live)
                if (a, b) not in atts:
                    toks.append("-%d>%d" % (a, b))
                    continue
            if k == "+?" and live:
                a, b = rng.choice(live), rng.choice(dead)
                toks.append(rng.choice(["+%d>%d" % (a, b), "+%d>%d" % (b, a)]))
                continue
        if r < 0.22 or not live:
            cand = [x for x in universe if x not in live]
            if cand:
                l = rng.choice(cand)
                live.append(l)
                toks.append("A%d" % l)
                continue
        if r < 0.30 and len(live) > 1:
            l = rng.choice(live)
            live.remove(l)
            gone = ([(a, b) for (a, b) in sorted(atts) if a == l or b == l] + gone)[:6]
            atts = set((a, b) for (a, b) in atts if a != l and b != l)
            toks.append("R%d" % l)
            if bad_rate and gone and rng.random() < 0.25:
                # right away, before any query: the removal of an attack that has just vanished with its endpoint
                a, b = gone[0]
                if rng.random() < 0.5:
                    live.append(l)
                    toks.append("A%d" % l)
                toks.append("-%d>%d" % (a, b))
            continue
        if r < 0.60 and live:
            a, b = rng.choice(live), rng.choice(live)
            if rng.random() < 0.85 and a == b and len(live) > 1:
                b = rng.choice([x for x in live if x != a])
            if (a, b) not in atts:
                atts.add((a, b))
                toks.append("+%d>%d" % (a, b))
                continue
        if r < 0.70 and atts:
            a, b = rng.choice(sorted(atts))
            atts.discard((a, b))
            toks.append("-%d>%d" % (a, b))
            continue
        if live:
            q = rng.choice(queries)
            toks.append("?%s%d:%d" % (q, rng.choice([0, 1]), rng.choice(live)))
            if rng.random() < 0.3:
                toks.append("?%s%d:%d" % (rng.choice(queries), rng.choice([0, 1]), rng.choice(live)))
    if live:
        toks.append("?%s1:%d" % (rng.choice(queries), rng.choice(live)))
    return toks


def gadget_prefix(rng, kind):
    """builds a union of semantic gadgets (floating acceptance, cliques, odd cycles, self-attackers ...) through
    update calls in random order, with queries in between; labels 60.. so that the random part that follows
    (labels below 50) works next to it, sometimes preceded by an argument that is removed again (sparse ids)"""
    import gen
    n, atts = gen.gadget_union(rng, 5)
    labs = [60 + i for i in range(n)]
    toks = []
    if rng.random() < 0.4:
        toks += ["A59", "R59"]
    order = list(range(n))
    rng.shuffle(order)
    toks += ["A%d" % labs[i] for i in order]
    atts = list(dict.fromkeys(atts))
    rng.shuffle(atts)
    queries = KINDS[kind]
    for (a, b) in atts:
        toks.append("+%d>%d" % (labs[a], labs[b]))
        if rng.random() < 0.2:
            toks.append("?%s%d:%d" % (rng.choice(queries), rng.choice([0, 1]), rng.choice(labs)))
    for _ in range(rng.randint(1, 4)):
        toks.append("?%s%d:%d" % (rng.choice(queries), rng.choice([0, 1]), rng.choice(labs)))
    return toks


def large_history(rng, kind):
    """medium-size frameworks (14-36 arguments) built and modified through update calls: too large for the exponential
    reference deciders, covered by the call-by-call correspondence with the proved models; attacks mostly go from
    earlier to later arguments (few cycles) so that the enumerating searches stay short"""
    n = rng.randint(14, 36)
    labs = rng.sample(range(100, 400), n)
    toks = ["A%d" % l for l in labs]
    atts = set()
    queries = KINDS[kind]
    for i in range(1, n):
        for _ in range(1 if rng.random() < 0.8 else 2):
            j = rng.randrange(max(0, i - 5), i)
            if (j, i) not in atts:
                atts.add((j, i))
                toks.append("+%d>%d" % (labs[j], labs[i]))
    for _ in range(rng.randint(0, 3)):
        a, b = rng.randrange(n), rng.randrange(n)
        if (a, b) not in atts:
            atts.add((a, b))
            toks.append("+%d>%d" % (labs[a], labs[b]))
    live = list(range(n))
    for _ in range(rng.randint(6, 16)):
        r = rng.random()
        if r < 0.45:
            toks.append("?%s%d:%d" % (rng.choice(queries), rng.choice([0, 1]), labs[rng.choice(live)]))
        elif r < 0.60 and atts:
            a, b = rng.choice(sorted(atts))
            atts.discard((a, b))
            toks.append("-%d>%d" % (labs[a], labs[b]))
        elif r < 0.75:
            a, b = rng.choice(live), rng.choice(live)
            if (a, b) not in atts:
                atts.add((a, b))
                toks.append("+%d>%d" % (labs[a], labs[b]))
        elif r < 0.85 and len(live) > 10:
            a = rng.choice(live)
            live.remove(a)
            atts = set(p for p in atts if a not in p)
            toks.append("R%d" % labs[a])
        else:
            l = rng.randrange(400, 500)
            if l not in labs:
                labs.append(l)
                live.append(len(labs) - 1)
                toks.append("A%d" % l)
    toks.append("?%s1:%d" % (rng.choice(queries), labs[rng.choice(live)]))
    return toks


class DynProperty(Property):
    families = ["dyn"]
    bad_rate = 0.0
    assumptions = ["CaDiCaL assumed sound and complete", "the framework 'as it stands' is a shadow AAFramework kept by the harness (only accepted updates applied); frameworks have at most 12 live arguments (random part at most 7, optionally next to a union of semantic gadgets of at most 5) so that every answer is judged by the proved deciders; about one history in ten of the modelled solver kinds works on 14-36 arguments instead: those answers are not judged (exponential deciders) but compared, like every SAT-interface event, with the proved Lean model"]

    def cases(self, tier, rng):
        lines = []
        per = 140 if tier == "quick" else 6000
        for kind in KINDS:
            k = per if not kind.startswith("dummy") else max(6, per // 4)
            for _ in range(k):
                toks = gen_history(rng, kind, rng.randint(5, 40 if tier == "quick" else 90), self.bad_rate)
                if rng.random() < 0.3:
                    toks = gadget_prefix(rng, kind) + toks
                elif kind in MODELLED and not kind.startswith("dummy") and rng.random() < 0.12:
                    toks = large_history(rng, kind)
                f = " factor=%s" % rng.choice(FACTORS) if kind.endswith("_att") else ""
                tr = " trace=1" if kind in MODELLED else ""
                if not kind.startswith("dummy") and rng.random() < 0.08 and "A1" not in "".join(toks[:0]):
                    # the convenience constructors (default SAT solver, default / given reservation factor): answers judged only
                    big = any(t.startswith("A") and int(t[1:]) >= 100 for t in toks)
                    if not big:
                        tr = " ctor=new" if (not kind.endswith("_att") or rng.random() < 0.5) else " ctor=new_factor"
                        if tr == " ctor=new":
                            f = ""
                lines.append("dyn x kind=%s%s%s hist=%s" % (kind, f, tr, ";".join(toks)))
        return lines

    def judge(self, case_line, impl, model):
        fs = []
        kind = [t for t in case_line.split(" ") if t.startswith("kind=")][0][5:]
        for l in impl:
            if l.startswith("U "):
                t = l.split(" ")
                if t[2] == "panic":
                    fs.append(Finding("input", case_line, "update call %s panicked: %s" % (t[1], " ".join(t[3:])[:80]), "%s · update panics" % kind))
                    return fs
                exp = t[3].split("=")[1]
                if t[2] != exp:
                    what = "an invalid update (%s) was not reported as an error by the update call" % t[1] if exp == "err" else "a valid or redundant update (%s) was rejected" % t[1]
                    fs.append(Finding("input", case_line, what, "%s · update result %s expected %s" % (kind, t[2], exp)))
                    return fs
        if kind in MODELLED and "trace=1" in case_line:
            a = impl_stream(impl)
            b, stopped = model_stream(model)
            if stopped:
                a = a[:len(b)]
            if a != b:
                i = 0
                while i < min(len(a), len(b)) and a[i] == b[i]:
                    i += 1
                fs.append(Finding("correspondence", case_line,
                                  "the dynamic solver and its Lean model (Crusta.Dyn) differ at event %d: impl %r model %r" % (i, a[i] if i < len(a) else None, b[i] if i < len(b) else None),
                                  "%s · model differs" % kind, {"impl": a[max(0, i - 3):i + 3], "model": b[max(0, i - 3):i + 3]}))
        for v in model:
            if v.startswith("verdict BAD") or v.startswith("verdict PANIC"):
                reason = v.split(" ", 3)[3] if v.startswith("verdict BAD") else "query panicked: " + ([l for l in impl if l.startswith("panic")] or ["panic ?"])[0][6:90]
                fs.append(Finding("input", case_line, reason, "%s · %s" % (kind, re.sub(r"\d+", "N", reason.split(":")[0])[:70])))
                return fs
        return fs

    def same_class(self, f, cur):
        return f.signature == cur.signature

    def shrink_candidates(self, case_line):
        toks = case_line.split(" ")
        out = []
        for ti, t in enumerate(toks):
            if t.startswith("hist="):
                ops = [o for o in t[5:].split(";") if o]
                for i in range(len(ops)):
                    out.append(" ".join(toks[:ti] + ["hist=" + ";".join(ops[:i] + ops[i + 1:])] + toks[ti + 1:]))
        return out[:70]

    def nontrivial(self, case_line):
        return ";R" in case_line and "?" in case_line

    def stats(self, cases, impl, model):
        from collections import Counter
        c = Counter()
        q = Counter()
        upd = Counter()
        for l in cases:
            kind = [t for t in l.split(" ") if t.startswith("kind=")][0][5:]
            c[kind] += 1
            for x in impl.get(l.split(" ")[1], []):
                if x.startswith("ans "):
                    q[kind + " " + x.split(" ")[2]] += 1
                if x.startswith("U "):
                    upd[" ".join(x.split(" ")[2:4])] += 1
        traced = 0
        events = 0
        cache_hits = 0
        for l in cases:
            if "trace=1" in l:
                m = model.get(l.split(" ")[1], [])
                traced += 1
                events += len([x for x in m if x.startswith("T ")])
                for i, x in enumerate(m):
                    if x.startswith("mQ ") and i + 1 < len(m) and m[i + 1].startswith("mans ACC"):
                        cache_hits += 1
        return {"distribution": {"histories_per_solver": dict(c), "answers": dict(q), "update_results": dict(upd),
                                 "histories_replayed_on_lean_model": traced, "sat_interface_events_compared": events,
                                 "queries_answered_from_cache": cache_hits}}


class C08(DynProperty):
    id = "C08"
    rule = ("random histories (5-40 operations quick / up to 60 thorough; label universes of 3-7, re-adding removed labels, queries interleaved at random, repeated queries so that "
            "the answer caches are hit, reservation factors 1, 1.5, 2, 3.7) of valid updates on the six dynamic solver types (the recompute-from-scratch wrapper over all seven static solvers); "
            "every status and certificate judged against the current framework with the proved deciders; non-trivial = history with a removal and a query")


class C09(DynProperty):
    id = "C09"
    bad_rate = 0.15
    rule = C08.rule + "; 15% of the operations are redundant (existing argument / attack) or invalid (unknown argument / attack, attack to or from an unknown argument); the result of every update call is compared with the expected ok/err and all later answers are judged"
