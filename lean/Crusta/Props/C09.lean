import Crusta.Proofs.Oracle
import Crusta.Proofs.DynHistory
import Crusta.Proofs.DynTotal
import Crusta.Proofs.DynAttHistory
import Crusta.Proofs.DynAttTotal

/-!
# C09 — redundant or invalid updates never corrupt a dynamic solver (property theorems)

Model and tie as for C08.  `update_call_contract` is proved for the buffered solvers of all three
semantics (the update path does not depend on the semantics); the statement about later answers
is `C08.dynamic_answers_for_current_framework` (complete, stable and preferred solvers), whose framework is
`runOps ops`: a history in which rejected or redundant updates have no effect.

`solver_stays_usable` / `preferred_solver_stays_usable` add that in every reachable state a supported
query about an existing argument **does not panic** (`Proofs/DynTotal.lean`): no `unwrap()` on a
missing variable, selector, label or cached id, no index out of bounds; for the preferred solver the
search loop terminates (the model's fuel, which the Rust loop does not have, is never exhausted when
it is at least `prFuel`, a bound on the number of iterations).
-/

namespace Crusta.C09
open Crusta Crusta.Dyn

theorem judge_is_exact (af : AF) (hwf : af.WF) (q : Query) (a : Answer) :
    checkAnswer af q a = .ok () ↔ Conforms af q a := checkAnswer_iff af hwf q a

/-- **the update calls.**  On every state satisfying the solver invariant: the call reports `ok`
or `err` exactly as the framework store does on the pending framework (C12 says when that is), never
panics; after an error the solver state is unchanged; an update that does not change the framework
(an argument or an attack that is already present) leaves the whole solver state unchanged; and
the invariant is kept, so the solver stays usable. -/
theorem update_call_contract {sem : DSem} {d : DState} {w : World} (h : QInv sem d w) (op : StoreOp) :
    QInv sem (d.update op).1 w ∧
    ((d.update op).2 = .ok ∧ d.pending.step op = .ok (d.update op).1.pending ∨
     (d.update op).2 = .err ∧ d.pending.step op = .err d.pending ∧ (d.update op).1 = d) ∧
    ((d.update op).1.pending = d.pending → (d.update op).1 = d) := update_preserves h op

/-- for every reachable state of the three solvers (complete, stable, preferred) the contract applies, and the
pending framework is the one obtained from the calls made so far with the rejected ones dropped -/
theorem reachable_states_keep_contract {sem : DSem} {fuel : Nat} {ops : List StoreOp}
    {d : DState} {w : World} (hreach : Reach sem fuel ops d w) (op : StoreOp) :
    Store.runOps Store.empty ops = some d.pending ∧
    Store.runOps Store.empty (ops ++ [op]) = some (d.update op).1.pending ∧
    ((d.update op).2 = .err → (d.update op).1 = d) := by
  obtain ⟨hq, _, hops⟩ := reach_inv hreach
  obtain ⟨_, _, hops'⟩ := reach_inv (Reach.update op hreach)
  refine ⟨hops, hops', ?_⟩
  intro herr
  rcases (update_preserves hq op).2.1 with ⟨hok, _⟩ | ⟨_, _, hd⟩
  · rw [hok] at herr; cases herr
  · exact hd

/-- **the solver stays usable** (complete and stable solvers).  In every state reachable from a fresh
solver by update calls — accepted, rejected or redundant — and by queries, a query the solver offers
(the complete solver has no skeptical query: `unimplemented!()`), about an argument of the current
framework, run on replies a correct SAT solver may give, never panics. -/
theorem solver_stays_usable {sem : DSem} (hsem : sem ≠ .PR) {fuel : Nat} {ops : List StoreOp}
    {d : DState} {w : World} (hreach : Reach sem fuel ops d w) (q : DQuery) (hq : sem = .CO → q = .cred)
    {l id : Nat} (hl : d.pending.Live id l) {fuel' : Nat} {rs : List Reply}
    (hs : RunSound (query fuel' d q l) rs w) :
    ∀ msg w', interp (query fuel' d q l) rs w ≠ (.crashed msg, w') := by
  obtain ⟨hq', henc, _⟩ := reach_inv hreach
  exact query_never_panics hsem hq' henc q hq hl hs

/-- **the preferred solver stays usable.**  The same for the skeptical query of the preferred solver
(the only one it offers); the one hypothesis is about the model, not the code: the fuel given to the
model's search loop covers the bound `prFuel` on its number of iterations
(`3 * 2 ^ n + 2`, `n` the number of argument ids issued so far), so that the node "fuel exhausted" —
which does not exist in the Rust loop — is not reached. -/
theorem preferred_solver_stays_usable {fuel : Nat} {ops : List StoreOp}
    {d : DState} {w : World} (hreach : Reach .PR fuel ops d w)
    {l id : Nat} (hl : d.pending.Live id l) {fuel' : Nat} (hfuel : prFuel d.pending ≤ fuel') {rs : List Reply}
    (hs : RunSound (query fuel' d .skep l) rs w) :
    ∀ msg w', interp (query fuel' d .skep l) rs w ≠ (.crashed msg, w') := by
  obtain ⟨hq', henc, _⟩ := reach_inv hreach
  exact pr_query_never_panics hq' henc hl hfuel hs

/-- all three solvers at once, with the outcome spelled out: the run ends with the right answer in a
state that satisfies the invariant again (so the next call finds a usable solver), or the SAT solver
gave up (`unknown`), or the recorded reply list is too short — never with a panic -/
theorem usable_after_any_history {sem : DSem} {fuel : Nat} {ops : List StoreOp}
    {d : DState} {w : World} (hreach : Reach sem fuel ops d w) (q : DQuery) (hq : Supported sem q)
    {l id : Nat} (hl : d.pending.Live id l) {fuel' : Nat} (hfuel : FuelOK sem d.pending fuel') {rs : List Reply}
    (hs : RunSound (query fuel' d q l) rs w) :
    (∃ d' a w', interp (query fuel' d q l) rs w = (.done (d', a), w') ∧ QInv sem d' w' ∧
        d'.pending = d.pending ∧ AnswerOK sem d.pending q l a) ∨
    (∃ w', interp (query fuel' d q l) rs w = (.abort, w')) ∨
    (∃ w', interp (query fuel' d q l) rs w = (.starved, w')) := by
  obtain ⟨hq', henc, _⟩ := reach_inv hreach
  exact supported_query_outcome hq' henc q hq hfuel hl hs

/-- non-vacuity of the fuel hypothesis: after `A1; A2; +1>2` the bound is 14 iterations -/
example : ∃ d w, Reach .PR 100 [.newArg 1, .newArg 2, .newAtt 1 2] d w ∧ d.pending.Live 1 2 ∧
    prFuel d.pending = 14 ∧ FuelOK .PR d.pending 100 :=
  ⟨_, _, Reach.update (.newAtt 1 2) (Reach.update (.newArg 2) (Reach.update (.newArg 1) Reach.init)),
    by unfold Store.Live; decide, by decide, fun _ => by decide⟩

/-- which updates the store rejects: unknown argument to remove, unknown endpoint of an attack,
unknown attack to remove (from the store theorems of C12) -/
theorem store_rejects_exactly {s : Store} (hinv : s.Inv) :
    (∀ l, (∀ id, ¬ s.Live id l) → s.step (.remArg l) = .err s) ∧
    (∀ la lb, ((∀ a, ¬ s.Live a la) ∨ (∀ b, ¬ s.Live b lb)) → s.step (.newAtt la lb) = .err s) ∧
    (∀ la lb, ((∀ a, ¬ s.Live a la) ∨ (∀ b, ¬ s.Live b lb)) → s.step (.remAtt la lb) = .err s) ∧
    (∀ la lb a b, s.Live a la → s.Live b lb → ¬ s.HasAtt a b → s.step (.remAtt la lb) = .err s) :=
  ⟨fun l h => (Store.removeArgument_spec hinv l).2 h,
   fun la lb h => (Store.newAttack_spec hinv la lb).2 h,
   fun la lb h => (Store.removeAttack_spec hinv la lb).2 h,
   fun la lb a b ha hb hn => ((Store.removeAttack_spec hinv la lb).1 a b ha hb).2 hn⟩

/-- the update contract for the two assumptions-on-attacks solvers -/
theorem attack_assumption_update_contract {sem : DSem} {d : DynAtt.ADState} {w : World}
    (h : DynAtt.AQInv sem d w) (op : StoreOp) :
    DynAtt.AQInv sem (d.update op).1 w ∧
    ((d.update op).2 = .ok ∧ d.pending.step op = .ok (d.update op).1.pending ∨
     (d.update op).2 = .err ∧ d.pending.step op = .err d.pending ∧ (d.update op).1 = d) ∧
    ((d.update op).1.pending = d.pending → (d.update op).1 = d) := DynAtt.update_preserves h op

/-- **the attack-assumption solvers stay usable.**  In every state reachable from a fresh solver
(any reservation factor `num/den ≥ 1`) by update calls — accepted, rejected or redundant — and by
queries, a query the solver type offers (`AttSupported`: the complete variant has no skeptical query,
`unimplemented!()`), about an argument of the current framework, run on replies a correct SAT solver
may give, never panics (no `unwrap()` on a missing variable or label, no index out of bounds, no
underflow of `n_arg_vars - n_args`); the run ends with the right answer in a state satisfying the
invariant again, or the SAT solver gave up, or the recorded reply list is too short -/
theorem attack_assumption_solvers_stay_usable {sem : DSem} {num den : Nat} (hfac : 0 < den ∧ den ≤ num)
    {ops : List StoreOp} {d : DynAtt.ADState} {w : World} (h : DynAtt.Reach sem num den ops d w)
    (q : DQuery) (hq : DynAtt.AttSupported sem q) {l id : Nat} (hl : d.pending.Live id l)
    {rs : List Reply} (hs : RunSound (DynAtt.query d q l) rs w) :
    (∀ msg w', interp (DynAtt.query d q l) rs w ≠ (.crashed msg, w')) ∧
    ((∃ d' a w', interp (DynAtt.query d q l) rs w = (.done (d', a), w') ∧
        DynAtt.Reach sem num den ops d' w' ∧ DynAtt.AQInv sem d' w' ∧ d'.pending = d.pending ∧
        Store.runOps Store.empty ops = some d.pending ∧ AnswerOK sem d.pending q l a) ∨
     (∃ w', interp (DynAtt.query d q l) rs w = (.abort, w')) ∨
     (∃ w', interp (DynAtt.query d q l) rs w = (.starved, w'))) := by
  refine ⟨DynAtt.att_never_panics hfac h q hq hl hs, ?_⟩
  rcases DynAtt.att_run_total hfac h q hq hl hs with ⟨d', a, w', h1, h2, h3, _, h5, h6, h7⟩ | h | h
  · exact .inl ⟨d', a, w', h1, h2, h3, h5, h6, h7⟩
  · exact .inr (.inl h)
  · exact .inr (.inr h)

end Crusta.C09
