//! Recording / counting / fault-injecting SAT solver used through the public factory constructors.
use crustabri::sat::{Assignment, CadicalSolver, ExternalSatSolver, Literal, SatSolver, SolvingListener, SolvingResult};
use std::cell::{Cell, RefCell};

thread_local! {
    pub static LOG: RefCell<Vec<String>> = RefCell::new(Vec::new());
    static NSOLVERS: Cell<usize> = Cell::new(0);
    static NCALLS: Cell<usize> = Cell::new(0);
    static FAULT: Cell<usize> = Cell::new(0);
    static CAP: Cell<usize> = Cell::new(usize::MAX);
    static BACKEND: RefCell<String> = RefCell::new(String::from("cadical"));
    static TRACE: Cell<bool> = Cell::new(true);
}

pub fn reset(fault: usize, cap: usize, backend: &str, trace: bool) {
    LOG.with(|l| l.borrow_mut().clear());
    NSOLVERS.with(|c| c.set(0));
    NCALLS.with(|c| c.set(0));
    FAULT.with(|c| c.set(fault));
    CAP.with(|c| c.set(cap));
    BACKEND.with(|b| *b.borrow_mut() = backend.to_string());
    TRACE.with(|t| t.set(trace));
}

pub fn log(s: String) {
    LOG.with(|l| l.borrow_mut().push(s));
}

pub fn take_log() -> Vec<String> {
    LOG.with(|l| std::mem::take(&mut *l.borrow_mut()))
}

pub fn n_calls() -> usize {
    NCALLS.with(|c| c.get())
}

pub fn n_solvers() -> usize {
    NSOLVERS.with(|c| c.get())
}

pub struct RecSolver {
    idx: usize,
    inner: Box<dyn SatSolver>,
}

fn lits_to_string(l: &[Literal]) -> String {
    l.iter()
        .map(|x| isize::from(*x).to_string())
        .collect::<Vec<_>>()
        .join(" ")
}

pub fn model_to_string(a: &Assignment) -> String {
    a.iter()
        .map(|(_, v)| match v {
            Some(true) => '+',
            Some(false) => '-',
            None => '?',
        })
        .collect()
}

pub fn new_inner(backend: &str) -> Box<dyn SatSolver> {
    if backend == "cadical" {
        Box::<CadicalSolver>::default()
    } else {
        let mut parts = backend.split('|');
        let prog = parts.next().unwrap().to_string();
        let opts = parts.map(|s| s.to_string()).collect::<Vec<_>>();
        Box::new(ExternalSatSolver::new(prog, opts))
    }
}

pub fn factory() -> Box<dyn Fn() -> Box<dyn SatSolver>> {
    Box::new(|| {
        let idx = NSOLVERS.with(|c| {
            let v = c.get();
            c.set(v + 1);
            v
        });
        let backend = BACKEND.with(|b| b.borrow().clone());
        if TRACE.with(|t| t.get()) {
            log(format!("S {} new", idx));
        }
        Box::new(RecSolver {
            idx,
            inner: new_inner(&backend),
        })
    })
}

impl SatSolver for RecSolver {
    fn add_clause(&mut self, cl: Vec<Literal>) {
        if TRACE.with(|t| t.get()) {
            log(format!("S {} c {}", self.idx, lits_to_string(&cl)));
        }
        self.inner.add_clause(cl)
    }

    fn solve(&mut self) -> SolvingResult {
        self.solve_under_assumptions(&[])
    }

    fn solve_under_assumptions(&mut self, assumptions: &[Literal]) -> SolvingResult {
        let n = NCALLS.with(|c| {
            let v = c.get() + 1;
            c.set(v);
            v
        });
        if n > CAP.with(|c| c.get()) {
            panic!("CALLCAP exceeded");
        }
        let tr = TRACE.with(|t| t.get());
        if tr {
            log(format!("S {} q {}", self.idx, lits_to_string(assumptions)));
        }
        if FAULT.with(|c| c.get()) == n {
            if tr {
                log(format!("S {} k", self.idx));
            }
            return SolvingResult::Unknown;
        }
        let r = self.inner.solve_under_assumptions(assumptions);
        if tr {
            match &r {
                SolvingResult::Satisfiable(a) => log(format!("S {} s {}", self.idx, model_to_string(a))),
                SolvingResult::Unsatisfiable => log(format!("S {} u", self.idx)),
                SolvingResult::Unknown => log(format!("S {} k", self.idx)),
            }
        }
        r
    }

    fn n_vars(&self) -> usize {
        let v = self.inner.n_vars();
        if TRACE.with(|t| t.get()) {
            log(format!("S {} n {}", self.idx, v));
        }
        v
    }

    fn add_listener(&mut self, listener: Box<dyn SolvingListener>) {
        self.inner.add_listener(listener)
    }

    fn reserve(&mut self, new_max_id: usize) {
        if TRACE.with(|t| t.get()) {
            log(format!("S {} r {}", self.idx, new_max_id));
        }
        self.inner.reserve(new_max_id)
    }
}
