import Crusta.Proofs.Oracle
import Crusta.Proofs.StaticAll

/-! # C03 — skeptical acceptance (property theorems) -/

namespace Crusta.C03
open Crusta

theorem ds_judge_exact (af : AF) (hwf : af.WF) (σ : Sem) (a : Nat) (st : Bool) :
    checkAnswer af ⟨σ, .DS, false, [a]⟩ (.acc st none) = .ok () ↔
      (st = true ↔ ∀ S, σ.Ext af S → S a = true) := by
  rw [checkAnswer_iff af hwf]
  simp [Conforms, CertConforms]

/-- vacuous truth: with no extension every argument is skeptically accepted (the ST case) -/
theorem no_extension_all_skeptical (af : AF) (hwf : af.WF) (σ : Sem) (a : Nat)
    (h : ¬ ∃ S, σ.Ext af S) : σ.skepB af [a] = true := by
  rw [skepB_iff σ af hwf]
  intro S hS; exact absurd ⟨S, hS⟩ h


/-- **C03 on the solver programs**: the status of a skeptical query is YES exactly when every
extension of `g` contains one of the queried arguments (vacuously when there is none) -/
theorem skeptical_status_exact (sk : SolverKind) (cfg : Cfg) (hcfg : CfgOK sk cfg) (v : FwView) (g : G) (hv : v.Ok g)
    (cert : Bool) (args : List Nat) (hargs : ∀ a ∈ args, g.live a = true)
    (p : Prog Ans) (hp : entryProg sk cfg v (.ds cert args) = some p) (w : World) (hb : w.Bounded)
    (rs : List Reply) (hs : RunSound p rs w) (a : AccAns) (cv : Bool) (w' : World)
    (hrun : interp p rs w = (.done (.acc a cv), w')) :
    (a.status = true ↔ ∀ S, sk.sem.GExt g S → HitsL args S) := by
  have h := static_answers_conform sk cfg hcfg v g hv (.ds cert args) (fun x hx => hargs x hx) p hp w hb rs hs _ w' hrun
  obtain ⟨_, hds, _⟩ := h
  constructor
  · intro hst; exact (hds.1 hst).1
  · intro hall
    cases hst : a.status with
    | true => rfl
    | false =>
      obtain ⟨S, hS, hn⟩ := (hds.2 hst).1
      exact absurd (hall S hS) hn

end Crusta.C03
