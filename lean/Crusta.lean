import Crusta.Spec.AF
import Crusta.Proofs.Deciders
