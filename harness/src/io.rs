//! Reader / writer families (C13, C14).
use crate::{fw, util};
use crustabri::aa::{AAFramework, Argument};
use crustabri::io::{AspartixReader, AspartixWriter, Iccma23Reader, Iccma23Writer, InstanceReader, ResponseWriter};
use std::collections::HashMap;
use std::panic::{catch_unwind, AssertUnwindSafe};

pub fn unhex(s: &str) -> Vec<u8> {
    (0..s.len() / 2).map(|i| u8::from_str_radix(&s[2 * i..2 * i + 2], 16).unwrap()).collect()
}

pub fn hex(b: &[u8]) -> String {
    b.iter().map(|x| format!("{:02x}", x)).collect()
}

fn dump_str_fw(af: &AAFramework<String>) -> String {
    let labels = af.argument_set().iter().map(|a| hex(a.label().as_bytes())).collect::<Vec<_>>().join(",");
    let atts = af
        .iter_attacks()
        .map(|t| format!("{}>{}", t.attacker().id(), t.attacked().id()))
        .collect::<Vec<_>>()
        .join(",");
    format!("n={} labels={} atts={}", af.n_arguments(), labels, atts)
}

fn dump_usize_fw(af: &AAFramework<usize>) -> String {
    let labels = af.argument_set().iter().map(|a| a.label().to_string()).collect::<Vec<_>>().join(",");
    let atts = af
        .iter_attacks()
        .map(|t| format!("{}>{}", t.attacker().id(), t.attacked().id()))
        .collect::<Vec<_>>()
        .join(",");
    format!("n={} labels={} atts={}", af.n_arguments(), labels, atts)
}

/// `read <id> fmt=iccma|apx hex=<bytes> [args=<hex>/<hex>...]`
pub fn run_read(_id: &str, p: &HashMap<String, String>, out: &mut Vec<String>) {
    let bytes = unhex(p.get("hex").map(|s| s.as_str()).unwrap_or(""));
    let fmt = p["fmt"].as_str();
    let args: Vec<Vec<u8>> = p
        .get("args")
        .map(|s| s.split('/').map(unhex).collect())
        .unwrap_or_default();
    let r = catch_unwind(AssertUnwindSafe(|| {
        let mut lines = Vec::new();
        if fmt == "prob" {
            // the problem-string parser of the command line (C05)
            match std::str::from_utf8(&bytes) {
                Ok(s) => match crustabri::aa::Query::read_problem_string(s) {
                    Ok((q, sem)) => lines.push(format!("P ok {} {}", q.as_ref(), sem.as_ref())),
                    Err(_) => lines.push("P err".to_string()),
                },
                Err(_) => lines.push("P skip".to_string()),
            }
        } else if fmt == "iccma" {
            let rd = Iccma23Reader::default();
            match rd.read(&mut bytes.as_slice()) {
                Ok(af) => {
                    lines.push(format!("R ok {}", dump_usize_fw(&af)));
                    for a in &args {
                        match std::str::from_utf8(a) {
                            Ok(s) => match rd.read_arg_from_str(&af, s) {
                                Ok(x) => lines.push(format!("A {} {}", hex(a), x.id())),
                                Err(_) => lines.push(format!("A {} err", hex(a))),
                            },
                            Err(_) => lines.push(format!("A {} skip", hex(a))),
                        }
                    }
                }
                Err(_) => lines.push("R err".to_string()),
            }
        } else {
            let rd = AspartixReader::default();
            match rd.read(&mut bytes.as_slice()) {
                Ok(af) => {
                    lines.push(format!("R ok {}", dump_str_fw(&af)));
                    for a in &args {
                        match std::str::from_utf8(a) {
                            Ok(s) => match rd.read_arg_from_str(&af, s) {
                                Ok(x) => lines.push(format!("A {} {}", hex(a), x.id())),
                                Err(_) => lines.push(format!("A {} err", hex(a))),
                            },
                            Err(_) => lines.push(format!("A {} skip", hex(a))),
                        }
                    }
                }
                Err(_) => lines.push("R err".to_string()),
            }
        }
        lines
    }));
    match r {
        Ok(l) => out.extend(l),
        Err(e) => out.push(format!("panic {}", util::panic_msg(e))),
    }
    out.push("end".to_string());
}

/// `write <id> ops=<history> names=<label:hexname,...> ext=<l,l,..>`: Aspartix writer on a string-labelled
/// framework reached by the history, read back; response writers on extensions.
pub fn run_write(_id: &str, p: &HashMap<String, String>, out: &mut Vec<String>) {
    let ops = fw::parse_ops(p.get("ops").map(|s| s.as_str()).unwrap_or(""));
    let names: HashMap<usize, String> = p
        .get("names")
        .map(|s| {
            s.split(',')
                .filter(|t| !t.is_empty())
                .map(|t| {
                    let mut it = t.split(':');
                    let k: usize = it.next().unwrap().parse().unwrap();
                    (k, String::from_utf8(unhex(it.next().unwrap())).unwrap())
                })
                .collect()
        })
        .unwrap_or_default();
    let name = |l: &usize| names.get(l).cloned().unwrap_or_else(|| format!("a{}", l));
    let r = catch_unwind(AssertUnwindSafe(|| {
        let mut lines = Vec::new();
        let mut af: AAFramework<String> = AAFramework::default();
        let mut afu: AAFramework<usize> = AAFramework::default();
        for op in &ops {
            match op {
                fw::Op::NewArg(l) => {
                    af.new_argument(name(l));
                    afu.new_argument(*l);
                }
                fw::Op::RemArg(l) => {
                    let _ = af.remove_argument(&name(l));
                    let _ = afu.remove_argument(l);
                }
                fw::Op::NewAtt(a, b) => {
                    let _ = af.new_attack(&name(a), &name(b));
                    let _ = afu.new_attack(a, b);
                }
                fw::Op::RemAtt(a, b) => {
                    let _ = af.remove_attack(&name(a), &name(b));
                    let _ = afu.remove_attack(a, b);
                }
            }
        }
        // the framework as the writer sees it
        let labels = af.argument_set().iter().map(|a| hex(a.label().as_bytes())).collect::<Vec<_>>().join(",");
        let atts = af
            .iter_attacks()
            .map(|t| format!("{}>{}", hex(t.attacker().label().as_bytes()), hex(t.attacked().label().as_bytes())))
            .collect::<Vec<_>>()
            .join(",");
        lines.push(format!("F labels={} atts={}", labels, atts));
        let mut buf: Vec<u8> = Vec::new();
        AspartixWriter::default().write_framework(&af, &mut buf).unwrap();
        lines.push(format!("W apx {}", hex(&buf)));
        match AspartixReader::default().read(&mut buf.as_slice()) {
            Ok(back) => lines.push(format!("B ok {}", dump_str_fw(&back))),
            Err(_) => lines.push("B err".to_string()),
        }
        // extensions through both response writers
        let ext_labels = util::parse_usize_list(p.get("ext").map(|s| s.as_str()).unwrap_or("-"));
        let ext_s: Vec<&Argument<String>> = ext_labels
            .iter()
            .filter_map(|l| af.argument_set().get_argument(&name(l)).ok())
            .collect();
        let ext_u: Vec<&Argument<usize>> = ext_labels
            .iter()
            .filter_map(|l| afu.argument_set().get_argument(l).ok())
            .collect();
        lines.push(format!(
            "X labels={} ulabels={}",
            ext_s.iter().map(|a| hex(a.label().as_bytes())).collect::<Vec<_>>().join(","),
            ext_u.iter().map(|a| a.label().to_string()).collect::<Vec<_>>().join(",")
        ));
        let mut b1: Vec<u8> = Vec::new();
        AspartixWriter::default().write_single_extension(&mut b1, &ext_s).unwrap();
        lines.push(format!("W extapx {}", hex(&b1)));
        let mut b2: Vec<u8> = Vec::new();
        Iccma23Writer::default().write_single_extension(&mut b2, &ext_u).unwrap();
        lines.push(format!("W exticcma {}", hex(&b2)));
        for (tag, st) in [("yes", true), ("no", false)] {
            let mut b: Vec<u8> = Vec::new();
            ResponseWriter::<String>::write_acceptance_status(&AspartixWriter::default(), &mut b, st).unwrap();
            lines.push(format!("W apx{} {}", tag, hex(&b)));
            let mut b: Vec<u8> = Vec::new();
            Iccma23Writer::default().write_acceptance_status(&mut b, st).unwrap();
            lines.push(format!("W iccma{} {}", tag, hex(&b)));
        }
        let mut b: Vec<u8> = Vec::new();
        ResponseWriter::<String>::write_no_extension(&AspartixWriter::default(), &mut b).unwrap();
        lines.push(format!("W apxnoext {}", hex(&b)));
        let mut b: Vec<u8> = Vec::new();
        Iccma23Writer::default().write_no_extension(&mut b).unwrap();
        lines.push(format!("W iccmanoext {}", hex(&b)));
        lines
    }));
    match r {
        Ok(l) => out.extend(l),
        Err(e) => out.push(format!("panic {}", util::panic_msg(e))),
    }
    out.push("end".to_string());
}
