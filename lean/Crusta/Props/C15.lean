import Crusta.Proofs.Sat
import Crusta.Proofs.SatRoundTrip

/-!
# C15 — SAT solver objects honour the incremental solving contract (property theorems)

What is proved is the *wrapper* (clause buffer, instance construction, reply interpretation,
assignment padding); soundness and completeness of CaDiCaL / the external solver are assumed and
validated on the runs performed.
-/

namespace Crusta.C15
open Crusta Crusta.Sat

/-- the instance of a call consists of exactly the clauses added so far plus one unit clause per
assumption: any model of it satisfies every clause added so far and every assumption of the call -/
theorem reported_model_satisfies (b : Buffered) (as : List Lit) (ν : Asg)
    (h : cnfTrue ν (b.clauses ++ as.map (fun a => [a])) = true) :
    (∀ c ∈ b.clauses, clauseTrue ν c = true) ∧ (∀ a ∈ as, litTrue ν a = true) :=
  instance_model b as ν h

/-- assumptions hold for one call only, clauses added between calls are taken into account -/
theorem incremental (b : Buffered) (as : List Lit) (c : Clause) :
    (b.withAssumptions as).clauses = b.clauses ∧ (b.addClause c).clauses = b.clauses ++ [c] :=
  ⟨rfl, rfl⟩

/-- the model can be queried for every declared variable -/
theorem model_total (nv : Nat) (out : List UInt8) (m : List (Option Bool))
    (h : parseReply nv out = .sat m) : m.length = nv := model_length nv out m h

/-- the declared variable count never decreases and covers all clauses, reservations, assumptions -/
theorem nvars_covers (ops : List BOp) : (ops.foldl Buffered.apply {}).Inv := Buffered.inv_reachable ops

/-- CaDiCaL wrapper: the assignment handed back has `max(max_variable, reserved)` entries -/
theorem cad_model_length (values : List (Option Bool)) (maxVar reserved : Nat) :
    (cadModel values maxVar reserved).length = cadNVars maxVar reserved := by
  unfold cadModel cadNVars
  simp only [List.length_append, List.length_take, List.length_replicate]
  omega

/-- **the external-process wrapper is exactly as sound as the program it runs.**  After any
history of clause additions, reservations and earlier calls, and for any assumptions: the program
receives a text that denotes exactly the clauses added so far plus the assumptions of this call
(`readDimacs`), so if it answers — in any layout of `v` lines and comments — with a model `m` of
*what it received*, the wrapper reports exactly `m`, and `m` satisfies every clause added so far and
every assumption of the call; if it answers `s UNSATISFIABLE`, the wrapper reports unsatisfiable.
Nothing of the assumptions is kept for the next call (`incremental`). -/
theorem external_wrapper_sound (ops : List BOp) (as : List Lit)
    (hops : ∀ op ∈ ops, op.Proper) (has : ∀ a ∈ as, 1 ≤ a.var)
    (m : List Bool) (lay : Layout) (hlay : lay.Ok) (hm : m.length ≤ 9223372036854775807) :
    let b := ops.foldl Buffered.apply {}
    ∃ nv nc cls, readDimacs (b.dimacs as) = some (nv, nc, cls) ∧
      (cnfTrue (asgOfModel (m.map some)) cls = true →
        parseReply m.length (renderModel m lay) = .sat (m.map some) ∧
        (∀ c ∈ b.clauses, clauseTrue (asgOfModel (m.map some)) c = true) ∧
        (∀ a ∈ as, litTrue (asgOfModel (m.map some)) a = true)) ∧
      (∀ pre post, (∀ l ∈ pre, Noise l) → (∀ l ∈ post, Noise l) → parseReply nv (renderUnsat pre post) = .unsat) := by
  intro b
  obtain ⟨nv, nc, cls, hread, hcls, _, _, _⟩ := Sat.dimacs_header_exact ops as hops has
  refine ⟨nv, nc, cls, hread, ?_, fun pre post hpre hpost => Sat.parseReply_renderUnsat nv pre post hpre hpost⟩
  intro hsat
  have h2 := instance_model b as (asgOfModel (m.map some)) (by rw [← hcls]; exact hsat)
  exact ⟨Sat.parseReply_renderModel m lay hlay hm, h2.1, h2.2⟩

end Crusta.C15
