"""C01–C04, C07: answers of the static solvers judged by the proved reference deciders."""
import re

import gen
from engine import Property, Finding

SOLVERS = {
    "GR": (["def"], ["SE", "DC", "DS"]),
    "CO": (["aux_co", "exp_co", "hyb", "def"], ["DC"]),
    "PR": (["aux_co", "exp_co", "hyb", "def"], ["SE", "DS"]),
    "ST": (["def"], ["SE", "DC", "DS"]),
    "SST": (["aux_co", "exp_co", "hyb", "def"], ["SE", "DC", "DS"]),
    "STG": (["aux_cf", "exp_cf", "def"], ["SE", "DC", "DS"]),
    "ID": (["aux_co", "exp_co", "hyb", "def"], ["SE", "DC", "DS"]),
}


def kv(line):
    d = {}
    for t in line.split(" ")[2:]:
        if "=" in t:
            k, v = t.split("=", 1)
            d[k] = v
    return d


def comps_of(n, atts):
    parent = list(range(n))

    def find(x):
        while parent[x] != x:
            parent[x] = parent[parent[x]]
            x = parent[x]
        return x
    for a, b in atts:
        parent[find(a)] = find(b)
    return [find(i) for i in range(n)]


def acyclic(n, atts):
    indeg = [0] * n
    out = [[] for _ in range(n)]
    for a, b in atts:
        indeg[b] += 1
        out[a].append(b)
    q = [i for i in range(n) if indeg[i] == 0]
    seen = 0
    while q:
        x = q.pop()
        seen += 1
        for y in out[x]:
            indeg[y] -= 1
            if indeg[y] == 0:
                q.append(y)
    return seen == n


def canon_trace(lines):
    """S-lines, ans, panic, calls; consecutive clause lines of one solver sorted (literal order ignored)"""
    out = []
    group = []

    def flush():
        if group:
            out.extend(sorted(group))
            group.clear()
    dead = False
    for l in lines:
        if l.startswith("query "):
            dead = False
        if dead and l.startswith("S "):
            continue  # calls made by destructors while the panic unwinds (MaximalExtensionComputer::drop)
        if l.startswith("S "):
            t = l.split(" ")
            if len(t) == 3 and t[2] == "k":
                dead = True
            if len(t) >= 3 and t[2] == "c":
                lits = sorted(int(x) for x in t[3:] if x)
                group.append("S %s c %s" % (t[1], " ".join(map(str, lits))))
                continue
            flush()
            if len(t) >= 3 and t[2] == "q":
                out.append(l)  # assumption order is part of the call, kept as is
            else:
                out.append(l)
        elif l.startswith(("query ", "ans ", "calls ")):
            flush()
            out.append(l)
        elif l.startswith("panic"):
            flush()
            out.append("panic")
        elif l.startswith("T-"):
            flush()
            out.append(l)
    flush()
    return out


_TRACE_PREFIXES = ("S ", "query ", "ans ", "calls ", "panic", "T-")


def trace_diff(impl, model):
    if "trace" not in model:
        return None
    # fast path: the model mirrors clause and literal order, so the raw traces are normally identical;
    # canonicalisation (a function of the lines) is only needed when they are not
    mi = model[model.index("trace") + 1:]
    if [l for l in impl if l.startswith(_TRACE_PREFIXES)] == [l for l in mi if l.startswith(_TRACE_PREFIXES)]:
        return None
    it = canon_trace([l for l in impl])
    mt = canon_trace(model[model.index("trace") + 1:])
    if it == mt:
        return None
    k = 0
    while k < min(len(it), len(mt)) and it[k] == mt[k]:
        k += 1
    return {"first_difference": k, "impl": it[k:k + 3], "model": mt[k:k + 3], "before": it[max(0, k - 2):k]}


def parse_fw_line(l):
    d = dict(t.split("=", 1) for t in l.split(" ")[1:] if "=" in t)
    n = int(d.get("n", "0"))
    atts = [tuple(int(x) for x in p.split(">")) for p in d.get("atts", "").split(",") if p]
    return n, atts


class SolveProperty(Property):
    families = ["solve"]
    tasks = ["SE"]
    certs = [0]
    multi = False
    per_arg = True
    check_trace = True
    max_n = 8
    thorough_k = 12000
    quick_k = 600      # random / structured frameworks in the quick tier (C07 overrides: its list queries multiply the cases)
    assumptions = [
        "CaDiCaL (the embedded backend) is a sound and complete SAT solver",
        "reference deciders are exponential: frameworks judged directly have at most %d arguments; larger ones are covered by the theorems and by trace correspondence only",
    ]

    def frameworks(self, tier, rng):
        fws = []
        if tier == "quick":
            for n in range(0, 3):
                fws += list(gen.all_digraphs(n))
            k = self.quick_k
        else:
            for n in range(0, 4):
                fws += list(gen.all_digraphs(n))
            k = self.thorough_k
        for _ in range(k):
            fws.append(gen.random_framework(rng, self.max_n))
        # medium-size frameworks (13-60 arguments): too large for the exponential reference deciders, covered by the
        # call-by-call correspondence with the proved solver programs; components stay small or well-founded so that
        # the enumerating solvers remain fast
        for _ in range(24 if tier == "quick" else 400):
            kind = rng.choice(["dag", "manycomps", "dagcomps"])
            if kind == "dag":
                n = rng.randint(13, 50)
                order = list(range(n))
                rng.shuffle(order)
                atts = []
                for i in range(1, n):
                    for _ in range(1 if rng.random() < 0.8 else 2):
                        atts.append((order[rng.randrange(max(0, i - 6), i)], order[i]))
                rng.shuffle(atts)
                fws.append((n, atts))
            else:
                parts = []
                tot = 0
                while tot < rng.randint(13, 40):
                    if kind == "dagcomps" and rng.random() < 0.5:
                        k = rng.randint(9, 20)
                        a = [(rng.randrange(max(0, i - 4), i), i) for i in range(1, k)]
                        parts.append((k, a))
                    else:
                        k = rng.randint(1, 6)
                        parts.append(gen.rand_af(rng, k))
                    tot += parts[-1][0]
                n, atts = gen.disjoint_union(parts)
                perm = list(range(n))
                rng.shuffle(perm)
                fws.append((n, [(perm[a], perm[b]) for a, b in atts]))
        # both sides of the hybrid threshold (16 / 32 / 64)
        for (a, b) in [(4, 2), (5, 2), (6, 2), (2, 4), (3, 3)]:
            if tier != "quick" or (a, b) in [(4, 2), (5, 2)]:
                fws.append(gen.funnel(a, b))
        return fws

    def combos(self):
        out = []
        for sem, (encs, tasks) in SOLVERS.items():
            for task in tasks:
                if task in self.tasks:
                    e = list(encs)
                    if sem == "PR" and task == "SE":
                        e.append("aux_adm")
                    for enc in e:
                        out.append((sem, enc, task))
        return out

    def pick_args(self, rng, labels):
        if not self.multi:
            return [[l] for l in labels] if self.per_arg else [[rng.choice(labels)]]
        out = []
        for _ in range(3):
            k = rng.randint(1, 3)
            out.append([rng.choice(labels) for _ in range(k)])
        return out

    def cases(self, tier, rng):
        lines = []
        combos = self.combos()
        for (n, atts) in self.frameworks(tier, rng):
            big = n > 10 and max([0] + [comps_of(n, atts).count(r) for r in set(comps_of(n, atts))]) > 8 and not acyclic(n, atts)
            spec, labels = gen.spec_of(rng, n, atts)
            # a few solver configurations per framework, all of them over the run
            chosen = combos if (n <= 2 and tier != "quick") else rng.sample(combos, min(len(combos), 3 if tier == "quick" else 5))
            if n <= 9 and rng.random() < 0.25:
                # the convenience constructors `XSolver::new(af)` (default SAT solver and encoder): answers judged only
                (s0, _e0, t0) = rng.choice(combos)
                if s0 != "GR":
                    chosen = chosen + [(s0, "new", t0)]
            for (sem, enc, task) in chosen:
                if big and sem in ("SST", "STG", "ID", "PR"):
                    continue
                for cert in self.certs:
                    if task == "SE":
                        if cert == self.certs[0]:
                            lines.append("solve x fw=%s sem=%s enc=%s task=SE" % (spec, sem, enc))
                        continue
                    if not labels:
                        continue
                    arglists = self.pick_args(rng, labels)
                    if len(arglists) > 4 and not self.multi:
                        arglists = rng.sample(arglists, 4)
                    for args in arglists:
                        lines.append("solve x fw=%s sem=%s enc=%s task=%s cert=%d args=%s" % (
                            spec, sem, enc, task, cert, ",".join(map(str, args))))
        return lines

    def signature(self, case_line, impl, reason):
        p = kv(case_line)
        nargs = len([a for a in p.get("args", "").split(",") if a and a != "-"])
        feat = "nargs=%d" % nargs
        try:
            fwl = [l for l in impl if l.startswith("fw ")][0]
            ql = [l for l in impl if l.startswith("query ")][0]
            n, atts = parse_fw_line(fwl)
            qd = dict(t.split("=", 1) for t in ql.split(" ")[1:])
            dargs = [int(x) for x in qd.get("args", "-").split(",") if x not in ("-", "")]
            cc = comps_of(n, atts)
            if len(set(cc[a] for a in dargs)) > 1:
                feat += " args-span-components"
            if len(set(cc)) > 1:
                feat += " multi-component"
            if len(set(dargs)) < len(dargs):
                feat += " repeated-arg"
        except Exception:
            pass
        return "%s/%s/cert=%s · %s · %s" % (p.get("sem"), p.get("task"), p.get("cert", "0"), reason, feat)

    def judge(self, case_line, impl, model):
        fs = []
        verdicts = [l for l in model if l.startswith("verdict ")]
        if not verdicts:
            fs.append(Finding("correspondence", case_line, "no verdict from the oracle", self.id + " · no-verdict"))
        for v in verdicts:
            if v == "verdict ok" or v == "verdict unjudged":
                continue
            reason = v[len("verdict "):]
            if reason == "PANIC":
                msg = [l for l in impl if l.startswith("panic ")]
                reason = "the call panicked instead of answering: " + (msg[0][6:90] if msg else "")
            elif reason.startswith("BAD "):
                reason = reason[4:]
            fs.append(Finding("input", case_line, reason, self.signature(case_line, impl, reason.split(":")[0]),
                              {"impl": [l for l in impl if not l.startswith("S ")][:12]}))
        if not fs and self.check_trace and " enc=new" not in case_line:
            d = trace_diff(impl, model)
            if d is not None:
                p = kv(case_line)
                fs.append(Finding("correspondence", case_line,
                                  "SAT-level trace of the real solver differs from the Lean step-machine model",
                                  "%s/%s/cert=%s · trace differs from model" % (p.get("sem"), p.get("task"), p.get("cert", "0")), d))
        return fs

    def same_class(self, f, cur):
        a, b = f.signature.split(" · "), cur.signature.split(" · ")
        return a[0] == b[0] and a[1] == b[1]

    def nontrivial(self, case_line):
        p = kv(case_line)
        fw = p.get("fw", "")
        return ">" in fw

    def shrink_candidates(self, case_line):
        if case_line.startswith("dyn "):
            import props_dyn
            return props_dyn.DynProperty.shrink_candidates(self, case_line)
        toks = case_line.split(" ")
        p = kv(case_line)
        fw = p["fw"]
        out = []

        def with_(k, v):
            return " ".join([t if not t.startswith(k + "=") else "%s=%s" % (k, v) for t in toks])
        args = [a for a in p.get("args", "").split(",") if a and a != "-"]
        if len(args) > 1:
            for i in range(len(args)):
                out.append(with_("args", ",".join(args[:i] + args[i + 1:])))
        if fw.startswith("h:"):
            ops = [o for o in fw[2:].split(";") if o]
            for i in range(len(ops)):
                out.append(with_("fw", "h:" + ";".join(ops[:i] + ops[i + 1:])))
        elif fw.startswith("i:"):
            _, n, a = (fw.split(":") + [""])[:3]
            n = int(n)
            atts = [x for x in a.split(",") if x]
            for i in range(len(atts)):
                out.append(with_("fw", "i:%d:%s" % (n, ",".join(atts[:i] + atts[i + 1:]))))
            if n > 0 and str(n) not in args:
                keep = [x for x in atts if str(n) not in x.split(">")]
                out.append(with_("fw", "i:%d:%s" % (n - 1, ",".join(keep))))
        return out[:60]

    # the command line in front of the solvers (where solver and encoder are selected): C01-C04 run the part of the
    # CLI dispatch correspondence (props_cli.C05.dispatch_trace) that concerns their problems
    cli_tasks = None
    cli_cert = None

    @property
    def needs_bins(self):
        return self.cli_tasks is not None

    def extra(self, ctx):
        if self.cli_tasks is None:
            return [], {}
        import random
        import props_cli
        rng = random.Random(ctx["seed"])
        c05 = props_cli.C05()
        findings, cov = c05.dispatch_trace(ctx, rng, tasks=self.cli_tasks, force_cert=self.cli_cert)
        # both binaries on files of both formats (readers, writers, label mapping): printed answers judged
        f1, c1 = c05.judged_invocations(ctx, rng, tasks=self.cli_tasks, errors=False, nfiles=16 if ctx["tier"] == "quick" else 120)
        findings += f1
        cov.update({k: v for k, v in c1.items() if k.startswith("cli_")})
        f2, c2 = c05.search_after_dispatch_break(ctx, rng, findings)
        findings += f2
        cov.update(c2)
        return findings, cov

    def stats(self, cases, impl, model):
        from collections import Counter
        sems = Counter()
        sizes = Counter()
        replies = Counter()
        ncomp = Counter()
        answers = Counter()
        for c in cases:
            p = kv(c)
            if c.startswith("dyn "):
                sems["dynamic/%s" % p.get("kind")] += 1
            else:
                sems["%s/%s/%s" % (p.get("sem"), p.get("task"), p.get("enc"))] += 1
            lines = impl.get(c.split(" ")[1], [])
            for l in lines:
                if l.startswith("fw "):
                    n, atts = parse_fw_line(l)
                    sizes[n] += 1
                    ncomp[len(set(comps_of(n, atts)))] += 1
                elif l.startswith("S "):
                    t = l.split(" ")
                    if len(t) > 2 and t[2] in ("s", "u", "k"):
                        replies[t[2]] += 1
                elif l.startswith("ans "):
                    t = l.split(" ")
                    answers[" ".join(t[1:3]).split("=")[0] + "=" + ("NONE" if "NONE" in t[2] else t[2].split("=")[1] if t[1] == "ACC" else "set")] += 1
        return {"distribution": {"solver_config": dict(sems), "n_arguments": {str(k): v for k, v in sorted(sizes.items())},
                                 "n_components": {str(k): v for k, v in sorted(ncomp.items())},
                                 "sat_replies": dict(replies), "answers": dict(answers)}}


CLI_RULE = "; plus the command line in front of the solvers: `crustabri solve` for the property's problems x {default, aux_var, exp, hybrid} on the dispatch frameworks with a recording external solver - SAT instances compared with the composed Lean model (dispatchSolver, dispatchEncoder, entryProg), printed answers judged; a search over CLI invocations for a wrong printed answer when that correspondence breaks"


class C01(SolveProperty):
    id = "C01"
    thorough_k = 40000
    tasks = ["SE"]
    cli_tasks = ("SE",)
    base_rule = "exhaustive digraphs n<=2 (quick) / n<=3 (thorough) + random and structured frameworks up to 8 arguments (both framework routes: ICCMA text with duplicate attacks, update histories with removals), x solver/encoder configurations; a case is non-trivial when the framework has at least one attack; distinct = distinct (framework spec, configuration)"
    rule = base_rule + CLI_RULE


class C02(SolveProperty):
    id = "C02"
    tasks = ["DC"]
    cli_tasks = ("DC",)
    base_rule = C01.base_rule + "; every argument of each framework is queried (up to 4 per configuration)"
    rule = base_rule + CLI_RULE


class C03(SolveProperty):
    id = "C03"
    tasks = ["DS"]
    cli_tasks = ("DS",)
    rule = C02.rule


class C04(SolveProperty):
    id = "C04"
    tasks = ["DC", "DS"]
    certs = [1]
    cli_tasks = ("DC", "DS")
    cli_cert = True
    rule = C02.base_rule + ("; certificate variants only; plus the command line, where the encoding is selected: `crustabri solve -c` for every DC/DS problem x "
                       "{default, aux_var, exp, hybrid} on the dispatch frameworks with a recording external solver - the SAT instances are compared with the "
                       "composed Lean model (dispatchSolver, dispatchEncoder, entryProg) and the printed certificate is judged")



class C07(SolveProperty):
    id = "C07"
    quick_k = 260
    tasks = ["DC", "DS"]
    certs = [0, 1]
    multi = True
    rule = C01.base_rule + ("; argument lists of length 1-3 with repetition, drawn over all components; both the certificate and the certificate-less entry point; "
                       "plus disjoint unions of 2-4 small components (isolated arguments, chains, even and odd cycles, floating-acceptance gadgets whose floating argument is in every preferred extension but not ideal, random 2-3 argument graphs) queried with many ordered "
                       "pairs and triples so that accepted / rejected arguments of different components occur in every order")

    def frameworks(self, tier, rng):
        fws = SolveProperty.frameworks(self, tier, rng)
        for _ in range(60 if tier == "quick" else 1500):
            parts = []
            for _ in range(rng.randint(2, 4)):
                k = rng.choice(["iso", "chain2", "chain3", "cyc2", "cyc3", "rand2", "rand3", "float", "floatx"])
                if k == "float":
                    # floating acceptance: 3 is in every preferred extension but not in the ideal one
                    parts.append((4, [(0, 1), (1, 0), (0, 2), (1, 2), (2, 3)]))
                elif k == "floatx":
                    # ... next to arguments that are in the ideal extension (4, and 3 is floating)
                    parts.append((6, [(0, 1), (1, 0), (0, 2), (1, 2), (2, 3), (2, 5), (4, 5)]))
                elif k == "iso":
                    parts.append((1, []))
                elif k == "chain2":
                    parts.append((2, gen.chain(2)))
                elif k == "chain3":
                    parts.append((3, gen.chain(3)))
                elif k == "cyc2":
                    parts.append((2, gen.cycle(2)))
                elif k == "cyc3":
                    parts.append((3, gen.cycle(3)))
                elif k == "rand2":
                    parts.append(gen.rand_af(rng, 2))
                else:
                    parts.append(gen.rand_af(rng, 3))
            n, atts = gen.disjoint_union(parts)
            if n <= 9:
                fws.append((n, atts))
        return fws

    def pick_args(self, rng, labels):
        out = SolveProperty.pick_args(self, rng, labels)
        if labels:
            a = rng.choice(labels)
            out.append([a, a])                       # the same argument twice
            if len(labels) <= 7:
                out.append(list(labels))             # every argument of the framework
        if 2 <= len(labels) <= 9:
            pairs = [[a, b] for a in labels for b in labels if a != b]
            out += rng.sample(pairs, min(len(pairs), 10))
            if len(labels) >= 3:
                for _ in range(2):
                    out.append(rng.sample(labels, 3))
        return out
