import Crusta.Proofs.Oracle

/-! # C03 — skeptical acceptance (property theorems) -/

namespace Crusta.C03
open Crusta

theorem ds_judge_exact (af : AF) (hwf : af.WF) (σ : Sem) (a : Nat) (st : Bool) :
    checkAnswer af ⟨σ, .DS, false, [a]⟩ (.acc st none) = .ok () ↔
      (st = true ↔ ∀ S, σ.Ext af S → S a = true) := by
  rw [checkAnswer_iff af hwf]
  simp [Conforms, CertConforms]

/-- vacuous truth: with no extension every argument is skeptically accepted (the ST case) -/
theorem no_extension_all_skeptical (af : AF) (hwf : af.WF) (σ : Sem) (a : Nat)
    (h : ¬ ∃ S, σ.Ext af S) : σ.skepB af [a] = true := by
  rw [skepB_iff σ af hwf]
  intro S hS; exact absurd ⟨S, hS⟩ h

end Crusta.C03
