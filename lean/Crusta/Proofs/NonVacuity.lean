import Crusta.Props.C01
import Crusta.Props.C02
import Crusta.Props.C03
import Crusta.Props.C04
import Crusta.Props.C15
import Crusta.Props.C18
import Crusta.Props.C19

/-!
# Non-vacuity witnesses

The end-to-end theorems of `Crusta/Props` take many hypotheses (`CfgOK`, `FwView.Ok`, `entryProg … =
some p`, `World.Bounded`, `RunSound`, `interp … = (.done …, w')`, …).  This file exhibits concrete,
non-trivial instances on which **all** of them are proved to hold jointly (and evaluates the
conclusion), so that none of the theorems is vacuously true.

Technique: `RunSound` is a `Prop` defined by recursion on the program; `runSoundB` is a Boolean
mirror of it (the `unsat` case is discharged by a small splitting refutation procedure `refuteB`,
proved sound), so that `RunSound p rs {}` of a concrete run follows from a kernel computation.
-/

namespace Crusta.NonVacuity
open Crusta

/-! ## a Boolean mirror of `ReplySound` / `RunSound` -/

/-- simplify a CNF under `v := b`: satisfied clauses are dropped, falsified literals removed -/
def assignCnf (v : Nat) (b : Bool) (f : Cnf) : Cnf :=
  (f.filter (fun c => !c.contains ⟨v, b⟩)).map (fun c => c.filter (fun l => !(l == (⟨v, !b⟩ : Lit))))

/-- refutation by splitting on the variables `k, k-1, …, 1`: `true` only if `f` is unsatisfiable -/
def refuteB : Nat → Cnf → Bool
  | 0, f => f.any (fun c => c.isEmpty)
  | k + 1, f => f.any (fun c => c.isEmpty) ||
      (refuteB k (assignCnf (k + 1) true f) && refuteB k (assignCnf (k + 1) false f))

theorem clauseTrue_assign (ν : Asg) (v : Nat) (c : Clause) (hc : c.contains ⟨v, ν v⟩ = false) :
    clauseTrue ν (c.filter (fun l => !(l == (⟨v, !(ν v)⟩ : Lit)))) = clauseTrue ν c := by
  induction c with
  | nil => rfl
  | cons l t ih =>
    have hl : (l == (⟨v, ν v⟩ : Lit)) = false := by
      simp only [List.contains_cons, Bool.or_eq_false_iff] at hc
      rw [Bool.eq_false_iff]; intro h
      have := hc.1
      rw [beq_iff_eq] at h; subst h
      simp at this
    have ht : t.contains ⟨v, ν v⟩ = false := by
      simp only [List.contains_cons, Bool.or_eq_false_iff] at hc; exact hc.2
    have iht := ih ht
    simp only [clauseTrue] at iht ⊢
    by_cases h : l = ⟨v, !(ν v)⟩
    · subst h
      simp only [List.filter_cons, beq_self_eq_true, Bool.not_true, Bool.false_eq_true, if_false,
        List.any_cons]
      rw [iht]
      have : litTrue ν ⟨v, !(ν v)⟩ = false := by
        unfold litTrue; cases ν v <;> simp
      rw [this, Bool.false_or]
    · have hb : (l == (⟨v, !(ν v)⟩ : Lit)) = false := by
        rw [Bool.eq_false_iff]; intro hh; exact h (beq_iff_eq.1 hh)
      simp only [List.filter_cons, hb, Bool.not_false, if_true, List.any_cons]
      rw [iht]

theorem cnfTrue_assign (ν : Asg) (v : Nat) (f : Cnf) :
    cnfTrue ν (assignCnf v (ν v) f) = cnfTrue ν f := by
  induction f with
  | nil => rfl
  | cons c t ih =>
    unfold assignCnf cnfTrue at *
    by_cases hc : c.contains ⟨v, ν v⟩ = true
    · have hct : clauseTrue ν c = true := by
        unfold clauseTrue
        rw [List.any_eq_true]
        refine ⟨⟨v, ν v⟩, ?_, ?_⟩
        · simpa using hc
        · unfold litTrue; cases ν v <;> simp
      simp only [List.filter_cons, hc, Bool.not_true, Bool.false_eq_true, if_false, List.all_cons, hct,
        Bool.true_and]
      exact ih
    · have hc' : c.contains ⟨v, ν v⟩ = false := by simpa using hc
      simp only [List.filter_cons, hc', Bool.not_false, if_true, List.map_cons, List.all_cons]
      rw [ih, clauseTrue_assign ν v c hc']

theorem refuteB_sound : ∀ (k : Nat) (f : Cnf), refuteB k f = true → ∀ ν : Asg, cnfTrue ν f = false := by
  have hempty : ∀ (f : Cnf) (ν : Asg), f.any (fun c => c.isEmpty) = true → cnfTrue ν f = false := by
    intro f ν h
    obtain ⟨c, hc, he⟩ := List.any_eq_true.1 h
    have : c = [] := by simpa using he
    subst this
    rw [Bool.eq_false_iff]; intro ht
    have := (List.all_eq_true.1 ht) [] hc
    simp [clauseTrue] at this
  intro k
  induction k with
  | zero => intro f h ν; exact hempty f ν h
  | succ k ih =>
    intro f h ν
    simp only [refuteB, Bool.or_eq_true, Bool.and_eq_true] at h
    rcases h with h | ⟨h1, h2⟩
    · exact hempty f ν h
    · rw [← cnfTrue_assign ν (k + 1) f]
      cases hv : ν (k + 1)
      · exact ih _ h2 ν
      · exact ih _ h1 ν

theorem assumps_as_units (ν : Asg) (a : List Lit) : assumpsTrue ν a = cnfTrue ν (a.map (fun l => [l])) := by
  induction a with
  | nil => rfl
  | cons l t ih =>
    simp only [assumpsTrue, cnfTrue, List.all_cons, List.map_cons, clauseTrue, List.any_cons, List.any_nil,
      Bool.or_false] at ih ⊢
    rw [ih]

def modelTotalB (m : Model) (db : Cnf) : Bool :=
  db.all (fun c => c.all (fun l => (m.getD (l.var - 1) none).isSome))

/-- Boolean mirror of `ReplySound`; `unsat` is checked by refutation over the variables up to the
largest one occurring in the clauses and the assumptions -/
def replySoundB (db : Cnf) (a : List Lit) : Reply → Bool
  | .sat m => modelTotalB m db && cnfTrue (asgOfModel m) db && assumpsTrue (asgOfModel m) a
  | .unsat => refuteB (max (Cnf.maxVar db) (litsMax a)) (a.map (fun l => [l]) ++ db)
  | .unknown => true

theorem replySoundB_sound (db : Cnf) (a : List Lit) (r : Reply) (h : replySoundB db a r = true) :
    ReplySound db a r := by
  cases r with
  | unknown => trivial
  | sat m =>
    simp only [replySoundB, Bool.and_eq_true] at h
    refine ⟨?_, h.1.2, h.2⟩
    intro c hc l hl
    exact List.all_eq_true.1 (List.all_eq_true.1 h.1.1 c hc) l hl
  | unsat =>
    intro ν ⟨h1, h2⟩
    have := refuteB_sound _ _ h ν
    rw [cnfTrue, List.all_append, ← cnfTrue, ← cnfTrue, ← assumps_as_units, h1, h2] at this
    cases this

/-- Boolean mirror of `RunSound` -/
def runSoundB {α : Type} : Prog α → List Reply → World → Bool
  | .pure _, _, _ => true
  | .crash _, _, _ => true
  | .newSolver k, rs, w => runSoundB (k w.solvers.length) rs w.onNew
  | .reserve s n k, rs, w => runSoundB k rs (w.onReserve s n)
  | .clause s c k, rs, w => runSoundB k rs (w.onClause s c)
  | .nVars s k, rs, w => runSoundB (k (w.nVarsOf s)) rs (w.onNVars s)
  | .solve _ _ _, [], _ => true
  | .solve _ _ _, .unknown :: _, _ => true
  | .solve s a k, .unsat :: rs', w =>
    replySoundB (w.db s) a .unsat && runSoundB (k none) rs' ((w.onSolve s a).onReply s .unsat)
  | .solve s a k, .sat m :: rs', w =>
    replySoundB (w.db s) a (.sat m) && runSoundB (k (some m)) rs' ((w.onSolve s a).onReply s (.sat m))

theorem runSoundB_sound {α : Type} (p : Prog α) : ∀ (rs : List Reply) (w : World),
    runSoundB p rs w = true → RunSound p rs w := by
  induction p with
  | pure a => intro rs w _; trivial
  | crash m => intro rs w _; trivial
  | newSolver k ih => intro rs w h; exact ih _ rs _ h
  | reserve s n k ih => intro rs w h; exact ih rs _ h
  | clause s c k ih => intro rs w h; exact ih rs _ h
  | nVars s k ih => intro rs w h; exact ih _ rs _ h
  | solve s a k ih =>
    intro rs w h
    cases rs with
    | nil => trivial
    | cons r rs' =>
      cases r with
      | unknown => trivial
      | unsat =>
        simp only [runSoundB, Bool.and_eq_true] at h
        exact ⟨replySoundB_sound _ _ _ h.1, ih none rs' _ h.2⟩
      | sat m =>
        simp only [runSoundB, Bool.and_eq_true] at h
        exact ⟨replySoundB_sound _ _ _ h.1, ih (some m) rs' _ h.2⟩

/-! ## the frameworks -/

/-- a 2-cycle with a tail: complete extensions ∅, {0,2}, {1}; preferred = stable = {0,2}, {1} -/
def afA : AF := ⟨3, [(0, 1), (1, 0), (1, 2)]⟩

/-- `afA` plus a self-attacking isolated argument: no stable extension -/
def afB : AF := ⟨4, [(0, 1), (1, 0), (1, 2), (3, 3)]⟩

theorem afA_wf : afA.WF := by unfold AF.WF; decide
theorem afB_wf : afB.WF := by unfold AF.WF; decide

def cfgA : Cfg := { enc := .auxCO }

theorem cfgA_CO : CfgOK .CO cfgA := base_complete_of .auxCO (Or.inl rfl)
theorem cfgA_PR : CfgOK .PR cfgA := base_complete_of .auxCO (Or.inl rfl)

theorem cfgA_fuel : cfgA.fuel ≥ fuelFor (1 + afA.view.maxId.getD 0) := by decide

/-! ## 1. complete semantics, credulous query with certificate, one SAT reply

Hypotheses of `C02.credulous_status_exact`, `C04.certificates_witness`, `C07.solver_answers_satisfy_spec`,
`static_answers_conform`, `C18.every_query_terminates`. -/

/-- aux_var layout on 3 arguments: `P0 x0 P1 x1 P2 x2`, then the selector (variable 7).
The model encodes the extension {0,2}. -/
def mCO : Model := [some false, some true, some true, some false, some false, some true, some true]

def pCO : Prog Ans := certOnly true (coDCcert cfgA afA.view [0])

theorem static_hyps_CO_dc :
    ∃ (cfg : Cfg) (p : Prog Ans) (rs : List Reply) (ans : Ans) (w' : World),
      cfg.enc = .auxCO ∧
      CfgOK .CO cfg ∧
      afA.view.Ok afA.g ∧
      (∀ a ∈ [0], afA.g.live a = true) ∧
      entryProg .CO cfg afA.view (.dc true [0]) = some p ∧
      ({} : World).Bounded ∧
      cfg.fuel ≥ fuelFor (1 + afA.view.maxId.getD 0) ∧
      rs = [.sat mCO] ∧
      RunSound p rs {} ∧
      interp p rs {} = (.done ans, w') ∧
      -- the run evaluated: YES with the certificate {0,2}, after one SAT call
      ans = .acc ⟨true, some [0, 2]⟩ true ∧ w'.calls = 1 := by
  refine ⟨cfgA, pCO, [.sat mCO], .acc ⟨true, some [0, 2]⟩ true, (interp pCO [.sat mCO] {}).2,
    rfl, cfgA_CO, AF.view_ok afA afA_wf, by decide, rfl, Bounded_empty, cfgA_fuel, rfl, ?_, ?_, rfl, ?_⟩
  · exact runSoundB_sound _ _ _ (by decide)
  · rfl
  · decide

/-- the conclusions of C02 / C04 on this run, obtained by *applying* the theorems to the witnesses -/
theorem static_concl_CO_dc :
    (∃ S, Sem.CO.GExt afA.g S ∧ HitsL [0] S) ∧
    (∃ e, (some [0, 2] : Option (List Nat)) = some e ∧ Sem.CO.GExt afA.g (ofList e) ∧ HitsL [0] (ofList e)) := by
  obtain ⟨cfg, p, rs, ans, w', _, hcfg, hv, hargs, hp, hb, _, _, hs, hrun, hans, _⟩ := static_hyps_CO_dc
  subst hans
  refine ⟨(C02.credulous_status_exact .CO cfg hcfg _ _ hv true [0] hargs p hp _ hb rs hs _ _ w' hrun).1 rfl, ?_⟩
  exact ((C04.certificates_witness .CO cfg hcfg _ _ hv true [0] hargs _ hb rs _ _ w').1 p hp hs hrun).2 rfl |>.1 rfl

/-! ## 2. preferred semantics: runs with several SAT calls, the last reply being `unsat`

Hypotheses of `C03.skeptical_status_exact`, `C04.certificates_witness` (DS half),
`C01.se_answers_are_extensions`, `C07`, `C18.every_query_terminates`. -/

/-- the complete extension {0,2} (selector false) -/
def mPR02 : Model := [some false, some true, some true, some false, some false, some true, some false]
/-- the complete extension {1} (selector false) -/
def mPR1 : Model := [some true, some false, some false, some true, some true, some false, some false]

def pPRds : Prog Ans := certOnly true (prDScert cfgA afA.view [0])

/-- skeptical acceptance of argument 0 under PR, certificate requested.  The SAT solver first
proposes {0,2} (contains 0: search discarded), then {1}, and then proves that {1} has no complete
proper superset (`unsat`: discharged by `refuteB` on the 20-clause database over 7 variables under
the assumptions `x1, ¬sel`).  Three SAT calls; answer NO with the counter-example {1}. -/
theorem static_hyps_PR_ds :
    ∃ (cfg : Cfg) (p : Prog Ans) (rs : List Reply) (ans : Ans) (w' : World),
      cfg.enc = .auxCO ∧
      CfgOK .PR cfg ∧
      afA.view.Ok afA.g ∧
      (∀ a ∈ [0], afA.g.live a = true) ∧
      entryProg .PR cfg afA.view (.ds true [0]) = some p ∧
      ({} : World).Bounded ∧
      cfg.fuel ≥ fuelFor (1 + afA.view.maxId.getD 0) ∧
      rs = [.sat mPR02, .sat mPR1, .unsat] ∧
      RunSound p rs {} ∧
      interp p rs {} = (.done ans, w') ∧
      ans = .acc ⟨false, some [1]⟩ true ∧ w'.calls = 3 := by
  refine ⟨cfgA, pPRds, [.sat mPR02, .sat mPR1, .unsat], .acc ⟨false, some [1]⟩ true,
    (interp pPRds [.sat mPR02, .sat mPR1, .unsat] {}).2,
    rfl, cfgA_PR, AF.view_ok afA afA_wf, by decide, rfl, Bounded_empty, cfgA_fuel, rfl, ?_, ?_, rfl, ?_⟩
  · exact runSoundB_sound _ _ _ (by decide)
  · rfl
  · decide

/-- the conclusions of C03 / C04 on this run, by applying the theorems -/
theorem static_concl_PR_ds :
    (¬ ∀ S, Sem.PR.GExt afA.g S → HitsL [0] S) ∧
    (∃ e, (some [1] : Option (List Nat)) = some e ∧ Sem.PR.GExt afA.g (ofList e) ∧ ¬ HitsL [0] (ofList e)) := by
  obtain ⟨cfg, p, rs, ans, w', _, hcfg, hv, hargs, hp, hb, _, _, hs, hrun, hans, _⟩ := static_hyps_PR_ds
  subst hans
  refine ⟨fun h => ?_, ?_⟩
  · have := (C03.skeptical_status_exact .PR cfg hcfg _ _ hv true [0] hargs p hp _ hb rs hs _ _ w' hrun).2 h
    cases this
  · exact ((C04.certificates_witness .PR cfg hcfg _ _ hv true [0] hargs _ hb rs _ _ w').2 p hp hs hrun).2 rfl |>.1 rfl

def pPRse : Prog Ans := do pure (.ext (← prSE cfgA afA.view))

/-- single-extension query under PR: from the grounded extension ∅ the solver is offered {0,2},
then `unsat` (no complete proper superset).  Two SAT calls; answer {0,2}. -/
theorem static_hyps_PR_se :
    ∃ (cfg : Cfg) (p : Prog Ans) (rs : List Reply) (res : Option (List Nat)) (w' : World),
      cfg.enc = .auxCO ∧
      CfgOK .PR cfg ∧
      afA.view.Ok afA.g ∧
      entryProg .PR cfg afA.view .se = some p ∧
      ({} : World).Bounded ∧
      cfg.fuel ≥ fuelFor (1 + afA.view.maxId.getD 0) ∧
      rs = [.sat mPR02, .unsat] ∧
      RunSound p rs {} ∧
      interp p rs {} = (.done (.ext res), w') ∧
      res = some [0, 2] ∧ w'.calls = 2 := by
  refine ⟨cfgA, pPRse, [.sat mPR02, .unsat], some [0, 2], (interp pPRse [.sat mPR02, .unsat] {}).2,
    rfl, cfgA_PR, AF.view_ok afA afA_wf, rfl, Bounded_empty, cfgA_fuel, rfl, ?_, ?_, rfl, ?_⟩
  · exact runSoundB_sound _ _ _ (by decide)
  · rfl
  · decide

/-! ## 3. stable semantics on a framework without stable extension: the answer `none`

Hypotheses of `C01.se_answers_are_extensions`, second half ("no extension is returned only if there
is none"). -/

/-- the stable extension {0,2} of the first component (default stable encoder: `x_a = a+1`) -/
def mST : Model := [some true, some false, some true]

def pSTse : Prog Ans := do pure (.ext (← stSE afB.view))

/-- `afB` has the components {0,1,2} and {3}: one solver per component; the first call is `sat`,
the second (clauses `¬x0`, `x0` of the self-attacker) `unsat`; the answer is `none` -/
theorem static_hyps_ST_se_none :
    ∃ (cfg : Cfg) (p : Prog Ans) (rs : List Reply) (res : Option (List Nat)) (w' : World),
      CfgOK .ST cfg ∧
      afB.view.Ok afB.g ∧
      entryProg .ST cfg afB.view .se = some p ∧
      ({} : World).Bounded ∧
      cfg.fuel ≥ fuelFor (1 + afB.view.maxId.getD 0) ∧
      rs = [.sat mST, .unsat] ∧
      RunSound p rs {} ∧
      interp p rs {} = (.done (.ext res), w') ∧
      res = none ∧ w'.calls = 2 ∧ w'.solvers.length = 2 := by
  refine ⟨cfgA, pSTse, [.sat mST, .unsat], none, (interp pSTse [.sat mST, .unsat] {}).2,
    trivial, AF.view_ok afB afB_wf, rfl, Bounded_empty, by decide, rfl, ?_, ?_, rfl, ?_, ?_⟩
  · exact runSoundB_sound _ _ _ (by decide)
  · rfl
  · decide
  · decide

/-- the conclusion of C01 on this run, by applying the theorem: `afB` has no stable extension -/
theorem static_concl_ST_se_none : ¬ ∃ S, Sem.ST.GExt afB.g S := by
  obtain ⟨cfg, p, rs, res, w', hcfg, hv, hp, hb, _, _, hs, hrun, hres, _⟩ := static_hyps_ST_se_none
  exact (C01.se_answers_are_extensions .ST cfg hcfg _ _ hv p hp _ hb rs hs res w' hrun).2 hres

/-! ## bonus: the hypotheses of `C06.status_independent_of_configuration` on two different runs -/

def cfgE : Cfg := { enc := .expCO, fuel := 60 }

/-- exp layout: `x_a = a+1`, selector = variable 4; the complete extension {1} -/
def mE1 : Model := [some false, some true, some false, some false]

def pPRdsE : Prog Ans := certOnly false (prDS cfgE afA.view [0])

/-- the same skeptical query run twice: aux_var encoder / certificate / empty world / three SAT
calls, and exponential encoder / no certificate / a world in which a solver already exists / one
SAT call (the shortcut of `is_skeptically_accepted_in_cc` fires).  Same status. -/
theorem c06_hyps :
    ∃ (cfg1 cfg2 : Cfg) (p1 p2 : Prog Ans) (w2 : World) (rs1 rs2 : List Reply) (a1 a2 : AccAns)
      (w1' w2' : World),
      cfg1.enc = .auxCO ∧ cfg2.enc = .expCO ∧
      afA.view.Ok afA.g ∧ (∀ a ∈ [0], afA.g.live a = true) ∧
      CfgOK .PR cfg1 ∧ CfgOK .PR cfg2 ∧
      ({} : World).Bounded ∧ w2.Bounded ∧ w2.solvers.length = 1 ∧
      entryProg .PR cfg1 afA.view (.ds true [0]) = some p1 ∧
      entryProg .PR cfg2 afA.view (.ds false [0]) = some p2 ∧
      RunSound p1 rs1 {} ∧ RunSound p2 rs2 w2 ∧
      interp p1 rs1 {} = (.done (.acc a1 true), w1') ∧
      interp p2 rs2 w2 = (.done (.acc a2 false), w2') ∧
      w1'.calls = 3 ∧ w2'.calls = 1 ∧ a1.status = false ∧ a2.status = false := by
  refine ⟨cfgA, cfgE, pPRds, pPRdsE, ({} : World).onNew, [.sat mPR02, .sat mPR1, .unsat], [.sat mE1],
    ⟨false, some [1]⟩, ⟨false, none⟩, (interp pPRds [.sat mPR02, .sat mPR1, .unsat] {}).2,
    (interp pPRdsE [.sat mE1] ({} : World).onNew).2,
    rfl, rfl, AF.view_ok afA afA_wf, by decide, cfgA_PR, base_complete_of .expCO (Or.inr (Or.inl rfl)),
    Bounded_empty, Bounded_onNew Bounded_empty, rfl, rfl, rfl, ?_, ?_, rfl, rfl, ?_, ?_, rfl, rfl⟩
  · exact runSoundB_sound _ _ _ (by decide)
  · exact runSoundB_sound _ _ _ (by decide)
  · decide
  · decide

/-! ## 4. C19: `compute_classes` merges two distinct arguments -/

/-- 0 ↔ 1 ↔ 2 (arguments 0 and 2 both attack 1 and are attacked by 1 only), and 3 → 4 -/
def afC : AF := ⟨5, [(0, 1), (1, 0), (1, 2), (2, 1), (3, 4)]⟩

/-- hypothesis of `C19.merged_arguments_indistinguishable` (and of the other C19 theorems) on a
framework where the reduction performs a genuine merge: grounded class {3}, defeated class {4},
and the class {0,2} of two distinct arguments found by mutual propagation -/
theorem c19_hyps :
    afC.WF ∧
    (Eq.computeClasses afC).map (fun c => (c.kind, c.members)) =
      [(.grounded, [3]), (.defeated, [4]), (.other, [0, 2]), (.other, [1])] ∧
    (∃ c ∈ Eq.computeClasses afC, 2 ≤ c.members.length ∧ 0 ∈ c.members ∧ 2 ∈ c.members ∧ (0 : Nat) ≠ 2) := by
  refine ⟨by unfold AF.WF; decide, by decide, ⟨.other, [0, 2]⟩, ?_, by decide, by decide, by decide, by decide⟩
  have h : Eq.computeClasses afC = [⟨.grounded, [3]⟩, ⟨.defeated, [4]⟩, ⟨.other, [0, 2]⟩, ⟨.other, [1]⟩] := by rfl
  rw [h]; simp

/-- the conclusion of C19 on the merged pair, by applying the theorem -/
theorem c19_concl : ∀ S, Complete afC S → S 0 = S 2 := by
  obtain ⟨hwf, _, c, hc, _, h0, h2, _⟩ := c19_hyps
  exact C19.merged_arguments_indistinguishable afC hwf c hc 0 h0 2 h2

/-! ## 5. C15: the external-solver wrapper -/

open Crusta.Sat in
/-- two clauses `(1 ∨ ¬2)`, `(2 ∨ 3)` with a reservation of 4 variables in between -/
def opsX : List Sat.BOp := [.add [pl 1, nl 2], .reserve 4, .add [pl 2, pl 3]]
/-- assumption `¬3` -/
def asX : List Lit := [nl 3]
def mX : List Bool := [true, true, false, false]
/-- a reply laid out as: `c hi` / `s SATISFIABLE` / `v 1 2` / `c` / `v -3 -4 0` / (empty line) -/
def layX : Sat.Layout := ⟨[[99, 32, 104, 105]], [([], 2)], [[99]], [[]]⟩

theorem lineOk_of_small (l : IO.Str) (h : l.all (fun c => decide (c < 0xD800) && !(c == 10)) = true)
    (h2 : l.getLast? ≠ some 13) : IO.LineOk l := by
  refine ⟨fun c hc => ?_, h2⟩
  have := List.all_eq_true.1 h c hc
  simp only [Bool.and_eq_true, decide_eq_true_eq, Bool.not_eq_true', beq_eq_false_iff_ne, ne_eq] at this
  exact ⟨⟨by omega, by omega⟩, this.2⟩

theorem layX_ok : layX.Ok := by
  have hn : ∀ l ∈ [[99, 32, 104, 105], [99], ([] : IO.Str)], Sat.Noise l := by
    intro l hl
    simp only [List.mem_cons, List.not_mem_nil, or_false] at hl
    rcases hl with rfl | rfl | rfl
    · exact ⟨lineOk_of_small _ (by decide) (by decide), Or.inr (Or.inr ⟨_, rfl⟩)⟩
    · exact ⟨lineOk_of_small _ (by decide) (by decide), Or.inr (Or.inl rfl)⟩
    · exact ⟨lineOk_of_small _ (by decide) (by decide), Or.inl rfl⟩
  refine ⟨fun l hl => hn l ?_, fun ch hch l hl => ?_, fun l hl => hn l ?_, fun l hl => hn l ?_⟩
  · simp only [layX, List.mem_singleton] at hl; subst hl; simp
  · simp only [layX, List.mem_singleton] at hch; subst hch; cases hl
  · simp only [layX, List.mem_singleton] at hl; subst hl; simp
  · simp only [layX, List.mem_singleton] at hl; subst hl; simp

/-- all hypotheses of `C15.external_wrapper_sound`, including the premise of its first conclusion
(the model satisfies the clauses read back from the text handed to the solver) -/
theorem c15_hyps :
    (∀ op ∈ opsX, op.Proper) ∧ (∀ a ∈ asX, 1 ≤ a.var) ∧ layX.Ok ∧ mX.length ≤ 9223372036854775807 ∧
    (let b := opsX.foldl Sat.Buffered.apply {}
     b.nVars = 4 ∧ b.clauses = [[pl 1, nl 2], [pl 2, pl 3]] ∧
     ∃ nv nc cls, Sat.readDimacs (b.dimacs asX) = some (nv, nc, cls) ∧
      cls = [[pl 1, nl 2], [pl 2, pl 3], [nl 3]] ∧
      cnfTrue (asgOfModel (mX.map some)) cls = true) := by
  have hops : ∀ op ∈ opsX, op.Proper := by
    intro op hop
    simp only [opsX, List.mem_cons, List.not_mem_nil, or_false] at hop
    rcases hop with rfl | rfl | rfl
    · intro l hl
      simp only [List.mem_cons, List.not_mem_nil, or_false] at hl
      rcases hl with rfl | rfl <;> decide
    · trivial
    · intro l hl
      simp only [List.mem_cons, List.not_mem_nil, or_false] at hl
      rcases hl with rfl | rfl <;> decide
  have has : ∀ a ∈ asX, 1 ≤ a.var := by decide
  refine ⟨hops, has, layX_ok, by decide, ?_⟩
  obtain ⟨nv, nc, cls, hread, hcls, _⟩ := Sat.dimacs_header_exact opsX asX hops has
  refine ⟨by decide, by decide, nv, nc, cls, hread, ?_, ?_⟩
  · rw [hcls]; decide
  · rw [hcls]; decide

/-- the first conclusion of `C15.external_wrapper_sound` on this instance, by applying the theorem:
the wrapper reports exactly the model, which satisfies the buffered clauses and the assumption -/
theorem c15_concl :
    Sat.parseReply mX.length (Sat.renderModel mX layX) = .sat (mX.map some) ∧
    (∀ c ∈ (opsX.foldl Sat.Buffered.apply {}).clauses, clauseTrue (asgOfModel (mX.map some)) c = true) ∧
    (∀ a ∈ asX, litTrue (asgOfModel (mX.map some)) a = true) := by
  obtain ⟨hops, has, hlay, hm, _, _, nv, nc, cls, hread, _, hsat⟩ := c15_hyps
  obtain ⟨nv', nc', cls', hread', himp, _⟩ := C15.external_wrapper_sound opsX asX hops has mX layX hlay hm
  rw [hread] at hread'
  injection hread' with h; injection h with _ h; injection h with _ h
  subst h
  exact himp hsat

/-! ## 6. C18: the PR call bounds on a concrete component -/

/-- the component the PR / CO solvers extract for a query about argument 0 of `afA` -/
def compA : Comp := ⟨[0, 1, 2], afA⟩

/-- hypotheses of `C18.pr_calls_on_prog` (outer and both inner ones) -/
theorem c18_hyps :
    (∀ af T, cfgA.enc.Base af T ↔ Complete af T) ∧
    compA.af.WF ∧
    ({} : World).Bounded ∧
    cfgA.fuel ≥ compA.af.n + 3 ∧
    (∃ pos, posAll compA [0] = some pos) ∧
    cfgA.fuel ≥ (extsCO compA.af).length + 1 ∧
    -- the component is the one the solver computes, and the bounds evaluated
    (CC.mergedOf afA.view (CC.new afA.view) [0]).map (fun r => r.1.map (fun c => (c.ids, c.af))) =
      some (some (compA.ids, compA.af)) ∧
    (extsCO compA.af).length = 3 ∧ (extsPR compA.af).length = 2 := by
  refine ⟨cfgA_PR, afA_wf, Bounded_empty, by decide, ⟨[0], by decide⟩, by decide, by decide,
    by decide, by decide⟩

/-- the conclusions of `C18.pr_calls_on_prog` on this component, read on runs through
`C18.calls_statement_meaning`: `compute_maximal` makes at most 4 calls, the skeptical search at
most 6 (the run of `static_hyps_PR_ds` made 3) -/
theorem c18_concl (rs : List Reply) :
    (RunSound (prMaximalOfComp cfgA compA) rs {} →
      ∀ a w', interp (prMaximalOfComp cfgA compA) rs {} = (.done a, w') → w'.calls ≤ 4) ∧
    (∀ sc, RunSound (prSkeptInCc cfgA compA [0] sc) rs {} →
      ∀ a w', interp (prSkeptInCc cfgA compA [0] sc) rs {} = (.done a, w') → w'.calls ≤ 6) := by
  obtain ⟨hk, hwf, hb, hf1, hpos, hf2, _, h3, h2⟩ := c18_hyps
  have h := C18.pr_calls_on_prog cfgA hk compA hwf {} hb
  constructor
  · intro hs a w' hr
    have := (C18.calls_statement_meaning _ _ _ (wp_mono _ _ _ _ (fun _ w' hw => by
      show w'.calls ≤ ({} : World).calls + (compA.af.n + 1); omega) (h.1 hf1)) rs hs).2 a w' hr
    exact this
  · intro sc hs a w' hr
    have := (C18.calls_statement_meaning _ _ _ (wp_mono _ _ _ _ (fun _ w' hw => by
      show w'.calls ≤ ({} : World).calls + ((extsCO compA.af).length + (extsPR compA.af).length + 1); omega)
      (h.2 [0] sc hpos hf2)) rs hs).2 a w' hr
    rw [h3, h2] at this
    exact this

end Crusta.NonVacuity
