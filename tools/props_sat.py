"""C15 (incremental contract of the SAT solver objects), C16 (exchange with an external solver)."""
import os
import re
import subprocess
import time

import common
import engine
import gen
from engine import Property, Finding

FAKE = os.path.join(common.VERIF, "tools", "fakesolver.py")


def rand_clause(rng, nv):
    k = rng.choice([0, 1, 1, 2, 2, 2, 3, 3])
    return [rng.choice([1, -1]) * rng.randint(1, nv) for _ in range(k)]


def rand_sat_history(rng, length, nv=None):
    nv = nv or rng.randint(1, 8)
    ops = []
    for _ in range(length):
        r = rng.random()
        if r < 0.5:
            c = rand_clause(rng, nv)
            if not c and rng.random() < 0.7:
                c = rand_clause(rng, nv)
            ops.append("c:" + ",".join(map(str, c)))
        elif r < 0.6:
            ops.append("r:%d" % rng.randint(0, nv + 4))
        elif r < 0.7:
            ops.append("n")
        elif r < 0.8:
            ops.append("s")
        else:
            k = rng.randint(0, 3)
            a = [rng.choice([1, -1]) * rng.randint(1, nv + 2) for _ in range(k)]
            ops.append("q:" + ",".join(map(str, a)))
    ops.append("q:" if rng.random() < 0.5 else "s")
    ops.append("n")
    return ops


class C15(Property):
    id = "C15"
    families = ["sat"]
    rule = ("random incremental histories (empty clause, unit clauses, reserved but unused variables, assumptions on unseen variables, contradictory assumptions; one in ten with 40-300 variables and 60-300 operations) of "
            "add_clause / reserve / solve / solve_under_assumptions / n_vars on CadicalSolver and on ExternalSatSolver driving kissat; every reported model is "
            "evaluated against all clauses added so far and the assumptions of the call, its length against n_vars; UNSAT is cross-checked by enumeration "
            "(<= 14 variables); n_vars and, for the external backend, the DIMACS text and the interpretation of the reply are compared with the Lean model; "
            "the two backends must give the same verdicts; non-trivial = history with >= 2 solve calls")
    assumptions = ["soundness and completeness of CaDiCaL and kissat are validated on the runs performed, not proved",
                   "the wrappers (BufferedSatSolver, CadicalSolver glue) are what the Lean model covers"]

    def cases(self, tier, rng):
        lines = []
        self.pairs = []
        k = 250 if tier == "quick" else 4000
        capdir = os.path.join(common.CACHE, "cap-%s-%d" % (self.id, os.getpid()))
        self.capdir = capdir
        for i in range(k):
            ops = rand_sat_history(rng, rng.randint(3, 25)) if rng.random() < 0.9 else rand_sat_history(rng, rng.randint(60, 300), rng.randint(40, 300))
            o = ";".join(ops)
            lines.append("sat x backend=cadical ops=%s" % o)
            lines.append("sat x backend=%s ops=%s cap=%s/c%d" % (FAKE, o, capdir, i))
            self.pairs.append(len(lines) - 2)
        return lines

    def judge(self, case_line, impl, model):
        fs = []
        be = "external" if "backend=/" in case_line else "cadical"
        for l in impl:
            if "-> panic" in l:
                fs.append(Finding("input", case_line, "the solver object panicked: " + l[:120], "%s · panic" % be))
                return fs
        for v in model:
            if v.startswith("verdict BAD"):
                fs.append(Finding("input", case_line, v[12:], "%s · %s" % (be, re.sub(r"\d+", "N", v[12:]))))
                return fs
        a = [re.sub(" +", " ", l) for l in impl if l[:2] in ("O ", "D ")]
        b = [re.sub(" +", " ", l) for l in model if l[:2] in ("O ", "D ")]
        if a != b:
            k = 0
            while k < min(len(a), len(b)) and a[k] == b[k]:
                k += 1
            d = {"impl": a[k:k + 1], "model": b[k:k + 1]}
            if a[k:k + 1] and a[k].startswith("D "):
                d = {"impl_dimacs": bytes.fromhex(a[k][2:]).decode(errors="replace")[:300], "model_dimacs": bytes.fromhex(b[k][2:]).decode(errors="replace")[:300] if b[k:k + 1] else None}
            fs.append(Finding("correspondence", case_line, "solver wrapper differs from the Lean wrapper model", "%s · model differs" % be, d))
        return fs

    def judge_group(self, cases, impl, model):
        fs = []
        off = len(cases) - getattr(self, "ncases", len(cases))
        ids = [c.split(" ")[1] for c in cases]
        for i in getattr(self, "pairs", []):
            try:
                a = [l.split("->")[1].strip()[:1] for l in impl[ids[off + i]] if l.startswith(("O q", "O s")) and "->" in l]
                b = [l.split("->")[1].strip()[:1] for l in impl[ids[off + i + 1]] if l.startswith(("O q", "O s")) and "->" in l]
            except KeyError:
                continue
            if a != b:
                fs.append(Finding("input", cases[off + i + 1], "embedded and external solver disagree on the same history: %s vs %s" % ("".join(a), "".join(b)),
                                  "backends disagree", {"cadical_case": cases[off + i]}))
        import shutil
        shutil.rmtree(getattr(self, "capdir", "/nonexistent"), ignore_errors=True)
        return fs

    def same_class(self, f, cur):
        return f.signature == cur.signature

    def shrink_candidates(self, case_line):
        toks = case_line.split(" ")
        out = []
        for ti, t in enumerate(toks):
            if t.startswith("ops="):
                ops = [o for o in t[4:].split(";") if o]
                for i in range(len(ops) - 1):
                    out.append(" ".join(toks[:ti] + ["ops=" + ";".join(ops[:i] + ops[i + 1:])] + toks[ti + 1:]))
        return out[:60]

    def nontrivial(self, case_line):
        return case_line.count("q:") + case_line.count(";s") >= 2


def check_dimacs(b):
    """recogniser: header exact, variables within the header; returns None or a complaint"""
    try:
        t = b.decode("ascii")
    except Exception:
        return "not ASCII"
    ls = t.split("\n")
    if ls[-1] != "":
        return "last line not terminated"
    ls = ls[:-1]
    m = re.fullmatch(r"p cnf (\d+) (\d+)", ls[0]) if ls else None
    if not m:
        return "bad header line %r" % (ls[0] if ls else "")
    nv, nc = int(m.group(1)), int(m.group(2))
    if nc != len(ls) - 1:
        return "header announces %d clauses, %d clause lines follow" % (nc, len(ls) - 1)
    for l in ls[1:]:
        w = l.split(" ")
        if w[-1] != "0" or not all(re.fullmatch(r"-?[1-9]\d*", x) for x in w[:-1]):
            return "malformed clause line %r" % l
        for x in w[:-1]:
            if abs(int(x)) > nv:
                return "variable %d exceeds the header's variable count %d" % (abs(int(x)), nv)
    return None


def gen_reply(rng, nv):
    """(bytes, expectation) expectation in {'sat:<bits>', 'unsat', 'undecided'}"""
    model = [rng.choice([True, False]) for _ in range(nv)]
    lits = [(i + 1) if v else -(i + 1) for i, v in enumerate(model)]
    comments = ["c kissat", "c", "c " + "x" * rng.randint(0, 60)]
    kind = rng.choice(["sat", "sat", "sat_split", "unsat", "truncated", "nostatus", "statusonly", "garbage", "empty", "twostatus", "oob", "notnum", "twozero", "crlf",
                       "unsat_then_sat", "unsat_garbage", "unsat_badv", "unsat_comments", "sat_then_garbage", "sat_then_status", "atoms", "atoms"])
    ls = []
    for _ in range(rng.randint(0, 3)):
        ls.append(rng.choice(comments))
    bits = "".join("+" if v else "-" for v in model)
    if kind in ("sat", "crlf"):
        ls += ["s SATISFIABLE", "v " + " ".join(map(str, lits + [0]))]
        exp = "sat:" + bits
    elif kind == "sat_split":
        ls.append("s SATISFIABLE")
        cut = rng.randint(0, nv)
        ls.append("v " + " ".join(map(str, lits[:cut])) if cut else "v")
        if rng.random() < 0.5:
            ls.append("c interleaved")
        ls.append("v " + " ".join(map(str, lits[cut:] + [0])))
        exp = "sat:" + bits
    elif kind == "unsat":
        ls.append("s UNSATISFIABLE")
        exp = "unsat"
    elif kind == "truncated":
        ls += ["s SATISFIABLE", "v " + " ".join(map(str, lits[:rng.randint(0, nv)]))]
        exp = "undecided"
    elif kind == "nostatus":
        ls.append("v " + " ".join(map(str, lits + [0])))
        exp = "undecided"
    elif kind == "statusonly":
        ls.append("s SATISFIABLE")
        exp = "undecided"
    elif kind == "garbage":
        ls += ["s SATISFIABLE", rng.choice(["Segmentation fault", "s UNKNOWN", "V 1 0", " s SATISFIABLE", "vv 1 0"])]
        exp = "undecided"
    elif kind == "empty":
        ls = []
        exp = "undecided"
    elif kind == "twostatus":
        ls += ["s SATISFIABLE", "s UNSATISFIABLE"]
        exp = "undecided"
    elif kind == "oob":
        ls += ["s SATISFIABLE", "v %d 0" % (nv + 1 + rng.randint(0, 3))]
        exp = "undecided"
    elif kind == "notnum":
        ls += ["s SATISFIABLE", "v 1 x 0"]
        exp = "undecided"
    elif kind == "unsat_then_sat":
        ls += ["s UNSATISFIABLE", "s SATISFIABLE", "v " + " ".join(map(str, lits + [0]))]
        exp = "undecided"
    elif kind == "unsat_garbage":
        ls += ["s UNSATISFIABLE", rng.choice(["killed: out of memory", "s UNKNOWN", "Segmentation fault", "x"])]
        exp = "undecided"
    elif kind == "unsat_badv":
        ls += ["s UNSATISFIABLE", rng.choice(["v 1 x 0", "v %d 0" % (nv + 2), "v 0 0"])]
        exp = "undecided"
    elif kind == "unsat_comments":
        ls += ["s UNSATISFIABLE"] + [rng.choice(comments) for _ in range(rng.randint(1, 3))]
        exp = "unsat"
    elif kind == "sat_then_garbage":
        ls += ["s SATISFIABLE", "v " + " ".join(map(str, lits + [0])), rng.choice(["Segmentation fault", "s UNKNOWN", "x y"])]
        exp = "undecided"
    elif kind == "sat_then_status":
        ls += ["s SATISFIABLE", "v " + " ".join(map(str, lits + [0])), rng.choice(["s SATISFIABLE", "s UNSATISFIABLE"])]
        exp = "undecided"
    elif kind == "atoms":
        # arbitrary sequences of line atoms: no expectation of ours, the reference is the Lean reply parser
        atoms = ["s SATISFIABLE", "s UNSATISFIABLE", "v " + " ".join(map(str, lits + [0])), "v " + " ".join(map(str, lits[:max(1, nv // 2)])),
                 "v 0", "v", "c", "c note", "", "s UNKNOWN", "v 1 x 0", "v %d 0" % (nv + 1), " v 1 0", "garbage"]
        ls = [rng.choice(atoms) for _ in range(rng.randint(1, 5))]
        exp = "model"
    else:  # twozero
        ls += ["s SATISFIABLE", "v " + " ".join(map(str, lits + [0, 0]))]
        exp = "undecided"
    eol = "\r\n" if kind == "crlf" else "\n"
    text = eol.join(ls) + (eol if ls and rng.random() < 0.85 else "")
    return text.encode(), exp, kind


class C16(Property):
    id = "C16"
    families = ["sat", "solve"]
    needs_bins = False
    rule = ("(1) every DIMACS instance captured from the static solvers run through the external backend (all encoders, selector and assumption patterns) and from "
            "random incremental histories is checked by a recogniser (exact clause count, variable count covers clauses and assumptions) and compared with the Lean "
            "rendering; (2) generated well- and ill-formed replies (split v lines, comments, CR/LF, truncation, missing/duplicate/contradictory status lines in either order, garbage or ill-formed value lines after either status line, out-of-range and "
            "non-numeric literals, arbitrary sequences of line atoms) are fed through a scripted external program and the result compared with the Lean reply parser and with the expected class; "
            "(3) timed runs with solver outputs from 1 KiB to 1 MiB around the pipe capacity; non-trivial = reply or instance with at least one literal")
    assumptions = ["OS pipes, process spawning and scheduling are represented by the abstract Pipe model only; the tie is the timed run",
                   "kissat as the honest external solver"]

    def cases(self, tier, rng):
        lines = []
        base = os.path.join(common.CACHE, "c16-%d" % os.getpid())
        self.base = base
        os.makedirs(base, exist_ok=True)
        self.expect = {}
        # (2) reply parser
        k = 300 if tier == "quick" else 5000
        for i in range(k):
            nv = rng.randint(1, 6)
            d = os.path.join(base, "r%d" % i)
            os.makedirs(d, exist_ok=True)
            b, exp, kind = gen_reply(rng, nv)
            open(os.path.join(d, "reply_1"), "wb").write(b)
            ops = ["c:" + ",".join(str(rng.choice([1, -1]) * v) for v in range(1, nv + 1)), "s"]
            line = "sat x backend=%s ops=%s replies=%s kind=%s expect=%s" % (FAKE, ";".join(ops), d, kind, exp)
            lines.append(line)
        # (1) incremental histories with capture (assumption-only variables included)
        for i in range(60 if tier == "quick" else 1000):
            ops = rand_sat_history(rng, rng.randint(3, 15)) if rng.random() < 0.85 else rand_sat_history(rng, rng.randint(60, 300), rng.randint(40, 300))
            lines.append("sat x backend=%s ops=%s cap=%s/h%d" % (FAKE, ";".join(ops), base, i))
        return lines

    def judge(self, case_line, impl, model):
        fs = []
        p = dict(t.split("=", 1) for t in case_line.split(" ")[2:] if "=" in t)
        if "expect" in p:
            res = [l for l in impl if l.startswith("O s") and "->" in l]
            got = res[0].split("->")[1].strip() if res else "none"
            exp = p["expect"]
            kind = p.get("kind")
            if exp.startswith("sat:"):
                ok = got == "s " + exp[4:]
                if not ok:
                    fs.append(Finding("input", case_line, "a well-formed SATISFIABLE reply was reported as %r" % got[:40], "reply %s · printed model not reported faithfully" % kind))
            elif exp == "model":
                pass    # judged against the Lean reply parser below
            elif exp == "unsat":
                if got != "u":
                    fs.append(Finding("input", case_line, "UNSATISFIABLE was reported as %r" % got[:40], "reply %s · unsat not reported" % kind))
            else:
                if got.startswith("s ") or got == "u":
                    fs.append(Finding("input", case_line, "a %s reply was reported as a result: %r" % (kind, got[:40]), "reply %s · malformed reply reported as result" % kind))
        for l in impl:
            if l.startswith("D "):
                c = check_dimacs(bytes.fromhex(l[2:]))
                if c:
                    fs.append(Finding("input", case_line, "ill-formed DIMACS instance handed to the external solver: " + c,
                                      "dimacs · " + re.sub(r"\d+", "N", c), {"dimacs": bytes.fromhex(l[2:]).decode(errors="replace")[:400]}))
                    break
        if fs:
            return fs
        a = [re.sub(" +", " ", l) for l in impl if l[:2] in ("O ", "D ")]
        b = [re.sub(" +", " ", l) for l in model if l[:2] in ("O ", "D ")]
        a = [re.sub(r"-> panic.*", "-> panic", l) for l in a]
        if a != b:
            k = 0
            while k < min(len(a), len(b)) and a[k] == b[k]:
                k += 1
            fs.append(Finding("correspondence", case_line, "exchange differs from the Lean model (DIMACS rendering or reply interpretation)",
                              "exchange · model differs" + (" kind=" + p["kind"] if "kind" in p else ""), {"impl": [x[:200] for x in a[k:k + 1]], "model": [x[:200] for x in b[k:k + 1]]}))
        return fs

    def same_class(self, f, cur):
        return f.signature == cur.signature

    def shrink_candidates(self, case_line):
        if "replies=" in case_line:
            return []
        return C15.shrink_candidates(self, case_line)

    def nontrivial(self, case_line):
        return True

    def extra(self, ctx):
        findings = []
        runner = ctx["runner"]
        tier = ctx["tier"]
        import random
        rng = random.Random(ctx["seed"])
        # (1b) real argumentation problems through the external backend, instances captured
        capdir = os.path.join(runner.dir, "capsolve")
        os.makedirs(capdir, exist_ok=True)
        cases = []
        import props_solve
        combos = [(s, e, t) for s, (es, ts) in props_solve.SOLVERS.items() if s != "GR" for e in es for t in ts]
        for i in range(40 if tier == "quick" else 400):
            n, atts = gen.random_framework(rng, 6)
            if n == 0:
                continue
            spec, labels = gen.spec_of(rng, n, atts)
            sem, enc, task = rng.choice(combos)
            q = "task=SE" if task == "SE" else "task=%s cert=%d args=%d" % (task, rng.choice([0, 1]), rng.choice(labels))
            cases.append("solve e%d fw=%s sem=%s enc=%s %s backend=%s trace=0" % (i, spec, sem, enc, q, FAKE))
        f = os.path.join(runner.dir, "capsolve.cases")
        open(f, "w").write("\n".join(cases) + "\n")
        env = dict(common.env_offline(), FAKE_CAPTURE=capdir, FAKE_STATE=os.path.join(capdir, "state"))
        rc = subprocess.run([common.VH, f], env=env, stdout=subprocess.PIPE, stderr=subprocess.DEVNULL, text=True, timeout=900)
        blocks = common.parse_blocks(rc.stdout)
        n_inst = 0
        for fn in sorted(os.listdir(capdir)):
            if fn.startswith("in_"):
                n_inst += 1
                c = check_dimacs(open(os.path.join(capdir, fn), "rb").read())
                if c:
                    findings.append(Finding("input", None, "ill-formed DIMACS instance produced while solving an argumentation problem: " + c,
                                            "dimacs(solvers) · " + re.sub(r"\d+", "N", c),
                                            {"instance": open(os.path.join(capdir, fn), "rb").read().decode(errors="replace")[:300], "how": "solve cases through backend=fakesolver with FAKE_CAPTURE"}))
                    break
        panics = [(cid, [l for l in ls if l.startswith("panic")]) for cid, ls in blocks.items() if any(l.startswith("panic") for l in ls)]
        if panics:
            cid, ls = panics[0]
            case = [c for c in cases if c.split(" ")[1] == cid]
            findings.append(Finding("input", case[0] if case else None, "query through the external backend aborted: " + ls[0][:120], "external backend · query aborted"))
        # (3) volume of the solver's output: must return whatever the size
        sizes = [1000, 60000, 70000, 300000] if tier == "quick" else [1000, 30000, 65535, 65536, 65537, 70000, 131072, 300000, 1000000]
        timings = {}
        for sz in sizes + [-x for x in sizes[1:]]:      # negative: the same volume on the solver's standard error stream
            fk = "big:%d" % sz if sz > 0 else "bigerr:%d" % -sz
            st = os.path.join(runner.dir, "vol_state_%d" % sz)
            env = dict(common.env_offline(), FAKE_STATE=st)
            env.pop("FAKE_CAPTURE", None)
            case = "sat v%d backend=%s ops=c:1,2;c:-1;s fake_at=1 fake_kind=%s" % (abs(sz), FAKE, fk)
            cf = os.path.join(runner.dir, "vol_%d.case" % sz)
            open(cf, "w").write(case + "\n")
            t0 = time.time()
            try:
                pr = subprocess.run([common.VH, cf], env=env, stdout=subprocess.PIPE, stderr=subprocess.DEVNULL, text=True, timeout=25)
                timings[str(sz)] = round(time.time() - t0, 2)
                if "-> s -+" not in pr.stdout:
                    findings.append(Finding("input", case, "solver output of %d bytes (%s): the model was not reported (%r)" % (abs(sz), "stdout" if sz > 0 else "stderr", pr.stdout[-80:]),
                                            "volume · result lost with large output"))
            except subprocess.TimeoutExpired:
                timings[str(sz)] = "timeout"
                findings.append(Finding("input", case, "the call does not return when the solver prints %d bytes on its %s before its answer (deadlock on a pipe)" % (abs(sz), "stdout" if sz > 0 else "stderr"),
                                        "volume · call hangs when the %s output exceeds the pipe capacity" % ("stdout" if sz > 0 else "stderr"),
                                        {"how": "FAKE_STATE=<file> vh <case file>: the scripted solver prints %d bytes of comments before kissat's answer" % abs(sz)}))
                break
        import shutil
        shutil.rmtree(getattr(self, "base", "/nonexistent"), ignore_errors=True)
        return findings, {"captured_instances_from_solvers": n_inst, "volume_runs_s": timings}
