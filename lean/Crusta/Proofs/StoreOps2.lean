import Crusta.Proofs.StoreOps1

/-! # Store proofs, part 3: `remove_attack` (with `swap_remove`), `remove_argument` -/

namespace Crusta
namespace Store

/-! ## swap_remove -/

theorem mem_swapRemove_sub {l : List Nat} {pos x : Nat} (h : x ∈ swapRemove l pos) : x ∈ l := by
  unfold swapRemove at h
  cases hl : l.getLast? with
  | none => rw [hl] at h; exact h
  | some last =>
    rw [hl] at h
    simp only at h
    have hx := List.dropLast_subset _ h
    have hlast : last ∈ l := List.mem_of_getLast? hl
    rcases List.mem_or_eq_of_mem_set hx with h1 | h1
    · exact h1
    · rw [h1]; exact hlast

theorem mem_swapRemove_of_ne {l : List Nat} {pos x : Nat} (hpos : pos < l.length)
    (hx : x ∈ l) (hne : x ≠ l.getD pos 0) : x ∈ swapRemove l pos := by
  unfold swapRemove
  -- decompose l = init ++ [last]
  have hne0 : l ≠ [] := by intro e; subst e; simp at hpos
  obtain ⟨init, last, rfl⟩ : ∃ init last, l = init ++ [last] := by
    refine ⟨l.dropLast, l.getLast hne0, ?_⟩
    exact (List.dropLast_concat_getLast hne0).symm
  simp only [List.getLast?_append, List.getLast?_singleton, Option.some_or]
  simp only [List.length_append, List.length_singleton] at hpos
  by_cases hp : pos = init.length
  · subst hp
    have : (init ++ [last]).set init.length last = init ++ [last] := by
      rw [List.set_append_right _ _ (Nat.le_refl _)]; simp
    rw [this, List.dropLast_concat]
    rcases List.mem_append.1 hx with h | h
    · exact h
    · simp at h; subst h
      exfalso; apply hne
      simp [List.getD_eq_getElem?_getD]
  · have hlt : pos < init.length := by omega
    rw [List.set_append_left _ _ hlt, List.dropLast_concat]
    rcases List.mem_append.1 hx with h | h
    · -- x at some index k of init, k ≠ pos
      obtain ⟨k, hk, hxk⟩ := List.mem_iff_getElem.1 h
      have hkp : k ≠ pos := by
        intro e; subst e
        apply hne
        rw [getD_append_lt _ _ _ _ hk]
        simp [List.getD_eq_getElem?_getD, List.getElem?_eq_getElem hk, hxk]
      apply List.mem_iff_getElem.2
      refine ⟨k, by simpa using hk, ?_⟩
      rw [List.getElem_set_ne (fun e => hkp e.symm)]; exact hxk
    · simp at h; subst h
      apply List.mem_iff_getElem.2
      exact ⟨pos, by simpa using hlt, by simp⟩

/-! ## remove_attack -/

/-- state after removing the attack stored at index `k` between ids `a` and `b` -/
def dropAtt (s : Store) (a b k posFrom posTo : Nat) : Store :=
  { s with attacks := s.attacks.set k none,
           to_ := s.to_.set b (swapRemove (row s.to_ b) posTo),
           from_ := s.from_.set a (swapRemove (row s.from_ a) posFrom),
           nRemovedAtt := s.nRemovedAtt + 1 }

theorem att_dropAtt (s : Store) (a b k pf pt i : Nat) :
    (s.dropAtt a b k pf pt).att i = if i = k then none else s.att i := by
  unfold att dropAtt
  simp only
  by_cases e : i = k
  · subst e
    rw [if_pos rfl]
    by_cases h : i < s.attacks.length
    · exact getD_set_eq _ _ _ _ h
    · rw [getD_set_ge _ _ _ _ _ (by omega)]; exact getD_ge _ _ _ (by omega)
  · rw [if_neg e]; exact getD_set_ne _ _ _ _ _ (fun h => e h.symm)

theorem findPos_spec {l : List Nat} {p : Nat → Bool} {pos : Nat} (h : findPos l p = some pos) :
    pos < l.length ∧ p (l.getD pos 0) = true := by
  unfold findPos at h
  obtain ⟨hlt, hp, _⟩ := List.findIdx?_eq_some_iff_getElem.1 h
  refine ⟨hlt, ?_⟩
  simp [List.getD_eq_getElem?_getD, List.getElem?_eq_getElem hlt, hp]

theorem findPos_none {l : List Nat} {p : Nat → Bool} (h : findPos l p = none) : ∀ x ∈ l, p x = false := by
  unfold findPos at h
  intro x hx
  have := List.findIdx?_eq_none_iff.1 h x hx
  simpa using this

theorem getD_mem {l : List Nat} {pos : Nat} (h : pos < l.length) : l.getD pos 0 ∈ l := by
  simp [List.getD_eq_getElem?_getD, List.getElem?_eq_getElem h]

/-- what `remove_attack` does on a consistent store -/
theorem removeAttack_spec {s : Store} (hinv : s.Inv) (la lb : Nat) :
    (∀ a b, s.Live a la → s.Live b lb →
      (∀ k, s.att k = some (a, b) → ∃ pf pt, s.removeAttack la lb = .ok (s.dropAtt a b k pf pt) ∧
          pf < (row s.from_ a).length ∧ (row s.from_ a).getD pf 0 = k ∧
          pt < (row s.to_ b).length ∧ (row s.to_ b).getD pt 0 = k) ∧
      (¬ s.HasAtt a b → s.removeAttack la lb = .err s)) ∧
    ((∀ a, ¬ s.Live a la) ∨ (∀ b, ¬ s.Live b lb) → s.removeAttack la lb = .err s) := by
  constructor
  · intro a b ha hb
    have hga := (getArg_eq_some hinv).2 ha
    have hgb := (getArg_eq_some hinv).2 hb
    have halt : a < s.from_.length := by rw [hinv.rows_from]; exact live_lt ha
    have hblt : b < s.to_.length := by rw [hinv.rows_to]; exact live_lt hb
    have hbound : (row s.from_ a).any (fun i => decide (i ≥ s.attacks.length)) = false := by
      rw [List.any_eq_false]
      intro i hi
      have := (hinv.from_ok a i hi).1
      simp; omega
    constructor
    · intro k hk
      unfold removeAttack
      simp only [hga, hgb]
      rw [if_neg (by omega), hbound]
      simp only [Bool.false_eq_true, if_false]
      cases hf : findPos (row s.from_ a) (fun i => s.att i == some (a, b)) with
      | none =>
        have := findPos_none hf k (hinv.in_from k a b hk)
        simp [hk] at this
      | some pf =>
        obtain ⟨hpf, hpp⟩ := findPos_spec hf
        simp only [beq_iff_eq] at hpp
        have hkid : (row s.from_ a).getD pf 0 = k := hinv.att_nodup _ _ a b hpp hk
        simp only
        rw [if_neg (by omega)]
        cases ht : findPos (row s.to_ b) (fun i => i == (row s.from_ a).getD pf 0) with
        | none =>
          have := findPos_none ht k (hinv.in_to k a b hk)
          rw [hkid] at this
          simp at this
        | some pt =>
          obtain ⟨hpt, hptp⟩ := findPos_spec ht
          simp only [beq_iff_eq] at hptp
          simp only
          refine ⟨pf, pt, ?_, hpf, hkid, hpt, by rw [hptp, hkid]⟩
          rw [hkid]; rfl
    · intro hno
      unfold removeAttack
      simp only [hga, hgb]
      rw [if_neg (by omega), hbound]
      simp only [Bool.false_eq_true, if_false]
      cases hf : findPos (row s.from_ a) (fun i => s.att i == some (a, b)) with
      | none => rfl
      | some pf =>
        obtain ⟨_, hpp⟩ := findPos_spec hf
        simp only [beq_iff_eq] at hpp
        exact absurd ⟨_, hpp⟩ hno
  · intro h
    unfold removeAttack
    rcases h with h | h
    · rw [(getArg_eq_none hinv).2 h]
    · cases hga : s.getArg la with
      | none => rfl
      | some a => simp only; rw [(getArg_eq_none hinv).2 h]

theorem hasAtt_dropAtt {s : Store} (hinv : s.Inv) {a b k pf pt : Nat} (hk : s.att k = some (a, b)) (c d : Nat) :
    (s.dropAtt a b k pf pt).HasAtt c d ↔ (s.HasAtt c d ∧ ¬ (c = a ∧ d = b)) := by
  unfold HasAtt
  constructor
  · rintro ⟨i, hi⟩
    rw [att_dropAtt] at hi
    split at hi
    · cases hi
    · rename_i hne
      refine ⟨⟨i, hi⟩, ?_⟩
      rintro ⟨rfl, rfl⟩
      exact hne (hinv.att_nodup i k c d hi hk)
  · rintro ⟨⟨i, hi⟩, hne⟩
    refine ⟨i, ?_⟩
    rw [att_dropAtt, if_neg]
    · exact hi
    · intro e; subst e; rw [hk] at hi; injection hi with hi; injection hi with h1 h2
      exact hne ⟨h1.symm, h2.symm⟩

theorem inv_dropAtt {s : Store} (hinv : s.Inv) {a b k pf pt la lb : Nat} (ha : s.Live a la) (hb : s.Live b lb)
    (hk : s.att k = some (a, b)) (hpf : pf < (row s.from_ a).length) (hpfk : (row s.from_ a).getD pf 0 = k)
    (hpt : pt < (row s.to_ b).length) (hptk : (row s.to_ b).getD pt 0 = k) : (s.dropAtt a b k pf pt).Inv := by
  have halt : a < s.from_.length := by rw [hinv.rows_from]; exact live_lt ha
  have hblt : b < s.to_.length := by rw [hinv.rows_to]; exact live_lt hb
  have hklt : k < s.attacks.length := att_lt hk
  have hhas : ∀ i, (s.dropAtt a b k pf pt).hasId i = s.hasId i := fun i => rfl
  have hfrom : ∀ c, row (s.dropAtt a b k pf pt).from_ c = if c = a then swapRemove (row s.from_ a) pf else row s.from_ c := by
    intro c
    show row (s.from_.set a _) c = _
    by_cases e : c = a
    · subst e; rw [if_pos rfl]; exact row_set_eq _ _ _ halt
    · rw [if_neg e]; exact row_set_ne _ _ _ _ (fun h => e h.symm)
  have hto : ∀ c, row (s.dropAtt a b k pf pt).to_ c = if c = b then swapRemove (row s.to_ b) pt else row s.to_ c := by
    intro c
    show row (s.to_.set b _) c = _
    by_cases e : c = b
    · subst e; rw [if_pos rfl]; exact row_set_eq _ _ _ hblt
    · rw [if_neg e]; exact row_set_ne _ _ _ _ (fun h => e h.symm)
  have hlen : (s.dropAtt a b k pf pt).attacks.length = s.attacks.length := by simp [dropAtt]
  refine ⟨?_, ?_, hinv.l2i_sound, hinv.l2i_complete, hinv.label_inj, ?_, ?_, ?_, ?_, ?_, ?_, hinv.cnt_lab, ?_⟩
  · show (s.from_.set a _).length = _; rw [List.length_set]; exact hinv.rows_from
  · show (s.to_.set b _).length = _; rw [List.length_set]; exact hinv.rows_to
  · intro i c d hcd
    rw [att_dropAtt] at hcd
    split at hcd
    · cases hcd
    · rw [hhas, hhas]; exact hinv.ends_live i c d hcd
  · intro i c d hcd
    rw [att_dropAtt] at hcd
    split at hcd
    · cases hcd
    · rename_i hne
      have hm := hinv.in_from i c d hcd
      rw [hfrom]
      split
      · rename_i e; subst e
        exact mem_swapRemove_of_ne hpf hm (by rw [hpfk]; exact hne)
      · exact hm
  · intro i c d hcd
    rw [att_dropAtt] at hcd
    split at hcd
    · cases hcd
    · rename_i hne
      have hm := hinv.in_to i c d hcd
      rw [hto]
      split
      · rename_i e; subst e
        exact mem_swapRemove_of_ne hpt hm (by rw [hptk]; exact hne)
      · exact hm
  · intro c i hi
    rw [hfrom] at hi
    have hi' : i ∈ row s.from_ c := by
      split at hi
      · rename_i e; subst e; exact mem_swapRemove_sub hi
      · exact hi
    have := hinv.from_ok c i hi'
    rw [hlen, att_dropAtt]
    refine ⟨this.1, ?_⟩
    split
    · left; rfl
    · exact this.2
  · intro c i hi
    rw [hto] at hi
    have hi' : i ∈ row s.to_ c := by
      split at hi
      · rename_i e; subst e; exact mem_swapRemove_sub hi
      · exact hi
    have := hinv.to_ok c i hi'
    rw [hlen, att_dropAtt]
    refine ⟨this.1, ?_⟩
    split
    · left; rfl
    · exact this.2
  · show s.nRemovedAtt + 1 = countNone (s.attacks.set k none)
    rw [countNone_set_none s.attacks k (a, b) hk, hinv.cnt_att]
  · intro i j c d hi hj
    rw [att_dropAtt] at hi hj
    split at hi
    · cases hi
    · split at hj
      · cases hj
      · exact hinv.att_nodup i j c d hi hj

end Store
end Crusta
