import Crusta.Proofs.EncExp

/-!
# hybrid complete encoder, for every switching threshold (S5 / C10)

`Hyb.co τ af` has exactly the complete sets as models, the lazily allocated disjunction variables
being forced to "the argument is attacked by the set".  The allocation map is threaded through a
fold; the invariant is `HInv` below.
-/

namespace Crusta
namespace Hyb


/-- meaning of a disjunction variable `v` allocated for argument `b` -/
def DisjDef (af : AF) (ν : Asg) (b v : Nat) : Prop :=
  (ν (Exp.x b) = true → ν v = false) ∧ (ν v = true ↔ AttackedBy af (Exp.S af ν) b)

theorem disjWith_iff {af : AF} (hwf : af.WF) (ν : Asg) (b v : Nat) :
    cnfTrue ν (disjWith af b v) = true ↔ DisjDef af ν b v := by
  unfold DisjDef
  rw [Exp.attackedBy_iff hwf]
  unfold disjWith
  simp only [cnfTrue_append, cnfTrue_cons, cnfTrue_nil, Bool.and_true, Bool.and_eq_true,
    clauseTrue_cons, clauseTrue_nil, litTrue_nl, litTrue_pl, Bool.or_false, Bool.or_eq_true,
    Bool.not_eq_true', cnfTrue_map, clauseTrue_map]
  constructor
  · rintro ⟨⟨h1, h2⟩, h3⟩
    refine ⟨?_, ?_, ?_⟩
    · intro hs; rcases h1 with h | h
      · rw [hs] at h; cases h
      · exact h
    · intro hp
      rcases h3 with h3 | h3
      · rw [hp] at h3; cases h3
      · exact h3
    · rintro ⟨c, hc, hνc⟩
      rcases h2 c hc with h | h
      · exact h
      · rw [hνc] at h; cases h
  · rintro ⟨h1, h2⟩
    refine ⟨⟨?_, ?_⟩, ?_⟩
    · cases hs : ν (Exp.x b)
      · left; rfl
      · right; exact h1 hs
    · intro c hc
      cases hνc : ν (Exp.x c)
      · right; rfl
      · left; exact h2.2 ⟨c, hc, hνc⟩
    · cases hp : ν v
      · left; rfl
      · right; exact h2.1 hp

/-- all allocated disjunction variables are correctly defined (CNF level) -/
def DvC (af : AF) (ν : Asg) (st : St) : Prop :=
  ∀ b v, dvOf st b = some v → cnfTrue ν (disjWith af b v) = true

theorem dvOf_lt {st : St} {b v : Nat} (h : dvOf st b = some v) : b < st.dv.length := by
  unfold dvOf at h
  apply Classical.byContradiction
  intro hn
  have : st.dv.getD b none = none := by
    rw [List.getD_eq_getElem?_getD, List.getElem?_eq_none (by omega)]; rfl
  rw [this] at h; cases h

theorem dvOf_set_self {st : St} {b : Nat} (hb : b < st.dv.length) (x : Option Nat) (nx : Nat) (o : Cnf) :
    dvOf { dv := st.dv.set b x, next := nx, out := o } b = x := by
  unfold dvOf
  simp [List.getD_eq_getElem?_getD, List.getElem?_set, hb]

theorem dvOf_set_ne {st : St} {b c : Nat} (hne : b ≠ c) (x : Option Nat) (nx : Nat) (o : Cnf) :
    dvOf { dv := st.dv.set b x, next := nx, out := o } c = dvOf st c := by
  unfold dvOf
  simp [List.getD_eq_getElem?_getD, List.getElem?_set, hne]

/-- what `create_attacker_disjunction_vars_for_attackers_of` does to the state -/
theorem allocFor_spec (af : AF) (ν : Asg) : ∀ (bs : List Nat) (st : St),
    (∀ b ∈ bs, b < st.dv.length) →
    (allocFor af st bs).dv.length = st.dv.length ∧
    (∀ b v, dvOf st b = some v → dvOf (allocFor af st bs) b = some v) ∧
    (∀ b ∈ bs, ∃ v, dvOf (allocFor af st bs) b = some v) ∧
    (cnfTrue ν (allocFor af st bs).out = true ↔
      (cnfTrue ν st.out = true ∧ ∀ b v, dvOf st b = none → dvOf (allocFor af st bs) b = some v →
        cnfTrue ν (disjWith af b v) = true)) := by
  intro bs
  induction bs with
  | nil =>
    intro st _
    refine ⟨rfl, fun _ _ h => h, fun b hb => (by cases hb), ?_⟩
    simp only [allocFor]
    constructor
    · intro h; exact ⟨h, fun b v h1 h2 => by rw [h1] at h2; cases h2⟩
    · intro h; exact h.1
  | cons b bs ih =>
    intro st hlt
    have hb : b < st.dv.length := hlt b (List.mem_cons_self ..)
    have hbs : ∀ c ∈ bs, c < st.dv.length := fun c hc => hlt c (List.mem_cons_of_mem _ hc)
    simp only [allocFor]
    split
    · -- already allocated
      rename_i w hw
      obtain ⟨h1, h2, h3, h4⟩ := ih st hbs
      refine ⟨h1, h2, ?_, h4⟩
      intro c hc
      rcases List.mem_cons.1 hc with rfl | hc
      · exact ⟨w, h2 _ _ hw⟩
      · exact h3 c hc
    · rename_i hnone
      let st1 : St := { dv := st.dv.set b (some st.next), next := st.next + 1, out := st.out ++ disjWith af b st.next }
      have hlen1 : st1.dv.length = st.dv.length := by simp [st1]
      obtain ⟨h1, h2, h3, h4⟩ := ih st1 (fun c hc => by rw [hlen1]; exact hbs c hc)
      have hb1 : dvOf st1 b = some st.next := dvOf_set_self hb _ _ _
      have hne1 : ∀ c, b ≠ c → dvOf st1 c = dvOf st c := fun c hne => dvOf_set_ne hne _ _ _
      refine ⟨by rw [h1, hlen1], ?_, ?_, ?_⟩
      · intro c v hc
        by_cases e : b = c
        · subst e; rw [hnone] at hc; cases hc
        · exact h2 c v (by rw [hne1 c e]; exact hc)
      · intro c hc
        rcases List.mem_cons.1 hc with rfl | hc
        · exact ⟨st.next, h2 _ _ hb1⟩
        · exact h3 c hc
      · rw [h4]
        have hout1 : cnfTrue ν st1.out = true ↔ (cnfTrue ν st.out = true ∧ cnfTrue ν (disjWith af b st.next) = true) := by
          simp [st1, cnfTrue_append]
        rw [hout1]
        constructor
        · rintro ⟨⟨ho, hd⟩, hnew⟩
          refine ⟨ho, ?_⟩
          intro c v hcn hcs
          by_cases e : b = c
          · subst e
            have := h2 _ _ hb1
            rw [this] at hcs; injection hcs with hcs; subst hcs; exact hd
          · exact hnew c v (by rw [hne1 c e]; exact hcn) hcs
        · rintro ⟨ho, hnew⟩
          refine ⟨⟨ho, hnew b st.next hnone (h2 _ _ hb1)⟩, ?_⟩
          intro c v hcn hcs
          by_cases e : b = c
          · subst e; rw [hb1] at hcn; cases hcn
          · exact hnew c v (by rw [← hne1 c e]; exact hcn) hcs

theorem allocFor_dvc (af : AF) (ν : Asg) (bs : List Nat) (st : St)
    (hlt : ∀ b ∈ bs, b < st.dv.length) :
    (cnfTrue ν st.out = true ∧ DvC af ν (allocFor af st bs)) ↔
      (cnfTrue ν (allocFor af st bs).out = true ∧ DvC af ν st) := by
  obtain ⟨_, h2, _, h4⟩ := allocFor_spec af ν bs st hlt
  rw [h4]
  constructor
  · rintro ⟨ho, hd⟩
    exact ⟨⟨ho, fun b v _ hs => hd b v hs⟩, fun b v hb => hd b v (h2 b v hb)⟩
  · rintro ⟨⟨ho, hnew⟩, hd⟩
    refine ⟨ho, ?_⟩
    intro b v hs
    cases hb : dvOf st b with
    | none => exact hnew b v hb hs
    | some w =>
      have := h2 b w hb
      rw [this] at hs; injection hs with hs; subst hs
      exact hd b w hb

/-! ### one argument -/

def Local3 (af : AF) (ν : Asg) (a : Nat) : Prop :=
  LocalCF af (Exp.S af ν) a ∧ LocalDef af (Exp.S af ν) a ∧ LocalCO af (Exp.S af ν) a

/-- the auxiliary-variable clauses of an argument, given correctly defined disjunction variables
for all its attackers -/
theorem auxClauses_iff {af : AF} (hwf : af.WF) (ν : Asg) {a : Nat} (ha : a < af.n) (P : Nat → Nat)
    (hP : ∀ b ∈ af.attackers a, DisjDef af ν b (P b)) :
    cnfTrue ν (auxCl af a P) = true ↔ Local3 af ν a := by
  unfold auxCl
  rw [cnfTrue_append, Bool.and_eq_true, cnfTrue_map]
  simp only [clauseTrue_cons, litTrue_nl, litTrue_pl, clauseTrue_nil, Bool.or_false,
    Bool.or_eq_true, Bool.not_eq_true', cnfTrue_cons, cnfTrue_nil, Bool.and_true, clauseTrue_map]
  unfold Local3 LocalCF LocalDef LocalCO Defended
  rw [Exp.S_lt ha]
  constructor
  · rintro ⟨h1, h2⟩
    have hdef : ν (Exp.x a) = true → ∀ b, (b, a) ∈ af.atts → AttackedBy af (Exp.S af ν) b := by
      intro hxa b hb
      have hb' := AF.mem_attackers.2 hb
      rcases h1 b hb' with h | h
      · rw [hxa] at h; cases h
      · exact (hP b hb').2.1 h
    refine ⟨?_, hdef, ?_⟩
    · intro hxa b hb
      have hb' := AF.mem_attackers.2 hb
      rw [Exp.S_lt (hwf _ hb).1]
      cases hxb : ν (Exp.x b)
      · rfl
      · have := (hP b hb').1 hxb
        rw [(hP b hb').2.2 (hdef hxa b hb)] at this; cases this
    · intro hall
      rcases h2 with h | ⟨b, hb, hpb⟩
      · exact h
      · have := (hP b hb).2.2 (hall b (AF.mem_attackers.1 hb))
        rw [this] at hpb; cases hpb
  · rintro ⟨_, hdef, hco⟩
    refine ⟨?_, ?_⟩
    · intro b hb
      cases hxa : ν (Exp.x a)
      · left; rfl
      · right; exact (hP b hb).2.2 (hdef hxa b (AF.mem_attackers.1 hb))
    · by_cases hall : ∀ b, (b, a) ∈ af.atts → AttackedBy af (Exp.S af ν) b
      · left; exact hco hall
      · right
        have : ∃ b ∈ af.attackers a, ¬ AttackedBy af (Exp.S af ν) b := by
          apply Classical.byContradiction
          intro hne; apply hall; intro b hb
          apply Classical.byContradiction
          intro hnb; exact hne ⟨b, AF.mem_attackers.2 hb, hnb⟩
        obtain ⟨b, hb, hnb⟩ := this
        refine ⟨b, hb, ?_⟩
        cases hpb : ν (P b)
        · rfl
        · exact absurd ((hP b hb).2.1 hpb) hnb

/-- invariant of the fold: the clauses emitted so far say exactly "the first `k` arguments are
locally complete and every allocated disjunction variable is correctly defined" -/
def HInvP (R : Prop) (af : AF) (ν : Asg) (st : St) (k : Nat) : Prop :=
  st.dv.length = af.n ∧
  (cnfTrue ν st.out = true ↔ (((∀ a, a < k → Local3 af ν a) ∧ DvC af ν st) ∧ R))

abbrev HInv (af : AF) (ν : Asg) (st : St) (k : Nat) : Prop := HInvP True af ν st k

theorem forall_lt_succ {k : Nat} {P : Nat → Prop} :
    (∀ a, a < k + 1 → P a) ↔ ((∀ a, a < k → P a) ∧ P k) := by
  constructor
  · intro h; exact ⟨fun a ha => h a (by omega), h k (by omega)⟩
  · rintro ⟨h1, h2⟩ a ha
    by_cases e : a = k
    · subst e; exact h2
    · exact h1 a (by omega)

theorem argStep_inv {af : AF} (hwf : af.WF) (thr : Nat) (ν : Asg) (R : Prop) (st : St) (k : Nat)
    (hk : k < af.n) (hinv : HInvP R af ν st k) : HInvP R af ν (argStep thr af st k) (k + 1) := by
  obtain ⟨hlen, hiff⟩ := hinv
  -- the three exp-style branches all emit clauses equivalent to `Local3`
  have hexp : ∀ X : Cnf, (cnfTrue ν X = true ↔ Local3 af ν k) →
      HInvP R af ν { st with out := st.out ++ X } (k + 1) := by
    intro X hX
    refine ⟨hlen, ?_⟩
    rw [cnfTrue_append, Bool.and_eq_true, hiff, hX, forall_lt_succ]
    constructor
    · rintro ⟨⟨⟨h1, h2⟩, hr⟩, h3⟩; exact ⟨⟨⟨h1, h3⟩, h2⟩, hr⟩
    · rintro ⟨⟨⟨h1, h3⟩, h2⟩, hr⟩; exact ⟨⟨⟨h1, h2⟩, hr⟩, h3⟩
  have hcoarg := Exp.coArg_iff hwf ν hk
  unfold Exp.coArg at hcoarg
  simp only at hcoarg
  unfold argStep
  simp only
  split
  · rename_i h1
    rw [if_pos h1] at hcoarg
    exact hexp _ hcoarg
  · rename_i h1
    rw [if_neg h1] at hcoarg
    split
    · rename_i h2
      rw [if_pos h2] at hcoarg
      exact hexp _ hcoarg
    · rename_i h2
      rw [if_neg h2] at hcoarg
      split
      · exact hexp _ hcoarg
      · -- auxiliary-variable branch
        have hlt : ∀ b ∈ af.attackers k, b < st.dv.length := by
          intro b hb; rw [hlen]; exact AF.attackers_lt hwf hb
        obtain ⟨hl', hmono, hall, h4⟩ := allocFor_spec af ν (af.attackers k) st hlt
        have hdvc := allocFor_dvc af ν (af.attackers k) st hlt
        generalize allocFor af st (af.attackers k) = st' at *
        have hPb : ∀ b ∈ af.attackers k, dvOf st' b = some ((dvOf st' b).getD 0) := by
          intro b hb; obtain ⟨v, hv⟩ := hall b hb; rw [hv]; rfl
        refine ⟨by rw [← hlen, ← hl'], ?_⟩
        show cnfTrue ν (st'.out ++ auxCl af k _) = true ↔
          (((∀ a, a < k + 1 → Local3 af ν a) ∧ DvC af ν st') ∧ R)
        rw [cnfTrue_append, Bool.and_eq_true, forall_lt_succ]
        constructor
        · rintro ⟨hout, haux⟩
          have h0 := (h4.1 hout).1
          have hI := hiff.1 h0
          have hd' : DvC af ν st' := (hdvc.2 ⟨hout, hI.1.2⟩).2
          exact ⟨⟨⟨hI.1.1, (auxClauses_iff hwf ν hk _ (fun b hb =>
            (disjWith_iff hwf ν b _).1 (hd' b _ (hPb b hb)))).1 haux⟩, hd'⟩, hI.2⟩
        · rintro ⟨⟨⟨hloc, hk3⟩, hd'⟩, hr⟩
          have hd0 : DvC af ν st := fun b v hb => hd' b v (hmono b v hb)
          have hout0 := hiff.2 ⟨⟨hloc, hd0⟩, hr⟩
          exact ⟨(hdvc.1 ⟨hout0, hd'⟩).1, (auxClauses_iff hwf ν hk _ (fun b hb =>
            (disjWith_iff hwf ν b _).1 (hd' b _ (hPb b hb)))).2 hk3⟩

theorem init_inv (af : AF) (ν : Asg) (r : Bool) : HInv af ν (init af r) 0 := by
  refine ⟨by simp [init], ?_⟩
  simp only [init, cnfTrue_nil, true_iff, and_true]
  refine ⟨fun a ha => absurd ha (Nat.not_lt_zero _), ?_⟩
  intro b v h
  unfold dvOf at h
  simp only [List.getD_eq_getElem?_getD, List.getElem?_replicate] at h
  split at h <;> cases h

theorem fold_inv {af : AF} (hwf : af.WF) (thr : Nat) (ν : Asg) : ∀ k, k ≤ af.n →
    HInv af ν ((List.range k).foldl (argStep thr af) (init af false)) k := by
  intro k
  induction k with
  | zero => intro _; exact init_inv af ν false
  | succ k ih =>
    intro hk
    rw [List.range_succ, List.foldl_append]
    exact argStep_inv hwf thr ν True _ k (by omega) (ih (by omega))

/-- **hybrid encoder, any threshold**: the models are exactly the complete sets, with every
allocated disjunction variable forced to "attacked by the set" -/
theorem co_iff (thr : Nat) (af : AF) (hwf : af.WF) (ν : Asg) :
    cnfTrue ν (co thr af) = true ↔ (Complete af (Exp.S af ν) ∧ DvC af ν (run thr af)) := by
  have h := (fold_inv hwf thr ν af.n (Nat.le_refl _)).2
  unfold co run
  rw [h, co_iff_local af _ (Exp.S_sub af ν)]
  unfold Local3
  constructor
  · rintro ⟨⟨h1, h2⟩, _⟩
    exact ⟨⟨fun a ha => (h1 a ha).1, fun a ha => (h1 a ha).2.1, fun a ha => (h1 a ha).2.2⟩, h2⟩
  · rintro ⟨⟨h1, h2, h3⟩, h4⟩
    exact ⟨⟨fun a ha => ⟨h1 a ha, h2 a ha, h3 a ha⟩, h4⟩, trivial⟩

end Hyb
end Crusta
