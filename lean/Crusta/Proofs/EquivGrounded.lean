import Crusta.Proofs.EquivSound
import Crusta.Proofs.GLocal

/-!
# Completeness of the two special classes of the equivalence reduction

`EquivSound.lean` proves that the members of the class of kind `grounded` are in every complete
extension and the members of the class of kind `defeated` in none.  Here the converse:

* `special_classes_unique`       — at most one class of kind `grounded`, at most one of kind `defeated`;
* `grounded_arguments_together`  — every argument that is in every complete extension is a member of
  the class of kind `grounded`;
* `defeated_arguments_together`  — every argument attacked by such an argument is a member of the
  class of kind `defeated`;
* `grounded_same_index`, `defeated_same_index` — the same in terms of `initToReduced`;
* `grounded_class_is_grounded`   — the class of kind `grounded` lists the grounded extension.

The proof shows that the propagation from the unattacked arguments runs to a fixed point: the set of
propagated arguments is a complete extension.
-/

namespace Crusta.Eq
open Crusta

/-! ## existence of a complete extension -/

theorem exists_complete (af : AF) : ∃ S, Complete af S := by
  obtain ⟨S, hS⟩ := af.g.exists_grounded ⟨af.n, fun a ha => by simpa [AF.g] using ha⟩
  exact ⟨S, (AF.g_complete af S).1 hS.1⟩

/-! ## the shape of the list of classes -/

/-- the unattacked arguments, as `compute_classes` lists them -/
def unatt (af : AF) : List Nat := (List.range af.n).filter (fun a => (nAttacksTo af).getD a 0 == 0)

/-- the initial classes -/
def cl0 (g d : List Nat) : List Cls :=
  (if g.isEmpty then [] else [⟨Kind.grounded, g⟩]) ++ (if d.isEmpty then [] else [⟨Kind.defeated, d⟩])

theorem computeClasses_eq (af : AF) : computeClasses af =
    match propagate af (nAttacksTo af) (unatt af) with
    | none => (List.range af.n).map (fun i => ⟨.other, [i]⟩)
    | some (g, d) =>
      ((List.range af.n).foldl (classStep af (nAttacksTo af))
        ⟨cl0 g d, (g ++ d).foldl (fun acc a => acc.set a true) (List.replicate af.n false),
          List.replicate af.n none⟩).classes := rfl

theorem classStep_classes (af : AF) (cnt : List Nat) (st : CSt) (arg : Nat) :
    ∃ ex, (classStep af cnt st arg).classes = st.classes ++ ex ∧ ∀ c ∈ ex, c.kind = Kind.other := by
  rw [classStep_eq]
  split
  · exact ⟨[], by simp, by simp⟩
  · split
    · exact ⟨[_], rfl, by simp⟩
    · exact ⟨[_], rfl, by simp⟩

theorem fold_classStep_classes (af : AF) (cnt : List Nat) (l : List Nat) (st : CSt) :
    ∃ ex, (l.foldl (classStep af cnt) st).classes = st.classes ++ ex ∧ ∀ c ∈ ex, c.kind = Kind.other := by
  induction l generalizing st with
  | nil => exact ⟨[], by simp, by simp⟩
  | cons x l ih =>
    obtain ⟨e1, h1, k1⟩ := classStep_classes af cnt st x
    obtain ⟨e2, h2, k2⟩ := ih (classStep af cnt st x)
    refine ⟨e1 ++ e2, ?_, ?_⟩
    · rw [List.foldl_cons, h2, h1, List.append_assoc]
    · intro c hc
      rcases List.mem_append.1 hc with hc | hc
      · exact k1 c hc
      · exact k2 c hc

/-- either the initial propagation fails and every class is of kind `other`, or the classes are the
initial ones followed by classes of kind `other` -/
theorem computeClasses_shape (af : AF) :
    (propagate af (nAttacksTo af) (unatt af) = none ∧ ∀ c ∈ computeClasses af, c.kind = Kind.other) ∨
    ∃ g d ex, propagate af (nAttacksTo af) (unatt af) = some (g, d) ∧
      computeClasses af = cl0 g d ++ ex ∧ ∀ c ∈ ex, c.kind = Kind.other := by
  cases hp : propagate af (nAttacksTo af) (unatt af) with
  | none =>
    left
    refine ⟨rfl, ?_⟩
    rw [computeClasses_eq, hp]
    intro c hc
    simp only [List.mem_map] at hc
    obtain ⟨i, _, rfl⟩ := hc
    rfl
  | some gd =>
    obtain ⟨g, d⟩ := gd
    right
    obtain ⟨ex, h1, h2⟩ := fold_classStep_classes af (nAttacksTo af) (List.range af.n)
      ⟨cl0 g d, (g ++ d).foldl (fun acc a => acc.set a true) (List.replicate af.n false),
        List.replicate af.n none⟩
    refine ⟨g, d, ex, rfl, ?_, h2⟩
    rw [computeClasses_eq, hp]
    exact h1

theorem mem_cl0 {g d : List Nat} {c : Cls} (h : c ∈ cl0 g d) :
    c = ⟨Kind.grounded, g⟩ ∨ c = ⟨Kind.defeated, d⟩ := by
  unfold cl0 at h
  rcases List.mem_append.1 h with h | h
  · split at h <;> simp at h; exact Or.inl h
  · split at h <;> simp at h; exact Or.inr h

set_option linter.unusedVariables false in
/-- (T3) at most one class of kind `grounded` and at most one of kind `defeated` -/
theorem special_classes_unique (af : AF) (hwf : af.WF) :
    ∀ c1 ∈ computeClasses af, ∀ c2 ∈ computeClasses af, c1.kind = c2.kind → c1.kind ≠ .other → c1 = c2 := by
  intro c1 h1 c2 h2 hk hno
  rcases computeClasses_shape af with ⟨_, hall⟩ | ⟨g, d, ex, _, hcc, hex⟩
  · exact absurd (hall c1 h1) hno
  · rw [hcc] at h1 h2
    have hmem : ∀ c ∈ cl0 g d ++ ex, c.kind ≠ Kind.other →
        c = ⟨Kind.grounded, g⟩ ∨ c = ⟨Kind.defeated, d⟩ := by
      intro c hc hc'
      rcases List.mem_append.1 hc with hc | hc
      · exact mem_cl0 hc
      · exact absurd (hex c hc) hc'
    rcases hmem c1 h1 hno with rfl | rfl <;> rcases hmem c2 h2 (hk ▸ hno) with rfl | rfl
    · rfl
    · exact absurd hk (by simp)
    · exact absurd hk (by simp)
    · rfl

/-! ## the second propagation invariant: the counters are exact and zero counters are propagated -/

structure QInv (af : AF) (args : List Nat) (extra : List Nat) (st : PSt) : Prop where
  ctr2 : ∀ d, d ∉ args → st.cnt.getD d 0 + consumed af st.defeated d ≤ tot af d + extra.count d
  zero : ∀ x, x < af.n → st.cnt.getD x 0 = 0 → x ∈ st.propagated

theorem consumed_eq_tot (af : AF) (D : List Nat) (a : Nat) (h : ∀ b, (b, a) ∈ af.atts → b ∈ D) :
    consumed af D a = tot af a := by
  unfold consumed tot
  apply List.countP_congr
  intro p hp
  obtain ⟨x, y⟩ := p
  simp only [Bool.and_eq_true, beq_iff_eq, decide_eq_true_eq]
  constructor
  · exact fun hh => hh.1
  · intro hy
    subst hy
    exact ⟨rfl, h x hp⟩

theorem defendLoop_inv2 (af : AF) (args : List Nat) (ds : List Nat) (st : PSt)
    (hds : ∀ d ∈ ds, d < af.n) (h : PInv af args ds st) (q : QInv af args ds st) :
    QInv af args [] (defendLoop args st ds) ∧
    (defendLoop args st ds).defeated = st.defeated ∧
    ∃ r, (defendLoop args st ds).propagated = st.propagated ++ r := by
  induction ds generalizing st with
  | nil => exact ⟨q, rfl, [], by simp [defendLoop]⟩
  | cons d ds ih =>
    have hds' : ∀ d ∈ ds, d < af.n := fun x hx => hds x (by simp [hx])
    have hd : d < af.n := hds d (by simp)
    unfold defendLoop
    split
    · next hc =>
      have hda : d ∈ args := by simpa using hc
      refine ih st hds' (h.weaken (fun x => List.count_le_count_cons)) ⟨?_, q.zero⟩
      intro d' hd'
      have := q.ctr2 d' hd'
      have hne : ¬ d = d' := fun hh => hd' (hh ▸ hda)
      rw [List.count_cons_of_ne (fun hh => hne hh)] at this
      exact this
    · next hc =>
      have hda : d ∉ args := by simpa using hc
      obtain ⟨h1, h2, h3⟩ := h.dec hd
      have hl : d < st.cnt.length := by rw [h.lenC]; exact hd
      have hctr : ∀ d', d' ∉ args →
          (st.cnt.set d (st.cnt.getD d 0 - 1)).getD d' 0 + consumed af st.defeated d'
            ≤ tot af d' + ds.count d' := by
        intro d' hd'
        have := q.ctr2 d' hd'
        by_cases hdd : d = d'
        · subst hdd
          rw [getD_set_eq _ _ _ _ hl]
          rw [List.count_cons_self] at this; omega
        · rw [getD_set_ne _ _ _ _ _ hdd]
          rw [List.count_cons_of_ne (fun hh => hdd hh)] at this
          exact this
      have hzero : ∀ x, x ≠ d → x < af.n →
          (st.cnt.set d (st.cnt.getD d 0 - 1)).getD x 0 = 0 → x ∈ st.propagated := by
        intro x hx hxn hx0
        rw [getD_set_ne _ _ _ _ _ (fun hh => hx hh.symm)] at hx0
        exact q.zero x hxn hx0
      simp only []
      split
      · next hz =>
        have hz' : st.cnt.getD d 0 - 1 = 0 := by simpa using hz
        have hp := h3.push hd hda (h2 hda) (by
          show (st.cnt.set d _).getD d 0 = 0
          rw [getD_set_eq _ _ _ _ hl]; exact hz')
        have key := ih _ hds' hp
        obtain ⟨i1, i2, r, i3⟩ := key ⟨hctr, fun x hxn hx0 => by
          by_cases hx : x = d
          · subst hx; exact List.mem_append_right _ (by simp)
          · exact List.mem_append_left _ (hzero x hx hxn hx0)⟩
        refine ⟨i1, i2, [d] ++ r, ?_⟩
        rw [i3]
        show (st.propagated ++ [d]) ++ r = st.propagated ++ ([d] ++ r)
        rw [List.append_assoc]
      · next hz =>
        have hz' : ¬ st.cnt.getD d 0 - 1 = 0 := by simpa using hz
        have key := ih _ hds' h3
        exact key ⟨hctr, fun x hxn hx0 => by
          by_cases hx : x = d
          · subst hx
            exfalso
            have hx0' : (st.cnt.set x (st.cnt.getD x 0 - 1)).getD x 0 = 0 := hx0
            rw [getD_set_eq _ _ _ _ hl] at hx0'
            exact hz' hx0'
          · exact hzero x hx hxn hx0⟩

theorem attackLoop_inv2 (af : AF) (hwf : af.WF) (args : List Nat) (id : Nat) (ts : List Nat) (st : PSt)
    (hts : ∀ t ∈ ts, (id, t) ∈ af.atts) (hid : id ∈ st.propagated) (h : PInv af args [] st)
    (q : QInv af args [] st) :
    ∀ st', attackLoop af args st ts = some st' →
      QInv af args [] st' ∧ (∃ r, st'.propagated = st.propagated ++ r) ∧
      (∀ x ∈ st.defeated, x ∈ st'.defeated) ∧ ∀ t ∈ ts, t ∈ st'.defeated := by
  induction ts generalizing st with
  | nil =>
    intro st' heq
    simp only [attackLoop, Option.some.injEq] at heq
    subst heq; exact ⟨q, ⟨[], by simp⟩, fun x hx => hx, by simp⟩
  | cons t ts ih =>
    have hts' : ∀ t ∈ ts, (id, t) ∈ af.atts := fun x hx => hts x (by simp [hx])
    have hatt : (id, t) ∈ af.atts := hts t (by simp)
    rw [attackLoop]
    by_cases hp : st.inProp.getD t false = true
    · rw [if_pos hp]; intro st' heq; cases heq
    · rw [if_neg hp]
      by_cases hdf : st.inDef.getD t false = true
      · rw [if_pos hdf]
        intro st' heq
        obtain ⟨j1, j2, j3, j4⟩ := ih st hts' hid h q st' heq
        refine ⟨j1, j2, j3, ?_⟩
        intro x hx
        rcases List.mem_cons.1 hx with rfl | hx
        · exact j3 _ ((h.flagD _).1 hdf)
        · exact j4 x hx
      · rw [if_neg hdf]
        have hp' : st.inProp.getD t false = false := by simpa using hp
        have hdf' : st.inDef.getD t false = false := by simpa using hdf
        have h1 := h.defeat hwf hatt hid hp' hdf'
        have htd : t ∉ st.defeated := fun hh => hdf ((h.flagD t).2 hh)
        have q1 : QInv af args (af.attackedOf t)
            { st with defeated := st.defeated ++ [t], inDef := st.inDef.set t true } := by
          refine ⟨?_, q.zero⟩
          intro d hd
          show st.cnt.getD d 0 + consumed af (st.defeated ++ [t]) d ≤ _
          rw [consumed_snoc af _ _ _ htd]
          have := q.ctr2 d hd
          rw [List.count_nil] at this; omega
        have hrow : ∀ d ∈ af.attackedOf t, d < af.n := fun d hd => (hwf _ (mem_attackedOf.1 hd)).2
        obtain ⟨h2, h3⟩ := defendLoop_inv af args _ _ hrow h1
        obtain ⟨q2, e2, r2, e3⟩ := defendLoop_inv2 af args _ _ hrow h1 q1
        intro st' heq
        obtain ⟨j1, ⟨r, j2⟩, j3, j4⟩ := ih _ hts' (h3 id hid) h2 q2 st' heq
        refine ⟨j1, ⟨r2 ++ r, ?_⟩, ?_, ?_⟩
        · rw [j2, e3]
          show (st.propagated ++ r2) ++ r = _
          rw [List.append_assoc]
        · intro x hx
          apply j3 x
          rw [e2]
          exact List.mem_append_left _ hx
        · intro x hx
          rcases List.mem_cons.1 hx with rfl | hx
          · apply j3
            rw [e2]
            exact List.mem_append_right _ (by simp)
          · exact j4 x hx

/-- the first `i` propagated arguments have been processed: all their targets are defeated -/
def Proc (af : AF) (st : PSt) (i : Nat) : Prop :=
  ∀ j, j < i → ∀ id, st.propagated[j]? = some id → ∀ t ∈ af.attackedOf id, t ∈ st.defeated

theorem propLoop_inv2 (af : AF) (hwf : af.WF) (args : List Nat) (fuel i : Nat) (st : PSt)
    (h : PInv af args [] st) (q : QInv af args [] st) (hp : Proc af st i) :
    ∀ st', propLoop af args fuel i st = some st' →
      QInv af args [] st' ∧ ∃ i', Proc af st' i' ∧ (st'.propagated.length ≤ i' ∨ i' = i + fuel) := by
  induction fuel generalizing i st with
  | zero =>
    intro st' heq
    simp only [propLoop, Option.some.injEq] at heq
    subst heq; exact ⟨q, i, hp, Or.inr rfl⟩
  | succ fuel ih =>
    rw [propLoop]
    cases hid : st.propagated[i]? with
    | none =>
      intro st' heq
      simp only [Option.some.injEq] at heq
      subst heq
      exact ⟨q, i, hp, Or.inl (by simpa using hid)⟩
    | some id =>
      have hmem : id ∈ st.propagated := List.mem_of_getElem? hid
      obtain ⟨a1, _⟩ := attackLoop_inv af hwf args id (af.attackedOf id) st
        (fun t ht => mem_attackedOf.1 ht) hmem h
      have a2 := attackLoop_inv2 af hwf args id (af.attackedOf id) st
        (fun t ht => mem_attackedOf.1 ht) hmem h q
      cases heq : attackLoop af args st (af.attackedOf id) with
      | none => simp only [heq]; intro st' h'; cases h'
      | some st1 =>
        simp only [heq]
        obtain ⟨q1, ⟨r, e1⟩, m1, m2⟩ := a2 st1 heq
        have hil : i < st.propagated.length := by
          rcases Nat.lt_or_ge i st.propagated.length with hh | hh
          · exact hh
          · have : st.propagated[i]? = none := List.getElem?_eq_none hh
            rw [this] at hid; cases hid
        have hp1 : Proc af st1 (i + 1) := by
          intro j hj id' hj' t ht
          rw [e1, List.getElem?_append_left (by omega)] at hj'
          by_cases hji : j = i
          · subst hji; rw [hid] at hj'; cases hj'; exact m2 t ht
          · exact m1 t (hp j (by omega) id' hj' t ht)
        intro st' h'
        obtain ⟨qq, i', p', hor⟩ := ih (i + 1) st1 (a1 st1 heq).1 q1 hp1 st' h'
        refine ⟨qq, i', p', ?_⟩
        rcases hor with hor | hor
        · exact Or.inl hor
        · exact Or.inr (by omega)

/-- what a successful propagation from a set of arguments that contains all unattacked ones yields: a
fixed point -/
structure Fix (af : AF) (args p d : List Nat) : Prop where
  args_in : ∀ a ∈ args, a ∈ p
  lt : ∀ a ∈ p, a < af.n
  out : ∀ q ∈ p, ∀ t, (q, t) ∈ af.atts → t ∈ d
  inn : ∀ a, a < af.n → (∀ b, (b, a) ∈ af.atts → b ∈ d) → a ∈ p
  why : ∀ a ∈ p, a ∉ args → ∀ b, (b, a) ∈ af.atts → b ∈ d
  defAtt : ∀ x ∈ d, ∃ q ∈ p, (q, x) ∈ af.atts
  sem : ∀ S, Complete af S → (∀ a ∈ args, S a = true) → ∀ x ∈ p, S x = true

theorem propagate_fix (af : AF) (hwf : af.WF) (args : List Nat) (hargs : ∀ a ∈ args, a < af.n)
    (hnd : args.Nodup) (hun : ∀ x, x < af.n → tot af x = 0 → x ∈ args) (p d : List Nat)
    (hpd : propagate af (nAttacksTo af) args = some (p, d)) : Fix af args p d := by
  have hshape := propagate_shape af hwf args hargs hnd p d hpd
  have h0 := init_inv af hwf args hargs
  have q0 : QInv af args [] ⟨nAttacksTo af, args,
      args.foldl (fun acc a => acc.set a true) (List.replicate af.n false), [],
      List.replicate af.n false⟩ := by
    refine ⟨?_, ?_⟩
    · intro d _
      show (nAttacksTo af).getD d 0 + consumed af [] d ≤ _
      rw [nAttacksTo_getD af hwf, consumed_nil]; simp
    · intro x hx hx0
      apply hun x hx
      rw [← nAttacksTo_getD af hwf]; exact hx0
  obtain ⟨h1, _⟩ := propLoop_inv af hwf args (af.n + 1) 0 _ h0
  have h2 := propLoop_inv2 af hwf args (af.n + 1) 0 _ h0 q0 (by intro j hj; omega)
  unfold propagate at hpd
  simp only [] at hpd
  split at hpd
  · cases hpd
  · next st heq =>
    simp only [Option.some.injEq, Prod.mk.injEq] at hpd
    obtain ⟨rfl, rfl⟩ := hpd
    have hinv := h1 st heq
    obtain ⟨qq, i', hproc, hor⟩ := h2 st heq
    have hlen : st.propagated.length ≤ i' := by
      rcases hor with hh | hh
      · exact hh
      · have := nodup_length_le af.n st.propagated (List.nodup_append.1 hshape.1).1 hinv.propLt
        omega
    obtain ⟨r, hr1, _, hr3⟩ := hinv.rest
    exact
      { args_in := by intro a ha; rw [hr1]; exact List.mem_append_left _ ha
        lt := hinv.propLt
        out := by
          intro q hq t hqt
          obtain ⟨j, hj⟩ := List.getElem?_of_mem hq
          have hjl : j < st.propagated.length := by
            rcases Nat.lt_or_ge j st.propagated.length with hh | hh
            · exact hh
            · have : st.propagated[j]? = none := List.getElem?_eq_none hh
              rw [this] at hj; cases hj
          exact hproc j (by omega) q hj t (mem_attackedOf.2 hqt)
        inn := by
          intro a ha hall
          by_cases haa : a ∈ args
          · rw [hr1]; exact List.mem_append_left _ haa
          · apply qq.zero a ha
            have h3 := qq.ctr2 a haa
            rw [consumed_eq_tot af _ a hall, List.count_nil] at h3
            omega
        why := by
          intro a ha haa b hb
          have har : a ∈ r := by
            rw [hr1] at ha
            rcases List.mem_append.1 ha with ha | ha
            · exact absurd ha haa
            · exact ha
          have hc : st.cnt.getD a 0 = 0 := (hr3 a har).2
          have h3 := hinv.ctr a
          have h4 : af.atts.countP (fun p => p.2 == a) ≤
              af.atts.countP (fun p => p.2 == a && decide (p.1 ∈ st.defeated)) := by
            unfold tot consumed at h3; rw [List.count_nil] at h3; omega
          have := all_of_countP_ge _ _ _ h4 (b, a) hb (by simp)
          simpa using this
        defAtt := hinv.defAtt
        sem := fun S hS hS' => (hinv.sem S hS hS').1 }

/-! ## the propagation from the unattacked arguments -/

theorem unatt_lt (af : AF) : ∀ a ∈ unatt af, a < af.n := by
  intro a ha
  unfold unatt at ha
  rw [List.mem_filter, List.mem_range] at ha; exact ha.1

theorem unatt_nodup (af : AF) : (unatt af).Nodup := List.nodup_range.filter _

theorem mem_unatt (af : AF) (hwf : af.WF) (a : Nat) : a ∈ unatt af ↔ a < af.n ∧ tot af a = 0 := by
  unfold unatt
  rw [List.mem_filter, List.mem_range, nAttacksTo_getD af hwf]
  simp

theorem unatt_no_attacker (af : AF) (hwf : af.WF) (a : Nat) (ha : a ∈ unatt af) (b : Nat) :
    (b, a) ∉ af.atts := by
  intro hb
  have h0 := ((mem_unatt af hwf a).1 ha).2
  unfold tot at h0
  rw [List.countP_eq_zero] at h0
  have := h0 (b, a) hb
  simp at this

/-- the initial propagation cannot fail -/
theorem propagate_unatt_ne_none (af : AF) (hwf : af.WF) :
    propagate af (nAttacksTo af) (unatt af) ≠ none := by
  intro hnone
  obtain ⟨S0, hS0⟩ := exists_complete af
  exact (propagate_sound af hwf _ (unatt_lt af)).2 hnone
    ⟨S0, hS0, fun x hx => unattacked_in af hwf x hx S0 hS0⟩

theorem fix_unatt (af : AF) (hwf : af.WF) (g d : List Nat)
    (hp : propagate af (nAttacksTo af) (unatt af) = some (g, d)) : Fix af (unatt af) g d :=
  propagate_fix af hwf (unatt af) (unatt_lt af) (unatt_nodup af)
    (fun x hx h0 => (mem_unatt af hwf x).2 ⟨hx, h0⟩) g d hp

/-- the arguments propagated from the unattacked ones form a complete extension -/
theorem complete_of_fix (af : AF) (hwf : af.WF) (g d : List Nat) (hf : Fix af (unatt af) g d) :
    Complete af (ofList g) := by
  obtain ⟨S0, hS0⟩ := exists_complete af
  have hgS : ∀ x ∈ g, S0 x = true :=
    hf.sem S0 hS0 (fun x hx => unattacked_in af hwf x hx S0 hS0)
  refine ⟨⟨⟨?_, ?_⟩, ?_⟩, ?_⟩
  · intro a ha; exact hf.lt a ((ofList_true g a).1 ha)
  · rintro a ha ⟨b, hba, hb⟩
    exact hS0.1.1.2 a (hgS a ((ofList_true g a).1 ha)) ⟨b, hba, hgS b ((ofList_true g b).1 hb)⟩
  · intro a ha b hba
    have hag : a ∈ g := (ofList_true g a).1 ha
    by_cases hau : a ∈ unatt af
    · exact absurd hba (unatt_no_attacker af hwf a hau b)
    · obtain ⟨q, hq, hqb⟩ := hf.defAtt b (hf.why a hag hau b hba)
      exact ⟨q, hqb, (ofList_true g q).2 hq⟩
  · intro a ha hdef
    apply (ofList_true g a).2
    apply hf.inn a ha
    intro b hba
    obtain ⟨q, hqb, hq⟩ := hdef b hba
    exact hf.out q ((ofList_true g q).1 hq) b hqb

/-- the arguments propagated from the unattacked ones form the grounded extension -/
theorem grounded_of_fix (af : AF) (hwf : af.WF) (g d : List Nat) (hf : Fix af (unatt af) g d) :
    Grounded af (ofList g) := by
  refine ⟨complete_of_fix af hwf g d hf, ?_⟩
  intro T hT a ha
  exact hf.sem T hT (fun x hx => unattacked_in af hwf x hx T hT) a ((ofList_true g a).1 ha)

/-! ## the main theorems -/

/-- the successful initial propagation and the shape of the classes, together -/
theorem computeClasses_some (af : AF) (hwf : af.WF) :
    ∃ g d ex, Fix af (unatt af) g d ∧ computeClasses af = cl0 g d ++ ex ∧
      ∀ c ∈ ex, c.kind = Kind.other := by
  rcases computeClasses_shape af with ⟨hnone, _⟩ | ⟨g, d, ex, hp, hcc, hex⟩
  · exact absurd hnone (propagate_unatt_ne_none af hwf)
  · exact ⟨g, d, ex, fix_unatt af hwf g d hp, hcc, hex⟩

theorem mem_cl0_grounded {g d : List Nat} {a : Nat} (ha : a ∈ g) : (⟨Kind.grounded, g⟩ : Cls) ∈ cl0 g d := by
  unfold cl0
  apply List.mem_append_left
  cases g with
  | nil => cases ha
  | cons x l => simp

theorem mem_cl0_defeated {g d : List Nat} {a : Nat} (ha : a ∈ d) : (⟨Kind.defeated, d⟩ : Cls) ∈ cl0 g d := by
  unfold cl0
  apply List.mem_append_right
  cases d with
  | nil => cases ha
  | cons x l => simp

set_option linter.unusedVariables false in
/-- (T1) every argument that is in every complete extension is a member of the class of kind
`grounded` -/
theorem grounded_arguments_together (af : AF) (hwf : af.WF) (a : Nat) (ha : a < af.n)
    (hall : ∀ S, Complete af S → S a = true) :
    ∃ c ∈ computeClasses af, c.kind = .grounded ∧ a ∈ c.members := by
  obtain ⟨g, d, ex, hf, hcc, _⟩ := computeClasses_some af hwf
  have hag : a ∈ g := (ofList_true g a).1 (hall _ (complete_of_fix af hwf g d hf))
  refine ⟨⟨.grounded, g⟩, ?_, rfl, hag⟩
  rw [hcc]
  exact List.mem_append_left _ (mem_cl0_grounded hag)

set_option linter.unusedVariables false in
/-- (T2) every argument attacked by an argument that is in every complete extension is a member of
the class of kind `defeated` -/
theorem defeated_arguments_together (af : AF) (hwf : af.WF) (a b : Nat) (ha : a < af.n) (hb : b < af.n)
    (hall : ∀ S, Complete af S → S a = true) (hatt : (a, b) ∈ af.atts) :
    ∃ c ∈ computeClasses af, c.kind = .defeated ∧ b ∈ c.members := by
  obtain ⟨g, d, ex, hf, hcc, _⟩ := computeClasses_some af hwf
  have hag : a ∈ g := (ofList_true g a).1 (hall _ (complete_of_fix af hwf g d hf))
  have hbd : b ∈ d := hf.out a hag b hatt
  refine ⟨⟨.defeated, d⟩, ?_, rfl, hbd⟩
  rw [hcc]
  exact List.mem_append_left _ (mem_cl0_defeated hbd)

/-- members of one class have the same image under `initToReduced` -/
theorem same_class_same_index (af : AF) (hwf : af.WF) (c : Cls) (hc : c ∈ computeClasses af)
    (a b : Nat) (ha : a ∈ c.members) (hb : b ∈ c.members) :
    (initToReduced af.n (computeClasses af)).getD a 0 =
      (initToReduced af.n (computeClasses af)).getD b 0 := by
  have h := computeClasses_good af hwf
  obtain ⟨i, hi⟩ := List.getElem?_of_mem hc
  rw [initToReduced_spec af.n _ h.nodup h.lt i c hi a ha,
    initToReduced_spec af.n _ h.nodup h.lt i c hi b hb]

/-- (T4, grounded) two arguments that are in every complete extension are mapped to the same
argument of the reduced framework -/
theorem grounded_same_index (af : AF) (hwf : af.WF) (a b : Nat) (ha : a < af.n) (hb : b < af.n)
    (halla : ∀ S, Complete af S → S a = true) (hallb : ∀ S, Complete af S → S b = true) :
    (initToReduced af.n (computeClasses af)).getD a 0 =
      (initToReduced af.n (computeClasses af)).getD b 0 := by
  obtain ⟨c1, hc1, k1, m1⟩ := grounded_arguments_together af hwf a ha halla
  obtain ⟨c2, hc2, k2, m2⟩ := grounded_arguments_together af hwf b hb hallb
  have : c1 = c2 := special_classes_unique af hwf c1 hc1 c2 hc2 (k1.trans k2.symm) (by rw [k1]; simp)
  subst this
  exact same_class_same_index af hwf c1 hc1 a b m1 m2

/-- (T4, defeated) two arguments attacked by arguments that are in every complete extension are
mapped to the same argument of the reduced framework -/
theorem defeated_same_index (af : AF) (hwf : af.WF) (a a' b b' : Nat)
    (ha : a < af.n) (ha' : a' < af.n) (hb : b < af.n) (hb' : b' < af.n)
    (halla : ∀ S, Complete af S → S a = true) (halla' : ∀ S, Complete af S → S a' = true)
    (hatt : (a, b) ∈ af.atts) (hatt' : (a', b') ∈ af.atts) :
    (initToReduced af.n (computeClasses af)).getD b 0 =
      (initToReduced af.n (computeClasses af)).getD b' 0 := by
  obtain ⟨c1, hc1, k1, m1⟩ := defeated_arguments_together af hwf a b ha hb halla hatt
  obtain ⟨c2, hc2, k2, m2⟩ := defeated_arguments_together af hwf a' b' ha' hb' halla' hatt'
  have : c1 = c2 := special_classes_unique af hwf c1 hc1 c2 hc2 (k1.trans k2.symm) (by rw [k1]; simp)
  subst this
  exact same_class_same_index af hwf c1 hc1 b b' m1 m2

/-- the class of kind `grounded` lists the grounded extension, and the class of kind `defeated`
exactly the arguments the grounded extension attacks -/
theorem grounded_class_is_grounded (af : AF) (hwf : af.WF) :
    (∀ c ∈ computeClasses af, c.kind = .grounded → Grounded af (ofList c.members)) ∧
    (∀ c ∈ computeClasses af, c.kind = .defeated →
      ∀ G, Grounded af G → ∀ x, x ∈ c.members ↔ AttackedBy af G x) := by
  obtain ⟨g, d, ex, hf, hcc, hex⟩ := computeClasses_some af hwf
  have hgr := grounded_of_fix af hwf g d hf
  have hmem : ∀ c ∈ computeClasses af, c.kind ≠ Kind.other →
      c = ⟨Kind.grounded, g⟩ ∨ c = ⟨Kind.defeated, d⟩ := by
    intro c hc hc'
    rw [hcc] at hc
    rcases List.mem_append.1 hc with hc | hc
    · exact mem_cl0 hc
    · exact absurd (hex c hc) hc'
  constructor
  · intro c hc hk
    rcases hmem c hc (by rw [hk]; simp) with rfl | rfl
    · exact hgr
    · simp at hk
  · intro c hc hk G hG x
    have hGg : ∀ y, G y = true ↔ y ∈ g := by
      intro y
      constructor
      · intro hy; exact (ofList_true g y).1 (hG.2 _ hgr.1 y hy)
      · intro hy; exact hgr.2 G hG.1 y ((ofList_true g y).2 hy)
    rcases hmem c hc (by rw [hk]; simp) with rfl | rfl
    · simp at hk
    · constructor
      · intro hx
        obtain ⟨q, hq, hqx⟩ := hf.defAtt x hx
        exact ⟨q, hqx, (hGg q).2 hq⟩
      · rintro ⟨q, hqx, hq⟩
        exact hf.out q ((hGg q).1 hq) x hqx

end Crusta.Eq

section
open Crusta Crusta.Eq
#print axioms special_classes_unique
#print axioms grounded_arguments_together
#print axioms defeated_arguments_together
#print axioms grounded_same_index
#print axioms defeated_same_index
#print axioms grounded_class_is_grounded
end
