import Crusta.Spec.Oracle
import Crusta.Proofs.Deciders

/-!
# The conformance oracle is exactly the property text of C01–C04 / C07

`Conforms af q a` restates the properties as a `Prop` over the textbook semantics; the executable
`checkAnswer` (run by the checks on every answer of the real solvers) accepts an answer iff it
conforms.  Hence a `verdict BAD` is a genuine violation of the property, and `verdict ok` means the
property holds on that answer; no bound on the framework.
-/

namespace Crusta

theorem nodupB_iff (l : List Nat) : nodupB l = true ↔ l.Nodup := by
  induction l with
  | nil => simp [nodupB]
  | cons a l ih => simp [nodupB, ih]

theorem validExtB_iff (σ : Sem) (af : AF) (hwf : af.WF) (e : List Nat) :
    validExtB σ af e = true ↔ e.Nodup ∧ σ.Ext af (ofList e) := by
  simp [validExtB, nodupB_iff, extB_iff σ af hwf]

theorem hitsB_iff (e as : List Nat) : hitsB e as = true ↔ ∃ a ∈ as, a ∈ e := by
  simp [hitsB]

theorem exts_isEmpty_iff (σ : Sem) (af : AF) (hwf : af.WF) :
    (σ.exts af).isEmpty = true ↔ ¬ ∃ S, σ.Ext af S := by
  rw [List.isEmpty_iff]
  constructor
  · rintro h ⟨S, hS⟩
    obtain ⟨l, hl, rfl⟩ := exists_list_of_sub af S (ext_sub σ hS)
    have : l ∈ σ.exts af := (mem_exts_iff σ af hwf l).2 ⟨hl, hS⟩
    rw [h] at this; cases this
  · intro h
    apply List.eq_nil_iff_forall_not_mem.2
    intro l hl
    exact h ⟨ofList l, ((mem_exts_iff σ af hwf l).1 hl).2⟩

/-- what a certificate slot must look like (C04): `wantWitness` says whether this status promises one;
`P e` is the membership condition on the witness -/
def CertConforms (σ : Sem) (af : AF) (certFlag : Bool) (wantWitness : Bool) (P : List Nat → Prop) :
    Option (Option (List Nat)) → Prop
  | none => certFlag = false
  | some none => certFlag = true ∧ wantWitness = false
  | some (some e) => certFlag = true ∧ wantWitness = true ∧ e.Nodup ∧ σ.Ext af (ofList e) ∧ P e

/-- C01–C04, C07 as one predicate on (framework, query, answer) -/
def Conforms (af : AF) (q : Query) : Answer → Prop
  | .se none => q.task = .SE ∧ ¬ ∃ S, q.sem.Ext af S
  | .se (some e) => q.task = .SE ∧ e.Nodup ∧ q.sem.Ext af (ofList e)
  | .acc st c =>
    match q.task with
    | .SE => False
    | .DC => (st = true ↔ ∃ S, q.sem.Ext af S ∧ ∃ a ∈ q.args, S a = true) ∧
        CertConforms q.sem af q.cert st (fun e => ∃ a ∈ q.args, a ∈ e) c
    | .DS => (st = true ↔ ∀ S, q.sem.Ext af S → ∃ a ∈ q.args, S a = true) ∧
        CertConforms q.sem af q.cert (!st) (fun e => ¬ ∃ a ∈ q.args, a ∈ e) c

theorem status_eq_of_iff {st b : Bool} {P : Prop} (h1 : st = true ↔ P) (h2 : b = true ↔ P) : st = b := by
  cases st <;> cases b <;> simp_all

theorem checkAnswer_iff (af : AF) (hwf : af.WF) (q : Query) (a : Answer) :
    checkAnswer af q a = .ok () ↔ Conforms af q a := by
  obtain ⟨σ, task, cert, args⟩ := q
  cases a with
  | se ext =>
    cases ext with
    | none =>
      have he := exts_isEmpty_iff σ af hwf
      cases task <;> simp [checkAnswer, Conforms]
      rw [← List.isEmpty_iff, he]; simp
    | some e =>
      have hv := validExtB_iff σ af hwf e
      cases task <;> simp [checkAnswer, Conforms]
      exact hv
  | acc st c =>
    cases task with
    | SE => simp [checkAnswer, Conforms]
    | DC =>
      have hc := credB_iff σ af hwf args
      simp only [checkAnswer, Conforms]
      by_cases hst : st = σ.credB af args
      · have hst' : (st = true ↔ ∃ S, σ.Ext af S ∧ ∃ a ∈ args, S a = true) := by rw [hst]; exact hc
        simp only [hst', true_and]
        rw [if_neg (by simp [hst])]
        rcases c with _ | _ | e <;> cases cert <;> simp [CertConforms]
        · have hv := validExtB_iff σ af hwf e
          have hh := hitsB_iff e args
          cases st
          · simp
          · simp only [true_and]
            cases h1 : validExtB σ af e
            · simp; intro hn he; rw [hv.2 ⟨hn, he⟩] at h1; cases h1
            · cases h2 : hitsB e args
              · simp; intro _ _ x hx hxe; rw [hh.2 ⟨x, hx, hxe⟩] at h2; cases h2
              · simp; exact ⟨(hv.1 h1).1, (hv.1 h1).2, hh.1 h2⟩
      · rw [if_pos (by simpa using hst)]
        simp only [reduceCtorEq, false_iff, not_and]
        intro h
        exact absurd (status_eq_of_iff h hc) hst
    | DS =>
      have hc := skepB_iff σ af hwf args
      simp only [checkAnswer, Conforms]
      by_cases hst : st = σ.skepB af args
      · have hst' : (st = true ↔ ∀ S, σ.Ext af S → ∃ a ∈ args, S a = true) := by rw [hst]; exact hc
        simp only [hst', true_and]
        rw [if_neg (by simp [hst])]
        rcases c with _ | _ | e <;> cases cert <;> simp [CertConforms]
        · have hv := validExtB_iff σ af hwf e
          have hh := hitsB_iff e args
          cases st
          · simp only [Bool.false_eq_true, ↓reduceIte, true_and]
            cases h1 : validExtB σ af e
            · simp; intro hn he; rw [hv.2 ⟨hn, he⟩] at h1; cases h1
            · cases h2 : hitsB e args
              · simp
                refine ⟨(hv.1 h1).1, (hv.1 h1).2, ?_⟩
                intro x hx hxe; rw [hh.2 ⟨x, hx, hxe⟩] at h2; cases h2
              · simp; intro _ _; exact hh.1 h2
          · simp
      · rw [if_pos (by simpa using hst)]
        simp only [reduceCtorEq, false_iff, not_and]
        intro h
        exact absurd (status_eq_of_iff h hc) hst

end Crusta
