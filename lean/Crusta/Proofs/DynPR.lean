import Crusta.Proofs.DynQuery
import Crusta.Proofs.SolvePR
import Crusta.Proofs.GroundedAlg
import Crusta.Proofs.Decomp2

/-!
# The preferred dynamic solver answers for the pending framework

The search for maximal extensions of `DynamicPreferredSemanticsSolver` runs on the shared solver:
its blocking clauses `outLits(E) ∨ sel` are guarded by a selector `sel = n_vars + 1` that is assumed
false during the search and forced true afterwards, which turns the blocking clauses into clauses of
the kind "contains a true ghost literal" of `EncInv`.  The argument is that of `SolvePR.lean` on the
incremental encoding.
-/

namespace Crusta

/-! ## graph-level facts -/

theorem G.attackedBy_mono {g : G} {S T : ASet} (h : SubsetS S T) {a : Nat} (ha : g.AttackedBy S a) :
    g.AttackedBy T a := by
  obtain ⟨b, hb, hs⟩ := ha; exact ⟨b, hb, h b hs⟩

/-- fundamental lemma: an admissible set plus an argument it defends is admissible -/
theorem G.adm_add_defended {g : G} {S : ASet} (hS : g.Admissible S) {a : Nat} (ha : g.live a = true)
    (hd : g.Defended S a) : g.Admissible (addArg S a) := by
  obtain ⟨⟨hsub, hcf⟩, hdef⟩ := hS
  have hmem : ∀ x, addArg S a x = true ↔ (S x = true ∨ x = a) := by
    intro x; simp [addArg]
  have key : ∀ y, addArg S a y = true → ¬ g.AttackedBy S y := by
    intro y hy hatt
    rcases (hmem y).1 hy with h | rfl
    · exact hcf y h hatt
    · obtain ⟨c, hc, hcS⟩ := hatt
      exact hcf c hcS (hd c hc)
  refine ⟨⟨?_, ?_⟩, ?_⟩
  · intro x hx
    rcases (hmem x).1 hx with h | rfl
    · exact hsub x h
    · exact ha
  · intro x hx ⟨b, hb, hbS⟩
    have hSb : g.AttackedBy S b := by
      rcases (hmem x).1 hx with h | rfl
      · exact hdef x h b hb
      · exact hd b hb
    exact key b hbS hSb
  · intro x hx b hb
    rcases (hmem x).1 hx with h | h
    · exact G.attackedBy_mono (subset_addArg S a) (hdef x h b hb)
    · rw [h] at hb; exact G.attackedBy_mono (subset_addArg S a) (hd b hb)

theorem G.preferred_complete {g : G} {S : ASet} (h : g.Preferred S) : g.Complete S := by
  refine ⟨h.1, ?_⟩
  intro a ha hd
  have hadm := G.adm_add_defended h.1 ha hd
  exact h.2 _ hadm (subset_addArg S a) a (by simp [addArg])

/-- a complete extension with no complete strict superset is preferred -/
theorem G.preferred_of_max_complete {g : G} (hfin : ∃ n, ∀ a, g.live a = true → a < n) {S : ASet}
    (hS : g.Complete S) (hmax : ∀ T, g.Complete T → SubsetS S T → SubsetS T S) : g.Preferred S := by
  refine ⟨hS.1, ?_⟩
  intro T hT hST
  obtain ⟨P, hP, hTP⟩ := g.exists_preferred_above hfin T hT
  have := hmax P (G.preferred_complete hP) (fun a ha => hTP a (hST a ha))
  intro a ha
  exact this a (hTP a ha)

end Crusta

namespace Crusta.Dyn
open Prog (addClause addClauses getNVars doSolve)
open Crusta.Store

/-! ## every typed variable of a clean encoding occurs in the database -/

theorem attackClauses_ne (sem : DSem) (s xt : Nat) (xs : List Nat) : attackClauses sem s xt xs ≠ [] := by
  cases sem <;> simp [attackClauses]

theorem selvar_in_db {st : Store} {e : Enc} {Γ : Cnf} {T F : Nat → Bool}
    (h : EncInv st e Γ T F (fun _ => False)) {s i : Nat} (hty : e.ty s = .sel i) : Occurs Γ s := by
  have hsv := h.ty_sel s i hty
  have hi := (h.sv_live i s hsv).1
  obtain ⟨s', cl, hs', ⟨xt, xs, _, _, rfl⟩, hcl⟩ := h.act i hi (fun h => h)
  rw [hsv] at hs'; injection hs' with hs'; subst hs'
  obtain ⟨c, hc⟩ := List.exists_mem_of_ne_nil _ (attackClauses_ne e.sem s xt xs)
  exact ⟨c, hcl c hc, nl s, nl_sel_mem_attackClauses _ _ _ _ c hc, rfl⟩

theorem ty_occurs {st : Store} {e : Enc} {Γ : Cnf} {T F : Nat → Bool}
    (h : EncInv st e Γ T F (fun _ => False)) {v : Nat} (hv : e.ty v ≠ .ignored) : Occurs Γ v := by
  cases hty : e.ty v with
  | ignored => exact absurd hty hv
  | arg i =>
    obtain ⟨hl, hav⟩ := h.ty_arg v i hty
    have := argvar_in_db h hl
    have hxv : e.xv i = v := by unfold Enc.xv; rw [hav]; rfl
    rw [hxv] at this; exact this
  | sel i => exact selvar_in_db h hty
  | disj i =>
    obtain ⟨⟨h1, _⟩, _⟩ := h.ty_disj v i hty
    have hv' : v = (v - 1) + 1 := by omega
    rw [hv'] at hty
    have := h.disj_cl (v - 1) i hty
    exact ⟨_, this, nl (v - 1 + 1), by simp, by show v - 1 + 1 = v; omega⟩

/-- a finished search: the selector joins the variables forced true, the blocking clauses become
clauses that contain a true ghost literal -/
theorem inv_search_done {st : Store} {e : Enc} {Γ₀ Γ' : Cnf} {T F : Nat → Bool} {dirty : Nat → Prop}
    (h : EncInv st e Γ₀ T F dirty) {sel : Nat} (hty : e.ty sel = .ignored) (hF : F sel = false)
    (hsub : ∀ c ∈ Γ₀, c ∈ Γ') (hnew : ∀ c ∈ Γ', c ∈ Γ₀ ∨ pl sel ∈ c) (hocc : Occurs Γ' sel) :
    EncInv st e Γ' (fun v => T v || v == sel) F dirty := by
  constructor
  · exact h.vars_pos
  · exact h.sz_a
  · exact h.sz_s
  · intro i hi
    obtain ⟨v, hv, hv1, hvt, hp⟩ := h.av_live i hi
    exact ⟨v, hv, hv1, hvt, fun hs => ⟨(hp hs).1, hsub _ (hp hs).2⟩⟩
  · exact h.sv_live
  · exact h.ty_arg
  · exact h.ty_sel
  · intro v i hv
    obtain ⟨h1, h2⟩ := h.ty_disj v i hv
    refine ⟨h1, ?_⟩
    rcases h2 with h2 | ⟨h2, h3⟩
    · exact Or.inl h2
    · exact Or.inr ⟨by simp [h2], h3⟩
  · exact h.asm
  · exact h.asm_nodup
  · intro v hv
    simp only [Bool.or_eq_true, beq_iff_eq] at hv
    rcases hv with hv | rfl
    · exact ⟨(h.ghostT v hv).1, (h.ghostT v hv).2.mono hsub⟩
    · exact ⟨hty, hocc⟩
  · intro v hv
    exact ⟨(h.ghostF v hv).1, (h.ghostF v hv).2.mono hsub⟩
  · intro v ⟨hT, hF'⟩
    simp only [Bool.or_eq_true, beq_iff_eq] at hT
    rcases hT with hT | rfl
    · exact h.ghostTF v ⟨hT, hF'⟩
    · rw [hF] at hF'; cases hF'
  · intro c hc
    rcases hnew c hc with hc | hc
    · rcases h.acc c hc with hk | hk | ⟨t, ht, hm⟩ | hk
      · exact Or.inl hk
      · exact Or.inr (Or.inl hk)
      · exact Or.inr (Or.inr (Or.inl ⟨t, by simp [ht], hm⟩))
      · exact Or.inr (Or.inr (Or.inr hk))
    · exact Or.inr (Or.inr (Or.inl ⟨sel, by simp, hc⟩))
  · intro i hi hd
    obtain ⟨s, cl, h1, h2, h3⟩ := h.act i hi hd
    exact ⟨s, cl, h1, h2, fun c hc => hsub c (h3 c hc)⟩
  · intro v i hv
    exact hsub _ (h.disj_cl v i hv)

/-! ## `split_in_extension` on the sparse framework -/

def liveIds (st : Store) : List Nat := (List.range st.labels.length).filter st.hasId

theorem mem_liveIds {st : Store} {i : Nat} : i ∈ liveIds st ↔ st.hasId i = true := by
  unfold liveIds
  rw [List.mem_filter, List.mem_range]
  constructor
  · exact fun h => h.2
  · intro h
    obtain ⟨l, hl⟩ := hasId_iff.1 h
    exact ⟨live_lt hl, h⟩

def inLits (d : DState) (cur : List Nat) : List Lit :=
  ((liveIds d.af).filter (fun i => cur.contains i)).map (fun i => pl (d.enc.xv i))
def outLits (d : DState) (cur : List Nat) : List Lit :=
  ((liveIds d.af).filter (fun i => !cur.contains i)).map (fun i => pl (d.enc.xv i))

theorem range_filter_of_le (p : Nat → Bool) (n : Nat) (hp : ∀ i, p i = true → i < n) :
    ∀ len, n ≤ len → (List.range len).filter p = (List.range n).filter p := by
  intro len
  induction len with
  | zero => intro h; have : n = 0 := by omega
            subst this; rfl
  | succ k ih =>
    intro h
    by_cases hk : n ≤ k
    · rw [List.range_succ, List.filter_append, ih hk]
      have : p k = false := by
        cases hpk : p k
        · rfl
        · have := hp k hpk; omega
      simp [this]
    · have : n = k + 1 := by omega
      subst this
      rfl

theorem splitSparse_eq {d : DState} {Γ : Cnf} {T F : Nat → Bool} {dirty : Nat → Prop}
    (h : EncInv d.af d.enc Γ T F dirty) (cur : List Nat) :
    splitSparse d cur = some (inLits d cur, outLits d cur) := by
  have hids : ∀ n0, d.af.labels.length ≤ n0 →
      (List.range (cur.foldl (fun m a => max m (a + 1)) n0)).filter d.af.hasId = liveIds d.af := by
    intro n0 hn0
    refine range_filter_of_le _ _ ?_ _ (Nat.le_trans hn0 (foldl_max_ge cur _))
    intro i hi
    obtain ⟨l, hl⟩ := hasId_iff.1 hi
    exact live_lt hl
  have hopt : optAll ((liveIds d.af).map (fun i => (d.enc.argVar.getD i none).map (fun x => (i, x)))) =
      some ((liveIds d.af).map (fun i => (i, d.enc.xv i))) := by
    apply optAll_map_of_forall
    intro i hi
    obtain ⟨v, hv, _⟩ := h.av_live i (mem_liveIds.1 hi)
    have hv' : d.enc.argVar.getD i none = some v := hv
    have hxv : d.enc.xv i = v := by unfold Enc.xv; rw [hv]; rfl
    rw [hv', hxv]; rfl
  unfold splitSparse
  simp only []
  generalize hn0 : max d.af.nArguments _ = n0
  have hle : d.af.labels.length ≤ n0 := by
    rw [← hn0]; unfold Store.maxId
    cases hl : d.af.labels with
    | nil => simp
    | cons a t => simp; omega
  rw [hids n0 hle]
  simp only [hopt]
  unfold inLits outLits
  simp only [List.filter_map, List.map_map]
  rfl

theorem inLits_nil (d : DState) : inLits d [] = [] := by
  simp [inLits]

theorem inLits_true (d : DState) (ν : Asg) (cur : List Nat) :
    (∀ l ∈ inLits d cur, litTrue ν l = true) ↔ ∀ a ∈ cur, d.af.hasId a = true → ν (d.enc.xv a) = true := by
  unfold inLits
  constructor
  · intro h a ha hl
    have := h (pl (d.enc.xv a)) (List.mem_map.2 ⟨a, List.mem_filter.2 ⟨mem_liveIds.2 hl, by simpa using ha⟩, rfl⟩)
    simpa using this
  · intro h l hl
    obtain ⟨a, ha, rfl⟩ := List.mem_map.1 hl
    obtain ⟨h1, h2⟩ := List.mem_filter.1 ha
    simpa using h a (by simpa using h2) (mem_liveIds.1 h1)

theorem outLits_true (d : DState) (ν : Asg) (cur : List Nat) :
    (∃ l ∈ outLits d cur, litTrue ν l = true) ↔
      ∃ a, a ∉ cur ∧ d.af.hasId a = true ∧ ν (d.enc.xv a) = true := by
  unfold outLits
  constructor
  · rintro ⟨l, hl, ht⟩
    obtain ⟨a, ha, rfl⟩ := List.mem_map.1 hl
    obtain ⟨h1, h2⟩ := List.mem_filter.1 ha
    exact ⟨a, by simpa using h2, mem_liveIds.1 h1, by simpa using ht⟩
  · rintro ⟨a, ha, hl, hν⟩
    exact ⟨pl (d.enc.xv a), List.mem_map.2 ⟨a, List.mem_filter.2 ⟨mem_liveIds.2 hl, by simpa using ha⟩, rfl⟩,
      by simpa using hν⟩

/-! ## the solver during a search -/

/-- the shared solver during a search: the clean encoding `Γ₀` of the framework plus one blocking
clause per blocked set (newest first), guarded by the selector `sel`, which is above every variable
of `Γ₀` -/
structure SInv (d : DState) (sel : Nat) (Γ₀ : Cnf) (w : World) (blocked : List (List Nat)) : Prop where
  w0 : W0 w
  st_inv : d.af.Inv
  clean : CleanEnc .PR d.af d.enc Γ₀
  fresh : ∀ c ∈ Γ₀, ∀ l ∈ c, l.var < sel
  db : w.db 0 = blocked.map (fun E => outLits d E ++ [pl sel]) ++ Γ₀

theorem SInv.congr_db {d : DState} {sel : Nat} {Γ₀ : Cnf} {w w' : World} {blocked : List (List Nat)}
    (h : SInv d sel Γ₀ w blocked) (hw : W0 w') (hdb : w'.db 0 = w.db 0) : SInv d sel Γ₀ w' blocked :=
  ⟨hw, h.st_inv, h.clean, h.fresh, by rw [hdb]; exact h.db⟩

theorem SInv.block {d : DState} {sel : Nat} {Γ₀ : Cnf} {w : World} {blocked : List (List Nat)}
    (h : SInv d sel Γ₀ w blocked) (E : List Nat) :
    SInv d sel Γ₀ (w.onClause 0 (outLits d E ++ [pl sel])) (E :: blocked) :=
  ⟨W0_onClause h.w0 _ _, h.st_inv, h.clean, h.fresh, by rw [db_onClause_same, h.db]; rfl⟩

/-- a satisfying assignment under `must ∧ ¬selector` and the encoder's assumptions -/
theorem search_sat {d : DState} {sel : Nat} {Γ₀ : Cnf} {w : World} {blocked : List (List Nat)}
    (h : SInv d sel Γ₀ w blocked) (must : List Nat) {ν : Asg} (hΓ : cnfTrue ν (w.db 0) = true)
    (hA : assumpsTrue ν (inLits d must ++ [nl sel] ++ d.enc.assumptions) = true) :
    d.af.g.Complete (setOf d.af d.enc ν) ∧
      (∀ a ∈ must, d.af.hasId a = true → setOf d.af d.enc ν a = true) ∧
      (∀ E ∈ blocked, ¬ SubL (setOf d.af d.enc ν) E) := by
  rw [cnfTrue_iff, h.db] at hΓ
  have hΓ0 : cnfTrue ν Γ₀ = true := by
    rw [cnfTrue_iff]; intro c hc; exact hΓ c (List.mem_append_right _ hc)
  simp only [assumpsTrue, List.all_append, Bool.and_eq_true, List.all_eq_true] at hA
  obtain ⟨⟨hin, hsel⟩, hasm⟩ := hA
  have hsel' : ν sel = false := by simpa using hsel (nl sel) (by simp)
  have hasm' : assumpsTrue ν d.enc.assumptions = true := by
    simp only [assumpsTrue, List.all_eq_true]; exact hasm
  have hco : d.af.g.Complete (setOf d.af d.enc ν) := models_ext h.st_inv h.clean hΓ0 hasm'
  refine ⟨hco, ?_, ?_⟩
  · intro a ha hl
    have := (inLits_true d ν must).1 hin a ha hl
    simp [setOf, hl, this]
  · intro E hE hsub
    have := hΓ _ (List.mem_append_left _ (List.mem_map.2 ⟨E, hE, rfl⟩))
    rw [clauseTrue_iff] at this
    obtain ⟨l, hl, hlt⟩ := this
    rcases List.mem_append.1 hl with hl | hl
    · obtain ⟨a, ha, hlive, hν⟩ := (outLits_true d ν E).1 ⟨l, hl, hlt⟩
      exact ha (hsub a (by simp [setOf, hlive, hν]))
    · simp only [List.mem_singleton] at hl; subst hl
      simp [hsel'] at hlt

/-- no satisfying assignment: every complete extension containing `must` lies in a blocked set -/
theorem search_unsat {d : DState} {sel : Nat} {Γ₀ : Cnf} {w : World} {blocked : List (List Nat)}
    (h : SInv d sel Γ₀ w blocked) (must : List Nat)
    (hun : ∀ ν : Asg, ¬ (cnfTrue ν (w.db 0) = true ∧
      assumpsTrue ν (inLits d must ++ [nl sel] ++ d.enc.assumptions) = true))
    {T : ASet} (hT : d.af.g.Complete T) (hmust : ∀ a ∈ must, d.af.hasId a = true → T a = true) :
    ∃ E ∈ blocked, SubL T E := by
  apply Classical.byContradiction
  intro hno
  obtain ⟨_, T', F', hI⟩ := h.clean
  obtain ⟨ν, h1, h2, h3⟩ := ext_model h.st_inv h.clean (S := T) hT
  have hxv : ∀ i, d.af.hasId i = true → d.enc.xv i ≠ sel := by
    intro i hi
    obtain ⟨c, hc, lit, hl, hv⟩ := argvar_in_db hI hi
    have := h.fresh c hc lit hl
    omega
  have hasmv : ∀ l ∈ d.enc.assumptions, l.var ≠ sel := by
    intro l hl
    obtain ⟨s, i, rfl, hty⟩ := (hI.asm l).1 hl
    obtain ⟨c, hc, lit, hl', hv⟩ := selvar_in_db hI hty
    have := h.fresh c hc lit hl'
    show s ≠ sel
    omega
  apply hun (ν.set sel false)
  constructor
  · rw [cnfTrue_iff, h.db]
    intro c hc
    rcases List.mem_append.1 hc with hc | hc
    · obtain ⟨E, hE, rfl⟩ := List.mem_map.1 hc
      rw [clauseTrue_iff]
      have : ¬ SubL T E := fun hsub => hno ⟨E, hE, hsub⟩
      simp only [SubL, Classical.not_forall] at this
      obtain ⟨a, hTa, hna⟩ := this
      have hlive : d.af.hasId a = true := hT.1.1.1 a hTa
      obtain ⟨l, hl, hlt⟩ := (outLits_true d (ν.set sel false) E).2
        ⟨a, hna, hlive, by rw [Asg.set_ne _ _ (hxv a hlive), h3 a hlive]; exact hTa⟩
      exact ⟨l, List.mem_append_left _ hl, hlt⟩
    · rw [clauseTrue_set_fresh _ _ _ (fun l hl => Nat.ne_of_lt (h.fresh c hc l hl))]
      exact (cnfTrue_iff _ _).1 h1 c hc
  · simp only [assumpsTrue, List.all_append, Bool.and_eq_true]
    refine ⟨⟨?_, by simp⟩, ?_⟩
    · rw [List.all_eq_true]
      apply (inLits_true d _ must).2
      intro a ha hl
      rw [Asg.set_ne _ _ (hxv a hl), h3 a hl]; exact hmust a ha hl
    · rw [List.all_eq_true]
      intro l hl
      rw [litTrue_set_ne ν sel false (hasmv l hl)]
      exact List.all_eq_true.1 h2 l hl

theorem wp_block {C : Prop} {d : DState} {Γ : Cnf} {T F : Nat → Bool} {dirty : Nat → Prop}
    (h : EncInv d.af d.enc Γ T F dirty) (m : DMEC) (w : World) (Q : List Lit → World → Prop) :
    wp C (m.block d) w Q ↔
      Q (inLits d m.cur ++ [nl m.sel]) (w.onClause 0 (outLits d m.cur ++ [pl m.sel])) := by
  unfold DMEC.block
  rw [splitSparse_eq h]
  rfl

/-- a SAT call of the search under `must ∧ ¬selector` -/
theorem wp_dsolve {C : Prop} {d : DState} {sel : Nat} {Γ₀ : Cnf} {w : World} {blocked : List (List Nat)}
    (h : SInv d sel Γ₀ w blocked) {m : DMEC} (hadd : m.additional = d.enc.assumptions) (must : List Nat)
    (Q : Option (List Nat) → World → Prop)
    (hsat : ∀ ext w', SInv d sel Γ₀ w' blocked → d.af.g.Complete (ofList ext) →
      (∀ a ∈ ext, d.af.hasId a = true) → (∀ a ∈ must, d.af.hasId a = true → a ∈ ext) →
      (∀ E ∈ blocked, ¬ SubL (ofList ext) E) → Q (some ext) w')
    (hunsat : ∀ w', SInv d sel Γ₀ w' blocked →
      (∀ T, d.af.g.Complete T → (∀ a ∈ must, d.af.hasId a = true → T a = true) → ∃ E ∈ blocked, SubL T E) →
      Q none w') :
    wp C (m.solve d (inLits d must ++ [nl sel])) w Q := by
  obtain ⟨_, T', F', hI⟩ := h.clean
  unfold DMEC.solve
  simp only [Prog.bind_eq, hadd]
  rw [wp_bind]
  constructor
  · rintro mdl ⟨_, hΓ, hA⟩
    obtain ⟨h1, h2, h3⟩ := search_sat h must hΓ hA
    have hS := ext_eq_setOf hI mdl
    show wp C ((needLabels d.af (d.enc.extension mdl)).bind _) _ Q
    rw [wp_bind]
    apply wp_needLabels _ _ _ _ (argsWhere_live hI mdl _)
    intro _ _
    refine hsat _ _ (h.congr_db (W0_onSolve h.w0 _ _ _) (by simp)) (by rw [hS]; exact h1) ?_ ?_ (by rw [hS]; exact h3)
    · intro a ha
      have : ofList (d.enc.extension mdl) a = true := (ofList_mem _ a).2 ha
      rw [hS] at this
      exact h1.1.1.1 a this
    · intro a ha hl
      apply (ofList_mem _ a).1
      rw [hS]; exact h2 a ha hl
  · intro hun
    refine hunsat _ (h.congr_db (W0_onSolve h.w0 _ _ _) (by simp)) ?_
    intro T hT hmust
    exact search_unsat h must hun hT hmust

/-! ## the search: `compute_next` -/

/-! ## counting the sets of arguments that are not yet blocked -/

theorem countP_lt_of_imp {α : Type} {p q : α → Bool} : ∀ {l : List α}, (∀ x ∈ l, p x = true → q x = true) →
    ∀ {x : α}, x ∈ l → q x = true → p x = false → l.countP p < l.countP q
  | [], _, _, hx, _, _ => by cases hx
  | a :: t, h, x, hx, hq, hp => by
    have hle : t.countP p ≤ t.countP q :=
      List.countP_mono_left (fun y hy => h y (List.mem_cons_of_mem _ hy))
    rw [List.countP_cons, List.countP_cons]
    rcases List.mem_cons.1 hx with rfl | hx
    · simp only [hq, hp, if_true, Bool.false_eq_true, if_false]; omega
    · have := countP_lt_of_imp (fun y hy => h y (List.mem_cons_of_mem _ hy)) hx hq hp
      have h1 := h a List.mem_cons_self
      cases hpa : p a
      · simp only [Bool.false_eq_true, if_false]; omega
      · simp only [h1 hpa, if_true]; omega

/-- all Boolean vectors of a given length -/
def allVecs : Nat → List (List Bool)
  | 0 => [[]]
  | k + 1 => (allVecs k).map (fun v => false :: v) ++ (allVecs k).map (fun v => true :: v)

theorem allVecs_length : ∀ k, (allVecs k).length = 2 ^ k
  | 0 => rfl
  | k + 1 => by
    simp only [allVecs, List.length_append, List.length_map, allVecs_length k]
    rw [Nat.pow_succ]; omega

theorem mem_allVecs : ∀ (v : List Bool), v ∈ allVecs v.length
  | [] => by simp [allVecs]
  | b :: v => by
    have := mem_allVecs v
    simp only [List.length_cons, allVecs, List.mem_append, List.mem_map]
    cases b
    · exact Or.inl ⟨v, this, rfl⟩
    · exact Or.inr ⟨v, this, rfl⟩

/-- the set described by `v` (restricted to the ids below `L`) lies inside `E` -/
def vecSub (L : Nat) (v : List Bool) (E : List Nat) : Bool :=
  (List.range L).all (fun i => !(v.getD i false) || E.contains i)

def vecOf (L : Nat) (ext : List Nat) : List Bool := (List.range L).map (fun i => ext.contains i)

theorem vecOf_getD (L : Nat) (ext : List Nat) {i : Nat} (hi : i < L) : (vecOf L ext).getD i false = ext.contains i := by
  unfold vecOf
  rw [List.getD_eq_getElem?_getD, List.getElem?_map, List.getElem?_range hi]
  rfl

theorem vecSub_vecOf (L : Nat) (ext E : List Nat) :
    vecSub L (vecOf L ext) E = true ↔ ∀ i, i < L → i ∈ ext → i ∈ E := by
  unfold vecSub
  rw [List.all_eq_true]
  constructor
  · intro h i hi hie
    have := h i (List.mem_range.2 hi)
    rw [vecOf_getD L ext hi] at this
    simpa [hie] using this
  · intro h i hi
    have hi' := List.mem_range.1 hi
    rw [vecOf_getD L ext hi']
    cases hc : ext.contains i
    · rfl
    · simpa using h i hi' (List.contains_iff_mem.1 hc)

/-- the number of subsets of `{0, …, L-1}` that lie in no blocked set -/
def free (L : Nat) (blocked : List (List Nat)) : Nat :=
  (allVecs L).countP (fun v => blocked.all (fun E => !vecSub L v E))

theorem free_le (L : Nat) (blocked : List (List Nat)) : free L blocked ≤ 2 ^ L := by
  unfold free
  rw [← allVecs_length L]
  exact List.countP_le_length

theorem free_cons_le (L : Nat) (E : List Nat) (blocked : List (List Nat)) : free L (E :: blocked) ≤ free L blocked := by
  unfold free
  apply List.countP_mono_left
  intro v _ hv
  simp only [List.all_cons, Bool.and_eq_true] at hv
  exact hv.2

/-- blocking a set that lies in no blocked set makes the count drop -/
theorem free_cons_lt (L : Nat) (ext : List Nat) (blocked : List (List Nat)) (hlt : ∀ a ∈ ext, a < L)
    (hfresh : ∀ B ∈ blocked, ¬ (∀ a ∈ ext, a ∈ B)) : free L (ext :: blocked) < free L blocked := by
  unfold free
  have hlen : (vecOf L ext).length = L := by simp [vecOf]
  refine countP_lt_of_imp (x := vecOf L ext) ?_ (by have := mem_allVecs (vecOf L ext); rwa [hlen] at this) ?_ ?_
  · intro v _ hv
    simp only [List.all_cons, Bool.and_eq_true] at hv
    exact hv.2
  · rw [List.all_eq_true]
    intro B hB
    cases hs : vecSub L (vecOf L ext) B
    · rfl
    · exact absurd (fun a ha => (vecSub_vecOf L ext B).1 hs a (hlt a ha) ha) (hfresh B hB)
  · have : vecSub L (vecOf L ext) ext = true := (vecSub_vecOf L ext ext).2 (fun i _ h => h)
    simp [this]

/-- the set lies in no blocked set -/
def Fresh (cur : List Nat) (blocked : List (List Nat)) : Prop := ∀ B ∈ blocked, ¬ (∀ a ∈ cur, a ∈ B)

/-- every blocked set lies inside a complete extension that contains the queried argument -/
def AllTopD (g : G) (arg : Nat) (blocked : List (List Nat)) : Prop :=
  ∀ B ∈ blocked, ∃ D, g.Complete D ∧ (∀ a ∈ B, D a = true) ∧ D arg = true

structure DSk (d : DState) (sel : Nat) (Γ₀ : Cnf) (m : DMEC) (w : World) (blocked : List (List Nat))
    (arg : Nat) : Prop where
  sinv : SInv d sel Γ₀ w blocked
  cur_live : ∀ a ∈ m.cur, d.af.hasId a = true
  cur_co : d.af.g.Complete (ofList m.cur)
  sep : ∀ B ∈ blocked, (∀ a ∈ B, a ∈ m.cur) ∨ ¬ (∀ a ∈ m.cur, a ∈ B)
  top : ∀ B ∈ blocked,
    (∃ D, d.af.g.Complete D ∧ (∀ a ∈ B, D a = true) ∧ D arg = true) ∨ (∀ a ∈ B, a ∈ m.cur)

theorem DSk.congr_m {d : DState} {sel : Nat} {Γ₀ : Cnf} {m m' : DMEC} {w : World} {blocked : List (List Nat)}
    {arg : Nat} (h : DSk d sel Γ₀ m w blocked arg) (hcur : m'.cur = m.cur) : DSk d sel Γ₀ m' w blocked arg := by
  constructor
  · exact h.sinv
  · rw [hcur]; exact h.cur_live
  · rw [hcur]; exact h.cur_co
  · rw [hcur]; exact h.sep
  · rw [hcur]; exact h.top

theorem DSk.allTop_after_block {d : DState} {sel : Nat} {Γ₀ : Cnf} {m : DMEC} {w : World}
    {blocked : List (List Nat)} {arg : Nat} (h : DSk d sel Γ₀ m w blocked arg)
    (hhit : ofList m.cur arg = true) : AllTopD d.af.g arg (m.cur :: blocked) := by
  intro B hB
  rcases List.mem_cons.1 hB with rfl | hB
  · exact ⟨_, h.cur_co, fun a ha => (ofList_mem _ a).2 ha, hhit⟩
  · rcases h.top B hB with hD | hsub
    · exact hD
    · exact ⟨_, h.cur_co, fun a ha => (ofList_mem _ a).2 (hsub a ha), hhit⟩

/-- a fresh search (`¬selector` alone) when every blocked set has a top containing the argument -/
theorem wp_dNewSearch {C : Prop} {d : DState} {sel : Nat} {Γ₀ : Cnf} {w : World} {blocked : List (List Nat)} {arg : Nat}
    (hS : SInv d sel Γ₀ w blocked) {m : DMEC} (hsel : m.sel = sel) (hadd : m.additional = d.enc.assumptions)
    (htop : AllTopD d.af.g arg blocked) :
    wp C (m.newSearch d) w (fun m' w' => m'.sel = sel ∧ m'.additional = d.enc.assumptions ∧
      ((m'.state = .intermediate ∧ DSk d sel Γ₀ m' w' blocked arg ∧ Fresh m'.cur blocked) ∨
       (m'.state = .none ∧ SInv d sel Γ₀ w' blocked ∧ ∀ P, d.af.g.Preferred P → P arg = true))) := by
  unfold DMEC.newSearch
  simp only [Prog.bind_eq]
  rw [wp_bind]
  have happ : [nl m.sel] = inLits d [] ++ [nl sel] := by rw [inLits_nil, hsel]; rfl
  rw [happ]
  apply wp_dsolve hS hadd []
  · intro ext w' hS' hco hlive _ hblk
    have hfresh : Fresh ext blocked := fun B hB hsub =>
      hblk B hB (fun a ha => hsub a ((ofList_mem _ a).1 ha))
    refine ⟨hsel, hadd, Or.inl ⟨rfl, ⟨hS', hlive, hco, ?_, ?_⟩, hfresh⟩⟩
    · intro B hB
      exact Or.inr (hfresh B hB)
    · intro B hB; exact Or.inl (htop B hB)
  · intro w' hS' hun
    refine ⟨hsel, hadd, Or.inr ⟨rfl, hS', ?_⟩⟩
    intro P hP
    obtain ⟨E, hE, hPE⟩ := hun P (G.preferred_complete hP) (fun a ha => by cases ha)
    obtain ⟨D, hD, hED, hhit⟩ := htop E hE
    have hPD : SubsetS P D := fun a ha => hED a (hPE a ha)
    exact hP.2 D hD.1 hPD arg hhit

/-- the increase step from an intermediate set -/
theorem wp_dIncrease {C : Prop} {d : DState} {sel : Nat} {Γ₀ : Cnf} {m : DMEC} {w : World} {blocked : List (List Nat)}
    {arg : Nat} (h : DSk d sel Γ₀ m w blocked arg) (hsel : m.sel = sel)
    (hadd : m.additional = d.enc.assumptions) (hst : m.state = .intermediate)
    (hfin : ∃ n, ∀ a, d.af.g.live a = true → a < n) :
    wp C (m.computeNext d) w (fun m' w' => m'.sel = sel ∧ m'.additional = d.enc.assumptions ∧
      ((m'.state = .intermediate ∧ DSk d sel Γ₀ m' w' (m.cur :: blocked) arg ∧ Fresh m'.cur (m.cur :: blocked)) ∨
       (m'.state = .maximal ∧ m'.cur = m.cur ∧ DSk d sel Γ₀ m' w' (m.cur :: blocked) arg ∧
         d.af.g.Preferred (ofList m.cur)))) := by
  obtain ⟨_, T', F', hI⟩ := h.sinv.clean
  unfold DMEC.computeNext
  rw [hst]
  simp only [Prog.bind_eq]
  rw [wp_bind, wp_block hI, wp_bind, hsel]
  apply wp_dsolve (h.sinv.block m.cur) hadd m.cur
  · intro ext w' hS' hco hlive hmust hblk
    have hfresh : Fresh ext (m.cur :: blocked) := fun B hB hsub =>
      hblk B hB (fun a ha => hsub a ((ofList_mem _ a).1 ha))
    refine ⟨rfl, hadd, Or.inl ⟨rfl, ⟨hS', hlive, hco, ?_, ?_⟩, hfresh⟩⟩
    · intro B hB
      exact Or.inr (hfresh B hB)
    · intro B hB
      rcases List.mem_cons.1 hB with rfl | hB
      · exact Or.inr (fun a ha => hmust a ha (h.cur_live a ha))
      · rcases h.top B hB with hD | hsub
        · exact Or.inl hD
        · exact Or.inr (fun a ha => hmust a (hsub a ha) (h.cur_live a (hsub a ha)))
  · intro w' hS' hun
    have hpref : d.af.g.Preferred (ofList m.cur) := by
      apply G.preferred_of_max_complete hfin h.cur_co
      intro T hT hsub
      obtain ⟨E, hE, hTE⟩ := hun T hT (fun a ha _ => hsub a ((ofList_mem _ a).2 ha))
      intro a hTa
      apply (ofList_mem _ a).2
      rcases List.mem_cons.1 hE with rfl | hE
      · exact hTE a hTa
      · rcases h.sep E hE with h1 | h1
        · exact h1 a (hTE a hTa)
        · exact absurd (fun a ha => hTE a (hsub a ((ofList_mem _ a).2 ha))) h1
    refine ⟨rfl, hadd, Or.inr ⟨rfl, rfl, ⟨hS', h.cur_live, h.cur_co, ?_, ?_⟩, hpref⟩⟩
    · intro B hB
      rcases List.mem_cons.1 hB with rfl | hB
      · exact Or.inl (fun a ha => ha)
      · exact h.sep B hB
    · intro B hB
      rcases List.mem_cons.1 hB with rfl | hB
      · exact Or.inr (fun a ha => ha)
      · exact h.top B hB

/-- the number of iterations the loop may still need: three per set of arguments not yet blocked -/
def budget (d : DState) (blocked : List (List Nat)) : Nat := 3 * free d.af.labels.length blocked

theorem budget_le (d : DState) (blocked : List (List Nat)) : budget d blocked ≤ 3 * 2 ^ d.af.labels.length := by
  unfold budget
  have := free_le d.af.labels.length blocked
  omega

theorem budget_cons_le (d : DState) (E : List Nat) (blocked : List (List Nat)) :
    budget d (E :: blocked) ≤ budget d blocked := by
  unfold budget
  have := free_cons_le d.af.labels.length E blocked
  omega

theorem budget_cons_lt {d : DState} {cur : List Nat} {blocked : List (List Nat)}
    (hlive : ∀ a ∈ cur, d.af.hasId a = true) (hfresh : Fresh cur blocked) :
    budget d (cur :: blocked) + 3 ≤ budget d blocked := by
  unfold budget
  have := free_cons_lt d.af.labels.length cur blocked
    (fun a ha => by obtain ⟨l, hl⟩ := hasId_iff.1 (hlive a ha); exact live_lt hl) hfresh
  omega

/-- the states in which the loop starts an iteration; `n` bounds the number of iterations still
needed (each blocked set is a set of arguments of the framework and a set is blocked at most once
while it lies in no blocked set, so the search cannot run for ever) -/
def DL (d : DState) (sel : Nat) (Γ₀ : Cnf) (arg : Nat) (m : DMEC) (w : World) (n : Nat) : Prop :=
  m.sel = sel ∧ m.additional = d.enc.assumptions ∧
  ((m.state = .init ∧ SInv d sel Γ₀ w [] ∧ 3 * 2 ^ d.af.labels.length + 2 ≤ n) ∨
   (m.state = .intermediate ∧ ∃ blocked, DSk d sel Γ₀ m w blocked arg ∧ Fresh m.cur blocked ∧
      budget d blocked + 1 ≤ n) ∨
   (m.state = .justDiscarded ∧ ∃ blocked, SInv d sel Γ₀ w blocked ∧ AllTopD d.af.g arg blocked ∧
      budget d blocked + 2 ≤ n) ∨
   (m.state = .maximal ∧ ∃ blocked, DSk d sel Γ₀ m w blocked arg ∧ ofList m.cur arg = true ∧
      budget d blocked + 2 ≤ n))

theorem DL.pos {d : DState} {sel : Nat} {Γ₀ : Cnf} {arg : Nat} {m : DMEC} {w : World} {n : Nat}
    (h : DL d sel Γ₀ arg m w n) : 1 ≤ n := by
  obtain ⟨_, _, hcase⟩ := h
  rcases hcase with ⟨_, _, hn⟩ | ⟨_, _, _, _, hn⟩ | ⟨_, _, _, _, hn⟩ | ⟨_, _, _, _, hn⟩ <;> omega

/-- what `compute_next` leaves -/
def DAfter (d : DState) (sel : Nat) (Γ₀ : Cnf) (arg : Nat) (m' : DMEC) (w' : World) (n : Nat) : Prop :=
  m'.sel = sel ∧ m'.additional = d.enc.assumptions ∧
  ((m'.state = .intermediate ∧ ∃ blocked, DSk d sel Γ₀ m' w' blocked arg ∧ Fresh m'.cur blocked ∧
      budget d blocked + 2 ≤ n) ∨
   (m'.state = .maximal ∧ (∃ blocked, DSk d sel Γ₀ m' w' blocked arg ∧ budget d blocked + 3 ≤ n) ∧
      d.af.g.Preferred (ofList m'.cur)) ∨
   (m'.state = .none ∧ (∃ blocked, SInv d sel Γ₀ w' blocked) ∧ ∀ P, d.af.g.Preferred P → P arg = true))

theorem wp_dNext {C : Prop} {d : DState} {sel : Nat} {Γ₀ : Cnf} {arg : Nat} {m : DMEC} {w : World} {n : Nat}
    (hrows : d.af.RowsNodup) (h : DL d sel Γ₀ arg m w n) :
    wp C (m.computeNext d) w (fun m' w' => DAfter d sel Γ₀ arg m' w' n) := by
  obtain ⟨hsel, hadd, hcase⟩ := h
  rcases hcase with ⟨hst, hS, hn⟩ | ⟨hst, blocked, hS, hfr, hn⟩ | ⟨hst, blocked, hS, htop, hn⟩ |
    ⟨hst, blocked, hS, hhit, hn⟩
  · unfold DMEC.computeNext
    rw [hst]
    obtain ⟨hgr, _, hlive⟩ := groundedV_spec d.af.view d.af.g (Store.view_ok d.af hS.st_inv hrows)
    have hb := budget_le d []
    refine ⟨hsel, hadd, Or.inl ⟨rfl, [], ⟨hS, hlive, hgr.1, ?_, ?_⟩, ?_, by omega⟩⟩
    · intro B hB; cases hB
    · intro B hB; cases hB
    · intro B hB; cases hB
  · have hfin : ∃ n, ∀ a, d.af.g.live a = true → a < n :=
      ⟨d.af.labels.length, fun a ha => by obtain ⟨l, hl⟩ := hasId_iff.1 ha; exact live_lt hl⟩
    have hb := budget_cons_lt hS.cur_live hfr
    refine wp_mono _ _ _ _ ?_ (wp_dIncrease hS hsel hadd hst hfin)
    rintro m' w' ⟨hsel', hadd', hcase⟩
    rcases hcase with ⟨hst', hS', hfr'⟩ | ⟨hst', hcur, hS', hpref⟩
    · exact ⟨hsel', hadd', Or.inl ⟨hst', _, hS', hfr', by omega⟩⟩
    · exact ⟨hsel', hadd', Or.inr (Or.inl ⟨hst', ⟨_, hS', by omega⟩, by rw [hcur]; exact hpref⟩)⟩
  · unfold DMEC.computeNext
    rw [hst]
    refine wp_mono _ _ _ _ ?_ (wp_dNewSearch hS hsel hadd htop)
    rintro m' w' ⟨hsel', hadd', hcase⟩
    rcases hcase with ⟨hst', hS', hfr'⟩ | ⟨hst', hS', hall⟩
    · exact ⟨hsel', hadd', Or.inl ⟨hst', _, hS', hfr', hn⟩⟩
    · exact ⟨hsel', hadd', Or.inr (Or.inr ⟨hst', ⟨_, hS'⟩, hall⟩)⟩
  · obtain ⟨_, T', F', hI⟩ := hS.sinv.clean
    have hb := budget_cons_le d m.cur blocked
    unfold DMEC.computeNext
    rw [hst]
    simp only [Prog.bind_eq]
    rw [wp_bind, wp_block hI, hsel]
    refine wp_mono _ _ _ _ ?_ (wp_dNewSearch (hS.sinv.block m.cur) hsel hadd (hS.allTop_after_block hhit))
    rintro m' w' ⟨hsel', hadd', hcase⟩
    rcases hcase with ⟨hst', hS', hfr'⟩ | ⟨hst', hS', hall⟩
    · exact ⟨hsel', hadd', Or.inl ⟨hst', _, hS', hfr', by omega⟩⟩
    · exact ⟨hsel', hadd', Or.inr (Or.inr ⟨hst', ⟨_, hS'⟩, hall⟩)⟩

/-! ## the loop -/

theorem foldl_set_length {α : Type} (b : α) : ∀ (ids : List Nat) (v : List α),
    (ids.foldl (fun v a => v.set a b) v).length = v.length
  | [], v => rfl
  | a :: t, v => by simp only [List.foldl_cons]; rw [foldl_set_length b t]; simp

theorem foldl_set_true_getD : ∀ (ids : List Nat) (v : List Bool) (i : Nat),
    (ids.foldl (fun v a => v.set a true) v).getD i false = true ↔
      ((i ∈ ids ∧ i < v.length) ∨ v.getD i false = true)
  | [], v, i => by simp
  | a :: t, v, i => by
    simp only [List.foldl_cons]
    rw [foldl_set_true_getD t (v.set a true) i]
    simp only [List.length_set, List.mem_cons, List.getD_eq_getElem?_getD, List.getElem?_set]
    by_cases hia : a = i
    · subst hia
      by_cases hlt : a < v.length
      · simp [hlt]
      · simp [hlt]
    · have : ¬ i = a := fun h => hia h.symm
      simp [hia, this]

theorem boolVec_getD (len : Nat) (cur : List Nat) (i : Nat) :
    (boolVec len cur).getD i false = true ↔ (i ∈ cur ∧ i < len) := by
  unfold boolVec
  rw [foldl_set_true_getD]
  have hr : (List.replicate len false).getD i false = false := by
    rw [List.getD_eq_getElem?_getD, List.getElem?_replicate]
    split <;> rfl
  rw [hr]; simp

theorem foldl_set_false_getElem : ∀ (ids : List Nat) (v : List Bool) (i : Nat),
    (ids.foldl (fun v a => v.set a false) v)[i]? = some true → i ∉ ids ∧ v[i]? = some true
  | [], v, i, h => ⟨by simp, h⟩
  | a :: t, v, i, h => by
    simp only [List.foldl_cons] at h
    obtain ⟨h1, h2⟩ := foldl_set_false_getElem t (v.set a false) i h
    rw [List.getElem?_set] at h2
    by_cases hia : a = i
    · subst hia
      rw [if_pos rfl] at h2
      split at h2 <;> cases h2
    · rw [if_neg hia] at h2
      refine ⟨?_, h2⟩
      simp only [List.mem_cons, not_or]
      exact ⟨fun h => hia h.symm, h1⟩

/-- what the loop returns -/
def LoopPost (d : DState) (sel : Nat) (Γ₀ : Cnf) (arg : Nat)
    (r : DMEC × Bool × List Bool × List Bool × Option (List Nat)) (w' : World) : Prop :=
  r.1.sel = sel ∧ (∃ blocked, SInv d sel Γ₀ w' blocked) ∧
  ((r.2.1 = true ∧ r.2.2.2.2 = none ∧ ∀ P, d.af.g.Preferred P → P arg = true) ∨
   (r.2.1 = false ∧ r.2.2.1 = [] ∧ ∃ e, r.2.2.2.2 = some e ∧ d.af.g.Preferred (ofList e) ∧ arg ∉ e ∧
      ∀ i, r.2.2.2.1[i]? = some true → i ∉ e))

/-- **the loop of the preferred solver.**  `n` is the iteration budget of the starting state; the
model's fuel is never exhausted when it is at least `n` (and when a crash is tolerated, `C`, no fuel
is needed) -/
theorem wp_prLoop {C : Prop} {d : DState} {sel : Nat} {Γ₀ : Cnf} {arg len : Nat} (hrows : d.af.RowsNodup)
    (harg : arg < len) : ∀ (fuel : Nat) (m : DMEC) (st : PrSt) (w : World) (n : Nat), DL d sel Γ₀ arg m w n →
    (C ∨ n ≤ fuel) → wp C (prLoop d arg len fuel m st) w (LoopPost d sel Γ₀ arg)
  | 0, _, _, _, n, h, hf => by
    rcases hf with hc | hn
    · exact hc
    · have := h.pos; omega
  | fuel + 1, m, st, w, n, h, hf => by
    have hf' : C ∨ n - 1 ≤ fuel := hf.imp id (fun hn => by omega)
    unfold prLoop
    simp only [Prog.bind_eq]
    rw [wp_bind]
    refine wp_mono _ _ _ _ ?_ (wp_dNext hrows h)
    rintro m' w' ⟨hsel, hadd, hcase⟩
    rcases hcase with ⟨hst, blocked, hS, hfr, hn⟩ | ⟨hst, ⟨blocked, hS, hn⟩, hpref⟩ | ⟨hst, hex, hall⟩
    · -- intermediate
      rw [hst]
      simp only
      obtain ⟨_, T', F', hI⟩ := hS.sinv.clean
      by_cases hc : m'.cur.contains arg = true
      · have hb := budget_cons_lt hS.cur_live hfr
        rw [if_pos hc, wp_bind, wp_block hI, hsel]
        exact wp_prLoop hrows harg fuel _ _ _ (n - 1) ⟨rfl, hadd, Or.inr (Or.inr (Or.inl
          ⟨rfl, m'.cur :: blocked, hS.sinv.block m'.cur, hS.allTop_after_block hc, by omega⟩))⟩ hf'
      · rw [if_neg hc]
        exact wp_prLoop hrows harg fuel _ _ _ (n - 1)
          ⟨hsel, hadd, Or.inr (Or.inl ⟨hst, blocked, hS, hfr, by omega⟩)⟩ hf'
    · -- maximal
      rw [hst]
      simp only
      by_cases hm : (boolVec len m'.cur).getD arg false = true
      · rw [if_neg (by rw [hm]; simp)]
        exact wp_prLoop hrows harg fuel _ _ _ (n - 1) ⟨hsel, hadd, Or.inr (Or.inr (Or.inr
          ⟨hst, blocked, hS, (ofList_mem _ _).2 ((boolVec_getD _ _ _).1 hm).1, by omega⟩))⟩ hf'
      · have hm' : (boolVec len m'.cur).getD arg false = false := by
          cases hh : (boolVec len m'.cur).getD arg false
          · rfl
          · exact absurd hh hm
        rw [if_pos (by rw [hm']; rfl)]
        refine ⟨hsel, ⟨blocked, hS.sinv⟩, Or.inr ⟨rfl, rfl, m'.cur, rfl, hpref, ?_, ?_⟩⟩
        · intro hin; exact hm ((boolVec_getD _ _ _).2 ⟨hin, harg⟩)
        · intro i hi; exact (foldl_set_false_getElem _ _ _ hi).1
    · -- none
      rw [hst]
      exact ⟨hsel, hex, Or.inl ⟨rfl, rfl, hall⟩⟩

/-! ## the query -/

/-- the part of `prSkepQuery` that runs on an up-to-date encoding -/
def prSkepSolve (fuel : Nat) (d : DState) (l : Nat) : Prog (DState × AccAns) := do
  let nv ← getNVars 0
  let m : DMEC := { sel := nv + 1, additional := d.enc.assumptions }
  let argId ← needArg d.af l
  let len := 1 + (d.af.maxId.getD 0)
  let (m, res, accB, refB, ext) ← prLoop d argId len fuel m { missing := List.replicate len false }
  addClause 0 [pl m.sel]
  pure ({ d with buffer := d.buffer ++ [.skep (boolLabels d accB) (boolLabels d refB) ext] }, ⟨res, ext⟩)

theorem prSkepQuery_eq (fuel : Nat) (d : DState) (l : Nat) :
    prSkepQuery fuel d l =
      match cachedSkep d.buffer.reverse l with
      | (some b, some e) => fromCache d b e
      | _ => d.updateEncoding.bind fun d' => prSkepSolve fuel d' l := by
  unfold prSkepQuery
  generalize cachedSkep d.buffer.reverse l = c
  rcases c with ⟨_ | b, _ | e⟩ <;> rfl

theorem mem_boolLabels (d : DState) (v : List Bool) (l : Nat) :
    l ∈ boolLabels d v ↔ ∃ i, v[i]? = some true ∧ d.af.labelOf i = some l := by
  unfold boolLabels
  rw [List.mem_filterMap]
  constructor
  · rintro ⟨⟨b, i⟩, hq, hf⟩
    have hm := List.mem_zipIdx_iff_getElem?.1 hq
    simp only at hm hf
    cases b with
    | false => simp at hf
    | true => exact ⟨i, hm, by simpa using hf⟩
  · rintro ⟨i, hm, hlab⟩
    exact ⟨(true, i), List.mem_zipIdx_iff_getElem?.2 hm, by simpa using hlab⟩

theorem wp_prSkepSolve {C : Prop} (fuel : Nat) {d : DState} {w : World} (h : QInv .PR d w)
    (hsync : d.af = d.pending) (hnext : d.next = d.buffer.length) {l id : Nat} (hl : d.pending.Live id l)
    (hfuel : C ∨ 3 * 2 ^ d.pending.labels.length + 2 ≤ fuel) :
    wp C (prSkepSolve fuel d l) w (fun r w' => QInv .PR r.1 w' ∧ r.1.pending = d.pending ∧
      SkepOK .PR d.pending l r.2) := by
  have hpinv := h.pend_inv
  have hainv := h.dinv.af_inv
  obtain ⟨hs, T, F, hI⟩ := h.dinv.clean
  have hidl : d.af.hasId id = true := by rw [hsync]; exact hasId_iff.2 ⟨l, hl⟩
  have huniq : ∀ id', d.pending.Live id' l → id' = id := fun id' h' => hpinv.label_inj id' id l h' hl
  have hrows : d.af.RowsNodup := by rw [hsync]; exact h.pend_rows
  have harg : id < 1 + d.af.maxId.getD 0 := by
    have hlt : id < d.af.labels.length := by rw [hsync]; exact live_lt hl
    unfold Store.maxId
    cases hlab : d.af.labels with
    | nil => rw [hlab] at hlt; simp at hlt
    | cons a t => rw [hlab] at hlt; simp at hlt ⊢; omega
  unfold prSkepSolve
  simp only [Prog.bind_eq]
  rw [wp_bind, wp_getNVars, wp_bind, wp_needArg hainv (by rw [hsync]; exact hl), wp_bind]
  have hS0 : SInv d (w.nVarsOf 0 + 1) (w.db 0) (w.onNVars 0) [] := by
    refine ⟨W0_onNVars h.dinv.w0 0, hainv, ⟨hs, T, F, hI⟩, ?_, by simp⟩
    intro c hc lit hlit
    have := h.dinv.w0.db_le c hc lit hlit
    omega
  refine wp_mono _ _ _ _ ?_ (wp_prLoop (sel := w.nVarsOf 0 + 1) (Γ₀ := w.db 0) hrows harg fuel _ _ _
    (3 * 2 ^ d.af.labels.length + 2) ⟨rfl, rfl, Or.inl ⟨rfl, hS0, Nat.le_refl _⟩⟩ (by rw [hsync]; exact hfuel))
  rintro ⟨m, res, accB, refB, ext⟩ w2 ⟨hsel, ⟨blocked, hS⟩, hres⟩
  simp only at hsel hres
  simp only
  rw [wp_bind, wp_addClause, hsel]
  generalize hselv : w.nVarsOf 0 + 1 = sel at hS hres
  -- the encoding after the search
  have hnocc : ¬ Occurs (w.db 0) sel := by
    rintro ⟨c, hc, lit, hlit, hv⟩
    have := hS.fresh c hc lit hlit
    omega
  have hty : d.enc.ty sel = .ignored := by
    apply Classical.byContradiction
    intro hne
    exact hnocc (ty_occurs hI hne)
  have hF : F sel = false := by
    cases hFs : F sel
    · rfl
    · exact absurd (hI.ghostF sel hFs).2 hnocc
  have hdb3 : (w2.onClause 0 [pl sel]).db 0 =
      [pl sel] :: (blocked.map (fun E => outLits d E ++ [pl sel]) ++ w.db 0) := by
    rw [db_onClause_same, hS.db]
  have hclean : EInv .PR d.af (fun _ => False) d.enc (w2.onClause 0 [pl sel]) := by
    refine ⟨hs, _, F, inv_search_done (Γ' := (w2.onClause 0 [pl sel]).db 0) hI hty hF ?_ ?_ ?_⟩
    · intro c hc
      rw [hdb3]
      exact List.mem_cons_of_mem _ (List.mem_append_right _ hc)
    · intro c hc
      rw [hdb3] at hc
      rcases List.mem_cons.1 hc with rfl | hc
      · right; simp
      · rcases List.mem_append.1 hc with hc | hc
        · obtain ⟨E, _, rfl⟩ := List.mem_map.1 hc
          right; simp
        · exact Or.inl hc
    · rw [hdb3]
      exact ⟨[pl sel], List.mem_cons_self, pl sel, by simp, rfl⟩
  have hw3 : W0 (w2.onClause 0 [pl sel]) := W0_onClause hS.w0 _ _
  have hprefeq : ∀ S, IsExt .PR d.pending.g S ↔ d.af.g.Preferred S := by
    intro S; rw [hsync]; rfl
  refine ⟨QInv_push' h hw3 hclean hsync hnext rfl ?_, rfl, ?_⟩
  · -- the cached computation
    intro e he
    rcases hres with ⟨_, hnone, _⟩ | ⟨_, hacc, e', he', hpref, _, href⟩
    · rw [hnone] at he; cases he
    · rw [he'] at he; injection he with he; subst he
      refine ⟨(hprefeq _).2 hpref, ?_, ?_⟩
      · intro l' hl'
        rw [hacc] at hl'
        simp [boolLabels] at hl'
      · intro l' hl' id' hlive'
        obtain ⟨i, hi, hlab⟩ := (mem_boolLabels d refB l').1 hl'
        have hlive'' : d.pending.Live i l' := by rw [← hsync]; exact hlab
        have : i = id' := hpinv.label_inj i id' l' hlive'' hlive'
        subst this
        exact href i hi
  · -- the answer
    intro id' hl'
    rw [huniq id' hl']
    rcases hres with ⟨hr, hnone, hall⟩ | ⟨hr, _, e', he', hpref, hnot, _⟩
    · refine ⟨fun _ => ⟨hnone, fun S hS => hall S ((hprefeq S).1 hS)⟩, fun hf => ?_⟩
      rw [hr] at hf; cases hf
    · refine ⟨fun hf => ?_, fun _ => ⟨e', he', (hprefeq _).2 hpref, hnot⟩⟩
      rw [hr] at hf; cases hf

/-- the skeptical query of the preferred solver, with what a `crash` node counts as left open: when
crashes are not tolerated (`C = False`) the fuel of the model's loop must cover the iteration bound -/
theorem wp_prSkepQuery_gen {C : Prop} (fuel : Nat) {d : DState} {w : World} (h : QInv .PR d w) {l id : Nat}
    (hl : d.pending.Live id l) (hfuel : C ∨ 3 * 2 ^ d.pending.labels.length + 2 ≤ fuel) :
    wp C (prSkepQuery fuel d l) w (fun r w' => QInv .PR r.1 w' ∧ r.1.pending = d.pending ∧
      SkepOK .PR d.pending l r.2) := by
  rw [prSkepQuery_eq]
  split
  · rename_i b e hc
    obtain ⟨hb, c, hcm, acc, ref, hcc, hlref⟩ := cachedSkep_spec _ _ _ _ hc
    subst hb
    apply wp_fromCache h hcm hcc
    refine ⟨h, rfl, ?_⟩
    have hsound := h.cache c hcm
    have : IsExt .PR d.pending.g (ofList e) ∧ (∀ l ∈ ref, ∀ id, d.pending.Live id l → id ∉ e) := by
      rcases hcc with rfl | rfl
      · exact ⟨(hsound e rfl).1, (hsound e rfl).2.2⟩
      · exact ⟨(hsound e rfl).1, (hsound e rfl).2.2⟩
    intro id' hl'
    exact ⟨fun hf => by simp at hf, fun _ => ⟨e, rfl, this.1, this.2 l hlref id' hl'⟩⟩
  · rw [wp_bind]
    refine wp_mono _ _ _ _ ?_ (wp_updateEncoding h.dinv)
    rintro d' w' ⟨hd, haf, hp, hbuf, hn⟩
    have hq := QInv_of_update h hd hp hbuf
    have := wp_prSkepSolve (C := C) fuel hq (by rw [haf, hp]) (by rw [hn, hbuf]) (l := l) (id := id)
      (by rw [hp]; exact hl) (by rw [hp]; exact hfuel)
    rw [hp] at this
    exact this

/-- **the preferred dynamic solver**: a skeptical query answers for the pending framework, keeps the
solver invariant and caches a true computation.  (`hb` is implied by `h`, whose `DInv.w0` says that the
shared solver exists and that the world is bounded; it is kept so that the statement reads on its own.) -/
theorem wp_prSkepQuery (fuel : Nat) {d : DState} {w : World} (h : QInv .PR d w) (hb : w.Bounded) {l id : Nat}
    (hl : d.pending.Live id l) :
    wp True (prSkepQuery fuel d l) w (fun r w' => QInv .PR r.1 w' ∧ w'.Bounded ∧ r.1.pending = d.pending ∧
      SkepOK .PR d.pending l r.2) := by
  have _ := hb
  refine wp_mono _ _ _ _ ?_ (wp_prSkepQuery_gen fuel h hl (Or.inl trivial))
  rintro r w' ⟨h1, h2, h3⟩
  exact ⟨h1, h1.dinv.w0.2, h2, h3⟩

end Crusta.Dyn
