import Crusta.Spec.AF
import Crusta.Model.Store

/-! Parsing helpers for the line protocol (driver glue, in the trusted base of the correspondence). -/

namespace Driver
open Crusta

def toks (s : String) : List String := (s.splitOn " ").filter (fun t => !t.isEmpty)

def kvGet (ts : List String) (k : String) : Option String :=
  let pre := k ++ "="
  match ts.find? (fun t => t.startsWith pre) with
  | some t => some (t.drop pre.length).toString
  | none => none

def kvGetD (ts : List String) (k : String) (d : String) : String := (kvGet ts k).getD d

def natOf (s : String) : Nat := s.toNat?.getD 0

def natList (s : String) (sep : String := ",") : List Nat :=
  if s == "-" || s.isEmpty || s == "[]" then [] else (s.splitOn sep).filterMap (fun t => t.toNat?)

def pairOf (t : String) : Option (Nat × Nat) :=
  match t.splitOn ">" with
  | [a, b] => match a.toNat?, b.toNat? with
    | some x, some y => some (x, y)
    | _, _ => none
  | _ => none

def attList (s : String) : List (Nat × Nat) :=
  if s.isEmpty || s == "-" then [] else (s.splitOn ",").filterMap pairOf

def opOf (t : String) : Option StoreOp :=
  if t.isEmpty then none else
  let c := (t.take 1).toString
  let rest := (t.drop 1).toString
  if c == "A" then rest.toNat?.map StoreOp.newArg
  else if c == "R" then rest.toNat?.map StoreOp.remArg
  else if c == "+" then (pairOf rest).map (fun p => StoreOp.newAtt p.1 p.2)
  else if c == "-" then (pairOf rest).map (fun p => StoreOp.remAtt p.1 p.2)
  else none

def opsOf (s : String) : List StoreOp := (s.splitOn ";").filterMap opOf

def joinNat (l : List Nat) (sep : String) : String := sep.intercalate (l.map toString)

end Driver

namespace Driver
def stripEol (s : String) : String :=
  let cs := s.toList.reverse.dropWhile (fun c => c == '\n' || c == '\r')
  String.ofList cs.reverse
end Driver
