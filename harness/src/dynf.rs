//! Dynamic solver family (C08, C09): update histories interleaved with queries.
use crate::{fw, rec, util};
use crustabri::aa::AAFramework;
use crustabri::dynamics::assumptions_on_attacks::{
    DynamicCompleteSemanticsSolverAttacks, DynamicStableSemanticsSolverAttacks,
};
use crustabri::dynamics::{
    DummyDynamicConstraintsEncoder, DynamicCompleteSemanticsSolver, DynamicPreferredSemanticsSolver,
    DynamicSolver, DynamicStableSemanticsSolver,
};
use crustabri::solvers::{
    CompleteSemanticsSolver, CredulousAcceptanceComputer, GroundedSemanticsSolver, IdealSemanticsSolver,
    PreferredSemanticsSolver, SemiStableSemanticsSolver, SkepticalAcceptanceComputer,
    StableSemanticsSolver, StageSemanticsSolver,
};
use std::collections::HashMap;
use std::panic::{catch_unwind, AssertUnwindSafe};

pub enum DynS {
    Co(DynamicCompleteSemanticsSolver<usize>),
    St(DynamicStableSemanticsSolver<usize>),
    Pr(DynamicPreferredSemanticsSolver<usize>),
    CoAtt(DynamicCompleteSemanticsSolverAttacks<usize>),
    StAtt(DynamicStableSemanticsSolverAttacks<usize>),
    Dummy(DummyDynamicConstraintsEncoder<usize>),
}

fn dummy(sem: &str) -> DummyDynamicConstraintsEncoder<usize> {
    let s1 = sem.to_string();
    let s2 = sem.to_string();
    let cred: Option<Box<dyn for<'a> Fn(&'a AAFramework<usize>) -> Box<dyn CredulousAcceptanceComputer<usize> + 'a>>> =
        match sem {
            "PR" => None,
            _ => Some(Box::new(move |af| -> Box<dyn CredulousAcceptanceComputer<usize> + '_> {
                match s1.as_str() {
                    "GR" => Box::new(GroundedSemanticsSolver::new(af)),
                    "CO" => Box::new(CompleteSemanticsSolver::new_with_sat_solver_factory(af, rec::factory())),
                    "ST" => Box::new(StableSemanticsSolver::new_with_sat_solver_factory(af, rec::factory())),
                    "SST" => Box::new(SemiStableSemanticsSolver::new_with_sat_solver_factory(af, rec::factory())),
                    "STG" => Box::new(StageSemanticsSolver::new_with_sat_solver_factory(af, rec::factory())),
                    _ => Box::new(IdealSemanticsSolver::new_with_sat_solver_factory(af, rec::factory())),
                }
            })),
        };
    let skep: Option<Box<dyn for<'a> Fn(&'a AAFramework<usize>) -> Box<dyn SkepticalAcceptanceComputer<usize> + 'a>>> =
        match sem {
            "CO" => None,
            _ => Some(Box::new(move |af| -> Box<dyn SkepticalAcceptanceComputer<usize> + '_> {
                match s2.as_str() {
                    "GR" => Box::new(GroundedSemanticsSolver::new(af)),
                    "PR" => Box::new(PreferredSemanticsSolver::new_with_sat_solver_factory(af, rec::factory())),
                    "ST" => Box::new(StableSemanticsSolver::new_with_sat_solver_factory(af, rec::factory())),
                    "SST" => Box::new(SemiStableSemanticsSolver::new_with_sat_solver_factory(af, rec::factory())),
                    "STG" => Box::new(StageSemanticsSolver::new_with_sat_solver_factory(af, rec::factory())),
                    _ => Box::new(IdealSemanticsSolver::new_with_sat_solver_factory(af, rec::factory())),
                }
            })),
        };
    DummyDynamicConstraintsEncoder::new(cred, skep)
}

impl DynS {
    /// the convenience constructors (default SAT solver; `default_factor`: the default reservation factor)
    fn new_default(kind: &str, factor: f64, default_factor: bool) -> DynS {
        match kind {
            "co" => DynS::Co(DynamicCompleteSemanticsSolver::new()),
            "st" => DynS::St(DynamicStableSemanticsSolver::new()),
            "pr" => DynS::Pr(DynamicPreferredSemanticsSolver::new()),
            "co_att" if default_factor => DynS::CoAtt(DynamicCompleteSemanticsSolverAttacks::new()),
            "st_att" if default_factor => DynS::StAtt(DynamicStableSemanticsSolverAttacks::new()),
            "co_att" => DynS::CoAtt(DynamicCompleteSemanticsSolverAttacks::new_with_arg_factor(factor)),
            "st_att" => DynS::StAtt(DynamicStableSemanticsSolverAttacks::new_with_arg_factor(factor)),
            k => DynS::Dummy(dummy(&k[6..])),
        }
    }
    fn new(kind: &str, factor: f64) -> DynS {
        match kind {
            "co" => DynS::Co(DynamicCompleteSemanticsSolver::new_with_sat_solver_factory(rec::factory())),
            "st" => DynS::St(DynamicStableSemanticsSolver::new_with_sat_solver_factory(rec::factory())),
            "pr" => DynS::Pr(DynamicPreferredSemanticsSolver::new_with_sat_solver_factory(rec::factory())),
            "co_att" => DynS::CoAtt(DynamicCompleteSemanticsSolverAttacks::new_with_sat_solver_factory_and_arg_factor(rec::factory(), factor)),
            "st_att" => DynS::StAtt(DynamicStableSemanticsSolverAttacks::new_with_sat_solver_factory_and_arg_factor(rec::factory(), factor)),
            k => DynS::Dummy(dummy(&k[6..])),
        }
    }
    fn new_argument(&mut self, l: usize) {
        match self {
            DynS::Co(s) => s.new_argument(l),
            DynS::St(s) => s.new_argument(l),
            DynS::Pr(s) => s.new_argument(l),
            DynS::CoAtt(s) => s.new_argument(l),
            DynS::StAtt(s) => s.new_argument(l),
            DynS::Dummy(s) => s.new_argument(l),
        }
    }
    fn remove_argument(&mut self, l: &usize) -> bool {
        match self {
            DynS::Co(s) => s.remove_argument(l).is_ok(),
            DynS::St(s) => s.remove_argument(l).is_ok(),
            DynS::Pr(s) => s.remove_argument(l).is_ok(),
            DynS::CoAtt(s) => s.remove_argument(l).is_ok(),
            DynS::StAtt(s) => s.remove_argument(l).is_ok(),
            DynS::Dummy(s) => s.remove_argument(l).is_ok(),
        }
    }
    fn new_attack(&mut self, a: &usize, b: &usize) -> bool {
        match self {
            DynS::Co(s) => s.new_attack(a, b).is_ok(),
            DynS::St(s) => s.new_attack(a, b).is_ok(),
            DynS::Pr(s) => s.new_attack(a, b).is_ok(),
            DynS::CoAtt(s) => s.new_attack(a, b).is_ok(),
            DynS::StAtt(s) => s.new_attack(a, b).is_ok(),
            DynS::Dummy(s) => s.new_attack(a, b).is_ok(),
        }
    }
    fn remove_attack(&mut self, a: &usize, b: &usize) -> bool {
        match self {
            DynS::Co(s) => s.remove_attack(a, b).is_ok(),
            DynS::St(s) => s.remove_attack(a, b).is_ok(),
            DynS::Pr(s) => s.remove_attack(a, b).is_ok(),
            DynS::CoAtt(s) => s.remove_attack(a, b).is_ok(),
            DynS::StAtt(s) => s.remove_attack(a, b).is_ok(),
            DynS::Dummy(s) => s.remove_attack(a, b).is_ok(),
        }
    }
    /// (status, Some(cert slot)) with labels; cert slot None for the certificate-less entry point
    fn query(&mut self, cred: bool, cert: bool, l: &usize) -> (bool, Option<Option<Vec<(usize, usize)>>>) {
        let conv = |c: Option<Vec<&crustabri::aa::Argument<usize>>>| c.map(|v| v.iter().map(|a| (*a.label(), a.id())).collect::<Vec<_>>());
        macro_rules! q {
            ($s:expr) => {
                if cred {
                    if cert {
                        let (st, c) = $s.is_credulously_accepted_with_certificate(l);
                        (st, Some(conv(c)))
                    } else {
                        ($s.is_credulously_accepted(l), None)
                    }
                } else {
                    if cert {
                        let (st, c) = $s.is_skeptically_accepted_with_certificate(l);
                        (st, Some(conv(c)))
                    } else {
                        ($s.is_skeptically_accepted(l), None)
                    }
                }
            };
        }
        match self {
            DynS::Co(s) => q!(s),
            DynS::St(s) => q!(s),
            DynS::Pr(s) => q!(s),
            DynS::CoAtt(s) => q!(s),
            DynS::StAtt(s) => q!(s),
            DynS::Dummy(s) => q!(s),
        }
    }
}

/// `dyn <id> kind=co|st|pr|co_att|st_att|dummy_<SEM> [factor=f] [fault=k] hist=A1;+1>2;?dc1:5;?ds0:5;R1;...`
/// query token: `?dc<cert>:<label>` / `?ds<cert>:<label>`
pub fn run(_id: &str, p: &HashMap<String, String>, out: &mut Vec<String>) {
    let kind = p["kind"].as_str();
    let factor: f64 = p.get("factor").map(|s| s.parse().unwrap()).unwrap_or(2.0);
    let trace = p.get("trace").map(|s| s != "0").unwrap_or(false);
    // fault=k: the k-th SAT call of the whole history returns Unknown; the history stops at the call that unwinds
    let fault: usize = p.get("fault").map(|s| s.parse().unwrap()).unwrap_or(0);
    let cap: usize = p.get("cap").map(|s| s.parse().unwrap()).unwrap_or(200000);
    rec::reset(fault, cap, "cadical", trace);
    let mut shadow: AAFramework<usize> = AAFramework::default();
    let ctor = p.get("ctor").map(|s| s.as_str()).unwrap_or("");
    let mut s = match catch_unwind(AssertUnwindSafe(|| match ctor {
        "new" => DynS::new_default(kind, factor, true),
        "new_factor" => DynS::new_default(kind, factor, false),
        _ => DynS::new(kind, factor),
    })) {
        Ok(s) => s,
        Err(e) => {
            out.push(format!("panic {}", util::panic_msg(e)));
            out.push("end".to_string());
            return;
        }
    };
    out.extend(rec::take_log());
    for tok in p.get("hist").map(|s| s.as_str()).unwrap_or("").split(';').filter(|t| !t.is_empty()) {
        if let Some(q) = tok.strip_prefix('?') {
            let cred = &q[..2] == "dc";
            let cert = &q[2..3] == "1";
            let l: usize = q[4..].parse().unwrap();
            out.push(format!("Q {} {}", &q[..3], l));
            out.push(fw::dump_dense(&shadow));
            let r = catch_unwind(AssertUnwindSafe(|| s.query(cred, cert, &l)));
            out.extend(rec::take_log());
            match r {
                Ok((st, c)) => {
                    let dm = fw::dense_map(&shadow);
                    let cs = match &c {
                        None => "-".to_string(),
                        Some(None) => "NONE".to_string(),
                        Some(Some(v)) => {
                            if v.is_empty() {
                                "[]".to_string()
                            } else {
                                v.iter().map(|(lab, _)| dm.get(lab).map(|d| d.to_string()).unwrap_or(format!("?{}", lab))).collect::<Vec<_>>().join(",")
                            }
                        }
                    };
                    let mem = match &c {
                        Some(Some(v)) => v.iter().all(|(lab, id)| shadow.argument_set().get_argument(lab).map(|a| a.id() == *id).unwrap_or(false)),
                        _ => true,
                    };
                    out.push(format!("ans ACC status={} cert={} members={}", if st { "YES" } else { "NO" }, cs, if mem { 1 } else { 0 }));
                }
                Err(e) => {
                    out.push(format!("panic {}", util::panic_msg(e)));
                    if fault > 0 {
                        break;
                    }
                }
            }
        } else {
            let op = &fw::parse_ops(tok)[0];
            let expect = fw::apply_op(&mut shadow, op);
            let r = catch_unwind(AssertUnwindSafe(|| match op {
                fw::Op::NewArg(l) => {
                    s.new_argument(*l);
                    true
                }
                fw::Op::RemArg(l) => s.remove_argument(l),
                fw::Op::NewAtt(a, b) => s.new_attack(a, b),
                fw::Op::RemAtt(a, b) => s.remove_attack(a, b),
            }));
            out.extend(rec::take_log());
            match r {
                Ok(b) => out.push(format!("U {} {} expect={}", tok, if b { "ok" } else { "err" }, if expect { "ok" } else { "err" })),
                Err(e) => out.push(format!("U {} panic {}", tok, util::panic_msg(e))),
            }
        }
    }
    out.push("end".to_string());
}
