import Crusta.Model.Rx
import Crusta.Model.Readers

/-!
# Denotational semantics of the regular expressions of `Crusta.Rx`

`Matches r s` : the *whole* string `s` (a list of code points) belongs to the language of `r`
(the translator strips the anchors `^ … $` of the source patterns and insists on their presence,
so whole-string matching is the semantics of `Regex::is_match` on them).

`MatchesG r s gs` : moreover `gs` is the list of the substrings matched by the capturing groups of
`r`, in the order of their opening parentheses.  It is the intended relation only for patterns whose
groups are not under a `*` / `+` (`GroupsFlat`, decidable; proved for the four patterns in
`RxApx.lean`): under a repetition a group would report its last iteration, which is not modelled
(`star`/`plus` contribute no capture).  `MatchesG` says nothing about *which* of several possible
captures the regex crate reports (leftmost-first); `RxApx.lean` proves that for the patterns of the
reader the capture is unique, so that the question does not arise.

Character classes: `\s` = `IO.isWs` (Unicode White_Space table regenerated from regex-syntax),
`\d` = `IO.isDigitU` (Decimal_Number table), `[:alpha:]` = `IO.isAlphaA` (ASCII letters),
`.` = any code point but `\n` (10).
-/

namespace Crusta.Rx
open Crusta.IO

/-! ## atoms and classes -/

def Atom.holds : Atom → Nat → Bool
  | .ws, c => isWs c
  | .digit, c => isDigitU c
  | .alpha, c => isAlphaA c
  | .ch d, c => c == d

/-- `[items]` (`neg = false`) or `[^items]` (`neg = true`) -/
def clsHolds (neg : Bool) (items : List Atom) (c : Nat) : Bool :=
  (items.any (fun a => a.holds c)) != neg

/-! ## whole-string matching -/

inductive Matches : Rx → Str → Prop
  | eps : Matches .eps []
  | chr (c : Nat) : Matches (.chr c) [c]
  | any {c : Nat} : c ≠ 10 → Matches .anyNoNl [c]
  | cls {neg : Bool} {items : List Atom} {c : Nat} :
      clsHolds neg items c = true → Matches (.cls neg items) [c]
  | cat {a b : Rx} {s t : Str} : Matches a s → Matches b t → Matches (.cat a b) (s ++ t)
  | starNil {r : Rx} : Matches (.star r) []
  | starCons {r : Rx} {s t : Str} : Matches r s → Matches (.star r) t → Matches (.star r) (s ++ t)
  | plus {r : Rx} {s t : Str} : Matches r s → Matches (.star r) t → Matches (.plus r) (s ++ t)
  | grp {r : Rx} {s : Str} : Matches r s → Matches (.grp r) s

/-! ## capturing groups -/

def hasGroup : Rx → Bool
  | .cat a b => hasGroup a || hasGroup b
  | .star r => hasGroup r
  | .plus r => hasGroup r
  | .grp _ => true
  | _ => false

def numGroups : Rx → Nat
  | .cat a b => numGroups a + numGroups b
  | .star r => numGroups r
  | .plus r => numGroups r
  | .grp r => 1 + numGroups r
  | _ => 0

/-- no capturing group under a repetition -/
def GroupsFlat : Rx → Bool
  | .cat a b => GroupsFlat a && GroupsFlat b
  | .star r => !hasGroup r
  | .plus r => !hasGroup r
  | .grp r => GroupsFlat r
  | _ => true

/-- matching with the substrings of the capturing groups (opening-parenthesis order); meaningful
for `GroupsFlat` patterns -/
inductive MatchesG : Rx → Str → List Str → Prop
  | eps : MatchesG .eps [] []
  | chr (c : Nat) : MatchesG (.chr c) [c] []
  | any {c : Nat} : c ≠ 10 → MatchesG .anyNoNl [c] []
  | cls {neg : Bool} {items : List Atom} {c : Nat} :
      clsHolds neg items c = true → MatchesG (.cls neg items) [c] []
  | cat {a b : Rx} {s t : Str} {g g' : List Str} :
      MatchesG a s g → MatchesG b t g' → MatchesG (.cat a b) (s ++ t) (g ++ g')
  | star {r : Rx} {s : Str} : Matches (.star r) s → MatchesG (.star r) s []
  | plus {r : Rx} {s : Str} : Matches (.plus r) s → MatchesG (.plus r) s []
  | grp {r : Rx} {s : Str} {g : List Str} : MatchesG r s g → MatchesG (.grp r) s (s :: g)

/-! ## inversion lemmas for `Matches` -/

theorem matches_eps {s : Str} : Matches .eps s ↔ s = [] := by
  constructor
  · intro h; cases h; rfl
  · rintro rfl; exact .eps

theorem matches_chr {c : Nat} {s : Str} : Matches (.chr c) s ↔ s = [c] := by
  constructor
  · intro h; cases h; rfl
  · rintro rfl; exact .chr c

theorem matches_any {s : Str} : Matches .anyNoNl s ↔ ∃ c, s = [c] ∧ c ≠ 10 := by
  constructor
  · intro h; cases h with | any hc => exact ⟨_, rfl, hc⟩
  · rintro ⟨c, rfl, hc⟩; exact .any hc

theorem matches_cls {neg : Bool} {items : List Atom} {s : Str} :
    Matches (.cls neg items) s ↔ ∃ c, s = [c] ∧ clsHolds neg items c = true := by
  constructor
  · intro h; cases h with | cls hc => exact ⟨_, rfl, hc⟩
  · rintro ⟨c, rfl, hc⟩; exact .cls hc

theorem matches_cat {a b : Rx} {s : Str} :
    Matches (.cat a b) s ↔ ∃ s1 s2, s = s1 ++ s2 ∧ Matches a s1 ∧ Matches b s2 := by
  constructor
  · intro h; cases h with | cat ha hb => exact ⟨_, _, rfl, ha, hb⟩
  · rintro ⟨s1, s2, rfl, ha, hb⟩; exact .cat ha hb

theorem matches_grp {r : Rx} {s : Str} : Matches (.grp r) s ↔ Matches r s := by
  constructor
  · intro h; cases h with | grp h => exact h
  · exact .grp

/-- unfolding of `r*` -/
theorem matches_star {r : Rx} {s : Str} :
    Matches (.star r) s ↔ s = [] ∨ ∃ s1 s2, s = s1 ++ s2 ∧ Matches r s1 ∧ Matches (.star r) s2 := by
  constructor
  · intro h
    cases h with
    | starNil => exact .inl rfl
    | starCons h1 h2 => exact .inr ⟨_, _, rfl, h1, h2⟩
  · rintro (rfl | ⟨s1, s2, rfl, h1, h2⟩)
    · exact .starNil
    · exact .starCons h1 h2

/-- `r+` = `r r*` -/
theorem matches_plus {r : Rx} {s : Str} :
    Matches (.plus r) s ↔ ∃ s1 s2, s = s1 ++ s2 ∧ Matches r s1 ∧ Matches (.star r) s2 := by
  constructor
  · intro h; cases h with | plus h1 h2 => exact ⟨_, _, rfl, h1, h2⟩
  · rintro ⟨s1, s2, rfl, h1, h2⟩; exact .plus h1 h2

theorem matches_plus_cat_star {r : Rx} {s : Str} :
    Matches (.plus r) s ↔ Matches (.cat r (.star r)) s := by
  rw [matches_plus, matches_cat]

/-- induction principle for `r*` -/
theorem star_induction {r : Rx} {Q : Str → Prop} (h0 : Q [])
    (h1 : ∀ s t, Matches r s → Matches (.star r) t → Q t → Q (s ++ t)) :
    ∀ {s}, Matches (.star r) s → Q s := by
  intro s h
  generalize hr : Rx.star r = r' at h
  induction h with
  | starNil => exact h0
  | starCons hs ht _ ih2 => cases hr; exact h1 _ _ hs ht (ih2 rfl)
  | _ => cases hr

/-- `r*` is the set of the concatenations of matches of `r` -/
theorem matches_star_flatten {r : Rx} {s : Str} :
    Matches (.star r) s ↔ ∃ ss : List Str, s = ss.flatten ∧ ∀ x ∈ ss, Matches r x := by
  constructor
  · intro h
    refine star_induction (Q := fun s => ∃ ss : List Str, s = ss.flatten ∧ ∀ x ∈ ss, Matches r x)
      ⟨[], rfl, by simp⟩ ?_ h
    rintro s t hs _ ⟨ss, rfl, hss⟩
    refine ⟨s :: ss, by simp, ?_⟩
    intro x hx
    rcases List.mem_cons.1 hx with rfl | hx
    · exact hs
    · exact hss x hx
  · rintro ⟨ss, rfl, hss⟩
    induction ss with
    | nil => exact .starNil
    | cons x xs ih =>
      rw [List.flatten_cons]
      exact .starCons (hss x (List.mem_cons_self ..)) (ih (fun y hy => hss y (List.mem_cons_of_mem _ hy)))

/-- a repetition of a one-code-point pattern -/
theorem matches_star_single {r : Rx} {P : Nat → Bool}
    (hr : ∀ x, Matches r x ↔ ∃ c, x = [c] ∧ P c = true) {s : Str} :
    Matches (.star r) s ↔ s.all P = true := by
  constructor
  · intro h
    refine star_induction (Q := fun s => s.all P = true) rfl ?_ h
    intro s t hs _ ht
    obtain ⟨c, rfl, hc⟩ := (hr s).1 hs
    simp [hc, ht]
  · intro h
    induction s with
    | nil => exact .starNil
    | cons c cs ih =>
      simp only [List.all_cons, Bool.and_eq_true] at h
      exact .starCons (s := [c]) ((hr [c]).2 ⟨c, rfl, h.1⟩) (ih h.2)

/-- `[...]*` ↔ `List.all` -/
theorem matches_star_cls {neg : Bool} {items : List Atom} {s : Str} :
    Matches (.star (.cls neg items)) s ↔ s.all (clsHolds neg items) = true :=
  matches_star_single (fun _ => matches_cls)

/-- `[...]+` ↔ non-empty and `List.all` -/
theorem matches_plus_cls {neg : Bool} {items : List Atom} {s : Str} :
    Matches (.plus (.cls neg items)) s ↔ s ≠ [] ∧ s.all (clsHolds neg items) = true := by
  rw [matches_plus]
  constructor
  · rintro ⟨s1, s2, rfl, h1, h2⟩
    obtain ⟨c, rfl, hc⟩ := matches_cls.1 h1
    refine ⟨by simp, ?_⟩
    simp [hc, matches_star_cls.1 h2]
  · rintro ⟨hne, h⟩
    cases s with
    | nil => exact absurd rfl hne
    | cons c cs =>
      simp only [List.all_cons, Bool.and_eq_true] at h
      exact ⟨[c], cs, rfl, matches_cls.2 ⟨c, rfl, h.1⟩, matches_star_cls.2 h.2⟩

/-- a literal code point followed by the rest -/
theorem matches_chr_cat {c : Nat} {b : Rx} {s : Str} :
    Matches (.cat (.chr c) b) s ↔ ∃ t, s = c :: t ∧ Matches b t := by
  rw [matches_cat]
  constructor
  · rintro ⟨s1, s2, rfl, h1, h2⟩; rw [matches_chr.1 h1]; exact ⟨s2, rfl, h2⟩
  · rintro ⟨t, rfl, h⟩; exact ⟨[c], t, rfl, .chr c, h⟩

/-- `[...]*` followed by the rest -/
theorem matches_starcls_cat {neg : Bool} {items : List Atom} {b : Rx} {s : Str} :
    Matches (.cat (.star (.cls neg items)) b) s ↔
      ∃ u t, s = u ++ t ∧ u.all (clsHolds neg items) = true ∧ Matches b t := by
  simp only [matches_cat, matches_star_cls]

/-- `[...]+` followed by the rest -/
theorem matches_pluscls_cat {neg : Bool} {items : List Atom} {b : Rx} {s : Str} :
    Matches (.cat (.plus (.cls neg items)) b) s ↔
      ∃ u t, s = u ++ t ∧ (u ≠ [] ∧ u.all (clsHolds neg items) = true) ∧ Matches b t := by
  simp only [matches_cat, matches_plus_cls]

/-- `[...]` followed by the rest -/
theorem matches_cls_cat {neg : Bool} {items : List Atom} {b : Rx} {s : Str} :
    Matches (.cat (.cls neg items) b) s ↔
      ∃ c t, s = c :: t ∧ clsHolds neg items c = true ∧ Matches b t := by
  rw [matches_cat]
  constructor
  · rintro ⟨s1, s2, rfl, h1, h2⟩
    obtain ⟨c, rfl, hc⟩ := matches_cls.1 h1
    exact ⟨c, s2, rfl, hc, h2⟩
  · rintro ⟨c, t, rfl, hc, h⟩; exact ⟨[c], t, rfl, matches_cls.2 ⟨c, rfl, hc⟩, h⟩

/-- `.` followed by the rest -/
theorem matches_any_cat {b : Rx} {s : Str} :
    Matches (.cat .anyNoNl b) s ↔ ∃ c t, s = c :: t ∧ c ≠ 10 ∧ Matches b t := by
  rw [matches_cat]
  constructor
  · rintro ⟨s1, s2, rfl, h1, h2⟩
    obtain ⟨c, rfl, hc⟩ := matches_any.1 h1
    exact ⟨c, s2, rfl, hc, h2⟩
  · rintro ⟨c, t, rfl, hc, h⟩; exact ⟨[c], t, rfl, matches_any.2 ⟨c, rfl, hc⟩, h⟩

/-! ## `MatchesG` -/

theorem MatchesG.matches {r : Rx} {s : Str} {gs : List Str} (h : MatchesG r s gs) : Matches r s := by
  induction h with
  | eps => exact .eps
  | chr c => exact .chr c
  | any hc => exact .any hc
  | cls hc => exact .cls hc
  | cat _ _ iha ihb => exact .cat iha ihb
  | star h => exact h
  | plus h => exact h
  | grp _ ih => exact .grp ih

theorem Matches.exists_groups {r : Rx} {s : Str} (h : Matches r s) : ∃ gs, MatchesG r s gs := by
  induction h with
  | eps => exact ⟨_, .eps⟩
  | chr c => exact ⟨_, .chr c⟩
  | any hc => exact ⟨_, .any hc⟩
  | cls hc => exact ⟨_, .cls hc⟩
  | cat _ _ iha ihb =>
    obtain ⟨g, hg⟩ := iha; obtain ⟨g', hg'⟩ := ihb; exact ⟨_, .cat hg hg'⟩
  | starNil => exact ⟨_, .star .starNil⟩
  | starCons h1 h2 _ _ => exact ⟨_, .star (.starCons h1 h2)⟩
  | plus h1 h2 _ _ => exact ⟨_, .plus (.plus h1 h2)⟩
  | grp _ ih => obtain ⟨g, hg⟩ := ih; exact ⟨_, .grp hg⟩

/-- `Matches` is `MatchesG` without the captures -/
theorem matches_iff_exists_groups {r : Rx} {s : Str} : Matches r s ↔ ∃ gs, MatchesG r s gs :=
  ⟨Matches.exists_groups, fun ⟨_, h⟩ => h.matches⟩

/-- on a pattern without group, `MatchesG` is `Matches` with no capture -/
theorem matchesG_of_noGroup {r : Rx} (hr : hasGroup r = false) {s : Str} {gs : List Str} :
    MatchesG r s gs ↔ Matches r s ∧ gs = [] := by
  constructor
  · intro h
    refine ⟨h.matches, ?_⟩
    induction h with
    | cat _ _ iha ihb =>
      simp only [hasGroup, Bool.or_eq_false_iff] at hr
      rw [iha hr.1, ihb hr.2]; rfl
    | grp _ _ => simp [hasGroup] at hr
    | _ => rfl
  · rintro ⟨h, rfl⟩
    induction h with
    | eps => exact .eps
    | chr c => exact .chr c
    | any hc => exact .any hc
    | cls hc => exact .cls hc
    | cat _ _ iha ihb =>
      simp only [hasGroup, Bool.or_eq_false_iff] at hr
      exact .cat (g := []) (g' := []) (iha hr.1) (ihb hr.2)
    | starNil => exact .star .starNil
    | starCons h1 h2 _ _ => exact .star (.starCons h1 h2)
    | plus h1 h2 _ _ => exact .plus (.plus h1 h2)
    | grp _ _ => simp [hasGroup] at hr

/-- the number of captures is the number of groups (for `GroupsFlat` patterns) -/
theorem MatchesG.length_groups {r : Rx} {s : Str} {gs : List Str} (h : MatchesG r s gs)
    (hf : GroupsFlat r = true) : gs.length = numGroups r := by
  induction h with
  | cat _ _ iha ihb =>
    simp only [GroupsFlat, Bool.and_eq_true] at hf
    simp [numGroups, iha hf.1, ihb hf.2]
  | grp _ ih =>
    simp only [GroupsFlat] at hf
    simp [numGroups, ih hf]; omega
  | @star r _ _ =>
    have hg : hasGroup r = false := by simpa [GroupsFlat] using hf
    have : ∀ r, hasGroup r = false → numGroups r = 0 := by
      intro r; induction r <;> simp_all [hasGroup, numGroups]
    simp [numGroups, this r hg]
  | @plus r _ _ =>
    have hg : hasGroup r = false := by simpa [GroupsFlat] using hf
    have : ∀ r, hasGroup r = false → numGroups r = 0 := by
      intro r; induction r <;> simp_all [hasGroup, numGroups]
    simp [numGroups, this r hg]
  | _ => rfl

theorem matchesG_cat {a b : Rx} {s : Str} {gs : List Str} :
    MatchesG (.cat a b) s gs ↔
      ∃ s1 s2 g1 g2, s = s1 ++ s2 ∧ gs = g1 ++ g2 ∧ MatchesG a s1 g1 ∧ MatchesG b s2 g2 := by
  constructor
  · intro h; cases h with | cat ha hb => exact ⟨_, _, _, _, rfl, rfl, ha, hb⟩
  · rintro ⟨s1, s2, g1, g2, rfl, rfl, ha, hb⟩; exact .cat ha hb

theorem matchesG_grp {r : Rx} {s : Str} {gs : List Str} :
    MatchesG (.grp r) s gs ↔ ∃ g, gs = s :: g ∧ MatchesG r s g := by
  constructor
  · intro h; cases h with | grp h => exact ⟨_, rfl, h⟩
  · rintro ⟨g, rfl, h⟩; exact .grp h

/-- a group-free prefix contributes no capture -/
theorem matchesG_cat_noGroup_left {a b : Rx} (ha : hasGroup a = false) {s : Str} {gs : List Str} :
    MatchesG (.cat a b) s gs ↔ ∃ s1 s2, s = s1 ++ s2 ∧ Matches a s1 ∧ MatchesG b s2 gs := by
  rw [matchesG_cat]
  constructor
  · rintro ⟨s1, s2, g1, g2, rfl, rfl, h1, h2⟩
    obtain ⟨h1', rfl⟩ := (matchesG_of_noGroup ha).1 h1
    exact ⟨s1, s2, rfl, h1', h2⟩
  · rintro ⟨s1, s2, rfl, h1, h2⟩
    exact ⟨s1, s2, [], gs, rfl, rfl, (matchesG_of_noGroup ha).2 ⟨h1, rfl⟩, h2⟩

/-- a group (with a group-free body) followed by the rest: the capture is the matched substring -/
theorem matchesG_grp_cat {a b : Rx} (ha : hasGroup a = false) {s : Str} {gs : List Str} :
    MatchesG (.cat (.grp a) b) s gs ↔
      ∃ g t gs', s = g ++ t ∧ gs = g :: gs' ∧ Matches a g ∧ MatchesG b t gs' := by
  rw [matchesG_cat]
  constructor
  · rintro ⟨s1, s2, g1, g2, rfl, rfl, h1, h2⟩
    obtain ⟨g, rfl, h1'⟩ := matchesG_grp.1 h1
    obtain ⟨h1'', rfl⟩ := (matchesG_of_noGroup ha).1 h1'
    exact ⟨s1, s2, g2, rfl, rfl, h1'', h2⟩
  · rintro ⟨g, t, gs', rfl, rfl, h1, h2⟩
    exact ⟨g, t, [g], gs', rfl, rfl, matchesG_grp.2 ⟨[], rfl, (matchesG_of_noGroup ha).2 ⟨h1, rfl⟩⟩, h2⟩

/-- a literal code point followed by the rest -/
theorem matchesG_chr_cat {c : Nat} {b : Rx} {s : Str} {gs : List Str} :
    MatchesG (.cat (.chr c) b) s gs ↔ ∃ t, s = c :: t ∧ MatchesG b t gs := by
  rw [matchesG_cat_noGroup_left (by rfl)]
  constructor
  · rintro ⟨s1, s2, rfl, h1, h2⟩; rw [matches_chr.1 h1]; exact ⟨s2, rfl, h2⟩
  · rintro ⟨t, rfl, h⟩; exact ⟨[c], t, rfl, .chr c, h⟩

/-- `[...]*` followed by the rest -/
theorem matchesG_starcls_cat {neg : Bool} {items : List Atom} {b : Rx} {s : Str} {gs : List Str} :
    MatchesG (.cat (.star (.cls neg items)) b) s gs ↔
      ∃ u t, s = u ++ t ∧ u.all (clsHolds neg items) = true ∧ MatchesG b t gs := by
  rw [matchesG_cat_noGroup_left (by rfl)]
  simp only [matches_star_cls]

end Crusta.Rx
