import Crusta.Model.Sat

/-!
# SAT wrapper theorems (C15, C16)
-/

namespace Crusta.Sat
open Crusta Crusta.IO

/-! ## the clause buffer -/

inductive BOp
  | add (c : Clause)
  | reserve (n : Nat)
  | solve (as : List Lit)
deriving Repr

def Buffered.apply (b : Buffered) : BOp → Buffered
  | .add c => b.addClause c
  | .reserve n => b.reserve n
  | .solve as => b.withAssumptions as

/-- every variable of every clause is within `nVars` -/
def Buffered.Inv (b : Buffered) : Prop := ∀ c ∈ b.clauses, ∀ l ∈ c, l.var ≤ b.nVars

theorem foldl_max_ge (l : List Lit) (m : Nat) : m ≤ l.foldl (fun m x => max m x.var) m := by
  induction l generalizing m with
  | nil => simp
  | cons a as ih => simp only [List.foldl_cons]; exact Nat.le_trans (Nat.le_max_left _ _) (ih _)

theorem foldl_max_mem (l : List Lit) (m : Nat) (x : Lit) (hx : x ∈ l) :
    x.var ≤ l.foldl (fun m x => max m x.var) m := by
  induction l generalizing m with
  | nil => cases hx
  | cons a as ih =>
    simp only [List.foldl_cons]
    rcases List.mem_cons.1 hx with rfl | h
    · exact Nat.le_trans (Nat.le_max_right _ _) (foldl_max_ge _ _)
    · exact ih _ h

theorem Buffered.inv_apply (b : Buffered) (op : BOp) (h : b.Inv) : (b.apply op).Inv := by
  cases op with
  | add c =>
    intro c' hc' l hl
    simp only [Buffered.apply, Buffered.addClause, List.mem_append, List.mem_singleton] at hc' ⊢
    rcases hc' with hc' | rfl
    · exact Nat.le_trans (h c' hc' l hl) (foldl_max_ge _ _)
    · exact foldl_max_mem _ _ l hl
  | reserve n =>
    intro c hc l hl
    simp only [Buffered.apply, Buffered.reserve] at hc ⊢
    by_cases hn : n > b.nVars
    · simp only [hn, if_true] at hc ⊢; exact Nat.le_trans (h c hc l hl) (Nat.le_of_lt hn)
    · simp only [hn, if_false] at hc ⊢; exact h c hc l hl
  | solve as =>
    intro c hc l hl
    simp only [Buffered.apply, Buffered.withAssumptions] at hc ⊢
    exact Nat.le_trans (h c hc l hl) (foldl_max_ge _ _)

theorem Buffered.inv_reachable (ops : List BOp) : (ops.foldl Buffered.apply {}).Inv := by
  have : ∀ (b : Buffered), b.Inv → (ops.foldl Buffered.apply b).Inv := by
    induction ops with
    | nil => intro b h; exact h
    | cons o os ih => intro b h; exact ih _ (b.inv_apply o h)
  exact this {} (fun c hc => by cases hc)

/-- **well-formed instance (C16)**: for every history of clause additions, reservations and earlier
solve calls, the instance handed to the external solver for a call with assumptions `as` announces
exactly the number of clause lines it contains, and a variable count that covers every variable of
every clause *and of every assumption*. -/
theorem dimacs_wellformed (ops : List BOp) (as : List Lit) :
    let b := (ops.foldl Buffered.apply {}).withAssumptions as
    (∀ c ∈ b.clauses, ∀ l ∈ c, l.var ≤ b.nVars) ∧ (∀ a ∈ as, a.var ≤ b.nVars) := by
  intro b
  refine ⟨?_, ?_⟩
  · exact Buffered.inv_apply _ (.solve as) (Buffered.inv_reachable ops)
  · intro a ha
    exact foldl_max_mem _ _ a ha

/-- assumptions hold for one call only: they never enter the clause buffer -/
theorem assumptions_not_stored (b : Buffered) (as : List Lit) : (b.withAssumptions as).clauses = b.clauses := rfl

/-- clauses added between calls are part of every later instance, in order -/
theorem clauses_accumulate (b : Buffered) (c : Clause) : (b.addClause c).clauses = b.clauses ++ [c] := rfl

/-- a model of the instance (clauses + assumption units) satisfies every clause added so far and
every assumption of the call -/
theorem instance_model (b : Buffered) (as : List Lit) (ν : Asg)
    (h : cnfTrue ν (b.clauses ++ as.map (fun a => [a])) = true) :
    (∀ c ∈ b.clauses, clauseTrue ν c = true) ∧ (∀ a ∈ as, litTrue ν a = true) := by
  simp only [cnfTrue, List.all_append, Bool.and_eq_true, List.all_eq_true, List.all_map] at h
  refine ⟨h.1, ?_⟩
  intro a ha
  have := h.2 a ha
  simpa [clauseTrue] using this

/-! ## the reply parser -/

theorem vTokens_len (nv : Nat) : ∀ (ws : List Str) (st st' : PSt), vTokens nv st ws = .ok st' →
    st'.asg.length = st.asg.length ∧ st'.status = st.status ∧ (st.seen = true → st'.seen = true) := by
  intro ws
  induction ws with
  | nil => intro st st' h; simp only [vTokens] at h; injection h with h; subst h; simp
  | cons w ws ih =>
    intro st st' h
    simp only [vTokens] at h
    split at h
    · cases h
    · rename_i n _
      split at h
      · split at h
        · cases h
        · have := ih _ _ h; simpa using this
      · split at h
        · cases h
        · have := ih _ _ h; simpa using this

theorem replyLine_len (nv : Nat) (st st' : PSt) (l : Option Str) (h : replyLine nv st l = .ok st') :
    st'.asg.length = st.asg.length := by
  unfold replyLine at h
  split at h
  · cases h
  · split at h
    · split at h
      · cases h
      · injection h with h; subst h; rfl
    · split at h
      · split at h
        · cases h
        · injection h with h; subst h; rfl
      · split at h
        · exact (vTokens_len nv _ _ _ h).1
        · split at h
          · injection h with h; subst h; rfl
          · cases h

theorem foldLines_len (nv : Nat) : ∀ (ls : List (Option Str)) (st st' : PSt),
    foldLines (replyLine nv) st ls = .ok st' → st'.asg.length = st.asg.length := by
  intro ls
  induction ls with
  | nil => intro st st' h; simp only [foldLines] at h; injection h with h; subst h; rfl
  | cons l ls ih =>
    intro st st' h
    simp only [foldLines] at h
    cases hl : replyLine nv st l with
    | error e => rw [hl] at h; cases h
    | ok s1 => rw [hl] at h; simp only at h; rw [ih s1 st' h, replyLine_len nv st s1 l hl]

/-- a reported model can be queried for every declared variable: it has exactly `n_vars` entries -/
theorem model_length (nv : Nat) (out : List UInt8) (m : List (Option Bool))
    (h : parseReply nv out = .sat m) : m.length = nv := by
  unfold parseReply at h
  split at h
  · cases h
  · rename_i st hst
    split at h
    · split at h
      · injection h with h; subst h
        have := foldLines_len nv _ _ _ hst
        simpa using this
      · cases h
    · cases h
    · cases h

/-- a solver that exits without printing anything is reported as undecided -/
theorem empty_output_unknown (nv : Nat) : parseReply nv [] = .unknown := rfl

/-- status tracking: the final status of the fold is `some b` only if the corresponding status
line occurs among the lines read -/
theorem status_from_line (nv : Nat) : ∀ (ls : List (Option Str)) (st st' : PSt) (b : Bool),
    foldLines (replyLine nv) st ls = .ok st' → st'.status = some b → st.status = none →
    some (strOf (if b then "s SATISFIABLE" else "s UNSATISFIABLE")) ∈ ls := by
  intro ls
  induction ls with
  | nil =>
    intro st st' b h hs hn
    simp only [foldLines] at h; injection h with h; subst h
    rw [hn] at hs; cases hs
  | cons l ls ih =>
    intro st st' b h hs hn
    simp only [foldLines] at h
    cases hl : replyLine nv st l with
    | error e => rw [hl] at h; cases h
    | ok s1 =>
      rw [hl] at h; simp only at h
      -- either this line set the status, or the status is still none afterwards
      by_cases hs1 : s1.status = none
      · exact List.mem_cons_of_mem _ (ih s1 st' b h hs hs1)
      · -- this very line is a status line
        unfold replyLine at hl
        split at hl
        · cases hl
        · rename_i l0
          split at hl
          · rename_i heq
            split at hl
            · cases hl
            · injection hl with hl; subst hl
              -- status some true; later lines cannot change it without error
              have : st'.status = some true := by
                clear ih
                have key : ∀ (ls : List (Option Str)) (s s' : PSt), foldLines (replyLine nv) s ls = .ok s' →
                    s.status = some true → s'.status = some true := by
                  intro ls
                  induction ls with
                  | nil => intro s s' h hh; simp only [foldLines] at h; injection h with h; subst h; exact hh
                  | cons x xs ihx =>
                    intro s s' h hh
                    simp only [foldLines] at h
                    cases hx : replyLine nv s x with
                    | error e => rw [hx] at h; cases h
                    | ok s2 =>
                      rw [hx] at h; simp only at h
                      apply ihx s2 s' h
                      unfold replyLine at hx
                      split at hx
                      · cases hx
                      · split at hx
                        · simp [hh] at hx
                        · split at hx
                          · simp [hh] at hx
                          · split at hx
                            · rw [(vTokens_len nv _ _ _ hx).2.1]; exact hh
                            · split at hx
                              · injection hx with hx; subst hx; exact hh
                              · cases hx
                exact key ls _ st' h rfl
              rw [this] at hs; injection hs with hs; subst hs
              simp only [if_true]
              have : l0 = strOf "s SATISFIABLE" := by simpa using heq
              rw [this]; exact List.mem_cons_self ..
          · split at hl
            · rename_i heq
              split at hl
              · cases hl
              · injection hl with hl; subst hl
                have : st'.status = some false := by
                  have key : ∀ (ls : List (Option Str)) (s s' : PSt), foldLines (replyLine nv) s ls = .ok s' →
                      s.status = some false → s'.status = some false := by
                    intro ls
                    induction ls with
                    | nil => intro s s' h hh; simp only [foldLines] at h; injection h with h; subst h; exact hh
                    | cons x xs ihx =>
                      intro s s' h hh
                      simp only [foldLines] at h
                      cases hx : replyLine nv s x with
                      | error e => rw [hx] at h; cases h
                      | ok s2 =>
                        rw [hx] at h; simp only at h
                        apply ihx s2 s' h
                        unfold replyLine at hx
                        split at hx
                        · cases hx
                        · split at hx
                          · simp [hh] at hx
                          · split at hx
                            · simp [hh] at hx
                            · split at hx
                              · rw [(vTokens_len nv _ _ _ hx).2.1]; exact hh
                              · split at hx
                                · injection hx with hx; subst hx; exact hh
                                · cases hx
                  exact key ls _ st' h rfl
                rw [this] at hs; injection hs with hs; subst hs
                simp only [Bool.false_eq_true, if_false]
                have : l0 = strOf "s UNSATISFIABLE" := by simpa using heq
                rw [this]; exact List.mem_cons_self ..
            · split at hl
              · rw [(vTokens_len nv _ _ _ hl).2.1] at hs1; exact absurd hn hs1
              · split at hl
                · injection hl with hl; subst hl; exact absurd hn hs1
                · cases hl

/-- **faithful interpretation (C16/C17)**: a model is reported only if the reply contains the line
`s SATISFIABLE`, "unsatisfiable" only if it contains `s UNSATISFIABLE` -/
theorem reply_faithful (nv : Nat) (out : List UInt8) :
    (∀ m, parseReply nv out = .sat m → some (strOf "s SATISFIABLE") ∈ lines out) ∧
    (parseReply nv out = .unsat → some (strOf "s UNSATISFIABLE") ∈ lines out) := by
  unfold parseReply
  constructor
  · intro m h
    split at h
    · cases h
    · rename_i st hst
      split at h
      · rename_i hs
        exact status_from_line nv _ _ st true hst hs rfl
      · cases h
      · cases h
  · intro h
    split at h
    · cases h
    · rename_i st hst
      split at h
      · split at h <;> cases h
      · rename_i hs
        exact status_from_line nv _ _ st false hst hs rfl
      · cases h

/-! ## the pipe -/

namespace Pipe

theorem run_ret (pol : Policy) (cap f : Nat) (s : St) (hr : s.reaped = true) :
    run pol cap (f + 1) s = .returned := by
  simp [run, hr]

theorem run_step (pol : Policy) (cap f : Nat) (s : St) (hr : s.reaped = false)
    (hne : step pol cap s ≠ s) : run pol cap (f + 1) s = run pol cap f (step pol cap s) := by
  simp [run, hr, hne]

theorem run_dead (pol : Policy) (cap f : Nat) (s : St) (hr : s.reaped = false)
    (he : step pol cap s = s) : run pol cap (f + 1) s = .deadlock := by
  simp [run, hr, he]

theorem run_succ_of_returned (pol : Policy) (cap : Nat) : ∀ (fuel : Nat) (s : St),
    run pol cap fuel s = .returned → run pol cap (fuel + 1) s = .returned := by
  intro fuel
  induction fuel with
  | zero => intro s h; simp [run] at h
  | succ f ih =>
    intro s h
    cases hr : s.reaped
    · by_cases he : step pol cap s = s
      · rw [run_dead pol cap f s hr he] at h; cases h
      · rw [run_step pol cap f s hr he] at h
        rw [run_step pol cap (f + 1) s hr he]
        exact ih _ h
    · exact run_ret pol cap (f + 1) s hr

theorem run_mono (pol : Policy) (cap : Nat) (f g : Nat) (s : St) (hfg : f ≤ g)
    (h : run pol cap f s = .returned) : run pol cap g s = .returned := by
  induction hfg with
  | refl => exact h
  | step _ ih => exact run_succ_of_returned pol cap _ s ih

/-- **drain-then-wait never deadlocks**: for every output size and every positive pipe capacity
the call returns -/
theorem drain_then_wait_returns (cap : Nat) (hcap : 0 < cap) :
    ∀ out, run .drainThenWait cap (out + 3) (start out) = .returned := by
  intro out
  induction out using Nat.strongRecOn with
  | _ out ih =>
    unfold start
    by_cases h0 : out = 0
    · subst h0
      have hs : step .drainThenWait cap ⟨0, 0, false, false⟩ = ⟨0, 0, true, true⟩ := by simp [step]
      rw [run_step _ _ _ _ rfl (by rw [hs]; simp), hs]
      exact run_ret _ _ _ _ rfl
    · have hstep : step .drainThenWait cap ⟨out, 0, false, false⟩ = ⟨out - min out cap, 0, false, false⟩ := by
        simp [step, h0]
      have hne : step .drainThenWait cap ⟨out, 0, false, false⟩ ≠ ⟨out, 0, false, false⟩ := by
        rw [hstep]; intro e; injection e with e; omega
      rw [run_step _ _ _ _ rfl hne, hstep]
      have := ih (out - min out cap) (by omega)
      exact run_mono _ _ _ _ _ (by omega) this

/-- **wait-then-drain deadlocks** as soon as the output exceeds the pipe capacity -/
theorem wait_then_drain_deadlocks (cap out : Nat) (h : cap < out) :
    ∀ fuel, run .waitThenDrain cap fuel (start out) ≠ .returned := by
  intro fuel
  have h0 : out ≠ 0 := by omega
  have hs1 : step .waitThenDrain cap ⟨out, 0, false, false⟩ = ⟨out - cap, cap, false, false⟩ := by
    simp [step, h0, Nat.min_eq_right (Nat.le_of_lt h)]
  have hs2 : step .waitThenDrain cap ⟨out - cap, cap, false, false⟩ = ⟨out - cap, cap, false, false⟩ := by
    have : out - cap ≠ 0 := by omega
    simp [step, this]
  unfold start
  by_cases hne : step .waitThenDrain cap ⟨out, 0, false, false⟩ = ⟨out, 0, false, false⟩
  · match fuel with
    | 0 => simp [run]
    | f + 1 => rw [run_dead _ _ _ _ rfl hne]; intro e; cases e
  · match fuel with
    | 0 => simp [run]
    | 1 => rw [run_step _ _ _ _ rfl hne]; simp [run]
    | f + 2 =>
      rw [run_step _ _ _ _ rfl hne, hs1, run_dead _ _ _ _ rfl hs2]
      intro e; cases e

end Pipe
end Crusta.Sat
