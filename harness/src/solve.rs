//! Static solver family: run one query of one public solver type through the recording factory.
use crate::{fw, rec, util};
use crustabri::aa::{AAFramework, Argument};
use crustabri::encodings::{
    aux_var_constraints_encoder, exp_constraints_encoder, ConstraintsEncoder,
    HybridCompleteConstraintsEncoder,
};
use crustabri::solvers::{
    CompleteSemanticsSolver, CredulousAcceptanceComputer, GroundedSemanticsSolver,
    IdealSemanticsSolver, PreferredSemanticsSolver, SemiStableSemanticsSolver,
    SingleExtensionComputer, SkepticalAcceptanceComputer, StableSemanticsSolver,
    StageSemanticsSolver,
};
use std::collections::HashMap;
use std::panic::{catch_unwind, AssertUnwindSafe};

pub fn encoder(name: &str) -> Option<Box<dyn ConstraintsEncoder<usize>>> {
    match name {
        "aux_co" => Some(Box::new(aux_var_constraints_encoder::new_for_complete_semantics())),
        "aux_adm" => Some(Box::new(aux_var_constraints_encoder::new_for_admissibility())),
        "aux_cf" => Some(Box::new(aux_var_constraints_encoder::new_for_conflict_freeness())),
        "exp_co" => Some(Box::new(exp_constraints_encoder::new_for_complete_semantics())),
        "exp_cf" => Some(Box::new(exp_constraints_encoder::new_for_conflict_freeness())),
        "hyb" => Some(Box::<HybridCompleteConstraintsEncoder>::default()),
        "def" => None,
        _ => panic!("unknown encoder {}", name),
    }
}

pub enum Solver<'a> {
    Gr(GroundedSemanticsSolver<'a, usize>),
    Co(CompleteSemanticsSolver<'a, usize>),
    Pr(PreferredSemanticsSolver<'a, usize>),
    St(StableSemanticsSolver<'a, usize>),
    Sst(SemiStableSemanticsSolver<'a, usize>),
    Stg(StageSemanticsSolver<'a, usize>),
    Id(IdealSemanticsSolver<'a, usize>),
}

pub fn make_solver<'a>(af: &'a AAFramework<usize>, sem: &str, enc: &str) -> Solver<'a> {
    if enc == "new" {
        // the convenience constructors: default SAT solver and default encoder (no recording possible)
        return match sem {
            "GR" => Solver::Gr(GroundedSemanticsSolver::new(af)),
            "CO" => Solver::Co(CompleteSemanticsSolver::new(af)),
            "PR" => Solver::Pr(PreferredSemanticsSolver::new(af)),
            "ST" => Solver::St(StableSemanticsSolver::new(af)),
            "SST" => Solver::Sst(SemiStableSemanticsSolver::new(af)),
            "STG" => Solver::Stg(StageSemanticsSolver::new(af)),
            "ID" => Solver::Id(IdealSemanticsSolver::new(af)),
            _ => panic!("unknown semantics {}", sem),
        };
    }
    let f = rec::factory();
    match sem {
        "GR" => Solver::Gr(GroundedSemanticsSolver::new(af)),
        "CO" => Solver::Co(match encoder(enc) {
            Some(e) => CompleteSemanticsSolver::new_with_sat_solver_factory_and_constraints_encoder(af, f, e),
            None => CompleteSemanticsSolver::new_with_sat_solver_factory(af, f),
        }),
        "PR" => Solver::Pr(match encoder(enc) {
            Some(e) => PreferredSemanticsSolver::new_with_sat_solver_factory_and_constraints_encoder(af, f, e),
            None => PreferredSemanticsSolver::new_with_sat_solver_factory(af, f),
        }),
        "ST" => Solver::St(StableSemanticsSolver::new_with_sat_solver_factory(af, f)),
        "SST" => Solver::Sst(match encoder(enc) {
            Some(e) => SemiStableSemanticsSolver::new_with_sat_solver_factory_and_constraints_encoder(af, f, e),
            None => SemiStableSemanticsSolver::new_with_sat_solver_factory(af, f),
        }),
        "STG" => Solver::Stg(match encoder(enc) {
            Some(e) => StageSemanticsSolver::new_with_sat_solver_factory_and_constraints_encoder(af, f, e),
            None => StageSemanticsSolver::new_with_sat_solver_factory(af, f),
        }),
        "ID" => Solver::Id(match encoder(enc) {
            Some(e) => IdealSemanticsSolver::new_with_sat_solver_factory_and_constraints_encoder(af, f, e),
            None => IdealSemanticsSolver::new_with_sat_solver_factory(af, f),
        }),
        _ => panic!("unknown semantics {}", sem),
    }
}

pub fn ext_to_dense(dm: &HashMap<usize, usize>, e: &[&Argument<usize>]) -> String {
    if e.is_empty() {
        return "[]".to_string();
    }
    util::join(&e.iter().map(|a| dm[a.label()]).collect::<Vec<_>>(), ",")
}

/// checks that certificate members are the framework's own arguments (same label and id)
pub fn members_ok(af: &AAFramework<usize>, e: &[&Argument<usize>]) -> bool {
    e.iter().all(|a| {
        af.argument_set().has_argument_with_id(a.id())
            && af.argument_set().get_argument_by_id(a.id()).label() == a.label()
            && af.argument_set().get_argument(a.label()).map(|x| x.id() == a.id()).unwrap_or(false)
    })
}

pub fn run_query(
    af: &AAFramework<usize>,
    solver: &mut Solver,
    task: &str,
    cert: bool,
    args: &[usize],
) -> String {
    let dm = fw::dense_map(af);
    let arg_refs: Vec<&usize> = args.iter().collect();
    let fmt_acc = |st: bool, c: Option<Option<Vec<&Argument<usize>>>>| -> String {
        let cs = match &c {
            None => "-".to_string(),
            Some(None) => "NONE".to_string(),
            Some(Some(e)) => ext_to_dense(&dm, e),
        };
        let mem = match &c {
            Some(Some(e)) => {
                if members_ok(af, e) {
                    "1"
                } else {
                    "0"
                }
            }
            _ => "1",
        };
        format!("ans ACC status={} cert={} members={}", if st { "YES" } else { "NO" }, cs, mem)
    };
    match task {
        "SE" => {
            let r = match solver {
                Solver::Gr(s) => s.compute_one_extension(),
                Solver::Pr(s) => s.compute_one_extension(),
                Solver::St(s) => s.compute_one_extension(),
                Solver::Sst(s) => s.compute_one_extension(),
                Solver::Stg(s) => s.compute_one_extension(),
                Solver::Id(s) => s.compute_one_extension(),
                Solver::Co(_) => panic!("SE not available for the complete solver"),
            };
            match r {
                Some(e) => format!(
                    "ans SE ext={} members={}",
                    ext_to_dense(&dm, &e),
                    if members_ok(af, &e) { "1" } else { "0" }
                ),
                None => "ans SE ext=NONE members=1".to_string(),
            }
        }
        "DC" => {
            if cert {
                let (st, c) = match solver {
                    Solver::Gr(s) => s.are_credulously_accepted_with_certificate(&arg_refs),
                    Solver::Co(s) => s.are_credulously_accepted_with_certificate(&arg_refs),
                    Solver::St(s) => s.are_credulously_accepted_with_certificate(&arg_refs),
                    Solver::Sst(s) => s.are_credulously_accepted_with_certificate(&arg_refs),
                    Solver::Stg(s) => s.are_credulously_accepted_with_certificate(&arg_refs),
                    Solver::Id(s) => s.are_credulously_accepted_with_certificate(&arg_refs),
                    Solver::Pr(_) => panic!("DC not available for the preferred solver"),
                };
                fmt_acc(st, Some(c))
            } else {
                let st = match solver {
                    Solver::Gr(s) => s.are_credulously_accepted(&arg_refs),
                    Solver::Co(s) => s.are_credulously_accepted(&arg_refs),
                    Solver::St(s) => s.are_credulously_accepted(&arg_refs),
                    Solver::Sst(s) => s.are_credulously_accepted(&arg_refs),
                    Solver::Stg(s) => s.are_credulously_accepted(&arg_refs),
                    Solver::Id(s) => s.are_credulously_accepted(&arg_refs),
                    Solver::Pr(_) => panic!("DC not available for the preferred solver"),
                };
                fmt_acc(st, None)
            }
        }
        "DS" => {
            if cert {
                let (st, c) = match solver {
                    Solver::Gr(s) => s.are_skeptically_accepted_with_certificate(&arg_refs),
                    Solver::Pr(s) => s.are_skeptically_accepted_with_certificate(&arg_refs),
                    Solver::St(s) => s.are_skeptically_accepted_with_certificate(&arg_refs),
                    Solver::Sst(s) => s.are_skeptically_accepted_with_certificate(&arg_refs),
                    Solver::Stg(s) => s.are_skeptically_accepted_with_certificate(&arg_refs),
                    Solver::Id(s) => s.are_skeptically_accepted_with_certificate(&arg_refs),
                    Solver::Co(_) => panic!("DS not available for the complete solver"),
                };
                fmt_acc(st, Some(c))
            } else {
                let st = match solver {
                    Solver::Gr(s) => s.are_skeptically_accepted(&arg_refs),
                    Solver::Pr(s) => s.are_skeptically_accepted(&arg_refs),
                    Solver::St(s) => s.are_skeptically_accepted(&arg_refs),
                    Solver::Sst(s) => s.are_skeptically_accepted(&arg_refs),
                    Solver::Stg(s) => s.are_skeptically_accepted(&arg_refs),
                    Solver::Id(s) => s.are_skeptically_accepted(&arg_refs),
                    Solver::Co(_) => panic!("DS not available for the complete solver"),
                };
                fmt_acc(st, None)
            }
        }
        _ => panic!("unknown task {}", task),
    }
}

/// `solve <id> fw=.. sem=.. enc=.. task=.. cert=0|1 args=l,l [backend=..] [fault=k] [cap=k] [trace=0|1]
///  [more=task:cert:args/task:cert:args...]` (further queries on the same solver object)
pub fn run(id: &str, p: &HashMap<String, String>, out: &mut Vec<String>) {
    let af = fw::build(&p["fw"]);
    let sem = p["sem"].as_str();
    let enc = p.get("enc").map(|s| s.as_str()).unwrap_or("def");
    let backend = p.get("backend").map(|s| s.as_str()).unwrap_or("cadical");
    let fault: usize = p.get("fault").map(|s| s.parse().unwrap()).unwrap_or(0);
    let cap: usize = p.get("cap").map(|s| s.parse().unwrap()).unwrap_or(100000);
    let trace = p.get("trace").map(|s| s != "0").unwrap_or(true);
    let _ = id;
    out.push(fw::dump_dense(&af));
    let before = fw::dump_dense(&af);
    let dm = fw::dense_map(&af);
    let mut queries: Vec<(String, bool, Vec<usize>)> = vec![(
        p["task"].clone(),
        p.get("cert").map(|s| s == "1").unwrap_or(false),
        util::parse_usize_list(p.get("args").map(|s| s.as_str()).unwrap_or("-")),
    )];
    if let Some(more) = p.get("more") {
        for q in more.split('/') {
            let f: Vec<&str> = q.split(':').collect();
            queries.push((f[0].to_string(), f[1] == "1", util::parse_usize_list(f[2])));
        }
    }
    rec::reset(fault, cap, backend, trace);
    let mut solver = make_solver(&af, sem, enc);
    for (task, cert, args) in &queries {
        let dense_args = util::join(&args.iter().map(|l| dm[l]).collect::<Vec<_>>(), ",");
        out.push(format!(
            "query sem={} enc={} task={} cert={} args={}",
            sem,
            enc,
            task,
            if *cert { 1 } else { 0 },
            if dense_args.is_empty() { "-".to_string() } else { dense_args }
        ));
        let calls_before = rec::n_calls();
        let r = catch_unwind(AssertUnwindSafe(|| run_query(&af, &mut solver, task, *cert, args)));
        out.extend(rec::take_log());
        match r {
            Ok(line) => out.push(line),
            Err(e) => {
                out.push(format!("panic {}", util::panic_msg(e)));
            }
        }
        out.push(format!("calls {}", rec::n_calls() - calls_before));
    }
    drop(solver);
    out.extend(rec::take_log());
    let after = fw::dump_dense(&af);
    out.push(format!("unchanged {}", if before == after { 1 } else { 0 }));
    out.push("end".to_string());
}

/// status / extension in terms of labels (sorted), for relations between runs
pub fn run_query_labels(
    _af: &AAFramework<usize>,
    solver: &mut Solver,
    task: &str,
    args: &[usize],
) -> String {
    let arg_refs: Vec<&usize> = args.iter().collect();
    let lab = |e: Vec<&Argument<usize>>| {
        let mut v: Vec<usize> = e.iter().map(|a| *a.label()).collect();
        v.sort();
        if v.is_empty() {
            "[]".to_string()
        } else {
            util::join(&v, ",")
        }
    };
    match task {
        "SE" => {
            let r = match solver {
                Solver::Gr(s) => s.compute_one_extension(),
                Solver::Pr(s) => s.compute_one_extension(),
                Solver::St(s) => s.compute_one_extension(),
                Solver::Sst(s) => s.compute_one_extension(),
                Solver::Stg(s) => s.compute_one_extension(),
                Solver::Id(s) => s.compute_one_extension(),
                Solver::Co(_) => panic!("SE not available for the complete solver"),
            };
            match r {
                Some(e) => format!("EXT {}", lab(e)),
                None => "NOEXT".to_string(),
            }
        }
        "DC" => {
            let st = match solver {
                Solver::Gr(s) => s.are_credulously_accepted(&arg_refs),
                Solver::Co(s) => s.are_credulously_accepted(&arg_refs),
                Solver::St(s) => s.are_credulously_accepted(&arg_refs),
                Solver::Sst(s) => s.are_credulously_accepted(&arg_refs),
                Solver::Stg(s) => s.are_credulously_accepted(&arg_refs),
                Solver::Id(s) => s.are_credulously_accepted(&arg_refs),
                Solver::Pr(_) => panic!("DC not available for the preferred solver"),
            };
            (if st { "YES" } else { "NO" }).to_string()
        }
        "DS" => {
            let st = match solver {
                Solver::Gr(s) => s.are_skeptically_accepted(&arg_refs),
                Solver::Pr(s) => s.are_skeptically_accepted(&arg_refs),
                Solver::St(s) => s.are_skeptically_accepted(&arg_refs),
                Solver::Sst(s) => s.are_skeptically_accepted(&arg_refs),
                Solver::Stg(s) => s.are_skeptically_accepted(&arg_refs),
                Solver::Id(s) => s.are_skeptically_accepted(&arg_refs),
                Solver::Co(_) => panic!("DS not available for the complete solver"),
            };
            (if st { "YES" } else { "NO" }).to_string()
        }
        _ => panic!("unknown task"),
    }
}
