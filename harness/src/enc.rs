//! Encoder family (C10): capture exactly what each public encoder hands to the SAT solver.
use crate::{fw, rec, solve, util};
use crustabri::encodings::{ConstraintsEncoder, DefaultStableConstraintsEncoder};
use crustabri::sat::{CadicalSolver, Literal, SatSolver, SolvingResult};
use std::collections::HashMap;
use std::panic::{catch_unwind, AssertUnwindSafe};

pub fn encoder(name: &str) -> Box<dyn ConstraintsEncoder<usize>> {
    match name {
        "stb" => Box::<DefaultStableConstraintsEncoder>::default(),
        "default_complete" => crustabri::encodings::new_default_complete_constraints_encoder(),
        "default_cf" => crustabri::encodings::new_default_conflict_freeness_encoder(),
        _ => solve::encoder(name).unwrap(),
    }
}

/// `enc <id> fw=<compact spec> enc=<name> range=0|1 [asg=<bits>/<bits>...] [twice=1]`
pub fn run(_id: &str, p: &HashMap<String, String>, out: &mut Vec<String>) {
    let af = fw::build(&p["fw"]);
    out.push(fw::dump_dense(&af));
    let name = p["enc"].as_str();
    let range = p.get("range").map(|s| s == "1").unwrap_or(false);
    let twice = p.get("twice").map(|s| s == "1").unwrap_or(false);
    let r = catch_unwind(AssertUnwindSafe(|| {
        let mut lines = Vec::new();
        let e = encoder(name);
        let reps = if twice { 2 } else { 1 };
        for rep in 0..reps {
            rec::reset(0, usize::MAX, "cadical", true);
            let f = rec::factory();
            let mut s = f();
            if range {
                e.encode_constraints_and_range(&af, s.as_mut());
            } else {
                e.encode_constraints(&af, s.as_mut());
            }
            let nv = s.n_vars();
            for l in rec::take_log() {
                // "S 0 c .." / "S 0 r .." ; drop "new" and "n"
                let t: Vec<&str> = l.splitn(4, ' ').collect();
                if t.len() >= 3 && (t[2] == "c" || t[2] == "r") {
                    lines.push(format!("E{} {} {}", if rep == 0 { "" } else { "2" }, t[2], if t.len() > 3 { t[3] } else { "" }));
                }
            }
            lines.push(format!("N{} {}", if rep == 0 { "" } else { "2" }, nv));
        }
        let lits = af
            .argument_set()
            .iter()
            .map(|a| format!("{}={}", a.id(), isize::from(e.arg_to_lit(a))))
            .collect::<Vec<_>>();
        lines.push(format!("L {}", lits.join(" ")));
        if range {
            lines.push(format!("F {}", e.first_range_var(af.n_arguments())));
        }
        if let Some(asgs) = p.get("asg") {
            for bits in asgs.split('/') {
                // bits: '+', '-', '?' per variable; '?' only as a suffix (reserved but unused variables)
                let mut c = CadicalSolver::default();
                c.reserve(bits.len());
                for (i, ch) in bits.chars().enumerate() {
                    let v = (i + 1) as isize;
                    match ch {
                        '+' => c.add_clause(vec![Literal::from(v)]),
                        '-' => c.add_clause(vec![Literal::from(-v)]),
                        _ => {}
                    }
                }
                if let SolvingResult::Satisfiable(a) = c.solve() {
                    let got = rec::model_to_string(&a);
                    let ext = e.assignment_to_extension(&a, &af);
                    lines.push(format!(
                        "D {} {}",
                        got,
                        util::join(&ext.iter().map(|x| x.id()).collect::<Vec<_>>(), ",")
                    ));
                }
            }
        }
        lines
    }));
    match r {
        Ok(l) => out.extend(l),
        Err(e) => out.push(format!("panic {}", util::panic_msg(e))),
    }
    out.push("end".to_string());
}
