import Crusta.Proofs.DynAttReplay
import Crusta.Proofs.DynQuery

/-!
# The queries of the attack-assumption solvers answer for the pending framework

Same statements as for the buffered solvers (`DynQuery.lean`): `CredOK` / `SkepOK` (what a correct
answer is) and `CompSound` (what a cached computation must say) are reused verbatim; the theorems are
`wp True` statements (partial correctness on sound replies: a run that returns an answer returns a
correct one and re-establishes the invariant).
-/

namespace Crusta.DynAtt
open Crusta Crusta.Dyn Crusta.Store

/-- crash-tolerant rule for `needLabels` -/
theorem wp_needLabelsT (st : Store) (ids : List Nat) (w : World) (Q : List Nat → World → Prop)
    (h : ∀ ls, labelsOf st ids = some ls → Q ls w) : wp True (needLabels st ids) w Q := by
  unfold needLabels
  cases hl : labelsOf st ids with
  | none => exact trivial
  | some ls => exact h ls hl

/-! ## decoding -/

theorem mem_argsWhere (e : AEnc) (m : Model) (p : Option Bool → Bool) (a : Nat) :
    a ∈ e.argsWhere m p ↔ ∃ i b, m[i]? = some b ∧ p b = true ∧ e.ty (i + 1) = .arg a := by
  unfold AEnc.argsWhere
  rw [List.mem_filterMap]
  constructor
  · rintro ⟨⟨b, i⟩, hq, hf⟩
    have hm := List.mem_zipIdx_iff_getElem?.1 hq
    simp only at hm hf
    by_cases hp : p b = true
    · rw [if_pos hp] at hf
      refine ⟨i, b, hm, hp, ?_⟩
      unfold AEnc.varToArg at hf
      unfold AEnc.ty
      split at hf
      · rename_i id hid; injection hf with hf; rw [hid, hf]
      · cases hf
    · rw [if_neg hp] at hf; cases hf
  · rintro ⟨i, b, hm, hp, ht⟩
    refine ⟨(b, i), List.mem_zipIdx_iff_getElem?.2 hm, ?_⟩
    simp only [hp, if_true]
    unfold AEnc.varToArg
    unfold AEnc.ty at ht
    rw [ht]

/-- the decoded extension is the set read off the model -/
theorem ext_eq_setOf {st : Store} {e : AEnc} {Γ : Cnf} (h : AInv st e Γ) (m : Model) :
    ofList (e.extension m) = setOf st e (asgOfModel m) := by
  funext a
  rw [Bool.eq_iff_iff]
  unfold ofList AEnc.extension
  rw [List.contains_iff_mem, mem_argsWhere]
  simp only [setOf, Bool.and_eq_true]
  constructor
  · rintro ⟨i, b, hm, hp, ht⟩
    obtain ⟨hl, hav⟩ := h.ty_arg (i + 1) a ht
    have hxv : e.xv a = i + 1 := by unfold AEnc.xv; rw [hav]; rfl
    refine ⟨hl, ?_⟩
    rw [hxv]
    have hb : b = some true := by simpa using hp
    subst hb
    simp [asgOfModel, List.getD_eq_getElem?_getD, hm]
  · rintro ⟨hl, hν⟩
    obtain ⟨v, hv, hv1, _, hvt⟩ := h.av_live a hl
    have hxv : e.xv a = v := by unfold AEnc.xv; rw [hv]; rfl
    rw [hxv] at hν
    simp only [asgOfModel, ge_iff_le, Bool.and_eq_true, decide_eq_true_eq, beq_iff_eq] at hν
    refine ⟨v - 1, some true, getElem?_of_getD_some hν.2, by simp, ?_⟩
    have : v - 1 + 1 = v := by omega
    rw [this]; exact hvt

/-! ## both semantics at once -/

theorem models_ext {sem : DSem} {st : Store} {e : AEnc} {Γ : Cnf} (hinv : st.Inv) (h : AInv st e Γ)
    (hs : e.sem = sem) (hsem : sem ≠ .PR) {as : List Lit} {ν : Asg}
    (has : e.assumptionsOpt st = some as) (hΓ : cnfTrue ν Γ = true) (hA : assumpsTrue ν as = true) :
    EncExt sem st.g (setOf st e ν) := by
  subst hs
  cases hse : e.sem with
  | ST => exact models_stable hinv h hse has hΓ hA
  | CO => exact models_complete hinv h hse has hΓ hA
  | PR => exact absurd hse hsem

theorem ext_model {sem : DSem} {st : Store} {e : AEnc} {Γ : Cnf} (hinv : st.Inv) (h : AInv st e Γ)
    (hs : e.sem = sem) (hsem : sem ≠ .PR) {as : List Lit}
    (has : e.assumptionsOpt st = some as) {S : ASet} (hS : EncExt sem st.g S) :
    ∃ ν : Asg, cnfTrue ν Γ = true ∧ assumpsTrue ν as = true ∧
      ∀ i, st.hasId i = true → ν (e.xv i) = S i := by
  subst hs
  have key : ∃ ν : Asg, cnfTrue ν Γ = true ∧ assumpsTrue ν as = true ∧ ∀ i, setOf st e ν i = S i := by
    cases hse : e.sem with
    | ST => rw [hse] at hS; exact stable_model hinv h hse has hS
    | CO => rw [hse] at hS; exact complete_model hinv h hse has hS
    | PR => exact absurd hse hsem
  obtain ⟨ν, h1, h2, h3⟩ := key
  refine ⟨ν, h1, h2, ?_⟩
  intro i hi
  have := h3 i
  simp only [setOf, hi, Bool.true_and] at this
  exact this

/-- the variable of every live argument occurs in the clause database -/
theorem argvar_in_db {st : Store} {e : AEnc} {Γ : Cnf} (h : AInv st e Γ) {a : Nat} (ha : st.hasId a = true) :
    ∃ c ∈ Γ, ∃ lit ∈ c, lit.var = e.xv a := by
  obtain ⟨i, hi, _, hxv, _⟩ := live_var h ha
  have hrow : EncSpec e.sem e.nArgVars (pl (i + 1) :: auxLits e.nArgVars
      ((match e.sem with | .ST => e.nArgVars * (1 + e.nArgVars) | _ => e.nArgVars * (2 + e.nArgVars)) +
        i * e.nArgVars)) := by
    cases hs : e.sem with
    | ST => exact ⟨i, hi, Or.inr (Or.inr rfl)⟩
    | CO => exact Or.inl ⟨i, hi, Or.inr (Or.inr rfl)⟩
    | PR => exact Or.inl ⟨i, hi, Or.inr (Or.inr rfl)⟩
  exact ⟨_, h.enc_in _ hrow, pl (i + 1), by simp, by rw [hxv]; rfl⟩

/-! ## the invariant seen by the queries -/

def ACacheSound (sem : DSem) (d : ADState) : Prop :=
  ∀ c ∈ d.buffer.reverse.takeWhile (fun ev => !ev.isUpdate), CompSound sem d.pending c

structure AQInv (sem : DSem) (d : ADState) (w : World) : Prop where
  dinv : ADInv sem d w
  pend_inv : d.pending.Inv
  cache : ACacheSound sem d

theorem EState_congr {sem : DSem} {st : Store} {e : AEnc} {w w' : World}
    (hdb : w'.db e.solver = w.db e.solver) (h : EState sem st e w) : EState sem st e w' :=
  ⟨h.1, fun hne => by rw [hdb]; exact h.2 hne⟩

/-- appending a computation to the buffer of a synchronised state -/
theorem AQInv_push {sem : DSem} {d : ADState} {w w' : World} (h : AQInv sem d w)
    (hdb : w'.db d.enc.solver = w.db d.enc.solver)
    (hsync : d.af = d.pending) (hnext : d.next = d.buffer.length) {c : Event} (hc : c.isUpdate = false)
    (hsound : CompSound sem d.pending c) : AQInv sem { d with buffer := d.buffer ++ [c] } w' := by
  have hle : d.next ≤ (d.buffer ++ [c]).length := by
    have := h.dinv.next_le
    simp; omega
  refine ⟨⟨h.dinv.af_inv, EState_congr hdb h.dinv.est, ?_, hle⟩, h.pend_inv, ?_⟩
  · show EffRun d.af ((d.buffer ++ [c]).drop d.next) d.pending
    rw [hnext, List.drop_append_of_le_length (Nat.le_refl _), List.drop_length, List.nil_append]
    have : Event.op c = none := by cases c <;> simp_all [Event.isUpdate, Event.op]
    simp only [EffRun, this]
    exact hsync.symm
  · intro c' hc'
    show CompSound sem d.pending c'
    have hrev : (d.buffer ++ [c]).reverse = c :: d.buffer.reverse := by simp
    rw [show ({ d with buffer := d.buffer ++ [c] } : ADState).buffer = d.buffer ++ [c] from rfl, hrev] at hc'
    simp only [List.takeWhile_cons, hc, Bool.not_false, if_true, List.mem_cons] at hc'
    rcases hc' with rfl | hc'
    · exact hsound
    · exact h.cache c' hc'

theorem wp_argLit {C : Prop} {sem : DSem} {d : ADState} {w : World} (h : AQInv sem d w)
    (hneed : d.enc.needToEncode = false) (hsync : d.af = d.pending)
    {l id : Nat} (hl : d.pending.Live id l) (Q : Nat → World → Prop) :
    wp C (d.argLit l) w Q ↔ Q (d.enc.xv id) w := by
  unfold ADState.argLit
  rw [hsync, (getArg_eq_some h.pend_inv).2 hl]
  simp only
  have hI := h.dinv.est.2 hneed
  obtain ⟨v, hv, _⟩ := hI.av_live id (by rw [hsync]; exact hasId_iff.2 ⟨l, hl⟩)
  have hv' : d.enc.argVar.getD id none = some v := hv
  have hxv : d.enc.xv id = v := by unfold AEnc.xv; rw [hv]; rfl
  rw [hv', hxv]
  rfl

theorem wp_assumptions {C : Prop} {sem : DSem} {d : ADState} {w : World} (h : AQInv sem d w)
    (hneed : d.enc.needToEncode = false) (Q : List Lit → World → Prop) :
    wp C (d.enc.assumptions d.af) w Q ↔ ∃ as, d.enc.assumptionsOpt d.af = some as ∧ Q as w := by
  obtain ⟨as, has, _⟩ := assumptions_total h.dinv.af_inv (h.dinv.est.2 hneed)
  unfold AEnc.assumptions
  rw [has]
  constructor
  · intro hq; exact ⟨as, rfl, hq⟩
  · rintro ⟨as', h1, hq⟩; rw [← Option.some.inj h1] at hq; exact hq

theorem wp_credSolve {sem : DSem} (hsem : sem ≠ .PR) {d : ADState} {w : World} (h : AQInv sem d w)
    (hneed : d.enc.needToEncode = false)
    (hsync : d.af = d.pending) (hnext : d.next = d.buffer.length) {l id : Nat} (hl : d.pending.Live id l) :
    wp True (credSolve d l) w (fun r w' => AQInv sem r.1 w' ∧ r.1.pending = d.pending ∧
      CredOK sem d.pending l r.2) := by
  have hpinv := h.pend_inv
  have hI : AInv d.pending d.enc (w.db d.enc.solver) := by rw [← hsync]; exact h.dinv.est.2 hneed
  have hidl : d.pending.hasId id = true := hasId_iff.2 ⟨l, hl⟩
  have huniq : ∀ id', d.pending.Live id' l → id' = id := fun id' h' => hpinv.label_inj id' id l h' hl
  unfold credSolve
  rw [wp_bind, wp_assumptions h hneed]
  obtain ⟨as, has, _⟩ := assumptions_total h.dinv.af_inv (h.dinv.est.2 hneed)
  refine ⟨as, has, ?_⟩
  rw [hsync] at has
  rw [wp_bind, wp_argLit h hneed hsync hl]
  constructor
  · -- satisfiable
    rintro m ⟨htot, hΓ, hA⟩
    rw [assumpsTrue_append] at hA
    simp only [Bool.and_eq_true] at hA
    have hν : asgOfModel m (d.enc.xv id) = true := by simpa [assumpsTrue] using hA.2
    have hext : IsExt sem d.pending.g (ofList (d.enc.extension m)) := by
      rw [isExt_eq_encExt hsem, ext_eq_setOf hI]
      exact models_ext hpinv hI h.dinv.est.1.sem_eq hsem has hΓ hA.1
    have hmem : ∀ a, a ∈ d.enc.extension m ↔ (d.pending.hasId a = true ∧ asgOfModel m (d.enc.xv a) = true) := by
      intro a
      have := congrFun (ext_eq_setOf hI m) a
      rw [← List.contains_iff_mem]
      show ofList _ a = true ↔ _
      rw [this]; simp [setOf]
    simp only
    rw [wp_bind]
    apply wp_needLabelsT
    intro acc hacc
    rw [wp_bind]
    apply wp_needLabelsT
    intro _ _
    refine ⟨AQInv_push h (by simp) hsync hnext rfl ?_, rfl, ?_⟩
    · intro e he
      injection he with he; subst he
      refine ⟨hext, ?_, by simp⟩
      intro l' hl'
      obtain ⟨id', hid', hlive'⟩ := labelsOf_spec hacc l' hl'
      rw [hsync] at hlive'
      refine ⟨id', hlive', ?_⟩
      obtain ⟨i, b, hm, hp, hty⟩ := (mem_argsWhere _ _ _ _).1 hid'
      obtain ⟨hl2, hav2⟩ := hI.ty_arg (i + 1) id' hty
      have hxv : d.enc.xv id' = i + 1 := by unfold AEnc.xv; rw [hav2]; rfl
      obtain ⟨c, hc, lit, hlit, hvar⟩ := argvar_in_db hI hl2
      have hsome := htot c hc lit hlit
      rw [hvar, hxv] at hsome
      simp only [Nat.add_sub_cancel, List.getD_eq_getElem?_getD, hm] at hsome
      apply (mem_argsWhere _ _ _ _).2
      refine ⟨i, b, hm, ?_, hty⟩
      cases b with
      | none => simp at hsome
      | some x => cases x <;> simp_all
    · intro id' hl'
      rw [huniq id' hl']
      refine ⟨fun _ => ⟨_, rfl, hext, (hmem id).2 ⟨hidl, hν⟩⟩, fun hf => by simp at hf⟩
  · -- unsatisfiable
    intro hunsat
    refine ⟨AQInv_push h (by simp) hsync hnext rfl (by intro e he; cases he), rfl, ?_⟩
    intro id' hl'
    rw [huniq id' hl']
    refine ⟨fun hf => by simp at hf, fun _ => ⟨rfl, ?_⟩⟩
    intro S hS
    rw [isExt_eq_encExt hsem] at hS
    obtain ⟨ν, h1, h2, h3⟩ := ext_model hpinv hI h.dinv.est.1.sem_eq hsem has hS
    cases hSi : S id with
    | false => rfl
    | true =>
      exfalso
      apply hunsat ν
      refine ⟨h1, ?_⟩
      rw [assumpsTrue_append, h2]
      simp [assumpsTrue, h3 id hidl, hSi]

theorem wp_stSkepSolve {d : ADState} {w : World} (h : AQInv .ST d w)
    (hneed : d.enc.needToEncode = false)
    (hsync : d.af = d.pending) (hnext : d.next = d.buffer.length) {l id : Nat} (hl : d.pending.Live id l) :
    wp True (stSkepSolve d l) w (fun r w' => AQInv .ST r.1 w' ∧ r.1.pending = d.pending ∧
      SkepOK .ST d.pending l r.2) := by
  have hpinv := h.pend_inv
  have hI : AInv d.pending d.enc (w.db d.enc.solver) := by rw [← hsync]; exact h.dinv.est.2 hneed
  have hidl : d.pending.hasId id = true := hasId_iff.2 ⟨l, hl⟩
  have huniq : ∀ id', d.pending.Live id' l → id' = id := fun id' h' => hpinv.label_inj id' id l h' hl
  have hsem : DSem.ST ≠ .PR := by simp
  unfold stSkepSolve
  rw [wp_bind, wp_assumptions h hneed]
  obtain ⟨as, has, _⟩ := assumptions_total h.dinv.af_inv (h.dinv.est.2 hneed)
  refine ⟨as, has, ?_⟩
  rw [hsync] at has
  rw [wp_bind, wp_argLit h hneed hsync hl]
  constructor
  · rintro m ⟨_, hΓ, hA⟩
    rw [assumpsTrue_append] at hA
    simp only [Bool.and_eq_true] at hA
    have hν : asgOfModel m (d.enc.xv id) = false := by simpa [assumpsTrue] using hA.2
    have hext : IsExt .ST d.pending.g (ofList (d.enc.extension m)) := by
      rw [isExt_eq_encExt hsem, ext_eq_setOf hI]
      exact models_ext hpinv hI h.dinv.est.1.sem_eq hsem has hΓ hA.1
    have hmem : ∀ a, a ∈ d.enc.extension m ↔ (d.pending.hasId a = true ∧ asgOfModel m (d.enc.xv a) = true) := by
      intro a
      have := congrFun (ext_eq_setOf hI m) a
      rw [← List.contains_iff_mem]
      show ofList _ a = true ↔ _
      rw [this]; simp [setOf]
    simp only
    rw [wp_bind]
    apply wp_needLabelsT
    intro ref href
    rw [wp_bind]
    apply wp_needLabelsT
    intro _ _
    refine ⟨AQInv_push h (by simp) hsync hnext rfl ?_, rfl, ?_⟩
    · intro e he
      injection he with he; subst he
      refine ⟨hext, by simp, ?_⟩
      intro l' hl' id' hlive'
      obtain ⟨id'', hid'', hlive''⟩ := labelsOf_spec href l' hl'
      rw [hsync] at hlive''
      have : id'' = id' := hpinv.label_inj id'' id' l' hlive'' hlive'
      subst this
      obtain ⟨i, b, hm, hp, hty⟩ := (mem_argsWhere _ _ _ _).1 hid''
      obtain ⟨hl2, hav2⟩ := hI.ty_arg (i + 1) id'' hty
      have hxv : d.enc.xv id'' = i + 1 := by unfold AEnc.xv; rw [hav2]; rfl
      intro hin
      have := ((hmem id'').1 hin).2
      rw [hxv] at this
      simp only [asgOfModel, Nat.add_sub_cancel, List.getD_eq_getElem?_getD, hm] at this
      cases b with
      | none => simp at this
      | some x => cases x <;> simp_all
    · intro id' hl'
      rw [huniq id' hl']
      refine ⟨fun hf => by simp at hf, fun _ => ⟨_, rfl, hext, ?_⟩⟩
      intro hin
      have := ((hmem id).1 hin).2
      rw [hν] at this; cases this
  · intro hunsat
    simp only
    rw [wp_bind, wp_needArg (by rw [hsync]; exact hpinv) (by rw [hsync]; exact hl), wp_bind]
    apply wp_needLabelsT
    intro ref _
    refine ⟨AQInv_push h (by simp) hsync hnext rfl (by intro e he; cases he), rfl, ?_⟩
    intro id' hl'
    rw [huniq id' hl']
    refine ⟨fun _ => ⟨rfl, ?_⟩, fun hf => by simp at hf⟩
    intro S hS
    rw [isExt_eq_encExt hsem] at hS
    obtain ⟨ν, h1, h2, h3⟩ := ext_model hpinv hI h.dinv.est.1.sem_eq hsem has hS
    cases hSi : S id with
    | true => rfl
    | false =>
      exfalso
      apply hunsat ν
      refine ⟨h1, ?_⟩
      rw [assumpsTrue_append, h2]
      simp [assumpsTrue, h3 id hidl, hSi]

/-! ## the queries: cache or recompute -/

theorem AQInv_of_update {sem : DSem} {d d' : ADState} {w w' : World} (h : AQInv sem d w)
    (hd : ADInv sem d' w') (hp : d'.pending = d.pending) (hb : d'.buffer = d.buffer) : AQInv sem d' w' := by
  refine ⟨hd, by rw [hp]; exact h.pend_inv, ?_⟩
  intro c hc
  rw [hp]
  rw [hb] at hc
  exact h.cache c hc

theorem wp_credQuery {sem : DSem} (hsem : sem ≠ .PR) {d : ADState} {w : World} (h : AQInv sem d w)
    {l id : Nat} (hl : d.pending.Live id l) :
    wp True (credQuery d l) w (fun r w' => AQInv sem r.1 w' ∧ r.1.pending = d.pending ∧
      CredOK sem d.pending l r.2) := by
  unfold credQuery
  split
  · rename_i b e hc
    unfold fromCache
    rw [wp_bind]
    apply wp_needLabelsT
    intro _ _
    refine ⟨h, rfl, ?_⟩
    obtain ⟨hb, c, hcm, acc, ref, hcc, hlacc⟩ := cachedCred_spec _ _ _ _ hc
    subst hb
    have hsound := h.cache c hcm
    have : IsExt sem d.pending.g (ofList e) ∧ (∀ l ∈ acc, ∃ id, d.pending.Live id l ∧ id ∈ e) := by
      rcases hcc with rfl | rfl
      · exact ⟨(hsound e rfl).1, (hsound e rfl).2.1⟩
      · exact ⟨(hsound e rfl).1, (hsound e rfl).2.1⟩
    intro id' hl'
    obtain ⟨id'', hl'', hin⟩ := this.2 l hlacc
    have : id'' = id' := h.pend_inv.label_inj id'' id' l hl'' hl'
    subst this
    exact ⟨fun _ => ⟨e, rfl, this.1, hin⟩, fun hf => by simp at hf⟩
  · rw [wp_bind]
    refine wp_mono _ _ _ _ ?_ (wp_updateEncoding h.dinv)
    rintro d' w' ⟨hd, hneed, haf, hp, hb, hn⟩
    have hq := AQInv_of_update h hd hp hb
    have := wp_credSolve hsem hq hneed (by rw [haf, hp]) (by rw [hn, hb]) (l := l) (id := id)
      (by rw [hp]; exact hl)
    rw [hp] at this
    exact this

theorem wp_stSkepQuery {d : ADState} {w : World} (h : AQInv .ST d w) {l id : Nat} (hl : d.pending.Live id l) :
    wp True (stSkepQuery d l) w (fun r w' => AQInv .ST r.1 w' ∧ r.1.pending = d.pending ∧
      SkepOK .ST d.pending l r.2) := by
  unfold stSkepQuery
  split
  · rename_i b e hc
    unfold fromCache
    rw [wp_bind]
    apply wp_needLabelsT
    intro _ _
    refine ⟨h, rfl, ?_⟩
    obtain ⟨hb, c, hcm, acc, ref, hcc, hlref⟩ := cachedSkep_spec _ _ _ _ hc
    subst hb
    have hsound := h.cache c hcm
    have : IsExt .ST d.pending.g (ofList e) ∧ (∀ l ∈ ref, ∀ id, d.pending.Live id l → id ∉ e) := by
      rcases hcc with rfl | rfl
      · exact ⟨(hsound e rfl).1, (hsound e rfl).2.2⟩
      · exact ⟨(hsound e rfl).1, (hsound e rfl).2.2⟩
    intro id' hl'
    exact ⟨fun hf => by simp at hf, fun _ => ⟨e, rfl, this.1, this.2 l hlref id' hl'⟩⟩
  · rw [wp_bind]
    refine wp_mono _ _ _ _ ?_ (wp_updateEncoding h.dinv)
    rintro d' w' ⟨hd, hneed, haf, hp, hb, hn⟩
    have hq := AQInv_of_update h hd hp hb
    have := wp_stSkepSolve hq hneed (by rw [haf, hp]) (by rw [hn, hb]) (l := l) (id := id)
      (by rw [hp]; exact hl)
    rw [hp] at this
    exact this

end Crusta.DynAtt
