import Crusta.Proofs.GroundedAlg

/-!
# The store built by the ICCMA'23 reader

`Store.ofIccma n atts` declares the labels `1..n` and then calls `new_attack_by_ids` once per attack
line.  That call does not test for duplicates, so a file that repeats an attack line yields a store
that violates `Store.Inv.att_nodup`, and `Store.view_ok` does not apply.  `Store.InvD` is the part of
the invariant that survives duplicated attacks (together with the duplicate-freeness of the index
rows); it is enough for the view to present the graph (`Store.view_ok_of_invD`): the multiplicity of
`b` in `attFrom a` and of `a` in `attTo b` both are the number of live attack indexes holding `(a, b)`.
-/

namespace Crusta
namespace Store

/-- `Store.Inv` without `att_nodup`, plus the duplicate-freeness of the rows -/
structure InvD (s : Store) : Prop where
  rows_from : s.from_.length = s.labels.length
  rows_to : s.to_.length = s.labels.length
  l2i_sound : ∀ l i, (l, i) ∈ s.l2i → s.Live i l
  l2i_complete : ∀ l i, s.Live i l → (l, i) ∈ s.l2i
  label_inj : ∀ i j l, s.Live i l → s.Live j l → i = j
  ends_live : ∀ i a b, s.att i = some (a, b) → s.hasId a = true ∧ s.hasId b = true
  in_from : ∀ i a b, s.att i = some (a, b) → i ∈ row s.from_ a
  in_to : ∀ i a b, s.att i = some (a, b) → i ∈ row s.to_ b
  from_ok : ∀ a i, i ∈ row s.from_ a → i < s.attacks.length ∧ (s.att i = none ∨ ∃ b, s.att i = some (a, b))
  to_ok : ∀ b i, i ∈ row s.to_ b → i < s.attacks.length ∧ (s.att i = none ∨ ∃ a, s.att i = some (a, b))
  cnt_att : s.nRemovedAtt = countNone s.attacks
  cnt_lab : s.nRemoved = countNone s.labels
  rows : s.RowsNodup

theorem Inv.invD {s : Store} (hinv : s.Inv) (hr : s.RowsNodup) : s.InvD :=
  ⟨hinv.rows_from, hinv.rows_to, hinv.l2i_sound, hinv.l2i_complete, hinv.label_inj, hinv.ends_live,
    hinv.in_from, hinv.in_to, hinv.from_ok, hinv.to_ok, hinv.cnt_att, hinv.cnt_lab, hr⟩

theorem InvD.rowsLt {s : Store} (hinv : s.InvD) : s.RowsLt := by
  intro a i h
  rcases h with h | h
  · exact (hinv.from_ok a i h).1
  · exact (hinv.to_ok a i h).1

/-! ## pushing an attack between live ids keeps `InvD`, whether or not it is already there -/

theorem invD_pushAtt {s : Store} (hinv : s.InvD) {a b la lb : Nat} (ha : s.Live a la) (hb : s.Live b lb) :
    (s.pushAtt a b).InvD := by
  have halt : a < s.from_.length := by rw [hinv.rows_from]; exact live_lt ha
  have hblt : b < s.to_.length := by rw [hinv.rows_to]; exact live_lt hb
  have hhas : ∀ i, (s.pushAtt a b).hasId i = s.hasId i := fun i => rfl
  have hfrom : ∀ c, row (s.pushAtt a b).from_ c = if c = a then row s.from_ a ++ [s.attacks.length] else row s.from_ c := by
    intro c
    show row (s.from_.set a _) c = _
    by_cases e : c = a
    · subst e; rw [if_pos rfl]; exact row_set_eq _ _ _ halt
    · rw [if_neg e]; exact row_set_ne _ _ _ _ (fun h => e h.symm)
  have hto : ∀ c, row (s.pushAtt a b).to_ c = if c = b then row s.to_ b ++ [s.attacks.length] else row s.to_ c := by
    intro c
    show row (s.to_.set b _) c = _
    by_cases e : c = b
    · subst e; rw [if_pos rfl]; exact row_set_eq _ _ _ hblt
    · rw [if_neg e]; exact row_set_ne _ _ _ _ (fun h => e h.symm)
  have hlen : (s.pushAtt a b).attacks.length = s.attacks.length + 1 := by simp [pushAtt]
  refine ⟨?_, ?_, hinv.l2i_sound, hinv.l2i_complete, hinv.label_inj, ?_, ?_, ?_, ?_, ?_, ?_, hinv.cnt_lab,
    rows_pushAtt hinv.rowsLt hinv.rows a b⟩
  · show (s.from_.set a _).length = _; rw [List.length_set]; exact hinv.rows_from
  · show (s.to_.set b _).length = _; rw [List.length_set]; exact hinv.rows_to
  · intro i c d hcd
    rw [att_pushAtt] at hcd
    rw [hhas, hhas]
    split at hcd
    · injection hcd with hcd; injection hcd with h1 h2; subst h1; subst h2
      exact ⟨hasId_iff.2 ⟨la, ha⟩, hasId_iff.2 ⟨lb, hb⟩⟩
    · exact hinv.ends_live i c d hcd
  · intro i c d hcd
    rw [att_pushAtt] at hcd
    rw [hfrom]
    split at hcd
    · rename_i hi
      injection hcd with hcd; injection hcd with h1 h2; subst h1; subst h2
      rw [if_pos rfl, hi]; simp
    · have := hinv.in_from i c d hcd
      split
      · rename_i e; subst e; exact List.mem_append_left _ this
      · exact this
  · intro i c d hcd
    rw [att_pushAtt] at hcd
    rw [hto]
    split at hcd
    · rename_i hi
      injection hcd with hcd; injection hcd with h1 h2; subst h1; subst h2
      rw [if_pos rfl, hi]; simp
    · have := hinv.in_to i c d hcd
      split
      · rename_i e; subst e; exact List.mem_append_left _ this
      · exact this
  · intro c i hi
    rw [hfrom] at hi
    rw [hlen, att_pushAtt]
    split at hi
    · rename_i e; subst e
      rcases List.mem_append.1 hi with hi | hi
      · have := hinv.from_ok c i hi
        refine ⟨by omega, ?_⟩
        rw [if_neg (by omega)]; exact this.2
      · simp at hi; subst hi
        exact ⟨by omega, by rw [if_pos rfl]; right; exact ⟨b, rfl⟩⟩
    · have := hinv.from_ok c i hi
      refine ⟨by omega, ?_⟩
      rw [if_neg (by omega)]; exact this.2
  · intro c i hi
    rw [hto] at hi
    rw [hlen, att_pushAtt]
    split at hi
    · rename_i e; subst e
      rcases List.mem_append.1 hi with hi | hi
      · have := hinv.to_ok c i hi
        refine ⟨by omega, ?_⟩
        rw [if_neg (by omega)]; exact this.2
      · simp at hi; subst hi
        exact ⟨by omega, by rw [if_pos rfl]; right; exact ⟨a, rfl⟩⟩
    · have := hinv.to_ok c i hi
      refine ⟨by omega, ?_⟩
      rw [if_neg (by omega)]; exact this.2
  · show s.nRemovedAtt = countNone (s.attacks ++ [some (a, b)])
    rw [countNone_append]; simp [countNone, hinv.cnt_att]

/-! ## the view of an `InvD` store presents its graph -/

theorem mem_iterFrom_invD {s : Store} (hinv : s.InvD) (a b : Nat) :
    b ∈ (s.iterFrom a).map (·.2) ↔ s.HasAtt a b := by
  unfold iterFrom
  simp only [List.mem_map, List.mem_filterMap]
  constructor
  · rintro ⟨p, ⟨i, hi, hp⟩, rfl⟩
    rcases (hinv.from_ok a i hi).2 with h | ⟨c, h⟩
    · rw [h] at hp; cases hp
    · rw [h] at hp; injection hp with hp; subst hp; exact ⟨i, h⟩
  · rintro ⟨i, hi⟩
    exact ⟨(a, b), ⟨i, hinv.in_from i a b hi, hi⟩, rfl⟩

theorem mem_iterTo_invD {s : Store} (hinv : s.InvD) (a b : Nat) :
    b ∈ (s.iterTo a).map (·.1) ↔ s.HasAtt b a := by
  unfold iterTo
  simp only [List.mem_map, List.mem_filterMap]
  constructor
  · rintro ⟨p, ⟨i, hi, hp⟩, rfl⟩
    rcases (hinv.to_ok a i hi).2 with h | ⟨c, h⟩
    · rw [h] at hp; cases hp
    · rw [h] at hp; injection hp with hp; subst hp; exact ⟨i, h⟩
  · rintro ⟨i, hi⟩
    exact ⟨(b, a), ⟨i, hinv.in_to i b a hi, hi⟩, rfl⟩

/-- the multiplicity of `b` among the targets listed by a row of attacks from `a` is the number of
row entries holding `(a, b)` -/
theorem count_rowFrom (s : Store) (a b : Nat) (r : List Nat)
    (h : ∀ i ∈ r, s.att i = none ∨ ∃ b, s.att i = some (a, b)) :
    ((r.filterMap s.att).map (·.2)).count b = (r.filter (fun i => s.att i == some (a, b))).length := by
  induction r with
  | nil => simp
  | cons i t ih =>
    have ih' := ih (fun j hj => h j (List.mem_cons_of_mem _ hj))
    rcases h i List.mem_cons_self with e | ⟨c, e⟩
    · simp [e, ih']
    · by_cases hc : c = b
      · subst hc; simp [e, ih']
      · simp [e, ih', hc]

theorem count_rowTo (s : Store) (a b : Nat) (r : List Nat)
    (h : ∀ i ∈ r, s.att i = none ∨ ∃ a, s.att i = some (a, b)) :
    ((r.filterMap s.att).map (·.1)).count a = (r.filter (fun i => s.att i == some (a, b))).length := by
  induction r with
  | nil => simp
  | cons i t ih =>
    have ih' := ih (fun j hj => h j (List.mem_cons_of_mem _ hj))
    rcases h i List.mem_cons_self with e | ⟨c, e⟩
    · simp [e, ih']
    · by_cases hc : c = a
      · subst hc; simp [e, ih']
      · simp [e, ih', hc]

/-- both rows list each live attack `(a, b)` exactly once, hence equally often -/
theorem count_invD {s : Store} (hinv : s.InvD) (a b : Nat) :
    ((s.iterFrom a).map (·.2)).count b = ((s.iterTo b).map (·.1)).count a := by
  unfold iterFrom iterTo
  rw [count_rowFrom s a b _ (fun i hi => (hinv.from_ok a i hi).2),
    count_rowTo s a b _ (fun i hi => (hinv.to_ok b i hi).2)]
  apply List.Perm.length_eq
  refine (List.perm_ext_iff_of_nodup ((hinv.rows.from_nodup a).sublist List.filter_sublist)
    ((hinv.rows.to_nodup b).sublist List.filter_sublist)).2 ?_
  intro i
  simp only [List.mem_filter, beq_iff_eq]
  constructor
  · rintro ⟨_, h⟩; exact ⟨hinv.in_to i a b h, h⟩
  · rintro ⟨_, h⟩; exact ⟨hinv.in_from i a b h, h⟩

/-- `Store.view_ok` without `att_nodup` -/
theorem view_ok_of_invD (st : Store) (hinv : st.InvD) : st.view.Ok st.g := by
  refine ⟨?_, ?_, ?_, ?_, ?_, ?_, ?_, ?_, ?_⟩
  · intro a b ⟨i, hi⟩
    exact hinv.ends_live i a b hi
  · intro a ha
    obtain ⟨l, hl⟩ := Store.hasId_iff.1 ha
    have hlt := Store.live_lt hl
    refine ⟨st.labels.length - 1, ?_, by omega⟩
    have : st.labels ≠ [] := by
      intro e; rw [e] at hlt; simp at hlt
    simp [Store.view, Store.maxId, this]
  · intro a; rfl
  · exact Store.mem_liveArgs st
  · exact Store.liveArgs_nodup st
  · exact mem_iterFrom_invD hinv
  · exact mem_iterTo_invD hinv
  · exact count_invD hinv
  · intro a b
    exact Store.mem_iterAttacks a b

/-! ## the initial store of the ICCMA reader -/

/-- the label set holding `1..n` under the ids `0..n-1` -/
def iccBase (n : Nat) : Store :=
  ⟨(List.range n).map (fun i => some (i + 1)), (List.range n).map (fun i => (i + 1, i)), 0, [], [], [], 0⟩

theorem ofLabels_range (n : Nat) : ofLabels ((List.range n).map (· + 1)) = iccBase n := by
  induction n with
  | zero => rfl
  | succ n ih =>
    unfold ofLabels at ih ⊢
    rw [List.range_succ, List.map_append, List.foldl_append, ih]
    simp only [List.map_cons, List.map_nil, List.foldl_cons, List.foldl_nil]
    have hl : (iccBase n).lookup (n + 1) = none := by
      unfold lookup iccBase
      simp only [Option.map_eq_none_iff, List.find?_eq_none]
      intro p hp
      simp only [List.mem_map, List.mem_range] at hp
      obtain ⟨i, hi, rfl⟩ := hp
      simp; omega
    unfold newLabel
    rw [hl]
    simp [iccBase, List.range_succ]

theorem countNone_map_some {α β : Type} (f : α → β) (l : List α) :
    countNone (l.map (fun i => some (f i))) = 0 := by
  induction l with
  | nil => rfl
  | cons a t ih => simp [countNone, ih]

theorem labels_getD_range (n i : Nat) :
    ((List.range n).map (fun i => some (i + 1))).getD i none = if i < n then some (i + 1) else none := by
  rw [List.getD_eq_getElem?_getD, List.getElem?_map]
  by_cases h : i < n
  · rw [List.getElem?_range h, if_pos h]; rfl
  · rw [List.getElem?_eq_none (by simp; omega), if_neg h]; rfl

/-- the state of the reader while it consumes the attack lines: `InvD`, and the `n` labels untouched -/
structure IccSt (n : Nat) (s : Store) : Prop where
  invd : s.InvD
  labels : s.labels = (List.range n).map (fun i => some (i + 1))
  nrem : s.nRemoved = 0

theorem IccSt.live {n : Nat} {s : Store} (h : s.IccSt n) (i l : Nat) : s.Live i l ↔ (i < n ∧ l = i + 1) := by
  unfold Live labelOf
  rw [h.labels, labels_getD_range]
  by_cases hi : i < n
  · rw [if_pos hi]; simp [hi]; omega
  · rw [if_neg hi]; simp [hi]

theorem IccSt.hasId {n : Nat} {s : Store} (h : s.IccSt n) (i : Nat) : s.hasId i = true ↔ i < n := by
  rw [hasId_iff]
  constructor
  · rintro ⟨l, hl⟩; exact ((h.live i l).1 hl).1
  · intro hi; exact ⟨i + 1, (h.live i _).2 ⟨hi, rfl⟩⟩

theorem iccSt_base (n : Nat) : ((ofLabels ((List.range n).map (· + 1))).withRowsByLen).IccSt n := by
  rw [ofLabels_range]
  have hlive : ∀ i l, ((iccBase n).withRowsByLen).Live i l ↔ (i < n ∧ l = i + 1) := by
    intro i l
    unfold Live labelOf
    show ((List.range n).map (fun i => some (i + 1))).getD i none = some l ↔ _
    rw [labels_getD_range]
    by_cases hi : i < n
    · rw [if_pos hi]; simp [hi]; omega
    · rw [if_neg hi]; simp [hi]
  have hatt : ∀ i, ((iccBase n).withRowsByLen).att i = none := by
    intro i; simp [att, withRowsByLen, iccBase]
  have hrowF : ∀ a, row ((iccBase n).withRowsByLen).from_ a = [] := fun a => row_replicate _ a
  have hrowT : ∀ a, row ((iccBase n).withRowsByLen).to_ a = [] := fun a => row_replicate _ a
  refine ⟨⟨?_, ?_, ?_, ?_, ?_, ?_, ?_, ?_, ?_, ?_, ?_, ?_, rows_withRowsByLen _⟩, rfl, rfl⟩
  · simp [withRowsByLen]
  · simp [withRowsByLen]
  · intro l i hm
    rw [hlive]
    have hm' : (l, i) ∈ (List.range n).map (fun i => (i + 1, i)) := hm
    simp only [List.mem_map, List.mem_range, Prod.mk.injEq] at hm'
    obtain ⟨j, hj, rfl, rfl⟩ := hm'
    exact ⟨hj, rfl⟩
  · intro l i hl
    rw [hlive] at hl
    obtain ⟨hi, rfl⟩ := hl
    show (i + 1, i) ∈ (List.range n).map (fun i => (i + 1, i))
    simp only [List.mem_map, List.mem_range, Prod.mk.injEq]
    exact ⟨i, hi, rfl, rfl⟩
  · intro i j l hi hj
    rw [hlive] at hi hj
    omega
  · intro i a b h; rw [hatt] at h; cases h
  · intro i a b h; rw [hatt] at h; cases h
  · intro i a b h; rw [hatt] at h; cases h
  · intro a i h; rw [hrowF] at h; simp at h
  · intro a i h; rw [hrowT] at h; simp at h
  · rfl
  · show 0 = countNone ((List.range n).map (fun i => some (i + 1)))
    rw [countNone_map_some]

/-! ## one attack line -/

/-- with both ids declared, `new_attack_by_ids` succeeds and pushes the attack -/
theorem IccSt.newAttackByIds {n : Nat} {s : Store} (h : s.IccSt n) {a b : Nat} (ha : a < n) (hb : b < n) :
    s.newAttackByIds a b = .ok (s.pushAtt a b) ∧ (s.pushAtt a b).IccSt n := by
  have hlen : s.labels.length = n := by rw [h.labels]; simp
  constructor
  · unfold Store.newAttackByIds
    have h1 : ¬ ((decide (a ≥ s.len) || decide (b ≥ s.len)) = true) := by
      unfold len; rw [h.nrem, hlen]; simp; omega
    have h2 : ¬ ((decide (a ≥ s.from_.length) || decide (b ≥ s.to_.length)) = true) := by
      rw [h.invd.rows_from, h.invd.rows_to, hlen]; simp; omega
    rw [if_neg h1, if_neg h2]
    rfl
  · exact ⟨invD_pushAtt h.invd ((h.live a (a + 1)).2 ⟨ha, rfl⟩) ((h.live b (b + 1)).2 ⟨hb, rfl⟩), h.labels, h.nrem⟩

/-! ## all attack lines -/

theorem iccFold {n : Nat} (atts : List (Nat × Nat)) (h : ∀ p ∈ atts, p.1 < n ∧ p.2 < n) :
    ∀ s : Store, s.IccSt n →
      (atts.foldl (fun s p => match s.newAttackByIds p.1 p.2 with
        | .ok s' => s' | .err s' => s' | .panic => s) s).IccSt n ∧
      ∀ a b, (atts.foldl (fun s p => match s.newAttackByIds p.1 p.2 with
        | .ok s' => s' | .err s' => s' | .panic => s) s).HasAtt a b ↔ (s.HasAtt a b ∨ (a, b) ∈ atts) := by
  induction atts with
  | nil => intro s hs; exact ⟨hs, fun a b => by simp⟩
  | cons p t ih =>
    intro s hs
    obtain ⟨hp1, hp2⟩ := h p List.mem_cons_self
    obtain ⟨he, hs'⟩ := hs.newAttackByIds hp1 hp2
    obtain ⟨i1, i2⟩ := ih (fun q hq => h q (List.mem_cons_of_mem _ hq)) _ hs'
    simp only [List.foldl_cons, he]
    refine ⟨i1, fun a b => ?_⟩
    rw [i2, hasAtt_pushAtt]
    simp only [List.mem_cons]
    constructor
    · rintro ((h1 | ⟨rfl, rfl⟩) | h1)
      · exact Or.inl h1
      · exact Or.inr (Or.inl rfl)
      · exact Or.inr (Or.inr h1)
    · rintro (h1 | h1 | h1)
      · exact Or.inl (Or.inl h1)
      · subst h1; exact Or.inl (Or.inr ⟨rfl, rfl⟩)
      · exact Or.inr h1

theorem ofIccma_iccSt (n : Nat) (atts : List (Nat × Nat)) (h : ∀ p ∈ atts, p.1 < n ∧ p.2 < n) :
    (ofIccma n atts).IccSt n ∧ ∀ a b, (ofIccma n atts).HasAtt a b ↔ (a, b) ∈ atts := by
  obtain ⟨h1, h2⟩ := iccFold atts h _ (iccSt_base n)
  refine ⟨h1, fun a b => ?_⟩
  refine Iff.trans (h2 a b) ?_
  constructor
  · rintro (⟨i, hi⟩ | h3)
    · have hatt : ((ofLabels ((List.range n).map (· + 1))).withRowsByLen).att i = none := by
        rw [ofLabels_range]; simp [att, withRowsByLen, iccBase]
      rw [hatt] at hi; cases hi
    · exact h3
  · exact Or.inr

/-- the store built by the ICCMA reader presents its graph, even when attack lines are repeated -/
theorem ofIccma_view_ok (n : Nat) (atts : List (Nat × Nat)) (h : ∀ p ∈ atts, p.1 < n ∧ p.2 < n) :
    (Store.ofIccma n atts).view.Ok (Store.ofIccma n atts).g :=
  view_ok_of_invD _ (ofIccma_iccSt n atts h).1.invd

/-- and its graph is the declared one -/
theorem ofIccma_g (n : Nat) (atts : List (Nat × Nat)) (h : ∀ p ∈ atts, p.1 < n ∧ p.2 < n) :
    (∀ a, (Store.ofIccma n atts).hasId a = true ↔ a < n) ∧
    (∀ a b, (Store.ofIccma n atts).HasAtt a b ↔ (a, b) ∈ atts) :=
  ⟨(ofIccma_iccSt n atts h).1.hasId, (ofIccma_iccSt n atts h).2⟩

end Store
end Crusta
