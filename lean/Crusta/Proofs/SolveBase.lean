import Crusta.Proofs.EncKind
import Crusta.Proofs.Wp
import Crusta.Model.Solvers

/-!
# Common ground for the proofs about the static solvers

Changing an assignment on a variable that does not occur; what `encodeInto` leaves in the solver;
the variables of the arguments are below `n_vars` afterwards, so that `n_vars + 1` is a fresh
selector.
-/

namespace Crusta
open Prog (mkSolver doReserve addClause addClauses getNVars doSolve)

def Asg.set (ν : Asg) (v : Nat) (b : Bool) : Asg := fun x => if x = v then b else ν x

@[simp] theorem Asg.set_self (ν : Asg) (v : Nat) (b : Bool) : ν.set v b v = b := by simp [Asg.set]
theorem Asg.set_ne (ν : Asg) {v x : Nat} (b : Bool) (h : x ≠ v) : ν.set v b x = ν x := by simp [Asg.set, h]

theorem litTrue_set_ne (ν : Asg) (v : Nat) (b : Bool) {l : Lit} (h : l.var ≠ v) :
    litTrue (ν.set v b) l = litTrue ν l := by
  simp [litTrue, Asg.set_ne ν b h]

theorem clauseTrue_set_fresh (ν : Asg) (v : Nat) (b : Bool) {c : Clause} (h : ∀ l ∈ c, l.var ≠ v) :
    clauseTrue (ν.set v b) c = clauseTrue ν c := by
  unfold clauseTrue
  induction c with
  | nil => rfl
  | cons a t ih =>
    simp only [List.any_cons]
    rw [litTrue_set_ne ν v b (h a (by simp)), ih (fun l hl => h l (by simp [hl]))]

theorem cnfTrue_set_fresh (ν : Asg) (v : Nat) (b : Bool) {f : Cnf} (h : ∀ c ∈ f, ∀ l ∈ c, l.var ≠ v) :
    cnfTrue (ν.set v b) f = cnfTrue ν f := by
  unfold cnfTrue
  induction f with
  | nil => rfl
  | cons a t ih =>
    simp only [List.all_cons]
    rw [clauseTrue_set_fresh ν v b (h a (by simp)), ih (fun c hc => h c (by simp [hc]))]

theorem EncKind.S_set_fresh (k : EncKind) (af : AF) (ν : Asg) (v : Nat) (b : Bool)
    (h : ∀ a, a < af.n → k.argVar a ≠ v) : k.S af (ν.set v b) = k.S af ν := by
  funext a
  unfold EncKind.S setOfAsg
  by_cases ha : a < af.n
  · simp [ha, Asg.set_ne ν b (h a ha)]
  · simp [ha]

@[simp] theorem litTrue_pl' (ν : Asg) (v : Nat) : litTrue ν (pl v) = ν v := by simp [litTrue, pl]
@[simp] theorem litTrue_nl' (ν : Asg) (v : Nat) : litTrue ν (nl v) = !ν v := by simp [litTrue, nl]

theorem Comp.pos_lt {c : Comp} (hn : c.af.n = c.ids.length) {a i : Nat} (h : c.pos a = some i) : i < c.af.n := by
  unfold Comp.pos posOf at h
  obtain ⟨hlt, _⟩ := List.findIdx?_eq_some_iff_getElem.1 h
  omega

theorem cnfTrue_iff (ν : Asg) (f : Cnf) : cnfTrue ν f = true ↔ ∀ c ∈ f, clauseTrue ν c = true := by
  simp [cnfTrue, List.all_eq_true]

theorem clauseTrue_iff (ν : Asg) (c : Clause) : clauseTrue ν c = true ↔ ∃ l ∈ c, litTrue ν l = true := by
  simp [clauseTrue, List.any_eq_true]

/-! ## `encodeInto` -/

def addAllS (s : Nat) (w : World) (cs : Cnf) : World := cs.foldl (fun w c => w.onClause s c) w

theorem wp_addClausesS {C : Prop} (s : Nat) : ∀ (cs : Cnf) (w : World) (Q : Unit → World → Prop),
    wp C (addClauses s cs) w Q ↔ Q () (addAllS s w cs)
  | [], w, Q => Iff.rfl
  | c :: cs, w, Q => by
    simp only [Prog.addClauses, wp, addAllS, List.foldl_cons]
    exact wp_addClausesS s cs (w.onClause s c) Q

theorem db_addAllS (s t : Nat) : ∀ (cs : Cnf) (w : World),
    (addAllS s w cs).db t = if s = t then cs.reverse ++ w.db t else w.db t
  | [], w => by simp [addAllS]
  | c :: cs, w => by
    simp only [addAllS, List.foldl_cons]
    have := db_addAllS s t cs (w.onClause s c)
    simp only [addAllS] at this
    rw [this, db_onClause]
    by_cases h : s = t <;> simp [h]

theorem solvers_len_addAllS (s : Nat) : ∀ (cs : Cnf) (w : World), (addAllS s w cs).solvers.length = w.solvers.length
  | [], w => rfl
  | c :: cs, w => by
    simp only [addAllS, List.foldl_cons]
    have := solvers_len_addAllS s cs (w.onClause s c)
    simp only [addAllS] at this
    rw [this]; simp [World.onClause, World.upd]

theorem nVarsOf_mono_addAllS (s t : Nat) : ∀ (cs : Cnf) (w : World), w.nVarsOf t ≤ (addAllS s w cs).nVarsOf t
  | [], w => Nat.le_refl _
  | c :: cs, w => by
    simp only [addAllS, List.foldl_cons]
    have := nVarsOf_mono_addAllS s t cs (w.onClause s c)
    simp only [addAllS] at this
    refine Nat.le_trans ?_ this
    have e : (w.onClause s c).nVarsOf t = (w.upd s (fun st => { st with maxVar := max st.maxVar (litsMax c) })).nVarsOf t := rfl
    rw [e, nVarsOf_upd]
    split
    · rename_i hh
      obtain ⟨rfl, _⟩ := hh
      simp only [SolverSt.nVars, World.nVarsOf]
      omega
    · exact Nat.le_refl _

theorem nVarsOf_onReserve_ge (w : World) (s n : Nat) (hs : s < w.solvers.length) :
    n ≤ (w.onReserve s n).nVarsOf s := by
  have e : (w.onReserve s n).nVarsOf s = (w.upd s (fun st => { st with reserved := max st.reserved n })).nVarsOf s := rfl
  rw [e, nVarsOf_upd, if_pos ⟨rfl, hs⟩]
  simp only [SolverSt.nVars]
  omega

/-- what `encodeInto` leaves behind in a freshly created solver -/
structure Encoded (k : EncKind) (af : AF) (s : Nat) (withRange : Bool) (w : World) : Prop where
  exists_ : s < w.solvers.length
  db : w.db s = (if withRange then k.clausesRange af else k.clauses af).reverse
  reserved : ∀ r, k.reserve af.n withRange = some r → r ≤ w.nVarsOf s
  bounded : w.Bounded


theorem wp_mkSolver {C : Prop} (w : World) (Q : Nat → World → Prop) :
    wp C mkSolver w Q ↔ Q w.solvers.length w.onNew := Iff.rfl

theorem wp_getNVars {C : Prop} (s : Nat) (w : World) (Q : Nat → World → Prop) :
    wp C (getNVars s) w Q ↔ Q (w.nVarsOf s) (w.onNVars s) := Iff.rfl

theorem wp_addClause1 {C : Prop} (s : Nat) (c : Clause) (w : World) (Q : Unit → World → Prop) :
    wp C (addClause s c) w Q ↔ Q () (w.onClause s c) := Iff.rfl

theorem wp_encodeInto {C : Prop} (k : EncKind) (af : AF) (s : Nat) (withRange : Bool) (w : World)
    (hb : w.Bounded) (hs : s < w.solvers.length) (hdb : w.db s = []) (Q : Unit → World → Prop)
    (h : ∀ w', Encoded k af s withRange w' → w'.solvers.length = w.solvers.length → Q () w') :
    wp C (encodeInto k af s withRange) w Q := by
  unfold encodeInto
  cases hr : k.reserve af.n withRange with
  | none =>
    show wp C ((Prog.pure () : Prog Unit).bind fun _ => addClauses _ _) w _
    rw [wp_bind]
    show wp C (addClauses _ _) w _
    rw [wp_addClausesS]
    refine h _ ⟨by rw [solvers_len_addAllS]; exact hs, ?_, ?_, ?_⟩ (solvers_len_addAllS _ _ _)
    · rw [db_addAllS, if_pos rfl, hdb]; simp
    · intro r hr'; rw [hr] at hr'; cases hr'
    · have := wp_bounded (C := True) (addClauses s (if withRange then k.clausesRange af else k.clauses af))
        w (fun _ _ => True) hb (by rw [wp_addClausesS]; trivial)
      rw [wp_addClausesS] at this
      exact this.1
  | some r =>
    show wp C ((doReserve _ r).bind fun _ => addClauses _ _) w _
    rw [wp_bind]
    show wp C (addClauses _ _) (w.onReserve _ r) _
    rw [wp_addClausesS]
    have hlen : (w.onReserve s r).solvers.length = w.solvers.length := by simp [World.onReserve, World.upd]
    refine h _ ⟨by rw [solvers_len_addAllS, hlen]; exact hs, ?_, ?_, ?_⟩ (by rw [solvers_len_addAllS, hlen])
    · rw [db_addAllS, if_pos rfl, db_onReserve, hdb]; simp
    · intro r' hr'
      rw [hr] at hr'; injection hr' with hr'; subst hr'
      exact Nat.le_trans (nVarsOf_onReserve_ge _ _ _ hs) (nVarsOf_mono_addAllS _ _ _ _)
    · have hb2 := Bounded_onReserve hb s r
      have := wp_bounded (C := True) (addClauses s (if withRange then k.clausesRange af else k.clauses af))
        _ (fun _ _ => True) hb2 (by rw [wp_addClausesS]; trivial)
      rw [wp_addClausesS] at this
      exact this.1

theorem Encoded.argVar_le {k : EncKind} {af : AF} {s : Nat} {w : World} (h : Encoded k af s false w)
    {a : Nat} (ha : a < af.n) : k.argVar a ≤ w.nVarsOf s := by
  cases k with
  | auxCF | auxADM | auxCO =>
    all_goals
      have := h.reserved (af.n * 2) (by simp [EncKind.reserve])
      have := (Aux.x_le_reserve ha).2
      simp only [EncKind.argVar]; omega
  | expCF | expCO | hyb =>
    all_goals
      have := h.reserved af.n (by simp [EncKind.reserve])
      simp only [EncKind.argVar]; omega
  | stb =>
    have hc : (pl (Stb.x a) :: ((af.attackers a).filter (fun b => !(b == a))).map (fun b => pl (Stb.x b))) ∈ w.db s := by
      rw [h.db]
      simp only [Bool.false_eq_true, if_false, List.mem_reverse, EncKind.clauses, Stb.enc, List.mem_flatMap,
        List.mem_range]
      exact ⟨a, ha, by simp [Stb.argCl]⟩
    have := h.bounded s h.exists_ _ hc (pl (Stb.x a)) (by simp)
    simpa [EncKind.argVar, Stb.x, pl] using this

theorem Encoded.db_lt {k : EncKind} {af : AF} {s : Nat} {wr : Bool} {w : World} (h : Encoded k af s wr w) :
    ∀ c ∈ w.db s, ∀ l ∈ c, l.var < w.nVarsOf s + 1 := by
  intro c hc l hl
  have := h.bounded s h.exists_ c hc l hl
  omega

end Crusta
