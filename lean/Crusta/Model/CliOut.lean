import Crusta.Model.Cli
import Crusta.Model.Readers

/-!
# What `crustabri solve` prints on stdout (`app/solve_command.rs::execute_with_reader_and_writer`)

* SE problems: `Some(ext)` → `writer.write_single_extension(ext)`, `None` → `writer.write_no_extension()`;
* DC / DS problems: `writer.write_acceptance_status(status)`, then, if the solver returned a
  certificate, `writer.write_single_extension(cert)`.

`stdoutOf` is the text; `parseStdoutIccma` / `parseStdoutApx` are what a reader of that text sees
(`Shown`): the status line and the printed set, translated back to argument ids.  The parsers accept
exactly the line structure the command can produce (every line `\n`-terminated, one line for SE,
one or two lines for DC / DS) and nothing else.
-/

namespace Crusta.Cli
open Crusta

/-- stdout of `crustabri solve` for an answer; `lab` = label text of an argument id, `wext` = the
writer's extension line -/
def stdoutOf (lab : Nat → Str) (wext : List Str → Str) : Ans → Str
  | .ext none => IO.writeNoExt
  | .ext (some e) => wext (e.map lab)
  | .acc a _ => IO.writeStatus a.status ++ (match a.cert with | some e => wext (e.map lab) | none => [])

/-- ICCMA'23: the label of the argument with id `i` is the number `i + 1` -/
def iccmaLab (i : Nat) : Str := IO.natToStr (i + 1)

def stdoutIccma : Ans → Str := stdoutOf iccmaLab IO.writeExtIccma

/-- Aspartix: the label of the argument with id `i` is the `i`-th declared name -/
def stdoutApx (labels : List Str) : Ans → Str := stdoutOf (fun i => labels.getD i []) IO.writeExtApx

/-- what a reader of stdout sees: for SE `status = none`; `ext` = the printed set as argument ids,
in the order printed -/
structure Shown where
  status : Option Bool
  ext : Option (List Nat)
deriving Repr, DecidableEq

/-- what an answer is meant to show -/
def shownOf : Ans → Shown
  | .ext e => ⟨none, e⟩
  | .acc a _ => ⟨some a.status, a.cert⟩

/-- is the answer of the kind the task's entry point returns? -/
def shapeOk : Task → Ans → Bool
  | .SE, .ext _ => true
  | .DC, .acc _ _ => true
  | .DS, .acc _ _ => true
  | _, _ => false

/-- the `\n`-terminated lines of a text (without their terminators); `none` if the last line is
not terminated.  `cur` = the current line, reversed. -/
def linesOf : Str → Str → Option (List Str)
  | [], cur => if cur.isEmpty then some [] else none
  | c :: cs, cur => if c == 10 then (linesOf cs []).map (cur.reverse :: ·) else linesOf cs (c :: cur)

/-- `f` on every element; `none` as soon as one fails -/
def mapOpt {α β : Type} (f : α → Option β) : List α → Option (List β)
  | [] => some []
  | x :: xs =>
    match f x, mapOpt f xs with
    | some y, some ys => some (y :: ys)
    | _, _ => none

/-- an unsigned decimal number of any size: at least one digit, ASCII digits only -/
def parseDec (w : Str) : Option Nat :=
  if w.isEmpty || !w.all IO.isAsciiDigit then none else some (IO.digitsVal w)

/-- ICCMA'23 label → argument id: the number minus one; `0` is no label -/
def iccmaIdOf (w : Str) : Option Nat :=
  match parseDec w with
  | some (k + 1) => some k
  | _ => none

def sYES : Str := [89, 69, 83]
def sNO : Str := [78, 79]

def statusOfLine (l : Str) : Option Bool :=
  if l = sYES then some true else if l = sNO then some false else none

/-- the line structure of stdout, `pext` reading one extension line (given without its `\n`) -/
def parseStdoutWith (pext : Str → Option (List Nat)) (t : Task) (s : Str) : Option Shown :=
  match linesOf s [] with
  | none => none
  | some ls =>
    match t with
    | .SE =>
      match ls with
      | [l] => if l = sNO then some ⟨none, none⟩ else (pext l).map (fun e => ⟨none, some e⟩)
      | _ => none
    | _ =>
      match ls with
      | [l] => (statusOfLine l).map (fun b => ⟨some b, none⟩)
      | [l, l2] =>
        match statusOfLine l, pext l2 with
        | some b, some e => some ⟨some b, some e⟩
        | _, _ => none
      | _ => none

/-- one line `w l1 l2 …` of numbers `≥ 1`, as argument ids -/
def extLineIccma (l : Str) : Option (List Nat) :=
  match IO.parseExtIccma (l ++ [10]) with
  | some ws => mapOpt iccmaIdOf ws
  | none => none

/-- one line `[l1,l2,…]` of declared labels, as argument ids (positions in `labels`) -/
def extLineApx (labels : List Str) (l : Str) : Option (List Nat) :=
  match IO.parseExtApx (l ++ [10]) with
  | some ws => mapOpt (IO.idxOf labels) ws
  | none => none

/-- stdout of an ICCMA'23 run read back: SE: `NO` → no extension, else one `w …` line;
DC / DS: `YES` / `NO`, then possibly one `w …` line; anything else is rejected -/
def parseStdoutIccma (t : Task) (s : Str) : Option Shown := parseStdoutWith extLineIccma t s

/-- the same for the Aspartix writer: `[l1,…]` lines, labels looked up in the declared ones -/
def parseStdoutApx (labels : List Str) (t : Task) (s : Str) : Option Shown :=
  parseStdoutWith (extLineApx labels) t s

end Crusta.Cli
