import Crusta.Model.Cli
import Crusta.Proofs.StaticPRAdm
import Crusta.Proofs.DynPR

/-!
# The composition theorem for the command line

`solve_command.rs` answers a problem `t-σ` (`t` ∈ SE / DC / DS, `σ` one of the seven semantics) by
building one solver object (`dispatchSolver t σ`), handing it the encoder chosen by the `--encoding`
option (`dispatchEncoder`), and calling one entry point on it.  The solver object is **not** always
the solver of `σ`: SE-CO and DS-CO are answered by the grounded solver, DC-PR by the complete
solver; and the encoder is **not** always the one the solver type is specified for: for the problem
string literally `SE-PR` and the encoding `aux_var` the preferred solver is given the encoder of
the admissible sets.

This file composes the dispatch tables with the solver theorems (`static_entry_total`, and
`pr_se_total_adm` for the admissibility encoder) and the spec-level bridges between the semantics:

* `ProblemOK t σ g e ans`: what the command line must print for the problem `t-σ`;
* `cli_dispatch_cfg_ok`: the dispatched encoder satisfies the hypothesis of the dispatched solver;
* `cli_answer_valid`: the dispatched program never crashes and returns a `ProblemOK` answer;
* `cli_run_total`: the same on interpreter runs.
-/

namespace Crusta.Cli
open Crusta

/-! ## what the command line must answer -/

/-- the entry point called for a task (`cert` = `--with-certificate`, `args` = the queried arguments) -/
def entryOf : Task → Bool → List Nat → Entry
  | .SE, _, _ => .se
  | .DC, cert, args => .dc cert args
  | .DS, cert, args => .ds cert args

theorem entryOf_eq (t : Task) (cert : Bool) (args : List Nat) :
    entryOf t cert args = (match t with | .SE => .se | .DC => .dc cert args | .DS => .ds cert args) := by
  cases t <;> rfl

/-- credulous acceptance with the status decided under `σ` and the YES certificate an extension
under `τ` that contains a queried argument (`DCOK σ` when `τ = σ`) -/
def DCWOK (σ τ : Sem) (g : G) (args : List Nat) (cert : Bool) (a : AccAns) : Prop :=
  (a.status = true → (∃ S, σ.GExt g S ∧ HitsL args S) ∧
    (cert = true → ∃ e, a.cert = some e ∧ τ.GExt g (ofList e) ∧ HitsL args (ofList e))) ∧
  (a.status = false → (¬ ∃ S, σ.GExt g S ∧ HitsL args S) ∧ (cert = true → a.cert = none))

theorem DCWOK_self (σ : Sem) (g : G) (args : List Nat) (cert : Bool) (a : AccAns) :
    DCWOK σ σ g args cert a ↔ DCOK σ g args cert a := Iff.rfl

/-- **what the command line must print for the problem `t-σ`** on the graph `g`:
* SE: an extension of `g` under `σ`; "no extension" only if there is none;
* DC: YES iff some `σ`-extension contains a queried argument; a YES certificate (when requested) is
  an extension under `witnessSem .DC σ` containing a queried argument (`σ` itself, except for DC-PR:
  a complete extension, which lies inside a preferred one, `dc_pr_certificate_extends`); NO has none;
* DS: YES iff every `σ`-extension contains a queried argument; a NO certificate (when requested) is a
  `σ`-extension containing none; YES has none.
Without `--with-certificate` no certificate is printed. -/
def ProblemOK (t : Task) (σ : Sem) (g : G) (e : Entry) (ans : Ans) : Prop :=
  match t, e, ans with
  | .SE, .se, .ext res => SEOK σ g res
  | .DC, .dc cert args, .acc a cv =>
    cv = cert ∧ DCWOK σ (witnessSem .DC σ) g args cert a ∧ (cert = false → a.cert = none)
  | .DS, .ds cert args, .acc a cv => cv = cert ∧ DSOK σ g args cert a ∧ (cert = false → a.cert = none)
  | _, _, _ => False

/-- except for DC-PR, `ProblemOK` is `EntryOK` for the queried semantics -/
theorem problemOK_iff_entryOK (t : Task) (σ : Sem) (h : ¬ (t = .DC ∧ σ = .PR)) (g : G) (cert : Bool)
    (args : List Nat) (ans : Ans) :
    ProblemOK t σ g (entryOf t cert args) ans ↔ EntryOK σ g (entryOf t cert args) ans := by
  cases t with
  | SE => cases ans <;> exact Iff.rfl
  | DS => cases ans <;> exact Iff.rfl
  | DC =>
    cases ans with
    | ext res => exact Iff.rfl
    | acc a cv =>
      cases σ with
      | PR => exact absurd ⟨rfl, rfl⟩ h
      | _ => exact Iff.rfl

/-! ## bridges between the semantics, on a graph -/

/-- the grounded extension is a complete extension: SE-CO through the grounded solver -/
theorem seok_co_of_gr {g : G} (hex : ∃ S, g.Grounded S) {res : Option (List Nat)} (h : SEOK .GR g res) :
    SEOK .CO g res :=
  ⟨fun e he => (h.1 e he).1, fun hn => absurd hex (h.2 hn)⟩

/-- the grounded extension is complete and contained in every complete extension: DS-CO through
the grounded solver (a queried argument is in every complete extension iff it is in the grounded
one; the grounded extension is the counterexample otherwise) -/
theorem dsok_co_of_gr {g : G} (hex : ∃ S, g.Grounded S) {args : List Nat} {cert : Bool} {a : AccAns}
    (h : DSOK .GR g args cert a) : DSOK .CO g args cert a := by
  obtain ⟨G0, hG0⟩ := hex
  refine ⟨fun hs => ⟨fun S hS => ?_, (h.1 hs).2⟩, fun hs => ⟨?_, fun hc => ?_⟩⟩
  · exact hitsL_mono (hG0.2 S hS) ((h.1 hs).1 G0 hG0)
  · obtain ⟨S, hS, hn⟩ := (h.2 hs).1
    exact ⟨S, hS.1, hn⟩
  · obtain ⟨e, he, hS, hn⟩ := (h.2 hs).2 hc
    exact ⟨e, he, hS.1, hn⟩

/-- credulous acceptance under the complete and the preferred semantics coincide (every preferred
extension is complete; every complete extension lies inside a preferred one) -/
theorem dc_co_iff_dc_pr_G {g : G} (hfin : ∃ n, ∀ a, g.live a = true → a < n) (args : List Nat) :
    (∃ S, g.Complete S ∧ HitsL args S) ↔ (∃ S, g.Preferred S ∧ HitsL args S) := by
  constructor
  · rintro ⟨S, hS, hh⟩
    obtain ⟨P, hP, hSP⟩ := g.exists_preferred_above hfin S hS.1
    exact ⟨P, hP, hitsL_mono hSP hh⟩
  · rintro ⟨S, hS, hh⟩
    exact ⟨S, G.preferred_complete hS, hh⟩

/-- DC-PR through the complete solver -/
theorem dcwok_pr_of_co {g : G} (hfin : ∃ n, ∀ a, g.live a = true → a < n) {args : List Nat} {cert : Bool}
    {a : AccAns} (h : DCOK .CO g args cert a) : DCWOK .PR .CO g args cert a :=
  ⟨fun hs => ⟨(dc_co_iff_dc_pr_G hfin args).1 (h.1 hs).1, (h.1 hs).2⟩,
   fun hs => ⟨fun hn => (h.2 hs).1 ((dc_co_iff_dc_pr_G hfin args).2 hn), (h.2 hs).2⟩⟩

/-- the certificate printed for DC-PR (a complete extension containing a queried argument) extends
to a preferred extension containing that argument -/
theorem dc_pr_certificate_extends {g : G} (hfin : ∃ n, ∀ a, g.live a = true → a < n) {args : List Nat}
    {e : List Nat} (he : Sem.GExt (witnessSem .DC .PR) g (ofList e)) (hh : HitsL args (ofList e)) :
    ∃ P, Sem.GExt .PR g P ∧ SubsetS (ofList e) P ∧ HitsL args P := by
  have he' : g.Complete (ofList e) := he
  obtain ⟨P, hP, hSP⟩ := g.exists_preferred_above hfin _ he'.1
  exact ⟨P, hP, hSP, hitsL_mono hSP hh⟩

/-- **the dispatch table is semantically right**: an answer that conforms for the semantics of the
dispatched solver and the entry point of the task is what the problem asks for -/
theorem problemOK_of_entryOK (t : Task) (σ : Sem) {g : G} (hex : ∃ S, g.Grounded S)
    (hfin : ∃ n, ∀ a, g.live a = true → a < n) (cert : Bool) (args : List Nat) (ans : Ans)
    (h : EntryOK (dispatchSolver t σ).sem g (entryOf t cert args) ans) :
    ProblemOK t σ g (entryOf t cert args) ans := by
  cases t with
  | SE =>
    cases ans with
    | acc a cv => exact h
    | ext res =>
      have h' : SEOK (dispatchSolver .SE σ).sem g res := h
      show SEOK σ g res
      cases σ with
      | CO => exact seok_co_of_gr hex h'
      | _ => exact h'
  | DC =>
    cases ans with
    | ext res => exact h
    | acc a cv =>
      have h' : cv = cert ∧ DCOK (dispatchSolver .DC σ).sem g args cert a ∧ (cert = false → a.cert = none) := h
      show cv = cert ∧ DCWOK σ (witnessSem .DC σ) g args cert a ∧ (cert = false → a.cert = none)
      cases σ with
      | PR => exact ⟨h'.1, dcwok_pr_of_co hfin h'.2.1, h'.2.2⟩
      | _ => exact h'
  | DS =>
    cases ans with
    | ext res => exact h
    | acc a cv =>
      have h' : cv = cert ∧ DSOK (dispatchSolver .DS σ).sem g args cert a ∧ (cert = false → a.cert = none) := h
      show cv = cert ∧ DSOK σ g args cert a ∧ (cert = false → a.cert = none)
      cases σ with
      | CO => exact ⟨h'.1, dsok_co_of_gr hex h'.2.1, h'.2.2⟩
      | _ => exact h'

/-! ## the encoder handed to the solver -/

/-- the configurations the command line produces: those of `CfgOK`, and for the `se` entry point of
the preferred solver also an encoder of the admissible sets -/
def CliCfgOK (sk : SolverKind) (e : Entry) (cfg : Cfg) : Prop :=
  CfgOK sk cfg ∨ (sk = .PR ∧ e = .se ∧ ∀ af T, cfg.enc.Base af T ↔ Admissible af T)

theorem CliCfgOK.of_cfgOK {sk : SolverKind} {e : Entry} {cfg : Cfg} (h : CfgOK sk cfg) : CliCfgOK sk e cfg :=
  Or.inl h

/-- `create_encoder` for CO / SST / ID: one of the three encoders of the complete extensions -/
theorem dispatchEncoder_std (σ : Sem) (hσ : σ = .CO ∨ σ = .SST ∨ σ = .ID) (enc : Option String) (l : Bool) :
    ∃ k, dispatchEncoder σ enc l = some k ∧ (k = .auxCO ∨ k = .expCO ∨ k = .hyb) := by
  rcases hσ with rfl | rfl | rfl <;>
  · unfold dispatchEncoder
    simp only
    split
    · exact ⟨_, rfl, Or.inl rfl⟩
    · exact ⟨_, rfl, Or.inr (Or.inl rfl)⟩
    · exact ⟨_, rfl, Or.inr (Or.inr rfl)⟩

/-- `create_encoder` for PR when the problem string is not literally `SE-PR` -/
theorem dispatchEncoder_pr (enc : Option String) :
    ∃ k, dispatchEncoder .PR enc false = some k ∧ (k = .auxCO ∨ k = .expCO ∨ k = .hyb) := by
  unfold dispatchEncoder
  simp only [Bool.false_eq_true, if_false]
  split
  · exact ⟨_, rfl, Or.inl rfl⟩
  · exact ⟨_, rfl, Or.inr (Or.inl rfl)⟩
  · exact ⟨_, rfl, Or.inr (Or.inr rfl)⟩

/-- `create_encoder` for the problem string `SE-PR`: the admissibility encoder, or one of the two
other encoders of the complete extensions -/
theorem dispatchEncoder_sepr (enc : Option String) :
    ∃ k, dispatchEncoder .PR enc true = some k ∧ (k = .auxADM ∨ k = .expCO ∨ k = .hyb) := by
  unfold dispatchEncoder
  simp only [if_true]
  split
  · exact ⟨_, rfl, Or.inl rfl⟩
  · exact ⟨_, rfl, Or.inr (Or.inl rfl)⟩
  · exact ⟨_, rfl, Or.inr (Or.inr rfl)⟩

/-- `create_encoder` for STG: one of the two encoders of the conflict-free sets -/
theorem dispatchEncoder_stg (enc : Option String) (l : Bool) :
    ∃ k, dispatchEncoder .STG enc l = some k ∧ (k = .auxCF ∨ k = .expCF) := by
  unfold dispatchEncoder
  simp only
  split
  · exact ⟨_, rfl, Or.inl rfl⟩
  · exact ⟨_, rfl, Or.inr rfl⟩

/-- with the default `--encoding` the problem string `SE-PR` gets the admissibility encoder -/
theorem dispatchEncoder_sepr_default : dispatchEncoder .PR none true = some .auxADM := rfl

/-- the encoder of the preferred solver, whatever the spelling of the problem string -/
theorem cfg_pr_se {enc : Option String} {literal : Bool} {cfg : Cfg}
    (henc : ∀ k, dispatchEncoder .PR enc literal = some k → cfg.enc = k) (e : Entry) (he : literal = true → e = .se) :
    CliCfgOK .PR e cfg := by
  cases literal with
  | false =>
    obtain ⟨k, hk, hk'⟩ := dispatchEncoder_pr enc
    exact Or.inl (base_complete_of _ (by rw [henc k hk]; exact hk'))
  | true =>
    obtain ⟨k, hk, hk'⟩ := dispatchEncoder_sepr enc
    rcases hk' with h | h | h
    · exact Or.inr ⟨rfl, he rfl, base_admissible_of (by rw [henc k hk]; exact h)⟩
    · exact Or.inl (base_complete_of _ (by rw [henc k hk]; exact Or.inr (Or.inl h)))
    · exact Or.inl (base_complete_of _ (by rw [henc k hk]; exact Or.inr (Or.inr h)))

/-- **the dispatched encoder suits the dispatched solver**: for every problem `t-σ`, every value of
the `--encoding` option and either spelling of the problem string (`literal = true`: the string is
literally `SE-PR`, which forces `t = SE` and `σ = PR`), a configuration whose encoder is the one
`create_encoder` returns (any encoder when it returns none: GR and ST take no encoder) satisfies
the hypothesis of the solver `dispatchSolver t σ` for the entry point of `t` -/
theorem cli_dispatch_cfg_ok (t : Task) (σ : Sem) (enc : Option String) (literal : Bool)
    (hlit : literal = true → t = .SE ∧ σ = .PR) (cfg : Cfg)
    (henc : ∀ k, dispatchEncoder σ enc literal = some k → cfg.enc = k) (cert : Bool) (args : List Nat) :
    CliCfgOK (dispatchSolver t σ) (entryOf t cert args) cfg := by
  have hstd : ∀ τ, τ = .CO ∨ τ = .SST ∨ τ = .ID → σ = τ → cfg.enc = .auxCO ∨ cfg.enc = .expCO ∨ cfg.enc = .hyb := by
    intro τ hτ hσ
    subst hσ
    obtain ⟨k, hk, hk'⟩ := dispatchEncoder_std σ hτ enc literal
    rw [henc k hk]; exact hk'
  have hstg : σ = .STG → cfg.enc = .auxCF ∨ cfg.enc = .expCF := by
    intro hσ
    subst hσ
    obtain ⟨k, hk, hk'⟩ := dispatchEncoder_stg enc literal
    rw [henc k hk]; exact hk'
  have hprse : ∀ e : Entry, σ = .PR → (literal = true → e = .se) → CliCfgOK .PR e cfg := by
    intro e hσ he
    subst hσ
    exact cfg_pr_se henc e he
  have hprco : σ = .PR → literal = false → ∀ af T, cfg.enc.Base af T ↔ Complete af T := by
    intro hσ hl
    subst hσ; subst hl
    obtain ⟨k, hk, hk'⟩ := dispatchEncoder_pr enc
    exact base_complete_of _ (by rw [henc k hk]; exact hk')
  have hnl : t ≠ .SE → literal = false := by
    intro ht
    cases hl : literal with
    | false => rfl
    | true => exact absurd (hlit hl).1 ht
  cases t with
  | SE =>
    cases σ with
    | GR => exact Or.inl trivial
    | CO => exact Or.inl trivial
    | PR => exact hprse _ rfl (fun _ => rfl)
    | ST => exact Or.inl trivial
    | SST => exact Or.inl (hstd .SST (Or.inr (Or.inl rfl)) rfl)
    | STG => exact Or.inl (hstg rfl)
    | ID => exact Or.inl (base_complete_of _ (hstd .ID (Or.inr (Or.inr rfl)) rfl))
  | DC =>
    cases σ with
    | GR => exact Or.inl trivial
    | CO => exact Or.inl (base_complete_of _ (hstd .CO (Or.inl rfl) rfl))
    | PR => exact Or.inl (hprco rfl (hnl (by intro h; cases h)))
    | ST => exact Or.inl trivial
    | SST => exact Or.inl (hstd .SST (Or.inr (Or.inl rfl)) rfl)
    | STG => exact Or.inl (hstg rfl)
    | ID => exact Or.inl (base_complete_of _ (hstd .ID (Or.inr (Or.inr rfl)) rfl))
  | DS =>
    cases σ with
    | GR => exact Or.inl trivial
    | CO => exact Or.inl trivial
    | PR => exact Or.inl (hprco rfl (hnl (by intro h; cases h)))
    | ST => exact Or.inl trivial
    | SST => exact Or.inl (hstd .SST (Or.inr (Or.inl rfl)) rfl)
    | STG => exact Or.inl (hstg rfl)
    | ID => exact Or.inl (base_complete_of _ (hstd .ID (Or.inr (Or.inr rfl)) rfl))

/-! ## the solver theorem under the command line's configurations -/

/-- `static_entry_total` under `CliCfgOK`: total correctness of every entry point of every static
solver, including the `se` entry point of the preferred solver with the admissibility encoder -/
theorem static_entry_total_cli (sk : SolverKind) (e : Entry) (cfg : Cfg) (hcfg : CliCfgOK sk e cfg) (v : FwView)
    (g : G) (hv : v.Ok g) (hargs : ∀ a, a ∈ e.argsList → g.live a = true)
    (p : Prog Ans) (hp : entryProg sk cfg v e = some p) (w : World) (hb : w.Bounded)
    (hfuel : cfg.fuel ≥ fuelFor (1 + v.maxId.getD 0)) :
    wp False p w (fun ans _ => EntryOK sk.sem g e ans) := by
  rcases hcfg with hcfg | ⟨rfl, rfl, hk⟩
  · exact static_entry_total sk cfg hcfg v g hv e hargs p hp w hb hfuel
  · simp only [entryProg, Option.some.injEq] at hp
    subst hp
    simp only [Prog.bind_eq]
    rw [wp_bind]
    exact pr_se_totalF prefFam_admissible cfg hk v g hv w hb hfuel

/-! ## the composition theorem -/

/-- every problem is routed to a solver that offers the entry point of its task -/
theorem cli_dispatch_total (t : Task) (σ : Sem) (cfg : Cfg) (v : FwView) (cert : Bool) (args : List Nat) :
    ∃ p, entryProg (dispatchSolver t σ) cfg v (entryOf t cert args) = some p := by
  cases t <;> cases σ <;> exact ⟨_, rfl⟩

/-- **the command line answers the problem it was asked**: for every problem `t-σ`, every value of
the `--encoding` option (`enc`), either spelling of the problem string (`literal`, guarded), a
configuration with the dispatched encoder and enough fuel, every view presenting a graph `g`, live
queried arguments and every world, the program of the solver the command line dispatches to reaches
no crash node on sound replies and returns the answer that the semantics `σ` of the *problem*
dictate (`ProblemOK`), although that solver may implement another semantics (grounded for SE-CO /
DS-CO, complete for DC-PR) or run with the encoder of another family (admissible sets for `SE-PR`) -/
theorem cli_answer_valid (t : Task) (σ : Sem) (enc : Option String) (literal : Bool)
    (hlit : literal = true → t = .SE ∧ σ = .PR) (cfg : Cfg)
    (henc : ∀ k, dispatchEncoder σ enc literal = some k → cfg.enc = k)
    (v : FwView) (g : G) (hv : v.Ok g) (cert : Bool) (args : List Nat)
    (hargs : ∀ a, a ∈ (entryOf t cert args).argsList → g.live a = true)
    (p : Prog Ans) (hp : entryProg (dispatchSolver t σ) cfg v (entryOf t cert args) = some p)
    (w : World) (hb : w.Bounded) (hfuel : cfg.fuel ≥ fuelFor (1 + v.maxId.getD 0)) :
    wp False p w (fun ans _ => ProblemOK t σ g (entryOf t cert args) ans) := by
  have hcfg := cli_dispatch_cfg_ok t σ enc literal hlit cfg henc cert args
  have hex : ∃ S, g.Grounded S := ⟨_, (groundedV_spec v g hv).1⟩
  refine wp_mono _ _ _ _ ?_
    (static_entry_total_cli (dispatchSolver t σ) (entryOf t cert args) cfg hcfg v g hv hargs p hp w hb hfuel)
  intro ans _ h
  exact problemOK_of_entryOK t σ hex hv.fin cert args ans h

/-- the command line never panics on a well-formed problem: no run on sound replies ends in a
crash node -/
theorem cli_never_panics (t : Task) (σ : Sem) (enc : Option String) (literal : Bool)
    (hlit : literal = true → t = .SE ∧ σ = .PR) (cfg : Cfg)
    (henc : ∀ k, dispatchEncoder σ enc literal = some k → cfg.enc = k)
    (v : FwView) (g : G) (hv : v.Ok g) (cert : Bool) (args : List Nat)
    (hargs : ∀ a, a ∈ (entryOf t cert args).argsList → g.live a = true)
    (p : Prog Ans) (hp : entryProg (dispatchSolver t σ) cfg v (entryOf t cert args) = some p)
    (w : World) (hb : w.Bounded) (hfuel : cfg.fuel ≥ fuelFor (1 + v.maxId.getD 0))
    (rs : List Reply) (hs : RunSound p rs w) :
    ∀ msg w', interp p rs w ≠ (.crashed msg, w') :=
  wp_no_crash p rs w _ (cli_answer_valid t σ enc literal hlit cfg henc v g hv cert args hargs p hp w hb hfuel) hs

/-- **every run of the command line's solver on sound replies** returns the answer the problem
asks for, or aborts on an `unknown` reply, or is starved (the reply list was too short); it never
crashes -/
theorem cli_run_total (t : Task) (σ : Sem) (enc : Option String) (literal : Bool)
    (hlit : literal = true → t = .SE ∧ σ = .PR) (cfg : Cfg)
    (henc : ∀ k, dispatchEncoder σ enc literal = some k → cfg.enc = k)
    (v : FwView) (g : G) (hv : v.Ok g) (cert : Bool) (args : List Nat)
    (hargs : ∀ a, a ∈ (entryOf t cert args).argsList → g.live a = true)
    (p : Prog Ans) (hp : entryProg (dispatchSolver t σ) cfg v (entryOf t cert args) = some p)
    (w : World) (hb : w.Bounded) (hfuel : cfg.fuel ≥ fuelFor (1 + v.maxId.getD 0))
    (rs : List Reply) (hs : RunSound p rs w) :
    (∃ ans w', interp p rs w = (.done ans, w') ∧ ProblemOK t σ g (entryOf t cert args) ans) ∨
    (∃ w', interp p rs w = (.abort, w')) ∨ (∃ w', interp p rs w = (.starved, w')) := by
  have htot := cli_answer_valid t σ enc literal hlit cfg henc v g hv cert args hargs p hp w hb hfuel
  have hnc := wp_no_crash p rs w _ htot hs
  cases hi : interp p rs w with
  | mk oc w' =>
    cases oc with
    | done ans => exact Or.inl ⟨ans, w', rfl, wp_sound p rs w w' ans _ htot hs hi⟩
    | abort => exact Or.inr (Or.inl ⟨w', rfl⟩)
    | starved => exact Or.inr (Or.inr ⟨w', rfl⟩)
    | crashed msg => exact absurd hi (hnc msg w')

/-- two runs of the command line on the same problem (whatever the encoding option, the spelling
of the problem string, the certificate flag's effect on the code path and the SAT solver's
choices) print the same acceptance status -/
theorem cli_status_determined (t : Task) (σ : Sem) (g : G) (c1 c2 : Bool) (args : List Nat) (a1 a2 : AccAns)
    (cv1 cv2 : Bool) (ht : t ≠ .SE)
    (h1 : ProblemOK t σ g (entryOf t c1 args) (.acc a1 cv1))
    (h2 : ProblemOK t σ g (entryOf t c2 args) (.acc a2 cv2)) : a1.status = a2.status := by
  cases t with
  | SE => exact absurd rfl ht
  | DC =>
    obtain ⟨_, h1, _⟩ := h1
    obtain ⟨_, h2, _⟩ := h2
    cases hs1 : a1.status <;> cases hs2 : a2.status
    · rfl
    · exact absurd (h2.1 hs2).1 (h1.2 hs1).1
    · exact absurd (h1.1 hs1).1 (h2.2 hs2).1
    · rfl
  | DS =>
    obtain ⟨_, h1, _⟩ := h1
    obtain ⟨_, h2, _⟩ := h2
    exact (status_determined σ g args c1 c2 a1 a2).2 h1 h2

/-! ## from the problem string -/

/-- the code points of the string `SE-PR`, the only spelling for which `create_encoder` takes its
special branch (the comparison there is case-sensitive, unlike `read_problem_string`) -/
def s_SEPR : Str := [83, 69, 45, 80, 82]

/-- the guard of the `literal` flag holds for every accepted problem string -/
theorem literal_guard (s : Str) (t : Task) (σ : Sem) (hread : readProblem s = some (t, σ)) :
    decide (s = s_SEPR) = true → t = .SE ∧ σ = .PR := by
  intro hs
  have hs' : s = s_SEPR := of_decide_eq_true hs
  subst hs'
  have : readProblem s_SEPR = some (.SE, .PR) := by decide
  rw [this] at hread
  injection hread with hread
  injection hread with h1 h2
  exact ⟨h1.symm, h2.symm⟩

/-- **`cli_answer_valid` from the problem string**: for every string `read_problem_string` accepts,
in any letter case, the flag that selects the special encoder branch being computed from the string -/
theorem cli_answer_valid_read (s : Str) (t : Task) (σ : Sem) (hread : readProblem s = some (t, σ))
    (enc : Option String) (cfg : Cfg)
    (henc : ∀ k, dispatchEncoder σ enc (decide (s = s_SEPR)) = some k → cfg.enc = k)
    (v : FwView) (g : G) (hv : v.Ok g) (cert : Bool) (args : List Nat)
    (hargs : ∀ a, a ∈ (entryOf t cert args).argsList → g.live a = true)
    (w : World) (hb : w.Bounded) (hfuel : cfg.fuel ≥ fuelFor (1 + v.maxId.getD 0)) :
    ∃ p, entryProg (dispatchSolver t σ) cfg v (entryOf t cert args) = some p ∧
      wp False p w (fun ans _ => ProblemOK t σ g (entryOf t cert args) ans) := by
  obtain ⟨p, hp⟩ := cli_dispatch_total t σ cfg v cert args
  exact ⟨p, hp, cli_answer_valid t σ enc _ (literal_guard s t σ hread) cfg henc v g hv cert args hargs p hp w hb hfuel⟩

end Crusta.Cli
