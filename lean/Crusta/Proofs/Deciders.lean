import Crusta.Spec.AF

/-!
# S1 — the executable deciders agree with the textbook definitions

For every framework and every list `l`, `σB af l = true ↔ σ af (ofList l)`, and the enumerations
`extsσ af` contain exactly the (list representations of the) σ-extensions.  No bound on sizes.
-/

namespace Crusta

theorem ofList_true {l : List Nat} {a : Nat} : ofList l a = true ↔ a ∈ l := by
  simp [ofList]

theorem ofList_false {l : List Nat} {a : Nat} : ofList l a = false ↔ a ∉ l := by
  simp [ofList]

theorem subL_iff (af : AF) (l : List Nat) : subL af l = true ↔ Sub af (ofList l) := by
  simp [subL, Sub, ofList_true]

theorem subsetB_iff (s t : List Nat) : subsetB s t = true ↔ SubsetS (ofList s) (ofList t) := by
  simp [subsetB, SubsetS, ofList_true]

theorem attackedByB_iff (af : AF) (l : List Nat) (a : Nat) :
    attackedByB af l a = true ↔ AttackedBy af (ofList l) a := by
  unfold attackedByB AttackedBy
  simp only [List.any_eq_true, Bool.and_eq_true, beq_iff_eq, ofList_true, List.contains_iff_mem]
  constructor
  · rintro ⟨⟨x, y⟩, hm, hy, hx⟩
    simp only at hy hx
    subst hy
    exact ⟨x, hm, hx⟩
  · rintro ⟨b, hm, hb⟩
    exact ⟨(b, a), hm, rfl, hb⟩

theorem attackedByB_false_iff (af : AF) (l : List Nat) (a : Nat) :
    attackedByB af l a = false ↔ ¬ AttackedBy af (ofList l) a := by
  rw [← attackedByB_iff]; simp

theorem cfB_iff (af : AF) (l : List Nat) : cfB af l = true ↔ ConflictFree af (ofList l) := by
  unfold cfB ConflictFree
  rw [Bool.and_eq_true, subL_iff]
  simp only [List.all_eq_true, Bool.not_eq_true', attackedByB_false_iff, ofList_true]

theorem defendedB_iff (af : AF) (l : List Nat) (a : Nat) :
    defendedB af l a = true ↔ Defended af (ofList l) a := by
  unfold defendedB Defended
  simp only [List.all_eq_true, Bool.or_eq_true, Bool.not_eq_true', beq_eq_false_iff_ne, ne_eq,
    attackedByB_iff]
  constructor
  · intro h b hb
    rcases h (b, a) hb with h1 | h1
    · exact absurd rfl h1
    · exact h1
  · rintro h ⟨x, y⟩ hm
    by_cases hy : y = a
    · subst hy; right; exact h x hm
    · left; exact hy

theorem admB_iff (af : AF) (l : List Nat) : admB af l = true ↔ Admissible af (ofList l) := by
  unfold admB Admissible
  rw [Bool.and_eq_true, cfB_iff]
  simp only [List.all_eq_true, defendedB_iff, ofList_true]

theorem coB_iff (af : AF) (l : List Nat) : coB af l = true ↔ Complete af (ofList l) := by
  unfold coB Complete
  rw [Bool.and_eq_true, admB_iff]
  simp only [List.all_eq_true, List.mem_range, Bool.or_eq_true, Bool.not_eq_true',
    List.contains_iff_mem, ofList_true]
  constructor
  · rintro ⟨h1, h2⟩
    refine ⟨h1, fun a ha hd => ?_⟩
    rcases h2 a ha with h | h
    · rw [← defendedB_iff] at hd; rw [hd] at h; cases h
    · exact h
  · rintro ⟨h1, h2⟩
    refine ⟨h1, fun a ha => ?_⟩
    cases hd : defendedB af l a
    · left; rfl
    · right; exact h2 a ha ((defendedB_iff af l a).1 hd)

theorem stB_iff (af : AF) (l : List Nat) : stB af l = true ↔ Stable af (ofList l) := by
  unfold stB Stable
  rw [Bool.and_eq_true, cfB_iff]
  simp only [List.all_eq_true, List.mem_range, Bool.or_eq_true, List.contains_iff_mem,
    attackedByB_iff, ofList_false]
  constructor
  · rintro ⟨h1, h2⟩
    refine ⟨h1, fun a ha hn => ?_⟩
    rcases h2 a ha with h | h
    · exact absurd h hn
    · exact h
  · rintro ⟨h1, h2⟩
    refine ⟨h1, fun a ha => ?_⟩
    by_cases hm : a ∈ l
    · left; exact hm
    · right; exact h2 a ha hm

/-! ## the subset enumeration is sound and complete -/

theorem mem_subsets_lt {n : Nat} {l : List Nat} (h : l ∈ subsets n) : ∀ a ∈ l, a < n := by
  induction n generalizing l with
  | zero => simp [subsets] at h; subst h; simp
  | succ n ih =>
    simp only [subsets, List.mem_append, List.mem_map] at h
    rcases h with h | ⟨l', hl', rfl⟩
    · intro a ha; exact Nat.lt_succ_of_lt (ih h a ha)
    · intro a ha
      rcases List.mem_cons.1 ha with rfl | ha
      · exact Nat.lt_succ_self _
      · exact Nat.lt_succ_of_lt (ih hl' a ha)

theorem subsets_complete (n : Nat) (T : ASet) (hT : ∀ a, T a = true → a < n) :
    ∃ l ∈ subsets n, ofList l = T := by
  induction n generalizing T with
  | zero =>
    refine ⟨[], by simp [subsets], ?_⟩
    funext a
    cases h : T a
    · simp [ofList]
    · exact absurd (hT a h) (Nat.not_lt_zero _)
  | succ n ih =>
    -- restrict T below n
    let T' : ASet := fun a => T a && decide (a < n)
    have hT' : ∀ a, T' a = true → a < n := by
      intro a h; simp [T'] at h; exact h.2
    obtain ⟨l, hl, hlT⟩ := ih T' hT'
    cases hn : T n
    · refine ⟨l, by simp [subsets, hl], ?_⟩
      rw [hlT]; funext a
      simp only [T']
      cases h : T a
      · simp
      · have := hT a h
        have hne : a ≠ n := by intro e; subst e; rw [hn] at h; cases h
        have : a < n := by omega
        simp [this]
    · refine ⟨n :: l, by simp only [subsets, List.mem_append, List.mem_map]; right; exact ⟨l, hl, rfl⟩, ?_⟩
      funext a
      have hl' : ∀ a, ofList l a = T' a := fun a => by rw [hlT]
      by_cases e : a = n
      · subst e; simp [ofList, hn]
      · have : ofList (n :: l) a = ofList l a := by
          simp [ofList, e]
        rw [this, hl']
        simp only [T']
        cases h : T a
        · simp
        · have := hT a h
          have : a < n := by omega
          simp [this]

/-- every set inside the universe is (extensionally) one of the enumerated lists -/
theorem exists_list_of_sub (af : AF) (T : ASet) (hT : Sub af T) :
    ∃ l ∈ subsets af.n, ofList l = T := subsets_complete af.n T hT

theorem sub_of_mem_subsets {af : AF} {l : List Nat} (h : l ∈ subsets af.n) : Sub af (ofList l) := by
  intro a ha; exact mem_subsets_lt h a (ofList_true.1 ha)

/-! ## the four "local" enumerations -/

theorem mem_extsCF (af : AF) (l : List Nat) :
    l ∈ extsCF af ↔ l ∈ subsets af.n ∧ ConflictFree af (ofList l) := by
  simp [extsCF, cfB_iff]

theorem mem_extsADM (af : AF) (l : List Nat) :
    l ∈ extsADM af ↔ l ∈ subsets af.n ∧ Admissible af (ofList l) := by
  simp [extsADM, admB_iff]

theorem mem_extsCO (af : AF) (l : List Nat) :
    l ∈ extsCO af ↔ l ∈ subsets af.n ∧ Complete af (ofList l) := by
  simp [extsCO, coB_iff]

theorem mem_extsST (af : AF) (l : List Nat) :
    l ∈ extsST af ↔ l ∈ subsets af.n ∧ Stable af (ofList l) := by
  simp [extsST, stB_iff]

/-! ## quantifying over a family through its enumeration -/

/-- a `∀ T, P T → …` over sets inside the universe equals the `all` over the enumerated lists -/
theorem forall_fam_iff (af : AF) (P : ASet → Prop) (Q : ASet → Prop)
    (fam : List (List Nat)) (hfam : ∀ l, l ∈ fam ↔ l ∈ subsets af.n ∧ P (ofList l))
    (hsub : ∀ T, P T → Sub af T) :
    (∀ T, P T → Q T) ↔ (∀ l ∈ fam, Q (ofList l)) := by
  constructor
  · intro h l hl; exact h _ ((hfam l).1 hl).2
  · intro h T hT
    obtain ⟨l, hl, rfl⟩ := exists_list_of_sub af T (hsub T hT)
    exact h l ((hfam l).2 ⟨hl, hT⟩)

theorem adm_sub {af : AF} {T : ASet} (h : Admissible af T) : Sub af T := h.1.1
theorem co_sub {af : AF} {T : ASet} (h : Complete af T) : Sub af T := h.1.1.1
theorem cf_sub {af : AF} {T : ASet} (h : ConflictFree af T) : Sub af T := h.1

theorem prB_iff (af : AF) (l : List Nat) : prB af l = true ↔ Preferred af (ofList l) := by
  unfold prB Preferred
  rw [Bool.and_eq_true, admB_iff,
    forall_fam_iff af (Admissible af) (fun T => SubsetS (ofList l) T → SubsetS T (ofList l))
      (extsADM af) (mem_extsADM af) (fun _ h => adm_sub h)]
  simp only [List.all_eq_true, Bool.or_eq_true, Bool.not_eq_true', ← subsetB_iff]
  constructor
  · rintro ⟨h1, h2⟩
    refine ⟨h1, fun t ht hs => ?_⟩
    rcases h2 t ht with h | h
    · rw [hs] at h; cases h
    · exact h
  · rintro ⟨h1, h2⟩
    refine ⟨h1, fun t ht => ?_⟩
    cases hs : subsetB l t
    · left; rfl
    · right; exact h2 t ht hs

theorem grB_iff (af : AF) (l : List Nat) : grB af l = true ↔ Grounded af (ofList l) := by
  unfold grB Grounded
  rw [Bool.and_eq_true, coB_iff,
    forall_fam_iff af (Complete af) (fun T => SubsetS (ofList l) T)
      (extsCO af) (mem_extsCO af) (fun _ h => co_sub h)]
  simp only [List.all_eq_true, ← subsetB_iff]

/-! ## range -/

theorem inRangeB_iff (af : AF) (l : List Nat) (a : Nat) :
    inRangeB af l a = true ↔ InRange af (ofList l) a := by
  unfold inRangeB InRange
  rw [Bool.or_eq_true, attackedByB_iff]; rfl

theorem inRange_lt {af : AF} (hwf : af.WF) {S : ASet} (hS : Sub af S) {a : Nat}
    (h : InRange af S a) : a < af.n := by
  rcases h with h | ⟨b, hb, _⟩
  · exact hS a h
  · exact (hwf _ hb).2

theorem rangeSubB_iff (af : AF) (hwf : af.WF) (s t : List Nat) (hs : Sub af (ofList s)) :
    rangeSubB af s t = true ↔ RangeSub af (ofList s) (ofList t) := by
  unfold rangeSubB RangeSub
  simp only [List.all_eq_true, List.mem_range, Bool.or_eq_true, Bool.not_eq_true']
  constructor
  · intro h a ha
    rcases h a (inRange_lt hwf hs ha) with h1 | h1
    · rw [(inRangeB_iff af s a).2 ha] at h1; cases h1
    · exact (inRangeB_iff af t a).1 h1
  · intro h a _
    cases hr : inRangeB af s a
    · left; rfl
    · right; exact (inRangeB_iff af t a).2 (h a ((inRangeB_iff af s a).1 hr))

theorem sstB_iff (af : AF) (hwf : af.WF) (l : List Nat) :
    sstB af l = true ↔ SemiStable af (ofList l) := by
  unfold sstB SemiStable
  rw [Bool.and_eq_true, coB_iff,
    forall_fam_iff af (Complete af)
      (fun T => RangeSub af (ofList l) T → RangeSub af T (ofList l))
      (extsCO af) (mem_extsCO af) (fun _ h => co_sub h)]
  simp only [List.all_eq_true, Bool.or_eq_true, Bool.not_eq_true']
  constructor
  · rintro ⟨h1, h2⟩
    refine ⟨h1, fun t ht hs => ?_⟩
    have hts : Sub af (ofList t) := sub_of_mem_subsets ((mem_extsCO af t).1 ht).1
    rcases h2 t ht with h | h
    · rw [(rangeSubB_iff af hwf l t (co_sub h1)).2 hs] at h; cases h
    · exact (rangeSubB_iff af hwf t l hts).1 h
  · rintro ⟨h1, h2⟩
    refine ⟨h1, fun t ht => ?_⟩
    have hts : Sub af (ofList t) := sub_of_mem_subsets ((mem_extsCO af t).1 ht).1
    cases hs : rangeSubB af l t
    · left; rfl
    · right
      exact (rangeSubB_iff af hwf t l hts).2 (h2 t ht ((rangeSubB_iff af hwf l t (co_sub h1)).1 hs))

theorem stgB_iff (af : AF) (hwf : af.WF) (l : List Nat) :
    stgB af l = true ↔ Stage af (ofList l) := by
  unfold stgB Stage
  rw [Bool.and_eq_true, cfB_iff,
    forall_fam_iff af (ConflictFree af)
      (fun T => RangeSub af (ofList l) T → RangeSub af T (ofList l))
      (extsCF af) (mem_extsCF af) (fun _ h => cf_sub h)]
  simp only [List.all_eq_true, Bool.or_eq_true, Bool.not_eq_true']
  constructor
  · rintro ⟨h1, h2⟩
    refine ⟨h1, fun t ht hs => ?_⟩
    have hts : Sub af (ofList t) := sub_of_mem_subsets ((mem_extsCF af t).1 ht).1
    rcases h2 t ht with h | h
    · rw [(rangeSubB_iff af hwf l t (cf_sub h1)).2 hs] at h; cases h
    · exact (rangeSubB_iff af hwf t l hts).1 h
  · rintro ⟨h1, h2⟩
    refine ⟨h1, fun t ht => ?_⟩
    have hts : Sub af (ofList t) := sub_of_mem_subsets ((mem_extsCF af t).1 ht).1
    cases hs : rangeSubB af l t
    · left; rfl
    · right
      exact (rangeSubB_iff af hwf t l hts).2 (h2 t ht ((rangeSubB_iff af hwf l t (cf_sub h1)).1 hs))

/-! ## enumerations of the "global" semantics -/

theorem mem_extsPR (af : AF) (l : List Nat) :
    l ∈ extsPR af ↔ l ∈ subsets af.n ∧ Preferred af (ofList l) := by
  rw [← prB_iff]
  simp only [extsPR, List.mem_filter, mem_extsADM, prB, Bool.and_eq_true, admB_iff]
  constructor
  · rintro ⟨⟨h1, h2⟩, h3⟩; exact ⟨h1, h2, h3⟩
  · rintro ⟨h1, h2, h3⟩; exact ⟨⟨h1, h2⟩, h3⟩

theorem mem_extsGR (af : AF) (l : List Nat) :
    l ∈ extsGR af ↔ l ∈ subsets af.n ∧ Grounded af (ofList l) := by
  rw [← grB_iff]
  simp only [extsGR, List.mem_filter, mem_extsCO, grB, Bool.and_eq_true, coB_iff]
  constructor
  · rintro ⟨⟨h1, h2⟩, h3⟩; exact ⟨h1, h2, h3⟩
  · rintro ⟨h1, h2, h3⟩; exact ⟨⟨h1, h2⟩, h3⟩

theorem mem_extsSST (af : AF) (hwf : af.WF) (l : List Nat) :
    l ∈ extsSST af ↔ l ∈ subsets af.n ∧ SemiStable af (ofList l) := by
  rw [← sstB_iff af hwf]
  simp only [extsSST, List.mem_filter, mem_extsCO, sstB, Bool.and_eq_true, coB_iff]
  constructor
  · rintro ⟨⟨h1, h2⟩, h3⟩; exact ⟨h1, h2, h3⟩
  · rintro ⟨h1, h2, h3⟩; exact ⟨⟨h1, h2⟩, h3⟩

theorem mem_extsSTG (af : AF) (hwf : af.WF) (l : List Nat) :
    l ∈ extsSTG af ↔ l ∈ subsets af.n ∧ Stage af (ofList l) := by
  rw [← stgB_iff af hwf]
  simp only [extsSTG, List.mem_filter, mem_extsCF, stgB, Bool.and_eq_true, cfB_iff]
  constructor
  · rintro ⟨⟨h1, h2⟩, h3⟩; exact ⟨h1, h2, h3⟩
  · rintro ⟨h1, h2, h3⟩; exact ⟨⟨h1, h2⟩, h3⟩

/-! ## ideal -/

theorem idealCandB_iff (af : AF) (l : List Nat) :
    idealCandB af l = true ↔ IdealCand af (ofList l) := by
  unfold idealCandB IdealCand
  rw [Bool.and_eq_true, admB_iff,
    forall_fam_iff af (Preferred af) (fun P => SubsetS (ofList l) P)
      (extsPR af) (mem_extsPR af) (fun _ h => adm_sub h.1)]
  simp only [List.all_eq_true, ← subsetB_iff]

theorem mem_extsIDC (af : AF) (l : List Nat) :
    l ∈ extsIDC af ↔ l ∈ subsets af.n ∧ IdealCand af (ofList l) := by
  rw [← idealCandB_iff]
  simp only [extsIDC, List.mem_filter, mem_extsADM, idealCandB, Bool.and_eq_true, admB_iff]
  constructor
  · rintro ⟨⟨h1, h2⟩, h3⟩; exact ⟨h1, h2, h3⟩
  · rintro ⟨h1, h2, h3⟩; exact ⟨⟨h1, h2⟩, h3⟩

theorem idB_iff (af : AF) (l : List Nat) : idB af l = true ↔ Ideal af (ofList l) := by
  unfold idB Ideal
  rw [Bool.and_eq_true, idealCandB_iff,
    forall_fam_iff af (IdealCand af) (fun T => SubsetS (ofList l) T → SubsetS T (ofList l))
      (extsIDC af) (mem_extsIDC af) (fun _ h => adm_sub h.1)]
  simp only [List.all_eq_true, Bool.or_eq_true, Bool.not_eq_true', ← subsetB_iff]
  constructor
  · rintro ⟨h1, h2⟩
    refine ⟨h1, fun t ht hs => ?_⟩
    rcases h2 t ht with h | h
    · rw [hs] at h; cases h
    · exact h
  · rintro ⟨h1, h2⟩
    refine ⟨h1, fun t ht => ?_⟩
    cases hs : subsetB l t
    · left; rfl
    · right; exact h2 t ht hs

theorem mem_extsID (af : AF) (l : List Nat) :
    l ∈ extsID af ↔ l ∈ subsets af.n ∧ Ideal af (ofList l) := by
  rw [← idB_iff]
  simp only [extsID, List.mem_filter, mem_extsIDC, idB, Bool.and_eq_true, idealCandB_iff]
  constructor
  · rintro ⟨⟨h1, h2⟩, h3⟩; exact ⟨h1, h2, h3⟩
  · rintro ⟨h1, h2, h3⟩; exact ⟨⟨h1, h2⟩, h3⟩

/-! ## uniform statements -/

theorem extB_iff (σ : Sem) (af : AF) (hwf : af.WF) (l : List Nat) :
    σ.extB af l = true ↔ σ.Ext af (ofList l) := by
  cases σ
  · exact grB_iff af l
  · exact coB_iff af l
  · exact prB_iff af l
  · exact stB_iff af l
  · exact sstB_iff af hwf l
  · exact stgB_iff af hwf l
  · exact idB_iff af l

theorem mem_exts_iff (σ : Sem) (af : AF) (hwf : af.WF) (l : List Nat) :
    l ∈ σ.exts af ↔ l ∈ subsets af.n ∧ σ.Ext af (ofList l) := by
  cases σ
  · exact mem_extsGR af l
  · exact mem_extsCO af l
  · exact mem_extsPR af l
  · exact mem_extsST af l
  · exact mem_extsSST af hwf l
  · exact mem_extsSTG af hwf l
  · exact mem_extsID af l

theorem ext_sub (σ : Sem) {af : AF} {S : ASet} (h : σ.Ext af S) : Sub af S := by
  cases σ
  · exact co_sub h.1
  · exact co_sub h
  · exact adm_sub h.1
  · exact cf_sub h.1
  · exact co_sub h.1
  · exact cf_sub h.1
  · exact adm_sub h.1.1

/-- the reference credulous decider is exact: some extension contains a listed argument -/
theorem credB_iff (σ : Sem) (af : AF) (hwf : af.WF) (as : List Nat) :
    σ.credB af as = true ↔ ∃ S, σ.Ext af S ∧ ∃ a ∈ as, S a = true := by
  unfold Sem.credB
  simp only [List.any_eq_true, List.contains_iff_mem]
  constructor
  · rintro ⟨e, he, a, ha, hae⟩
    exact ⟨ofList e, ((mem_exts_iff σ af hwf e).1 he).2, a, ha, ofList_true.2 hae⟩
  · rintro ⟨S, hS, a, ha, hSa⟩
    obtain ⟨l, hl, rfl⟩ := exists_list_of_sub af S (ext_sub σ hS)
    exact ⟨l, (mem_exts_iff σ af hwf l).2 ⟨hl, hS⟩, a, ha, ofList_true.1 hSa⟩

/-- the reference skeptical decider is exact: every extension contains a listed argument -/
theorem skepB_iff (σ : Sem) (af : AF) (hwf : af.WF) (as : List Nat) :
    σ.skepB af as = true ↔ ∀ S, σ.Ext af S → ∃ a ∈ as, S a = true := by
  unfold Sem.skepB
  simp only [List.all_eq_true, List.any_eq_true, List.contains_iff_mem]
  constructor
  · intro h S hS
    obtain ⟨l, hl, rfl⟩ := exists_list_of_sub af S (ext_sub σ hS)
    obtain ⟨a, ha, hal⟩ := h l ((mem_exts_iff σ af hwf l).2 ⟨hl, hS⟩)
    exact ⟨a, ha, ofList_true.2 hal⟩
  · intro h e he
    obtain ⟨a, ha, hSa⟩ := h (ofList e) ((mem_exts_iff σ af hwf e).1 he).2
    exact ⟨a, ha, ofList_true.1 hSa⟩

end Crusta
