import Crusta.Proofs.EncHyb2
import Crusta.Proofs.EncAux

/-!
# Decoding (`assignment_to_extension`) inverts the argument layout and ignores everything else
-/

namespace Crusta

theorem Aux.mem_decode (n : Nat) (m : List (Option Bool)) (a : Nat) :
    a ∈ Aux.decode n m ↔ (a < n ∧ asgOfModel m (Aux.x a) = true) := by
  unfold Aux.decode asgOfModel Aux.x
  simp only [List.mem_filterMap, List.mem_zipIdx_iff_getElem?]
  constructor
  · rintro ⟨⟨v, i⟩, hm, hc⟩
    simp only at hm hc
    split at hc
    · rename_i h
      simp only [Bool.and_eq_true, beq_iff_eq, decide_eq_true_eq] at h
      obtain ⟨⟨hv, hpar⟩, hlt⟩ := h
      injection hc with hc
      subst hv
      have hi : (a + 1) * 2 - 1 = i := by omega
      refine ⟨by omega, ?_⟩
      simp [hi, List.getD_eq_getElem?_getD, hm]
      omega
    · cases hc
  · rintro ⟨ha, h⟩
    simp only [Bool.and_eq_true, decide_eq_true_eq, beq_iff_eq] at h
    refine ⟨(some true, (a + 1) * 2 - 1), ?_, ?_⟩
    · simp only
      have := h.2
      rw [List.getD_eq_getElem?_getD] at this
      cases hg : m[(a + 1) * 2 - 1]? with
      | none => rw [hg] at this; cases this
      | some w => rw [hg] at this; simp at this; rw [this]
    · have e1 : ((a + 1) * 2 - 1 + 1) % 2 = 0 := by omega
      have e2 : ((a + 1) * 2 - 1 + 1) / 2 - 1 = a := by omega
      simp [e1, e2, ha]

theorem Exp.mem_decode (n : Nat) (m : List (Option Bool)) (a : Nat) :
    a ∈ Exp.decode n m ↔ (a < n ∧ asgOfModel m (Exp.x a) = true) := by
  unfold Exp.decode asgOfModel Exp.x
  simp only [List.mem_filterMap, List.mem_zipIdx_iff_getElem?]
  constructor
  · rintro ⟨⟨v, i⟩, hm, hc⟩
    simp only at hm hc
    split at hc
    · rename_i h
      simp only [Bool.and_eq_true, beq_iff_eq, decide_eq_true_eq] at h
      injection hc with hc
      subst hc
      obtain ⟨hv, hlt⟩ := h
      subst hv
      refine ⟨hlt, ?_⟩
      simp [List.getD_eq_getElem?_getD, hm]
    · cases hc
  · rintro ⟨ha, h⟩
    simp only [Bool.and_eq_true, decide_eq_true_eq, beq_iff_eq] at h
    refine ⟨(some true, a), ?_, ?_⟩
    · simp only
      have := h.2
      rw [List.getD_eq_getElem?_getD] at this
      simp only [Nat.add_sub_cancel] at this
      cases hg : m[a]? with
      | none => rw [hg] at this; cases this
      | some w => rw [hg] at this; simp at this; rw [this]
    · simp [ha]

theorem Stb.mem_decode (n : Nat) (m : List (Option Bool)) (a : Nat) :
    a ∈ Stb.decode n m ↔ (a < n ∧ asgOfModel m (Stb.x a) = true) := by
  unfold Stb.decode asgOfModel Stb.x
  simp only [List.mem_filterMap, List.mem_zipIdx_iff_getElem?]
  constructor
  · rintro ⟨⟨v, i⟩, hm, hc⟩
    simp only at hm hc
    split at hc
    · rename_i h
      simp only [Bool.and_eq_true, beq_iff_eq, decide_eq_true_eq] at h
      injection hc with hc
      subst hc
      obtain ⟨hv, hlt⟩ := h
      subst hv
      refine ⟨by omega, ?_⟩
      simp [List.getD_eq_getElem?_getD, hm]
    · cases hc
  · rintro ⟨ha, h⟩
    simp only [Bool.and_eq_true, decide_eq_true_eq, beq_iff_eq] at h
    refine ⟨(some true, a), ?_, ?_⟩
    · simp only
      have := h.2
      rw [List.getD_eq_getElem?_getD] at this
      simp only [Nat.add_sub_cancel] at this
      cases hg : m[a]? with
      | none => rw [hg] at this; cases this
      | some w => rw [hg] at this; simp at this; rw [this]
    · have : a + 1 ≤ n := by omega
      simp [this]

/-- decoding a model vector yields exactly the set denoted by the assignment it represents -/
theorem Aux.decode_eq_S (af : AF) (m : List (Option Bool)) (a : Nat) :
    a ∈ Aux.decode af.n m ↔ Aux.S af (asgOfModel m) a = true := by
  rw [Aux.mem_decode]; unfold Aux.S setOfAsg; simp

theorem Exp.decode_eq_S (af : AF) (m : List (Option Bool)) (a : Nat) :
    a ∈ Exp.decode af.n m ↔ Exp.S af (asgOfModel m) a = true := by
  rw [Exp.mem_decode]; unfold Exp.S setOfAsg; simp

theorem Stb.decode_eq_S (af : AF) (m : List (Option Bool)) (a : Nat) :
    a ∈ Stb.decode af.n m ↔ Stb.S af (asgOfModel m) a = true := by
  rw [Stb.mem_decode]; unfold Stb.S setOfAsg; simp

end Crusta
