import Crusta.Proofs.StoreBasics

/-! # Store proofs, part 2: `new_argument`, `new_attack` -/

namespace Crusta
namespace Store

theorem newArgument_existing {s : Store} (hinv : s.Inv) {l i : Nat} (h : s.Live i l) :
    s.newArgument l = s := by
  unfold newArgument newLabel
  rw [(lookup_eq_some hinv).2 h]
  simp

/-- the explicit result of adding a new label -/
def pushArg (s : Store) (l : Nat) : Store :=
  { s with labels := s.labels ++ [some l], l2i := s.l2i ++ [(l, s.labels.length)],
           from_ := s.from_ ++ [[]], to_ := s.to_ ++ [[]] }

theorem newArgument_fresh {s : Store} (hinv : s.Inv) {l : Nat} (h : ∀ i, ¬ s.Live i l) :
    s.newArgument l = s.pushArg l := by
  unfold newArgument newLabel
  rw [(lookup_eq_none hinv).2 h]
  simp only
  have hle : s.nRemoved ≤ s.labels.length := by rw [hinv.cnt_lab]; exact countNone_le _
  have : (s.labels ++ [some l]).length - s.nRemoved > s.labels.length - s.nRemoved := by
    simp; omega
  simp only [len, this, if_true]
  rfl

theorem labelOf_pushArg (s : Store) (l i : Nat) :
    (s.pushArg l).labelOf i = if i = s.labels.length then some l else s.labelOf i := by
  unfold labelOf pushArg
  simp only
  by_cases e : i = s.labels.length
  · subst e; simp [getD_append_len]
  · simp only [e, if_false]
    by_cases hlt : i < s.labels.length
    · exact getD_append_lt _ _ _ _ hlt
    · rw [getD_append_gt _ _ _ _ (by omega), getD_ge _ _ _ (by omega)]

theorem live_pushArg {s : Store} {l i l' : Nat} :
    (s.pushArg l).Live i l' ↔ (s.Live i l' ∨ (i = s.labels.length ∧ l' = l)) := by
  unfold Live
  rw [labelOf_pushArg]
  by_cases e : i = s.labels.length
  · subst e
    simp only [if_true, Option.some.injEq, true_and]
    constructor
    · intro h; right; exact h.symm
    · rintro (h | h)
      · have := live_lt h; omega
      · exact h.symm
  · simp [e]

theorem row_append_lt (r : List (List Nat)) (a : Nat) (h : a < r.length) : row (r ++ [[]]) a = row r a := by
  unfold row; exact getD_append_lt _ _ _ _ h

theorem row_append_ge (r : List (List Nat)) (a : Nat) (h : r.length ≤ a) : row (r ++ [[]]) a = [] := by
  unfold row
  by_cases e : a = r.length
  · subst e; exact getD_append_len _ _ _
  · exact getD_append_gt _ _ _ _ (by omega)

theorem row_ge (r : List (List Nat)) (a : Nat) (h : r.length ≤ a) : row r a = [] := by
  unfold row; exact getD_ge _ _ _ h

theorem row_pushArg (r : List (List Nat)) (a : Nat) : row (r ++ [[]]) a = row r a := by
  by_cases h : a < r.length
  · exact row_append_lt r a h
  · rw [row_append_ge r a (by omega), row_ge r a (by omega)]

theorem inv_pushArg {s : Store} (hinv : s.Inv) {l : Nat} (h : ∀ i, ¬ s.Live i l) : (s.pushArg l).Inv := by
  have hatt : ∀ i, (s.pushArg l).att i = s.att i := fun i => rfl
  refine ⟨?_, ?_, ?_, ?_, ?_, ?_, ?_, ?_, ?_, ?_, ?_, ?_, ?_⟩
  · simp [pushArg, hinv.rows_from]
  · simp [pushArg, hinv.rows_to]
  · intro l' i hm
    simp only [pushArg, List.mem_append, List.mem_singleton, Prod.mk.injEq] at hm
    rw [live_pushArg]
    rcases hm with hm | ⟨rfl, rfl⟩
    · left; exact hinv.l2i_sound _ _ hm
    · right; exact ⟨rfl, rfl⟩
  · intro l' i hl
    rw [live_pushArg] at hl
    simp only [pushArg, List.mem_append, List.mem_singleton, Prod.mk.injEq]
    rcases hl with hl | ⟨rfl, rfl⟩
    · left; exact hinv.l2i_complete _ _ hl
    · right; exact ⟨rfl, rfl⟩
  · intro i j l' hi hj
    rw [live_pushArg] at hi hj
    rcases hi with hi | ⟨rfl, rfl⟩ <;> rcases hj with hj | ⟨rfl, hj'⟩
    · exact hinv.label_inj _ _ _ hi hj
    · subst hj'; exact absurd hi (h i)
    · exact absurd hj (h j)
    · rfl
  · intro i a b hab
    rw [hatt] at hab
    obtain ⟨ha, hb⟩ := hinv.ends_live i a b hab
    rw [hasId_iff] at ha hb ⊢
    rw [hasId_iff]
    obtain ⟨la, hla⟩ := ha
    obtain ⟨lb, hlb⟩ := hb
    exact ⟨⟨la, live_pushArg.2 (Or.inl hla)⟩, ⟨lb, live_pushArg.2 (Or.inl hlb)⟩⟩
  · intro i a b hab
    rw [hatt] at hab
    show i ∈ row (s.from_ ++ [[]]) a
    rw [row_pushArg]; exact hinv.in_from i a b hab
  · intro i a b hab
    rw [hatt] at hab
    show i ∈ row (s.to_ ++ [[]]) b
    rw [row_pushArg]; exact hinv.in_to i a b hab
  · intro a i hi
    have hi' : i ∈ row (s.from_ ++ [[]]) a := hi
    rw [row_pushArg] at hi'
    exact hinv.from_ok a i hi'
  · intro b i hi
    have hi' : i ∈ row (s.to_ ++ [[]]) b := hi
    rw [row_pushArg] at hi'
    exact hinv.to_ok b i hi'
  · exact hinv.cnt_att
  · show s.nRemoved = countNone (s.labels ++ [some l])
    rw [countNone_append]; simp [countNone, hinv.cnt_lab]
  · intro i j a b hi hj
    exact hinv.att_nodup i j a b hi hj

theorem inv_newArgument {s : Store} (hinv : s.Inv) (l : Nat) : (s.newArgument l).Inv := by
  by_cases h : ∃ i, s.Live i l
  · obtain ⟨i, hi⟩ := h
    rw [newArgument_existing hinv hi]; exact hinv
  · have h' : ∀ i, ¬ s.Live i l := fun i hi => h ⟨i, hi⟩
    rw [newArgument_fresh hinv h']; exact inv_pushArg hinv h'

/-! ## new_attack -/

/-- the explicit result of adding a fresh attack between live ids -/
def pushAtt (s : Store) (a b : Nat) : Store :=
  { s with attacks := s.attacks ++ [some (a, b)],
           from_ := s.from_.set a (row s.from_ a ++ [s.attacks.length]),
           to_ := s.to_.set b (row s.to_ b ++ [s.attacks.length]) }

theorem att_pushAtt (s : Store) (a b i : Nat) :
    (s.pushAtt a b).att i = if i = s.attacks.length then some (a, b) else s.att i := by
  unfold att pushAtt
  simp only
  by_cases e : i = s.attacks.length
  · subst e; simp [getD_append_len]
  · simp only [e, if_false]
    by_cases hlt : i < s.attacks.length
    · exact getD_append_lt _ _ _ _ hlt
    · rw [getD_append_gt _ _ _ _ (by omega), getD_ge _ _ _ (by omega)]

theorem row_set_eq (r : List (List Nat)) (a : Nat) (x : List Nat) (h : a < r.length) : row (r.set a x) a = x := by
  unfold row; exact getD_set_eq _ _ _ _ h

theorem row_set_ne (r : List (List Nat)) (a c : Nat) (x : List Nat) (h : a ≠ c) : row (r.set a x) c = row r c := by
  unfold row; exact getD_set_ne _ _ _ _ _ h

/-- what `new_attack` does on a consistent store -/
theorem newAttack_spec {s : Store} (hinv : s.Inv) (la lb : Nat) :
    (∀ a b, s.Live a la → s.Live b lb →
      (s.HasAtt a b → s.newAttack la lb = .ok s) ∧
      (¬ s.HasAtt a b → s.newAttack la lb = .ok (s.pushAtt a b))) ∧
    ((∀ a, ¬ s.Live a la) ∨ (∀ b, ¬ s.Live b lb) → s.newAttack la lb = .err s) := by
  constructor
  · intro a b ha hb
    have hga := (getArg_eq_some hinv).2 ha
    have hgb := (getArg_eq_some hinv).2 hb
    have halt : a < s.from_.length := by rw [hinv.rows_from]; exact live_lt ha
    have hblt : b < s.to_.length := by rw [hinv.rows_to]; exact live_lt hb
    have hbound : (row s.from_ a).any (fun i => decide (i ≥ s.attacks.length)) = false := by
      rw [List.any_eq_false]
      intro i hi
      have := (hinv.from_ok a i hi).1
      simp; omega
    have hany : (row s.from_ a).any (fun i => s.att i == some (a, b)) = true ↔ s.HasAtt a b := by
      simp only [List.any_eq_true, beq_iff_eq]
      constructor
      · rintro ⟨i, _, hi⟩; exact ⟨i, hi⟩
      · rintro ⟨i, hi⟩; exact ⟨i, hinv.in_from i a b hi, hi⟩
    constructor
    · intro hh
      unfold newAttack
      simp only [hga, hgb]
      rw [if_neg (by omega), hbound]
      simp only [Bool.false_eq_true, if_false]
      rw [if_pos (hany.2 hh)]
    · intro hh
      unfold newAttack
      simp only [hga, hgb]
      rw [if_neg (by omega), hbound]
      simp only [Bool.false_eq_true, if_false]
      have : ¬ ((row s.from_ a).any (fun i => s.att i == some (a, b)) = true) := fun h => hh (hany.1 h)
      rw [if_neg this, if_neg (by omega)]
      rfl
  · intro h
    unfold newAttack
    rcases h with h | h
    · rw [(getArg_eq_none hinv).2 h]
    · cases hga : s.getArg la with
      | none => rfl
      | some a => simp only; rw [(getArg_eq_none hinv).2 h]

theorem hasAtt_pushAtt {s : Store} (a b c d : Nat) :
    (s.pushAtt a b).HasAtt c d ↔ (s.HasAtt c d ∨ (c = a ∧ d = b)) := by
  unfold HasAtt
  constructor
  · rintro ⟨i, hi⟩
    rw [att_pushAtt] at hi
    split at hi
    · injection hi with hi; injection hi with h1 h2; right; exact ⟨h1.symm, h2.symm⟩
    · left; exact ⟨i, hi⟩
  · rintro (⟨i, hi⟩ | ⟨rfl, rfl⟩)
    · refine ⟨i, ?_⟩
      rw [att_pushAtt, if_neg (by have := att_lt hi; omega)]; exact hi
    · exact ⟨s.attacks.length, by rw [att_pushAtt, if_pos rfl]⟩

theorem inv_pushAtt {s : Store} (hinv : s.Inv) {a b la lb : Nat} (ha : s.Live a la) (hb : s.Live b lb)
    (hnew : ¬ s.HasAtt a b) : (s.pushAtt a b).Inv := by
  have halt : a < s.from_.length := by rw [hinv.rows_from]; exact live_lt ha
  have hblt : b < s.to_.length := by rw [hinv.rows_to]; exact live_lt hb
  have hlab : ∀ i, (s.pushAtt a b).labelOf i = s.labelOf i := fun i => rfl
  have hlive : ∀ i l, (s.pushAtt a b).Live i l ↔ s.Live i l := fun i l => Iff.rfl
  have hhas : ∀ i, (s.pushAtt a b).hasId i = s.hasId i := fun i => rfl
  have hfrom : ∀ c, row (s.pushAtt a b).from_ c = if c = a then row s.from_ a ++ [s.attacks.length] else row s.from_ c := by
    intro c
    show row (s.from_.set a _) c = _
    by_cases e : c = a
    · subst e; rw [if_pos rfl]; exact row_set_eq _ _ _ halt
    · rw [if_neg e]; exact row_set_ne _ _ _ _ (fun h => e h.symm)
  have hto : ∀ c, row (s.pushAtt a b).to_ c = if c = b then row s.to_ b ++ [s.attacks.length] else row s.to_ c := by
    intro c
    show row (s.to_.set b _) c = _
    by_cases e : c = b
    · subst e; rw [if_pos rfl]; exact row_set_eq _ _ _ hblt
    · rw [if_neg e]; exact row_set_ne _ _ _ _ (fun h => e h.symm)
  have hlen : (s.pushAtt a b).attacks.length = s.attacks.length + 1 := by simp [pushAtt]
  refine ⟨?_, ?_, hinv.l2i_sound, hinv.l2i_complete, hinv.label_inj, ?_, ?_, ?_, ?_, ?_, ?_, hinv.cnt_lab, ?_⟩
  · show (s.from_.set a _).length = _; rw [List.length_set]; exact hinv.rows_from
  · show (s.to_.set b _).length = _; rw [List.length_set]; exact hinv.rows_to
  · intro i c d hcd
    rw [att_pushAtt] at hcd
    rw [hhas, hhas]
    split at hcd
    · injection hcd with hcd; injection hcd with h1 h2; subst h1; subst h2
      exact ⟨hasId_iff.2 ⟨la, ha⟩, hasId_iff.2 ⟨lb, hb⟩⟩
    · exact hinv.ends_live i c d hcd
  · intro i c d hcd
    rw [att_pushAtt] at hcd
    rw [hfrom]
    split at hcd
    · rename_i hi
      injection hcd with hcd; injection hcd with h1 h2; subst h1; subst h2
      rw [if_pos rfl, hi]; simp
    · have := hinv.in_from i c d hcd
      split
      · rename_i e; subst e; exact List.mem_append_left _ this
      · exact this
  · intro i c d hcd
    rw [att_pushAtt] at hcd
    rw [hto]
    split at hcd
    · rename_i hi
      injection hcd with hcd; injection hcd with h1 h2; subst h1; subst h2
      rw [if_pos rfl, hi]; simp
    · have := hinv.in_to i c d hcd
      split
      · rename_i e; subst e; exact List.mem_append_left _ this
      · exact this
  · intro c i hi
    rw [hfrom] at hi
    rw [hlen, att_pushAtt]
    split at hi
    · rename_i e; subst e
      rcases List.mem_append.1 hi with hi | hi
      · have := hinv.from_ok c i hi
        refine ⟨by omega, ?_⟩
        rw [if_neg (by omega)]; exact this.2
      · simp at hi; subst hi
        exact ⟨by omega, by rw [if_pos rfl]; right; exact ⟨b, rfl⟩⟩
    · have := hinv.from_ok c i hi
      refine ⟨by omega, ?_⟩
      rw [if_neg (by omega)]; exact this.2
  · intro c i hi
    rw [hto] at hi
    rw [hlen, att_pushAtt]
    split at hi
    · rename_i e; subst e
      rcases List.mem_append.1 hi with hi | hi
      · have := hinv.to_ok c i hi
        refine ⟨by omega, ?_⟩
        rw [if_neg (by omega)]; exact this.2
      · simp at hi; subst hi
        exact ⟨by omega, by rw [if_pos rfl]; right; exact ⟨a, rfl⟩⟩
    · have := hinv.to_ok c i hi
      refine ⟨by omega, ?_⟩
      rw [if_neg (by omega)]; exact this.2
  · show s.nRemovedAtt = countNone (s.attacks ++ [some (a, b)])
    rw [countNone_append]; simp [countNone, hinv.cnt_att]
  · intro i j c d hi hj
    rw [att_pushAtt] at hi hj
    split at hi <;> split at hj
    · omega
    · rename_i e _
      injection hi with hi; injection hi with h1 h2; subst h1; subst h2
      exact absurd ⟨j, hj⟩ hnew
    · rename_i _ e
      injection hj with hj; injection hj with h1 h2; subst h1; subst h2
      exact absurd ⟨i, hi⟩ hnew
    · exact hinv.att_nodup i j c d hi hj

end Store
end Crusta
