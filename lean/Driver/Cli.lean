import Driver.Trace
import Crusta.Model.Cli
import Crusta.Model.Sat
import Crusta.Model.CliOut
import Driver.IO

/-!
Driver side of the command-line correspondence (`cli` family): the harness runs the real
`crustabri solve` binary with `--external-sat-solver` pointing to a recording script, and sends

    in fw=<spec> problem=<string as typed> enc=<option or -> cert=<0|1> arg=<id or ->
    S 0 s <bits> | S 0 u            (one line per reply of the external program, in order)

The model side composes the *Lean* pieces the theorems are about: `readProblem`, `dispatchSolver`,
`dispatchEncoder`, `entryProg`, `interp`, and renders, for every `solve` of the run, the DIMACS
text (`Buffered.dimacs`) the external program must have received, plus the answer.
-/

namespace Driver
open Crusta Crusta.Cli Crusta.Sat

def strToString (s : List Nat) : String := String.ofList (s.map Char.ofNat)

/-- the buffer of solver `s` just before the solve event: fold of its `clause` / `reserve` events -/
def bufferOf (evs : List Ev) (s : Nat) : Buffered :=
  evs.foldl (fun b e =>
    match e with
    | .clause s' c => if s' == s then b.addClause c else b
    | .reserve s' n => if s' == s then b.reserve n else b
    | .new s' => if s' == s then {} else b
    | _ => b) {}

/-- the DIMACS texts of all solve events of a (chronological) trace -/
def instancesOf (evs : List Ev) : List String := Id.run do
  let mut out : List String := []
  let mut pre : List Ev := []
  for e in evs do
    match e with
    | .solve s as =>
      let b := bufferOf pre.reverse s
      out := strToString (Buffered.dimacs b as) :: out
    | _ => pure ()
    pre := e :: pre
  return out.reverse

def escapeNl (s : String) : String := s.replace "\n" "|"

def runCli (lines : List String) : List String := Id.run do
  let inl := (lines.find? (fun l => l.startsWith "in ")).getD ""
  let ts := toks inl
  let some store := storeOfSpec (kvGetD ts "fw" "") | return ["T-ERR unparsable framework"]
  let problem := kvGetD ts "problem" ""
  let encS := kvGetD ts "enc" "-"
  let encOpt : Option String := if encS == "-" then none else some encS
  let cert := kvGetD ts "cert" "0" == "1"
  let argS := kvGetD ts "arg" "-"
  let some (t, σ) := readProblem (Crusta.IO.strOf problem) | return ["rejected problem"]
  let sk := dispatchSolver t σ
  let enc := (dispatchEncoder σ encOpt (problem == "SE-PR")).getD .stb
  let args : List Nat := if argS == "-" then [] else [natOf argS]
  let entry : Entry := match t with | .SE => .se | .DC => .dc cert args | .DS => .ds cert args
  let replies := lines.filterMap parseReply
  let mut out : List String := [s!"dispatch solver={repr sk} enc={repr enc}"]
  match entryProg sk ⟨enc, 100000⟩ store.view entry with
  | none => out := "T-ERR entry point not offered by the dispatched solver" :: out
  | some p =>
    let (oc, w) := interp p replies {}
    for i in instancesOf w.trace.reverse do
      out := s!"inst {escapeNl i}" :: out
    match oc with
    | .done a =>
      out := renderAns store a :: out
      -- the bytes the model prints on stdout (Model/CliOut.lean; the subject of `cli_stdout_on_readable_file`)
      out := s!"stdout {hexStr (stdoutIccma a)}" :: out
    | .abort => out := "panic abort" :: out
    | .crashed m => out := s!"panic crash {m}" :: out
    | .starved => out := "T-STARVED" :: out
    out := s!"calls {w.calls}" :: out
  return out.reverse

end Driver
