import Crusta.Proofs.RoundTripAux
import Crusta.Proofs.RxApx

/-!
# The lines seen by the readers contain no line feed

`RxApx` proves that the scanners `matchArg` / `matchAtt` of the Aspartix reader model implement the
regular expressions of the Rust source on every line *without line feed* (the `.` of the patterns
does not match `\n`, the scanner accepts any code point there).  This file discharges that
hypothesis for every line the reader is ever given, i.e. for every `some l ∈ lines bs`:

* `splitRaw_no_lf`: the raw lines (`splitRaw` splits at every byte `0x0A`) contain no byte `0x0A`,
  and neither does `stripCr` of them;
* `decodeUtf8_bytes`: every code point of a successfully decoded string is either `≥ 0x80` or is the
  value of one of the bytes (`< 0x80`).  Multi-byte sequences decode to code points `≥ 0x80`
  because `decodeUtf8` rejects overlong encodings as `str::from_utf8` does: lead bytes `C0`/`C1`
  are invalid, `E0` requires a second byte `≥ A0`, `F0` a second byte `≥ 90`
  (`overlong_lf_rejected`);
* `decodeUtf8_no_lf`, `lines_no_lf`;
* `reader_matchArg_iff`, `reader_matchAtt_iff`, `apx_reader_lines_classified`: the theorems of
  `RxApx` for the lines of an arbitrary byte string, with no hypothesis left.
-/

namespace Crusta.IO

/-! ## raw lines -/

theorem splitRaw_go_no_lf (bs cur : List UInt8) (hcur : ∀ b ∈ cur, b ≠ 0x0A) :
    ∀ p ∈ splitRaw.go bs cur, ∀ b ∈ p.1, b ≠ 0x0A := by
  induction bs generalizing cur with
  | nil =>
    intro p hp
    simp only [splitRaw.go] at hp
    split at hp
    · cases hp
    · simp only [List.mem_cons, List.not_mem_nil, or_false] at hp
      subst hp
      intro b hb; exact hcur b (List.mem_reverse.1 hb)
  | cons b0 rest ih =>
    intro p hp
    simp only [splitRaw.go] at hp
    split at hp
    · rcases List.mem_cons.1 hp with rfl | hp
      · intro b hb; exact hcur b (List.mem_reverse.1 hb)
      · exact ih [] (by simp) p hp
    · rename_i hb0
      refine ih (b0 :: cur) ?_ p hp
      intro b hb
      rcases List.mem_cons.1 hb with rfl | hb
      · simpa using hb0
      · exact hcur b hb

/-! ## UTF-8 decoding -/

theorem map_cons_eq_some {c0 : Nat} {o : Option Str} {s : Str}
    (h : Option.map (fun x => c0 :: x) o = some s) : ∃ t, o = some t ∧ s = c0 :: t := by
  cases o with
  | none => cases h
  | some t => exact ⟨t, rfl, by simpa using h.symm⟩

/-- every decoded code point is `≥ 0x80` or is (the value of) one of the bytes, `< 0x80` -/
theorem decodeUtf8_bytes (bs : List UInt8) (s : Str) (h : decodeUtf8 bs = some s) :
    ∀ c ∈ s, (∃ b ∈ bs, b.toNat = c ∧ c < 0x80) ∨ 0x80 ≤ c := by
  fun_induction decodeUtf8 bs generalizing s
  case case1 => cases h; simp
  case case2 b0 rest hb ih =>
    obtain ⟨t, ht, rfl⟩ := map_cons_eq_some h
    intro c hc
    rcases List.mem_cons.1 hc with rfl | hc
    · exact .inl ⟨b0, List.mem_cons_self .., rfl, (u8_lt _ _).1 hb⟩
    · rcases ih t ht c hc with ⟨b, hb, e⟩ | h2
      · exact .inl ⟨b, List.mem_cons_of_mem _ hb, e⟩
      · exact .inr h2
  case case3 b0 _ h0 b1 r h1 ih =>
    obtain ⟨t, ht, rfl⟩ := map_cons_eq_some h
    intro c hc
    rcases List.mem_cons.1 hc with hc0 | hc
    · right
      simp only [cont, Bool.and_eq_true, decide_eq_true_eq, u8_le] at h0 h1
      simp at h0 h1
      omega
    · rcases ih t ht c hc with ⟨b, hb, e⟩ | h2
      · exact .inl ⟨b, List.mem_cons_of_mem _ (List.mem_cons_of_mem _ hb), e⟩
      · exact .inr h2
  case case6 b0 _ _ h0 b1 b2 r ok1 h1 ih =>
    obtain ⟨t, ht, rfl⟩ := map_cons_eq_some h
    intro c hc
    rcases List.mem_cons.1 hc with hc0 | hc
    · right
      have hok : ok1 = true := by
        cases hk : ok1 with
        | true => rfl
        | false => rw [hk] at h1; cases h1
      simp only [ok1, cont, u8_beq, u8_le] at hok
      simp only [Bool.and_eq_true, decide_eq_true_eq, u8_le] at h0
      simp at h0
      split at hok
      · simp at hok; omega
      · rename_i hne; simp at hne; omega
    · rcases ih t ht c hc with ⟨b, hb, e⟩ | h2
      · exact .inl ⟨b, List.mem_cons_of_mem _ (List.mem_cons_of_mem _ (List.mem_cons_of_mem _ hb)), e⟩
      · exact .inr h2
  case case9 b0 _ _ _ h0 b1 b2 b3 r ok1 h1 ih =>
    obtain ⟨t, ht, rfl⟩ := map_cons_eq_some h
    intro c hc
    rcases List.mem_cons.1 hc with hc0 | hc
    · right
      have hok : ok1 = true := by
        cases hk : ok1 with
        | true => rfl
        | false => rw [hk] at h1; cases h1
      simp only [ok1, cont, u8_beq, u8_le] at hok
      simp only [Bool.and_eq_true, decide_eq_true_eq, u8_le] at h0
      simp at h0
      split at hok
      · simp at hok; omega
      · rename_i hne; simp at hne; omega
    · rcases ih t ht c hc with ⟨b, hb, e⟩ | h2
      · exact .inl ⟨b, List.mem_cons_of_mem _ (List.mem_cons_of_mem _
          (List.mem_cons_of_mem _ (List.mem_cons_of_mem _ hb))), e⟩
      · exact .inr h2
  all_goals cases h

/-- the overlong encodings of the line feed (2, 3 and 4 bytes) are invalid UTF-8 for the model, as
for `std::str::from_utf8` -/
theorem overlong_lf_rejected :
    decodeUtf8 [0xC0, 0x8A] = none ∧ decodeUtf8 [0xE0, 0x80, 0x8A] = none ∧
    decodeUtf8 [0xF0, 0x80, 0x80, 0x8A] = none := by decide

/-- **code point 10 comes only from the byte `0x0A`** -/
theorem decodeUtf8_no_lf (bs : List UInt8) (s : Str) (hbs : ∀ b ∈ bs, b ≠ 0x0A)
    (h : decodeUtf8 bs = some s) : ∀ c ∈ s, c ≠ 10 := by
  intro c hc e
  rcases decodeUtf8_bytes bs s h c hc with ⟨b, hb, hbc, _⟩ | h2
  · exact hbs b hb (UInt8.toNat_inj.1 (by rw [hbc, e]; rfl))
  · omega

/-! ## `lines` -/

/-- **the raw lines contain no line-feed byte** -/
theorem splitRaw_no_lf (bs : List UInt8) : ∀ p ∈ splitRaw bs, ∀ b ∈ p.1, b ≠ 0x0A :=
  splitRaw_go_no_lf bs [] (by simp)

theorem stripCr_subset (p : List UInt8 × Bool) : ∀ b ∈ stripCr p, b ∈ p.1 := by
  intro b hb
  unfold stripCr at hb
  split at hb
  · split at hb
    · exact (List.dropLast_sublist _).subset hb
    · exact hb
  · exact hb

theorem stripCr_no_lf (bs : List UInt8) : ∀ p ∈ splitRaw bs, ∀ b ∈ stripCr p, b ≠ 0x0A :=
  fun p hp b hb => splitRaw_no_lf bs p hp b (stripCr_subset p b hb)

/-- **no line produced by `BufRead::lines` contains a line feed** -/
theorem lines_no_lf (bs : List UInt8) : ∀ l, some l ∈ lines bs → ∀ c ∈ l, c ≠ 10 := by
  intro l hl
  obtain ⟨p, hp, e⟩ := List.mem_map.1 hl
  exact decodeUtf8_no_lf _ l (stripCr_no_lf bs p hp) e

/-- non-vacuity: `lines` does produce lines (here two, the second one without terminator; the `\r` of
`\r\n` is removed, and the code point 10 is in none of them) -/
theorem lines_example :
    lines [97, 40, 41, 46, 13, 10, 98, 46] = [some [97, 40, 41, 46], some [98, 46]] := by
  decide

end Crusta.IO

namespace Crusta.RxApx
open Crusta.IO Crusta.Rx

/-! ## the Aspartix reader: scanners = regular expressions on every line actually read -/

/-- **`matchArg` implements `ARG_LINE_ARG_NAME_PATTERN` + `captured_arg` on every line of every
input** -/
theorem reader_matchArg_iff (bs : List UInt8) (l : Str) (hl : some l ∈ IO.lines bs) (lab : Str) :
    matchArg l = some lab ↔ ∃ g, MatchesG Gen.argLineName l [g] ∧ lab = trimWs g :=
  matchArg_iff l lab (lines_no_lf bs l hl)

/-- **`matchAtt` implements `ATT_LINE_ARG_NAMES_PATTERN` + `captured_arg` on every line of every
input** -/
theorem reader_matchAtt_iff (bs : List UInt8) (l : Str) (hl : some l ∈ IO.lines bs) (a b : Str) :
    matchAtt l = some (a, b) ↔
      ∃ g1 g2, MatchesG Gen.attLineNames l [g1, g2] ∧ a = trimWs g1 ∧ b = trimWs g2 :=
  matchAtt_iff l a b (lines_no_lf bs l hl)

theorem reader_matchArg_eq_none_iff (bs : List UInt8) (l : Str) (hl : some l ∈ IO.lines bs) :
    matchArg l = none ↔ ¬ Matches Gen.argLineName l :=
  matchArg_eq_none_iff l (lines_no_lf bs l hl)

theorem reader_matchAtt_eq_none_iff (bs : List UInt8) (l : Str) (hl : some l ∈ IO.lines bs) :
    matchAtt l = none ↔ ¬ Matches Gen.attLineNames l :=
  matchAtt_eq_none_iff l (lines_no_lf bs l hl)

/-- **`RxApx.apx_line_classification` for every (valid UTF-8) line of every input**, in any state
of the reader -/
theorem apx_reader_lines_classified (bs : List UInt8) :
    ∀ l, some l ∈ IO.lines bs → ∀ st : ApxSt,
    ExactlyOne [
      l.all isWs = true,
      Matches Gen.argLineName l,
      Matches Gen.attLineNames l,
      (Matches Gen.argLine l ∧ ¬ Matches Gen.argLineName l) ∨
        (Matches Gen.attLine l ∧ ¬ Matches Gen.attLineNames l),
      l.all isWs = false ∧ ¬ Matches Gen.argLine l ∧ ¬ Matches Gen.attLine l ] ∧
    (l.all isWs = true → apxLine st (some l) = .ok st) ∧
    (Matches Gen.argLineName l →
      ∃ g, MatchesG Gen.argLineName l [g] ∧ l.all isWs = false ∧ matchArg l = some (trimWs g)) ∧
    (Matches Gen.attLineNames l →
      ∃ g1 g2, MatchesG Gen.attLineNames l [g1, g2] ∧ l.all isWs = false ∧ matchArg l = none ∧
        matchAtt l = some (trimWs g1, trimWs g2)) ∧
    ((Matches Gen.argLine l ∧ ¬ Matches Gen.argLineName l) ∨
        (Matches Gen.attLine l ∧ ¬ Matches Gen.attLineNames l) →
      l.all isWs = false ∧ matchArg l = none ∧ matchAtt l = none ∧
        apxLine st (some l) = .error "syntax error") ∧
    (l.all isWs = false ∧ ¬ Matches Gen.argLine l ∧ ¬ Matches Gen.attLine l →
      matchArg l = none ∧ matchAtt l = none ∧ apxLine st (some l) = .error "syntax error") :=
  fun l hl st => apx_line_classification l (lines_no_lf bs l hl) st

end Crusta.RxApx
