import Crusta.Model.Encoders
import Crusta.Proofs.Deciders

/-!
# Common lemmas for the encoder theorems (S5)

* CNF evaluation over `++`, `flatMap`, `map`;
* per-argument ("local") characterisations of conflict-freeness, admissibility, completeness and
  stability, uniform for all encoders;
* the cartesian-product lemma behind the exp / hybrid encodings.
-/

namespace Crusta

@[simp] theorem cnfTrue_nil (ν : Asg) : cnfTrue ν [] = true := rfl

@[simp] theorem cnfTrue_append (ν : Asg) (f g : Cnf) :
    cnfTrue ν (f ++ g) = (cnfTrue ν f && cnfTrue ν g) := by
  simp [cnfTrue, List.all_append]

@[simp] theorem cnfTrue_cons (ν : Asg) (c : Clause) (f : Cnf) :
    cnfTrue ν (c :: f) = (clauseTrue ν c && cnfTrue ν f) := by
  simp [cnfTrue]

theorem cnfTrue_flatMap {α : Type} (ν : Asg) (l : List α) (g : α → Cnf) :
    cnfTrue ν (l.flatMap g) = true ↔ ∀ a ∈ l, cnfTrue ν (g a) = true := by
  simp [cnfTrue, List.all_flatMap, List.all_eq_true]

theorem cnfTrue_map {α : Type} (ν : Asg) (l : List α) (g : α → Clause) :
    cnfTrue ν (l.map g) = true ↔ ∀ a ∈ l, clauseTrue ν (g a) = true := by
  simp [cnfTrue, List.all_map, List.all_eq_true]

@[simp] theorem clauseTrue_cons (ν : Asg) (l : Lit) (c : Clause) :
    clauseTrue ν (l :: c) = (litTrue ν l || clauseTrue ν c) := by
  simp [clauseTrue]

@[simp] theorem clauseTrue_nil (ν : Asg) : clauseTrue ν [] = false := rfl

theorem clauseTrue_map {α : Type} (ν : Asg) (l : List α) (g : α → Lit) :
    clauseTrue ν (l.map g) = true ↔ ∃ a ∈ l, litTrue ν (g a) = true := by
  simp [clauseTrue, List.any_map, List.any_eq_true]

@[simp] theorem litTrue_pl (ν : Asg) (v : Nat) : litTrue ν (pl v) = ν v := rfl
@[simp] theorem litTrue_nl (ν : Asg) (v : Nat) : litTrue ν (nl v) = !(ν v) := rfl
@[simp] theorem litTrue_neg (ν : Asg) (l : Lit) : litTrue ν l.neg = !(litTrue ν l) := by
  cases l with | mk v p => cases p <;> simp [Lit.neg, litTrue]

theorem AF.mem_attackers {af : AF} {a b : Nat} : b ∈ af.attackers a ↔ (b, a) ∈ af.atts := by
  unfold AF.attackers
  simp only [List.mem_map, List.mem_filter, beq_iff_eq]
  constructor
  · rintro ⟨⟨x, y⟩, ⟨h1, h2⟩, h3⟩
    simp at h2 h3; subst h2; subst h3; exact h1
  · intro h; exact ⟨(b, a), ⟨h, rfl⟩, rfl⟩

theorem AF.attackers_lt {af : AF} (hwf : af.WF) {a b : Nat} (h : b ∈ af.attackers a) : b < af.n :=
  (hwf _ (AF.mem_attackers.1 h)).1

/-! ## the set denoted by an assignment under a layout `xv` -/

/-- arguments `< n` whose variable is true -/
def setOfAsg (n : Nat) (xv : Nat → Nat) (ν : Asg) : ASet := fun a => decide (a < n) && ν (xv a)

theorem setOfAsg_lt {n : Nat} {xv : Nat → Nat} {ν : Asg} {a : Nat} (h : a < n) :
    setOfAsg n xv ν a = ν (xv a) := by simp [setOfAsg, h]

theorem setOfAsg_sub (af : AF) (xv : Nat → Nat) (ν : Asg) : Sub af (setOfAsg af.n xv ν) := by
  intro a h; simp [setOfAsg] at h; exact h.1

/-! ## local characterisations -/

def LocalCF (af : AF) (S : ASet) (a : Nat) : Prop := S a = true → ∀ b, (b, a) ∈ af.atts → S b = false
def LocalDef (af : AF) (S : ASet) (a : Nat) : Prop := S a = true → Defended af S a
def LocalCO (af : AF) (S : ASet) (a : Nat) : Prop := Defended af S a → S a = true
def LocalST (af : AF) (S : ASet) (a : Nat) : Prop := S a = false → AttackedBy af S a

theorem cf_iff_local (af : AF) (S : ASet) (hS : Sub af S) :
    ConflictFree af S ↔ ∀ a, a < af.n → LocalCF af S a := by
  constructor
  · rintro ⟨_, h⟩ a _ ha b hb
    cases hb' : S b
    · rfl
    · exact absurd ⟨b, hb, hb'⟩ (h a ha)
  · intro h
    refine ⟨hS, ?_⟩
    rintro a ha ⟨b, hb, hb'⟩
    have := h a (hS a ha) ha b hb
    rw [this] at hb'; cases hb'

theorem adm_iff_local (af : AF) (S : ASet) (hS : Sub af S) :
    Admissible af S ↔ (∀ a, a < af.n → LocalCF af S a) ∧ (∀ a, a < af.n → LocalDef af S a) := by
  unfold Admissible
  rw [cf_iff_local af S hS]
  constructor
  · rintro ⟨h1, h2⟩; exact ⟨h1, fun a _ ha => h2 a ha⟩
  · rintro ⟨h1, h2⟩; exact ⟨h1, fun a ha => h2 a (hS a ha) ha⟩

theorem co_iff_local (af : AF) (S : ASet) (hS : Sub af S) :
    Complete af S ↔ (∀ a, a < af.n → LocalCF af S a) ∧ (∀ a, a < af.n → LocalDef af S a) ∧
      (∀ a, a < af.n → LocalCO af S a) := by
  unfold Complete
  rw [adm_iff_local af S hS]
  constructor
  · rintro ⟨⟨h1, h2⟩, h3⟩; exact ⟨h1, h2, h3⟩
  · rintro ⟨h1, h2, h3⟩; exact ⟨⟨h1, h2⟩, h3⟩

theorem st_iff_local (af : AF) (S : ASet) (hS : Sub af S) :
    Stable af S ↔ (∀ a, a < af.n → LocalCF af S a) ∧ (∀ a, a < af.n → LocalST af S a) := by
  unfold Stable
  rw [cf_iff_local af S hS]
  rfl

/-! ## cartesian product -/

theorem mem_cartProd_cons {α : Type} (D : List α) (Ds : List (List α)) (t : List α) :
    t ∈ cartProd (D :: Ds) ↔ ∃ d ∈ D, ∃ t' ∈ cartProd Ds, t = d :: t' := by
  simp only [cartProd, List.mem_flatMap, List.mem_map]
  constructor
  · rintro ⟨d, hd, t', ht', rfl⟩; exact ⟨d, hd, t', ht', rfl⟩
  · rintro ⟨d, hd, t', ht', rfl⟩; exact ⟨d, hd, t', ht', rfl⟩

/-- every tuple contains a rejected element  ⇔  some factor is entirely rejected -/
theorem cart_all_exists {α : Type} (P : α → Prop) (Ds : List (List α)) :
    (∀ t ∈ cartProd Ds, ∃ d ∈ t, P d) ↔ ∃ D ∈ Ds, ∀ d ∈ D, P d := by
  induction Ds with
  | nil => simp [cartProd]
  | cons D Ds ih =>
    constructor
    · intro h
      by_cases hD : ∀ d ∈ D, P d
      · exact ⟨D, List.mem_cons_self .., hD⟩
      · have : ∃ d ∈ D, ¬ P d := by
          apply Classical.byContradiction
          intro hne; apply hD; intro d hd
          apply Classical.byContradiction
          intro hp; exact hne ⟨d, hd, hp⟩
        obtain ⟨d, hd, hnp⟩ := this
        have hrest : ∀ t ∈ cartProd Ds, ∃ x ∈ t, P x := by
          intro t ht
          obtain ⟨x, hx, hpx⟩ := h (d :: t) ((mem_cartProd_cons D Ds _).2 ⟨d, hd, t, ht, rfl⟩)
          rcases List.mem_cons.1 hx with rfl | hx
          · exact absurd hpx hnp
          · exact ⟨x, hx, hpx⟩
        obtain ⟨D', hD', hall⟩ := ih.1 hrest
        exact ⟨D', List.mem_cons_of_mem _ hD', hall⟩
    · rintro ⟨D', hD', hall⟩ t ht
      obtain ⟨d, hd, t', ht', rfl⟩ := (mem_cartProd_cons D Ds t).1 ht
      rcases List.mem_cons.1 hD' with rfl | hD'
      · exact ⟨d, List.mem_cons_self .., hall d hd⟩
      · obtain ⟨x, hx, hpx⟩ := ih.2 ⟨D', hD', hall⟩ t' ht'
        exact ⟨x, List.mem_cons_of_mem _ hx, hpx⟩

theorem not_forall_mem {α : Type} {l : List α} {P : α → Prop} (h : ¬ ∀ x ∈ l, P x) : ∃ x ∈ l, ¬ P x := by
  apply Classical.byContradiction
  intro hne; apply h; intro x hx
  apply Classical.byContradiction
  intro hp; exact hne ⟨x, hx, hp⟩

end Crusta
