import Crusta.Proofs.Sat
import Crusta.Proofs.RoundTrip

/-!
# The exchange with the external SAT solver is lossless in both directions (C16)

* (A) `readDimacs_dimacs`: a small reference DIMACS reader (`readDimacs`) reads the text
  `Buffered.dimacs b as` back as exactly the announced counts and the clauses of the buffer followed
  by one unit clause per assumption, for proper literals (variables numbered from 1;
  `proper_reachable`: an invariant of the buffer under proper operations; `readDimacs_var0`: the
  hypothesis is necessary).  `dimacs_header_exact`: the number of clause lines of the text is the
  announced clause count, every variable read is between 1 and the announced variable count.
* (B) `parseReply_renderModel`: a satisfiable reply for the model `m` — comment lines, status line,
  the literals split over value lines in an arbitrary way with comment lines in between, `0`,
  comment lines — is parsed as `.sat (m.map some)`, for `m.length ≤ isize::MAX`
  (`parseReply_renderModel_big`: the bound is necessary); `parseReply_renderUnsat`.
* (C) `truncated_reply_not_result`: every prefix of the bytes of such a reply that ends before the
  terminating `0` token is reported as `.unknown` or `.abort _`; `renderModel_eq_head` relates the
  cut point to the rendering.
-/

namespace Crusta.Sat
open Crusta Crusta.IO

/-! ## 0. the tokenizer `split_ascii_whitespace` -/

/-- a token: non-empty, no ASCII blank inside -/
def Tok (w : Str) : Prop := w ≠ [] ∧ ∀ c ∈ w, isAsciiWs c = false

theorem saw_go_word (x : Str) (hx : ∀ c ∈ x, isAsciiWs c = false) (rest cur : Str) (acc : List Str) :
    splitAsciiWs.go (x ++ rest) cur acc = splitAsciiWs.go rest (x.reverse ++ cur) acc := by
  induction x generalizing cur with
  | nil => simp
  | cons c cs ih =>
    have hc := hx c (List.mem_cons_self ..)
    simp only [List.cons_append, splitAsciiWs.go, hc]
    rw [ih (fun d hd => hx d (List.mem_cons_of_mem _ hd))]
    simp

theorem saw_go_acc (l cur : Str) (acc : List Str) :
    splitAsciiWs.go l cur acc = acc.reverse ++ splitAsciiWs.go l cur [] := by
  induction l generalizing cur acc with
  | nil => cases h : cur.isEmpty <;> simp [splitAsciiWs.go, h]
  | cons c cs ih =>
    cases hc : isAsciiWs c
    · simp only [splitAsciiWs.go, hc, Bool.false_eq_true, if_false]
      exact ih _ _
    · simp only [splitAsciiWs.go, hc, if_true]
      rw [ih [] (if cur.isEmpty then acc else cur.reverse :: acc),
        ih [] (if cur.isEmpty then [] else [cur.reverse])]
      cases h : cur.isEmpty <;> simp

theorem splitAsciiWs_nil : splitAsciiWs [] = [] := rfl

theorem splitAsciiWs_ws (c : Nat) (rest : Str) (hc : isAsciiWs c = true) :
    splitAsciiWs (c :: rest) = splitAsciiWs rest := by
  simp [splitAsciiWs, splitAsciiWs.go, hc]

theorem splitAsciiWs_word (w : Str) (hw : Tok w) : splitAsciiWs w = [w] := by
  have := saw_go_word w hw.2 [] [] []
  rw [List.append_nil, List.append_nil] at this
  unfold splitAsciiWs
  rw [this]
  have he : w.reverse.isEmpty = false := by simp [hw.1]
  simp [splitAsciiWs.go, he]

theorem splitAsciiWs_word_ws (w : Str) (hw : Tok w) (c : Nat) (hc : isAsciiWs c = true) (rest : Str) :
    splitAsciiWs (w ++ c :: rest) = w :: splitAsciiWs rest := by
  unfold splitAsciiWs
  rw [saw_go_word w hw.2]
  have he : w.reverse.isEmpty = false := by simp [hw.1]
  simp only [List.append_nil, splitAsciiWs.go, hc, if_true, he, Bool.false_eq_true, if_false,
    List.reverse_reverse]
  rw [saw_go_acc]
  simp

theorem isAsciiWs_32 : isAsciiWs 32 = true := by decide

/-- tokens separated (and followed) by single spaces -/
theorem splitAsciiWs_spaced (ws : List Str) (h : ∀ w ∈ ws, Tok w) :
    splitAsciiWs (ws.flatMap (fun w => w ++ [32])) = ws := by
  induction ws with
  | nil => rfl
  | cons w ws ih =>
    simp only [List.flatMap_cons, List.append_assoc, List.singleton_append]
    rw [splitAsciiWs_word_ws w (h w (List.mem_cons_self ..)) 32 isAsciiWs_32,
      ih (fun x hx => h x (List.mem_cons_of_mem _ hx))]

/-- tokens preceded by single spaces -/
theorem splitAsciiWs_prefixed (ws : List Str) (h : ∀ w ∈ ws, Tok w) :
    splitAsciiWs (ws.flatMap (fun w => 32 :: w)) = ws := by
  induction ws with
  | nil => rfl
  | cons w ws ih =>
    have hw := h w (List.mem_cons_self ..)
    have ih' := ih (fun x hx => h x (List.mem_cons_of_mem _ hx))
    simp only [List.flatMap_cons, List.cons_append]
    rw [splitAsciiWs_ws _ _ isAsciiWs_32]
    cases ws with
    | nil => simpa using splitAsciiWs_word w hw
    | cons y ys =>
      simp only [List.flatMap_cons, List.cons_append] at ih' ⊢
      rw [splitAsciiWs_word_ws w hw 32 isAsciiWs_32, ← splitAsciiWs_ws 32 _ isAsciiWs_32, ih']

theorem tok_digits (k : Nat) : Tok (natToStr k) :=
  ⟨natToStr_ne_nil k, fun c hc => by
    have := natToStr_digits k c hc
    simp only [isAsciiWs, Bool.or_eq_false_iff, beq_eq_false_iff_ne]; omega⟩

theorem tok_cons (c : Nat) (w : Str) (hc : isAsciiWs c = false) (hw : ∀ d ∈ w, isAsciiWs d = false) :
    Tok (c :: w) :=
  ⟨by simp, fun d hd => by rcases List.mem_cons.1 hd with rfl | hd; exact hc; exact hw d hd⟩

/-! ## A. the DIMACS text denotes exactly the instance

A small reference DIMACS reader, written in the obvious way and independent of the writer
(unbounded integers, so that no size hypothesis is needed). -/

/-- split at `\n` (`k` newlines give `k + 1` segments) -/
def splitNl : Str → List Str
  | [] => [[]]
  | c :: cs =>
    if c = 10 then [] :: splitNl cs
    else match splitNl cs with
      | [] => [[c]]
      | h :: t => (c :: h) :: t

/-- a non-empty sequence of ASCII digits -/
def parseNat (w : Str) : Option Nat :=
  if w.isEmpty || !w.all isAsciiDigit then none else some (digitsVal w)

/-- an optional `-`, then a natural number -/
def parseInt (w : Str) : Option Int :=
  match w with
  | 45 :: r => (parseNat r).map (fun n => -(n : Int))
  | r => (parseNat r).map (fun n => (n : Int))

/-- the inverse of `Lit.toInt` on non-zero integers -/
def litOfInt (i : Int) : Lit := ⟨i.natAbs, decide (0 < i)⟩

/-- the literals of a clause line: non-zero integers, then the terminating `0` as last token -/
def readLits : List Str → Option Clause
  | [] => none
  | w :: ws =>
    match parseInt w with
    | none => none
    | some i =>
      if i = 0 then (if ws.isEmpty then some [] else none)
      else (readLits ws).map (litOfInt i :: ·)

/-- one clause per non-empty line -/
def readClauses : List Str → Option (List Clause)
  | [] => some []
  | l :: ls =>
    if l.isEmpty then readClauses ls
    else match readLits (splitAsciiWs l) with
      | none => none
      | some c => (readClauses ls).map (c :: ·)

/-- the reference reader: `(announced variables, announced clauses, clauses)` -/
def readDimacs (s : Str) : Option (Nat × Nat × List Clause) :=
  match splitNl s with
  | [] => none
  | h :: rest =>
    match splitAsciiWs h with
    | [p, cnf, v, c] =>
      if p == strOf "p" && cnf == strOf "cnf" then
        match parseNat v, parseNat c, readClauses rest with
        | some nv, some nc, some cls => some (nv, nc, cls)
        | _, _, _ => none
      else none
    | _ => none

/-- the number of clause lines of a DIMACS text: the non-empty lines after the header -/
def clauseLineCount (s : Str) : Nat := (((splitNl s).drop 1).filter (fun l => !l.isEmpty)).length

/-! ### lines -/

theorem splitNl_line (l : Str) (h : ∀ c ∈ l, c ≠ 10) (rest : Str) :
    splitNl (l ++ 10 :: rest) = l :: splitNl rest := by
  induction l with
  | nil => simp [splitNl]
  | cons c cs ih =>
    have hc : c ≠ 10 := h c (List.mem_cons_self ..)
    simp only [List.cons_append, splitNl, hc, if_false]
    rw [ih (fun d hd => h d (List.mem_cons_of_mem _ hd))]

theorem splitNl_unlines (ls : List Str) (h : ∀ l ∈ ls, ∀ c ∈ l, c ≠ 10) :
    splitNl (ls.flatMap (fun l => l ++ [10])) = ls ++ [[]] := by
  induction ls with
  | nil => simp [splitNl]
  | cons l ls ih =>
    simp only [List.flatMap_cons, List.append_assoc, List.cons_append, List.nil_append]
    rw [splitNl_line l (h l (List.mem_cons_self ..)), ih (fun x hx => h x (List.mem_cons_of_mem _ hx))]

/-! ### numbers and literals -/

theorem intStr_ofNat (n : Nat) : Buffered.intStr (n : Int) = natToStr n := by
  show strOf (Int.repr (Int.ofNat n)) = strOf (Nat.repr n)
  rfl

theorem intStr_negSucc (n : Nat) : Buffered.intStr (-((n + 1 : Nat) : Int)) = 45 :: natToStr (n + 1) := by
  show strOf (Int.repr (Int.negSucc n)) = 45 :: strOf (Nat.repr (n + 1))
  simp only [Int.repr, strOf, String.toList_append, List.map_append]
  rfl

/-- the rendering of a literal: the decimal variable, preceded by `-` for a negative literal -/
theorem intStr_lit (l : Lit) (hl : 1 ≤ l.var) :
    Buffered.intStr l.toInt = if l.pos then natToStr l.var else 45 :: natToStr l.var := by
  obtain ⟨v, p⟩ := l
  cases p
  · obtain ⟨k, rfl⟩ : ∃ k, v = k + 1 := ⟨v - 1, by simp only at hl; omega⟩
    simp only [Lit.toInt, Bool.false_eq_true, if_false]
    exact intStr_negSucc k
  · simp only [Lit.toInt, if_true]
    exact intStr_ofNat v

theorem parseNat_natToStr (k : Nat) : parseNat (natToStr k) = some k := by
  have he : (natToStr k).isEmpty = false := by simp [natToStr_ne_nil k]
  simp [parseNat, he, natToStr_all_digit k, digitsVal_natToStr k]

theorem parseInt_natToStr (k : Nat) : parseInt (natToStr k) = some (k : Int) := by
  cases hs : natToStr k with
  | nil => exact absurd hs (natToStr_ne_nil k)
  | cons c cs =>
    have hc := natToStr_digits k c (by rw [hs]; exact List.mem_cons_self ..)
    unfold parseInt
    split
    · rename_i r h; injection h with h; omega
    · rw [← hs, parseNat_natToStr]; rfl

theorem parseInt_neg (k : Nat) : parseInt (45 :: natToStr k) = some (-(k : Int)) := by
  simp [parseInt, parseNat_natToStr]

theorem tok_intStr_lit (l : Lit) (hl : 1 ≤ l.var) : Tok (Buffered.intStr l.toInt) := by
  rw [intStr_lit l hl]
  split
  · exact tok_digits _
  · exact tok_cons 45 _ (by decide) (tok_digits _).2

/-- the reference reader's integer parser inverts the rendering of a proper literal -/
theorem parseInt_intStr_lit (l : Lit) (hl : 1 ≤ l.var) :
    parseInt (Buffered.intStr l.toInt) = some l.toInt := by
  obtain ⟨v, p⟩ := l
  rw [intStr_lit _ hl]
  cases p
  · simp only [Bool.false_eq_true, if_false, Lit.toInt]; exact parseInt_neg v
  · simp only [if_true, Lit.toInt]; exact parseInt_natToStr v

theorem litOfInt_toInt (l : Lit) (hl : 1 ≤ l.var) : l.toInt ≠ 0 ∧ litOfInt l.toInt = l := by
  obtain ⟨v, p⟩ := l
  simp only at hl
  cases p
  · simp only [Lit.toInt, Bool.false_eq_true, if_false, litOfInt, Int.natAbs_neg, Int.natAbs_natCast]
    refine ⟨by omega, ?_⟩
    congr 1
    simp <;> omega
  · simp only [Lit.toInt, if_true, litOfInt, Int.natAbs_natCast]
    refine ⟨by omega, ?_⟩
    congr 1
    simp <;> omega

/-! ### clause lines -/

/-- a clause line without its `\n` -/
def clauseBody (c : Clause) : Str := c.flatMap (fun l => Buffered.intStr l.toInt ++ [32]) ++ [48]

theorem clauseLine_eq (c : Clause) : Buffered.clauseLine c = clauseBody c ++ [10] := by
  simp [Buffered.clauseLine, clauseBody]

theorem tok_zero : Tok [48] := tok_cons 48 [] (by decide) (by simp)

theorem splitAsciiWs_clauseBody (c : Clause) (hc : ∀ l ∈ c, 1 ≤ l.var) :
    splitAsciiWs (clauseBody c) = c.map (fun l => Buffered.intStr l.toInt) ++ [[48]] := by
  unfold clauseBody
  induction c with
  | nil => exact splitAsciiWs_word _ tok_zero
  | cons l c ih =>
    simp only [List.flatMap_cons, List.append_assoc, List.map_cons, List.cons_append, List.nil_append]
    rw [splitAsciiWs_word_ws _ (tok_intStr_lit l (hc l (List.mem_cons_self ..))) 32 isAsciiWs_32,
      ih (fun x hx => hc x (List.mem_cons_of_mem _ hx))]

theorem parseInt_zero : parseInt [48] = some 0 := by decide

theorem readLits_clause (c : Clause) (hc : ∀ l ∈ c, 1 ≤ l.var) :
    readLits (c.map (fun l => Buffered.intStr l.toInt) ++ [[48]]) = some c := by
  induction c with
  | nil => simp [readLits, parseInt_zero]
  | cons l c ih =>
    have hl := hc l (List.mem_cons_self ..)
    obtain ⟨h0, h1⟩ := litOfInt_toInt l hl
    simp only [List.map_cons, List.cons_append, readLits, parseInt_intStr_lit l hl, h0, if_false]
    rw [ih (fun x hx => hc x (List.mem_cons_of_mem _ hx)), h1]
    rfl

theorem clauseBody_not_empty (c : Clause) : (clauseBody c).isEmpty = false := by
  simp [clauseBody]

theorem readClauses_bodies (cs : List Clause) (h : ∀ c ∈ cs, ∀ l ∈ c, 1 ≤ l.var) :
    readClauses (cs.map clauseBody ++ [[]]) = some cs := by
  induction cs with
  | nil => simp [readClauses]
  | cons c cs ih =>
    have hc := h c (List.mem_cons_self ..)
    simp only [List.map_cons, List.cons_append, readClauses, clauseBody_not_empty, Bool.false_eq_true,
      if_false, splitAsciiWs_clauseBody c hc, readLits_clause c hc]
    rw [ih (fun x hx => h x (List.mem_cons_of_mem _ hx))]
    rfl

theorem natToStr_no_nl (k : Nat) : ∀ c ∈ natToStr k, c ≠ 10 := fun c hc => by
  have := natToStr_digits k c hc; omega

theorem clauseBody_no_nl (c : Clause) (hc : ∀ l ∈ c, 1 ≤ l.var) : ∀ x ∈ clauseBody c, x ≠ 10 := by
  intro x hx
  simp only [clauseBody, List.mem_append, List.mem_flatMap, List.mem_singleton] at hx
  rcases hx with ⟨l, hl, hx | hx⟩ | hx
  · rw [intStr_lit l (hc l hl)] at hx
    split at hx
    · exact natToStr_no_nl _ x hx
    · rcases List.mem_cons.1 hx with rfl | hx
      · omega
      · exact natToStr_no_nl _ x hx
  · omega
  · omega

/-! ### the header -/

def dimacsHeader (nv nc : Nat) : Str := strOf "p cnf " ++ natToStr nv ++ [32] ++ natToStr nc

theorem strOf_p_cnf : strOf "p cnf " = [112, 32, 99, 110, 102, 32] := by decide
theorem strOf_sp0nl : strOf " 0\n" = [32, 48, 10] := by decide

theorem splitAsciiWs_header (nv nc : Nat) :
    splitAsciiWs (dimacsHeader nv nc) = [[112], [99, 110, 102], natToStr nv, natToStr nc] := by
  have e : dimacsHeader nv nc =
      [112] ++ 32 :: ([99, 110, 102] ++ 32 :: (natToStr nv ++ 32 :: natToStr nc)) := by
    simp [dimacsHeader, strOf_p_cnf]
  rw [e, splitAsciiWs_word_ws [112] (tok_cons 112 [] (by decide) (by simp)) 32 isAsciiWs_32,
    splitAsciiWs_word_ws [99, 110, 102] ⟨by simp, by decide⟩ 32 isAsciiWs_32,
    splitAsciiWs_word_ws _ (tok_digits nv) 32 isAsciiWs_32, splitAsciiWs_word _ (tok_digits nc)]

theorem dimacsHeader_no_nl (nv nc : Nat) : ∀ x ∈ dimacsHeader nv nc, x ≠ 10 := by
  intro x hx
  simp only [dimacsHeader, strOf_p_cnf, List.mem_append, List.mem_cons, List.not_mem_nil, or_false] at hx
  rcases hx with ((hx | hx) | hx) | hx
  · omega
  · exact natToStr_no_nl _ x hx
  · omega
  · exact natToStr_no_nl _ x hx

/-- the DIMACS text as a list of `\n`-terminated lines: the header, one line per clause, one unit
line per assumption -/
theorem dimacs_eq_lines (b : Buffered) (as : List Lit) :
    Buffered.dimacs b as =
      (dimacsHeader (b.withAssumptions as).nVars (b.clauses.length + as.length) ::
        (b.clauses ++ as.map (fun a => [a])).map clauseBody).flatMap (fun l => l ++ [10]) := by
  have e : Buffered.clauseLine = fun c => clauseBody c ++ [10] := funext clauseLine_eq
  simp [Buffered.dimacs, Buffered.withAssumptions, dimacsHeader, e, clauseBody,
    strOf_sp0nl, List.flatMap_map, List.flatMap_append]

/-- proper literals: DIMACS variables are numbered from 1 (variable `0` would render as the
clause terminator) -/
def ProperLits (cs : List Clause) : Prop := ∀ c ∈ cs, ∀ l ∈ c, 1 ≤ l.var

theorem readDimacs_lines (nv nc : Nat) (cs : List Clause) (h : ProperLits cs) :
    readDimacs ((dimacsHeader nv nc :: cs.map clauseBody).flatMap (fun l => l ++ [10])) =
      some (nv, nc, cs) := by
  unfold readDimacs
  rw [splitNl_unlines]
  · have h1 : (([112] : Str) == strOf "p") = true := by decide
    have h2 : (([99, 110, 102] : Str) == strOf "cnf") = true := by decide
    simp only [List.cons_append, splitAsciiWs_header, h1, h2, Bool.and_self, if_true,
      parseNat_natToStr, readClauses_bodies cs h]
  · intro l hl
    rcases List.mem_cons.1 hl with rfl | hl
    · exact dimacsHeader_no_nl nv nc
    · obtain ⟨c, hc, rfl⟩ := List.mem_map.1 hl
      exact clauseBody_no_nl c (h c hc)

/-- **(A) the DIMACS text denotes exactly the instance**: the reference reader reads back the
announced counts, and exactly the buffered clauses followed by one unit clause per assumption, in
order. -/
theorem readDimacs_dimacs (b : Buffered) (as : List Lit)
    (hb : ∀ c ∈ b.clauses, ∀ l ∈ c, 1 ≤ l.var) (has : ∀ a ∈ as, 1 ≤ a.var) :
    readDimacs (Buffered.dimacs b as) =
      some ((b.withAssumptions as).nVars, b.clauses.length + as.length,
        b.clauses ++ as.map (fun a => [a])) := by
  rw [dimacs_eq_lines]
  apply readDimacs_lines
  intro c hc l hl
  rcases List.mem_append.1 hc with hc | hc
  · exact hb c hc l hl
  · obtain ⟨a, ha, rfl⟩ := List.mem_map.1 hc
    rw [List.mem_singleton.1 hl]; exact has a ha

/-! ### the header is exact -/

theorem readClauses_length (ls : List Str) : ∀ cls, readClauses ls = some cls →
    cls.length = (ls.filter (fun l => !l.isEmpty)).length := by
  induction ls with
  | nil => intro cls h; simp only [readClauses] at h; injection h with h; subst h; rfl
  | cons l ls ih =>
    intro cls h
    simp only [readClauses] at h
    cases hl : l.isEmpty
    · simp only [hl, Bool.false_eq_true, if_false] at h
      split at h
      · cases h
      · rename_i c _
        cases hr : readClauses ls with
        | none => rw [hr] at h; cases h
        | some cls' =>
          rw [hr] at h; injection h with h; subst h
          simp [hl, ih cls' hr]
    · simp only [hl, if_true] at h
      simp [hl, ih cls h]

/-- whatever text the reference reader accepts: it returns one clause per clause line -/
theorem readDimacs_count (s : Str) (nv nc : Nat) (cls : List Clause)
    (h : readDimacs s = some (nv, nc, cls)) : cls.length = clauseLineCount s := by
  unfold readDimacs at h
  unfold clauseLineCount
  split at h
  · cases h
  · rename_i hd rest hs
    rw [hs]
    split at h
    · split at h
      · split at h
        · rename_i hr
          injection h with h; injection h with _ h; injection h with _ h; subst h
          exact readClauses_length rest _ hr
        · cases h
      · cases h
    · cases h

/-- an operation whose clause (if any) uses DIMACS variables, i.e. variables numbered from 1 -/
def BOp.Proper : BOp → Prop
  | .add c => ∀ l ∈ c, 1 ≤ l.var
  | _ => True

theorem proper_apply (b : Buffered) (op : BOp) (h : ProperLits b.clauses) (hop : op.Proper) :
    ProperLits (b.apply op).clauses := by
  cases op with
  | add c =>
    intro c' hc'
    simp only [Buffered.apply, Buffered.addClause, List.mem_append, List.mem_singleton] at hc'
    rcases hc' with hc' | rfl
    · exact h c' hc'
    · exact hop
  | reserve n =>
    simp only [Buffered.apply, Buffered.reserve]
    split <;> exact h
  | solve as => exact h

/-- properness is an invariant of the buffer: it holds after every history of proper operations -/
theorem proper_reachable (ops : List BOp) (h : ∀ op ∈ ops, op.Proper) :
    ProperLits (ops.foldl Buffered.apply {}).clauses := by
  have : ∀ (b : Buffered), ProperLits b.clauses → ProperLits (ops.foldl Buffered.apply b).clauses := by
    induction ops with
    | nil => intro b hb; exact hb
    | cons o os ih =>
      intro b hb
      exact ih (fun x hx => h x (List.mem_cons_of_mem _ hx)) _
        (proper_apply b o hb (h o (List.mem_cons_self ..)))
  exact this {} (fun c hc => by cases hc)

/-- **(A, corollary) the header is exact**: for every history of proper operations and every call
with proper assumptions, the text is accepted by the reference reader, the number of clause lines
of the text is exactly the announced clause count (and the number of clauses read), and every
variable of every clause read is between 1 and the announced variable count. -/
theorem dimacs_header_exact (ops : List BOp) (as : List Lit)
    (hops : ∀ op ∈ ops, op.Proper) (has : ∀ a ∈ as, 1 ≤ a.var) :
    let b := ops.foldl Buffered.apply {}
    ∃ nv nc cls, readDimacs (b.dimacs as) = some (nv, nc, cls) ∧
      cls = b.clauses ++ as.map (fun a => [a]) ∧
      clauseLineCount (b.dimacs as) = nc ∧ cls.length = nc ∧
      ∀ c ∈ cls, ∀ l ∈ c, 1 ≤ l.var ∧ l.var ≤ nv := by
  intro b
  have hb : ProperLits b.clauses := proper_reachable ops hops
  have hr := readDimacs_dimacs b as hb has
  have hwf := dimacs_wellformed ops as
  refine ⟨_, _, _, hr, rfl, ?_, by simp, ?_⟩
  · rw [← readDimacs_count _ _ _ _ hr]; simp
  · intro c hc l hl
    rcases List.mem_append.1 hc with hc | hc
    · exact ⟨hb c hc l hl, hwf.1 c hc l hl⟩
    · obtain ⟨a, ha, rfl⟩ := List.mem_map.1 hc
      rw [List.mem_singleton.1 hl]
      exact ⟨has a ha, hwf.2 a ha⟩

/-! ## B. a well-formed reply is reported as such -/

theorem strOf_sSat : strOf "s SATISFIABLE" = [115, 32, 83, 65, 84, 73, 83, 70, 73, 65, 66, 76, 69] := by
  decide
theorem strOf_sUnsat :
    strOf "s UNSATISFIABLE" = [115, 32, 85, 78, 83, 65, 84, 73, 83, 70, 73, 65, 66, 76, 69] := by decide
theorem strOf_v_sp : strOf "v " = [118, 32] := by decide
theorem strOf_c_sp : strOf "c " = [99, 32] := by decide
theorem strOf_c : strOf "c" = [99] := by decide
theorem strOf_v : strOf "v" = [118] := by decide

/-- the status lines -/
def sSat : Str := [115, 32, 83, 65, 84, 73, 83, 70, 73, 65, 66, 76, 69]
def sUnsat : Str := [115, 32, 85, 78, 83, 65, 84, 73, 83, 70, 73, 65, 66, 76, 69]

/-- a line the reply parser skips: empty, `c`, or `c <text>`, where the text is any sequence of
Unicode scalar values without `\n` and not ending in `\r` (`LineOk`: exactly the lines that can be
written with a `\n` terminator as valid UTF-8 and read back unchanged) -/
def Noise (l : Str) : Prop := LineOk l ∧ (l = [] ∨ l = [99] ∨ ∃ t, l = 99 :: 32 :: t)

/-- the token of variable `i + 1` with value `b` -/
def litTok (i : Nat) (b : Bool) : Str := if b then natToStr (i + 1) else 45 :: natToStr (i + 1)

/-- the tokens of the values `bs` of variables `i + 1, i + 2, …` -/
def litToks (i : Nat) : List Bool → List Str
  | [] => []
  | b :: bs => litTok i b :: litToks (i + 1) bs

/-- a value line: `v` followed by ` <token>` for every token -/
def vLine (toks : List Str) : Str := 118 :: toks.flatMap (fun t => 32 :: t)

/-- how a reply is laid out: comment lines before the status line; then any number of value lines,
each preceded by comment lines and carrying the next `k` literals (fewer if the model is
exhausted, possibly none); then comment lines, the last value line with all remaining literals and
the terminating `0`; then comment lines -/
structure Layout where
  pre : List Str
  chunks : List (List Str × Nat)
  mid : List Str
  post : List Str

def Layout.Ok (lay : Layout) : Prop :=
  (∀ l ∈ lay.pre, Noise l) ∧ (∀ ch ∈ lay.chunks, ∀ l ∈ ch.1, Noise l) ∧
  (∀ l ∈ lay.mid, Noise l) ∧ (∀ l ∈ lay.post, Noise l)

/-- the lines from the first value line to the last one; `last` renders the last value line -/
def bodyLines (last : List Str → List Str) (mid : List Str) (i : Nat) (bs : List Bool) :
    List (List Str × Nat) → List Str
  | [] => mid ++ last (litToks i bs)
  | (cs, k) :: rest =>
    cs ++ vLine (litToks i (bs.take k)) :: bodyLines last mid (i + (bs.take k).length) (bs.drop k) rest

/-- the lines of a satisfiable reply for the model `m` -/
def replyLines (m : List Bool) (lay : Layout) : List Str :=
  lay.pre ++ sSat :: (bodyLines (fun toks => [vLine (toks ++ [[48]])]) lay.mid 0 m lay.chunks ++ lay.post)

/-- **the rendering of a satisfiable reply**, every line `\n`-terminated, as UTF-8 bytes -/
def renderModel (m : List Bool) (lay : Layout) : List UInt8 :=
  encodeUtf8 ((replyLines m lay).flatMap (fun l => l ++ [10]))

/-- **the rendering of an unsatisfiable reply**: comment lines, the status line, comment lines -/
def renderUnsat (pre post : List Str) : List UInt8 :=
  encodeUtf8 ((pre ++ sUnsat :: post).flatMap (fun l => l ++ [10]))

/-! ### the assignment written by the value lines -/

def writeFrom (asg : List (Option Bool)) (i : Nat) : List Bool → List (Option Bool)
  | [] => asg
  | b :: bs => writeFrom (asg.set i (some b)) (i + 1) bs

theorem writeFrom_append (asg : List (Option Bool)) (i : Nat) (a b : List Bool) :
    writeFrom asg i (a ++ b) = writeFrom (writeFrom asg i a) (i + a.length) b := by
  induction a generalizing asg i with
  | nil => rfl
  | cons x xs ih =>
    simp only [List.cons_append, writeFrom, List.length_cons]
    rw [ih]
    congr 1
    omega

theorem writeFrom_spec (bs : List Bool) : ∀ (pre : List (Option Bool)) (r : Nat),
    writeFrom (pre ++ List.replicate (bs.length + r) none) pre.length bs =
      pre ++ bs.map some ++ List.replicate r none := by
  induction bs with
  | nil => intro pre r; simp [writeFrom]
  | cons b bs ih =>
    intro pre r
    have e : (b :: bs).length + r = (bs.length + r) + 1 := by simp only [List.length_cons]; omega
    have := ih (pre ++ [some b]) r
    simp only [List.length_append, List.length_singleton] at this
    simp only [writeFrom, e, List.replicate_succ, List.map_cons]
    rw [List.set_append_right _ _ (Nat.le_refl _)]
    simp only [Nat.sub_self, List.set_cons_zero]
    simpa using this

theorem litToks_append (i : Nat) (a b : List Bool) :
    litToks i (a ++ b) = litToks i a ++ litToks (i + a.length) b := by
  induction a generalizing i with
  | nil => rfl
  | cons x xs ih =>
    simp only [List.cons_append, litToks, List.length_cons]
    rw [ih, show i + 1 + xs.length = i + (xs.length + 1) by omega]

theorem tok_litTok (i : Nat) (b : Bool) : Tok (litTok i b) := by
  unfold litTok
  split
  · exact tok_digits _
  · exact tok_cons 45 _ (by decide) (tok_digits _).2

theorem tok_litToks (bs : List Bool) : ∀ i, ∀ t ∈ litToks i bs, Tok t := by
  induction bs with
  | nil => intro i t ht; cases ht
  | cons b bs ih =>
    intro i t ht
    rcases List.mem_cons.1 ht with rfl | ht
    · exact tok_litTok i b
    · exact ih _ t ht

theorem parseIsize_litTok (i : Nat) (b : Bool) (hi : i + 1 ≤ 9223372036854775807) :
    parseIsize (litTok i b) = some (if b then ((i + 1 : Nat) : Int) else -((i + 1 : Nat) : Int)) := by
  cases b
  · have he : (natToStr (i + 1)).isEmpty = false := by simp [natToStr_ne_nil]
    have hle : i + 1 ≤ 9223372036854775808 := by omega
    simp [litTok, parseIsize, he, natToStr_all_digit, digitsVal_natToStr, hle]
  · simp only [litTok, if_true]
    exact parseIsize_natToStr _ hi

theorem vTokens_lits (nv : Nat) (bs : List Bool) :
    ∀ (i : Nat) (st : PSt) (rest : List Str), i + bs.length ≤ nv →
      i + bs.length ≤ 9223372036854775807 →
      vTokens nv st (litToks i bs ++ rest) = vTokens nv { st with asg := writeFrom st.asg i bs } rest := by
  induction bs with
  | nil => intro i st rest _ _; rfl
  | cons b bs ih =>
    intro i st rest hi hmax
    simp only [List.length_cons] at hi hmax
    simp only [litToks, List.cons_append, writeFrom]
    rw [vTokens, parseIsize_litTok i b (by omega)]
    have h0 : ((if b = true then ((i + 1 : Nat) : Int) else -((i + 1 : Nat) : Int)) == 0) = false := by
      cases b <;> simp <;> omega
    have hv : (if b = true then ((i + 1 : Nat) : Int) else -((i + 1 : Nat) : Int)).natAbs - 1 = i := by
      cases b <;> simp <;> omega
    have hp : decide ((if b = true then ((i + 1 : Nat) : Int) else -((i + 1 : Nat) : Int)) > 0) = b := by
      cases b <;> simp <;> omega
    simp only [h0, Bool.false_eq_true, if_false, hv, hp]
    rw [if_neg (by omega), ih (i + 1) _ rest (by omega) (by omega)]

/-! ### single lines -/

theorem replyLine_noise (nv : Nat) (st : PSt) (l : Str) (h : Noise l) :
    replyLine nv st (some l) = .ok st := by
  rcases h.2 with rfl | rfl | ⟨t, rfl⟩ <;>
    simp [replyLine, strOf_sSat, strOf_sUnsat, strOf_v_sp, strOf_c_sp, strOf_c, strOf_v]

theorem foldLines_noise (nv : Nat) (st : PSt) (ls : List Str) (h : ∀ l ∈ ls, Noise l) :
    foldLines (replyLine nv) st (ls.map some) = .ok st := by
  induction ls with
  | nil => rfl
  | cons l ls ih =>
    simp only [List.map_cons, foldLines, replyLine_noise nv st l (h l (List.mem_cons_self ..))]
    exact ih (fun x hx => h x (List.mem_cons_of_mem _ hx))

theorem replyLine_sSat (nv : Nat) (st : PSt) (h : st.status = none) :
    replyLine nv st (some sSat) = .ok { st with status := some true } := by
  simp [replyLine, strOf_sSat, sSat, h]

theorem replyLine_sUnsat (nv : Nat) (st : PSt) (h : st.status = none) :
    replyLine nv st (some sUnsat) = .ok { st with status := some false } := by
  simp [replyLine, strOf_sSat, strOf_sUnsat, sUnsat, h]

theorem splitAsciiWs_vLine (toks : List Str) (h : ∀ t ∈ toks, Tok t) :
    splitAsciiWs (vLine toks) = [118] :: toks := by
  have hv : Tok [118] := tok_cons 118 [] (by decide) (by simp)
  unfold vLine
  cases toks with
  | nil => exact splitAsciiWs_word _ hv
  | cons t ts =>
    have := splitAsciiWs_prefixed (t :: ts) h
    simp only [List.flatMap_cons, List.cons_append] at this ⊢
    rw [show (118 :: 32 :: (t ++ ts.flatMap (fun t => 32 :: t))) =
      [118] ++ 32 :: (t ++ ts.flatMap (fun t => 32 :: t)) from rfl,
      splitAsciiWs_word_ws [118] hv 32 isAsciiWs_32, ← splitAsciiWs_ws 32 _ isAsciiWs_32, this]

/-- a value line without tokens is skipped -/
theorem replyLine_vLine_nil (nv : Nat) (st : PSt) : replyLine nv st (some (vLine [])) = .ok st := by
  simp [replyLine, vLine, strOf_sSat, strOf_sUnsat, strOf_v_sp, strOf_c_sp, strOf_c, strOf_v]

/-- a value line with tokens: the tokens are interpreted in order -/
theorem replyLine_vLine (nv : Nat) (st : PSt) (toks : List Str) (h : ∀ t ∈ toks, Tok t) (hne : toks ≠ []) :
    replyLine nv st (some (vLine toks)) = vTokens nv { st with seen := true } toks := by
  have hs := splitAsciiWs_vLine toks h
  cases toks with
  | nil => exact absurd rfl hne
  | cons t ts =>
    unfold replyLine
    simp only [hs, List.drop_succ_cons, List.drop_zero]
    simp [vLine, strOf_sSat, strOf_sUnsat, strOf_v_sp]

theorem parseIsize_zero : parseIsize [48] = some 0 := by decide

/-- a value line carrying the values `bs` of the variables `i + 1, …` writes exactly these -/
theorem replyLine_chunk (nv : Nat) (hnv : nv ≤ 9223372036854775807) (st : PSt) (i : Nat) (bs : List Bool)
    (hi : i + bs.length ≤ nv) :
    ∃ st1, replyLine nv st (some (vLine (litToks i bs))) = .ok st1 ∧ st1.status = st.status ∧
      st1.asg = writeFrom st.asg i bs ∧ st1.ended = st.ended := by
  cases hb : bs with
  | nil => exact ⟨st, replyLine_vLine_nil nv st, rfl, rfl, rfl⟩
  | cons b bs' =>
    rw [← hb]
    have hne : litToks i bs ≠ [] := by rw [hb]; simp [litToks]
    rw [replyLine_vLine nv st _ (tok_litToks bs i) hne]
    have := vTokens_lits nv bs i { st with seen := true } [] hi (by omega)
    rw [List.append_nil] at this
    rw [this]
    exact ⟨_, rfl, rfl, rfl, rfl⟩

/-- the last value line: the remaining values, then `0` -/
theorem replyLine_last (nv : Nat) (hnv : nv ≤ 9223372036854775807) (st : PSt) (i : Nat) (bs : List Bool)
    (hi : i + bs.length ≤ nv) (he : st.ended = false) :
    replyLine nv st (some (vLine (litToks i bs ++ [[48]]))) =
      .ok { status := st.status, asg := writeFrom st.asg i bs, seen := true, ended := true } := by
  have htok : ∀ t ∈ litToks i bs ++ [[48]], Tok t := by
    intro t ht
    rcases List.mem_append.1 ht with ht | ht
    · exact tok_litToks bs i t ht
    · rw [List.mem_singleton.1 ht]; exact tok_zero
  rw [replyLine_vLine nv st _ htok (by simp), vTokens_lits nv bs i _ _ hi (by omega)]
  simp [vTokens, parseIsize_zero, he]

/-! ### the whole reply -/

theorem foldLines_body (nv : Nat) (hnv : nv ≤ 9223372036854775807) (mid : List Str)
    (hmid : ∀ l ∈ mid, Noise l) (chunks : List (List Str × Nat)) :
    (∀ ch ∈ chunks, ∀ l ∈ ch.1, Noise l) → ∀ (i : Nat) (bs : List Bool) (st : PSt),
      i + bs.length ≤ nv → st.ended = false →
      foldLines (replyLine nv) st
          ((bodyLines (fun toks => [vLine (toks ++ [[48]])]) mid i bs chunks).map some) =
        .ok { status := st.status, asg := writeFrom st.asg i bs, seen := true, ended := true } := by
  induction chunks with
  | nil =>
    intro _ i bs st hi he
    simp only [bodyLines, List.map_append, foldLines_append, foldLines_noise nv st mid hmid,
      List.map_cons, List.map_nil, foldLines, replyLine_last nv hnv st i bs hi he]
  | cons ch chunks ih =>
    intro hch i bs st hi he
    obtain ⟨cs, k⟩ := ch
    have hcs : ∀ l ∈ cs, Noise l := hch (cs, k) (List.mem_cons_self ..)
    have hlen : (bs.take k).length + (bs.drop k).length = bs.length := by
      rw [← List.length_append, List.take_append_drop]
    obtain ⟨st1, h1, hs1, ha1, he1⟩ := replyLine_chunk nv hnv st i (bs.take k) (by omega)
    simp only [bodyLines, List.map_append, foldLines_append, foldLines_noise nv st cs hcs,
      List.map_cons, foldLines, h1]
    rw [ih (fun c hc => hch c (List.mem_cons_of_mem _ hc)) _ _ st1 (by omega) (by rw [he1, he]),
      hs1, ha1, ← writeFrom_append, List.take_append_drop]

theorem printable_natToStr (k : Nat) : ∀ c ∈ natToStr k, 32 ≤ c ∧ c < 127 := fun c hc => by
  have := natToStr_digits k c hc; omega

theorem printable_litToks (bs : List Bool) : ∀ i, ∀ t ∈ litToks i bs, ∀ c ∈ t, 32 ≤ c ∧ c < 127 := by
  induction bs with
  | nil => intro i t ht; cases ht
  | cons b bs ih =>
    intro i t ht
    rcases List.mem_cons.1 ht with rfl | ht
    · intro c hc
      unfold litTok at hc
      split at hc
      · exact printable_natToStr _ c hc
      · rcases List.mem_cons.1 hc with rfl | hc
        · omega
        · exact printable_natToStr _ c hc
    · exact ih _ t ht

theorem printable_vLine (toks : List Str) (h : ∀ t ∈ toks, ∀ c ∈ t, 32 ≤ c ∧ c < 127) :
    ∀ c ∈ vLine toks, 32 ≤ c ∧ c < 127 := by
  intro c hc
  simp only [vLine, List.mem_cons, List.mem_flatMap] at hc
  rcases hc with rfl | ⟨t, ht, rfl | hc⟩
  · omega
  · omega
  · exact h t ht c hc

theorem printable_sSat : ∀ c ∈ sSat, 32 ≤ c ∧ c < 127 := by decide
theorem printable_sUnsat : ∀ c ∈ sUnsat, 32 ≤ c ∧ c < 127 := by decide

theorem lineOk_vLine_lits (i : Nat) (bs : List Bool) (extra : List Str)
    (he : ∀ t ∈ extra, ∀ c ∈ t, 32 ≤ c ∧ c < 127) : LineOk (vLine (litToks i bs ++ extra)) := by
  apply lineOk_of_printable
  apply printable_vLine
  intro t ht
  rcases List.mem_append.1 ht with ht | ht
  · exact printable_litToks bs i t ht
  · exact he t ht

theorem lineOk_bodyLines (last : List Str → List Str) (hlast : ∀ i bs, ∀ l ∈ last (litToks i bs), LineOk l)
    (mid : List Str) (hmid : ∀ l ∈ mid, Noise l) (chunks : List (List Str × Nat)) :
    (∀ ch ∈ chunks, ∀ l ∈ ch.1, Noise l) → ∀ (i : Nat) (bs : List Bool),
      ∀ l ∈ bodyLines last mid i bs chunks, LineOk l := by
  induction chunks with
  | nil =>
    intro _ i bs l hl
    rcases List.mem_append.1 hl with hl | hl
    · exact (hmid l hl).1
    · exact hlast i bs l hl
  | cons ch chunks ih =>
    intro hch i bs l hl
    obtain ⟨cs, k⟩ := ch
    simp only [bodyLines, List.mem_append, List.mem_cons] at hl
    rcases hl with hl | rfl | hl
    · exact (hch (cs, k) (List.mem_cons_self ..) l hl).1
    · have := lineOk_vLine_lits i (bs.take k) [] (by simp)
      rwa [List.append_nil] at this
    · exact ih (fun c hc => hch c (List.mem_cons_of_mem _ hc)) _ _ l hl

theorem lineOk_replyLines (m : List Bool) (lay : Layout) (hlay : lay.Ok) :
    ∀ l ∈ replyLines m lay, LineOk l := by
  obtain ⟨hpre, hch, hmid, hpost⟩ := hlay
  intro l hl
  simp only [replyLines, List.mem_append, List.mem_cons] at hl
  rcases hl with hl | rfl | hl | hl
  · exact (hpre l hl).1
  · exact lineOk_of_printable _ printable_sSat
  · refine lineOk_bodyLines _ ?_ lay.mid hmid lay.chunks hch 0 m l hl
    intro i bs l hl
    rw [List.mem_singleton.1 hl]
    exact lineOk_vLine_lits i bs [[48]] (by simp)
  · exact (hpost l hl).1

/-- general form: the solver was asked about `r` more variables than the reply mentions -/
theorem parseReply_renderModel_pad (m : List Bool) (r : Nat) (lay : Layout) (hlay : lay.Ok)
    (hm : m.length + r ≤ 9223372036854775807) :
    parseReply (m.length + r) (renderModel m lay) = .sat (m.map some ++ List.replicate r none) := by
  have hok := lineOk_replyLines m lay hlay
  obtain ⟨hpre, hch, hmid, hpost⟩ := hlay
  unfold parseReply renderModel
  rw [lines_encode_flatMap _ hok]
  simp only [replyLines, List.map_append, List.map_cons, foldLines_append, foldLines,
    foldLines_noise _ _ lay.pre hpre, replyLine_sSat]
  rw [foldLines_body _ hm lay.mid hmid lay.chunks hch 0 m _ (by simp) rfl]
  simp only [foldLines_noise _ _ lay.post hpost, Bool.and_self, if_true]
  have := writeFrom_spec m [] r
  simp only [List.nil_append, List.length_nil] at this
  rw [this]

/-- **(B) a well-formed satisfiable reply is reported as such**: for every model `m` (below
`isize::MAX` variables), every way of splitting the literals over value lines, and all comment
lines before the status line, between the value lines and after them, the parser returns exactly
`m`. -/
theorem parseReply_renderModel (m : List Bool) (lay : Layout) (hlay : lay.Ok)
    (hm : m.length ≤ 9223372036854775807) :
    parseReply m.length (renderModel m lay) = .sat (m.map some) := by
  have := parseReply_renderModel_pad m 0 lay hlay hm
  simpa using this

/-- **(B) a well-formed unsatisfiable reply is reported as such**, whatever the number of
variables, with comment lines before and after the status line -/
theorem parseReply_renderUnsat (nv : Nat) (pre post : List Str)
    (hpre : ∀ l ∈ pre, Noise l) (hpost : ∀ l ∈ post, Noise l) :
    parseReply nv (renderUnsat pre post) = .unsat := by
  unfold parseReply renderUnsat
  rw [lines_encode_flatMap]
  · simp only [List.map_append, List.map_cons, foldLines_append, foldLines,
      foldLines_noise _ _ pre hpre, replyLine_sUnsat, foldLines_noise _ _ post hpost]
  · intro l hl
    simp only [List.mem_append, List.mem_cons] at hl
    rcases hl with hl | rfl | hl
    · exact (hpre l hl).1
    · exact lineOk_of_printable _ printable_sUnsat
    · exact (hpost l hl).1

/-! ## C. a truncated reply is never a result -/

/-! ### `lines` of a prefix of the bytes -/

theorem lines_nonl (bs : List UInt8) (h : ∀ b ∈ bs, b ≠ 0x0A) :
    lines bs = if bs = [] then [] else [decodeUtf8 bs] := by
  unfold lines splitRaw
  have := splitRaw_go_seg bs [] [] h
  rw [List.append_nil] at this
  rw [this]
  by_cases he : bs = []
  · subst he; simp [splitRaw.go]
  · have he' : bs.isEmpty = false := by simpa using he
    simp [splitRaw.go, he, stripCr]

theorem lines_cons_bytes (l : Str) (rest : List UInt8) (h : LineOk l) :
    lines (encodeUtf8 l ++ 0x0A :: rest) = some l :: lines rest := by
  obtain ⟨h1, h2⟩ := h
  have hnl := encode_no_nl l (fun c hc => ⟨(h1 c hc).1.1, (h1 c hc).2⟩)
  have hcr := encode_getLast l (fun c hc => (h1 c hc).1.1) h2
  unfold lines splitRaw
  rw [splitRaw_go_seg _ _ _ hnl]
  simp only [List.append_nil, splitRaw.go, beq_self_eq_true, if_true,
    List.reverse_reverse, List.map_cons]
  rw [stripCr_ok _ hcr]
  congr 1
  exact decode_encode l (fun c hc => (h1 c hc).1)

theorem encodeUtf8_line (l rest : Str) :
    encodeUtf8 ((l ++ [10]) ++ rest) = encodeUtf8 l ++ 0x0A :: encodeUtf8 rest := by
  rw [List.append_assoc, encodeUtf8_append, List.singleton_append, encodeUtf8_cons, encChar_nl]
  rfl

/-- every line of every prefix of the bytes of a text made of `\n`-terminated lines is a line of
the text or what remains of one after cutting its bytes -/
theorem lines_take_forall (P : Option Str → Prop) (L : List Str) (hok : ∀ l ∈ L, LineOk l)
    (hP : ∀ l ∈ L, P (some l) ∧ ∀ r, 0 < r → P (decodeUtf8 ((encodeUtf8 l).take r))) :
    ∀ k, ∀ x ∈ lines ((encodeUtf8 (L.flatMap (fun l => l ++ [10]))).take k), P x := by
  induction L with
  | nil => intro k x hx; simp [encodeUtf8_nil, lines, splitRaw, splitRaw.go] at hx
  | cons l L ih =>
    intro k x hx
    have hl := hok l (List.mem_cons_self ..)
    have hPl := hP l (List.mem_cons_self ..)
    rw [List.flatMap_cons, encodeUtf8_line] at hx
    by_cases hk : k ≤ (encodeUtf8 l).length
    · rw [List.take_append_of_le_length hk] at hx
      have hnl : ∀ b ∈ (encodeUtf8 l).take k, b ≠ 0x0A := fun b hb =>
        encode_no_nl l (fun c hc => ⟨(hl.1 c hc).1.1, (hl.1 c hc).2⟩) b (List.mem_of_mem_take hb)
      rw [lines_nonl _ hnl] at hx
      split at hx
      · cases hx
      · rename_i hne
        rw [List.mem_singleton.1 hx]
        apply hPl.2
        cases k with
        | zero => simp at hne
        | succ k => omega
    · obtain ⟨j, hj⟩ : ∃ j, k - (encodeUtf8 l).length = j + 1 := ⟨k - (encodeUtf8 l).length - 1, by omega⟩
      rw [List.take_append, List.take_of_length_le (by omega), hj, List.take_succ_cons,
        lines_cons_bytes l _ hl] at hx
      rcases List.mem_cons.1 hx with rfl | hx
      · exact hPl.1
      · exact ih (fun y hy => hok y (List.mem_cons_of_mem _ hy))
          (fun y hy => hP y (List.mem_cons_of_mem _ hy)) j x hx

theorem encodeUtf8_ascii (l : Str) (h : ∀ c ∈ l, c < 128) : encodeUtf8 l = l.map Nat.toUInt8 := by
  induction l with
  | nil => simp [encodeUtf8_nil]
  | cons c cs ih =>
    have hc : c < 0x80 := h c (List.mem_cons_self ..)
    rw [encodeUtf8_cons, ih (fun d hd => h d (List.mem_cons_of_mem _ hd))]
    simp [encChar, hc]

/-- cutting the bytes of an ASCII line cuts the line -/
theorem decode_take_ascii (l : Str) (h : ∀ c ∈ l, c < 128) (r : Nat) :
    decodeUtf8 ((encodeUtf8 l).take r) = some (l.take r) := by
  have h' : ∀ c ∈ l.take r, c < 128 := fun c hc => h c (List.mem_of_mem_take hc)
  rw [encodeUtf8_ascii l h, ← List.map_take, ← encodeUtf8_ascii _ h']
  exact decode_encode _ (fun c hc => scalar_ascii c (h' c hc))

theorem encChar_99 : encChar 99 = [99] := by decide

/-- cutting the bytes of a comment line leaves invalid UTF-8 or a line that starts with `c` -/
theorem decode_take_comment (t : Str) (r : Nat) (hr : 0 < r) :
    decodeUtf8 ((encodeUtf8 (99 :: t)).take r) = none ∨
      ∃ u, decodeUtf8 ((encodeUtf8 (99 :: t)).take r) = some (99 :: u) := by
  obtain ⟨j, rfl⟩ : ∃ j, r = j + 1 := ⟨r - 1, by omega⟩
  rw [encodeUtf8_cons, encChar_99, List.singleton_append, List.take_succ_cons,
    decode_cons1 _ _ (by decide)]
  cases decodeUtf8 ((encodeUtf8 t).take j) with
  | none => exact Or.inl rfl
  | some u => exact Or.inr ⟨u, rfl⟩

/-! ### lines that can neither end the model nor announce unsatisfiability -/

def Harmless (nv : Nat) (x : Option Str) : Prop :=
  ∀ st st', replyLine nv st x = .ok st' →
    st'.ended = st.ended ∧ (st'.status = some false → st.status = some false)

theorem harmless_none (nv : Nat) : Harmless nv none := by
  intro st st' h; simp [replyLine] at h

theorem harmless_nil (nv : Nat) : Harmless nv (some []) := by
  intro st st' h
  simp [replyLine, strOf_sSat, strOf_sUnsat, strOf_v_sp, strOf_c_sp, strOf_c, strOf_v] at h
  subst h; exact ⟨rfl, id⟩

theorem harmless_c (nv : Nat) (t : Str) : Harmless nv (some (99 :: t)) := by
  intro st st' h
  unfold replyLine at h
  simp only [strOf_sSat, strOf_sUnsat, strOf_v_sp] at h
  rw [if_neg (by simp), if_neg (by simp), if_neg (by simp)] at h
  split at h
  · injection h with h; subst h; exact ⟨rfl, id⟩
  · cases h

theorem harmless_s (nv : Nat) (t : Str) (hne : 115 :: t ≠ sUnsat) : Harmless nv (some (115 :: t)) := by
  intro st st' h
  unfold replyLine at h
  simp only [strOf_sUnsat, strOf_v_sp, strOf_c_sp, strOf_c, strOf_v] at h
  split at h
  · split at h
    · cases h
    · injection h with h; subst h; exact ⟨rfl, fun e => by cases e⟩
  · rw [if_neg (by simpa [sUnsat] using hne), if_neg (by simp)] at h
    simp at h

theorem vTokens_nozero (nv : Nat) : ∀ (ws : List Str) (st st' : PSt),
    (∀ w ∈ ws, parseIsize w ≠ some 0) → vTokens nv st ws = .ok st' → st'.ended = st.ended := by
  intro ws
  induction ws with
  | nil => intro st st' _ h; simp only [vTokens] at h; injection h with h; subst h; rfl
  | cons w ws ih =>
    intro st st' hz h
    have hw := hz w (List.mem_cons_self ..)
    have hz' : ∀ x ∈ ws, parseIsize x ≠ some 0 := fun x hx => hz x (List.mem_cons_of_mem _ hx)
    simp only [vTokens] at h
    split at h
    · cases h
    · rename_i n hn
      split at h
      · rename_i h0
        have : n = 0 := by simpa using h0
        subst this
        exact absurd hn hw
      · split at h
        · cases h
        · have := ih _ _ hz' h
          exact this

/-- a line without a `0` token, other than the "unsatisfiable" status line -/
theorem harmless_nozero (nv : Nat) (s : Str) (h1 : s ≠ sUnsat)
    (h2 : ∀ w ∈ splitAsciiWs s, parseIsize w ≠ some 0) : Harmless nv (some s) := by
  intro st st' h
  unfold replyLine at h
  simp only [strOf_sUnsat] at h
  split at h
  · split at h
    · cases h
    · injection h with h; subst h; exact ⟨rfl, fun e => by cases e⟩
  · rw [if_neg (by simpa [sUnsat] using h1)] at h
    split at h
    · have hz : ∀ w ∈ (splitAsciiWs s).drop 1, parseIsize w ≠ some 0 :=
        fun w hw => h2 w (List.mem_of_mem_drop hw)
      have he := vTokens_nozero nv _ _ _ hz h
      have hs := (vTokens_len nv _ _ _ h).2.1
      exact ⟨he, fun e => by rw [hs] at e; exact e⟩
    · split at h
      · injection h with h; subst h; exact ⟨rfl, id⟩
      · cases h

theorem foldLines_harmless (nv : Nat) : ∀ (ls : List (Option Str)) (st st' : PSt),
    (∀ x ∈ ls, Harmless nv x) → foldLines (replyLine nv) st ls = .ok st' →
    st'.ended = st.ended ∧ (st'.status = some false → st.status = some false) := by
  intro ls
  induction ls with
  | nil => intro st st' _ h; simp only [foldLines] at h; injection h with h; subst h; exact ⟨rfl, id⟩
  | cons x xs ih =>
    intro st st' hh h
    simp only [foldLines] at h
    cases hx : replyLine nv st x with
    | error e => rw [hx] at h; cases h
    | ok s1 =>
      rw [hx] at h
      have a := hh x (List.mem_cons_self ..) st s1 hx
      have b := ih s1 st' (fun y hy => hh y (List.mem_cons_of_mem _ hy)) h
      exact ⟨b.1.trans a.1, fun e => a.2 (b.2 e)⟩

/-- an output all of whose lines are harmless is never a result -/
theorem parseReply_harmless (nv : Nat) (out : List UInt8) (h : ∀ x ∈ lines out, Harmless nv x) :
    parseReply nv out = .unknown ∨ ∃ e, parseReply nv out = .abort e := by
  unfold parseReply
  cases hf : foldLines (replyLine nv) { asg := List.replicate nv none } (lines out) with
  | error e => exact Or.inr ⟨e, rfl⟩
  | ok st =>
    left
    obtain ⟨he, hs⟩ := foldLines_harmless nv _ _ _ h hf
    have he : st.ended = false := he
    cases hst : st.status with
    | none => simp [hst]
    | some b =>
      cases b
      · have := hs hst; cases this
      · simp [hst, he]

/-! ### the tokens of a cut value line: never `0` -/

theorem natToStr_head (k : Nat) (hk : 1 ≤ k) : ∃ c cs, natToStr k = c :: cs ∧ 49 ≤ c ∧ c ≤ 57 := by
  induction k using Nat.strongRecOn with
  | _ k ih =>
    by_cases h : k < 10
    · exact ⟨48 + k, [], natToStr_lt10 k h, by omega, by omega⟩
    · obtain ⟨c, cs, hs, hc⟩ := ih (k / 10) (by omega) (by omega)
      exact ⟨c, cs ++ [48 + k % 10], by rw [natToStr_step k (by omega), hs]; rfl, hc⟩

theorem digitsVal_foldl_pos (cs : Str) : ∀ acc, 1 ≤ acc →
    1 ≤ cs.foldl (fun acc c => acc * 10 + (c - 48)) acc := by
  induction cs with
  | nil => intro acc h; exact h
  | cons c cs ih => intro acc h; simp only [List.foldl_cons]; exact ih _ (by omega)

theorem digitsVal_pos (c : Nat) (cs : Str) (hc : 49 ≤ c) : 1 ≤ digitsVal (c :: cs) := by
  unfold digitsVal
  rw [List.foldl_cons]
  exact digitsVal_foldl_pos cs _ (by omega)

theorem parseIsize_nonzero_head (c : Nat) (cs : Str) (hc : 49 ≤ c ∧ c ≤ 57) :
    parseIsize (c :: cs) ≠ some 0 := by
  have hp := digitsVal_pos c cs hc.1
  rw [parseIsize_digit_head c cs ⟨by omega, hc.2⟩]
  split
  · split
    · intro e; injection e with e; omega
    · intro e; cases e
  · intro e; cases e

theorem parseIsize_neg_nonzero_head (c : Nat) (cs : Str) (hc : 49 ≤ c ∧ c ≤ 57) :
    parseIsize (45 :: c :: cs) ≠ some 0 := by
  have hp := digitsVal_pos c cs hc.1
  unfold parseIsize
  simp only
  split
  · intro e; cases e
  · simp only [↓reduceIte]
    split
    · intro e; injection e with e; omega
    · intro e; cases e

theorem parseIsize_minus : parseIsize [45] = none := by decide
theorem parseIsize_v : parseIsize [118] = none := by decide

theorem prefix_cons_of_ne_nil (w : Str) (c : Nat) (cs : Str) (hne : w ≠ []) (h : w <+: c :: cs) :
    ∃ w', w = c :: w' ∧ w' <+: cs := by
  cases w with
  | nil => exact absurd rfl hne
  | cons a w' =>
    obtain ⟨rfl, h'⟩ := List.cons_prefix_cons.1 h
    exact ⟨w', rfl, h'⟩

/-- a non-empty part of a literal token is never read as `0` (no leading zeros) -/
theorem prefix_litTok (i : Nat) (b : Bool) (w : Str) (hne : w ≠ []) (h : w <+: litTok i b) :
    parseIsize w ≠ some 0 := by
  obtain ⟨c, cs, hs, hc⟩ := natToStr_head (i + 1) (by omega)
  unfold litTok at h
  rw [hs] at h
  cases b
  · simp only [Bool.false_eq_true, if_false] at h
    obtain ⟨w', rfl, h'⟩ := prefix_cons_of_ne_nil w _ _ hne h
    cases w' with
    | nil => rw [parseIsize_minus]; intro e; cases e
    | cons a w'' =>
      obtain ⟨w3, e, _⟩ := prefix_cons_of_ne_nil (a :: w'') _ _ (by simp) h'
      rw [e]; exact parseIsize_neg_nonzero_head c w3 hc
  · simp only [if_true] at h
    obtain ⟨w', rfl, _⟩ := prefix_cons_of_ne_nil w _ _ hne h
    exact parseIsize_nonzero_head c w' hc

theorem mem_litToks (bs : List Bool) : ∀ i, ∀ t ∈ litToks i bs, ∃ j b, t = litTok j b := by
  induction bs with
  | nil => intro i t ht; cases ht
  | cons b bs ih =>
    intro i t ht
    rcases List.mem_cons.1 ht with rfl | ht
    · exact ⟨i, b, rfl⟩
    · exact ih _ t ht

/-- the tokens of a prefix of space-terminated tokens are non-empty prefixes of these tokens -/
theorem tokens_take_spaced (toks : List Str) (h : ∀ t ∈ toks, Tok t) :
    ∀ k, ∀ w ∈ splitAsciiWs ((toks.flatMap (fun t => t ++ [32])).take k),
      ∃ t ∈ toks, w ≠ [] ∧ w <+: t := by
  induction toks with
  | nil => intro k w hw; simp [splitAsciiWs_nil] at hw
  | cons t ts ih =>
    intro k w hw
    have ht := h t (List.mem_cons_self ..)
    rw [List.flatMap_cons, List.append_assoc, List.singleton_append] at hw
    by_cases hk : k ≤ t.length
    · rw [List.take_append_of_le_length hk] at hw
      by_cases he : t.take k = []
      · rw [he, splitAsciiWs_nil] at hw; cases hw
      · rw [splitAsciiWs_word _ ⟨he, fun c hc => ht.2 c (List.mem_of_mem_take hc)⟩] at hw
        rw [List.mem_singleton.1 hw]
        exact ⟨t, List.mem_cons_self .., he, List.take_prefix _ _⟩
    · obtain ⟨j, hj⟩ : ∃ j, k - t.length = j + 1 := ⟨k - t.length - 1, by omega⟩
      rw [List.take_append, List.take_of_length_le (by omega), hj, List.take_succ_cons,
        splitAsciiWs_word_ws t ht 32 isAsciiWs_32] at hw
      rcases List.mem_cons.1 hw with rfl | hw
      · exact ⟨w, List.mem_cons_self .., ht.1, List.prefix_refl _⟩
      · obtain ⟨t', ht', h1, h2⟩ := ih (fun x hx => h x (List.mem_cons_of_mem _ hx)) j w hw
        exact ⟨t', List.mem_cons_of_mem _ ht', h1, h2⟩

theorem flatMap_space_shift (toks : List Str) :
    toks.flatMap (fun t => 32 :: t) ++ [32] = 32 :: toks.flatMap (fun t => t ++ [32]) := by
  induction toks with
  | nil => rfl
  | cons t ts ih => simp only [List.flatMap_cons, List.cons_append, List.append_assoc, ih,
      List.nil_append]

theorem vLine_spaced (toks : List Str) :
    vLine toks ++ [32] = (([118] : Str) :: toks).flatMap (fun t => t ++ [32]) := by
  simp only [vLine, List.flatMap_cons, List.cons_append, List.nil_append, flatMap_space_shift]

/-- a value line without `0`, cut anywhere, is harmless -/
theorem harmless_vcut (nv : Nat) (i : Nat) (bs : List Bool) (k : Nat) :
    Harmless nv (some ((vLine (litToks i bs) ++ [32]).take k)) := by
  apply harmless_nozero
  · cases k with
    | zero => simp [sUnsat]
    | succ k => simp [vLine, sUnsat]
  · intro w hw
    rw [vLine_spaced] at hw
    have htok : ∀ t ∈ ([118] : Str) :: litToks i bs, Tok t := by
      intro t ht
      rcases List.mem_cons.1 ht with rfl | ht
      · exact tok_cons 118 [] (by decide) (by simp)
      · exact tok_litToks bs i t ht
    obtain ⟨t, ht, hne, hpre⟩ := tokens_take_spaced _ htok k w hw
    rcases List.mem_cons.1 ht with rfl | ht
    · obtain ⟨w', rfl, h'⟩ := prefix_cons_of_ne_nil w _ _ hne hpre
      rw [List.prefix_nil.1 h', parseIsize_v]; intro e; cases e
    · obtain ⟨j, b, rfl⟩ := mem_litToks bs i t ht
      exact prefix_litTok j b w hne hpre

/-! ### the truncated reply -/

/-- the lines of a satisfiable reply up to the last value line, which stops right before its `0` -/
def headLines (m : List Bool) (lay : Layout) : List Str :=
  lay.pre ++ sSat :: bodyLines (fun toks => [vLine toks ++ [32]]) lay.mid 0 m lay.chunks

/-- the bytes of a satisfiable reply before the terminating `0` token of its last value line -/
def renderHead (m : List Bool) (lay : Layout) : List UInt8 :=
  (encodeUtf8 ((headLines m lay).flatMap (fun l => l ++ [10]))).dropLast

theorem body_split (mid : List Str) (chunks : List (List Str × Nat)) : ∀ (i : Nat) (bs : List Bool),
    ∃ X, (bodyLines (fun toks => [vLine toks ++ [32]]) mid i bs chunks).flatMap (fun l => l ++ [10]) =
        X ++ [10] ∧
      (bodyLines (fun toks => [vLine (toks ++ [[48]])]) mid i bs chunks).flatMap (fun l => l ++ [10]) =
        X ++ [48, 10] := by
  induction chunks with
  | nil =>
    intro i bs
    refine ⟨mid.flatMap (fun l => l ++ [10]) ++ (vLine (litToks i bs) ++ [32]), ?_, ?_⟩
    · simp [bodyLines]
    · simp [bodyLines, vLine]
  | cons ch chunks ih =>
    intro i bs
    obtain ⟨cs, k⟩ := ch
    obtain ⟨X, h1, h2⟩ := ih (i + (bs.take k).length) (bs.drop k)
    refine ⟨cs.flatMap (fun l => l ++ [10]) ++ (vLine (litToks i (bs.take k)) ++ [10]) ++ X, ?_, ?_⟩
    · simp only [bodyLines, List.flatMap_append, List.flatMap_cons, h1, List.append_assoc]
    · simp only [bodyLines, List.flatMap_append, List.flatMap_cons, h2, List.append_assoc]

/-- `renderHead` is the rendering cut right before the `0` token of the last value line -/
theorem renderModel_eq_head (m : List Bool) (lay : Layout) :
    renderModel m lay =
      renderHead m lay ++ encodeUtf8 (48 :: 10 :: lay.post.flatMap (fun l => l ++ [10])) := by
  obtain ⟨X, h1, h2⟩ := body_split lay.mid lay.chunks 0 m
  have e10 : encodeUtf8 [10] = [0x0A] := by rw [encodeUtf8_cons, encChar_nl, encodeUtf8_nil]; rfl
  have eL : (replyLines m lay).flatMap (fun l => l ++ [10]) =
      (lay.pre.flatMap (fun l => l ++ [10]) ++ (sSat ++ [10]) ++ X) ++
        (48 :: 10 :: lay.post.flatMap (fun l => l ++ [10])) := by
    simp [replyLines, h2, List.flatMap_append]
  have eR : (headLines m lay).flatMap (fun l => l ++ [10]) =
      (lay.pre.flatMap (fun l => l ++ [10]) ++ (sSat ++ [10]) ++ X) ++ [10] := by
    simp [headLines, h1, List.flatMap_append]
  unfold renderModel renderHead
  rw [eL, eR, encodeUtf8_append _ [10], e10, List.dropLast_concat, encodeUtf8_append]

theorem noise_shape (l : Str) (h : Noise l) : l = [] ∨ ∃ t, l = 99 :: t := by
  rcases h.2 with rfl | rfl | ⟨t, rfl⟩
  · exact Or.inl rfl
  · exact Or.inr ⟨[], rfl⟩
  · exact Or.inr ⟨32 :: t, rfl⟩

theorem harmless_noise (nv : Nat) (l : Str) (h : Noise l) :
    Harmless nv (some l) ∧ ∀ r, 0 < r → Harmless nv (decodeUtf8 ((encodeUtf8 l).take r)) := by
  rcases noise_shape l h with rfl | ⟨t, rfl⟩
  · refine ⟨harmless_nil nv, fun r _ => ?_⟩
    have : decodeUtf8 ((encodeUtf8 []).take r) = some [] := by simp [encodeUtf8_nil, decodeUtf8]
    rw [this]; exact harmless_nil nv
  · refine ⟨harmless_c nv t, fun r hr => ?_⟩
    rcases decode_take_comment t r hr with e | ⟨u, e⟩ <;> rw [e]
    · exact harmless_none nv
    · exact harmless_c nv u

theorem ascii_of_printable (l : Str) (h : ∀ c ∈ l, 32 ≤ c ∧ c < 127) : ∀ c ∈ l, c < 128 :=
  fun c hc => by have := h c hc; omega

theorem harmless_sSat (nv : Nat) :
    Harmless nv (some sSat) ∧ ∀ r, 0 < r → Harmless nv (decodeUtf8 ((encodeUtf8 sSat).take r)) := by
  refine ⟨harmless_s nv _ (by decide), fun r hr => ?_⟩
  rw [decode_take_ascii _ (ascii_of_printable _ printable_sSat)]
  obtain ⟨j, rfl⟩ : ∃ j, r = j + 1 := ⟨r - 1, by omega⟩
  have e : sSat.take (j + 1) = 115 :: (sSat.drop 1).take j := rfl
  rw [e]
  apply harmless_s
  intro e'
  have := congrArg List.length e'
  simp [sSat, sUnsat] at this
  omega

theorem printable_vHead (i : Nat) (bs : List Bool) :
    ∀ c ∈ vLine (litToks i bs) ++ [32], 32 ≤ c ∧ c < 127 := by
  intro c hc
  rcases List.mem_append.1 hc with hc | hc
  · exact printable_vLine _ (printable_litToks bs i) c hc
  · simp at hc; omega

theorem harmless_vtake (nv : Nat) (i : Nat) (bs : List Bool) (k : Nat) :
    let l := (vLine (litToks i bs) ++ [32]).take k
    Harmless nv (some l) ∧ ∀ r, 0 < r → Harmless nv (decodeUtf8 ((encodeUtf8 l).take r)) := by
  intro l
  refine ⟨harmless_vcut nv i bs k, fun r _ => ?_⟩
  have hasc : ∀ c ∈ l, c < 128 := fun c hc =>
    ascii_of_printable _ (printable_vHead i bs) c (List.mem_of_mem_take hc)
  rw [decode_take_ascii l hasc]
  show Harmless nv (some (((vLine (litToks i bs) ++ [32]).take k).take r))
  rw [List.take_take]
  exact harmless_vcut nv i bs _

/-- every line before the terminating `0` is a comment line or (a part of) a value line -/
theorem body_head_class (mid : List Str) (chunks : List (List Str × Nat)) : ∀ (i : Nat) (bs : List Bool),
    ∀ l ∈ bodyLines (fun toks => [vLine toks ++ [32]]) mid i bs chunks,
      (l ∈ mid ∨ ∃ ch ∈ chunks, l ∈ ch.1) ∨ ∃ j bs' k, l = (vLine (litToks j bs') ++ [32]).take k := by
  induction chunks with
  | nil =>
    intro i bs l hl
    rcases List.mem_append.1 hl with hl | hl
    · exact Or.inl (Or.inl hl)
    · right
      refine ⟨i, bs, (vLine (litToks i bs) ++ [32]).length, ?_⟩
      rw [List.mem_singleton.1 hl, List.take_length]
  | cons ch chunks ih =>
    intro i bs l hl
    obtain ⟨cs, k⟩ := ch
    simp only [bodyLines, List.mem_append, List.mem_cons] at hl
    rcases hl with hl | rfl | hl
    · exact Or.inl (Or.inr ⟨(cs, k), List.mem_cons_self .., hl⟩)
    · right
      exact ⟨i, bs.take k, (vLine (litToks i (bs.take k))).length, (List.take_left' rfl).symm⟩
    · rcases ih _ _ l hl with (h | ⟨ch, hch, h⟩) | h
      · exact Or.inl (Or.inl h)
      · exact Or.inl (Or.inr ⟨ch, List.mem_cons_of_mem _ hch, h⟩)
      · exact Or.inr h

/-- **(C) a truncated reply is never a result**: every prefix of the bytes of a rendered
satisfiable reply that ends before the terminating `0` token of the last value line — cut between
lines, inside a line, inside a token or inside a multi-byte character of a comment — is reported
as undecided or as an error, never as a model (and never as "unsatisfiable"), whatever the number
of variables the parser expects. -/
theorem truncated_reply_not_result (nv : Nat) (m : List Bool) (lay : Layout) (hlay : lay.Ok)
    (out : List UInt8) (h : out <+: renderHead m lay) :
    parseReply nv out = .unknown ∨ ∃ e, parseReply nv out = .abort e := by
  obtain ⟨hpre, hch, hmid, hpost⟩ := hlay
  apply parseReply_harmless
  have hp : out <+: encodeUtf8 ((headLines m lay).flatMap (fun l => l ++ [10])) :=
    h.trans (List.dropLast_prefix _)
  rw [List.prefix_iff_eq_take] at hp
  rw [hp]
  have hclass : ∀ l ∈ headLines m lay, Noise l ∨ l = sSat ∨
      ∃ j bs' k, l = (vLine (litToks j bs') ++ [32]).take k := by
    intro l hl
    simp only [headLines, List.mem_append, List.mem_cons] at hl
    rcases hl with hl | rfl | hl
    · exact Or.inl (hpre l hl)
    · exact Or.inr (Or.inl rfl)
    · rcases body_head_class _ _ _ _ l hl with (h | ⟨ch, hc, h⟩) | h
      · exact Or.inl (hmid l h)
      · exact Or.inl (hch ch hc l h)
      · exact Or.inr (Or.inr h)
  apply lines_take_forall (Harmless nv) (headLines m lay)
  · intro l hl
    rcases hclass l hl with h | rfl | ⟨j, bs', k, rfl⟩
    · exact h.1
    · exact lineOk_of_printable _ printable_sSat
    · exact lineOk_of_printable _ (fun c hc => printable_vHead j bs' c (List.mem_of_mem_take hc))
  · intro l hl
    rcases hclass l hl with h | rfl | ⟨j, bs', k, rfl⟩
    · exact harmless_noise nv l h
    · exact harmless_sSat nv
    · exact harmless_vtake nv j bs' k

/-- in particular a truncated reply is not a model -/
theorem truncated_reply_not_sat (nv : Nat) (m : List Bool) (lay : Layout) (hlay : lay.Ok)
    (out : List UInt8) (h : out <+: renderHead m lay) (a : List (Option Bool)) :
    parseReply nv out ≠ .sat a := by
  rcases truncated_reply_not_result nv m lay hlay out h with e | ⟨_, e⟩ <;> rw [e] <;> intro h' <;> cases h'

/-! ## the hypotheses are necessary -/

/-- (A) variable `0` is not a DIMACS variable: the clause `[x0, x1]` is written `0 1 0`, which no
DIMACS reader can take for a two-literal clause (the reference reader rejects it) -/
theorem readDimacs_var0 :
    readDimacs (Buffered.dimacs (({} : Buffered).addClause [pl 0, pl 1]) []) = none := by
  have h0 : Buffered.intStr (pl 0).toInt = [48] := by
    show Buffered.intStr ((0 : Nat) : Int) = _
    rw [intStr_ofNat, natToStr_lt10 0 (by omega)]
  have h1 : Buffered.intStr (pl 1).toInt = [49] := by
    show Buffered.intStr ((1 : Nat) : Int) = _
    rw [intStr_ofNat, natToStr_lt10 1 (by omega)]
  have e : Buffered.dimacs (({} : Buffered).addClause [pl 0, pl 1]) [] =
      [112, 32, 99, 110, 102, 32, 49, 32, 49, 10, 48, 32, 49, 32, 48, 10] := by
    have n1 : natToStr 1 = [49] := natToStr_lt10 1 (by omega)
    have hv : (max (max 0 (pl 0).var) (pl 1).var) = 1 := rfl
    simp only [Buffered.dimacs, Buffered.withAssumptions, Buffered.addClause, List.foldl_cons,
      List.foldl_nil, hv, List.nil_append, List.length_cons, List.length_nil, Nat.zero_add,
      Nat.add_zero, n1, strOf_p_cnf, List.flatMap_cons, List.flatMap_nil, Buffered.clauseLine, h0, h1]
    rfl
  rw [e]
  decide

/-- (B) the bound on the number of variables is necessary: the literal of variable
`isize::MAX + 1` is not an `isize`, so a reply that sets it to true is rejected -/
theorem parseReply_renderModel_big (a : List Bool) (ha : a.length = 9223372036854775807) :
    parseReply (a ++ [true]).length (renderModel (a ++ [true]) ⟨[], [], [], []⟩) =
      .abort "not a literal" := by
  have hlay : Layout.Ok ⟨[], [], [], []⟩ := ⟨by simp, by simp, by simp, by simp⟩
  have hok := lineOk_replyLines (a ++ [true]) _ hlay
  have htok : ∀ t ∈ litToks 0 (a ++ [true]) ++ [[48]], Tok t := by
    intro t ht
    rcases List.mem_append.1 ht with ht | ht
    · exact tok_litToks _ 0 t ht
    · rw [List.mem_singleton.1 ht]; exact tok_zero
  have hlen : (a ++ [true]).length = a.length + 1 := by simp
  unfold parseReply renderModel
  rw [lines_encode_flatMap _ hok]
  simp only [replyLines, bodyLines, List.nil_append, List.append_nil, List.map_cons, List.map_nil,
    foldLines, replyLine_sSat]
  rw [replyLine_vLine _ _ _ htok (by simp), litToks_append, List.append_assoc,
    vTokens_lits _ a 0 _ _ (by omega) (by omega)]
  simp only [litToks, List.cons_append, List.nil_append, vTokens, litTok, if_true, Nat.zero_add]
  rw [parseIsize_natToStr_big _ (by omega)]

end Crusta.Sat
