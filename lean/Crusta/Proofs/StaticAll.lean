import Crusta.Proofs.StaticGR
import Crusta.Proofs.StaticPRCO
import Crusta.Proofs.StaticST
import Crusta.Proofs.StaticID
import Crusta.Proofs.StaticRG

/-!
# All static solvers, all entry points

`static_entry_ok`: for each of the seven solver types, each entry point it offers, every view that
presents a graph, every world, the program returns what the semantics dictate (`EntryOK`) — for
every sound behaviour of the SAT solver.  `static_answers_conform` is the same statement about runs
of the interpreter on reply lists (`wp_sound`).
-/

namespace Crusta

/-- the configurations covered: the encoder handed to a solver describes the family that solver
is designed for (complete extensions for CO / PR / ID / SST, conflict-free sets for STG) -/
def CfgOK : SolverKind → Cfg → Prop
  | .GR, _ => True
  | .ST, _ => True
  | .CO, cfg => ∀ af T, cfg.enc.Base af T ↔ Complete af T
  | .PR, cfg => ∀ af T, cfg.enc.Base af T ↔ Complete af T
  | .ID, cfg => ∀ af T, cfg.enc.Base af T ↔ Complete af T
  | .SST, cfg => cfg.enc = .auxCO ∨ cfg.enc = .expCO ∨ cfg.enc = .hyb
  | .STG, cfg => cfg.enc = .auxCF ∨ cfg.enc = .expCF

/-- the three complete-semantics encoders satisfy the hypothesis of CO / PR / ID -/
theorem base_complete_of (k : EncKind) (h : k = .auxCO ∨ k = .expCO ∨ k = .hyb) :
    ∀ af T, k.Base af T ↔ Complete af T := by
  rcases h with rfl | rfl | rfl <;> intro af T <;> rfl

theorem static_entry_ok (sk : SolverKind) (cfg : Cfg) (hcfg : CfgOK sk cfg) (v : FwView) (g : G) (hv : v.Ok g)
    (e : Entry) (hargs : ∀ a, a ∈ e.argsList → g.live a = true) (p : Prog Ans)
    (hp : entryProg sk cfg v e = some p) (w : World) (hb : w.Bounded) :
    wp True p w (fun ans _ => EntryOK sk.sem g e ans) := by
  cases sk with
  | GR => exact gr_entry_ok cfg v g hv e p hp w
  | CO => exact co_entry_ok cfg hcfg v g hv e hargs p hp w hb
  | PR => exact pr_entry_ok cfg hcfg v g hv e hargs p hp w hb
  | ST => exact st_entry_ok cfg v g hv e hargs p hp w hb
  | SST => exact sst_entry_ok cfg hcfg v g hv e hargs p hp w hb
  | STG => exact stg_entry_ok cfg hcfg v g hv e hargs p hp w hb
  | ID => exact id_entry_ok cfg hcfg v g hv e hargs p hp w hb

/-- **every answer of every static solver conforms**, for every run on sound replies -/
theorem static_answers_conform (sk : SolverKind) (cfg : Cfg) (hcfg : CfgOK sk cfg) (v : FwView) (g : G)
    (hv : v.Ok g) (e : Entry) (hargs : ∀ a, a ∈ e.argsList → g.live a = true) (p : Prog Ans)
    (hp : entryProg sk cfg v e = some p) (w : World) (hb : w.Bounded) (rs : List Reply)
    (hs : RunSound p rs w) (ans : Ans) (w' : World) (hrun : interp p rs w = (.done ans, w')) :
    EntryOK sk.sem g e ans :=
  wp_sound p rs w w' ans _ (static_entry_ok sk cfg hcfg v g hv e hargs p hp w hb) hs hrun

/-- the status of an acceptance query is determined by the semantics: two conforming answers to
the same query have the same status (whatever the encoder, the certificate flag is part of the
entry, the history of the solver object and the SAT solver's choices) -/
theorem status_determined (σ : Sem) (g : G) (args : List Nat) (c1 c2 : Bool) (a1 a2 : AccAns) :
    (DCOK σ g args c1 a1 → DCOK σ g args c2 a2 → a1.status = a2.status) ∧
    (DSOK σ g args c1 a1 → DSOK σ g args c2 a2 → a1.status = a2.status) := by
  constructor
  · intro h1 h2
    cases hs1 : a1.status <;> cases hs2 : a2.status
    · rfl
    · exact absurd (h2.1 hs2).1 (h1.2 hs1).1
    · exact absurd (h1.1 hs1).1 (h2.2 hs2).1
    · rfl
  · intro h1 h2
    cases hs1 : a1.status <;> cases hs2 : a2.status
    · rfl
    · obtain ⟨S, hS, hn⟩ := (h1.2 hs1).1
      exact absurd ((h2.1 hs2).1 S hS) hn
    · obtain ⟨S, hS, hn⟩ := (h2.2 hs2).1
      exact absurd ((h1.1 hs1).1 S hS) hn
    · rfl

/-- on a compact well-formed framework (what the readers produce) the semantics above are the
textbook ones of the spec layer -/
theorem gext_compact (σ : Sem) (af : AF) (S : ASet) : σ.GExt af.g S ↔ σ.Ext af S := by
  cases σ with
  | GR => exact AF.g_grounded af S
  | CO => exact AF.g_complete af S
  | PR => exact AF.g_preferred af S
  | ST => exact AF.g_stable af S
  | SST => exact AF.g_semistable af S
  | STG => exact AF.g_stage af S
  | ID => exact AF.g_ideal af S

end Crusta
