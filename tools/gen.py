"""Case generators. Every random choice derives from the one random.Random passed in."""
import itertools


def rand_af(rng, n, density=None, p_self=0.15):
    if density is None:
        density = rng.choice([0.1, 0.2, 0.3, 0.5])
    atts = []
    for a in range(n):
        for b in range(n):
            if a == b:
                if rng.random() < p_self * density * 2:
                    atts.append((a, b))
            elif rng.random() < density:
                atts.append((a, b))
    rng.shuffle(atts)
    return n, atts


def cycle(n, off=0):
    return [(off + i, off + (i + 1) % n) for i in range(n)]


def chain(n, off=0):
    return [(off + i, off + i + 1) for i in range(n - 1)]


def funnel(k, m):
    """target 0 attacked by k attackers, each attacked by m defenders: defender-set product m**k"""
    atts = []
    nxt = 1
    attackers = []
    for _ in range(k):
        attackers.append(nxt)
        atts.append((nxt, 0))
        nxt += 1
    for b in attackers:
        for _ in range(m):
            atts.append((nxt, b))
            # make the defender attackable so that nothing is trivial
            atts.append((b, nxt))
            nxt += 1
    return nxt, atts


def disjoint_union(parts):
    n = 0
    atts = []
    for (k, a) in parts:
        atts += [(x + n, y + n) for (x, y) in a]
        n += k
    return n, atts


def structured(rng, max_n=9):
    kind = rng.choice(["cycle", "chain", "cycles", "multi", "hub", "iso", "selfloops", "empty", "even_shared"])
    if kind == "cycle":
        n = rng.randint(1, max_n)
        return n, cycle(n)
    if kind == "chain":
        n = rng.randint(1, max_n)
        return n, chain(n)
    if kind == "cycles":
        parts = []
        tot = 0
        while tot < max_n - 1:
            k = rng.randint(1, min(4, max_n - tot))
            parts.append((k, cycle(k)))
            tot += k
            if rng.random() < 0.3:
                break
        return disjoint_union(parts)
    if kind == "multi":
        parts = []
        tot = 0
        for _ in range(rng.randint(2, 4)):
            k = rng.randint(1, max(1, min(4, max_n - tot)))
            if tot + k > max_n:
                break
            parts.append(rand_af(rng, k, rng.choice([0.3, 0.5, 0.7])))
            tot += k
        return disjoint_union(parts) if parts else (1, [])
    if kind == "hub":
        # k disjoint 2-cycles, one side of each attacked by / attacking a hub
        k = rng.randint(1, max(1, (max_n - 1) // 2))
        atts = []
        for i in range(k):
            a, b = 1 + 2 * i, 2 + 2 * i
            atts += [(a, b), (b, a)]
            if rng.random() < 0.6:
                atts.append((a, 0))
            if rng.random() < 0.4:
                atts.append((0, b))
        return 1 + 2 * k, atts
    if kind == "iso":
        n = rng.randint(1, max_n)
        m, a = rand_af(rng, max(1, n - 2), 0.4)
        return n, a
    if kind == "selfloops":
        n = rng.randint(1, max_n)
        m, a = rand_af(rng, n, 0.25, p_self=1.0)
        return n, a
    if kind == "even_shared":
        # even cycles sharing an argument: several incomparable preferred extensions
        n = rng.choice([5, 7])
        n = min(n, max_n if max_n % 2 == 1 else max_n - 1)
        n = max(n, 3)
        atts = []
        for i in range(1, n, 2):
            atts += [(0, i), (i, i + 1 if i + 1 < n else 0), ((i + 1) if i + 1 < n else 0, 0)]
            atts += [(i, (i + 1) if i + 1 < n else 0), (((i + 1) if i + 1 < n else 0), i)]
        return n, list(dict.fromkeys(atts))
    return 0, []


GADGETS = [
    (4, [(0, 1), (1, 0), (0, 2), (1, 2), (2, 3)]),                    # floating acceptance: 3 in every preferred extension, not ideal
    (6, [(0, 1), (1, 0), (0, 2), (1, 2), (2, 3), (2, 5), (4, 5)]),    # the same next to ideal arguments
    (3, [(0, 1), (1, 0), (0, 2), (2, 0), (1, 2), (2, 1)]),            # 3 mutually attacking arguments: 3 preferred extensions
    (4, [(a, b) for a in range(4) for b in range(4) if a != b]),      # 4 of them
    (3, [(0, 1), (1, 2), (2, 0)]),                                    # odd cycle: no stable extension
    (4, [(0, 1), (1, 2), (2, 3), (3, 1)]),                            # odd cycle fed by an unattacked argument
    (2, [(0, 0), (1, 0)]),                                            # self-attacker with an attacker
    (2, [(0, 0), (0, 1)]),                                            # self-attacker attacking another argument
    (3, [(0, 1), (1, 2), (2, 2)]),                                    # chain into a self-attacker: stage != semi-stable
    (1, []),                                                          # isolated argument
    (4, [(0, 1), (1, 0), (1, 2), (2, 3)]),                            # 2-cycle with a tail
    (5, [(0, 1), (1, 0), (1, 2), (2, 3), (3, 4), (4, 2)]),            # 2-cycle feeding an odd cycle
    (2, [(0, 1), (1, 0)]),                                            # 2-cycle
    (3, [(0, 1), (2, 1)]),                                            # two unattacked attackers of one argument
]


def gadget_union(rng, max_n=9):
    """disjoint union of semantic gadgets, sometimes bridged by an attack from an earlier to a later gadget,
    arguments renumbered by a random permutation"""
    parts, offs = [], []
    tot = 0
    for _ in range(rng.randint(1, 4)):
        k, a = rng.choice(GADGETS)
        if tot + k > max_n:
            continue
        offs.append((tot, k))
        parts.append((k, a))
        tot += k
    if not parts:
        return 1, []
    n, atts = disjoint_union(parts)
    for i in range(len(offs) - 1):
        if rng.random() < 0.3:
            (o1, k1), (o2, k2) = offs[i], offs[i + 1]
            atts.append((o1 + rng.randrange(k1), o2 + rng.randrange(k2)))
    perm = list(range(n))
    rng.shuffle(perm)
    atts = [(perm[a], perm[b]) for a, b in atts]
    rng.shuffle(atts)
    return n, atts


def medium_framework(rng, lo=10, hi=40):
    """sparse frameworks of lo..hi arguments: mostly forward attacks (few cycles), a hub with many attackers,
    some 2-cycles and self-attacks; for checks that compare with the model without an exponential judge"""
    n = rng.randint(lo, hi)
    atts = set()
    for i in range(1, n):
        for _ in range(1 if rng.random() < 0.7 else 2):
            atts.add((rng.randrange(max(0, i - 6), i), i))
    hub = rng.randrange(n)
    for _ in range(rng.randint(7, 12)):
        a = rng.randrange(n)
        if a != hub:
            atts.add((a, hub))
    for _ in range(rng.randint(0, 3)):
        a, b = rng.randrange(n), rng.randrange(n)
        atts.add((a, b))
        if rng.random() < 0.5:
            atts.add((b, a))
    if rng.random() < 0.4:
        a = rng.randrange(n)
        atts.add((a, a))
    atts = list(atts)
    rng.shuffle(atts)
    return n, atts

def all_digraphs(n):
    pairs = [(a, b) for a in range(n) for b in range(n)]
    for mask in range(1 << len(pairs)):
        yield n, [p for i, p in enumerate(pairs) if mask >> i & 1]


def spec_iccma(rng, n, atts, dup=True):
    """ICCMA text route (labels 1..n), optionally with duplicated attack lines."""
    a = list(atts)
    if dup and a and rng.random() < 0.3:
        for _ in range(rng.randint(1, 3)):
            a.insert(rng.randrange(len(a) + 1), rng.choice(a))
    labels = list(range(1, n + 1))
    return "i:%d:%s" % (n, ",".join("%d>%d" % (x + 1, y + 1) for x, y in a)), labels


def spec_history(rng, n, atts, junk=True):
    """Update-history route: sparse ids, swap_remove-permuted rows, removed/re-added attacks."""
    pool = rng.sample(range(1, 60), n + 4)
    labels = pool[:n]
    junk_labels = pool[n:]
    ops = []
    live_junk = []
    order = list(range(n))
    rng.shuffle(order)
    created = []
    todo = list(atts)
    rng.shuffle(todo)
    added = []

    def maybe_junk():
        if not junk:
            return
        r = rng.random()
        if r < 0.25 and junk_labels:
            j = junk_labels.pop()
            ops.append("A%d" % j)
            live_junk.append(j)
            # attacks with junk
            for _ in range(rng.randint(0, 2)):
                if created:
                    o = labels[rng.choice(created)]
                    if rng.random() < 0.5:
                        ops.append("+%d>%d" % (j, o))
                    else:
                        ops.append("+%d>%d" % (o, j))
            if rng.random() < 0.3:
                ops.append("+%d>%d" % (j, j))
        elif r < 0.4 and live_junk:
            j = live_junk.pop(rng.randrange(len(live_junk)))
            ops.append("R%d" % j)
        elif r < 0.5 and added:
            x, y = rng.choice(added)
            ops.append("-%d>%d" % (labels[x], labels[y]))
            ops.append("+%d>%d" % (labels[x], labels[y]))

    for i in order:
        ops.append("A%d" % labels[i])
        created.append(i)
        maybe_junk()
        # add the attacks whose endpoints exist
        rest = []
        for (x, y) in todo:
            if x in created and y in created and rng.random() < 0.7:
                ops.append("+%d>%d" % (labels[x], labels[y]))
                added.append((x, y))
                maybe_junk()
            else:
                rest.append((x, y))
        todo = rest
    for (x, y) in todo:
        ops.append("+%d>%d" % (labels[x], labels[y]))
        added.append((x, y))
        maybe_junk()
    for j in live_junk:
        ops.append("R%d" % j)
    return "h:" + ";".join(ops), labels


def spec_of(rng, n, atts):
    if n == 0 or rng.random() < 0.5:
        return spec_iccma(rng, n, atts)
    return spec_history(rng, n, atts)


def random_framework(rng, max_n=8):
    r = rng.random()
    if r < 0.50:
        n = rng.randint(1, max_n)
        return rand_af(rng, n)
    if r < 0.68 and max_n >= 4:
        return gadget_union(rng, max_n)
    return structured(rng, max_n)


def components(n, atts):
    parent = list(range(n))

    def find(x):
        while parent[x] != x:
            parent[x] = parent[parent[x]]
            x = parent[x]
        return x
    for a, b in atts:
        parent[find(a)] = find(b)
    return len(set(find(i) for i in range(n)))
