#!/usr/bin/env python3
"""Scripted external SAT solver for the end-to-end fault runs (C16/C17).
Counts its invocations in $FAKE_STATE; behaves like `kissat -q` except at invocation
$FAKE_FAIL_AT, where it fails in the way named by $FAKE_KIND."""
import os
import subprocess
import sys

state = os.environ.get("FAKE_STATE")
fail_at = int(os.environ.get("FAKE_FAIL_AT", "0"))
kind = os.environ.get("FAKE_KIND", "exit")
n = 0
if state:
    try:
        n = int(open(state).read() or "0")
    except Exception:
        n = 0
    n += 1
    open(state, "w").write(str(n))
data = sys.stdin.buffer.read()
cap = os.environ.get("FAKE_CAPTURE")
if cap:
    open(os.path.join(cap, "in_%d" % n), "wb").write(data)
canned = os.environ.get("FAKE_REPLY_DIR")
if canned:
    # scripted replies: file reply_<n> is printed verbatim
    p = os.path.join(canned, "reply_%d" % n)
    out = open(p, "rb").read() if os.path.exists(p) else b""
    sys.stdout.buffer.write(out)
    sys.stdout.flush()
    sys.exit(0)
if n == fail_at:
    if kind == "exit":
        sys.exit(3)
    if kind == "truncated":
        sys.stdout.write("s SATISFIABLE\nv 1 -2\n")
    elif kind == "garbage":
        sys.stdout.write("c hello\nSEGFAULT at 0xdeadbeef\n")
    elif kind == "status-only":
        sys.stdout.write("s SATISFIABLE\n")
    elif kind == "empty-v":
        sys.stdout.write("s SATISFIABLE\nv\n")
    elif kind.startswith("status:"):
        # a solver that gives up (time / memory limit, interrupt) or prints an unexpected status line
        sys.stdout.write("c interrupted\n" + kind[7:].replace("_", " ") + "\n")
    elif kind.startswith("bigerr:"):
        # a chatty solver: k bytes of diagnostics on the standard error stream, then the honest answer
        k = int(kind[7:])
        line = "c " + "e" * 98 + "\n"
        sys.stderr.write(line * (k // 100))
        sys.stderr.flush()
        p = subprocess.run(["/usr/local/bin/kissat", "-q"], input=data, stdout=subprocess.PIPE)
        sys.stdout.write(p.stdout.decode())
    elif kind.startswith("big:"):
        k = int(kind[4:])
        line = "c " + "x" * 98 + "\n"
        sys.stdout.write(line * (k // 100))
        p = subprocess.run(["/usr/local/bin/kissat", "-q"], input=data, stdout=subprocess.PIPE)
        sys.stdout.write(p.stdout.decode())
    sys.stdout.flush()
    sys.exit(0)
p = subprocess.run(["/usr/local/bin/kissat", "-q"], input=data, stdout=subprocess.PIPE)
if cap:
    open(os.path.join(cap, "out_%d" % n), "wb").write(p.stdout)
sys.stdout.write(p.stdout.decode())
sys.stdout.flush()
sys.exit(p.returncode)      # 10 = satisfiable, 20 = unsatisfiable: what a real solver returns
