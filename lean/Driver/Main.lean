import Driver.Util
import Crusta.Spec.Oracle
import Driver.Enc
import Driver.Trace
import Driver.IO
import Driver.Equiv
import Driver.Sat
import Driver.Dyn
import Crusta.Model.Graph
import Driver.Cli

open Crusta Driver

/-! Line-protocol driver: reads the harness output on stdin, replays every case on the model and
prints its own lines; the orchestrator diffs the two streams. -/

structure Case where
  id : String
  family : String
  lines : List String

def groupCases (ls : List String) : List Case :=
  let rec go (ls : List String) (cur : Option Case) (acc : List Case) : List Case :=
    match ls with
    | [] => acc.reverse
    | l :: rest =>
      let ts := toks l
      match ts with
      | "case" :: id :: fam :: _ => go rest (some ⟨id, fam, []⟩) acc
      | ["end"] =>
        match cur with
        | some c => go rest none ({ c with lines := c.lines.reverse } :: acc)
        | none => go rest none acc
      | _ =>
        match cur with
        | some c => go rest (some { c with lines := l :: c.lines }) acc
        | none => go rest none acc
  go ls none []


/-- frameworks are dumped by the harness from the implementation's own counters: a count that cannot
be a real framework (e.g. a wrapped-around `usize`) must not reach the model's enumerations -/
def saneN (rest : List String) : Option Nat :=
  let n := natOf (kvGetD rest "n" "0")
  if n ≤ 1000000 then some n else none

/-! ### store family -/

def storeDump (s : Store) (univ : List Nat) : String :=
  let live := s.liveArgs
  let lab (i : Nat) : String := match s.labelOf i with | some l => toString l | none => "?"
  let args := ",".intercalate (live.map (fun p => s!"{p.1}:{p.2}"))
  let atts := ",".intercalate (s.iterAttacks.map (fun p => s!"{lab p.1}>{lab p.2}"))
  let from_ := ",".intercalate (live.map (fun p =>
    s!"{p.2}:" ++ ".".intercalate ((s.iterFrom p.1).map (fun q => lab q.2))))
  let to_ := ",".intercalate (live.map (fun p =>
    s!"{p.2}:" ++ ".".intercalate ((s.iterTo p.1).map (fun q => lab q.1))))
  let maxs := match s.maxId with | some m => toString m | none => "-"
  let hi := match s.maxId with | some m => m + 2 | none => 2
  let has := String.ofList ((List.range hi).map (fun i => if s.hasId i then '1' else '0'))
  let lk := ",".intercalate (univ.map (fun l =>
    match s.getArg l with | some i => s!"{l}:{i}" | none => s!"{l}:-"))
  s!"n={s.nArguments} m={s.nAttacks} max={maxs} empty={if s.len == 0 then 1 else 0} args={args} atts={atts} from={from_} to={to_} has={has} lk={lk}"

def insertSorted (a : Nat) : List Nat → List Nat
  | [] => [a]
  | b :: l => if a < b then a :: b :: l else if a == b then b :: l else b :: insertSorted a l

def universeOf (ops : List StoreOp) (extra : List Nat) : List Nat :=
  let ls := ops.foldl (fun acc o => match o with
    | .newArg l => l :: acc | .remArg l => l :: acc
    | .newAtt a b => a :: b :: acc | .remAtt a b => a :: b :: acc) extra
  ls.foldl (fun acc a => insertSorted a acc) []

/-- abstract view of a concrete store, for the refinement check -/
def absOf (s : Store) : SetModel :=
  let lab (i : Nat) : Nat := (s.labelOf i).getD 0
  { args := s.liveArgs, atts := s.iterAttacks.map (fun p => (lab p.1, lab p.2)), next := s.labels.length }

def sameSet (a b : List (Nat × Nat)) : Bool := a.all b.contains && b.all a.contains && a.length == b.length

def runStore (c : Case) : List String := Id.run do
  let inl := (c.lines.find? (fun l => l.startsWith "in ")).getD ""
  let ts := toks inl
  let ops := opsOf (kvGetD ts "ops" "")
  let hasInit := (kvGet ts "init").isSome || (kvGet ts "setinit").isSome
  let init := natList (kvGetD ts "init" "-")
  let setops := opsOf (kvGetD ts "setinit" "")
  let univ := universeOf (ops ++ setops) init
  let mut s : Store := Store.empty
  if hasInit then
    s := Store.ofLabels init
    for o in setops do
      match o with
      | .newArg l => s := s.newLabel l
      | .remArg l => s := s.setRemove l
      | _ => pure ()
    s := s.withRowsByLen
  let mut out : List String := [s!"st r=init {storeDump s univ}"]
  let mut m : SetModel := absOf s
  let mut verdict : String := "ok"
  let mut dead := false
  for o in ops do
    if dead then continue
    let expect := m.step o
    match s.step o with
    | .panic =>
      out := "panic model" :: out
      dead := true
      verdict := "BAD store-panics"
    | .ok s' =>
      s := s'
      out := s!"st r=ok {storeDump s univ}" :: out
      match expect with
      | .ok m' =>
        m := m'
        let a := absOf s
        if !(a.args == m.args && sameSet a.atts m.atts && a.next == m.next) && verdict == "ok" then
          verdict := "BAD refinement: state differs from the set model"
      | .err _ => if verdict == "ok" then verdict := "BAD refinement: ok where the set model rejects"
    | .err s' =>
      out := s!"st r=err {storeDump s' univ}" :: out
      match expect with
      | .err _ =>
        if !(s' == s) && verdict == "ok" then verdict := "BAD err changed the state"
      | .ok _ => if verdict == "ok" then verdict := "BAD refinement: err where the set model accepts"
      s := s'
  return (s!"verdict {verdict}" :: out).reverse

/-! ### solve family: conformance oracle -/

def parseExt (s : String) : Option (List Nat) :=
  if s == "NONE" then none else some (natList s)

def runSolve (c : Case) : List String := Id.run do
  let mut af : AF := ⟨0, []⟩
  let mut q : Option Query := none
  let mut out : List String := []
  for l in c.lines do
    let ts := toks l
    match ts with
    | "fw" :: rest =>
      af := ⟨(saneN rest).getD 0, attList (kvGetD rest "atts" "")⟩
      if (saneN rest).isNone then out := "verdict BAD framework dump reports an impossible number of arguments" :: out
      else if !af.wfB then out := "verdict BAD framework dump is not well-formed" :: out
      else if af.n ≤ 9 then
        let cs := (allComps af.view).filterMap id
        let parts := cs.map (fun c =>
          s!"{(extsCF c.af).length},{(extsADM c.af).length},{(extsCO c.af).length},{(extsPR c.af).length},{c.af.n}")
        out := ("counts " ++ ";".intercalate parts) :: out
    | "query" :: rest =>
      let sem := (Sem.ofString? (kvGetD rest "sem" "")).getD .GR
      let task := (Task.ofString? (kvGetD rest "task" "")).getD .SE
      q := some ⟨sem, task, kvGetD rest "cert" "0" == "1", natList (kvGetD rest "args" "-")⟩
    | "ans" :: kind :: rest =>
      match q with
      | none => out := "verdict BAD answer without query" :: out
      | some qq =>
        let members := kvGetD rest "members" "1" == "1"
        let a : Answer :=
          if kind == "SE" then .se (parseExt (kvGetD rest "ext" "NONE"))
          else
            let st := kvGetD rest "status" "" == "YES"
            let cs := kvGetD rest "cert" "-"
            .acc st (if cs == "-" then none else some (parseExt cs))
        if af.n > 12 then
          -- the reference deciders are exponential: larger frameworks are covered by the trace
          -- correspondence with the (proved) solver programs only
          if members then out := "verdict unjudged" :: out
          else out := "verdict BAD certificate members are not the framework's own arguments" :: out
        else
        match checkAnswer af qq a with
        | .ok _ =>
          if members then out := "verdict ok" :: out
          else out := "verdict BAD certificate members are not the framework's own arguments" :: out
        | .error e => out := s!"verdict BAD {e}" :: out
    | "panic" :: _ => out := "verdict PANIC" :: out
    | "unchanged" :: v :: _ =>
      if v != "1" then out := "verdict BAD querying modified the framework" :: out
    | _ => pure ()
  return out.reverse

/-! ### multi family: statuses of several solvers on one framework, judged when small -/

def runMulti (c : Case) : List String := Id.run do
  let mut af : Option AF := none
  let mut labels : List Nat := []
  let mut out : List String := []
  for l in c.lines do
    let ts := toks l
    match ts with
    | "fw" :: rest =>
      let a : AF := ⟨(saneN rest).getD 0, attList (kvGetD rest "atts" "")⟩
      if (saneN rest).isNone then out := "verdict BAD framework dump reports an impossible number of arguments" :: out
      labels := natList (kvGetD rest "labels" "-")
      if a.wfB && a.n ≤ 9 then af := some a
    | ["r", i, sem, task, arg, res, _] | ["r", i, sem, task, arg, res] =>
      match af, Sem.ofString? sem, Task.ofString? task with
      | some a, some σ, some t =>
        let dense (lab : Nat) : Nat := (posOf labels lab).getD 9999
        let args := (natList arg).map dense
        let ans : Option Answer :=
          if res == "YES" then some (.acc true none) else if res == "NO" then some (.acc false none)
          else if res == "NOEXT" then some (.se none) else none
        match ans with
        | some an =>
          match checkAnswer a ⟨σ, t, false, args⟩ an with
          | .ok _ => out := s!"verdict ok {i}" :: out
          | .error e => out := s!"verdict BAD {i} {sem}/{task}: {e}" :: out
        | none => pure ()
      | _, _, _ => pure ()
    | ["r", i, sem, _task, _arg, "EXT", ext, _] =>
      match af, Sem.ofString? sem with
      | some a, some σ =>
        let dense (lab : Nat) : Nat := (posOf labels lab).getD 9999
        match checkAnswer a ⟨σ, .SE, false, []⟩ (.se (some ((natList ext).map dense))) with
        | .ok _ => out := s!"verdict ok {i}" :: out
        | .error e => out := s!"verdict BAD {i} {sem}/SE: {e}" :: out
      | _, _ => pure ()
    | _ => pure ()
  return out.reverse

/-! ### dyn family: every answer judged against the framework as it stands -/

def semOfKind (k : String) : Option Sem :=
  if k == "co" || k == "co_att" then some .CO
  else if k == "st" || k == "st_att" then some .ST
  else if k == "pr" then some .PR
  else if k.startsWith "dummy_" then Sem.ofString? (k.drop 6).toString
  else none

def runDyn (c : Case) : List String := Id.run do
  let inl := (c.lines.find? (fun l => l.startsWith "in ")).getD ""
  let kind := kvGetD (toks inl) "kind" ""
  let some σ := semOfKind kind | return ["verdict BAD unknown dynamic solver kind"]
  let mut af : AF := ⟨0, []⟩
  let mut labels : List Nat := []
  let mut q : Option Query := none
  let mut qi := 0
  let mut out : List String := []
  for l in c.lines do
    let ts := toks l
    match ts with
    | ["Q", what, lab] =>
      qi := qi + 1
      q := some ⟨σ, if what.startsWith "dc" then .DC else .DS, what.endsWith "1", [natOf lab]⟩
    | "fw" :: rest =>
      af := ⟨(saneN rest).getD 0, attList (kvGetD rest "atts" "")⟩
      if (saneN rest).isNone then out := s!"verdict BAD {qi} framework dump reports an impossible number of arguments (wrapped counter)" :: out
      else if af.wfB && af.n ≤ 9 then
        -- reference counts of the whole current framework (the dynamic solvers do not split into components)
        out := s!"counts {qi} {(extsCF af).length},{(extsADM af).length},{(extsCO af).length},{(extsPR af).length},{af.n}" :: out
      labels := natList (kvGetD rest "labels" "-")
    | "ans" :: _ :: rest =>
      match q with
      | none => out := "verdict BAD answer without query" :: out
      | some qq =>
        let dense := (posOf labels (qq.args.headD 0)).getD 9999
        let st := kvGetD rest "status" "" == "YES"
        let cs := kvGetD rest "cert" "-"
        let members := kvGetD rest "members" "1" == "1"
        if cs.contains '?' then out := s!"verdict BAD {qi} certificate names an argument that is not in the current framework" :: out
        else
          let a : Answer := .acc st (if cs == "-" then none else some (parseExt cs))
          -- the reference deciders are exponential: larger frameworks are covered by the trace
          -- correspondence with the (proved) dynamic solver models only
          if af.n > 12 then
            out := (if members then s!"verdict unjudged {qi}"
              else s!"verdict BAD {qi} certificate members are not the current framework's arguments (stale id)") :: out
          else
          match checkAnswer af { qq with args := [dense] } a with
          | .ok _ =>
            if members then out := s!"verdict ok {qi}" :: out
            else out := s!"verdict BAD {qi} certificate members are not the current framework's arguments (stale id)" :: out
          | .error e => out := s!"verdict BAD {qi} {e}" :: out
      q := none
    | "panic" :: _ => out := s!"verdict PANIC {qi}" :: out; q := none
    | _ => pure ()
  return out.reverse

def main : IO Unit := do
  let stdin ← IO.getStdin
  let mut lines : Array String := #[]
  repeat
    let l ← stdin.getLine
    if l.isEmpty then break
    lines := lines.push (stripEol l)
  let cases := groupCases lines.toList
  let stdout ← IO.getStdout
  for c in cases do
    stdout.putStrLn s!"case {c.id} {c.family}"
    let out := match c.family with
      | "store" => runStore c
      | "solve" => runSolve c ++ ["trace"] ++ runTrace c.lines
      | "enc" => runEnc c.lines
      | "multi" => runMulti c
      | "equiv" => runEquiv c.lines
      | "dyn" => runDyn c ++ runDynTrace c.lines
      | "sat" => runSat c.lines
      | "read" => runRead c.lines
      | "write" => runWrite c.lines
      | "cli" => runCli c.lines
      | f => [s!"verdict BAD unknown family {f}"]
    for l in out do stdout.putStrLn l
    stdout.putStrLn "end"
  stdout.flush
