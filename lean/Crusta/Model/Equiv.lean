import Crusta.Spec.AF

/-!
# Model of `utils::EquivalencyComputer` (compact frameworks, rows in attack-list order)
-/

namespace Crusta.Eq
open Crusta

structure PSt where
  cnt : List Nat
  propagated : List Nat
  inProp : List Bool
  defeated : List Nat
  inDef : List Bool

/-- the inner loop: attacks *from* a freshly defeated argument -/
def defendLoop (args : List Nat) (st : PSt) : List Nat → PSt
  | [] => st
  | d :: ds =>
    if args.contains d then defendLoop args st ds
    else
      let c := st.cnt.getD d 0 - 1
      let st1 := { st with cnt := st.cnt.set d c }
      if c == 0 then defendLoop args { st1 with propagated := st1.propagated ++ [d], inProp := st1.inProp.set d true } ds
      else defendLoop args st1 ds

/-- attacks from a propagated argument; `none` = conflict (`Err(())` in `try_for_each`) -/
def attackLoop (af : AF) (args : List Nat) (st : PSt) : List Nat → Option PSt
  | [] => some st
  | t :: ts =>
    if st.inProp.getD t false then none
    else if st.inDef.getD t false then attackLoop af args st ts
    else
      let st1 := { st with defeated := st.defeated ++ [t], inDef := st.inDef.set t true }
      attackLoop af args (defendLoop args st1 (af.attackedOf t)) ts

def propLoop (af : AF) (args : List Nat) : Nat → Nat → PSt → Option PSt
  | 0, _, st => some st
  | fuel + 1, i, st =>
    match st.propagated[i]? with
    | none => some st
    | some id =>
      match attackLoop af args st (af.attackedOf id) with
      | none => none
      | some st' => propLoop af args fuel (i + 1) st'

/-- `propagate` -/
def propagate (af : AF) (cnt : List Nat) (args : List Nat) : Option (List Nat × List Nat) :=
  let inProp := args.foldl (fun acc a => acc.set a true) (List.replicate af.n false)
  match propLoop af args (af.n + 1) 0 ⟨cnt, args, inProp, [], List.replicate af.n false⟩ with
  | none => none
  | some st => some (st.propagated, st.defeated)

def nAttacksTo (af : AF) : List Nat :=
  af.atts.foldl (fun acc p => acc.set p.2 (acc.getD p.2 0 + 1)) (List.replicate af.n 0)

inductive Kind | grounded | defeated | other
deriving Repr, DecidableEq

structure Cls where
  kind : Kind
  members : List Nat
deriving Repr

structure CSt where
  classes : List Cls
  inClasses : List Bool
  props : List (Option (List Nat))

def classStep (af : AF) (cnt : List Nat) (st : CSt) (arg : Nat) : CSt :=
  if st.inClasses.getD arg false then st
  else
    let (optP, props1) : Option (List Nat) × List (Option (List Nat)) :=
      match st.props.getD arg none with
      | some p => (some p, st.props.set arg (some []))
      | none => ((propagate af cnt [arg]).map (fun q => q.1), st.props)
    let inC1 := st.inClasses.set arg true
    match optP with
    | none => { classes := st.classes ++ [(⟨.other, [arg]⟩ : Cls)], inClasses := inC1, props := props1 }
    | some p =>
      let cand := p.filter (fun id => !(inC1.getD id false) && id > arg)
      let (cls, inC2, props2) := cand.foldl (fun (acc : List Nat × List Bool × List (Option (List Nat))) id =>
        let pid := match propagate af cnt [id] with | some q => q.1 | none => []
        if pid.contains arg then (acc.1 ++ [id], acc.2.1.set id true, acc.2.2.set id (some []))
        else (acc.1, acc.2.1, acc.2.2.set id (some pid))) ([arg], inC1, props1)
      { classes := st.classes ++ [(⟨.other, cls⟩ : Cls)], inClasses := inC2, props := props2 }

/-- `compute_classes` -/
def computeClasses (af : AF) : List Cls :=
  let cnt := nAttacksTo af
  let unatt := (List.range af.n).filter (fun a => cnt.getD a 0 == 0)
  match propagate af cnt unatt with
  | none => (List.range af.n).map (fun i => ⟨.other, [i]⟩)
  | some (g, d) =>
    let cl0 := (if g.isEmpty then [] else [⟨Kind.grounded, g⟩]) ++ (if d.isEmpty then [] else [⟨Kind.defeated, d⟩])
    let inC := (g ++ d).foldl (fun acc a => acc.set a true) (List.replicate af.n false)
    ((List.range af.n).foldl (classStep af cnt) ⟨cl0, inC, List.replicate af.n none⟩).classes

/-- `init_to_reduced_id` -/
def initToReduced (n : Nat) (classes : List Cls) : List Nat :=
  (classes.zipIdx).foldl (fun acc (c, ci) => c.members.foldl (fun a m => a.set m ci) acc) (List.replicate n 0)

/-- the reduced framework: one argument per class (labelled by its first member), attacks between
classes, those leaving the defeated class dropped; duplicates collapse -/
def reducedAtts (af : AF) (classes : List Cls) : List (Nat × Nat) :=
  let i2r := initToReduced af.n classes
  af.atts.foldl (fun acc p =>
    let c1 := i2r.getD p.1 0
    let c2 := i2r.getD p.2 0
    if (classes.getD c1 ⟨.other, []⟩).kind == .defeated then acc
    else if acc.contains (c1, c2) then acc else acc ++ [(c1, c2)]) []

/-- reference criterion: two arguments belong to exactly the same complete extensions -/
def sameCompleteB (af : AF) (a b : Nat) : Bool :=
  (extsCO af).all (fun e => e.contains a == e.contains b)

end Crusta.Eq
