#!/usr/bin/env python3
"""usage: mkmeta.py <seed-id> <property> <needs_to_manifest> <caught_by> ; writes seeded/<id>/meta.json from run.txt"""
import sys, json, os
sid, prop, needs, caught = sys.argv[1:5]
d = "/verif/seeded/" + sid
log = [l.rstrip("\n") for l in open(d + "/run.txt")] if os.path.exists(d + "/run.txt") else []
checks = []
for l in log:
    if l.startswith("checks"):
        checks = [t.split(":")[0] for t in l.split(":", 1)[1].split()]
meta = {"id": sid, "breaks_property": prop, "needs_to_manifest": needs, "caught_by": caught, "checks_run": checks,
        "confirmed": "suite passes with the change (401 + demo failing), demo fails with it and passes without it (tools/seedtest.sh in a scratch worktree)",
        "run_log": log, "author": "independent sub-agent given only the property text and a scratch worktree"}
if len(sys.argv) > 5:
    meta["retest_after_strengthening"] = sys.argv[5]
json.dump(meta, open(d + "/meta.json", "w"), indent=1)
print("wrote", d + "/meta.json")
