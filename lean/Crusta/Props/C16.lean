import Crusta.Proofs.Sat

/-!
# C16 — the exchange with an external SAT solver is well-formed and cannot hang (property theorems)
-/

namespace Crusta.C16
open Crusta Crusta.Sat

/-- every instance handed to the external solver, after any history of clause additions,
reservations and earlier calls, announces a variable count that covers every variable of every
clause and of every assumption of the call -/
theorem dimacs_wellformed (ops : List BOp) (as : List Lit) :
    let b := (ops.foldl Buffered.apply {}).withAssumptions as
    (∀ c ∈ b.clauses, ∀ l ∈ c, l.var ≤ b.nVars) ∧ (∀ a ∈ as, a.var ≤ b.nVars) :=
  Sat.dimacs_wellformed ops as

/-- a model / "unsatisfiable" is reported only when the reply carries the corresponding status
line; a reply without output is undecided -/
theorem reply_faithful (nv : Nat) (out : List UInt8) :
    (∀ m, parseReply nv out = .sat m → some (IO.strOf "s SATISFIABLE") ∈ IO.lines out) ∧
    (parseReply nv out = .unsat → some (IO.strOf "s UNSATISFIABLE") ∈ IO.lines out) ∧
    parseReply nv [] = .unknown :=
  ⟨(Sat.reply_faithful nv out).1, (Sat.reply_faithful nv out).2, rfl⟩

/-- a reported model has exactly one entry per declared variable -/
theorem model_covers_declared (nv : Nat) (out : List UInt8) (m : List (Option Bool))
    (h : parseReply nv out = .sat m) : m.length = nv := model_length nv out m h

/-- whatever the volume of the solver's output and whatever the pipe capacity, the policy "read the
output to the end, then wait for the process" returns; the policy "wait, then read" never returns
once the output exceeds the pipe capacity -/
theorem pipe_no_deadlock :
    (∀ cap out, 0 < cap → Pipe.run .drainThenWait cap (out + 3) (Pipe.start out) = .returned) ∧
    (∀ cap out, cap < out → ∀ fuel, Pipe.run .waitThenDrain cap fuel (Pipe.start out) ≠ .returned) :=
  ⟨fun cap out h => Pipe.drain_then_wait_returns cap h out, Pipe.wait_then_drain_deadlocks⟩

end Crusta.C16
