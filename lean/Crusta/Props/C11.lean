import Crusta.Proofs.Deciders

/-! # C11 — statuses depend only on the attack graph (property theorems, spec level) -/

namespace Crusta.C11
open Crusta

/-- skeptical acceptance implies credulous acceptance whenever an extension exists -/
theorem skeptical_implies_credulous (σ : Sem) (af : AF) (a : Nat)
    (hex : ∃ S, σ.Ext af S) (hs : ∀ S, σ.Ext af S → S a = true) : ∃ S, σ.Ext af S ∧ S a = true := by
  obtain ⟨S, hS⟩ := hex
  exact ⟨S, hS, hs S hS⟩

end Crusta.C11
