import Crusta.Proofs.DynOps

/-!
# Replaying the buffered updates (`update_encoding`) re-establishes a clean encoding
-/

namespace Crusta.Dyn
open Prog (addClause addClauses getNVars doSolve)
open Crusta.Store

theorem foldProg_disabled (st : Store) : ∀ (l : List Nat) (e : Enc), e.enabled = false →
    foldProg (updateAttacksTo st) l e = .pure e
  | [], _, _ => rfl
  | a :: t, e, h => by
    simp only [foldProg, updateAttacksTo_disabled st e a h, Prog.bind]
    exact foldProg_disabled st t e h

theorem wp_encNewArgument {C : Prop} {sem : DSem} {st : Store} {d : Nat → Prop} {e : Enc} {w : World}
    (hinv : st.Inv) (h : EInv sem st d e w) (hw : W0 w) (hen : e.enabled = false) {l : Nat}
    (hfresh : ∀ i, ¬ st.Live i l) :
    wp C (encNewArgument st e l) w (fun p w' => p.1 = st.pushArg l ∧
      EInv sem (st.pushArg l) (fun j => d j ∨ j = st.labels.length) p.2 w' ∧ p.2.enabled = false) := by
  unfold encNewArgument
  rw [newArgument_fresh hinv hfresh]
  have hmax : (st.pushArg l).maxId = some st.labels.length := by simp [Store.maxId, Store.pushArg]
  rw [hmax]
  simp only
  rw [wp_bind]
  refine wp_mono _ _ _ _ ?_ (wp_allocArg hinv h hw hfresh)
  rintro e1 w1 ⟨hI, hen1⟩
  rw [updateAttacksTo_disabled _ _ _ (by rw [hen1, hen])]
  exact ⟨rfl, hI, by rw [hen1, hen]⟩

theorem wp_forgetArg {C : Prop} {sem : DSem} {st : Store} {d : Nat → Prop} {e : Enc} {w : World}
    (hinv : st.Inv) (h : EInv sem st d e w) {l id v : Nat} (hl : st.Live id l) (hv : e.av id = some v) :
    wp C (forgetArg e id v) w (fun e' w' =>
      EInv sem (st.dropArg l id) (fun j => d j ∨ st.HasAtt id j) e' w' ∧ e'.enabled = e.enabled) := by
  unfold forgetArg
  rw [wp_bind]
  refine wp_mono _ _ _ _ ?_ (wp_dropSel h id)
  rintro e1 w1 ⟨⟨hsem, T, F, hI⟩, hsv, hen1, hav1⟩
  rw [wp_bind, wp_addClause]
  have hv1 : e1.av id = some v := by unfold Enc.av; rw [hav1]; exact hv
  have := inv_forgotten hinv hI hl hsv hv1
  show EInv sem (st.dropArg l id) _ (forgotten e1 id v) (w1.onClause 0 [pl v]) ∧ _
  refine ⟨⟨hsem, (fun x => T x || x == v), F, ?_⟩, hen1⟩
  rw [db_onClause_same]
  refine this.restrict ?_
  intro j hj hd
  rcases hd with (hd | hd) | hd
  · exact Or.inl hd
  · subst hd
    rw [hasId_dropArg] at hj
    simp at hj
  · exact Or.inr hd

theorem wp_encRemoveArgument {C : Prop} {sem : DSem} {st : Store} {d : Nat → Prop} {e : Enc} {w : World}
    (hinv : st.Inv) (h : EInv sem st d e w) (hen : e.enabled = false) {l id : Nat} (hl : st.Live id l) :
    wp C (encRemoveArgument st e l) w (fun p w' => p.1 = st.dropArg l id ∧
      EInv sem (st.dropArg l id) (fun j => d j ∨ st.HasAtt id j) p.2 w' ∧ p.2.enabled = false) := by
  unfold encRemoveArgument
  rw [(getArg_eq_some hinv).2 hl, (removeArgument_spec hinv l).1 id hl]
  simp only
  obtain ⟨v, hv, _⟩ := (h.2.choose_spec.choose_spec).av_live id (hasId_iff.2 ⟨l, hl⟩)
  have hv' : e.argVar.getD id none = some v := hv
  rw [hv']
  simp only
  rw [wp_bind]
  refine wp_mono _ _ _ _ ?_ (wp_forgetArg hinv h hl hv)
  rintro e1 w1 ⟨hI, hen1⟩
  rw [foldProg_disabled _ _ _ (by rw [hen1, hen])]
  exact ⟨rfl, hI, by rw [hen1, hen]⟩

theorem wp_encAttack_add {C : Prop} {sem : DSem} {st : Store} {d : Nat → Prop} {e : Enc} {w : World}
    (hinv : st.Inv) (h : EInv sem st d e w) (hen : e.enabled = false) {la lb a b : Nat}
    (ha : st.Live a la) (hb : st.Live b lb) (hno : ¬ st.HasAtt a b) :
    wp C (encAttack true st e la lb) w (fun p w' => p.1 = st.pushAtt a b ∧
      EInv sem (st.pushAtt a b) (fun j => d j ∨ j = b) p.2 w' ∧ p.2.enabled = false) := by
  unfold encAttack
  simp only [if_true]
  rw [((newAttack_spec hinv la lb).1 a b ha hb).2 hno]
  simp only
  have hinv' := inv_pushAtt hinv ha hb hno
  have hb' : (st.pushAtt a b).Live b lb := hb
  rw [(getArg_eq_some hinv').2 hb']
  simp only
  rw [updateAttacksTo_disabled _ _ _ hen]
  refine ⟨rfl, ?_, hen⟩
  obtain ⟨hsem, T, F, hI⟩ := h
  refine ⟨hsem, T, F, inv_store_change hI rfl (fun j => rfl) ?_ (fun j hj => Or.inl hj)⟩
  intro j hn
  exact attackersOf_pushAtt hinv a b (fun hjb => hn (Or.inr hjb))

theorem wp_encAttack_remove {C : Prop} {sem : DSem} {st : Store} {d : Nat → Prop} {e : Enc} {w : World}
    (hinv : st.Inv) (h : EInv sem st d e w) (hen : e.enabled = false) {la lb a b k : Nat}
    (ha : st.Live a la) (hb : st.Live b lb) (hk : st.att k = some (a, b)) :
    wp C (encAttack false st e la lb) w (fun p w' => p.1.Inv ∧ st.removeAttack la lb = .ok p.1 ∧
      EInv sem p.1 (fun j => d j ∨ j = b) p.2 w' ∧ p.2.enabled = false) := by
  unfold encAttack
  simp only [Bool.false_eq_true, if_false]
  obtain ⟨pf, pt, he, h1, h2, h3, h4⟩ := ((removeAttack_spec hinv la lb).1 a b ha hb).1 k hk
  rw [he]
  simp only
  have hinv' := inv_dropAtt hinv ha hb hk h1 h2 h3 h4
  have hb' : (st.dropAtt a b k pf pt).Live b lb := hb
  rw [(getArg_eq_some hinv').2 hb']
  simp only
  rw [updateAttacksTo_disabled _ _ _ hen]
  refine ⟨hinv', rfl, ?_, hen⟩
  obtain ⟨hsem, T, F, hI⟩ := h
  refine ⟨hsem, T, F, inv_store_change hI rfl (fun j => rfl) ?_ (fun j hj => Or.inl hj)⟩
  intro j hn
  exact attackersOf_dropAtt hinv hk (fun hjb => hn (Or.inr hjb))

/-! ## effective updates -/

def Event.op : Event → Option StoreOp
  | .newArg l => some (.newArg l)
  | .remArg l => some (.remArg l)
  | .newAtt a b => some (.newAtt a b)
  | .remAtt a b => some (.remAtt a b)
  | _ => none

/-- the update was accepted by the store and (for additions) changed it: what gets buffered -/
def Eff (st : Store) (op : StoreOp) (st' : Store) : Prop :=
  st.step op = .ok st' ∧
    (match op with
     | .newArg _ => st'.nArguments > st.nArguments
     | .newAtt _ _ => st'.nAttacks > st.nAttacks
     | _ => True)

def EffRun : Store → List Event → Store → Prop
  | st, [], st' => st' = st
  | st, ev :: rest, st' =>
    match Event.op ev with
    | none => EffRun st rest st'
    | some op => ∃ st1, Eff st op st1 ∧ EffRun st1 rest st'

theorem mem_mustL (upd : List Nat) (id j : Nat) : j ∈ mustL upd id ↔ (j ∈ upd ∨ j = id) := by
  unfold mustL
  split
  · rename_i h
    have : id ∈ upd := by simpa using h
    constructor
    · intro hj; exact Or.inl hj
    · rintro (hj | rfl)
      · exact hj
      · exact this
  · simp

theorem mem_foldl_mustL : ∀ (l upd : List Nat) (j : Nat), j ∈ l.foldl mustL upd ↔ (j ∈ upd ∨ j ∈ l)
  | [], upd, j => by simp
  | a :: t, upd, j => by
    simp only [List.foldl_cons]
    rw [mem_foldl_mustL t (mustL upd a) j, mem_mustL]
    simp only [List.mem_cons]
    constructor
    · rintro ((h | h) | h)
      · exact Or.inl h
      · exact Or.inr (Or.inl h)
      · exact Or.inr (Or.inr h)
    · rintro (h | h | h)
      · exact Or.inl (Or.inl h)
      · exact Or.inl (Or.inr h)
      · exact Or.inr h

/-- the state carried through the replay loop -/
def RInv (sem : DSem) (r : Replay) (w : World) : Prop :=
  r.af.Inv ∧ EInv sem r.af (fun j => j ∈ r.upd) r.enc w ∧ r.enc.enabled = false

theorem wp_needArg {C : Prop} {st : Store} (hinv : st.Inv) {l id : Nat} (hl : st.Live id l) (w : World)
    (Q : Nat → World → Prop) : wp C (needArg st l) w Q ↔ Q id w := by
  unfold needArg
  rw [(getArg_eq_some hinv).2 hl]
  rfl

theorem wp_replayEvent {C : Prop} {sem : DSem} {r : Replay} {w : World} (h : RInv sem r w) (hw : W0 w)
    (ev : Event) : ∀ (st1 : Store), (match Event.op ev with | none => st1 = r.af | some op => Eff r.af op st1) →
    wp C (replayEvent r ev) w (fun r' w' => r'.af = st1 ∧ RInv sem r' w') := by
  obtain ⟨hinv, hE, hen⟩ := h
  cases ev with
  | cred a b c => intro st1 h1; simp only [Event.op] at h1; subst h1; exact ⟨rfl, hinv, hE, hen⟩
  | skep a b c => intro st1 h1; simp only [Event.op] at h1; subst h1; exact ⟨rfl, hinv, hE, hen⟩
  | newArg l =>
    intro st1 h1
    simp only [Event.op, Eff, Store.step] at h1
    obtain ⟨h1, h2⟩ := h1
    have hfresh : ∀ i, ¬ r.af.Live i l := by
      intro i hi
      rw [newArgument_existing hinv hi] at h1
      injection h1 with h1; subst h1
      exact Nat.lt_irrefl _ h2
    rw [newArgument_fresh hinv hfresh] at h1
    injection h1 with h1; subst h1
    unfold replayEvent
    rw [wp_bind]
    refine wp_mono _ _ _ _ ?_ (wp_encNewArgument hinv hE hw hen hfresh)
    rintro ⟨af', e'⟩ w' ⟨rfl, hE', hen'⟩
    have hinv' := inv_pushArg hinv hfresh
    have hlive : (r.af.pushArg l).Live r.af.labels.length l := live_pushArg.2 (Or.inr ⟨rfl, rfl⟩)
    rw [wp_bind, wp_needArg hinv' hlive]
    refine ⟨rfl, hinv', ?_, hen'⟩
    obtain ⟨hs, T, F, hI⟩ := hE'
    exact ⟨hs, T, F, hI.weaken (fun j hj => (mem_mustL _ _ _).2 hj)⟩
  | remArg l =>
    intro st1 h1
    simp only [Event.op, Eff, Store.step, and_true] at h1
    have hex : ∃ id, r.af.Live id l := by
      apply Classical.byContradiction
      intro hn
      rw [(removeArgument_spec hinv l).2 (fun id hid => hn ⟨id, hid⟩)] at h1
      cases h1
    obtain ⟨id, hl⟩ := hex
    rw [(removeArgument_spec hinv l).1 id hl] at h1
    injection h1 with h1; subst h1
    unfold replayEvent
    rw [wp_bind, wp_needArg hinv hl, wp_bind]
    refine wp_mono _ _ _ _ ?_ (wp_encRemoveArgument hinv hE hen hl)
    rintro ⟨af', e'⟩ w' ⟨rfl, hE', hen'⟩
    refine ⟨rfl, inv_dropArg hinv hl, ?_, hen'⟩
    obtain ⟨hs, T, F, hI⟩ := hE'
    refine ⟨hs, T, F, hI.restrict ?_⟩
    intro j hj hd
    rw [mem_foldl_mustL]
    rcases hd with hd | hd
    · exact Or.inl hd
    · right
      rw [hasId_dropArg] at hj
      simp only [Bool.and_eq_true, Bool.not_eq_true', beq_eq_false_iff_ne, ne_eq] at hj
      simp only [List.mem_filter, List.mem_map, bne_iff_ne, ne_eq]
      exact ⟨⟨(id, j), (mem_iterFrom hinv id (id, j)).2 ⟨rfl, hd⟩, rfl⟩, hj.2⟩
  | newAtt la lb =>
    intro st1 h1
    simp only [Event.op, Eff, Store.step] at h1
    obtain ⟨h1, h2⟩ := h1
    have hexa : ∃ a, r.af.Live a la := by
      apply Classical.byContradiction
      intro hn
      rw [(newAttack_spec hinv la lb).2 (Or.inl (fun a ha => hn ⟨a, ha⟩))] at h1
      cases h1
    have hexb : ∃ b, r.af.Live b lb := by
      apply Classical.byContradiction
      intro hn
      rw [(newAttack_spec hinv la lb).2 (Or.inr (fun b hb => hn ⟨b, hb⟩))] at h1
      cases h1
    obtain ⟨a, ha⟩ := hexa
    obtain ⟨b, hb⟩ := hexb
    have hno : ¬ r.af.HasAtt a b := by
      intro hh
      rw [((newAttack_spec hinv la lb).1 a b ha hb).1 hh] at h1
      injection h1 with h1; subst h1
      exact Nat.lt_irrefl _ h2
    rw [((newAttack_spec hinv la lb).1 a b ha hb).2 hno] at h1
    injection h1 with h1; subst h1
    unfold replayEvent
    rw [wp_bind]
    refine wp_mono _ _ _ _ ?_ (wp_encAttack_add hinv hE hen ha hb hno)
    rintro ⟨af', e'⟩ w' ⟨rfl, hE', hen'⟩
    have hinv' := inv_pushAtt hinv ha hb hno
    have hb' : (r.af.pushAtt a b).Live b lb := hb
    rw [wp_bind, wp_needArg hinv' hb']
    refine ⟨rfl, hinv', ?_, hen'⟩
    obtain ⟨hs, T, F, hI⟩ := hE'
    exact ⟨hs, T, F, hI.weaken (fun j hj => (mem_mustL _ _ _).2 hj)⟩
  | remAtt la lb =>
    intro st1 h1
    simp only [Event.op, Eff, Store.step, and_true] at h1
    have hexa : ∃ a, r.af.Live a la := by
      apply Classical.byContradiction
      intro hn
      rw [(removeAttack_spec hinv la lb).2 (Or.inl (fun a ha => hn ⟨a, ha⟩))] at h1
      cases h1
    have hexb : ∃ b, r.af.Live b lb := by
      apply Classical.byContradiction
      intro hn
      rw [(removeAttack_spec hinv la lb).2 (Or.inr (fun b hb => hn ⟨b, hb⟩))] at h1
      cases h1
    obtain ⟨a, ha⟩ := hexa
    obtain ⟨b, hb⟩ := hexb
    have hhas : r.af.HasAtt a b := by
      apply Classical.byContradiction
      intro hn
      rw [((removeAttack_spec hinv la lb).1 a b ha hb).2 hn] at h1
      cases h1
    obtain ⟨k, hk⟩ := hhas
    unfold replayEvent
    rw [wp_bind]
    refine wp_mono _ _ _ _ ?_ (wp_encAttack_remove hinv hE hen ha hb hk)
    rintro ⟨af', e'⟩ w' ⟨hinv', hrem, hE', hen'⟩
    rw [h1] at hrem
    injection hrem with hrem; subst hrem
    have hb' : st1.Live b lb := by
      obtain ⟨pf, pt, he, _⟩ := ((removeAttack_spec hinv la lb).1 a b ha hb).1 k hk
      rw [h1] at he; injection he with he; subst he; exact hb
    rw [wp_bind, wp_needArg hinv' hb']
    refine ⟨rfl, hinv', ?_, hen'⟩
    obtain ⟨hs, T, F, hI⟩ := hE'
    exact ⟨hs, T, F, hI.weaken (fun j hj => (mem_mustL _ _ _).2 hj)⟩

theorem EncInv.set_enabled {st : Store} {e : Enc} {Γ : Cnf} {T F : Nat → Bool} {d : Nat → Prop}
    (h : EncInv st e Γ T F d) (b : Bool) : EncInv st { e with enabled := b } Γ T F d :=
  ⟨h.vars_pos, h.sz_a, h.sz_s, h.av_live, h.sv_live, h.ty_arg, h.ty_sel, h.ty_disj, h.asm, h.asm_nodup,
    h.ghostT, h.ghostF, h.ghostTF, h.acc, h.act, h.disj_cl⟩

/-- the invariant of a dynamic solver between two calls of its API (`w0`: the shared SAT solver
exists and every variable of its clauses is counted by `n_vars`, so that `new_solver_var` and the
search selector of the preferred solver are fresh) -/
structure DInv (sem : DSem) (d : DState) (w : World) : Prop where
  w0 : W0 w
  af_inv : d.af.Inv
  clean : EInv sem d.af (fun _ => False) d.enc w
  disabled : d.enc.enabled = false
  sync : EffRun d.af (d.buffer.drop d.next) d.pending
  next_le : d.next ≤ d.buffer.length
  /-- as long as no update follows the last computation of the buffer (so that a query may answer
  from the cache) the solver's framework is the pending one -/
  tail_sync : d.buffer.reverse.takeWhile (fun ev => !ev.isUpdate) ≠ [] → d.af = d.pending

/-- **`update_encoding`**: whatever was buffered, afterwards the solver's framework is the pending
one and the clause database encodes it with no stale constraint -/
theorem wp_updateEncoding {C : Prop} {sem : DSem} {d : DState} {w : World} (h : DInv sem d w) :
    wp C d.updateEncoding w (fun d' w' => DInv sem d' w' ∧ d'.af = d.pending ∧ d'.pending = d.pending ∧
      d'.buffer = d.buffer ∧ d'.next = d.buffer.length) := by
  unfold DState.updateEncoding
  rw [wp_bind]
  have h0 : W0 w ∧ RInv sem { af := d.af, enc := d.enc } w ∧ EffRun d.af (d.buffer.drop d.next) d.pending := by
    refine ⟨h.w0, ⟨h.af_inv, ?_, h.disabled⟩, h.sync⟩
    obtain ⟨hs, T, F, hI⟩ := h.clean
    exact ⟨hs, T, F, hI.weaken (fun j hj => hj.elim)⟩
  have hfold := wp_foldProg (C := C) replayEvent
    (fun rest r w => W0 w ∧ RInv sem r w ∧ EffRun r.af rest d.pending)
    (d.buffer.drop d.next) { af := d.af, enc := d.enc } w h0 (by
      intro ev rest r w ⟨hw, hR, hrun⟩
      cases hop : Event.op ev with
      | none =>
        have hrun' : EffRun r.af rest d.pending := by
          simp only [EffRun, hop] at hrun; exact hrun
        refine wp_mono _ _ _ _ ?_ (wp_W0 _ _ _ hw (wp_replayEvent hR hw ev r.af (by rw [hop])))
        rintro r' w' ⟨hw', haf, hR'⟩
        exact ⟨hw', hR', by rw [haf]; exact hrun'⟩
      | some op =>
        simp only [EffRun, hop] at hrun
        obtain ⟨st1, heff, hrun'⟩ := hrun
        refine wp_mono _ _ _ _ ?_ (wp_W0 _ _ _ hw (wp_replayEvent hR hw ev st1 (by rw [hop]; exact heff)))
        rintro r' w' ⟨hw', haf, hR'⟩
        exact ⟨hw', hR', by rw [haf]; exact hrun'⟩)
  refine wp_mono _ _ _ _ ?_ hfold
  rintro r w1 ⟨hw1, ⟨hinv, hE, hen⟩, hrun⟩
  have haf : d.pending = r.af := hrun
  rw [wp_bind]
  have h1 : W0 w1 ∧ (∀ a ∈ r.upd.filter r.af.hasId, r.af.hasId a = true) ∧
      EInv sem r.af (fun j => j ∈ r.upd.filter r.af.hasId) { r.enc with enabled := true } w1 ∧
      ({ r.enc with enabled := true } : Enc).enabled = true := by
    refine ⟨hw1, fun a ha => (List.mem_filter.1 ha).2, ?_, rfl⟩
    obtain ⟨hs, T, F, hI⟩ := hE
    refine ⟨hs, T, F, (hI.restrict ?_).set_enabled true⟩
    intro j hj hd
    exact List.mem_filter.2 ⟨hd, hj⟩
  have hfold2 := wp_foldProg (C := C) (updateAttacksTo r.af)
    (fun rest e w => W0 w ∧ (∀ a ∈ rest, r.af.hasId a = true) ∧ EInv sem r.af (fun j => j ∈ rest) e w ∧ e.enabled = true)
    (r.upd.filter r.af.hasId) { r.enc with enabled := true } w1 h1 (by
      intro a rest e w ⟨hw, hlive, hE', hen'⟩
      refine wp_mono _ _ _ _ ?_ (wp_W0 _ _ _ hw (wp_updateAttacksTo hinv hE' hw hen' (hlive a (by simp))))
      rintro e' w' ⟨hw', ⟨hs, T, F, hI⟩, hen''⟩
      refine ⟨hw', fun b hb => hlive b (by simp [hb]), ⟨hs, T, F, hI.weaken ?_⟩, hen''⟩
      rintro j ⟨hj, hne⟩
      rcases List.mem_cons.1 hj with hj | hj
      · exact absurd hj hne
      · exact hj)
  refine wp_mono _ _ _ _ ?_ hfold2
  rintro e w2 ⟨hw2, _, ⟨hs, T, F, hI⟩, _⟩
  refine ⟨⟨hw2, hinv, ⟨hs, T, F, (hI.weaken (fun j hj => by simp at hj)).set_enabled false⟩, rfl, ?_, Nat.le_refl _,
      fun _ => haf.symm⟩,
    haf.symm, rfl, rfl, rfl⟩
  show EffRun r.af (d.buffer.drop d.buffer.length) d.pending
  rw [List.drop_length]
  exact haf

end Crusta.Dyn
