import Crusta.Proofs.Semantics

/-!
# Maximal elements exist: every admissible set lies in a preferred extension, and variants used by
the solver proofs (complete extensions maximal among the complete ones are preferred).
-/

namespace Crusta

/-- number of arguments of `0..n-1` outside `S` -/
def outside (n : Nat) (S : ASet) : Nat := ((List.range n).filter (fun a => !S a)).length

theorem filter_out_le (l : List Nat) (S T : ASet) (h : SubsetS S T) :
    (l.filter (fun a => !T a)).length ≤ (l.filter (fun a => !S a)).length := by
  induction l with
  | nil => simp
  | cons a t ih =>
    simp only [List.filter_cons]
    cases hT : T a <;> cases hS : S a <;> simp <;> try omega
    have := h a hS; rw [hT] at this; cases this

theorem filter_out_lt (l : List Nat) (S T : ASet) (h : SubsetS S T) {a : Nat} (ha : a ∈ l)
    (hT : T a = true) (hS : S a = false) :
    (l.filter (fun a => !T a)).length < (l.filter (fun a => !S a)).length := by
  induction l with
  | nil => simp at ha
  | cons b t ih =>
    simp only [List.filter_cons]
    rcases List.mem_cons.1 ha with rfl | ha'
    · have := filter_out_le t S T h
      simp [hT, hS]; omega
    · have := ih ha'
      cases hTb : T b <;> cases hSb : S b <;> simp <;> try omega
      have := h b hSb; rw [hTb] at this; cases this

/-- a family of sets of arguments closed under nothing in particular: any member lies below a
⊆-maximal member -/
theorem exists_maximal_above {af : AF} (P : ASet → Prop) (hsub : ∀ S, P S → Sub af S) :
    ∀ k S, outside af.n S ≤ k → P S → ∃ M, P M ∧ SubsetS S M ∧ ∀ T, P T → SubsetS M T → SubsetS T M := by
  intro k
  induction k with
  | zero =>
    intro S hk hS
    refine ⟨S, hS, fun _ h => h, ?_⟩
    intro T hT hST a hTa
    cases hSa : S a with
    | true => rfl
    | false =>
      exfalso
      have := filter_out_lt (List.range af.n) S T hST (List.mem_range.2 (hsub T hT a hTa)) hTa hSa
      unfold outside at hk
      omega
  | succ k ih =>
    intro S hk hS
    by_cases hmax : ∀ T, P T → SubsetS S T → SubsetS T S
    · exact ⟨S, hS, fun _ h => h, hmax⟩
    · simp only [Classical.not_forall] at hmax
      obtain ⟨T, hT, hST, hnot⟩ := hmax
      have : ∃ a, T a = true ∧ S a = false := by
        apply Classical.byContradiction
        intro hn
        apply hnot
        intro a hTa
        cases hSa : S a with
        | true => rfl
        | false => exact absurd ⟨a, hTa, hSa⟩ hn
      obtain ⟨a, hTa, hSa⟩ := this
      have hlt := filter_out_lt (List.range af.n) S T hST (List.mem_range.2 (hsub T hT a hTa)) hTa hSa
      obtain ⟨M, hM, hTM, hmaxM⟩ := ih T (by unfold outside at hk ⊢; omega) hT
      exact ⟨M, hM, fun x hx => hTM x (hST x hx), hmaxM⟩

/-- every admissible set is included in a preferred extension -/
theorem exists_preferred_superset {af : AF} {S : ASet} (hS : Admissible af S) :
    ∃ P, Preferred af P ∧ SubsetS S P := by
  obtain ⟨M, hM, hSM, hmax⟩ := exists_maximal_above (af := af) (Admissible af) (fun S h => h.1.1) _ S (Nat.le_refl _) hS
  exact ⟨M, ⟨hM, hmax⟩, hSM⟩

/-- a complete extension with no complete strict superset is preferred -/
theorem preferred_of_max_complete {af : AF} {S : ASet} (hS : Complete af S)
    (hmax : ∀ T, Complete af T → SubsetS S T → SubsetS T S) : Preferred af S := by
  refine ⟨hS.1, ?_⟩
  intro T hT hST
  obtain ⟨P, hP, hTP⟩ := exists_preferred_superset hT
  have := hmax P (preferred_complete hP) (fun a ha => hTP a (hST a ha))
  intro a ha
  exact this a (hTP a ha)

end Crusta
