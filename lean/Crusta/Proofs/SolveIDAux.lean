import Crusta.Proofs.SolvePR
import Crusta.Proofs.GroundedAlg

/-!
# Ideal semantics: the mathematics behind the solver, and a few generic tools

* spec level: the ideal extension is unique and complete; a ⊆-maximal complete set inside the
  intersection of the preferred extensions is ideal; the grounded extension is ideal when it is that
  intersection; a unique preferred extension is ideal;
* lists: a counting argument on duplicate-free lists, `decode` is duplicate-free;
* programs: the number of solvers never decreases along a run.
-/

namespace Crusta
open Prog (mkSolver doReserve addClause addClauses getNVars doSolve)

/-! ## spec level -/

theorem adm_empty (af : AF) : Admissible af (fun _ => false) := by
  refine ⟨⟨?_, ?_⟩, ?_⟩ <;> intro a h <;> cases h

theorem exists_preferred (af : AF) : ∃ P, Preferred af P := by
  obtain ⟨P, hP, _⟩ := exists_preferred_superset (adm_empty af)
  exact ⟨P, hP⟩

/-- what every preferred extension contains is an argument -/
theorem inAllPref_lt {af : AF} {a : Nat} (h : ∀ P, Preferred af P → P a = true) : a < af.n := by
  obtain ⟨P, hP⟩ := exists_preferred af
  exact hP.1.1.1 a (h P hP)

def unionS (S T : ASet) : ASet := fun a => S a || T a

theorem unionS_true {S T : ASet} {a : Nat} : unionS S T a = true ↔ S a = true ∨ T a = true := by
  simp [unionS]

theorem defended_mono {af : AF} {S T : ASet} (h : SubsetS S T) {a : Nat} (hd : Defended af S a) :
    Defended af T a := fun b hb => attackedBy_mono h (hd b hb)

/-- the union of two ideal candidates is an ideal candidate -/
theorem idealCand_union {af : AF} {S T : ASet} (hS : IdealCand af S) (hT : IdealCand af T) :
    IdealCand af (unionS S T) := by
  have hin : ∀ P, Preferred af P → SubsetS (unionS S T) P := by
    intro P hP a ha
    rcases unionS_true.1 ha with h | h
    · exact hS.2 P hP a h
    · exact hT.2 P hP a h
  obtain ⟨P, hP⟩ := exists_preferred af
  refine ⟨⟨⟨?_, ?_⟩, ?_⟩, hin⟩
  · intro a ha; exact hP.1.1.1 a (hin P hP a ha)
  · rintro a ha ⟨b, hb, hbU⟩
    exact hP.1.1.2 a (hin P hP a ha) ⟨b, hb, hin P hP b hbU⟩
  · intro a ha
    rcases unionS_true.1 ha with h | h
    · exact defended_mono (fun x hx => unionS_true.2 (Or.inl hx)) (hS.1.2 a h)
    · exact defended_mono (fun x hx => unionS_true.2 (Or.inr hx)) (hT.1.2 a h)

theorem ideal_sub_ideal {af : AF} {S T : ASet} (hS : Ideal af S) (hT : Ideal af T) : SubsetS T S := by
  intro a ha
  exact hS.2 _ (idealCand_union hS.1 hT.1) (fun x hx => unionS_true.2 (Or.inl hx)) a (unionS_true.2 (Or.inr ha))

/-- **the ideal extension is unique** -/
theorem ideal_unique {af : AF} {S T : ASet} (hS : Ideal af S) (hT : Ideal af T) (a : Nat) : S a = T a := by
  have h1 := ideal_sub_ideal hS hT a
  have h2 := ideal_sub_ideal hT hS a
  cases hSa : S a <;> cases hTa : T a <;> simp_all

/-- a ⊆-maximal ideal candidate is a complete extension -/
theorem maxIdealCand_complete {af : AF} {M : ASet} (hM : IdealCand af M)
    (hmax : ∀ T, IdealCand af T → SubsetS M T → SubsetS T M) : Complete af M := by
  refine ⟨hM.1, ?_⟩
  intro a ha hd
  have hadm := adm_add_defended hM.1 ha hd
  have hc : IdealCand af (addArg M a) := by
    refine ⟨hadm, ?_⟩
    intro P hP x hx
    have hx' : M x = true ∨ x = a := by simpa [addArg] using hx
    rcases hx' with h | rfl
    · exact hM.2 P hP x h
    · exact (preferred_complete hP).2 x ha (defended_mono (hM.2 P hP) hd)
  exact hmax _ hc (subset_addArg M a) a (by simp [addArg])

theorem ideal_complete {af : AF} {S : ASet} (h : Ideal af S) : Complete af S :=
  maxIdealCand_complete h.1 h.2

/-- a complete extension that is ⊆-maximal among the complete extensions lying inside every preferred
extension is the ideal extension -/
theorem ideal_of_max_complete {af : AF} {S : ASet} (hS : Complete af S)
    (hin : ∀ P, Preferred af P → SubsetS S P)
    (hmax : ∀ T, Complete af T → (∀ P, Preferred af P → SubsetS T P) → SubsetS S T → SubsetS T S) :
    Ideal af S := by
  refine ⟨⟨hS.1, hin⟩, ?_⟩
  intro T hT hST
  obtain ⟨M, hM, hTM, hmaxM⟩ := exists_maximal_above (af := af) (IdealCand af) (fun S h => h.1.1.1) _ T
    (Nat.le_refl _) hT
  have hMS := hmax M (maxIdealCand_complete hM hmaxM) hM.2 (fun a ha => hTM a (hST a ha))
  intro a ha
  exact hMS a (hTM a ha)

/-- if the intersection of the preferred extensions is the grounded extension, that is the ideal one -/
theorem ideal_of_grounded_inter {af : AF} {G : ASet} (hG : Complete af G)
    (hleast : ∀ T, Complete af T → SubsetS G T)
    (hI : ∀ a, (∀ P, Preferred af P → P a = true) → G a = true) : Ideal af G := by
  refine ⟨⟨hG.1, fun P hP => hleast P (preferred_complete hP)⟩, ?_⟩
  intro T hT _ a ha
  exact hI a (fun P hP => hT.2 P hP a ha)

/-- a unique preferred extension is the ideal extension -/
theorem ideal_of_unique_preferred {af : AF} {P : ASet} (hP : Preferred af P)
    (huniq : ∀ Q, Preferred af Q → ∀ a, Q a = P a) : Ideal af P := by
  refine ⟨⟨hP.1, ?_⟩, ?_⟩
  · intro Q hQ a ha; rw [huniq Q hQ a]; exact ha
  · intro T hT _; exact hT.2 P hP

/-! ## lists -/

/-- two duplicate-free lists, one included in the other and not shorter: same elements -/
theorem subset_of_nodup_length_le : ∀ {l1 l2 : List Nat}, l1.Nodup → (∀ a ∈ l1, a ∈ l2) → l2.Nodup →
    l2.length ≤ l1.length → ∀ a ∈ l2, a ∈ l1
  | [], l2, _, _, _, hlen => by
    intro a ha
    have : l2 = [] := List.eq_nil_of_length_eq_zero (by simpa using hlen)
    rw [this] at ha; cases ha
  | x :: t, l2, h1, hsub, h2, hlen => by
    intro a ha
    have hx : x ∈ l2 := hsub x (by simp)
    have h1' := List.nodup_cons.1 h1
    have hlen' : (l2.erase x).length ≤ t.length := by
      rw [List.length_erase_of_mem hx]
      simp only [List.length_cons] at hlen
      omega
    have hsub' : ∀ b ∈ t, b ∈ l2.erase x := by
      intro b hb
      have hne : b ≠ x := fun e => h1'.1 (e ▸ hb)
      exact (List.mem_erase_of_ne hne).2 (hsub b (by simp [hb]))
    have ih := subset_of_nodup_length_le h1'.2 hsub' (h2.erase x) hlen'
    by_cases hax : a = x
    · simp [hax]
    · exact List.mem_cons_of_mem _ (ih a ((List.mem_erase_of_ne hax).2 ha))

theorem getD_map_range_bool (f : Nat → Bool) (n a : Nat) :
    ((List.range n).map f).getD a false = true ↔ a < n ∧ f a = true := by
  by_cases h : a < n
  · simp [List.getD_eq_getElem?_getD, h]
  · simp [List.getD_eq_getElem?_getD, h]

theorem getD_replicate_true (n a : Nat) : (List.replicate n true).getD a false = true ↔ a < n := by
  by_cases h : a < n
  · simp [List.getD_eq_getElem?_getD, h]
  · simp [List.getD_eq_getElem?_getD, h]

theorem zipIdx_pairwise {α : Type} (m : List α) : (m.zipIdx).Pairwise (fun p q => p.2 ≠ q.2) := by
  have h : ((m.zipIdx).map Prod.snd).Nodup := by
    rw [List.zipIdx_map_snd]; exact List.nodup_range' 1
  exact List.pairwise_map.1 h

theorem EncKind.decode_nodup (k : EncKind) (n : Nat) (m : List (Option Bool)) : (k.decode n m).Nodup := by
  cases k
  all_goals
    simp only [EncKind.decode, Aux.decode, Exp.decode, Stb.decode]
    refine List.Pairwise.filterMap _ ?_ (zipIdx_pairwise m)
    rintro ⟨v, i⟩ ⟨v', i'⟩ hne b hb b' hb'
    simp only at hb hb' hne
    split at hb <;> try cases hb
    split at hb' <;> try cases hb'
    simp only [Bool.and_eq_true, beq_iff_eq, decide_eq_true_eq] at *
    omega

/-! ## programs -/

theorem len_onNew (w : World) : w.onNew.solvers.length = w.solvers.length + 1 := by simp [World.onNew]
theorem len_onReserve (w : World) (s n : Nat) : (w.onReserve s n).solvers.length = w.solvers.length := by
  simp [World.onReserve, World.upd]

/-- solvers are never destroyed -/
theorem wp_len {α : Type} {C : Prop} (k : Nat) (p : Prog α) : ∀ (w : World) (Q : α → World → Prop),
    k ≤ w.solvers.length → wp C p w Q → wp C p w (fun a w' => k ≤ w'.solvers.length ∧ Q a w') := by
  induction p with
  | pure a0 => intro w Q hk h; exact ⟨hk, h⟩
  | crash m => intro w Q _ h; exact h
  | newSolver f ih => intro w Q hk h; exact ih _ _ Q (by rw [len_onNew]; omega) h
  | reserve s n f ih => intro w Q hk h; exact ih _ Q (by rw [len_onReserve]; exact hk) h
  | clause s c f ih => intro w Q hk h; exact ih _ Q (by rw [len_onClause]; exact hk) h
  | nVars s f ih => intro w Q hk h; exact ih _ _ Q hk h
  | solve s as f ih =>
    intro w Q hk h
    have hk' : ∀ r, k ≤ ((w.onSolve s as).onReply s r).solvers.length := by
      intro r; show k ≤ (w.onSolve s as).solvers.length; rw [len_onSolve]; exact hk
    exact ⟨fun m hm => ih _ _ Q (hk' _) (h.1 m hm), fun hu => ih _ _ Q (hk' _) (h.2 hu)⟩

end Crusta
