import Driver.IO
import Driver.Enc
import Crusta.Model.Sat
import Crusta.Model.Prog

namespace Driver
open Crusta Crusta.Sat Crusta.IO

def litsOfCsv (s : String) : List Lit :=
  if s.isEmpty then [] else (s.splitOn ",").filterMap (fun t => t.toInt?.map litOfInt)

def litOk (m : List (Option Bool)) (l : Lit) : Bool :=
  m.getD (l.var - 1) none == some l.pos

def modelSatisfies (m : List (Option Bool)) (db : List Clause) (as : List Lit) : Bool :=
  db.all (fun c => c.any (litOk m)) && as.all (litOk m)

def renderPReply : PReply → String
  | .sat m => "s " ++ renderBits m
  | .unsat => "u"
  | .unknown => "k"
  | .abort _ => "panic"
where renderBits (m : List (Option Bool)) : String :=
  String.ofList (m.map (fun v => match v with | some true => '+' | some false => '-' | none => '?'))

def runSat (lines : List String) : List String := Id.run do
  let inl := (lines.find? (fun l => l.startsWith "in ")).getD ""
  let ts := toks inl
  let backend := kvGetD ts "backend" "cadical"
  let ext := backend != "cadical"
  let mut db : List Clause := []
  let mut buf : Buffered := {}
  let mut maxVar := 0
  let mut reserved := 0
  let mut out : List String := []
  let arr := lines.toArray
  for i in [0:arr.size] do
    let l := arr[i]!
    let t := toks l
    match t with
    | ["O", "c"] =>
      db := db ++ [[]]; buf := buf.addClause []; out := l :: out
    | ["O", "c", cs] =>
      let c := litsOfCsv cs
      db := db ++ [c]; buf := buf.addClause c; maxVar := max maxVar (litsMax c); out := l :: out
    | ["O", "r", n] =>
      buf := buf.reserve (natOf n); reserved := max reserved (natOf n); out := l :: out
    | ["O", "n", _] =>
      out := s!"O n {if ext then buf.nVars else cadNVars maxVar reserved}" :: out
    | "O" :: k :: rest =>
      if k == "q" || k == "s" then
        -- rest = [assumps, "->", res...] or ["->", res...]
        let (acsv, res) := match rest with
          | "->" :: r => ("", r)
          | a :: "->" :: r => (a, r)
          | _ => ("", [])
        let as := if k == "s" then [] else litsOfCsv acsv
        maxVar := max maxVar (litsMax as)
        let pre := if acsv.isEmpty then s!"O {k} ->" else s!"O {k} {acsv} ->"
        if ext then
          let dline := s!"D {hexOf (encodeUtf8 (buf.dimacs as))}"
          buf := buf.withAssumptions as
          -- the reply the solver printed, if recorded
          let pline := (arr.toList.drop (i + 1)).takeWhile (fun x => !x.startsWith "O ") |>.find? (fun x => x.startsWith "P ")
          match pline with
          | some pl =>
            let r := parseReply buf.nVars (unhex (pl.drop 2).toString)
            out := s!"{pre} {renderPReply r}" :: out
            out := dline :: out
            out := pl :: out
          | none =>
            out := l :: out
            out := dline :: out
        else
          out := l :: out
        -- conformance of what the implementation reported
        match res with
        | ["s", bits] | ["s", bits, _] =>
          let m := parseBits bits
          let nv := if ext then buf.nVars else cadNVars maxVar reserved
          if m.length != nv then out := s!"verdict BAD model has {m.length} entries for {nv} declared variables" :: out
          else if !modelSatisfies m db as then out := "verdict BAD reported model violates a clause or an assumption" :: out
          else out := "verdict ok" :: out
        | ["s"] =>
          if !modelSatisfies [] db as then out := "verdict BAD reported model violates a clause or an assumption" :: out
          else out := "verdict ok" :: out
        | ["u"] =>
          let nv := max (Cnf.maxVar db) (litsMax as)
          if nv ≤ 14 then
            let units : Cnf := as.map (fun a => [a])
            if !(allModels (db ++ units) nv).isEmpty then out := "verdict BAD unsatisfiable reported although a model exists" :: out
            else out := "verdict ok" :: out
          else out := "verdict ok-unjudged" :: out
        | _ => out := "verdict none" :: out
      else out := l :: out
    | _ => pure ()
  return out.reverse

end Driver
