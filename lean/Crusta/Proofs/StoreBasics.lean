import Crusta.Model.Store

/-!
# Store proofs, part 1: list toolkit, abstract view, invariant
-/

namespace Crusta

theorem getD_set_eq {α : Type} (l : List α) (i : Nat) (x d : α) (h : i < l.length) :
    (l.set i x).getD i d = x := by
  simp [List.getD_eq_getElem?_getD, List.getElem?_set, h]

theorem getD_set_ne {α : Type} (l : List α) (i j : Nat) (x d : α) (h : i ≠ j) :
    (l.set i x).getD j d = l.getD j d := by
  simp [List.getD_eq_getElem?_getD, List.getElem?_set, h]

theorem getD_set_ge {α : Type} (l : List α) (i j : Nat) (x d : α) (h : l.length ≤ i) :
    (l.set i x).getD j d = l.getD j d := by
  by_cases e : i = j
  · subst e
    simp [List.getD_eq_getElem?_getD, List.getElem?_set]
    have : ¬ i < l.length := by omega
    simp [this, List.getElem?_eq_none h]
  · exact getD_set_ne l i j x d e

theorem getD_append_lt {α : Type} (l m : List α) (i : Nat) (d : α) (h : i < l.length) :
    (l ++ m).getD i d = l.getD i d := by
  simp [List.getD_eq_getElem?_getD, List.getElem?_append, h]

theorem getD_append_len {α : Type} (l : List α) (x d : α) : (l ++ [x]).getD l.length d = x := by
  simp [List.getD_eq_getElem?_getD]

theorem getD_ge {α : Type} (l : List α) (i : Nat) (d : α) (h : l.length ≤ i) : l.getD i d = d := by
  simp [List.getD_eq_getElem?_getD, List.getElem?_eq_none h]

theorem getD_append_gt {α : Type} (l : List α) (x d : α) (i : Nat) (h : l.length < i) :
    (l ++ [x]).getD i d = d := by
  apply getD_ge; simp; omega

namespace Store

/-- the live argument with id `i` has label `l` -/
def Live (s : Store) (i l : Nat) : Prop := s.labelOf i = some l

/-- there is a live attack between the arguments with ids `a` and `b` -/
def HasAtt (s : Store) (a b : Nat) : Prop := ∃ i, s.att i = some (a, b)

def countNone {α : Type} : List (Option α) → Nat
  | [] => 0
  | none :: t => countNone t + 1
  | some _ :: t => countNone t

structure Inv (s : Store) : Prop where
  rows_from : s.from_.length = s.labels.length
  rows_to : s.to_.length = s.labels.length
  l2i_sound : ∀ l i, (l, i) ∈ s.l2i → s.Live i l
  l2i_complete : ∀ l i, s.Live i l → (l, i) ∈ s.l2i
  label_inj : ∀ i j l, s.Live i l → s.Live j l → i = j
  ends_live : ∀ i a b, s.att i = some (a, b) → s.hasId a = true ∧ s.hasId b = true
  in_from : ∀ i a b, s.att i = some (a, b) → i ∈ row s.from_ a
  in_to : ∀ i a b, s.att i = some (a, b) → i ∈ row s.to_ b
  from_ok : ∀ a i, i ∈ row s.from_ a → i < s.attacks.length ∧ (s.att i = none ∨ ∃ b, s.att i = some (a, b))
  to_ok : ∀ b i, i ∈ row s.to_ b → i < s.attacks.length ∧ (s.att i = none ∨ ∃ a, s.att i = some (a, b))
  cnt_att : s.nRemovedAtt = countNone s.attacks
  cnt_lab : s.nRemoved = countNone s.labels
  att_nodup : ∀ i j a b, s.att i = some (a, b) → s.att j = some (a, b) → i = j

theorem att_lt {s : Store} {i : Nat} {p : Nat × Nat} (h : s.att i = some p) : i < s.attacks.length := by
  unfold att at h
  apply Classical.byContradiction
  intro hn
  rw [getD_ge _ _ _ (by omega)] at h; cases h

theorem live_lt {s : Store} {i l : Nat} (h : s.Live i l) : i < s.labels.length := by
  unfold Live labelOf at h
  apply Classical.byContradiction
  intro hn
  rw [getD_ge _ _ _ (by omega)] at h; cases h

theorem hasId_iff {s : Store} {i : Nat} : s.hasId i = true ↔ ∃ l, s.Live i l := by
  unfold hasId Live labelOf
  cases s.labels.getD i none <;> simp

theorem countNone_le {α : Type} (l : List (Option α)) : countNone l ≤ l.length := by
  induction l with
  | nil => simp [countNone]
  | cons a t ih => cases a <;> simp [countNone] <;> omega

theorem countNone_append {α : Type} (l m : List (Option α)) : countNone (l ++ m) = countNone l + countNone m := by
  induction l with
  | nil => simp [countNone]
  | cons a t ih => cases a <;> simp [countNone, ih] <;> omega

theorem countNone_set_none {α : Type} (l : List (Option α)) (i : Nat) (x : α)
    (h : l.getD i none = some x) : countNone (l.set i none) = countNone l + 1 := by
  induction l generalizing i with
  | nil => simp [List.getD] at h
  | cons a t ih =>
    cases i with
    | zero =>
      simp [List.getD] at h; subst h
      simp [countNone]
    | succ k =>
      have h' : t.getD k none = some x := by simpa [List.getD] using h
      cases a <;> simp [countNone, ih k h'] <;> omega

/-- lookup in the label map agrees with membership, given functional keys -/
theorem lookup_eq_some {s : Store} (hinv : s.Inv) {l i : Nat} : s.lookup l = some i ↔ s.Live i l := by
  unfold lookup
  constructor
  · intro h
    simp only [Option.map_eq_some_iff] at h
    obtain ⟨⟨l', i'⟩, hf, rfl⟩ := h
    have hm := List.mem_of_find?_eq_some hf
    have hp := List.find?_some hf
    simp only [beq_iff_eq] at hp
    subst hp
    exact hinv.l2i_sound _ _ hm
  · intro h
    have hm := hinv.l2i_complete l i h
    cases hf : s.l2i.find? (fun p => p.1 == l) with
    | none =>
      have := List.find?_eq_none.1 hf (l, i) hm
      simp at this
    | some p =>
      obtain ⟨l', i'⟩ := p
      have hm' := List.mem_of_find?_eq_some hf
      have hp := List.find?_some hf
      simp only [beq_iff_eq] at hp
      subst hp
      have := hinv.label_inj _ _ _ (hinv.l2i_sound _ _ hm') h
      simp [this]

theorem lookup_eq_none {s : Store} (hinv : s.Inv) {l : Nat} : s.lookup l = none ↔ ∀ i, ¬ s.Live i l := by
  constructor
  · intro h i hl
    rw [(lookup_eq_some hinv).2 hl] at h; cases h
  · intro h
    cases hl : s.lookup l with
    | none => rfl
    | some i => exact absurd ((lookup_eq_some hinv).1 hl) (h i)

theorem getArg_eq_some {s : Store} (hinv : s.Inv) {l i : Nat} : s.getArg l = some i ↔ s.Live i l := by
  unfold getArg
  constructor
  · intro h
    cases hl : s.lookup l with
    | none => rw [hl] at h; cases h
    | some j =>
      rw [hl] at h
      simp only at h
      split at h
      · injection h with h; subst h; exact (lookup_eq_some hinv).1 hl
      · cases h
  · intro h
    rw [(lookup_eq_some hinv).2 h]
    simp only
    rw [if_pos (hasId_iff.2 ⟨l, h⟩)]

theorem getArg_eq_none {s : Store} (hinv : s.Inv) {l : Nat} : s.getArg l = none ↔ ∀ i, ¬ s.Live i l := by
  constructor
  · intro h i hl
    rw [(getArg_eq_some hinv).2 hl] at h; cases h
  · intro h
    cases hl : s.getArg l with
    | none => rfl
    | some i => exact absurd ((getArg_eq_some hinv).1 hl) (h i)

theorem inv_empty : Store.empty.Inv := by
  refine ⟨rfl, rfl, ?_, ?_, ?_, ?_, ?_, ?_, ?_, ?_, rfl, rfl, ?_⟩
  · intro l i h; simp [empty] at h
  · intro l i h; simp [Live, labelOf, empty] at h
  · intro i j l h; simp [Live, labelOf, empty] at h
  · intro i a b h; simp [att, empty] at h
  · intro i a b h; simp [att, empty] at h
  · intro i a b h; simp [att, empty] at h
  · intro a i h; simp [row, empty] at h
  · intro a i h; simp [row, empty] at h
  · intro i j a b h; simp [att, empty] at h

end Store
end Crusta
