import Crusta.Proofs.Prog
import Crusta.Model.Solvers

/-!
# Counting SAT calls of `Prog` programs (C18)

`Bounded p n`: whatever the replies, running `p` makes at most `n` SAT calls.
-/

namespace Crusta

def Bounded {α : Type} (p : Prog α) (n : Nat) : Prop :=
  ∀ (rs : List Reply) (w : World), (interp p rs w).2.calls ≤ w.calls + n

attribute [local simp] Prog.bind_eq Prog.pure_eq

theorem Bounded.mono {α : Type} {p : Prog α} {n m : Nat} (h : Bounded p n) (hnm : n ≤ m) : Bounded p m :=
  fun rs w => Nat.le_trans (h rs w) (by omega)

theorem bounded_pure {α : Type} (a : α) (n : Nat) : Bounded (Prog.pure a) n := by
  intro rs w; simp [interp]

theorem bounded_crash {α : Type} (m : String) (n : Nat) : Bounded (Prog.crash m : Prog α) n := by
  intro rs w; simp [interp]

theorem bounded_newSolver {α : Type} {k : Nat → Prog α} {n : Nat} (h : ∀ i, Bounded (k i) n) :
    Bounded (Prog.newSolver k) n := by
  intro rs w; simp only [interp]; have := h w.solvers.length rs w.onNew; simpa using this

theorem bounded_reserve {α : Type} {s m : Nat} {k : Prog α} {n : Nat} (h : Bounded k n) :
    Bounded (Prog.reserve s m k) n := by
  intro rs w; simp only [interp]; have := h rs (w.onReserve s m); simpa using this

theorem bounded_clause {α : Type} {s : Nat} {c : Clause} {k : Prog α} {n : Nat} (h : Bounded k n) :
    Bounded (Prog.clause s c k) n := by
  intro rs w; simp only [interp]; have := h rs (w.onClause s c); simpa using this

theorem bounded_nVars {α : Type} {s : Nat} {k : Nat → Prog α} {n : Nat} (h : ∀ v, Bounded (k v) n) :
    Bounded (Prog.nVars s k) n := by
  intro rs w; simp only [interp]; have := h (w.nVarsOf s) rs (w.onNVars s); simpa using this

theorem bounded_solve {α : Type} {s : Nat} {a : List Lit} {k : Option Model → Prog α} {n : Nat}
    (h : ∀ r, Bounded (k r) n) : Bounded (Prog.solve s a k) (n + 1) := by
  intro rs w
  cases rs with
  | nil => simp [interp]
  | cons r rs' =>
    cases r with
    | unknown => simp [interp]
    | unsat => simp only [interp]; have := h none rs' ((w.onSolve s a).onReply s .unsat); simp at this; omega
    | sat m => simp only [interp]; have := h (some m) rs' ((w.onSolve s a).onReply s (.sat m)); simp at this; omega

theorem bounded_bind {α β : Type} {p : Prog α} {f : α → Prog β} {n m : Nat}
    (hp : Bounded p n) (hf : ∀ a, Bounded (f a) m) : Bounded (p.bind f) (n + m) := by
  intro rs w
  rw [interp_bind]
  have h1 := hp rs w
  generalize interp p rs w = res at h1 ⊢
  obtain ⟨oc, w'⟩ := res
  cases oc with
  | done a => simp only; have := hf a (rs.drop (w'.calls - w.calls)) w'; simp at h1; omega
  | abort => simp only at h1 ⊢; omega
  | crashed msg => simp only at h1 ⊢; omega
  | starved => simp only at h1 ⊢; omega

theorem bounded_bind_free {α β : Type} {p : Prog α} {f : α → Prog β} {m : Nat}
    (hp : Bounded p 0) (hf : ∀ a, Bounded (f a) m) : Bounded (p.bind f) m := by
  have := bounded_bind hp hf; simpa using this

theorem bounded_solve_le {α : Type} {s : Nat} {a : List Lit} {k : Option Model → Prog α} (n : Nat) {N : Nat}
    (h : ∀ r, Bounded (k r) n) (hle : n + 1 ≤ N) : Bounded (Prog.solve s a k) N :=
  (bounded_solve h).mono hle

/-! ### building blocks -/

theorem bounded_addClauses (s : Nat) (f : Cnf) : Bounded (Prog.addClauses s f) 0 := by
  induction f with
  | nil => exact bounded_pure _ _
  | cons c cs ih => exact bounded_clause ih

theorem bounded_encodeInto (k : EncKind) (af : AF) (s : Nat) (r : Bool) : Bounded (encodeInto k af s r) 0 := by
  unfold encodeInto
  simp only [Prog.bind_eq, Prog.doReserve, Prog.pure_eq]
  split
  · simp only [Prog.bind]; exact bounded_reserve (bounded_addClauses _ _)
  · exact bounded_addClauses _ _

theorem bounded_needComp (x : Option (Option Comp × CC)) : Bounded (needComp x) 0 := by
  unfold needComp
  split
  · exact bounded_crash _ _
  · exact bounded_crash _ _
  · exact bounded_pure _ _

theorem bounded_needComp' (x : Option Comp) : Bounded (needComp' x) 0 := by
  unfold needComp'
  split
  · exact bounded_crash _ _
  · exact bounded_pure _ _

theorem bounded_ccArgs (c : Comp) (args : List Nat) : Bounded (ccArgs c args) 0 := by
  unfold ccArgs
  induction args with
  | nil => exact bounded_pure _ _
  | cons a as ih =>
    simp only [List.foldr_cons, Prog.bind_eq]
    apply bounded_bind_free ih
    intro rest
    split
    · exact bounded_pure _ _
    · exact bounded_crash _ _

/-- one step of the call-count analysis: peel one node of the program -/
macro "bounded_step" : tactic => `(tactic| first
  | exact bounded_pure _ _
  | exact bounded_crash _ _
  | (apply bounded_newSolver; intro _)
  | apply bounded_reserve
  | apply bounded_clause
  | (apply bounded_nVars; intro _)
  | (apply bounded_bind_free (bounded_needComp _); intro _)
  | (apply bounded_bind_free (bounded_needComp' _); intro _)
  | (apply bounded_bind_free (bounded_encodeInto _ _ _ _); intro _)
  | (apply bounded_bind_free (bounded_ccArgs _ _); intro _)
  | (apply bounded_solve; intro _))

/-- **CO credulous acceptance makes at most one SAT call** (certificate-less entry point) -/
theorem coDC_bounded (cfg : Cfg) (v : FwView) (args : List Nat) : Bounded (coDC cfg v args) 1 := by
  unfold coDC
  simp only [Prog.bind_eq, Prog.pure_eq, Prog.mkSolver, Prog.getNVars, Prog.addClause, Prog.doSolve, Prog.bind]
  repeat bounded_step

theorem bounded_otherCompsWith (v : FwView) (f : Comp → Prog (List Nat)) (hf : ∀ c, Bounded (f c) 0) :
    ∀ (fuel : Nat) (cc : CC) (acc : List Nat), Bounded (otherCompsWith v f fuel cc acc) 0 := by
  intro fuel
  induction fuel with
  | zero => intro cc acc; exact bounded_crash _ _
  | succ fuel ih =>
    intro cc acc
    unfold otherCompsWith
    split
    · exact bounded_pure _ _
    · simp only [Prog.bind_eq]
      apply bounded_bind_free (bounded_needComp' _); intro c
      apply bounded_bind_free (hf c); intro e
      exact ih _ _

/-- CO credulous acceptance with certificate: at most one SAT call (the other components are
completed with their grounded extensions, without SAT) -/
theorem coDCcert_bounded (cfg : Cfg) (v : FwView) (args : List Nat) : Bounded (coDCcert cfg v args) 1 := by
  unfold coDCcert
  simp only [Prog.bind_eq, Prog.pure_eq, Prog.mkSolver, Prog.getNVars, Prog.addClause, Prog.doSolve, Prog.bind]
  apply bounded_bind_free (bounded_needComp _); intro x
  apply bounded_newSolver; intro s
  apply bounded_bind_free (bounded_encodeInto _ _ _ _); intro _
  apply bounded_nVars; intro nv
  apply bounded_bind_free (bounded_ccArgs _ _); intro pos
  apply bounded_clause
  apply bounded_solve; intro r
  split
  · apply bounded_bind_free
    · exact bounded_otherCompsWith v _ (fun c => bounded_pure _ _) _ _ _
    · intro _; exact bounded_pure _ _
  · exact bounded_pure _ _

/-- stable single extension: one SAT call per connected component -/
theorem stSE_go_bounded : ∀ (comps : List (Option Comp)) (acc : List Nat),
    Bounded (stSE.go comps acc) comps.length := by
  intro comps
  induction comps with
  | nil => intro acc; unfold stSE.go; exact bounded_pure _ _
  | cons oc rest ih =>
    intro acc
    unfold stSE.go
    simp only [Prog.bind_eq, Prog.pure_eq, Prog.mkSolver, Prog.doSolve, Prog.bind, List.length_cons]
    apply bounded_bind_free (bounded_needComp' _); intro c
    apply bounded_newSolver; intro s
    apply bounded_bind_free (bounded_encodeInto _ _ _ _); intro _
    apply bounded_solve; intro r
    split
    · exact ih _
    · exact bounded_pure _ _

theorem stSE_bounded (v : FwView) : Bounded (stSE v) (allComps v).length := stSE_go_bounded _ _

/-- stable acceptance (after the repair): at most two SAT calls per connected component -/
theorem stAcc_go_bounded (args : List Nat) (pol sou : Bool) : ∀ (comps : List (Option Comp)) (acc : List Nat) (found : Bool),
    Bounded (stAcc.go args pol sou comps acc found) (2 * comps.length) := by
  intro comps
  induction comps with
  | nil => intro acc found; unfold stAcc.go; split <;> exact bounded_pure _ _
  | cons oc rest ih =>
    intro acc found
    unfold stAcc.go
    simp only [Prog.bind_eq, Prog.pure_eq, Prog.mkSolver, Prog.doSolve, Prog.getNVars, Prog.addClause, Prog.bind, List.length_cons]
    have e : 2 * (rest.length + 1) = 2 * rest.length + 1 + 1 := by omega
    rw [e]
    apply bounded_bind_free (bounded_needComp' _); intro c
    apply bounded_newSolver; intro s
    apply bounded_bind_free (bounded_encodeInto _ _ _ _); intro _
    split
    · split
      · apply bounded_nVars; intro nv
        apply bounded_clause
        apply bounded_solve; intro r
        apply bounded_clause
        split
        · exact (ih _ _).mono (by omega)
        · apply bounded_solve; intro r2
          split
          · exact ih _ _
          · exact bounded_pure _ _
      · apply bounded_solve; intro r
        split
        · exact (ih _ _).mono (by omega)
        · exact bounded_pure _ _
    · apply bounded_solve; intro r
      split
      · exact (ih _ _).mono (by omega)
      · exact bounded_pure _ _

theorem stAcc_bounded (v : FwView) (args : List Nat) (pol sou : Bool) :
    Bounded (stAcc v args pol sou) (2 * (allComps v).length) := stAcc_go_bounded args pol sou _ _ _

end Crusta
