import Crusta.Proofs.Writers
import Crusta.Proofs.RoundTrip
import Crusta.Proofs.StoreRoundTrip
import Crusta.Gen.WriterFormats

/-! # C14 — written frameworks and answers read back (property theorems) -/

namespace Crusta.C14
open Crusta Crusta.IO

/-- acceptance statuses and "no extension" are exactly the lines YES / NO -/
theorem status_lines :
    writeStatus true = strOf "YES\n" ∧ writeStatus false = strOf "NO\n" ∧ writeNoExt = strOf "NO\n" :=
  ⟨rfl, rfl, rfl⟩

/-- ICCMA'23 witness line: `w` followed by space-separated labels, one line; reads back to exactly
the labels it contained, for every list (the empty one included) of blank-free non-empty labels -/
theorem iccma_extension_roundtrip (ext : List Str) (h : ∀ l ∈ ext, l ≠ [] ∧ ∀ c ∈ l, isWs c = false) :
    parseExtIccma (writeExtIccma ext) = some ext := parseExtIccma_write ext h

/-- Aspartix witness line: one bracketed comma-separated list; reads back to exactly its labels -/
theorem apx_extension_roundtrip (ext : List Str) (h : ∀ l ∈ ext, ∀ c ∈ l, c ≠ 44) (hne : ∀ l ∈ ext, l ≠ []) :
    parseExtApx (writeExtApx ext) = some ext := parseExtApx_write ext h hne

/-- nothing else is emitted: the extension writers produce exactly one line -/
theorem extension_is_one_line (ext : List Str) (h : ∀ l ∈ ext, ∀ c ∈ l, c ≠ 10) :
    (∀ c ∈ (writeExtIccma ext).dropLast, c ≠ 10) ∧ (writeExtIccma ext).getLast? = some 10 := by
  have e : writeExtIccma ext = (119 :: List.flatMap (fun l => 32 :: l) ext) ++ [10] := by
    unfold writeExtIccma; simp
  rw [e, List.dropLast_concat]
  refine ⟨?_, by rw [List.getLast?_concat]⟩
  intro c hc
  rcases List.mem_cons.1 hc with rfl | hc
  · decide
  · obtain ⟨l, hl, hcl⟩ := List.mem_flatMap.1 hc
    rcases List.mem_cons.1 hcl with rfl | hcl
    · decide
    · exact h l hl c hcl

example : parseExtIccma (writeExtIccma [strOf "1", strOf "12"]) = some [strOf "1", strOf "12"] := by decide

/-- **a framework written in Aspartix format reads back as the same framework**: same labels in the
same order, same attacks (model of `AspartixWriter` = `writeApx` on the live labels in id order and
the live attacks; labels valid identifiers, as the reader requires) -/
theorem framework_roundtrip (labels : List Str) (atts : List (Nat × Nat))
    (hv : ∀ l ∈ labels, ValidId l) (hnd : labels.Nodup)
    (ha : ∀ p ∈ atts, p.1 < labels.length ∧ p.2 < labels.length) (hand : atts.Nodup) :
    readApx (encodeUtf8 (writeApx labels (atts.map (fun p => (labels.getD p.1 [], labels.getD p.2 [])))))
      = .ok ⟨labels, atts⟩ := apx_write_read labels atts hv hnd ha hand

/-- the identifiers the writer may be given are exactly those the reader can return -/
theorem reader_labels_are_valid (l lab : Str) (h : matchArg l = some lab) : ValidId lab := matchArg_validId l lab h

/-- UTF-8 encoding and decoding are inverse on scalar values (labels may contain non-ASCII digits) -/
theorem utf8_roundtrip (s : Str) (h : ∀ c ∈ s, Scalar c) : decodeUtf8 (encodeUtf8 s) = some s := decode_encode s h

/-- **whatever update history produced it**: for every list of update operations (accepted,
rejected, redundant; arguments and attacks removed and re-added), writing the framework the store
holds in Aspartix format — live arguments in id order, live attacks in iteration order, labels named
by any injective naming into valid identifiers — and reading the text back gives the same labels
in the same order and the same attacks in the same order (as positions in the label list) -/
theorem store_framework_roundtrip (ops : List StoreOp)
    (nameOf : Nat → Str) (hinj : ∀ a b, nameOf a = nameOf b → a = b) (hval : ∀ l, ValidId (nameOf l)) :
    let s := ops.foldl (fun s o => match s.step o with | .ok s' => s' | .err s' => s' | .panic => s) Store.empty
    let labels := s.liveArgs.map (fun p => nameOf p.2)
    let lab := fun i => nameOf ((s.labelOf i).getD 0)
    let atts := s.iterAttacks.map (fun p => (lab p.1, lab p.2))
    ∃ attIdx : List (Nat × Nat),
      readApx (encodeUtf8 (writeApx labels atts)) = .ok ⟨labels, attIdx⟩ ∧
      attIdx.length = s.iterAttacks.length ∧
      (∀ k (hk : k < attIdx.length),
         ∃ a b, s.iterAttacks[k]? = some (a, b) ∧
           (s.liveArgs.map (·.1))[(attIdx[k]).1]? = some a ∧ (s.liveArgs.map (·.1))[(attIdx[k]).2]? = some b) :=
  store_write_read_fold ops nameOf hinj hval

/-- instance used by the correspondence runs: labels `a<n>` -/
theorem store_framework_roundtrip_default (ops : List StoreOp) :
    let nameOf := fun l : Nat => strOf "a" ++ natToStr l
    let s := ops.foldl (fun s o => match s.step o with | .ok s' => s' | .err s' => s' | .panic => s) Store.empty
    let labels := s.liveArgs.map (fun p => nameOf p.2)
    let lab := fun i => nameOf ((s.labelOf i).getD 0)
    let atts := s.iterAttacks.map (fun p => (lab p.1, lab p.2))
    readApx (encodeUtf8 (writeApx labels atts)) =
      .ok ⟨labels, atts.map (fun p => ((idxOf labels p.1).getD 9999, (idxOf labels p.2).getD 9999))⟩ :=
  store_write_read_driver_default ops

/-- the restriction to valid identifiers in the property is needed: a framework over `usize` labels
written as bare numerals is rejected by the Aspartix reader (numerals are not identifiers) -/
theorem numeral_labels_do_not_read_back (s : Store) (hne : s.liveArgs ≠ []) :
    let labels := s.liveArgs.map (fun p => natToStr p.2)
    let lab := fun i => natToStr ((s.labelOf i).getD 0)
    let atts := s.iterAttacks.map (fun p => (lab p.1, lab p.2))
    readApx (encodeUtf8 (writeApx labels atts)) = .error "syntax error" :=
  store_write_read_usize_rejected s hne

/-- `format!`-style substitution: every `{}` of the format takes the next argument -/
def fmtSubst : List Nat → List Str → Str
  | [], _ => []
  | [c], _ => [c]
  | a :: b :: rest, as =>
    if a = 123 ∧ b = 125 then
      match as with
      | x :: xs => x ++ fmtSubst rest xs
      | [] => fmtSubst rest []
    else a :: fmtSubst (b :: rest) as

theorem strOf_yes : strOf "YES\n" = [89, 69, 83, 10] := by decide
theorem strOf_no : strOf "NO\n" = [78, 79, 10] := by decide
theorem strOf_arg : strOf "arg(" = [97, 114, 103, 40] := by decide
theorem strOf_att : strOf "att(" = [97, 116, 116, 40] := by decide
theorem strOf_dotnl : strOf ").\n" = [41, 46, 10] := by decide

theorem intercalate_comma : ∀ (a : Str) (t : List Str),
    intercalate [44] (a :: t) = a ++ t.flatMap (fun l => 44 :: l)
  | a, [] => by simp [intercalate]
  | a, b :: t => by
    simp only [intercalate, List.flatMap_cons]
    rw [intercalate_comma b t]
    simp

/-- **the writers' formats are those of the source**: the format strings of every `write!` /
`writeln!` call of `Iccma23Writer::write_single_extension`, `AspartixWriter::write_single_extension`,
`AspartixWriter::write_framework`, `write_no_extension` and `write_acceptance_status` are regenerated
from the source on every run (in source order; the generator insists on their number); the Lean
writer model produces exactly the text obtained by substituting the labels into these formats -/
theorem writers_are_the_source_formats :
    (∀ ext : List Str, ∃ f0 f1 f2, Gen.iccmaExtFormats = [f0, f1, f2] ∧
      writeExtIccma ext = fmtSubst f0 [] ++ ext.flatMap (fun l => fmtSubst f1 [l]) ++ fmtSubst f2 []) ∧
    (∀ ext : List Str, ∃ f0 f1 f2 f3, Gen.apxExtFormats = [f0, f1, f2, f3] ∧
      writeExtApx ext = fmtSubst f0 [] ++
        (match ext with | [] => [] | a :: t => fmtSubst f1 [a] ++ t.flatMap (fun l => fmtSubst f2 [l])) ++ fmtSubst f3 []) ∧
    (∀ (labels : List Str) (atts : List (Str × Str)), ∃ g0 g1, Gen.apxFrameworkFormats = [g0, g1] ∧
      writeApx labels atts = labels.flatMap (fun l => fmtSubst g0 [l]) ++ atts.flatMap (fun p => fmtSubst g1 [p.1, p.2])) ∧
    (∃ n0, Gen.noExtensionFormats = [n0] ∧ writeNoExt = fmtSubst n0 []) ∧
    (∀ b : Bool, ∃ s0, Gen.statusFormats = [s0] ∧ writeStatus b = fmtSubst s0 [if b then Gen.statusYes else Gen.statusNo]) := by
  refine ⟨fun ext => ⟨_, _, _, rfl, ?_⟩, fun ext => ⟨_, _, _, _, rfl, ?_⟩, fun labels atts => ⟨_, _, rfl, ?_⟩, ⟨_, rfl, ?_⟩, fun b => ⟨_, rfl, ?_⟩⟩
  · simp [writeExtIccma, fmtSubst]
  · cases ext with
    | nil => simp [writeExtApx, fmtSubst, intercalate]
    | cons a t => simp [writeExtApx, fmtSubst, intercalate_comma]
  · simp [writeApx, fmtSubst, strOf_arg, strOf_att, strOf_dotnl]
  · simp [writeNoExt, fmtSubst, strOf_no]
  · cases b <;> simp [writeStatus, fmtSubst, strOf_yes, strOf_no, Gen.statusYes, Gen.statusNo]

end Crusta.C14
