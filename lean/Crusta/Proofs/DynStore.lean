import Crusta.Proofs.DynInv
import Crusta.Proofs.StoreOps3

/-! # How the attackers of an argument change under the four store updates -/

namespace Crusta.Dyn
open Crusta Crusta.Store

theorem filterMap_congr' {α β : Type} {f g : α → Option β} :
    ∀ {l : List α}, (∀ x ∈ l, f x = g x) → l.filterMap f = l.filterMap g
  | [], _ => rfl
  | a :: t, h => by
    simp only [List.filterMap_cons]
    rw [h a (by simp), filterMap_congr' (fun x hx => h x (by simp [hx]))]

theorem hasId_pushArg (s : Store) (l j : Nat) :
    (s.pushArg l).hasId j = (s.hasId j || j == s.labels.length) := by
  have := labelOf_pushArg s l j
  unfold Store.hasId
  unfold Store.labelOf at this
  rw [this]
  by_cases e : j = s.labels.length
  · simp [e]
  · simp [e]

theorem attackersOf_pushArg (s : Store) (l j : Nat) : attackersOf (s.pushArg l) j = attackersOf s j := by
  unfold attackersOf Store.iterTo
  have h1 : row (s.pushArg l).to_ j = row s.to_ j := row_pushArg s.to_ j
  rw [h1]
  rfl

theorem hasId_dropArg (s : Store) (l id j : Nat) :
    (s.dropArg l id).hasId j = (s.hasId j && !(j == id)) := by
  have := labelOf_dropArg s l id j
  unfold Store.hasId
  unfold Store.labelOf at this
  rw [this]
  by_cases e : j = id
  · simp [e]
  · simp [e]

theorem attackersOf_dropArg {s : Store} (hinv : s.Inv) {l id : Nat} (hl : s.Live id l) {j : Nat}
    (hj : j ≠ id) (hno : ¬ s.HasAtt id j) : attackersOf (s.dropArg l id) j = attackersOf s j := by
  unfold attackersOf Store.iterTo
  have h1 : row (s.dropArg l id).to_ j = row s.to_ j := by
    show row (s.to_.set id []) j = row s.to_ j
    exact row_set_ne _ _ _ _ (fun e => hj e.symm)
  rw [h1]
  congr 1
  apply filterMap_congr'
  intro k hk
  rcases (hinv.to_ok j k hk).2 with h | ⟨a, h⟩
  · rw [h, att_dropArg_none hinv hl k h]
  · rw [h]
    apply (att_dropArg hinv hl k (a, j)).2
    refine ⟨h, ?_, hj⟩
    intro e; simp only at e; subst e
    exact hno ⟨k, h⟩

theorem attackersOf_pushAtt {s : Store} (hinv : s.Inv) (a b : Nat) {j : Nat} (hj : j ≠ b) :
    attackersOf (s.pushAtt a b) j = attackersOf s j := by
  unfold attackersOf Store.iterTo
  have h1 : row (s.pushAtt a b).to_ j = row s.to_ j := by
    show row (s.to_.set b _) j = row s.to_ j
    exact row_set_ne _ _ _ _ (fun e => hj e.symm)
  rw [h1]
  congr 1
  apply filterMap_congr'
  intro k hk
  rw [att_pushAtt, if_neg]
  have := (hinv.to_ok j k hk).1
  omega

theorem attackersOf_dropAtt {s : Store} (hinv : s.Inv) {a b k pf pt : Nat} (hk : s.att k = some (a, b))
    {j : Nat} (hj : j ≠ b) : attackersOf (s.dropAtt a b k pf pt) j = attackersOf s j := by
  unfold attackersOf Store.iterTo
  have h1 : row (s.dropAtt a b k pf pt).to_ j = row s.to_ j := by
    show row (s.to_.set b _) j = row s.to_ j
    exact row_set_ne _ _ _ _ (fun e => hj e.symm)
  rw [h1]
  congr 1
  apply filterMap_congr'
  intro k' hk'
  rw [att_dropAtt, if_neg]
  intro e; subst e
  rcases (hinv.to_ok j k' hk').2 with h | ⟨a', h⟩
  · rw [h] at hk; cases hk
  · rw [h] at hk; injection hk with hk; injection hk with _ h2; exact hj h2

end Crusta.Dyn
