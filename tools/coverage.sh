#!/bin/sh
# Line coverage of /repo/src under the quick checks (harness families), to look for generator blind spots.
# Not a registered check: needs the nightly toolchain's llvm-tools; works in a scratch directory under /tmp and removes it.
set -e
S=/tmp/cov.$$
T=$(dirname $(rustc +nightly --print target-libdir))/bin
mkdir -p $S/prof
cp -r /verif/harness $S/harness && rm -rf $S/harness/target
(cd $S/harness && LLVM_PROFILE_FILE=$S/build-%p-%m.profraw CARGO_NET_OFFLINE=true RUSTFLAGS="-C instrument-coverage --cfg crustabri_verif" CARGO_TARGET_DIR=$S/target cargo +nightly build --release --offline >/dev/null 2>&1)
export VERIF_VH=$S/target/release/vh LLVM_PROFILE_FILE=$S/prof/p-%p-%m.profraw
cd /verif
for p in C01 C02 C03 C04 C05 C06 C07 C08 C09 C10 C11 C12 C13 C14 C15 C16 C17 C18 C19; do ./check $p 2>&1 | tail -1; done
unset VERIF_VH LLVM_PROFILE_FILE
$T/llvm-profdata merge -sparse $S/prof/*.profraw -o $S/all.profdata
$T/llvm-cov report $S/target/release/vh -instr-profile=$S/all.profdata --ignore-filename-regex='(\.cargo|rustc|harness|registry)' | tail -60
if [ -n "$1" ]; then $T/llvm-cov show $S/target/release/vh -instr-profile=$S/all.profdata /repo/src/$1 | grep -E "^ +[0-9]+\| +0\|"; fi
rm -rf $S
