"""Regenerates lean/Crusta/Gen/* from /repo: data the model depends on (constants, tables)."""
import os
import re


def write_if_changed(path, content):
    if os.path.exists(path) and open(path).read() == content:
        return False
    os.makedirs(os.path.dirname(path), exist_ok=True)
    open(path, "w").write(content)
    return True


def regenerate(repo, gen_dir):
    src = open(os.path.join(repo, "src/encodings/hybrid_complete_constraints_encoder.rs")).read()
    m = re.search(r"const DEFENDER_SETS_PROD_THRESHOLD: usize = ([^;]+);", src)
    if not m:
        raise RuntimeError("DEFENDER_SETS_PROD_THRESHOLD not found")
    expr = m.group(1).strip()
    mm = re.fullmatch(r"1 << (\d+)", expr)
    if mm:
        thr = 1 << int(mm.group(1))
    elif re.fullmatch(r"\d+", expr):
        thr = int(expr)
    else:
        raise RuntimeError("cannot evaluate threshold expression %r" % expr)
    content = "/-! Regenerated from /repo by tools/gen_from_source.py on every run. Do not edit. -/\n\nnamespace Crusta.Gen\n\n/-- `DEFENDER_SETS_PROD_THRESHOLD` in `encodings/hybrid_complete_constraints_encoder.rs` -/\ndef hybridThreshold : Nat := %d\n\nend Crusta.Gen\n" % thr
    ch = write_if_changed(os.path.join(gen_dir, "Constants.lean"), content)
    ch2 = gen_unicode(repo, gen_dir)
    return ch or ch2


def parse_char(tok):
    tok = tok.strip()
    assert tok[0] == "'" and tok[-1] == "'", tok
    body = tok[1:-1]
    if body.startswith("\\u{"):
        return int(body[3:-1], 16)
    esc = {"\\t": 9, "\\n": 10, "\\r": 13, "\\\\": 92, "\\'": 39, "\\0": 0}
    if body in esc:
        return esc[body]
    assert len(body) == 1, body
    return ord(body)


def parse_table(path, name):
    src = open(path, encoding="utf-8").read()
    m = re.search(r"pub const %s: &'static \[\(char, char\)\] = &\[(.*?)\];" % name, src, re.S)
    if not m:
        raise RuntimeError("table %s not found in %s" % (name, path))
    ranges = []
    for a, b in re.findall(r"\(('(?:\\.[^']*|[^'\\])')\s*,\s*('(?:\\.[^']*|[^'\\])')\)", m.group(1)):
        ranges.append((parse_char(a), parse_char(b)))
    if not ranges:
        raise RuntimeError("empty table %s" % name)
    return ranges


def gen_unicode(repo, gen_dir):
    lock = open(os.path.join(repo, "Cargo.lock")).read()
    m = re.search(r'name = "regex-syntax"\nversion = "([^"]+)"', lock)
    if not m:
        raise RuntimeError("regex-syntax not in Cargo.lock")
    ver = m.group(1)
    import glob
    cands = glob.glob(os.path.expanduser("~/.cargo/registry/src/*/regex-syntax-%s/src/unicode_tables" % ver))
    if not cands:
        raise RuntimeError("vendored regex-syntax-%s not found" % ver)
    d = cands[0]
    ws = parse_table(os.path.join(d, "perl_space.rs"), "WHITE_SPACE")
    dn = parse_table(os.path.join(d, "perl_decimal.rs"), "DECIMAL_NUMBER")

    def fmt(rs):
        return "[" + ", ".join("(%d, %d)" % r for r in rs) + "]"
    content = ("/-! Regenerated from the vendored regex-syntax-%s tables (the version named by /repo/Cargo.lock)\n"
               "by tools/gen_from_source.py on every run. Do not edit. -/\n\nnamespace Crusta.Gen\n\n"
               "/-- `\\s` of the regex crate = Unicode White_Space (also `char::is_whitespace`) -/\n"
               "def whiteSpaceRanges : List (Nat × Nat) := %s\n\n"
               "/-- `\\d` of the regex crate = Unicode Decimal_Number -/\n"
               "def decimalRanges : List (Nat × Nat) := %s\n\nend Crusta.Gen\n") % (ver, fmt(ws), fmt(dn))
    return write_if_changed(os.path.join(gen_dir, "Unicode.lean"), content)
