import Crusta.Model.Cnf
import Crusta.Model.Readers

/-!
# Model of the SAT solver wrappers (`sat/buffered_sat_solver.rs`, `external_sat_solver.rs`,
`cadical_solver.rs`) and of the DIMACS exchange

* `Buffered`: the clause buffer, `n_vars` / `reserve`, the throw-away DIMACS instance (preamble +
  clauses + assumption units), and the reply parser (`parseReply`);
* `Pipe`: an abstract model of the parent / child / pipe interplay with the parent's policy as a
  parameter (wait-then-drain vs drain-then-wait);
* `CadWrap`: the assignment padding and `n_vars` of the CaDiCaL wrapper over an abstract solver.
-/

namespace Crusta.Sat
open Crusta Crusta.IO

/-! ## BufferedSatSolver -/

structure Buffered where
  nVars : Nat := 0
  clauses : List Clause := []      -- in insertion order (the text buffer, structurally)
deriving Repr

namespace Buffered

def addClause (b : Buffered) (c : Clause) : Buffered :=
  { nVars := c.foldl (fun m l => max m l.var) b.nVars, clauses := b.clauses ++ [c] }

def reserve (b : Buffered) (n : Nat) : Buffered := if n > b.nVars then { b with nVars := n } else b

/-- variables are counted over clauses, reservations **and assumptions** (after the repair of F6) -/
def withAssumptions (b : Buffered) (as : List Lit) : Buffered :=
  { b with nVars := as.foldl (fun m l => max m l.var) b.nVars }

def intStr (i : Int) : Str := strOf (toString i)

def clauseLine (c : Clause) : Str := c.flatMap (fun l => intStr l.toInt ++ [32]) ++ [48, 10]

/-- the DIMACS text handed to the external solver for one call -/
def dimacs (b : Buffered) (as : List Lit) : Str :=
  let b' := b.withAssumptions as
  strOf "p cnf " ++ natToStr b'.nVars ++ [32] ++ natToStr (b'.clauses.length + as.length) ++ [10] ++
  b'.clauses.flatMap clauseLine ++ as.flatMap (fun a => intStr a.toInt ++ strOf " 0\n")

end Buffered

inductive PReply
  | sat (m : List (Option Bool))
  | unsat
  | unknown
  | abort (why : String)
deriving Repr, DecidableEq

structure PSt where
  status : Option Bool := none
  asg : List (Option Bool)
  seen : Bool := false
  ended : Bool := false

/-- `split_ascii_whitespace`: ASCII blanks only (space, \t, \n, \x0C, \r) -/
def isAsciiWs (c : Nat) : Bool := c == 32 || c == 9 || c == 10 || c == 12 || c == 13

def splitAsciiWs (l : Str) : List Str :=
  let rec go (l : Str) (cur : Str) (acc : List Str) : List Str :=
    match l with
    | [] => (if cur.isEmpty then acc else cur.reverse :: acc).reverse
    | c :: cs => if isAsciiWs c then go cs [] (if cur.isEmpty then acc else cur.reverse :: acc) else go cs (c :: cur) acc
  go l [] []

def vTokens (nVars : Nat) (st : PSt) : List Str → Except String PSt
  | [] => .ok st
  | w :: ws =>
    match parseIsize w with
    | none => .error "not a literal"
    | some n =>
      if n == 0 then
        if st.ended then .error "multiple zeroes on value line" else vTokens nVars { st with ended := true } ws
      else
        let v := n.natAbs - 1
        if v ≥ nVars then .error "variable out of bounds"
        else vTokens nVars { st with asg := st.asg.set v (some (decide (n > 0))) } ws

def replyLine (nVars : Nat) (st : PSt) (line : Option Str) : Except String PSt :=
  match line with
  | none => .error "invalid UTF-8 in solver output"
  | some l =>
    if l == strOf "s SATISFIABLE" then
      (if st.status.isSome then .error "multiple status lines" else .ok { st with status := some true })
    else if l == strOf "s UNSATISFIABLE" then
      (if st.status.isSome then .error "multiple status lines" else .ok { st with status := some false })
    else if (strOf "v ").isPrefixOf l then
      vTokens nVars { st with seen := true } ((splitAsciiWs l).drop 1)
    else if (strOf "c ").isPrefixOf l || l == strOf "c" || l == strOf "v" || l.isEmpty then .ok st
    else .error "unexpected line"

/-- the reply parser of `BufferedSatSolver::solve_under_assumptions` (after the repair of F8) -/
def parseReply (nVars : Nat) (out : List UInt8) : PReply :=
  match foldLines (replyLine nVars) { asg := List.replicate nVars none } (lines out) with
  | .error e => .abort e
  | .ok st =>
    match st.status with
    | some true => if st.seen && st.ended then .sat st.asg else .unknown
    | some false => .unsat
    | none => .unknown

/-! ## the exchange: who waits for whom -/

namespace Pipe

inductive Policy | waitThenDrain | drainThenWait
deriving Repr, DecidableEq

/-- child still has `todo` bytes to print, `buf` bytes sit in the pipe (capacity `cap`) -/
structure St where
  todo : Nat
  buf : Nat
  exited : Bool
  reaped : Bool
deriving Repr, DecidableEq

inductive Outcome | returned | deadlock | running
deriving Repr, DecidableEq

/-- one scheduling round: the child writes as much as fits (or exits), then the parent acts
according to its policy -/
def step (pol : Policy) (cap : Nat) (s : St) : St :=
  -- child
  let s1 : St :=
    if s.exited then s
    else if s.todo == 0 then { s with exited := true }
    else
      let k := min s.todo (cap - s.buf)
      { s with todo := s.todo - k, buf := s.buf + k }
  -- parent
  match pol with
  | .waitThenDrain =>
    if s1.exited then { s1 with buf := 0, reaped := true } else s1
  | .drainThenWait =>
    if s1.exited && s1.buf == 0 then { s1 with reaped := true } else { s1 with buf := 0 }

def run (pol : Policy) (cap : Nat) : Nat → St → Outcome
  | 0, _ => .running
  | fuel + 1, s =>
    if s.reaped then .returned
    else if step pol cap s == s then .deadlock else run pol cap fuel (step pol cap s)

def start (out : Nat) : St := ⟨out, 0, false, false⟩

end Pipe

/-! ## CadicalSolver wrapper -/

/-- assignment handed back: the solver's values for `1..maxVar`, padded with `None` up to the
reservation -/
def cadModel (values : List (Option Bool)) (maxVar reserved : Nat) : List (Option Bool) :=
  (values.take maxVar ++ List.replicate (maxVar - values.length) none) ++ List.replicate (reserved - maxVar) none

def cadNVars (maxVar reserved : Nat) : Nat := max maxVar reserved

end Crusta.Sat
