#!/usr/bin/env python3
"""For every seeded defect: apply its patch to /repo, run the checks that detect it, keep (a few of) the failing
case lines as corpus/<Cxx>/<seed-id>.case, revert /repo.  The corpus runs first in every check, so every seeded
defect is re-detected through its own input independently of the random generators.  Maintenance tool, not a check."""
import glob, json, os, subprocess, sys, shutil

V = "/verif"
only = sys.argv[1:]
for d in sorted(glob.glob(V + "/seeded/*")):
    sid = os.path.basename(d)
    if only and sid not in only:
        continue
    meta = json.load(open(d + "/meta.json"))
    props = []
    for l in meta.get("run_log", []):
        if l.startswith("checks"):
            for t in l.split(":", 1)[1].split():
                p, rc, viol = t.split(":")
                if viol != "viol=0":
                    props.append(p)
    if meta.get("retest_after_strengthening"):
        props.append(meta["breaks_property"])
    props = sorted(set(props))
    if not props:
        continue
    if subprocess.run(["git", "-C", "/repo", "apply", d + "/patch.diff"]).returncode != 0:
        print(sid, "patch does not apply"); continue
    try:
        for p in props:
            shutil.rmtree(V + "/replays", ignore_errors=True)
            subprocess.run(["./check", p], cwd=V, stdout=subprocess.DEVNULL, stderr=subprocess.DEVNULL, env=dict(os.environ, VERIF_NO_SHRINK="1"))
            cases, seen = [], set()
            for f in sorted(glob.glob(V + "/replays/%s-*.json" % p)):
                r = json.load(open(f))
                for c in r.get("cases", []):
                    body = " ".join(c.split(" ")[2:])
                    c = " ".join(t for t in c.split(" ") if not t.startswith("cap=/"))   # capture directories are per run
                    if c and body not in seen and len(c) < 4000 and "replies=" not in c:
                        seen.add(body)
                        cases.append((0 if r.get("kind") == "input" else 1, c, r.get("signature", "")))
            cases.sort()
            cases = cases[:3]
            if cases:
                os.makedirs(V + "/corpus/" + p, exist_ok=True)
                with open(V + "/corpus/%s/%s.case" % (p, sid), "w") as o:
                    o.write("# failing inputs of the seeded defect %s (seeded/%s), found by ./check %s with the patch applied\n" % (sid, sid, p))
                    for _, c, sig in cases:
                        o.write("# %s\n%s\n" % (sig, c))
            print(sid, p, len(cases), flush=True)
    finally:
        subprocess.run(["git", "-C", "/repo", "checkout", "--", "."])
