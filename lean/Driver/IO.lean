import Crusta.Model.Cli
import Driver.Util
import Crusta.Model.Readers
import Crusta.Model.Store

/-! Driver side of the reader / writer families (C13, C14). -/

namespace Driver
open Crusta Crusta.IO

def hexVal (c : Char) : Nat :=
  if '0' ≤ c && c ≤ '9' then c.toNat - 48 else if 'a' ≤ c && c ≤ 'f' then c.toNat - 87
  else if 'A' ≤ c && c ≤ 'F' then c.toNat - 55 else 0

def unhex (s : String) : List UInt8 :=
  let rec go : List Char → List UInt8
    | a :: b :: rest => (hexVal a * 16 + hexVal b).toUInt8 :: go rest
    | _ => []
  go s.toList

def hexDigit (n : Nat) : Char := if n < 10 then Char.ofNat (48 + n) else Char.ofNat (87 + n)

def hexOf (bs : List UInt8) : String :=
  String.ofList (bs.flatMap (fun b => [hexDigit (b.toNat / 16), hexDigit (b.toNat % 16)]))

def hexStr (s : Str) : String := hexOf (encodeUtf8 s)

def attsStr (l : List (Nat × Nat)) : String := ",".intercalate (l.map (fun p => s!"{p.1}>{p.2}"))

def runRead (lines : List String) : List String := Id.run do
  let inl := (lines.find? (fun l => l.startsWith "in ")).getD ""
  let ts := toks inl
  let bytes := unhex (kvGetD ts "hex" "")
  let fmt := kvGetD ts "fmt" ""
  let args := match kvGet ts "args" with
    | some a => (a.splitOn "/").map unhex
    | none => []
  let mut out : List String := []
  if fmt == "prob" then
    match decodeUtf8 bytes with
    | some s =>
      match Crusta.Cli.readProblem s with
      | some (t, σ) => out := s!"P ok {Crusta.Cli.taskName t} {Crusta.Cli.semName σ}" :: out
      | none => out := "P err" :: out
    | none => out := "P skip" :: out
  else if fmt == "iccma" then
    match readIccma bytes with
    | .ok af =>
      out := s!"R ok n={af.n} labels={",".intercalate ((List.range af.n).map (fun i => toString (i + 1)))} atts={attsStr af.atts}" :: out
      for a in args do
        match decodeUtf8 a with
        | some s => match iccmaArgOfStr af.n s with
          | some i => out := s!"A {hexOf a} {i}" :: out
          | none => out := s!"A {hexOf a} err" :: out
        | none => out := s!"A {hexOf a} skip" :: out
    | .error _ => out := "R err" :: out
  else
    match readApx bytes with
    | .ok af =>
      out := s!"R ok n={af.labels.length} labels={",".intercalate (af.labels.map hexStr)} atts={attsStr af.atts}" :: out
      for a in args do
        match decodeUtf8 a with
        | some s => match idxOf af.labels s with
          | some i => out := s!"A {hexOf a} {i}" :: out
          | none => out := s!"A {hexOf a} err" :: out
        | none => out := s!"A {hexOf a} skip" :: out
    | .error _ => out := "R err" :: out
  return out.reverse

def runWrite (lines : List String) : List String := Id.run do
  let inl := (lines.find? (fun l => l.startsWith "in ")).getD ""
  let ts := toks inl
  let ops := opsOf (kvGetD ts "ops" "")
  let names : List (Nat × Str) := ((kvGetD ts "names" "").splitOn ",").filterMap (fun t =>
    match t.splitOn ":" with
    | [k, h] => match k.toNat? with
      | some kk => (decodeUtf8 (unhex h)).map (fun s => (kk, s))
      | none => none
    | _ => none)
  let nameOf (l : Nat) : Str := match names.find? (fun p => p.1 == l) with
    | some p => p.2 | none => strOf s!"a{l}"
  let s := ops.foldl (fun s o => match s.step o with | .ok s' => s' | .err s' => s' | .panic => s) Store.empty
  let lab (i : Nat) : Str := nameOf ((s.labelOf i).getD 0)
  let labels := s.liveArgs.map (fun p => nameOf p.2)
  let atts := s.iterAttacks.map (fun p => (lab p.1, lab p.2))
  let mut out : List String := []
  out := s!"F labels={",".intercalate (labels.map hexStr)} atts={",".intercalate (atts.map (fun p => s!"{hexStr p.1}>{hexStr p.2}"))}" :: out
  let text := writeApx labels atts
  let bytes := encodeUtf8 text
  out := s!"W apx {hexOf bytes}" :: out
  match readApx bytes with
  | .ok af => out := s!"B ok n={af.labels.length} labels={",".intercalate (af.labels.map hexStr)} atts={attsStr af.atts}" :: out
  | .error _ => out := "B err" :: out
  let extLabels := (natList (kvGetD ts "ext" "-")).filter (fun l => (s.getArg l).isSome)
  let extS := extLabels.map nameOf
  let extU := extLabels.map natToStr
  out := s!"X labels={",".intercalate (extS.map hexStr)} ulabels={",".intercalate (extLabels.map toString)}" :: out
  out := s!"W extapx {hexOf (encodeUtf8 (writeExtApx extS))}" :: out
  out := s!"W exticcma {hexOf (encodeUtf8 (writeExtIccma extU))}" :: out
  for (tag, st) in [("yes", true), ("no", false)] do
    out := s!"W apx{tag} {hexOf (encodeUtf8 (writeStatus st))}" :: out
    out := s!"W iccma{tag} {hexOf (encodeUtf8 (writeStatus st))}" :: out
  out := s!"W apxnoext {hexOf (encodeUtf8 writeNoExt)}" :: out
  out := s!"W iccmanoext {hexOf (encodeUtf8 writeNoExt)}" :: out
  -- round-trip verdicts on the model side (C14): read back = what was written
  let mut verdict := "ok"
  match readApx bytes with
  | .ok af =>
    let attIdx := atts.map (fun p => ((idxOf labels p.1).getD 9999, (idxOf labels p.2).getD 9999))
    if af.labels != labels then verdict := "BAD labels differ after write/read"
    else if af.atts != attIdx then verdict := "BAD attacks differ after write/read"
  | .error _ => verdict := "BAD written framework is rejected by the reader"
  if parseExtApx (writeExtApx extS) != some extS then verdict := "BAD Aspartix extension does not parse back"
  if parseExtIccma (writeExtIccma extU) != some extU then verdict := "BAD ICCMA extension does not parse back"
  out := s!"verdict {verdict}" :: out
  return out.reverse

end Driver
