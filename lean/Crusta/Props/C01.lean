import Crusta.Proofs.Oracle
import Crusta.Proofs.StaticAll
import Crusta.Proofs.StoreIccma
import Crusta.Proofs.StaticNodup

/-! # C01 — single-extension answers are genuine extensions (property theorems) -/

namespace Crusta.C01
open Crusta

/-- The judge applied to every single-extension answer of the real solvers accepts exactly:
a duplicate-free list that is an extension under the textbook definition, or "no extension"
when the framework has none. For all frameworks and all seven semantics. -/
theorem se_judge_exact (af : AF) (hwf : af.WF) (σ : Sem) (cert : Bool) (args : List Nat)
    (e : Option (List Nat)) :
    checkAnswer af ⟨σ, .SE, cert, args⟩ (.se e) = .ok () ↔
      match e with
      | some l => l.Nodup ∧ σ.Ext af (ofList l)
      | none => ¬ ∃ S, σ.Ext af S := by
  rw [checkAnswer_iff af hwf]
  cases e <;> simp [Conforms]

/-- the reference decider of each semantics is exact -/
theorem decider_exact (σ : Sem) (af : AF) (hwf : af.WF) (l : List Nat) :
    σ.extB af l = true ↔ σ.Ext af (ofList l) := extB_iff σ af hwf l

/-- the reference enumeration contains every extension (so "NO" is justified only when empty) -/
theorem enumeration_complete (σ : Sem) (af : AF) (hwf : af.WF) (S : ASet) (hS : σ.Ext af S) :
    ∃ l ∈ σ.exts af, ofList l = S := by
  obtain ⟨l, hl, rfl⟩ := exists_list_of_sub af S (ext_sub σ hS)
  exact ⟨l, (mem_exts_iff σ af hwf l).2 ⟨hl, hS⟩, rfl⟩


/-- **C01 on the solver programs** (model `Crusta.entryProg`, tied to the implementation by the
call-by-call trace correspondence of the `solve` family): for each of the seven solver types, every
view presenting a graph `g` (compact or with removed arguments), every encoder the solver type is
meant for (`CfgOK`), every world and every run on replies a correct SAT solver may give: a returned
extension is an extension of `g` under the solver's semantics, and "no extension" is returned only
if there is none. -/
theorem se_answers_are_extensions (sk : SolverKind) (cfg : Cfg) (hcfg : CfgOK sk cfg) (v : FwView) (g : G) (hv : v.Ok g)
    (p : Prog Ans) (hp : entryProg sk cfg v .se = some p) (w : World) (hb : w.Bounded) (rs : List Reply)
    (hs : RunSound p rs w) (res : Option (List Nat)) (w' : World) (hrun : interp p rs w = (.done (.ext res), w')) :
    (∀ e, res = some e → sk.sem.GExt g (ofList e)) ∧ (res = none → ¬ ∃ S, sk.sem.GExt g S) :=
  static_answers_conform sk cfg hcfg v g hv .se (fun _ h => by simp [Entry.argsList] at h) p hp w hb rs hs _ w' hrun

/-- on compact frameworks these are the textbook semantics of the spec layer -/
theorem semantics_compact (σ : Sem) (af : AF) (S : ASet) : σ.GExt af.g S ↔ σ.Ext af S := gext_compact σ af S

/-- the grounded extension algorithm and the connected-components algorithm underlying all SE
answers are exact (for every view presenting a graph) -/
theorem graph_algorithms_exact (v : FwView) (g : G) (h : v.Ok g) :
    g.Grounded (ofList (groundedV v)) ∧
    (∀ oc ∈ allComps v, ∃ c, oc = some c ∧ GoodComp g c ∧ c.ids ≠ []) ∧
    (∀ a, g.live a = true → ∃ c, some c ∈ allComps v ∧ a ∈ c.ids) :=
  ⟨(groundedV_spec v g h).1, (allComps_spec v g h).1, (allComps_spec v g h).2.2⟩

/-- the three ways a framework reaches a solver all present a graph (hypothesis `v.Ok g` of the
theorems above): a compact well-formed framework; a store reached by any update history; the store
built by the ICCMA'23 reader, repeated attack lines included — and then the graph is the declared one -/
theorem views_present_their_graph :
    (∀ (af : AF), af.WF → af.view.Ok af.g) ∧
    (∀ ops : List StoreOp, ∃ s, Store.runOps Store.empty ops = some s ∧ s.view.Ok s.g) ∧
    (∀ (n : Nat) (atts : List (Nat × Nat)), (∀ p ∈ atts, p.1 < n ∧ p.2 < n) →
      (Store.ofIccma n atts).view.Ok (Store.ofIccma n atts).g ∧
      (∀ a, (Store.ofIccma n atts).hasId a = true ↔ a < n) ∧
      (∀ a b, (Store.ofIccma n atts).HasAtt a b ↔ (a, b) ∈ atts)) := by
  refine ⟨AF.view_ok, fun ops => ?_, fun n atts h => ⟨Store.ofIccma_view_ok n atts h, Store.ofIccma_g n atts h⟩⟩
  obtain ⟨s, hs, hinv, hrows⟩ := Store.rows_reachable ops
  exact ⟨s, hs, Store.view_ok s hinv hrows⟩

/-- every list a static solver returns — extension or certificate — is duplicate-free (this does
not even depend on the SAT solver's replies) -/
theorem returned_lists_are_duplicate_free (sk : SolverKind) (cfg : Cfg) (v : FwView) (g : G) (hv : v.Ok g)
    (e : Entry) (hargs : ∀ a, a ∈ e.argsList → g.live a = true) (p : Prog Ans)
    (hp : entryProg sk cfg v e = some p) (w : World) (rs : List Reply) (ans : Ans) (w' : World)
    (hs : RunSound p rs w) (hrun : interp p rs w = (.done ans, w')) : AnsNodup ans :=
  static_answers_nodup_run sk cfg v g hv e hargs p hp w rs hs ans w' hrun

/-- **theorem and judge agree**: on a compact well-formed framework every answer the solver
programs can return on sound replies is accepted by the run-time judge `checkAnswer` (so on the
unchanged tree a `verdict BAD` can only come from a difference between model and implementation) -/
theorem answers_accepted_by_judge (sk : SolverKind) (cfg : Cfg) (hcfg : CfgOK sk cfg) (af : AF) (hwf : af.WF)
    (e : Entry) (hargs : ∀ a, a ∈ e.argsList → af.g.live a = true) (p : Prog Ans)
    (hp : entryProg sk cfg af.view e = some p) (w : World) (hb : w.Bounded) (rs : List Reply)
    (hs : RunSound p rs w) (ans : Ans) (w' : World) (hrun : interp p rs w = (.done ans, w')) :
    checkAnswer af (queryOf sk e) (answerOf ans) = .ok () :=
  static_answers_accepted_by_judge sk cfg hcfg af hwf e hargs p hp w hb rs hs ans w' hrun

end Crusta.C01
