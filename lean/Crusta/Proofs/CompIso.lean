import Crusta.Proofs.GSem2
import Crusta.Proofs.Decomp
import Crusta.Model.Solvers

/-!
# A good component is, up to renumbering by position, the restricted graph

For `GoodComp g c`, the map `i ↦ c.ids[i]` is a bijection between the positions `{i < c.af.n}` and
the members of `c.ids`, with inverse `c.pos`, and it carries the attacks of `c.af` onto the attacks
of `g.restrict c.memB`.  Sets of positions and sets of original ids correspond through `Comp.up` /
`Comp.down`, and all nine semantics are transferred.
-/

namespace Crusta

/-- membership in the component as a predicate -/
def Comp.memB (c : Comp) : Nat → Bool := fun a => c.ids.contains a
/-- a set of positions seen as a set of original ids -/
def Comp.up (c : Comp) (T : ASet) : ASet := fun a => match c.pos a with | some i => T i | none => false
/-- a set of original ids seen as a set of positions -/
def Comp.down (c : Comp) (S : ASet) : ASet := fun i => match c.ids[i]? with | some a => S a | none => false

section
variable {g : G} {c : Comp}

/-! ## positions -/

theorem Comp.memB_true (c : Comp) (a : Nat) : c.memB a = true ↔ a ∈ c.ids := by
  simp [Comp.memB]

theorem Comp.get_of_pos {a i : Nat} (h : c.pos a = some i) : c.ids[i]? = some a := by
  unfold Comp.pos posOf at h
  rw [List.findIdx?_eq_some_iff_getElem] at h
  obtain ⟨hi, hp, _⟩ := h
  rw [List.getElem?_eq_getElem hi]
  simpa using hp

theorem Comp.pos_of_get (hc : GoodComp g c) {a i : Nat} (h : c.ids[i]? = some a) : c.pos a = some i := by
  obtain ⟨hi, hia⟩ := List.getElem?_eq_some_iff.1 h
  unfold Comp.pos posOf
  rw [List.findIdx?_eq_some_iff_getElem]
  refine ⟨hi, by simp [hia], ?_⟩
  intro j hji
  have hj : j < c.ids.length := by omega
  intro hp
  have hja : c.ids[j] = a := by simpa using hp
  have := (List.getElem?_inj (i := j) (j := i) hj hc.nodup).1
    (by rw [List.getElem?_eq_getElem hj, List.getElem?_eq_getElem hi, hja, hia])
  omega

theorem Comp.pos_none {a : Nat} (h : a ∉ c.ids) : c.pos a = none := by
  unfold Comp.pos posOf
  rw [List.findIdx?_eq_none_iff]
  intro x hx
  have hne : x ≠ a := fun e => h (e ▸ hx)
  simpa using hne

theorem Comp.exists_get {a : Nat} (h : a ∈ c.ids) : ∃ i : Nat, c.ids[i]? = some a :=
  List.mem_iff_getElem?.1 h

theorem Comp.mem_of_get {a i : Nat} (h : c.ids[i]? = some a) : a ∈ c.ids :=
  List.mem_of_getElem? h

theorem Comp.lt_of_get (hc : GoodComp g c) {a i : Nat} (h : c.ids[i]? = some a) : i < c.af.n := by
  rw [hc.n_eq]; exact (List.getElem?_eq_some_iff.1 h).1

theorem Comp.get_of_lt (hc : GoodComp g c) {i : Nat} (h : i < c.af.n) : ∃ a, c.ids[i]? = some a := by
  rw [hc.n_eq] at h
  exact ⟨c.ids[i], List.getElem?_eq_getElem h⟩

theorem Comp.get_inj (hc : GoodComp g c) {a i j : Nat} (hi : c.ids[i]? = some a) (hj : c.ids[j]? = some a) :
    i = j := by
  have h1 := Comp.pos_of_get hc hi
  have h2 := Comp.pos_of_get hc hj
  rw [h1] at h2; exact Option.some.inj h2

/-! ## `up` and `down` -/

theorem Comp.up_get (hc : GoodComp g c) (T : ASet) {a i : Nat} (h : c.ids[i]? = some a) : c.up T a = T i := by
  simp [Comp.up, Comp.pos_of_get hc h]

theorem Comp.down_get (S : ASet) {a i : Nat} (h : c.ids[i]? = some a) : c.down S i = S a := by
  simp [Comp.down, h]

theorem Comp.up_sub (hc : GoodComp g c) (T : ASet) : ∀ a, c.up T a = true → a ∈ c.ids := by
  intro a ha
  have _ := hc
  by_cases hm : a ∈ c.ids
  · exact hm
  · simp [Comp.up, Comp.pos_none hm] at ha

theorem Comp.up_true (hc : GoodComp g c) (T : ASet) (a : Nat) :
    c.up T a = true ↔ ∃ i, c.ids[i]? = some a ∧ T i = true := by
  constructor
  · intro h
    obtain ⟨i, hi⟩ := Comp.exists_get (Comp.up_sub hc T a h)
    exact ⟨i, hi, by rw [← Comp.up_get hc T hi]; exact h⟩
  · rintro ⟨i, hi, hT⟩
    rw [Comp.up_get hc T hi]; exact hT

theorem Comp.down_sub (hc : GoodComp g c) (S : ASet) : Sub c.af (c.down S) := by
  intro i hi
  cases h : c.ids[i]? with
  | none => simp [Comp.down, h] at hi
  | some a => exact Comp.lt_of_get hc h

theorem Comp.up_down (hc : GoodComp g c) (S : ASet) (hS : ∀ a, S a = true → a ∈ c.ids) :
    c.up (c.down S) = S := by
  funext a
  by_cases hm : a ∈ c.ids
  · obtain ⟨i, hi⟩ := Comp.exists_get hm
    rw [Comp.up_get hc _ hi, Comp.down_get S hi]
  · have h1 : c.up (c.down S) a = false := by simp [Comp.up, Comp.pos_none hm]
    rw [h1]
    cases h : S a with
    | false => rfl
    | true => exact absurd (hS a h) hm

theorem Comp.down_up (hc : GoodComp g c) (T : ASet) (hT : Sub c.af T) : c.down (c.up T) = T := by
  funext i
  cases h : c.ids[i]? with
  | some a => rw [Comp.down_get _ h, Comp.up_get hc T h]
  | none =>
    have h1 : c.down (c.up T) i = false := by simp [Comp.down, h]
    rw [h1]
    cases hTi : T i with
    | false => rfl
    | true =>
      obtain ⟨a, ha⟩ := Comp.get_of_lt hc (hT i hTi)
      rw [h] at ha; cases ha

/-- every set of the restricted graph comes from a set of positions -/
theorem Comp.exists_down (hc : GoodComp g c) (S : ASet) (hS : ∀ a, S a = true → a ∈ c.ids) :
    ∃ T, Sub c.af T ∧ c.up T = S :=
  ⟨c.down S, Comp.down_sub hc S, Comp.up_down hc S hS⟩

theorem Comp.back_mem (hc : GoodComp g c) (e : List Nat) : ∀ a ∈ c.back e, a ∈ c.ids := by
  intro a ha
  have _ := hc
  unfold Comp.back at ha
  obtain ⟨i, _, hi⟩ := List.mem_filterMap.1 ha
  exact Comp.mem_of_get hi

theorem Comp.ofList_back (hc : GoodComp g c) (e : List Nat) (he : ∀ i ∈ e, i < c.af.n) :
    ofList (c.back e) = c.up (ofList e) := by
  have _ := he
  funext a
  rw [Bool.eq_iff_iff, Comp.up_true hc]
  simp only [ofList, List.contains_iff_mem, Comp.back, List.mem_filterMap]
  constructor
  · rintro ⟨i, hie, hi⟩; exact ⟨i, hi, hie⟩
  · rintro ⟨i, hi, hie⟩; exact ⟨i, hie, hi⟩

theorem Comp.af_wf (hc : GoodComp g c) : c.af.WF := by
  rintro ⟨i, j⟩ hp
  obtain ⟨a, b, ha, hb, _⟩ := (hc.atts i j).1 hp
  exact ⟨Comp.lt_of_get hc ha, Comp.lt_of_get hc hb⟩

/-! ## attacks -/

theorem Comp.live_restrict (hc : GoodComp g c) (a : Nat) : (g.restrict c.memB).live a = true ↔ a ∈ c.ids := by
  simp only [G.restrict, Bool.and_eq_true, Comp.memB_true]
  exact ⟨fun h => h.2, fun h => ⟨hc.live a h, h⟩⟩

theorem Comp.att_mem {a b : Nat} (h : (g.restrict c.memB).att a b) : a ∈ c.ids ∧ b ∈ c.ids :=
  ⟨(c.memB_true a).1 h.2.1, (c.memB_true b).1 h.2.2⟩

theorem Comp.att_iff (hc : GoodComp g c) {i j a b : Nat} (hi : c.ids[i]? = some a) (hj : c.ids[j]? = some b) :
    (i, j) ∈ c.af.atts ↔ (g.restrict c.memB).att a b := by
  constructor
  · intro h
    obtain ⟨a', b', ha', hb', hab⟩ := (hc.atts i j).1 h
    rw [hi] at ha'; rw [hj] at hb'; cases ha'; cases hb'
    exact ⟨hab, (c.memB_true a).2 (Comp.mem_of_get hi), (c.memB_true b).2 (Comp.mem_of_get hj)⟩
  · rintro ⟨hab, _, _⟩
    exact (hc.atts i j).2 ⟨a, b, hi, hj, hab⟩

theorem Comp.attackedBy_iff (hc : GoodComp g c) (T : ASet) {i a : Nat} (hi : c.ids[i]? = some a) :
    AttackedBy c.af T i ↔ (g.restrict c.memB).AttackedBy (c.up T) a := by
  constructor
  · rintro ⟨j, hji, hTj⟩
    obtain ⟨b, _, hb, _, _⟩ := (hc.atts j i).1 hji
    exact ⟨b, (Comp.att_iff hc hb hi).1 hji, by rw [Comp.up_get hc T hb]; exact hTj⟩
  · rintro ⟨b, hba, hb⟩
    obtain ⟨j, hj, hTj⟩ := (Comp.up_true hc T b).1 hb
    exact ⟨j, (Comp.att_iff hc hj hi).2 hba, hTj⟩

theorem Comp.defended_iff (hc : GoodComp g c) (T : ASet) {i a : Nat} (hi : c.ids[i]? = some a) :
    Defended c.af T i ↔ (g.restrict c.memB).Defended (c.up T) a := by
  constructor
  · intro h b hba
    obtain ⟨j, hj⟩ := Comp.exists_get (Comp.att_mem hba).1
    exact (Comp.attackedBy_iff hc T hj).1 (h j ((Comp.att_iff hc hj hi).2 hba))
  · intro h j hji
    obtain ⟨b, _, hb, _, _⟩ := (hc.atts j i).1 hji
    exact (Comp.attackedBy_iff hc T hb).2 (h b ((Comp.att_iff hc hb hi).1 hji))

theorem Comp.inRange_iff (hc : GoodComp g c) (T : ASet) {i a : Nat} (hi : c.ids[i]? = some a) :
    InRange c.af T i ↔ (g.restrict c.memB).InRange (c.up T) a := by
  unfold InRange G.InRange
  rw [Comp.up_get hc T hi, Comp.attackedBy_iff hc T hi]

/-! ## the four local semantics -/

theorem Comp.cf_iff (hc : GoodComp g c) (T : ASet) (hT : Sub c.af T) :
    ConflictFree c.af T ↔ (g.restrict c.memB).CF (c.up T) := by
  constructor
  · rintro ⟨_, h⟩
    refine ⟨fun a ha => (Comp.live_restrict hc a).2 (Comp.up_sub hc T a ha), fun a ha hatt => ?_⟩
    obtain ⟨i, hi, hTi⟩ := (Comp.up_true hc T a).1 ha
    exact h i hTi ((Comp.attackedBy_iff hc T hi).2 hatt)
  · rintro ⟨_, h⟩
    refine ⟨hT, fun i hTi hatt => ?_⟩
    obtain ⟨a, ha⟩ := Comp.get_of_lt hc (hT i hTi)
    exact h a (by rw [Comp.up_get hc T ha]; exact hTi) ((Comp.attackedBy_iff hc T ha).1 hatt)

theorem Comp.adm_iff (hc : GoodComp g c) (T : ASet) (hT : Sub c.af T) :
    Admissible c.af T ↔ (g.restrict c.memB).Admissible (c.up T) := by
  unfold Admissible G.Admissible
  rw [Comp.cf_iff hc T hT]
  constructor
  · rintro ⟨h1, h2⟩
    refine ⟨h1, fun a ha => ?_⟩
    obtain ⟨i, hi, hTi⟩ := (Comp.up_true hc T a).1 ha
    exact (Comp.defended_iff hc T hi).1 (h2 i hTi)
  · rintro ⟨h1, h2⟩
    refine ⟨h1, fun i hTi => ?_⟩
    obtain ⟨a, ha⟩ := Comp.get_of_lt hc (hT i hTi)
    exact (Comp.defended_iff hc T ha).2 (h2 a (by rw [Comp.up_get hc T ha]; exact hTi))

theorem Comp.complete_iff (hc : GoodComp g c) (T : ASet) (hT : Sub c.af T) :
    Complete c.af T ↔ (g.restrict c.memB).Complete (c.up T) := by
  unfold Complete G.Complete
  rw [Comp.adm_iff hc T hT]
  constructor
  · rintro ⟨h1, h2⟩
    refine ⟨h1, fun a hl hd => ?_⟩
    obtain ⟨i, hi⟩ := Comp.exists_get ((Comp.live_restrict hc a).1 hl)
    rw [Comp.up_get hc T hi]
    exact h2 i (Comp.lt_of_get hc hi) ((Comp.defended_iff hc T hi).2 hd)
  · rintro ⟨h1, h2⟩
    refine ⟨h1, fun i hi hd => ?_⟩
    obtain ⟨a, ha⟩ := Comp.get_of_lt hc hi
    rw [← Comp.up_get hc T ha]
    exact h2 a ((Comp.live_restrict hc a).2 (Comp.mem_of_get ha)) ((Comp.defended_iff hc T ha).1 hd)

theorem Comp.stable_iff (hc : GoodComp g c) (T : ASet) (hT : Sub c.af T) :
    Stable c.af T ↔ (g.restrict c.memB).Stable (c.up T) := by
  unfold Stable G.Stable
  rw [Comp.cf_iff hc T hT]
  constructor
  · rintro ⟨h1, h2⟩
    refine ⟨h1, fun a hl hn => ?_⟩
    obtain ⟨i, hi⟩ := Comp.exists_get ((Comp.live_restrict hc a).1 hl)
    rw [Comp.up_get hc T hi] at hn
    exact (Comp.attackedBy_iff hc T hi).1 (h2 i (Comp.lt_of_get hc hi) hn)
  · rintro ⟨h1, h2⟩
    refine ⟨h1, fun i hi hn => ?_⟩
    obtain ⟨a, ha⟩ := Comp.get_of_lt hc hi
    rw [← Comp.up_get hc T ha] at hn
    exact (Comp.attackedBy_iff hc T ha).2 (h2 a ((Comp.live_restrict hc a).2 (Comp.mem_of_get ha)) hn)

/-! ## relations between sets -/

theorem Comp.subsetS_iff (hc : GoodComp g c) (S T : ASet) (hS : Sub c.af S) :
    SubsetS S T ↔ SubsetS (c.up S) (c.up T) := by
  constructor
  · intro h a ha
    obtain ⟨i, hi, hSi⟩ := (Comp.up_true hc S a).1 ha
    rw [Comp.up_get hc T hi]; exact h i hSi
  · intro h i hSi
    obtain ⟨a, ha⟩ := Comp.get_of_lt hc (hS i hSi)
    rw [← Comp.up_get hc T ha]
    exact h a (by rw [Comp.up_get hc S ha]; exact hSi)

theorem Comp.rangeSub_iff (hc : GoodComp g c) (S T : ASet) (hS : Sub c.af S) :
    RangeSub c.af S T ↔ (g.restrict c.memB).RangeSub (c.up S) (c.up T) := by
  constructor
  · intro h a ha
    have hm : a ∈ c.ids := by
      rcases ha with ha | ⟨b, hba, _⟩
      · exact Comp.up_sub hc S a ha
      · exact (Comp.att_mem hba).2
    obtain ⟨i, hi⟩ := Comp.exists_get hm
    exact (Comp.inRange_iff hc T hi).1 (h i ((Comp.inRange_iff hc S hi).2 ha))
  · intro h i hi
    have hlt : i < c.af.n := by
      rcases hi with hi | ⟨j, hji, _⟩
      · exact hS i hi
      · exact (Comp.af_wf hc _ hji).2
    obtain ⟨a, ha⟩ := Comp.get_of_lt hc hlt
    exact (Comp.inRange_iff hc T ha).2 (h a ((Comp.inRange_iff hc S ha).1 hi))

/-! ## generic transfer of a predicate on sets along `up` / `down` -/

/-- `P` (on sets of positions) and `P'` (on sets of original ids) correspond through `up`; both
only hold of sets inside their universe -/
structure Comp.Transfer (c : Comp) (P P' : ASet → Prop) : Prop where
  sub : ∀ T, P T → Sub c.af T
  sub' : ∀ S, P' S → ∀ a, S a = true → a ∈ c.ids
  iff : ∀ T, Sub c.af T → (P T ↔ P' (c.up T))

variable {P P' Q Q' : ASet → Prop}

/-- universal quantification over the sets satisfying a transferred predicate -/
theorem Comp.forall_iff (hc : GoodComp g c) (tr : c.Transfer P P') (R : ASet → Prop) :
    (∀ T, P T → R (c.up T)) ↔ (∀ S, P' S → R S) := by
  constructor
  · intro h S hS
    obtain ⟨T, hT, rfl⟩ := Comp.exists_down hc S (tr.sub' S hS)
    exact h T ((tr.iff T hT).2 hS)
  · intro h T hT
    exact h _ ((tr.iff T (tr.sub T hT)).1 hT)

/-- existential quantification over the sets satisfying a transferred predicate -/
theorem Comp.exists_iff (hc : GoodComp g c) (tr : c.Transfer P P') (R : ASet → Prop) :
    (∃ T, P T ∧ R (c.up T)) ↔ (∃ S, P' S ∧ R S) := by
  constructor
  · rintro ⟨T, hT, hR⟩
    exact ⟨c.up T, (tr.iff T (tr.sub T hT)).1 hT, hR⟩
  · rintro ⟨S, hS, hR⟩
    obtain ⟨T, hT, rfl⟩ := Comp.exists_down hc S (tr.sub' S hS)
    exact ⟨T, (tr.iff T hT).2 hS, hR⟩

/-- credulous acceptance of position `i` ↔ of the original id at that position -/
theorem Comp.cred_iff (hc : GoodComp g c) (tr : c.Transfer P P') {i a : Nat} (hi : c.ids[i]? = some a) :
    (∃ T, P T ∧ T i = true) ↔ (∃ S, P' S ∧ S a = true) := by
  rw [← Comp.exists_iff hc tr (fun S => S a = true)]
  simp only [Comp.up_get hc _ hi]

/-- skeptical acceptance of position `i` ↔ of the original id at that position -/
theorem Comp.skep_iff (hc : GoodComp g c) (tr : c.Transfer P P') {i a : Nat} (hi : c.ids[i]? = some a) :
    (∀ T, P T → T i = true) ↔ (∀ S, P' S → S a = true) := by
  rw [← Comp.forall_iff hc tr (fun S => S a = true)]
  simp only [Comp.up_get hc _ hi]

/-- `P`-sets below (w.r.t. a transferred relation) every `Q`-set -/
theorem Comp.transfer_all (hc : GoodComp g c) (trP : c.Transfer P P') (trQ : c.Transfer Q Q')
    {Rel Rel' : ASet → ASet → Prop}
    (hRel : ∀ S T, Sub c.af S → Sub c.af T → (Rel S T ↔ Rel' (c.up S) (c.up T))) :
    c.Transfer (fun T => P T ∧ ∀ U, Q U → Rel T U) (fun S => P' S ∧ ∀ U, Q' U → Rel' S U) where
  sub := fun T h => trP.sub T h.1
  sub' := fun S h => trP.sub' S h.1
  iff := by
    intro T hT
    constructor
    · rintro ⟨h1, h2⟩
      refine ⟨(trP.iff T hT).1 h1, fun S hS => ?_⟩
      obtain ⟨U, hU, rfl⟩ := Comp.exists_down hc S (trQ.sub' S hS)
      exact (hRel T U hT hU).1 (h2 U ((trQ.iff U hU).2 hS))
    · rintro ⟨h1, h2⟩
      refine ⟨(trP.iff T hT).2 h1, fun U hQU => ?_⟩
      have hU := trQ.sub U hQU
      exact (hRel T U hT hU).2 (h2 _ ((trQ.iff U hU).1 hQU))

/-- `P`-sets maximal w.r.t. a transferred relation -/
theorem Comp.transfer_max (hc : GoodComp g c) (tr : c.Transfer P P')
    {Rel Rel' : ASet → ASet → Prop}
    (hRel : ∀ S T, Sub c.af S → Sub c.af T → (Rel S T ↔ Rel' (c.up S) (c.up T))) :
    c.Transfer (fun T => P T ∧ ∀ U, P U → Rel T U → Rel U T)
      (fun S => P' S ∧ ∀ U, P' U → Rel' S U → Rel' U S) where
  sub := fun T h => tr.sub T h.1
  sub' := fun S h => tr.sub' S h.1
  iff := by
    intro T hT
    constructor
    · rintro ⟨h1, h2⟩
      refine ⟨(tr.iff T hT).1 h1, fun S hS hr => ?_⟩
      obtain ⟨U, hU, rfl⟩ := Comp.exists_down hc S (tr.sub' S hS)
      exact (hRel U T hU hT).1 (h2 U ((tr.iff U hU).2 hS) ((hRel T U hT hU).2 hr))
    · rintro ⟨h1, h2⟩
      refine ⟨(tr.iff T hT).2 h1, fun U hPU hr => ?_⟩
      have hU := tr.sub U hPU
      exact (hRel U T hU hT).2 (h2 _ ((tr.iff U hU).1 hPU) ((hRel T U hT hU).1 hr))

/-! ## the nine semantics as transferred predicates -/

theorem Comp.transfer_cf (hc : GoodComp g c) : c.Transfer (ConflictFree c.af) (g.restrict c.memB).CF where
  sub := fun _ h => h.1
  sub' := fun _ h a ha => (Comp.live_restrict hc a).1 (h.1 a ha)
  iff := Comp.cf_iff hc

theorem Comp.transfer_adm (hc : GoodComp g c) : c.Transfer (Admissible c.af) (g.restrict c.memB).Admissible where
  sub := fun T h => (Comp.transfer_cf hc).sub T h.1
  sub' := fun S h => (Comp.transfer_cf hc).sub' S h.1
  iff := Comp.adm_iff hc

theorem Comp.transfer_complete (hc : GoodComp g c) : c.Transfer (Complete c.af) (g.restrict c.memB).Complete where
  sub := fun T h => (Comp.transfer_adm hc).sub T h.1
  sub' := fun S h => (Comp.transfer_adm hc).sub' S h.1
  iff := Comp.complete_iff hc

theorem Comp.transfer_stable (hc : GoodComp g c) : c.Transfer (Stable c.af) (g.restrict c.memB).Stable where
  sub := fun T h => (Comp.transfer_cf hc).sub T h.1
  sub' := fun S h => (Comp.transfer_cf hc).sub' S h.1
  iff := Comp.stable_iff hc

theorem Comp.subsetS_rel (hc : GoodComp g c) :
    ∀ S T, Sub c.af S → Sub c.af T → (SubsetS S T ↔ SubsetS (c.up S) (c.up T)) :=
  fun S T hS _ => Comp.subsetS_iff hc S T hS

theorem Comp.rangeSub_rel (hc : GoodComp g c) :
    ∀ S T, Sub c.af S → Sub c.af T → (RangeSub c.af S T ↔ (g.restrict c.memB).RangeSub (c.up S) (c.up T)) :=
  fun S T hS _ => Comp.rangeSub_iff hc S T hS

theorem Comp.transfer_preferred (hc : GoodComp g c) :
    c.Transfer (Preferred c.af) (g.restrict c.memB).Preferred :=
  Comp.transfer_max hc (Comp.transfer_adm hc) (Comp.subsetS_rel hc)

theorem Comp.transfer_grounded (hc : GoodComp g c) :
    c.Transfer (Grounded c.af) (g.restrict c.memB).Grounded :=
  Comp.transfer_all hc (Comp.transfer_complete hc) (Comp.transfer_complete hc) (Comp.subsetS_rel hc)

theorem Comp.transfer_semistable (hc : GoodComp g c) :
    c.Transfer (SemiStable c.af) (g.restrict c.memB).SemiStable :=
  Comp.transfer_max hc (Comp.transfer_complete hc) (Comp.rangeSub_rel hc)

theorem Comp.transfer_stage (hc : GoodComp g c) :
    c.Transfer (Stage c.af) (g.restrict c.memB).Stage :=
  Comp.transfer_max hc (Comp.transfer_cf hc) (Comp.rangeSub_rel hc)

theorem Comp.transfer_idealCand (hc : GoodComp g c) :
    c.Transfer (IdealCand c.af) (g.restrict c.memB).IdealCand :=
  Comp.transfer_all hc (Comp.transfer_adm hc) (Comp.transfer_preferred hc) (Comp.subsetS_rel hc)

theorem Comp.transfer_ideal (hc : GoodComp g c) :
    c.Transfer (Ideal c.af) (g.restrict c.memB).Ideal :=
  Comp.transfer_max hc (Comp.transfer_idealCand hc) (Comp.subsetS_rel hc)

theorem Comp.preferred_iff (hc : GoodComp g c) (T : ASet) (hT : Sub c.af T) :
    Preferred c.af T ↔ (g.restrict c.memB).Preferred (c.up T) := (Comp.transfer_preferred hc).iff T hT

theorem Comp.grounded_iff (hc : GoodComp g c) (T : ASet) (hT : Sub c.af T) :
    Grounded c.af T ↔ (g.restrict c.memB).Grounded (c.up T) := (Comp.transfer_grounded hc).iff T hT

theorem Comp.semistable_iff (hc : GoodComp g c) (T : ASet) (hT : Sub c.af T) :
    SemiStable c.af T ↔ (g.restrict c.memB).SemiStable (c.up T) := (Comp.transfer_semistable hc).iff T hT

theorem Comp.stage_iff (hc : GoodComp g c) (T : ASet) (hT : Sub c.af T) :
    Stage c.af T ↔ (g.restrict c.memB).Stage (c.up T) := (Comp.transfer_stage hc).iff T hT

theorem Comp.idealCand_iff (hc : GoodComp g c) (T : ASet) (hT : Sub c.af T) :
    IdealCand c.af T ↔ (g.restrict c.memB).IdealCand (c.up T) := (Comp.transfer_idealCand hc).iff T hT

theorem Comp.ideal_iff (hc : GoodComp g c) (T : ASet) (hT : Sub c.af T) :
    Ideal c.af T ↔ (g.restrict c.memB).Ideal (c.up T) := (Comp.transfer_ideal hc).iff T hT

/-! ## per-semantics acceptance corollaries (position `i` holds the original id `c.ids[i]`) -/

/-- the G-level counterpart of each of the seven semantics -/
def G.Ext (g : G) : Sem → ASet → Prop
  | .GR => g.Grounded
  | .CO => g.Complete
  | .PR => g.Preferred
  | .ST => g.Stable
  | .SST => g.SemiStable
  | .STG => g.Stage
  | .ID => g.Ideal

theorem Comp.transfer_ext (hc : GoodComp g c) (σ : Sem) :
    c.Transfer (σ.Ext c.af) ((g.restrict c.memB).Ext σ) := by
  cases σ
  · exact Comp.transfer_grounded hc
  · exact Comp.transfer_complete hc
  · exact Comp.transfer_preferred hc
  · exact Comp.transfer_stable hc
  · exact Comp.transfer_semistable hc
  · exact Comp.transfer_stage hc
  · exact Comp.transfer_ideal hc

theorem Comp.ext_iff (hc : GoodComp g c) (σ : Sem) (T : ASet) (hT : Sub c.af T) :
    σ.Ext c.af T ↔ (g.restrict c.memB).Ext σ (c.up T) := (Comp.transfer_ext hc σ).iff T hT

theorem Comp.ext_cred_iff (hc : GoodComp g c) (σ : Sem) (i : Nat) (hi : i < c.ids.length) :
    (∃ T, σ.Ext c.af T ∧ T i = true) ↔ (∃ S, (g.restrict c.memB).Ext σ S ∧ S (c.ids[i]) = true) :=
  Comp.cred_iff hc (Comp.transfer_ext hc σ) (List.getElem?_eq_getElem hi)

theorem Comp.ext_skep_iff (hc : GoodComp g c) (σ : Sem) (i : Nat) (hi : i < c.ids.length) :
    (∀ T, σ.Ext c.af T → T i = true) ↔ (∀ S, (g.restrict c.memB).Ext σ S → S (c.ids[i]) = true) :=
  Comp.skep_iff hc (Comp.transfer_ext hc σ) (List.getElem?_eq_getElem hi)

/-- the same, indexed by an original id of the component and its position -/
theorem Comp.ext_cred_pos_iff (hc : GoodComp g c) (σ : Sem) {a i : Nat} (h : c.pos a = some i) :
    (∃ T, σ.Ext c.af T ∧ T i = true) ↔ (∃ S, (g.restrict c.memB).Ext σ S ∧ S a = true) :=
  Comp.cred_iff hc (Comp.transfer_ext hc σ) (Comp.get_of_pos h)

theorem Comp.ext_skep_pos_iff (hc : GoodComp g c) (σ : Sem) {a i : Nat} (h : c.pos a = some i) :
    (∀ T, σ.Ext c.af T → T i = true) ↔ (∀ S, (g.restrict c.memB).Ext σ S → S a = true) :=
  Comp.skep_iff hc (Comp.transfer_ext hc σ) (Comp.get_of_pos h)

/-- extensions given as lists of positions: `c.back` is the corresponding set of original ids -/
theorem Comp.ext_back_iff (hc : GoodComp g c) (σ : Sem) (e : List Nat) (he : ∀ i ∈ e, i < c.af.n) :
    σ.Ext c.af (ofList e) ↔ (g.restrict c.memB).Ext σ (ofList (c.back e)) := by
  rw [Comp.ofList_back hc e he]
  exact Comp.ext_iff hc σ (ofList e) (fun i hi => he i (by simpa [ofList] using hi))

end

end Crusta
