import Crusta.Proofs.DynAttEnc
import Crusta.Proofs.DynInv

/-!
# What the clauses of a re-encoding say, at the level of variables

The encoding is over the *variable graph*: vertices are the argument variables `1..n`, the edge
`a → x` is present iff the attack variable `attVar n x a` is true.  `VStable` / `VComplete` are the
conditions the clauses of `EncSpec` impose on an assignment (restricted to argument, attack and
attacker-disjunction variables); both directions are proved: every model of the clauses meets them,
and every assignment that meets them can be extended to the auxiliary variables into a model.
-/

namespace Crusta.DynAtt
open Crusta Crusta.Dyn

theorem decode (n i j : Nat) (hj : j < n) : (i * n + j) / n = i ∧ (i * n + j) % n = j := by
  have hn : 0 < n := by omega
  rw [Nat.mul_comm]
  refine ⟨?_, ?_⟩
  · rw [Nat.mul_add_div hn, Nat.div_eq_of_lt hj]; rfl
  · rw [Nat.mul_add_mod, Nat.mod_eq_of_lt hj]

theorem pair_inj {n i j i' j' : Nat} (hj : j < n) (hj' : j' < n) (h : i * n + j = i' * n + j') :
    i = i' ∧ j = j' := by
  have h1 := decode n i j hj
  have h2 := decode n i' j' hj'
  rw [h] at h1
  exact ⟨h1.1.symm.trans h2.1, h1.2.symm.trans h2.2⟩

theorem cell_lt {n i j : Nat} (hi : i < n) (hj : j < n) : i * n + j + 1 ≤ n * n := by
  have h1 : i * n ≤ (n - 1) * n := Nat.mul_le_mul_right n (by omega)
  have h2 := mul_pred_add n (by omega)
  rw [Nat.mul_comm n (n - 1)] at h2
  omega

structure VStable (n : Nat) (ν : Asg) : Prop where
  cf : ∀ i j, i < n → j < n → ν (attVar n (i + 1) (j + 1)) = true → ν (i + 1) = true →
    ν (j + 1) = true → False
  att : ∀ i, i < n → ν (i + 1) = false →
    ∃ j, j < n ∧ ν (j + 1) = true ∧ ν (attVar n (i + 1) (j + 1)) = true

structure VComplete (n : Nat) (ν : Asg) : Prop where
  cf : ∀ i, i < n → ν (i + 1) = true → ν (disjVar n (i + 1)) = false
  dfd : ∀ i j, i < n → j < n → ν (attVar n (i + 1) (j + 1)) = true → ν (i + 1) = true →
    ν (disjVar n (j + 1)) = true
  cpl : ∀ i, i < n → ν (i + 1) = false →
    ∃ j, j < n ∧ ν (attVar n (i + 1) (j + 1)) = true ∧ ν (disjVar n (j + 1)) = false
  dj_in : ∀ i j, i < n → j < n → ν (attVar n (i + 1) (j + 1)) = true → ν (j + 1) = true →
    ν (disjVar n (i + 1)) = true
  dj_out : ∀ i, i < n → ν (disjVar n (i + 1)) = true →
    ∃ j, j < n ∧ ν (j + 1) = true ∧ ν (attVar n (i + 1) (j + 1)) = true

/-! ## models meet the conditions -/

theorem vstable_of_model {n : Nat} {ν : Asg} (h : ∀ c, EncSpec .ST n c → clauseTrue ν c = true) :
    VStable n ν := by
  constructor
  · intro i j hi hj hatt hx ha
    have := h [nl (attVar n (i + 1) (j + 1)), nl (i + 1), nl (j + 1)]
      ⟨i, hi, Or.inr (Or.inl ⟨j, hj, by simp [stCell]⟩)⟩
    simp [clauseTrue, hatt, hx, ha] at this
  · intro i hi hx
    have := h _ ⟨i, hi, Or.inr (Or.inr rfl)⟩
    simp only [clauseTrue, List.any_cons, litTrue_pl, hx, Bool.false_or, List.any_eq_true] at this
    obtain ⟨l, hl, hlt⟩ := this
    obtain ⟨j, hj, rfl⟩ := (mem_auxLits l n _).1 hl
    rw [litTrue_pl] at hlt
    have h1 := h [nl (n * (1 + n) + i * n + 1 + j), pl (j + 1)]
      ⟨i, hi, Or.inr (Or.inl ⟨j, hj, by simp [stCell]⟩)⟩
    have h2 := h [nl (n * (1 + n) + i * n + 1 + j), pl (attVar n (i + 1) (j + 1))]
      ⟨i, hi, Or.inr (Or.inl ⟨j, hj, by simp [stCell]⟩)⟩
    simp [clauseTrue, hlt] at h1 h2
    exact ⟨j, hj, h1, h2⟩

theorem vcomplete_of_model {n : Nat} {ν : Asg} (h : ∀ c, EncSpec .CO n c → clauseTrue ν c = true) :
    VComplete n ν := by
  have p1 : ∀ c, PassSpec n (n * (2 + n)) (fun x => [[nl x, nl (disjVar n x)]]) pl (coCell1 n) c →
      clauseTrue ν c = true := fun c hc => h c (Or.inl hc)
  have p2 : ∀ c, PassSpec n (n * (2 + n) + n * n) (fun _ => []) (fun x => nl (disjVar n x)) (coCell2 n) c →
      clauseTrue ν c = true := fun c hc => h c (Or.inr hc)
  constructor
  · intro i hi hx
    have := p1 [nl (i + 1), nl (disjVar n (i + 1))] ⟨i, hi, Or.inl (by simp)⟩
    simpa [clauseTrue, hx] using this
  · intro i j hi hj hatt hx
    have := p1 [nl (attVar n (i + 1) (j + 1)), nl (i + 1), pl (disjVar n (j + 1))]
      ⟨i, hi, Or.inr (Or.inl ⟨j, hj, by simp [coCell1]⟩)⟩
    simpa [clauseTrue, hatt, hx] using this
  · intro i hi hx
    have := p1 _ ⟨i, hi, Or.inr (Or.inr rfl)⟩
    simp only [clauseTrue, List.any_cons, litTrue_pl, hx, Bool.false_or, List.any_eq_true] at this
    obtain ⟨l, hl, hlt⟩ := this
    obtain ⟨j, hj, rfl⟩ := (mem_auxLits l n _).1 hl
    rw [litTrue_pl] at hlt
    have h1 := p1 [nl (n * (2 + n) + i * n + 1 + j), nl (disjVar n (j + 1))]
      ⟨i, hi, Or.inr (Or.inl ⟨j, hj, by simp [coCell1]⟩)⟩
    have h2 := p1 [nl (n * (2 + n) + i * n + 1 + j), pl (attVar n (i + 1) (j + 1))]
      ⟨i, hi, Or.inr (Or.inl ⟨j, hj, by simp [coCell1]⟩)⟩
    simp [clauseTrue, hlt] at h1 h2
    exact ⟨j, hj, h2, h1⟩
  · intro i j hi hj hatt ha
    have := p2 [nl (attVar n (i + 1) (j + 1)), pl (disjVar n (i + 1)), nl (j + 1)]
      ⟨i, hi, Or.inr (Or.inl ⟨j, hj, by simp [coCell2]⟩)⟩
    simpa [clauseTrue, hatt, ha] using this
  · intro i hi hd
    have := p2 _ ⟨i, hi, Or.inr (Or.inr rfl)⟩
    simp only [clauseTrue, List.any_cons, litTrue_nl, hd, Bool.not_true, Bool.false_or,
      List.any_eq_true] at this
    obtain ⟨l, hl, hlt⟩ := this
    obtain ⟨j, hj, rfl⟩ := (mem_auxLits l n _).1 hl
    rw [litTrue_pl] at hlt
    have h1 := p2 [nl (n * (2 + n) + n * n + i * n + 1 + j), pl (j + 1)]
      ⟨i, hi, Or.inr (Or.inl ⟨j, hj, by simp [coCell2]⟩)⟩
    have h2 := p2 [nl (n * (2 + n) + n * n + i * n + 1 + j), pl (attVar n (i + 1) (j + 1))]
      ⟨i, hi, Or.inr (Or.inl ⟨j, hj, by simp [coCell2]⟩)⟩
    simp [clauseTrue, hlt] at h1 h2
    exact ⟨j, hj, h1, h2⟩

/-! ## assignments that meet the conditions extend to models -/

/-- extension of an assignment to the auxiliary variables of the stable encoding -/
def extST (n : Nat) (ν : Asg) : Asg := fun v =>
  if v ≤ n * (1 + n) then ν v
  else
    let t := v - n * (1 + n) - 1
    ν (t % n + 1) && ν (attVar n (t / n + 1) (t % n + 1))

theorem extST_low {n : Nat} {ν : Asg} {v : Nat} (h : v ≤ n * (1 + n)) : extST n ν v = ν v := by
  simp [extST, h]

theorem extST_aux {n : Nat} {ν : Asg} {i j : Nat} (hj : j < n) :
    extST n ν (n * (1 + n) + i * n + 1 + j) = (ν (j + 1) && ν (attVar n (i + 1) (j + 1))) := by
  have hgt : ¬ n * (1 + n) + i * n + 1 + j ≤ n * (1 + n) := by omega
  have ht : n * (1 + n) + i * n + 1 + j - n * (1 + n) - 1 = i * n + j := by omega
  simp only [extST, hgt, if_false, ht, (decode n i j hj).1, (decode n i j hj).2]

theorem model_of_vstable {n : Nat} {ν : Asg} (h : VStable n ν) :
    ∀ c, EncSpec .ST n c → clauseTrue (extST n ν) c = true := by
  intro c hc
  obtain ⟨i, hi, hc⟩ := hc
  have hxi : extST n ν (i + 1) = ν (i + 1) := by
    apply extST_low
    have : n * (1 + n) = n + n * n := by rw [Nat.mul_add]; omega
    omega
  rcases hc with hc | ⟨j, hj, hc⟩ | rfl
  · simp at hc
  · have hxj : extST n ν (j + 1) = ν (j + 1) := by
      apply extST_low
      have : n * (1 + n) = n + n * n := by rw [Nat.mul_add]; omega
      omega
    have hat : extST n ν (attVar n (i + 1) (j + 1)) = ν (attVar n (i + 1) (j + 1)) :=
      extST_low (attVar_bounds hi hj).2
    have hau := @extST_aux n ν i j hj
    simp only [stCell, List.mem_cons, List.not_mem_nil, or_false] at hc
    have hcf := h.cf i j hi hj
    rcases hc with rfl | rfl | rfl | rfl <;>
      simp only [clauseTrue, List.any_cons, List.any_nil, litTrue_pl, litTrue_nl, hxi, hxj, hat, hau,
        Bool.or_false] <;>
      cases hA : ν (attVar n (i + 1) (j + 1)) <;> cases hJ : ν (j + 1) <;> cases hI : ν (i + 1) <;>
      simp_all
  · simp only [clauseTrue, List.any_cons, litTrue_pl, hxi]
    cases hI : ν (i + 1) with
    | true => rfl
    | false =>
      obtain ⟨j, hj, ha, hat⟩ := h.att i hi hI
      simp only [Bool.false_or, List.any_eq_true]
      refine ⟨pl (n * (1 + n) + i * n + 1 + j), (mem_auxLits _ _ _).2 ⟨j, hj, rfl⟩, ?_⟩
      rw [litTrue_pl, extST_aux hj, ha, hat]; rfl

/-- extension of an assignment to the auxiliary variables of the complete encoding -/
def extCO (n : Nat) (ν : Asg) : Asg := fun v =>
  if v ≤ n * (2 + n) then ν v
  else if v ≤ n * (2 + n) + n * n then
    let t := v - n * (2 + n) - 1
    !ν (disjVar n (t % n + 1)) && ν (attVar n (t / n + 1) (t % n + 1))
  else
    let t := v - (n * (2 + n) + n * n) - 1
    ν (t % n + 1) && ν (attVar n (t / n + 1) (t % n + 1))

theorem extCO_low {n : Nat} {ν : Asg} {v : Nat} (h : v ≤ n * (2 + n)) : extCO n ν v = ν v := by
  simp [extCO, h]

theorem extCO_aux1 {n : Nat} {ν : Asg} {i j : Nat} (hi : i < n) (hj : j < n) :
    extCO n ν (n * (2 + n) + i * n + 1 + j) =
      (!ν (disjVar n (j + 1)) && ν (attVar n (i + 1) (j + 1))) := by
  have hgt : ¬ n * (2 + n) + i * n + 1 + j ≤ n * (2 + n) := by omega
  have hle : n * (2 + n) + i * n + 1 + j ≤ n * (2 + n) + n * n := by
    have := cell_lt hi hj; omega
  have ht : n * (2 + n) + i * n + 1 + j - n * (2 + n) - 1 = i * n + j := by omega
  simp only [extCO, hgt, hle, if_false, if_true, ht, (decode n i j hj).1, (decode n i j hj).2]

theorem extCO_aux2 {n : Nat} {ν : Asg} {i j : Nat} (hj : j < n) :
    extCO n ν (n * (2 + n) + n * n + i * n + 1 + j) =
      (ν (j + 1) && ν (attVar n (i + 1) (j + 1))) := by
  have hgt : ¬ n * (2 + n) + n * n + i * n + 1 + j ≤ n * (2 + n) := by omega
  have hgt2 : ¬ n * (2 + n) + n * n + i * n + 1 + j ≤ n * (2 + n) + n * n := by omega
  have ht : n * (2 + n) + n * n + i * n + 1 + j - (n * (2 + n) + n * n) - 1 = i * n + j := by omega
  simp only [extCO, hgt, hgt2, if_false, ht, (decode n i j hj).1, (decode n i j hj).2]

theorem model_of_vcomplete {n : Nat} {ν : Asg} (h : VComplete n ν) :
    ∀ c, EncSpec .CO n c → clauseTrue (extCO n ν) c = true := by
  intro c hc
  have h4 : n * (2 + n) = 2 * n + n * n := by rw [Nat.mul_add]; omega
  have h3 : n * (1 + n) = n + n * n := by rw [Nat.mul_add]; omega
  have low1 : ∀ i, i < n → extCO n ν (i + 1) = ν (i + 1) := fun i hi => extCO_low (by omega)
  have lowd : ∀ i, i < n → extCO n ν (disjVar n (i + 1)) = ν (disjVar n (i + 1)) :=
    fun i hi => extCO_low (disjVar_bounds hi).2
  have lowa : ∀ i j, i < n → j < n →
      extCO n ν (attVar n (i + 1) (j + 1)) = ν (attVar n (i + 1) (j + 1)) :=
    fun i j hi hj => extCO_low (by have := (attVar_bounds hi hj).2; omega)
  rcases hc with hc | hc
  · obtain ⟨i, hi, hc⟩ := hc
    rcases hc with hc | ⟨j, hj, hc⟩ | rfl
    · simp only [List.mem_singleton] at hc
      subst hc
      have := h.cf i hi
      simp only [clauseTrue, List.any_cons, List.any_nil, litTrue_nl, low1 i hi, lowd i hi, Bool.or_false]
      cases hI : ν (i + 1) <;> simp_all
    · have hau := @extCO_aux1 n ν i j hi hj
      have hdfd := h.dfd i j hi hj
      simp only [coCell1, List.mem_cons, List.not_mem_nil, or_false] at hc
      rcases hc with rfl | rfl | rfl | rfl <;>
        simp only [clauseTrue, List.any_cons, List.any_nil, litTrue_pl, litTrue_nl, low1 i hi, low1 j hj,
          lowd j hj, lowa i j hi hj, hau, Bool.or_false] <;>
        cases hA : ν (attVar n (i + 1) (j + 1)) <;> cases hJ : ν (disjVar n (j + 1)) <;>
        cases hI : ν (i + 1) <;> simp_all
    · simp only [clauseTrue, List.any_cons, litTrue_pl, low1 i hi]
      cases hI : ν (i + 1) with
      | true => rfl
      | false =>
        obtain ⟨j, hj, hat, hd⟩ := h.cpl i hi hI
        simp only [Bool.false_or, List.any_eq_true]
        refine ⟨pl (n * (2 + n) + i * n + 1 + j), (mem_auxLits _ _ _).2 ⟨j, hj, rfl⟩, ?_⟩
        rw [litTrue_pl, extCO_aux1 hi hj, hd, hat]; rfl
  · obtain ⟨i, hi, hc⟩ := hc
    rcases hc with hc | ⟨j, hj, hc⟩ | rfl
    · simp at hc
    · have hau := @extCO_aux2 n ν i j hj
      have hdj := h.dj_in i j hi hj
      simp only [coCell2, List.mem_cons, List.not_mem_nil, or_false] at hc
      rcases hc with rfl | rfl | rfl | rfl <;>
        simp only [clauseTrue, List.any_cons, List.any_nil, litTrue_pl, litTrue_nl, low1 j hj,
          lowd i hi, lowa i j hi hj, hau, Bool.or_false] <;>
        cases hA : ν (attVar n (i + 1) (j + 1)) <;> cases hJ : ν (j + 1) <;>
        cases hD : ν (disjVar n (i + 1)) <;> simp_all
    · simp only [clauseTrue, List.any_cons, litTrue_nl, lowd i hi]
      cases hD : ν (disjVar n (i + 1)) with
      | false => rfl
      | true =>
        obtain ⟨j, hj, ha, hat⟩ := h.dj_out i hi hD
        simp only [Bool.not_true, Bool.false_or, List.any_eq_true]
        refine ⟨pl (n * (2 + n) + n * n + i * n + 1 + j), (mem_auxLits _ _ _).2 ⟨j, hj, rfl⟩, ?_⟩
        rw [litTrue_pl, extCO_aux2 hj, ha, hat]; rfl

end Crusta.DynAtt
