import Crusta.Model.Equiv
import Crusta.Proofs.Deciders
import Crusta.Proofs.EquivSound

/-! # C19 — arguments merged by the equivalence reduction are indistinguishable (property theorems) -/

namespace Crusta.C19
open Crusta Crusta.Eq

/-- the criterion used to judge every merged pair is exact: identical membership in every complete
extension of the framework (textbook definition), for all frameworks -/
theorem sameComplete_exact (af : AF) (a b : Nat) :
    sameCompleteB af a b = true ↔ ∀ S, Complete af S → S a = S b := by
  unfold sameCompleteB
  simp only [List.all_eq_true, beq_iff_eq]
  constructor
  · intro h S hS
    obtain ⟨l, hl, rfl⟩ := exists_list_of_sub af S (co_sub hS)
    exact h l ((mem_extsCO af l).2 ⟨hl, hS⟩)
  · intro h e he
    exact h (ofList e) ((mem_extsCO af e).1 he).2

/-- indistinguishability is an equivalence relation, so "merge classes" is meaningful -/
theorem sameComplete_equiv (af : AF) :
    (∀ a, sameCompleteB af a a = true) ∧
    (∀ a b, sameCompleteB af a b = true → sameCompleteB af b a = true) ∧
    (∀ a b c, sameCompleteB af a b = true → sameCompleteB af b c = true → sameCompleteB af a c = true) := by
  simp only [sameComplete_exact]
  exact ⟨fun _ _ _ => trivial, fun _ _ h S hS => (h S hS).symm, fun _ _ _ h1 h2 S hS => (h1 S hS).trans (h2 S hS)⟩

/-- **C19, the reduction itself** (model `Crusta.Eq.computeClasses`, tied to the implementation by the
`equiv` family): on every well-formed framework the classes only merge arguments that belong to
exactly the same complete extensions -/
theorem merged_arguments_indistinguishable (af : AF) (hwf : af.WF) :
    ∀ c ∈ computeClasses af, ∀ a ∈ c.members, ∀ b ∈ c.members, ∀ S, Complete af S → S a = S b :=
  classes_sound af hwf

/-- the grounded class lies in every complete extension, the defeated class in none -/
theorem grounded_and_defeated_classes (af : AF) (hwf : af.WF) :
    ∀ c ∈ computeClasses af, (c.kind = .grounded → ∀ a ∈ c.members, ∀ S, Complete af S → S a = true) ∧
      (c.kind = .defeated → ∀ a ∈ c.members, ∀ S, Complete af S → S a = false) :=
  special_classes af hwf

/-- the classes partition the arguments (total, no overlap) -/
theorem classes_are_a_partition (af : AF) (hwf : af.WF) :
    (∀ a, a < af.n → ∃ c ∈ computeClasses af, a ∈ c.members) ∧
    (∀ c ∈ computeClasses af, ∀ a ∈ c.members, a < af.n) ∧
    ((computeClasses af).flatMap (·.members)).Nodup :=
  classes_partition af hwf

/-- the two mappings are total and inverse at the level of classes: `init_to_reduced` sends every
argument to the class that contains it -/
theorem mappings_inverse (af : AF) (hwf : af.WF) :
    ∀ a, a < af.n → ∃ c, (computeClasses af)[(initToReduced af.n (computeClasses af)).getD a 0]? = some c ∧
      a ∈ c.members :=
  maps_inverse af hwf

/-- soundness of the propagation underlying the reduction -/
theorem propagation_sound (af : AF) (hwf : af.WF) (args : List Nat) (hargs : ∀ a ∈ args, a < af.n) :
    (∀ p d, propagate af (nAttacksTo af) args = some (p, d) →
      ∀ S, Complete af S → (∀ a ∈ args, S a = true) → (∀ x ∈ p, S x = true) ∧ (∀ x ∈ d, S x = false)) ∧
    (propagate af (nAttacksTo af) args = none → ¬ ∃ S, Complete af S ∧ ∀ a ∈ args, S a = true) :=
  propagate_sound af hwf args hargs

end Crusta.C19
