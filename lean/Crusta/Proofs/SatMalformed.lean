import Crusta.Proofs.SatRoundTrip

/-!
# Malformed solver replies are never reported as a result (C16)

Negative counterpart of `reply_faithful` / `parseReply_renderModel`: whatever the position of the
malformed part of the reply — in particular **after** an `s UNSATISFIABLE` line — the reply parser
aborts; it never answers `sat`, `unsat` or `unknown`.  (A parser that stops reading at the status
line violates `unsat_then_anything_bad`.)

* `foldLines_error_final`, `foldLines_append` : an error is final;
* `BadLine` : a line rejected in every parser state, with its concrete sufficient conditions
  (`badLine_none`, `badLine_unexpected`, `badLine_vline`, `badLine_vline_two_zeroes`, …);
* `bad_line_aborts` : a bad line anywhere aborts;
* `two_status_lines_abort`, `two_zeroes_abort` : a second status line / a second terminating `0`
  anywhere aborts;
* `unsat_then_anything_bad`, `status_then_anything_bad` and the contrapositives
  `result_all_lines_accepted`, `result_status_unique`.
-/

namespace Crusta.Sat
open Crusta Crusta.IO

/-! ## errors are final -/

/-- the fold over a concatenation: the second part is read only if the first part was accepted -/
theorem foldLines_append {σ : Type} (f : σ → Option Str → Except String σ) :
    ∀ (a b : List (Option Str)) (s : σ),
      foldLines f s (a ++ b) =
        (match foldLines f s a with | .ok s' => foldLines f s' b | .error e => .error e) := by
  intro a
  induction a with
  | nil => intro b s; simp [foldLines]
  | cons x xs ih =>
    intro b s
    simp only [List.cons_append, foldLines]
    cases f s x with
    | ok s1 => exact ih b s1
    | error e => rfl

/-- an error is final: if the line read after the prefix `pre` is rejected in the state reached
there, the whole reply is rejected with that very error, whatever follows
(`Crusta.C13.error_is_final`, restated here to keep the imports small) -/
theorem foldLines_error_final {σ : Type} (f : σ → Option Str → Except String σ)
    (pre : List (Option Str)) (s s' : σ) (l : Option Str) (post : List (Option Str)) (e : String)
    (h1 : foldLines f s pre = .ok s') (h2 : f s' l = .error e) :
    foldLines f s (pre ++ l :: post) = .error e := by
  rw [foldLines_append, h1]
  simp [foldLines, h2]

/-- the same for the reply parser -/
theorem replyLine_error_final (nv : Nat) (pre : List (Option Str)) (s s' : PSt) (l : Option Str)
    (post : List (Option Str)) (e : String)
    (h1 : foldLines (replyLine nv) s pre = .ok s') (h2 : replyLine nv s' l = .error e) :
    foldLines (replyLine nv) s (pre ++ l :: post) = .error e :=
  foldLines_error_final _ pre s s' l post e h1 h2

/-- an error in a prefix is an error of the whole -/
theorem foldLines_error_prefix {σ : Type} (f : σ → Option Str → Except String σ)
    (a b : List (Option Str)) (s : σ) (e : String) (h : foldLines f s a = .error e) :
    foldLines f s (a ++ b) = .error e := by
  rw [foldLines_append, h]

/-- a line rejected in every state makes the fold fail, wherever it is and whatever the state the
fold starts from -/
theorem foldLines_mem_rejected {σ : Type} (f : σ → Option Str → Except String σ)
    (l : Option Str) (hbad : ∀ s, ∃ e, f s l = .error e) :
    ∀ (ls : List (Option Str)), l ∈ ls → ∀ s, ∃ e, foldLines f s ls = .error e := by
  intro ls
  induction ls with
  | nil => intro h; cases h
  | cons x xs ih =>
    intro h s
    simp only [foldLines]
    cases hx : f s x with
    | error e => exact ⟨e, rfl⟩
    | ok s1 =>
      rcases List.mem_cons.1 h with rfl | h
      · obtain ⟨e, he⟩ := hbad s; rw [he] at hx; cases hx
      · exact ih h s1

/-- the reply is an abort as soon as the fold fails -/
theorem parseReply_abort_of_fold (nv : Nat) (out : List UInt8)
    (h : ∃ e, foldLines (replyLine nv) { asg := List.replicate nv none } (lines out) = .error e) :
    ∃ e, parseReply nv out = .abort e := by
  obtain ⟨e, he⟩ := h
  exact ⟨e, by unfold parseReply; rw [he]⟩

/-- an abort is not a result -/
theorem abort_not_result (r : PReply) (h : ∃ e, r = .abort e) :
    r ≠ .unsat ∧ r ≠ .unknown ∧ ∀ m, r ≠ .sat m := by
  obtain ⟨e, rfl⟩ := h
  exact ⟨nofun, nofun, fun _ => nofun⟩

/-! ## bad lines -/

/-- a line the parser rejects in every state -/
def BadLine (nv : Nat) (l : Option Str) : Prop := ∀ st, ∃ e, replyLine nv st l = .error e

/-- **a bad line anywhere aborts** -/
theorem bad_line_aborts (nv : Nat) (out : List UInt8) (h : ∃ l ∈ lines out, BadLine nv l) :
    ∃ e, parseReply nv out = .abort e := by
  obtain ⟨l, hl, hb⟩ := h
  exact parseReply_abort_of_fold nv out (foldLines_mem_rejected _ l hb _ hl _)

/-- (a) invalid UTF-8 -/
theorem badLine_none (nv : Nat) : BadLine nv none := fun _ => ⟨_, rfl⟩

theorem isPrefixOf_two (a b : Nat) (l : Str) :
    ([a, b] : Str).isPrefixOf l = true ↔ ∃ t, l = a :: b :: t := by
  match l with
  | [] => simp [List.isPrefixOf]
  | [x] => simp [List.isPrefixOf]
  | x :: y :: t =>
    constructor
    · intro h
      simp only [List.isPrefixOf, Bool.and_true, Bool.and_eq_true, beq_iff_eq] at h
      exact ⟨t, by rw [h.1, h.2]⟩
    · rintro ⟨t', ht⟩
      injection ht with h1 ht; injection ht with h2 _
      subst h1 h2; simp [List.isPrefixOf]

/-- (b) a line that is neither a status line, nor a `v ` line, nor a comment, nor a bare `c` /
`v`, nor empty -/
theorem badLine_unexpected (nv : Nat) (l : Str) (h1 : l ≠ sSat) (h2 : l ≠ sUnsat)
    (h3 : ∀ t, l ≠ 118 :: 32 :: t) (h4 : ∀ t, l ≠ 99 :: 32 :: t) (h5 : l ≠ [99]) (h6 : l ≠ [118])
    (h7 : l ≠ []) : BadLine nv (some l) := by
  intro st
  unfold replyLine
  simp only [strOf_sSat, strOf_sUnsat, strOf_v_sp, strOf_c_sp, strOf_c, strOf_v]
  rw [if_neg (by simpa [sSat] using h1), if_neg (by simpa [sUnsat] using h2),
    if_neg (by rw [isPrefixOf_two]; rintro ⟨t, ht⟩; exact h3 t ht)]
  rw [if_neg]
  · exact ⟨_, rfl⟩
  · simp only [Bool.or_eq_true, beq_iff_eq, List.isEmpty_iff, isPrefixOf_two]
    rintro (((⟨t, ht⟩ | h) | h) | h)
    · exact h4 t ht
    · exact h5 h
    · exact h6 h
    · exact h7 h

/-- the same in the vocabulary of the model: the five tests of `replyLine` all fail -/
theorem badLine_unexpected' (nv : Nat) (l : Str) (h1 : l ≠ strOf "s SATISFIABLE")
    (h2 : l ≠ strOf "s UNSATISFIABLE") (h3 : (strOf "v ").isPrefixOf l = false)
    (h4 : (strOf "c ").isPrefixOf l = false) (h5 : l ≠ strOf "c") (h6 : l ≠ strOf "v")
    (h7 : l ≠ []) : BadLine nv (some l) := by
  rw [strOf_sSat] at h1; rw [strOf_sUnsat] at h2; rw [strOf_v_sp] at h3; rw [strOf_c_sp] at h4
  rw [strOf_c] at h5; rw [strOf_v] at h6
  refine badLine_unexpected nv l h1 h2 ?_ ?_ h5 h6 h7
  · intro t ht
    have := (isPrefixOf_two 118 32 l).2 ⟨t, ht⟩
    rw [h3] at this; cases this
  · intro t ht
    have := (isPrefixOf_two 99 32 l).2 ⟨t, ht⟩
    rw [h4] at this; cases this

/-- a token that makes the value line fail whatever the state: not an `isize`, or a literal whose
variable is not declared -/
def BadTok (nv : Nat) (w : Str) : Prop :=
  parseIsize w = none ∨ ∃ n, parseIsize w = some n ∧ n ≠ 0 ∧ n.natAbs - 1 ≥ nv

/-- a bad token anywhere among the tokens makes `vTokens` fail (at that token or before) -/
theorem vTokens_badTok (nv : Nat) : ∀ (ws : List Str), (∃ w ∈ ws, BadTok nv w) →
    ∀ st, ∃ e, vTokens nv st ws = .error e := by
  intro ws
  induction ws with
  | nil => rintro ⟨w, hw, _⟩; cases hw
  | cons x xs ih =>
    rintro ⟨w, hw, hb⟩ st
    simp only [vTokens]
    cases hx : parseIsize x with
    | none => exact ⟨_, rfl⟩
    | some n =>
      simp only
      by_cases h0 : n = 0
      · subst h0
        simp only [beq_self_eq_true, if_true]
        cases st.ended with
        | true => exact ⟨_, rfl⟩
        | false =>
          simp only [Bool.false_eq_true, if_false]
          rcases List.mem_cons.1 hw with rfl | hw'
          · rcases hb with hb | ⟨m, hm, hm0, _⟩
            · rw [hb] at hx; cases hx
            · rw [hm] at hx; injection hx with hx; exact absurd hx hm0
          · exact ih ⟨w, hw', hb⟩ _
      · rw [if_neg (by simpa using h0)]
        by_cases hv : n.natAbs - 1 ≥ nv
        · rw [if_pos hv]; exact ⟨_, rfl⟩
        · rw [if_neg hv]
          rcases List.mem_cons.1 hw with rfl | hw'
          · rcases hb with hb | ⟨m, hm, _, hmv⟩
            · rw [hb] at hx; cases hx
            · rw [hm] at hx; injection hx with hx; subst hx; exact absurd hmv hv
          · exact ih ⟨w, hw', hb⟩ _

/-- `ended` is never reset by the tokens of a value line -/
theorem vTokens_ended (nv : Nat) : ∀ (ws : List Str) (st st' : PSt),
    vTokens nv st ws = .ok st' → st.ended = true → st'.ended = true := by
  intro ws
  induction ws with
  | nil => intro st st' h he; simp only [vTokens] at h; injection h with h; subst h; exact he
  | cons w ws ih =>
    intro st st' h he
    simp only [vTokens] at h
    split at h
    · cases h
    · split at h
      · cases h
      · split at h
        · cases h
        · exact ih _ _ h he

/-- once the terminating `0` has been read, a further `0` token makes `vTokens` fail -/
theorem vTokens_zero_after_end (nv : Nat) : ∀ (ws : List Str), (∃ w ∈ ws, parseIsize w = some 0) →
    ∀ st, st.ended = true → ∃ e, vTokens nv st ws = .error e := by
  intro ws
  induction ws with
  | nil => rintro ⟨w, hw, _⟩; cases hw
  | cons x xs ih =>
    rintro ⟨w, hw, hz⟩ st he
    simp only [vTokens]
    cases hx : parseIsize x with
    | none => exact ⟨_, rfl⟩
    | some n =>
      simp only
      by_cases h0 : n = 0
      · subst h0
        simp only [beq_self_eq_true, if_true, he]
        exact ⟨_, rfl⟩
      · rw [if_neg (by simpa using h0)]
        by_cases hv : n.natAbs - 1 ≥ nv
        · rw [if_pos hv]; exact ⟨_, rfl⟩
        · rw [if_neg hv]
          rcases List.mem_cons.1 hw with rfl | hw'
          · rw [hz] at hx; injection hx with hx; exact absurd hx.symm h0
          · exact ih ⟨w, hw', hz⟩ _ he

/-- two `0` tokens among the tokens of one value line make `vTokens` fail -/
theorem vTokens_two_zeroes (nv : Nat) : ∀ (a : List Str) (z1 : Str) (b : List Str) (z2 : Str)
    (c : List Str), parseIsize z1 = some 0 → parseIsize z2 = some 0 →
    ∀ st, ∃ e, vTokens nv st (a ++ z1 :: (b ++ z2 :: c)) = .error e := by
  intro a
  induction a with
  | nil =>
    intro z1 b z2 c h1 h2 st
    simp only [List.nil_append, vTokens, h1, beq_self_eq_true, if_true]
    cases st.ended with
    | true => exact ⟨_, rfl⟩
    | false =>
      simp only [Bool.false_eq_true, if_false]
      exact vTokens_zero_after_end nv _ ⟨z2, by simp, h2⟩ _ rfl
  | cons x xs ih =>
    intro z1 b z2 c h1 h2 st
    simp only [List.cons_append, vTokens]
    cases hx : parseIsize x with
    | none => exact ⟨_, rfl⟩
    | some n =>
      simp only
      split
      · split
        · exact ⟨_, rfl⟩
        · exact ih z1 b z2 c h1 h2 _
      · split
        · exact ⟨_, rfl⟩
        · exact ih z1 b z2 c h1 h2 _

theorem tok_v : Tok [118] := tok_cons 118 [] (by decide) (by simp)

/-- the tokens of a `v ` line after the leading `v` are the tokens of the rest of the line -/
theorem vline_tokens (t : Str) : (splitAsciiWs (118 :: 32 :: t)).drop 1 = splitAsciiWs t := by
  have := splitAsciiWs_word_ws [118] tok_v 32 isAsciiWs_32 t
  simp only [List.singleton_append] at this
  rw [this]; rfl

theorem replyLine_vline (nv : Nat) (st : PSt) (t : Str) :
    replyLine nv st (some (118 :: 32 :: t)) = vTokens nv { st with seen := true } (splitAsciiWs t) := by
  unfold replyLine
  simp only [strOf_sSat, strOf_sUnsat, strOf_v_sp]
  rw [if_neg (by simp), if_neg (by simp), if_pos (by simp [List.isPrefixOf]), vline_tokens]

/-- (c), (d) a `v ` line one of whose tokens (anywhere on the line) is not an `isize`, or is a
literal whose variable is out of bounds -/
theorem badLine_vline (nv : Nat) (t : Str) (h : ∃ w ∈ splitAsciiWs t, BadTok nv w) :
    BadLine nv (some (118 :: 32 :: t)) := by
  intro st
  rw [replyLine_vline]
  exact vTokens_badTok nv _ h _

/-- the same in the vocabulary of the model (`(splitAsciiWs l).drop 1` for a line prefixed by
`v `) -/
theorem badLine_vline' (nv : Nat) (l : Str) (hp : (strOf "v ").isPrefixOf l = true)
    (h : ∃ w ∈ (splitAsciiWs l).drop 1, BadTok nv w) : BadLine nv (some l) := by
  rw [strOf_v_sp, isPrefixOf_two] at hp
  obtain ⟨t, rfl⟩ := hp
  rw [vline_tokens] at h
  exact badLine_vline nv t h

/-- (c) simple form: the first token is not an `isize` -/
theorem badLine_vline_first_not_int (nv : Nat) (l w : Str) (hp : (strOf "v ").isPrefixOf l = true)
    (hw : ((splitAsciiWs l).drop 1).head? = some w) (hn : parseIsize w = none) :
    BadLine nv (some l) :=
  badLine_vline' nv l hp ⟨w, List.mem_of_head? hw, Or.inl hn⟩

/-- (d) simple form: the first token is a non-zero literal whose variable is out of bounds -/
theorem badLine_vline_first_out_of_bounds (nv : Nat) (l w : Str) (n : Int)
    (hp : (strOf "v ").isPrefixOf l = true)
    (hw : ((splitAsciiWs l).drop 1).head? = some w) (hn : parseIsize w = some n) (h0 : n ≠ 0)
    (hv : n.natAbs - 1 ≥ nv) : BadLine nv (some l) :=
  badLine_vline' nv l hp ⟨w, List.mem_of_head? hw, Or.inr ⟨n, hn, h0, hv⟩⟩

/-- a `v ` line with two `0` tokens -/
theorem badLine_vline_two_zeroes (nv : Nat) (t : Str) (a : List Str) (z1 : Str) (b : List Str)
    (z2 : Str) (c : List Str) (hs : splitAsciiWs t = a ++ z1 :: (b ++ z2 :: c))
    (h1 : parseIsize z1 = some 0) (h2 : parseIsize z2 = some 0) :
    BadLine nv (some (118 :: 32 :: t)) := by
  intro st
  rw [replyLine_vline, hs]
  exact vTokens_two_zeroes nv a z1 b z2 c h1 h2 _

/-! ## a second status line -/

/-- a status line -/
def StatusLine (l : Option Str) : Prop := l = some sSat ∨ l = some sUnsat

/-- the status, once set, stays set by every accepted line -/
theorem replyLine_status_isSome (nv : Nat) (st st' : PSt) (l : Option Str)
    (h : replyLine nv st l = .ok st') (hs : st.status.isSome = true) : st'.status.isSome = true := by
  unfold replyLine at h
  split at h
  · cases h
  · split at h
    · cases h
    · split at h
      · cases h
      · split at h
        · rw [(vTokens_len nv _ _ _ h).2.1]; exact hs
        · split at h
          · injection h with h; subst h; exact hs
          · cases h

theorem foldLines_status_isSome (nv : Nat) : ∀ (ls : List (Option Str)) (st st' : PSt),
    foldLines (replyLine nv) st ls = .ok st' → st.status.isSome = true → st'.status.isSome = true := by
  intro ls
  induction ls with
  | nil => intro st st' h hs; simp only [foldLines] at h; injection h with h; subst h; exact hs
  | cons l ls ih =>
    intro st st' h hs
    simp only [foldLines] at h
    cases hl : replyLine nv st l with
    | error e => rw [hl] at h; cases h
    | ok s1 => rw [hl] at h; exact ih s1 st' h (replyLine_status_isSome nv st s1 l hl hs)

/-- an accepted status line sets the status -/
theorem replyLine_statusLine_ok (nv : Nat) (st st' : PSt) (l : Option Str) (hl : StatusLine l)
    (h : replyLine nv st l = .ok st') : st'.status.isSome = true := by
  rcases hl with rfl | rfl
  · unfold replyLine at h
    simp only [strOf_sSat, sSat, beq_self_eq_true, if_true] at h
    split at h
    · cases h
    · injection h with h; subst h; rfl
  · unfold replyLine at h
    simp only [strOf_sSat, strOf_sUnsat, sUnsat] at h
    rw [if_neg (by simp), if_pos (by simp)] at h
    split at h
    · cases h
    · injection h with h; subst h; rfl

/-- a status line read when the status is already set is rejected -/
theorem replyLine_statusLine_again (nv : Nat) (st : PSt) (l : Option Str) (hl : StatusLine l)
    (hs : st.status.isSome = true) : replyLine nv st l = .error "multiple status lines" := by
  rcases hl with rfl | rfl
  · unfold replyLine
    simp only [strOf_sSat, sSat, beq_self_eq_true, if_true]
    rw [if_pos hs]
  · unfold replyLine
    simp only [strOf_sSat, strOf_sUnsat, sUnsat]
    rw [if_neg (by simp), if_pos (by simp), if_pos hs]

/-- once the status is set, a status line anywhere in the rest makes the fold fail -/
theorem foldLines_status_then_status (nv : Nat) : ∀ (ls : List (Option Str)),
    (∃ l ∈ ls, StatusLine l) → ∀ st, st.status.isSome = true →
    ∃ e, foldLines (replyLine nv) st ls = .error e := by
  intro ls
  induction ls with
  | nil => rintro ⟨l, hl, _⟩; cases hl
  | cons x xs ih =>
    rintro ⟨l, hl, hsl⟩ st hs
    simp only [foldLines]
    cases hx : replyLine nv st x with
    | error e => exact ⟨e, rfl⟩
    | ok s1 =>
      rcases List.mem_cons.1 hl with rfl | hl'
      · rw [replyLine_statusLine_again nv st l hsl hs] at hx; cases hx
      · exact ih ⟨l, hl', hsl⟩ s1 (replyLine_status_isSome nv st s1 x hx hs)

/-- after an accepted or rejected status line, anything that contains a bad line or a further
status line makes the fold fail -/
theorem foldLines_status_then_bad (nv : Nat) (s : Option Str) (hs : StatusLine s)
    (b : List (Option Str)) (hb : ∃ l ∈ b, BadLine nv l ∨ StatusLine l) (st : PSt) :
    ∃ e, foldLines (replyLine nv) st (s :: b) = .error e := by
  simp only [foldLines]
  cases hx : replyLine nv st s with
  | error e => exact ⟨e, rfl⟩
  | ok s1 =>
    obtain ⟨l, hl, hbad | hst⟩ := hb
    · exact foldLines_mem_rejected _ l hbad b hl s1
    · exact foldLines_status_then_status nv b ⟨l, hl, hst⟩ s1 (replyLine_statusLine_ok nv st s1 s hs hx)

theorem foldLines_after_prefix {σ : Type} (f : σ → Option Str → Except String σ)
    (a b : List (Option Str)) (h : ∀ s, ∃ e, foldLines f s b = .error e) (s : σ) :
    ∃ e, foldLines f s (a ++ b) = .error e := by
  rw [foldLines_append]
  cases foldLines f s a with
  | error e => exact ⟨e, rfl⟩
  | ok s' => exact h s'

/-- **two status lines anywhere abort**: whatever the two status lines (equal or different, in any
order) and whatever is before, between and after them -/
theorem two_status_lines_abort (nv : Nat) (out : List UInt8) (a b c : List (Option Str))
    (s1 s2 : Option Str) (h1 : StatusLine s1) (h2 : StatusLine s2)
    (hl : lines out = a ++ s1 :: (b ++ s2 :: c)) : ∃ e, parseReply nv out = .abort e := by
  apply parseReply_abort_of_fold
  rw [hl]
  exact foldLines_after_prefix _ a _
    (fun s => foldLines_status_then_bad nv s1 h1 _ ⟨s2, by simp, Or.inr h2⟩ s) _

/-- the same with positions -/
theorem two_status_lines_abort_idx (nv : Nat) (out : List UInt8) (i j : Nat) (hij : i < j)
    (s1 s2 : Option Str) (h1 : StatusLine s1) (h2 : StatusLine s2)
    (hi : (lines out)[i]? = some s1) (hj : (lines out)[j]? = some s2) :
    ∃ e, parseReply nv out = .abort e := by
  have hjl : j < (lines out).length := by
    rcases Nat.lt_or_ge j (lines out).length with h | h
    · exact h
    · rw [List.getElem?_eq_none h] at hj; cases hj
  have hil : i < (lines out).length := Nat.lt_trans hij hjl
  have e1 : lines out = (lines out).take i ++ s1 :: (lines out).drop (i + 1) := by
    have : (lines out)[i] = s1 := by
      rw [List.getElem?_eq_getElem hil] at hi; injection hi
    rw [← this, ← List.drop_eq_getElem_cons hil, List.take_append_drop]
  have hj' : ((lines out).drop (i + 1))[j - (i + 1)]? = some s2 := by
    rw [List.getElem?_drop]
    have : i + 1 + (j - (i + 1)) = j := by omega
    rw [this]; exact hj
  have hjl' : j - (i + 1) < ((lines out).drop (i + 1)).length := by
    rw [List.length_drop]; omega
  have e2 : (lines out).drop (i + 1) =
      ((lines out).drop (i + 1)).take (j - (i + 1)) ++ s2 :: ((lines out).drop (i + 1)).drop (j - (i + 1) + 1) := by
    have : ((lines out).drop (i + 1))[j - (i + 1)] = s2 := by
      rw [List.getElem?_eq_getElem hjl'] at hj'; injection hj'
    rw [← this, ← List.drop_eq_getElem_cons hjl', List.take_append_drop]
  exact two_status_lines_abort nv out _ _ _ s1 s2 h1 h2 (by rw [← e2]; exact e1)

/-! ## a second terminating `0` (on another value line) -/

theorem replyLine_ended (nv : Nat) (st st' : PSt) (l : Option Str)
    (h : replyLine nv st l = .ok st') (he : st.ended = true) : st'.ended = true := by
  unfold replyLine at h
  split at h
  · cases h
  · split at h
    · split at h
      · cases h
      · injection h with h; subst h; exact he
    · split at h
      · split at h
        · cases h
        · injection h with h; subst h; exact he
      · split at h
        · exact vTokens_ended nv _ _ _ h he
        · split at h
          · injection h with h; subst h; exact he
          · cases h

/-- a value line carrying a `0` token -/
def ZeroLine (l : Option Str) : Prop := ∃ t, l = some (118 :: 32 :: t) ∧ ∃ w ∈ splitAsciiWs t, parseIsize w = some 0

theorem vTokens_zero_ok (nv : Nat) : ∀ (ws : List Str), (∃ w ∈ ws, parseIsize w = some 0) →
    ∀ st st', vTokens nv st ws = .ok st' → st'.ended = true := by
  intro ws
  induction ws with
  | nil => rintro ⟨w, hw, _⟩; cases hw
  | cons x xs ih =>
    rintro ⟨w, hw, hz⟩ st st' h
    simp only [vTokens] at h
    split at h
    · cases h
    · rename_i n hn
      split at h
      · split at h
        · cases h
        · exact vTokens_ended nv _ _ _ h rfl
      · rename_i hn0
        split at h
        · cases h
        · rcases List.mem_cons.1 hw with rfl | hw'
          · rw [hz] at hn; injection hn with hn; subst hn; simp at hn0
          · exact ih ⟨w, hw', hz⟩ _ _ h

theorem foldLines_ended_then_zero (nv : Nat) : ∀ (ls : List (Option Str)),
    (∃ l ∈ ls, ZeroLine l) → ∀ st, st.ended = true →
    ∃ e, foldLines (replyLine nv) st ls = .error e := by
  intro ls
  induction ls with
  | nil => rintro ⟨l, hl, _⟩; cases hl
  | cons x xs ih =>
    rintro ⟨l, hl, hz⟩ st he
    simp only [foldLines]
    cases hx : replyLine nv st x with
    | error e => exact ⟨e, rfl⟩
    | ok s1 =>
      rcases List.mem_cons.1 hl with rfl | hl'
      · obtain ⟨t, rfl, hw⟩ := hz
        rw [replyLine_vline] at hx
        obtain ⟨e, he'⟩ := vTokens_zero_after_end nv _ hw { st with seen := true } he
        rw [he'] at hx; cases hx
      · exact ih ⟨l, hl', hz⟩ s1 (replyLine_ended nv st s1 x hx he)

/-- **two terminating zeroes anywhere abort** (on two value lines; for the same line see
`badLine_vline_two_zeroes`) -/
theorem two_zeroes_abort (nv : Nat) (out : List UInt8) (a b c : List (Option Str))
    (z1 z2 : Option Str) (h1 : ZeroLine z1) (h2 : ZeroLine z2)
    (hl : lines out = a ++ z1 :: (b ++ z2 :: c)) : ∃ e, parseReply nv out = .abort e := by
  apply parseReply_abort_of_fold
  rw [hl]
  refine foldLines_after_prefix _ a _ (fun s => ?_) _
  simp only [foldLines]
  cases hx : replyLine nv s z1 with
  | error e => exact ⟨e, rfl⟩
  | ok s1 =>
    obtain ⟨t, rfl, hw⟩ := h1
    rw [replyLine_vline] at hx
    exact foldLines_ended_then_zero nv _ ⟨z2, by simp, h2⟩ s1 (vTokens_zero_ok nv _ hw _ _ hx)

/-! ## nothing after the status line is skipped -/

/-- **after a status line** (in particular `s UNSATISFIABLE`), a bad line or a further status line
anywhere in the rest of the reply aborts: the rest of the reply is read and checked -/
theorem status_then_anything_bad (nv : Nat) (out : List UInt8) (a b : List (Option Str))
    (s : Option Str) (hs : StatusLine s) (hl : lines out = a ++ s :: b)
    (hb : ∃ l ∈ b, BadLine nv l ∨ StatusLine l) : ∃ e, parseReply nv out = .abort e := by
  apply parseReply_abort_of_fold
  rw [hl]
  exact foldLines_after_prefix _ a _ (fun st => foldLines_status_then_bad nv s hs b hb st) _

/-- **`s UNSATISFIABLE` followed, anywhere, by a bad line or a status line is not "unsat"** -/
theorem unsat_then_anything_bad (nv : Nat) (out : List UInt8) (a b : List (Option Str))
    (hl : lines out = a ++ some sUnsat :: b) (hb : ∃ l ∈ b, BadLine nv l ∨ StatusLine l) :
    (∃ e, parseReply nv out = .abort e) ∧ parseReply nv out ≠ .unsat := by
  have h := status_then_anything_bad nv out a b _ (Or.inr rfl) hl hb
  exact ⟨h, (abort_not_result _ h).1⟩

/-- the same after `s SATISFIABLE`: no model is reported -/
theorem sat_then_anything_bad (nv : Nat) (out : List UInt8) (a b : List (Option Str))
    (hl : lines out = a ++ some sSat :: b) (hb : ∃ l ∈ b, BadLine nv l ∨ StatusLine l) :
    (∃ e, parseReply nv out = .abort e) ∧ ∀ m, parseReply nv out ≠ .sat m := by
  have h := status_then_anything_bad nv out a b _ (Or.inl rfl) hl hb
  exact ⟨h, (abort_not_result _ h).2.2⟩

/-- contrapositive: whenever a result (`sat`, `unsat` or `unknown`) is returned, **every** line of
the reply was acceptable in some state -/
theorem result_all_lines_accepted (nv : Nat) (out : List UInt8)
    (h : ∀ e, parseReply nv out ≠ .abort e) : ∀ l ∈ lines out, ¬ BadLine nv l :=
  fun l hl hb => by
    obtain ⟨e, he⟩ := bad_line_aborts nv out ⟨l, hl, hb⟩
    exact h e he

/-- contrapositive: whenever a result is returned, the reply has at most one status line -/
theorem result_status_unique (nv : Nat) (out : List UInt8) (h : ∀ e, parseReply nv out ≠ .abort e)
    (i j : Nat) (s1 s2 : Option Str) (h1 : StatusLine s1) (h2 : StatusLine s2)
    (hi : (lines out)[i]? = some s1) (hj : (lines out)[j]? = some s2) : i = j := by
  rcases Nat.lt_trichotomy i j with hij | hij | hij
  · obtain ⟨e, he⟩ := two_status_lines_abort_idx nv out i j hij s1 s2 h1 h2 hi hj
    exact absurd he (h e)
  · exact hij
  · obtain ⟨e, he⟩ := two_status_lines_abort_idx nv out j i hij s2 s1 h2 h1 hj hi
    exact absurd he (h e)

/-! ## non-vacuity: concrete replies -/

/-- `s UNSATISFIABLE\nfoo\n` : the line `foo` after the status line is checked -/
example (nv : Nat) : ∃ e, parseReply nv
    [115, 32, 85, 78, 83, 65, 84, 73, 83, 70, 73, 65, 66, 76, 69, 10, 102, 111, 111, 10] = .abort e := by
  have hl : lines [115, 32, 85, 78, 83, 65, 84, 73, 83, 70, 73, 65, 66, 76, 69, 10, 102, 111, 111, 10] =
      [] ++ some sUnsat :: [some [102, 111, 111]] := by decide
  refine (unsat_then_anything_bad nv _ [] _ hl ⟨_, List.mem_singleton.2 rfl, Or.inl ?_⟩).1
  exact badLine_unexpected nv _ (by decide) (by decide) (by simp) (by simp) (by decide) (by decide)
    (by decide)

/-- `s UNSATISFIABLE\nv x\n` : a non-literal on a value line after the status line -/
example (nv : Nat) : ∃ e, parseReply nv
    [115, 32, 85, 78, 83, 65, 84, 73, 83, 70, 73, 65, 66, 76, 69, 10, 118, 32, 120, 10] = .abort e := by
  have hl : lines [115, 32, 85, 78, 83, 65, 84, 73, 83, 70, 73, 65, 66, 76, 69, 10, 118, 32, 120, 10] =
      [] ++ some sUnsat :: [some [118, 32, 120]] := by decide
  refine (unsat_then_anything_bad nv _ [] _ hl ⟨_, List.mem_singleton.2 rfl, Or.inl ?_⟩).1
  exact badLine_vline nv [120] ⟨[120], by decide, Or.inl (by decide)⟩

/-- `s UNSATISFIABLE\nc x\ns SATISFIABLE\n` : contradictory status lines -/
example (nv : Nat) : ∃ e, parseReply nv
    [115, 32, 85, 78, 83, 65, 84, 73, 83, 70, 73, 65, 66, 76, 69, 10, 99, 32, 120, 10,
     115, 32, 83, 65, 84, 73, 83, 70, 73, 65, 66, 76, 69, 10] = .abort e := by
  have hl : lines [115, 32, 85, 78, 83, 65, 84, 73, 83, 70, 73, 65, 66, 76, 69, 10, 99, 32, 120, 10,
      115, 32, 83, 65, 84, 73, 83, 70, 73, 65, 66, 76, 69, 10] =
      [] ++ some sUnsat :: ([some [99, 32, 120]] ++ some sSat :: []) := by decide
  exact two_status_lines_abort nv _ [] _ [] _ _ (Or.inr rfl) (Or.inl rfl) hl

end Crusta.Sat
