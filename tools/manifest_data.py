HOOK_COMMITS = []
NOTES = ("Every check: (1) regenerates Crusta/Gen from /repo, (2) rebuilds and re-audits the Lean theorems of the property "
         "(#print axioms, forbidden-construct scan), (3) rebuilds the harness against /repo's working tree, (4) runs the real code "
         "and the Lean model on the same generated cases and diffs them (correspondence), (5) judges the implementation's outputs "
         "with reference deciders that are proved equivalent to the textbook definitions (conformance). known_findings.json lists "
         "open findings (none open at present) and the defects repaired by fix: commits in /repo.")

_SOLVE_NOTE = ("Trusted: Lean kernel + {propext, Classical.choice, Quot.sound}; the correspondence harness/driver/orchestrator; CaDiCaL assumed sound and "
               "complete. The theorems show that the judge applied to the real solvers' answers accepts exactly the answers the property allows "
               "(checkAnswer_iff over the textbook semantics, all frameworks) and that the reference deciders are exact; the solver algorithms "
               "themselves are tied by running the real code on generated frameworks (exhaustive for tiny sizes) and judging every answer.")

CLAIMED = {
    "C01": {"text": "Kernel-checked: the SE judge = textbook extension-hood for all frameworks and the 7 semantics (se_judge_exact, decider_exact, enumeration_complete); every SE answer of the real solvers on the generated frameworks is judged by it.",
            "note": _SOLVE_NOTE, "technique": "Lean 4 proof of the judge + differential conformance run"},
    "C02": {"text": "Kernel-checked: the credulous judge is exact (dc_judge_exact, credB_iff); every DC answer of the real solvers on generated frameworks x all arguments is judged by it.",
            "note": _SOLVE_NOTE, "technique": "Lean 4 proof of the judge + differential conformance run"},
    "C03": {"text": "Kernel-checked: the skeptical judge is exact (ds_judge_exact, skepB_iff, vacuous truth without extensions); every DS answer of the real solvers is judged by it.",
            "note": _SOLVE_NOTE, "technique": "Lean 4 proof of the judge + differential conformance run"},
    "C04": {"text": "Kernel-checked: certificate judge exact (dc_cert_judge_exact, ds_cert_judge_exact, no_cert_slot): witness is a duplicate-free extension containing / omitting the argument, present exactly when promised; membership of the certificate in the queried framework's own argument set is checked in the harness.",
            "note": _SOLVE_NOTE, "technique": "Lean 4 proof of the judge + differential conformance run"},
    "C07": {"text": "Kernel-checked: list queries are disjunctions at spec level (cred_is_disjunction, skep_list_spec, permutation/repetition invariance, variants_agree); all static solvers are run on lists of 1-3 arguments over several components, both entry points.",
            "note": _SOLVE_NOTE, "technique": "Lean 4 proof of the judge + differential conformance run"},
}
CLAIMED["C10"] = {
    "text": "Kernel-checked, for every well-formed compact framework and every assignment: each encoder's CNF has exactly the intended sets as models (both inclusions) - aux_var CF/ADM/CO, exp CF/CO, hybrid CO for EVERY threshold (fold invariant over the lazily allocated disjunction variables, freshness and injectivity of the allocation), default stable; range variants (aux: r_a <-> range; exp/hybrid: r_a sound + exact-range model exists); layouts injective and disjoint; assignment_to_extension decodes exactly the denoted set. The Lean encoders are tied to the 9 public Rust constructors by clause-multiset / reserve / arg_to_lit / first_range_var / decode comparison on every run.",
    "note": "Trusted: Lean kernel + {propext, Classical.choice, Quot.sound}; the correspondence run (generated compact frameworks incl. both sides of the hybrid threshold; the threshold constant itself is regenerated from the source into Crusta/Gen and the theorem holds for all thresholds); permutator::cart_prod modelled as cartesian product. Non-compact frameworks are out of scope as in the property text.",
    "technique": "Lean 4 proofs of encoder exactness + clause-level differential correspondence"}
CLAIMED["C12"] = {
    "text": "Model of LabelSet/ArgumentSet/AAFramework with tombstones, stale row indexes and swap_remove mirrored; kernel-checked: a rejected update returns the unchanged state (err_unchanged). Every run compares ALL observers incl. iteration orders after every operation of random histories against the model, and the model state against an abstract set model (refinement check, executable).",
    "note": "Trusted: Lean kernel; correspondence harness. PARTIAL at this commit: the store invariant and the refinement to the set model are checked by execution on every generated history, not yet proved by induction (planned: store_inv, store_refines).",
    "technique": "Lean 4 model + differential correspondence on update histories; invariant proofs in progress"}
NOT_APPLICABLE = {}
