import Crusta.Proofs.Writers

/-!
# Auxiliary facts for the reader round trips (C13/C14)

* decimal rendering `natToStr` (via `Nat.toDigits`) and `parse::<isize>` / `parse::<usize>`;
* the UTF-8 round trip `decodeUtf8 (encodeUtf8 s) = some s` for all Unicode scalar values;
* `lines` of encoded `\n`-terminated / `\n`-separated lines.
-/

namespace Crusta.IO

/-! ## decimal rendering -/
theorem natToStr_eq (k : Nat) : natToStr k = (Nat.toDigits 10 k).map Char.toNat := by
  simp [natToStr, strOf, toString, Nat.repr]

theorem digitChar_toNat : ∀ d, d < 10 → (Nat.digitChar d).toNat = 48 + d := by decide

theorem natToStr_lt10 (k : Nat) (h : k < 10) : natToStr k = [48 + k] := by
  rw [natToStr_eq, Nat.toDigits_of_lt_base h]; simp [digitChar_toNat k h]

theorem natToStr_step (k : Nat) (h : 10 ≤ k) : natToStr k = natToStr (k / 10) ++ [48 + k % 10] := by
  have h1 := @Nat.toDigits_append_toDigits 10 (k / 10) (k % 10) (by omega) (by omega) (Nat.mod_lt _ (by omega))
  have h2 : 10 * (k / 10) + k % 10 = k := Nat.div_add_mod k 10
  rw [h2] at h1
  rw [natToStr_eq, ← h1, List.map_append, ← natToStr_eq, ← natToStr_eq, natToStr_lt10 _ (Nat.mod_lt _ (by omega))]

theorem digitsVal_snoc (l : Str) (c : Nat) : digitsVal (l ++ [c]) = digitsVal l * 10 + (c - 48) := by
  simp [digitsVal, List.foldl_append]

/-- the decimal rendering: non-empty, ASCII digits only, and it denotes the number -/
theorem natToStr_spec (k : Nat) :
    natToStr k ≠ [] ∧ (∀ c ∈ natToStr k, 48 ≤ c ∧ c ≤ 57) ∧ digitsVal (natToStr k) = k := by
  induction k using Nat.strongRecOn with
  | _ k ih =>
    by_cases h : k < 10
    · rw [natToStr_lt10 k h]
      refine ⟨by simp, ?_, ?_⟩
      · intro c hc; simp at hc; omega
      · simp [digitsVal]
    · have h' : 10 ≤ k := by omega
      obtain ⟨_, h2, h3⟩ := ih (k / 10) (by omega)
      rw [natToStr_step k h']
      refine ⟨by simp, ?_, ?_⟩
      · intro c hc
        rcases List.mem_append.1 hc with hc | hc
        · exact h2 c hc
        · simp at hc; omega
      · rw [digitsVal_snoc, h3]; omega

theorem natToStr_ne_nil (k : Nat) : natToStr k ≠ [] := (natToStr_spec k).1
theorem natToStr_digits (k : Nat) : ∀ c ∈ natToStr k, 48 ≤ c ∧ c ≤ 57 := (natToStr_spec k).2.1
theorem digitsVal_natToStr (k : Nat) : digitsVal (natToStr k) = k := (natToStr_spec k).2.2

theorem natToStr_all_digit (k : Nat) : (natToStr k).all isAsciiDigit = true := by
  rw [List.all_eq_true]; intro c hc
  have := natToStr_digits k c hc
  simp [isAsciiDigit, this.1, this.2]

theorem parseIsize_digit_head (c : Nat) (cs : Str) (hc : 48 ≤ c ∧ c ≤ 57) :
    parseIsize (c :: cs) =
      if (c :: cs).all isAsciiDigit then
        (if digitsVal (c :: cs) ≤ 9223372036854775807 then some (digitsVal (c :: cs) : Int) else none)
      else none := by
  unfold parseIsize
  split
  · rename_i neg ds heq
    split at heq
    · rename_i h; injection h with h; omega
    · rename_i h; injection h with h; omega
    · injection heq with h1 h2
      subst h1; subst h2
      by_cases hall : (c :: cs).all isAsciiDigit = true <;> simp [hall]

theorem parseUsize_digit_head (c : Nat) (cs : Str) (hc : 48 ≤ c ∧ c ≤ 57) :
    parseUsize (c :: cs) =
      if (c :: cs).all isAsciiDigit then
        (if digitsVal (c :: cs) ≤ 18446744073709551615 then some (digitsVal (c :: cs)) else none)
      else none := by
  unfold parseUsize
  split
  · rename_i h; injection h with h; omega
  · by_cases hall : (c :: cs).all isAsciiDigit = true <;> simp [hall]

/-- `parse::<isize>` reads a rendered natural number back (up to `isize::MAX`) -/
theorem parseIsize_natToStr (k : Nat) (hk : k ≤ 9223372036854775807) :
    parseIsize (natToStr k) = some (k : Int) := by
  have hall := natToStr_all_digit k
  have hv := digitsVal_natToStr k
  cases hs : natToStr k with
  | nil => exact absurd hs (natToStr_ne_nil k)
  | cons c cs =>
    have hc := natToStr_digits k c (by rw [hs]; exact List.mem_cons_self ..)
    rw [hs] at hall hv
    rw [parseIsize_digit_head c cs hc, if_pos hall, hv, if_pos hk]

/-- beyond `isize::MAX` the rendering is rejected -/
theorem parseIsize_natToStr_big (k : Nat) (hk : 9223372036854775807 < k) :
    parseIsize (natToStr k) = none := by
  have hall := natToStr_all_digit k
  have hv := digitsVal_natToStr k
  cases hs : natToStr k with
  | nil => exact absurd hs (natToStr_ne_nil k)
  | cons c cs =>
    have hc := natToStr_digits k c (by rw [hs]; exact List.mem_cons_self ..)
    rw [hs] at hall hv
    rw [parseIsize_digit_head c cs hc, if_pos hall, hv, if_neg (by omega)]

/-- `parse::<usize>` reads a rendered natural number back (up to `usize::MAX`) -/
theorem parseUsize_natToStr (k : Nat) (hk : k ≤ 18446744073709551615) :
    parseUsize (natToStr k) = some k := by
  have hall := natToStr_all_digit k
  have hv := digitsVal_natToStr k
  cases hs : natToStr k with
  | nil => exact absurd hs (natToStr_ne_nil k)
  | cons c cs =>
    have hc := natToStr_digits k c (by rw [hs]; exact List.mem_cons_self ..)
    rw [hs] at hall hv
    rw [parseUsize_digit_head c cs hc, if_pos hall, hv, if_pos hk]

/-! ## UTF-8 -/

/-- Unicode scalar value: a code point that is not a surrogate -/
def Scalar (c : Nat) : Prop := c < 0x110000 ∧ ¬ (0xD800 ≤ c ∧ c ≤ 0xDFFF)

theorem u8_lt (a b : UInt8) : (a < b) ↔ a.toNat < b.toNat := UInt8.lt_iff_toNat_lt
theorem u8_le (a b : UInt8) : (a ≤ b) ↔ a.toNat ≤ b.toNat := UInt8.le_iff_toNat_le
theorem u8_beq (a b : UInt8) : (a == b) = decide (a.toNat = b.toNat) := by
  by_cases h : a = b
  · subst h; simp
  · have : a.toNat ≠ b.toNat := fun e => h (UInt8.toNat_inj.1 e)
    simp [h, this]
theorem u8_toNat (n : Nat) : n.toUInt8.toNat = n % 256 := by simp

theorem decode_cons1 (b0 : UInt8) (rest : List UInt8) (h : b0.toNat < 0x80) :
    decodeUtf8 (b0 :: rest) = (decodeUtf8 rest).map (b0.toNat :: ·) := by
  have hl : b0 < 0x80 := by rw [u8_lt]; exact h
  conv => lhs; unfold decodeUtf8
  simp only [hl, if_true]

theorem decode_cons2 (b0 b1 : UInt8) (rest : List UInt8) (h0 : 0xC2 ≤ b0.toNat ∧ b0.toNat ≤ 0xDF)
    (h1 : 0x80 ≤ b1.toNat ∧ b1.toNat ≤ 0xBF) :
    decodeUtf8 (b0 :: b1 :: rest) = (decodeUtf8 rest).map (((b0.toNat - 0xC0) * 64 + (b1.toNat - 0x80)) :: ·) := by
  have hl : ¬ b0 < 0x80 := by rw [u8_lt]; simp; omega
  have h2 : ((0xC2 : UInt8) ≤ b0 && b0 ≤ 0xDF) = true := by
    simp only [Bool.and_eq_true, decide_eq_true_eq, u8_le]; simp; omega
  have hc : cont b1 = true := by
    simp only [cont, Bool.and_eq_true, decide_eq_true_eq, u8_le]; simp; omega
  conv => lhs; unfold decodeUtf8
  simp only [hl, h2, hc, if_true, if_false]

theorem decode_cons3 (b0 b1 b2 : UInt8) (rest : List UInt8) (h0 : 0xE0 ≤ b0.toNat ∧ b0.toNat ≤ 0xEF)
    (h1 : 0x80 ≤ b1.toNat ∧ b1.toNat ≤ 0xBF) (h1' : b0.toNat = 0xE0 → 0xA0 ≤ b1.toNat)
    (h1'' : b0.toNat = 0xED → b1.toNat ≤ 0x9F)
    (h2 : 0x80 ≤ b2.toNat ∧ b2.toNat ≤ 0xBF) :
    decodeUtf8 (b0 :: b1 :: b2 :: rest) = (decodeUtf8 rest).map
      (((b0.toNat - 0xE0) * 4096 + (b1.toNat - 0x80) * 64 + (b2.toNat - 0x80)) :: ·) := by
  have hl : ¬ b0 < 0x80 := by rw [u8_lt]; simp; omega
  have hl2 : ((0xC2 : UInt8) ≤ b0 && b0 ≤ 0xDF) = false := by
    rw [Bool.eq_false_iff]; simp only [ne_eq, Bool.and_eq_true, decide_eq_true_eq, u8_le]; simp; omega
  have hl3 : ((0xE0 : UInt8) ≤ b0 && b0 ≤ 0xEF) = true := by
    simp only [Bool.and_eq_true, decide_eq_true_eq, u8_le]; simp; omega
  have hc : cont b2 = true := by
    simp only [cont, Bool.and_eq_true, decide_eq_true_eq, u8_le]; simp; omega
  have hok : (if (b0 == 0xE0) = true then decide (0xA0 ≤ b1) && decide (b1 ≤ 0xBF)
                   else if (b0 == 0xED) = true then decide (0x80 ≤ b1) && decide (b1 ≤ 0x9F)
                   else cont b1) = true := by
    simp only [u8_beq, cont, u8_le, decide_eq_true_eq]
    split
    · simp; rename_i h; simp at h; omega
    · split
      · simp; rename_i h; simp at h; omega
      · simp; omega
  conv => lhs; unfold decodeUtf8
  simp only [hl, hl2, hl3, hc, hok, if_true, if_false, Bool.false_eq_true, Bool.and_self]

theorem decode_cons4 (b0 b1 b2 b3 : UInt8) (rest : List UInt8) (h0 : 0xF0 ≤ b0.toNat ∧ b0.toNat ≤ 0xF4)
    (h1 : 0x80 ≤ b1.toNat ∧ b1.toNat ≤ 0xBF) (h1' : b0.toNat = 0xF0 → 0x90 ≤ b1.toNat)
    (h1'' : b0.toNat = 0xF4 → b1.toNat ≤ 0x8F)
    (h2 : 0x80 ≤ b2.toNat ∧ b2.toNat ≤ 0xBF) (h3 : 0x80 ≤ b3.toNat ∧ b3.toNat ≤ 0xBF) :
    decodeUtf8 (b0 :: b1 :: b2 :: b3 :: rest) = (decodeUtf8 rest).map
      (((b0.toNat - 0xF0) * 262144 + (b1.toNat - 0x80) * 4096 + (b2.toNat - 0x80) * 64 + (b3.toNat - 0x80)) :: ·) := by
  have hl : ¬ b0 < 0x80 := by rw [u8_lt]; simp; omega
  have hl2 : ((0xC2 : UInt8) ≤ b0 && b0 ≤ 0xDF) = false := by
    rw [Bool.eq_false_iff]; simp only [ne_eq, Bool.and_eq_true, decide_eq_true_eq, u8_le]; simp; omega
  have hl3 : ((0xE0 : UInt8) ≤ b0 && b0 ≤ 0xEF) = false := by
    rw [Bool.eq_false_iff]; simp only [ne_eq, Bool.and_eq_true, decide_eq_true_eq, u8_le]; simp; omega
  have hl4 : ((0xF0 : UInt8) ≤ b0 && b0 ≤ 0xF4) = true := by
    simp only [Bool.and_eq_true, decide_eq_true_eq, u8_le]; simp; omega
  have hc2 : cont b2 = true := by
    simp only [cont, Bool.and_eq_true, decide_eq_true_eq, u8_le]; simp; omega
  have hc3 : cont b3 = true := by
    simp only [cont, Bool.and_eq_true, decide_eq_true_eq, u8_le]; simp; omega
  have hok : (if (b0 == 0xF0) = true then decide (0x90 ≤ b1) && decide (b1 ≤ 0xBF)
                   else if (b0 == 0xF4) = true then decide (0x80 ≤ b1) && decide (b1 ≤ 0x8F)
                   else cont b1) = true := by
    simp only [u8_beq, cont, u8_le, decide_eq_true_eq]
    split
    · simp; rename_i h; simp at h; omega
    · split
      · simp; rename_i h; simp at h; omega
      · simp; omega
  conv => lhs; unfold decodeUtf8
  simp only [hl, hl2, hl3, hl4, hc2, hc3, hok, if_true, if_false, Bool.false_eq_true, Bool.and_self]


/-- the UTF-8 encoding of one code point -/
def encChar (c : Nat) : List UInt8 :=
  if c < 0x80 then [c.toUInt8]
  else if c < 0x800 then [(0xC0 + c / 64).toUInt8, (0x80 + c % 64).toUInt8]
  else if c < 0x10000 then [(0xE0 + c / 4096).toUInt8, (0x80 + c / 64 % 64).toUInt8, (0x80 + c % 64).toUInt8]
  else [(0xF0 + c / 262144).toUInt8, (0x80 + c / 4096 % 64).toUInt8, (0x80 + c / 64 % 64).toUInt8,
        (0x80 + c % 64).toUInt8]

theorem encodeUtf8_cons (c : Nat) (cs : Str) : encodeUtf8 (c :: cs) = encChar c ++ encodeUtf8 cs := by
  rw [encodeUtf8]; rfl

theorem encodeUtf8_nil : encodeUtf8 [] = [] := by rw [encodeUtf8]

theorem encodeUtf8_append (a b : Str) : encodeUtf8 (a ++ b) = encodeUtf8 a ++ encodeUtf8 b := by
  induction a with
  | nil => simp [encodeUtf8_nil]
  | cons c cs ih => simp only [List.cons_append, encodeUtf8_cons, ih, List.append_assoc]

theorem decode_encChar (c : Nat) (hc : Scalar c) (rest : List UInt8) :
    decodeUtf8 (encChar c ++ rest) = (decodeUtf8 rest).map (c :: ·) := by
  obtain ⟨hlt, hsur⟩ := hc
  unfold encChar
  by_cases h1 : c < 0x80
  · rw [if_pos h1, List.singleton_append, decode_cons1 _ _ (by rw [u8_toNat]; omega)]
    have : c.toUInt8.toNat = c := by rw [u8_toNat]; omega
    rw [this]
  · rw [if_neg h1]
    by_cases h2 : c < 0x800
    · rw [if_pos h2]
      have e0 : (0xC0 + c / 64).toUInt8.toNat = 0xC0 + c / 64 := by rw [u8_toNat]; omega
      have e1 : (0x80 + c % 64).toUInt8.toNat = 0x80 + c % 64 := by rw [u8_toNat]; omega
      simp only [List.cons_append, List.nil_append]
      rw [decode_cons2 _ _ _ (by rw [e0]; omega) (by rw [e1]; omega), e0, e1]
      have : (0xC0 + c / 64 - 0xC0) * 64 + (0x80 + c % 64 - 0x80) = c := by omega
      rw [this]
    · rw [if_neg h2]
      by_cases h3 : c < 0x10000
      · rw [if_pos h3]
        have e0 : (0xE0 + c / 4096).toUInt8.toNat = 0xE0 + c / 4096 := by rw [u8_toNat]; omega
        have e1 : (0x80 + c / 64 % 64).toUInt8.toNat = 0x80 + c / 64 % 64 := by rw [u8_toNat]; omega
        have e2 : (0x80 + c % 64).toUInt8.toNat = 0x80 + c % 64 := by rw [u8_toNat]; omega
        simp only [List.cons_append, List.nil_append]
        rw [decode_cons3 _ _ _ _ (by rw [e0]; omega) (by rw [e1]; omega) (by rw [e0, e1]; omega)
          (by rw [e0, e1]; omega) (by rw [e2]; omega), e0, e1, e2]
        have : (0xE0 + c / 4096 - 0xE0) * 4096 + (0x80 + c / 64 % 64 - 0x80) * 64 + (0x80 + c % 64 - 0x80) = c := by omega
        rw [this]
      · rw [if_neg h3]
        have e0 : (0xF0 + c / 262144).toUInt8.toNat = 0xF0 + c / 262144 := by rw [u8_toNat]; omega
        have e1 : (0x80 + c / 4096 % 64).toUInt8.toNat = 0x80 + c / 4096 % 64 := by rw [u8_toNat]; omega
        have e2 : (0x80 + c / 64 % 64).toUInt8.toNat = 0x80 + c / 64 % 64 := by rw [u8_toNat]; omega
        have e3 : (0x80 + c % 64).toUInt8.toNat = 0x80 + c % 64 := by rw [u8_toNat]; omega
        simp only [List.cons_append, List.nil_append]
        rw [decode_cons4 _ _ _ _ _ (by rw [e0]; omega) (by rw [e1]; omega) (by rw [e0, e1]; omega)
          (by rw [e0, e1]; omega) (by rw [e2]; omega) (by rw [e3]; omega), e0, e1, e2, e3]
        have : (0xF0 + c / 262144 - 0xF0) * 262144 + (0x80 + c / 4096 % 64 - 0x80) * 4096 +
            (0x80 + c / 64 % 64 - 0x80) * 64 + (0x80 + c % 64 - 0x80) = c := by omega
        rw [this]

/-- **UTF-8 round trip** for every string of Unicode scalar values -/
theorem decode_encode (s : Str) (h : ∀ c ∈ s, Scalar c) : decodeUtf8 (encodeUtf8 s) = some s := by
  induction s with
  | nil => simp [encodeUtf8_nil, decodeUtf8]
  | cons c cs ih =>
    rw [encodeUtf8_cons, decode_encChar c (h c (List.mem_cons_self ..)),
      ih (fun d hd => h d (List.mem_cons_of_mem _ hd))]
    rfl

/-- the bytes of an encoded scalar: the code point itself (ASCII) or bytes `≥ 0x80` -/
theorem encChar_bytes (c : Nat) (hlt : c < 0x110000) :
    encChar c ≠ [] ∧ ∀ b ∈ encChar c, (c < 0x80 ∧ b.toNat = c) ∨ 0x80 ≤ b.toNat := by
  unfold encChar
  split
  · refine ⟨by simp, ?_⟩
    intro b hb
    simp only [List.mem_cons, List.not_mem_nil, or_false] at hb
    left; rw [hb, u8_toNat]; omega
  · split
    · refine ⟨by simp, ?_⟩
      intro b hb
      simp only [List.mem_cons, List.not_mem_nil, or_false] at hb
      right; rcases hb with hb | hb <;> (rw [hb, u8_toNat]; omega)
    · split
      · refine ⟨by simp, ?_⟩
        intro b hb
        simp only [List.mem_cons, List.not_mem_nil, or_false] at hb
        right; rcases hb with hb | hb | hb <;> (rw [hb, u8_toNat]; omega)
      · refine ⟨by simp, ?_⟩
        intro b hb
        simp only [List.mem_cons, List.not_mem_nil, or_false] at hb
        right; rcases hb with hb | hb | hb | hb <;> (rw [hb, u8_toNat]; omega)

theorem encode_bytes (s : Str) (h : ∀ c ∈ s, c < 0x110000) :
    ∀ b ∈ encodeUtf8 s, (∃ c ∈ s, c < 0x80 ∧ b.toNat = c) ∨ 0x80 ≤ b.toNat := by
  induction s with
  | nil => simp [encodeUtf8_nil]
  | cons c cs ih =>
    intro b hb
    rw [encodeUtf8_cons] at hb
    rcases List.mem_append.1 hb with hb | hb
    · rcases (encChar_bytes c (h c (List.mem_cons_self ..))).2 b hb with h1 | h1
      · exact Or.inl ⟨c, List.mem_cons_self .., h1⟩
      · exact Or.inr h1
    · rcases ih (fun d hd => h d (List.mem_cons_of_mem _ hd)) b hb with ⟨d, hd, h1⟩ | h1
      · exact Or.inl ⟨d, List.mem_cons_of_mem _ hd, h1⟩
      · exact Or.inr h1

/-- no byte of the encoding of a `\n`-free string is `\n` -/
theorem encode_no_nl (s : Str) (h : ∀ c ∈ s, c < 0x110000 ∧ c ≠ 10) : ∀ b ∈ encodeUtf8 s, b ≠ 0x0A := by
  intro b hb hb10
  have hn : b.toNat = 10 := by rw [hb10]; rfl
  rcases encode_bytes s (fun c hc => (h c hc).1) b hb with ⟨c, hc, _, h2⟩ | h1
  · exact (h c hc).2 (by omega)
  · omega

/-- the encoding ends with `\r` only if the string does -/
theorem encode_getLast (s : Str) (h : ∀ c ∈ s, c < 0x110000) (hl : s.getLast? ≠ some 13) :
    (encodeUtf8 s).getLast? ≠ some 0x0D := by
  rcases List.eq_nil_or_concat s with rfl | ⟨init, c, rfl⟩
  · simp [encodeUtf8_nil]
  · have hc13 : c ≠ 13 := by simpa using hl
    have hc := h c (by simp)
    obtain ⟨hne, hb⟩ := encChar_bytes c hc
    rw [List.concat_eq_append, encodeUtf8_append, encodeUtf8_cons, encodeUtf8_nil, List.append_nil,
      List.getLast?_append]
    intro hlast
    have hlast : (encChar c).getLast? = some 0x0D := by
      cases hg : (encChar c).getLast? with
      | none => exact absurd (List.getLast?_eq_none_iff.1 hg) hne
      | some x => rw [hg] at hlast; simpa using hlast
    have hmem : (0x0D : UInt8) ∈ encChar c := List.mem_of_getLast? hlast
    rcases hb _ hmem with ⟨_, h2⟩ | h2
    · have : (0x0D : UInt8).toNat = 13 := rfl
      omega
    · have : (0x0D : UInt8).toNat = 13 := rfl
      omega


/-! ## `lines` on encoded text -/

theorem splitRaw_go_seg (bs rest cur : List UInt8) (h : ∀ b ∈ bs, b ≠ 0x0A) :
    splitRaw.go (bs ++ rest) cur = splitRaw.go rest (bs.reverse ++ cur) := by
  induction bs generalizing cur with
  | nil => simp
  | cons b bs ih =>
    have hb : (b == 0x0A) = false := by simpa using h b (List.mem_cons_self ..)
    simp only [List.cons_append, splitRaw.go, hb, Bool.false_eq_true, if_false]
    rw [ih _ (fun d hd => h d (List.mem_cons_of_mem _ hd))]
    simp

/-- a line that can be written with a `\n` terminator and read back unchanged: Unicode scalar
values, no `\n` inside, no `\r` at the end (it would be taken for a `\r\n` terminator) -/
def LineOk (l : Str) : Prop := (∀ c ∈ l, Scalar c ∧ c ≠ 10) ∧ l.getLast? ≠ some 13

theorem stripCr_ok (bs : List UInt8) (h : bs.getLast? ≠ some 0x0D) : stripCr (bs, true) = bs := by
  show (match bs.getLast? with | some 0x0D => bs.dropLast | _ => bs) = bs
  split
  · rename_i hx; exact absurd hx h
  · rfl

theorem encChar_nl : encChar 10 = [0x0A] := by decide

theorem lines_cons (l rest : Str) (h : LineOk l) :
    lines (encodeUtf8 (l ++ 10 :: rest)) = some l :: lines (encodeUtf8 rest) := by
  obtain ⟨h1, h2⟩ := h
  have hnl := encode_no_nl l (fun c hc => ⟨(h1 c hc).1.1, (h1 c hc).2⟩)
  have hcr := encode_getLast l (fun c hc => (h1 c hc).1.1) h2
  unfold lines splitRaw
  rw [encodeUtf8_append, encodeUtf8_cons, encChar_nl, splitRaw_go_seg _ _ _ hnl]
  simp only [List.append_nil, List.cons_append, List.nil_append, splitRaw.go, beq_self_eq_true, if_true,
    List.reverse_reverse, List.map_cons]
  rw [stripCr_ok _ hcr]
  congr 1
  exact decode_encode l (fun c hc => (h1 c hc).1)

theorem lines_last (l : Str) (hne : l ≠ []) (h : ∀ c ∈ l, Scalar c ∧ c ≠ 10) :
    lines (encodeUtf8 l) = [some l] := by
  have hnl := encode_no_nl l (fun c hc => ⟨(h c hc).1.1, (h c hc).2⟩)
  have hne' : encodeUtf8 l ≠ [] := by
    cases l with
    | nil => exact absurd rfl hne
    | cons c cs =>
      rw [encodeUtf8_cons]
      have := (encChar_bytes c (h c (List.mem_cons_self ..)).1.1).1
      simp [this]
  unfold lines splitRaw
  have := splitRaw_go_seg (encodeUtf8 l) [] [] hnl
  rw [List.append_nil] at this
  rw [this]
  simp only [List.append_nil, splitRaw.go, List.isEmpty_reverse]
  have he : (encodeUtf8 l).isEmpty = false := by simpa using hne'
  simp only [he, Bool.false_eq_true, if_false, List.reverse_reverse, List.map_cons, List.map_nil, stripCr]
  rw [decode_encode l (fun c hc => (h c hc).1)]

theorem lines_nil : lines (encodeUtf8 []) = [] := by
  simp [lines, splitRaw, splitRaw.go, encodeUtf8_nil]

/-- `\n`-terminated lines -/
def unlines (ls : List Str) : Str := ls.flatMap (fun l => l ++ [10])

/-- **`lines` of written lines**: a file made of `\n`-terminated lines reads back as these lines -/
theorem lines_encode_flatMap (ls : List Str) (h : ∀ l ∈ ls, LineOk l) :
    lines (encodeUtf8 (ls.flatMap (fun l => l ++ [10]))) = ls.map some := by
  induction ls with
  | nil => simpa using lines_nil
  | cons l ls ih =>
    simp only [List.flatMap_cons, List.append_assoc, List.singleton_append, List.map_cons]
    rw [lines_cons l _ (h l (List.mem_cons_self ..)), ih (fun x hx => h x (List.mem_cons_of_mem _ hx))]

/-- the same with a last line that has no terminator -/
theorem lines_encode_flatMap_last (ls : List Str) (last : Str) (h : ∀ l ∈ ls, LineOk l)
    (hne : last ≠ []) (hl : ∀ c ∈ last, Scalar c ∧ c ≠ 10) :
    lines (encodeUtf8 (ls.flatMap (fun l => l ++ [10]) ++ last)) = ls.map some ++ [some last] := by
  induction ls with
  | nil => simpa using lines_last last hne hl
  | cons l ls ih =>
    simp only [List.flatMap_cons, List.append_assoc, List.map_cons, List.cons_append,
      List.nil_append]
    rw [lines_cons l _ (h l (List.mem_cons_self ..)), ih (fun x hx => h x (List.mem_cons_of_mem _ hx))]

/-- lines separated by `\n`, with or without a final `\n` -/
def joinLines (ls : List Str) (finalNl : Bool) : Str :=
  intercalate [10] ls ++ (if finalNl then [10] else [])

/-- `lines` of `\n`-separated lines; without a final `\n` the last line must be non-empty (an empty
unterminated last line does not exist for `BufRead::lines`) -/
theorem lines_joinLines (ls : List Str) (nl : Bool) (hls : ls ≠ []) (h : ∀ l ∈ ls, LineOk l)
    (hlast : nl = false → ls.getLast? ≠ some []) :
    lines (encodeUtf8 (joinLines ls nl)) = ls.map some := by
  unfold joinLines
  induction ls with
  | nil => exact absurd rfl hls
  | cons l ls ih =>
    have hl := h l (List.mem_cons_self ..)
    cases ls with
    | nil =>
      cases nl
      · simp only [intercalate, Bool.false_eq_true, if_false, List.append_nil, List.map_cons, List.map_nil]
        have hne : l ≠ [] := by
          intro e; exact hlast rfl (by simp [e])
        exact lines_last l hne hl.1
      · simp only [intercalate, if_true, List.map_cons, List.map_nil]
        rw [lines_cons l [] hl, lines_nil]
    | cons l2 ls =>
      have := ih (by simp) (fun x hx => h x (List.mem_cons_of_mem _ hx))
        (fun e => by have := hlast e; simpa [List.getLast?_cons_cons] using this)
      simp only [intercalate, List.append_assoc, List.map_cons, List.cons_append, List.nil_append] at this ⊢
      rw [lines_cons l _ hl, this]

end Crusta.IO
