import Crusta.Proofs.DynAttQuery
import Crusta.Proofs.DynHistory

/-!
# Every reachable state of an attack-assumption solver, every query, every sound reply list

`update_preserves`: the four update entry points keep the invariant, report an error exactly when
the store does and then change nothing, and a redundant update changes nothing either.
`Reach`: the states reachable from a fresh solver (any reservation factor `num/den ≥ 1`) by updates
and by queries run to completion on sound replies.  `reach_inv` + `query_ok`: in every such state the
pending framework is the one obtained by applying the accepted updates, and every answer is correct
for it (`CredOK` / `SkepOK`: status, certificate).
-/

namespace Crusta.DynAtt
open Crusta Crusta.Dyn Crusta.Store

theorem AQInv_init (sem : DSem) (hsem : sem ≠ .PR) (num den : Nat) (hfac : 0 < den ∧ den ≤ num) :
    AQInv sem (ADState.init sem num den) ({} : World).onNew := by
  refine ⟨⟨inv_empty, ⟨⟨rfl, hsem, hfac, ?_⟩, ?_⟩, rfl, Nat.le_refl _⟩, inv_empty, ?_⟩
  · intro i v hv
    simp [ADState.init, AEnc.av] at hv
  · intro hne; cases hne
  · intro c hc
    simp [ADState.init] at hc

/-! ## updates -/

/-- pushing an effective update -/
theorem AQInv_buffer_update {sem : DSem} {d : ADState} {w : World} (h : AQInv sem d w) {ev : Event} {op : StoreOp}
    {p : Store} (hop : Event.op ev = some op) (hev : ev.isUpdate = true) (heff : Eff d.pending op p)
    (hp : p.Inv) : AQInv sem { d with pending := p, buffer := d.buffer ++ [ev] } w := by
  have hle := h.dinv.next_le
  refine ⟨⟨h.dinv.af_inv, h.dinv.est, ?_, by show d.next ≤ (d.buffer ++ [ev]).length; simp; omega⟩, hp, ?_⟩
  · show EffRun d.af ((d.buffer ++ [ev]).drop d.next) p
    rw [List.drop_append_of_le_length hle]
    exact EffRun_append _ _ _ _ _ _ h.dinv.sync hop heff
  · intro c hc
    have : ({ d with pending := p, buffer := d.buffer ++ [ev] } : ADState).buffer = d.buffer ++ [ev] := rfl
    rw [this, tail_after_update _ _ hev] at hc
    cases hc

/-- **the update entry points** (C09): the result is the store's, an error or a redundant update
changes nothing, and the invariant is kept -/
theorem update_preserves {sem : DSem} {d : ADState} {w : World} (h : AQInv sem d w) (op : StoreOp) :
    AQInv sem (d.update op).1 w ∧
    ((d.update op).2 = .ok ∧ d.pending.step op = .ok (d.update op).1.pending ∨
     (d.update op).2 = .err ∧ d.pending.step op = .err d.pending ∧ (d.update op).1 = d) ∧
    ((d.update op).1.pending = d.pending → (d.update op).1 = d) := by
  have hpinv := h.pend_inv
  cases op with
  | newArg l =>
    by_cases hex : ∃ i, d.pending.Live i l
    · obtain ⟨i, hi⟩ := hex
      have he := newArgument_existing hpinv hi
      have hd : d.update (.newArg l) = (d, .ok) := by
        simp only [ADState.update, he, Nat.lt_irrefl, gt_iff_lt, if_false]
      rw [hd]
      exact ⟨h, Or.inl ⟨rfl, by simp [Store.step, he]⟩, fun _ => rfl⟩
    · have hfresh : ∀ i, ¬ d.pending.Live i l := fun i hi => hex ⟨i, hi⟩
      have he := newArgument_fresh hpinv hfresh
      have hgt := nArguments_pushArg hpinv l
      have hd : d.update (.newArg l) =
          ({ d with pending := d.pending.pushArg l, buffer := d.buffer ++ [.newArg l] }, .ok) := by
        simp only [ADState.update, he, hgt, if_true]
      rw [hd]
      refine ⟨AQInv_buffer_update h (op := .newArg l) rfl rfl ⟨by simp [Store.step, he], hgt⟩
        (inv_pushArg hpinv hfresh), Or.inl ⟨rfl, by simp [Store.step, he]⟩, ?_⟩
      intro heq
      exfalso
      have : (d.pending.pushArg l).nArguments > d.pending.nArguments := hgt
      simp only at heq
      rw [heq] at this
      exact Nat.lt_irrefl _ this
  | remArg l =>
    by_cases hex : ∃ i, d.pending.Live i l
    · obtain ⟨i, hi⟩ := hex
      have he := (removeArgument_spec hpinv l).1 i hi
      have hd : d.update (.remArg l) =
          ({ d with pending := d.pending.dropArg l i, buffer := d.buffer ++ [.remArg l] }, .ok) := by
        simp only [ADState.update, he]
      rw [hd]
      refine ⟨AQInv_buffer_update h (op := .remArg l) rfl rfl ⟨by simp [Store.step, he], trivial⟩
        (inv_dropArg hpinv hi), Or.inl ⟨rfl, by simp [Store.step, he]⟩, ?_⟩
      intro heq
      exfalso
      simp only at heq
      have h1 : (d.pending.dropArg l i).hasId i = true := by rw [heq]; exact hasId_iff.2 ⟨l, hi⟩
      rw [hasId_dropArg] at h1
      simp at h1
    · have he := (removeArgument_spec hpinv l).2 (fun i hi => hex ⟨i, hi⟩)
      have hd : d.update (.remArg l) = (d, .err) := by simp only [ADState.update, he]
      rw [hd]
      exact ⟨h, Or.inr ⟨rfl, by simp [Store.step, he], rfl⟩, fun _ => rfl⟩
  | newAtt la lb =>
    by_cases hexa : ∃ a, d.pending.Live a la
    · by_cases hexb : ∃ b, d.pending.Live b lb
      · obtain ⟨a, ha⟩ := hexa
        obtain ⟨b, hb⟩ := hexb
        by_cases hh : d.pending.HasAtt a b
        · have he := ((newAttack_spec hpinv la lb).1 a b ha hb).1 hh
          have hd : d.update (.newAtt la lb) = (d, .ok) := by
            simp only [ADState.update, he, Nat.lt_irrefl, gt_iff_lt, if_false]
          rw [hd]
          exact ⟨h, Or.inl ⟨rfl, by simp [Store.step, he]⟩, fun _ => rfl⟩
        · have he := ((newAttack_spec hpinv la lb).1 a b ha hb).2 hh
          have hgt := nAttacks_pushAtt hpinv a b
          have hd : d.update (.newAtt la lb) =
              ({ d with pending := d.pending.pushAtt a b, buffer := d.buffer ++ [.newAtt la lb] }, .ok) := by
            simp only [ADState.update, he, hgt, if_true]
          rw [hd]
          refine ⟨AQInv_buffer_update h (op := .newAtt la lb) rfl rfl ⟨by simp [Store.step, he], hgt⟩
            (inv_pushAtt hpinv ha hb hh), Or.inl ⟨rfl, by simp [Store.step, he]⟩, ?_⟩
          intro heq
          exfalso
          have : (d.pending.pushAtt a b).nAttacks > d.pending.nAttacks := hgt
          simp only at heq
          rw [heq] at this
          exact Nat.lt_irrefl _ this
      · have he := (newAttack_spec hpinv la lb).2 (Or.inr (fun b hb => hexb ⟨b, hb⟩))
        have hd : d.update (.newAtt la lb) = (d, .err) := by simp only [ADState.update, he]
        rw [hd]
        exact ⟨h, Or.inr ⟨rfl, by simp [Store.step, he], rfl⟩, fun _ => rfl⟩
    · have he := (newAttack_spec hpinv la lb).2 (Or.inl (fun a ha => hexa ⟨a, ha⟩))
      have hd : d.update (.newAtt la lb) = (d, .err) := by simp only [ADState.update, he]
      rw [hd]
      exact ⟨h, Or.inr ⟨rfl, by simp [Store.step, he], rfl⟩, fun _ => rfl⟩
  | remAtt la lb =>
    have herr : d.pending.removeAttack la lb = .err d.pending →
        AQInv sem (d.update (.remAtt la lb)).1 w ∧
        ((d.update (.remAtt la lb)).2 = .ok ∧ d.pending.step (.remAtt la lb) = .ok (d.update (.remAtt la lb)).1.pending ∨
         (d.update (.remAtt la lb)).2 = .err ∧ d.pending.step (.remAtt la lb) = .err d.pending ∧
           (d.update (.remAtt la lb)).1 = d) ∧
        ((d.update (.remAtt la lb)).1.pending = d.pending → (d.update (.remAtt la lb)).1 = d) := by
      intro he
      have hd : d.update (.remAtt la lb) = (d, .err) := by simp only [ADState.update, he]
      rw [hd]
      exact ⟨h, Or.inr ⟨rfl, by simp [Store.step, he], rfl⟩, fun _ => rfl⟩
    by_cases hexa : ∃ a, d.pending.Live a la
    · by_cases hexb : ∃ b, d.pending.Live b lb
      · obtain ⟨a, ha⟩ := hexa
        obtain ⟨b, hb⟩ := hexb
        by_cases hh : d.pending.HasAtt a b
        · obtain ⟨k, hk⟩ := hh
          obtain ⟨pf, pt, he, h1, h2, h3, h4⟩ := ((removeAttack_spec hpinv la lb).1 a b ha hb).1 k hk
          have hd : d.update (.remAtt la lb) =
              ({ d with pending := d.pending.dropAtt a b k pf pt, buffer := d.buffer ++ [.remAtt la lb] }, .ok) := by
            simp only [ADState.update, he]
          rw [hd]
          refine ⟨AQInv_buffer_update h (op := .remAtt la lb) rfl rfl ⟨by simp [Store.step, he], trivial⟩
            (inv_dropAtt hpinv ha hb hk h1 h2 h3 h4), Or.inl ⟨rfl, by simp [Store.step, he]⟩, ?_⟩
          intro heq
          exfalso
          simp only at heq
          have h5 : (d.pending.dropAtt a b k pf pt).att k = some (a, b) := by rw [heq]; exact hk
          rw [att_dropAtt, if_pos rfl] at h5
          cases h5
        · exact herr (((removeAttack_spec hpinv la lb).1 a b ha hb).2 hh)
      · exact herr ((removeAttack_spec hpinv la lb).2 (Or.inr (fun b hb => hexb ⟨b, hb⟩)))
    · exact herr ((removeAttack_spec hpinv la lb).2 (Or.inl (fun a ha => hexa ⟨a, ha⟩)))

/-! ## histories -/

theorem update_enc (d : ADState) (op : StoreOp) : (d.update op).1.enc = d.enc := by
  cases op with
  | newArg l => simp only [ADState.update]; split <;> rfl
  | remArg l => simp only [ADState.update]; split <;> rfl
  | newAtt a b =>
    simp only [ADState.update]
    split
    · split <;> rfl
    · rfl
    · rfl
  | remAtt a b => simp only [ADState.update]; split <;> rfl

/-- one query on a state satisfying the invariant, on sound replies -/
theorem query_ok {sem : DSem} (hsem : sem ≠ .PR) {d : ADState} {w : World} (h : AQInv sem d w)
    (q : DQuery) {l id : Nat} (hl : d.pending.Live id l)
    {rs : List Reply} (hs : RunSound (query d q l) rs w) {d' : ADState} {a : AccAns} {w' : World}
    (hrun : interp (query d q l) rs w = (.done (d', a), w')) :
    AQInv sem d' w' ∧ d'.pending = d.pending ∧ AnswerOK sem d.pending q l a := by
  have henc : d.enc.sem = sem := h.dinv.est.1.sem_eq
  have key : wp True (query d q l) w (fun r w' => AQInv sem r.1 w' ∧ r.1.pending = d.pending ∧
      AnswerOK sem d.pending q l r.2) := by
    unfold query
    rw [henc]
    cases sem with
    | PR => exact absurd rfl hsem
    | CO =>
      cases q with
      | cred => exact wp_credQuery hsem h hl
      | skep => exact trivial
    | ST =>
      cases q with
      | cred => exact wp_credQuery hsem h hl
      | skep => exact wp_stSkepQuery h hl
  exact wp_sound _ rs w w' (d', a) _ key hs hrun

/-- the states reachable from a fresh solver: by update calls, and by queries about existing
arguments that ran to completion on sound replies; indexed by the update calls made so far -/
inductive Reach (sem : DSem) (num den : Nat) : List StoreOp → ADState → World → Prop
  | init : Reach sem num den [] (ADState.init sem num den) ({} : World).onNew
  | update {ops : List StoreOp} {d : ADState} {w : World} (op : StoreOp) :
      Reach sem num den ops d w → Reach sem num den (ops ++ [op]) (d.update op).1 w
  | query {ops : List StoreOp} {d : ADState} {w : World} (q : DQuery) (l id : Nat) (rs : List Reply)
      (d' : ADState) (a : AccAns) (w' : World) :
      Reach sem num den ops d w → d.pending.Live id l → RunSound (query d q l) rs w →
      interp (query d q l) rs w = (.done (d', a), w') → Reach sem num den ops d' w'

/-- **every reachable state satisfies the invariant**, and its pending framework is the store
obtained by applying the update calls made so far (rejected ones having no effect) -/
theorem reach_inv {sem : DSem} (hsem : sem ≠ .PR) {num den : Nat} (hfac : 0 < den ∧ den ≤ num)
    {ops : List StoreOp} {d : ADState} {w : World} (h : Reach sem num den ops d w) :
    AQInv sem d w ∧ runOps Store.empty ops = some d.pending := by
  induction h with
  | init => exact ⟨AQInv_init sem hsem num den hfac, rfl⟩
  | @update ops d w op _ ih =>
    obtain ⟨hq, hrun⟩ := ih
    obtain ⟨hq', hres, _⟩ := update_preserves hq op
    refine ⟨hq', ?_⟩
    rw [runOps_append _ _ _ _ hrun]
    rcases hres with ⟨_, hok⟩ | ⟨_, herr, hd⟩
    · simp only [runOps, hok]
    · simp only [runOps, herr, hd]
  | @query ops d w q l id rs d' a w' _ hl hs hrun ih =>
    obtain ⟨hq, hops⟩ := ih
    obtain ⟨hq', hp, _⟩ := query_ok hsem hq q hl hs hrun
    exact ⟨hq', by rw [hp]; exact hops⟩

/-- **the answers of the attack-assumption solvers are correct**: after any history of update calls
(valid, redundant or rejected) and completed queries, a query about an argument of the current
framework that runs to completion on sound replies returns a correct status and certificate for the
framework obtained by applying the accepted updates -/
theorem answers_correct {sem : DSem} (hsem : sem ≠ .PR) {num den : Nat} (hfac : 0 < den ∧ den ≤ num)
    {ops : List StoreOp} {d : ADState} {w : World} (h : Reach sem num den ops d w)
    (q : DQuery) {l id : Nat} (hl : d.pending.Live id l)
    {rs : List Reply} (hs : RunSound (query d q l) rs w) {d' : ADState} {a : AccAns} {w' : World}
    (hrun : interp (query d q l) rs w = (.done (d', a), w')) :
    ∃ st, runOps Store.empty ops = some st ∧ st = d.pending ∧ AnswerOK sem st q l a := by
  obtain ⟨hq, hops⟩ := reach_inv hsem hfac h
  exact ⟨d.pending, hops, rfl, (query_ok hsem hq q hl hs hrun).2.2⟩

end Crusta.DynAtt
