import Crusta.Proofs.Iso
import Crusta.Proofs.Maximal
import Crusta.Proofs.SolveIDAux
import Crusta.Proofs.Assemble

/-!
# C11 — statuses are invariant under presentation and mutually consistent (property theorems)

Spec-level theorems, for all frameworks (no bound on size): the textbook semantics — which the
judge of C01–C04 is proved to implement — depend only on the attack graph, and satisfy the
cross-semantics relations the property lists.  The metamorphic runs check that the real solvers'
answers on 20–300 arguments obey the same relations.
-/

namespace Crusta.C11
open Crusta

/-- reordering or repeating attack declarations changes no extension of any of the 7 semantics -/
theorem attack_lines_irrelevant (σ : Sem) {f g : AF} (h : f.SameGraph g) (S : ASet) :
    σ.Ext f S ↔ σ.Ext g S := ext_attack_set σ h S

/-- renaming / reordering arguments: extensions are mapped to extensions, for all 7 semantics -/
theorem renaming_invariant {af : AF} (ρ : Renaming af.n) (σ : Sem) (S : ASet) :
    σ.Ext (af.rename ρ.f) (imageSet S ρ.g) ↔ σ.Ext af S := ext_rename ρ σ S

/-- hence credulous and skeptical statuses are invariant under renaming -/
theorem status_renaming_invariant {af : AF} (ρ : Renaming af.n) (σ : Sem) (a : Nat) :
    ((∃ S, σ.Ext af S ∧ S a = true) ↔ (∃ S', σ.Ext (af.rename ρ.f) S' ∧ S' (ρ.f a) = true)) ∧
    ((∀ S, σ.Ext af S → S a = true) ↔ (∀ S', σ.Ext (af.rename ρ.f) S' → S' (ρ.f a) = true)) :=
  status_rename ρ σ a

/-- skeptical acceptance implies credulous acceptance whenever an extension exists -/
theorem skeptical_implies_credulous (σ : Sem) (af : AF) (a : Nat)
    (hex : ∃ S, σ.Ext af S) (hs : ∀ S, σ.Ext af S → S a = true) : ∃ S, σ.Ext af S ∧ S a = true := by
  obtain ⟨S, hS⟩ := hex
  exact ⟨S, hS, hs S hS⟩

/-- GR within every PR extension; ID within every PR extension; PR extensions are complete -/
theorem gr_id_within_pr {af : AF} {G I P : ASet} (hP : Preferred af P) :
    (Grounded af G → SubsetS G P) ∧ (Ideal af I → SubsetS I P) ∧ Complete af P :=
  ⟨fun hG => grounded_sub_preferred hG hP, fun hI => ideal_sub_preferred hI hP, preferred_complete hP⟩

/-- a credulously PR-accepted argument is credulously CO-accepted (the CLI answers DC-PR through
the complete solver; the converse direction is the existence of a preferred superset) -/
theorem dc_pr_implies_dc_co {af : AF} {a : Nat} (h : ∃ S, Preferred af S ∧ S a = true) :
    ∃ S, Complete af S ∧ S a = true := cred_pr_imp_cred_co h

/-- ST within PR, CO, SST and STG -/
theorem st_within {af : AF} (hwf : af.WF) {S : ASet} (h : Stable af S) :
    Preferred af S ∧ Complete af S ∧ SemiStable af S ∧ Stage af S :=
  ⟨stable_preferred hwf h, stable_complete hwf h, stable_semistable hwf h, stable_stage hwf h⟩

/-- ST, SST and STG coincide whenever a stable extension exists -/
theorem st_sst_stg_coincide {af : AF} (hwf : af.WF) {E : ASet} (hE : Stable af E) (S : ASet) :
    (SemiStable af S ↔ Stable af S) ∧ (Stage af S ↔ Stable af S) := Crusta.st_sst_stg_coincide hwf hE S

/-- non-vacuity: a renaming of a 3-argument framework (swap 0 and 2) -/
example : ∃ ρ : Renaming 3, ρ.f 0 = 2 :=
  ⟨⟨fun a => if a = 0 then 2 else if a = 2 then 0 else a, fun a => if a = 0 then 2 else if a = 2 then 0 else a,
    by intro a; by_cases h0 : a = 0 <;> by_cases h2 : a = 2 <;> simp_all,
    by intro a; by_cases h0 : a = 0 <;> by_cases h2 : a = 2 <;> simp_all,
    by intro a; by_cases h0 : a = 0 <;> by_cases h2 : a = 2 <;> simp_all <;> omega⟩, rfl⟩

/-- **credulous acceptance coincides for CO and PR**: an argument in some complete extension is in
some preferred extension (every admissible set lies in a preferred one), and conversely -/
theorem dc_co_iff_dc_pr {af : AF} {a : Nat} :
    (∃ S, Complete af S ∧ S a = true) ↔ (∃ S, Preferred af S ∧ S a = true) := by
  constructor
  · rintro ⟨S, hS, ha⟩
    obtain ⟨P, hP, hsub⟩ := exists_preferred_superset hS.1
    exact ⟨P, hP, hsub a ha⟩
  · rintro ⟨S, hS, ha⟩
    exact ⟨S, preferred_complete hS, ha⟩

/-- **GR ⊆ ID**: the grounded extension lies inside the ideal extension (which is complete) -/
theorem gr_within_id {af : AF} {G I : ASet} (hG : Grounded af G) (hI : Ideal af I) : SubsetS G I :=
  hG.2 I (ideal_complete hI)

/-- the ideal extension is unique; a preferred extension always exists -/
theorem id_unique_pr_exists (af : AF) :
    (∀ S T, Ideal af S → Ideal af T → ∀ a, S a = T a) ∧ (∃ P, Preferred af P) :=
  ⟨fun _ _ hS hT => ideal_unique hS hT, exists_preferred af⟩

/-- **locality (disjoint unions)**: when the live arguments are partitioned into parts that no
attack leaves or enters, the extensions of the whole graph — for each of the seven semantics — are
exactly the sets whose trace on every part is an extension of that part: adding an unrelated
component changes nothing inside the others -/
theorem locality {g : G} {parts : List (Nat → Bool)} (hp : Parts g parts)
    (hfin : ∃ n, ∀ a, g.live a = true → a < n) (σ : Sem) (S : ASet) (hS : ∀ a, S a = true → g.live a = true) :
    g.Ext σ S ↔ ∀ U ∈ parts, (g.restrict U).Ext σ (inter S U) := ext_parts hp hfin σ S hS

end Crusta.C11
