import Crusta.Spec.AF
import Crusta.Model.Cnf
import Crusta.Gen.Constants

/-!
# Model of the CNF encoders (`src/encodings/*`)

Each encoder is a function from a compact framework to the list of clauses the Rust code hands
to `SatSolver::add_clause`, in emission order, together with its variable layout, its `reserve`
argument and its decoding function.  Arguments are iterated in id order, attackers in
`attacks_to` row order (= attack-list order for compact frameworks).
-/

namespace Crusta

/-! ## cartesian product (model of `permutator::cart_prod`, order not relied upon) -/

def cartProd {α : Type} : List (List α) → List (List α)
  | [] => [[]]
  | D :: Ds => D.flatMap (fun d => (cartProd Ds).map (fun t => d :: t))

/-! ## aux_var layout: `x_a = 2(a+1)`, `P_a = 2(a+1)-1`, `r_a = 2n+a+1` -/

namespace Aux
def x (a : Nat) : Nat := (a + 1) * 2
def p (a : Nat) : Nat := (a + 1) * 2 - 1
def r (n a : Nat) : Nat := n * 2 + a + 1

def cfArg (af : AF) (a : Nat) : Cnf :=
  (af.attackers a).map (fun b => [nl (x a), nl (x b)])

def admArg (af : AF) (a : Nat) : Cnf :=
  (af.attackers a).map (fun b => [nl (x a), pl (p b)])

def coArg (af : AF) (a : Nat) : Cnf :=
  (af.attackers a).map (fun b => [nl (x a), pl (p b)]) ++
  [pl (x a) :: (af.attackers a).map (fun b => nl (p b))]

/-- `encode_disjunction_var`: `P_a ⇔ ⋁ attackers`, and `¬(x_a ∧ P_a)` -/
def disj (af : AF) (a : Nat) : Cnf :=
  [[nl (x a), nl (p a)]] ++ (af.attackers a).map (fun b => [pl (p a), nl (x b)]) ++
  [nl (p a) :: (af.attackers a).map (fun b => pl (x b))]

def range (n a : Nat) : Cnf :=
  [[nl (x a), pl (r n a)], [nl (p a), pl (r n a)], [nl (r n a), pl (x a), pl (p a)]]

def cf (af : AF) : Cnf := (List.range af.n).flatMap (cfArg af)
def adm (af : AF) : Cnf := (List.range af.n).flatMap (fun a => admArg af a ++ disj af a)
def co (af : AF) : Cnf := (List.range af.n).flatMap (fun a => coArg af a ++ disj af a)
def cfRange (af : AF) : Cnf :=
  (List.range af.n).flatMap (fun a => cfArg af a ++ disj af a ++ range af.n a)
def admRange (af : AF) : Cnf :=
  (List.range af.n).flatMap (fun a => admArg af a ++ disj af a ++ range af.n a)
def coRange (af : AF) : Cnf :=
  (List.range af.n).flatMap (fun a => coArg af a ++ disj af a ++ range af.n a)

/-- `assignment_to_extension`: even variables mapping to an id `< n` that are `Some(true)` -/
def decode (n : Nat) (m : List (Option Bool)) : List Nat :=
  (m.zipIdx).filterMap (fun (v, i) =>
    let var := i + 1
    if v == some true && var % 2 == 0 && var / 2 - 1 < n then some (var / 2 - 1) else none)
end Aux

/-! ## exp layout: `x_a = a+1`, `r_a = n+a+1` -/

namespace Exp
def x (a : Nat) : Nat := a + 1
def r (n a : Nat) : Nat := n + a + 1

def cfArg (af : AF) (a : Nat) : Cnf :=
  (af.attackers a).map (fun b => [nl (x a), nl (x b)])

/-- defender sets of `a`: for each attacker, the (positive literals of the) attackers of it -/
def defenders (af : AF) (a : Nat) : List (List Lit) :=
  (af.attackers a).map (fun b => (af.attackers b).map (fun d => pl (x d)))

def nontrivial (af : AF) (a : Nat) (defs : List (List Lit)) : Cnf :=
  cfArg af a ++ defs.map (fun d => nl (x a) :: d) ++
  (cartProd defs).map (fun t => pl (x a) :: t.map Lit.neg)

def coArg (af : AF) (a : Nat) : Cnf :=
  let defs := defenders af a
  if defs.isEmpty then [[pl (x a)]]
  else if defs.any (fun d => d.isEmpty) then [[nl (x a)]]
  else nontrivial af a defs

def range (af : AF) (a : Nat) : Cnf :=
  [[nl (x a), pl (r af.n a)], nl (r af.n a) :: pl (x a) :: (af.attackers a).map (fun b => pl (x b))]

def cf (af : AF) : Cnf := (List.range af.n).flatMap (cfArg af)
def co (af : AF) : Cnf := (List.range af.n).flatMap (coArg af)
def cfRange (af : AF) : Cnf := (List.range af.n).flatMap (fun a => cfArg af a ++ range af a)
def coRange (af : AF) : Cnf := (List.range af.n).flatMap (fun a => coArg af a ++ range af a)

/-- decoding: variables `1..` with `Some(true)` mapping to an id `< n` -/
def decode (n : Nat) (m : List (Option Bool)) : List Nat :=
  (m.zipIdx).filterMap (fun (v, i) => if v == some true && i < n then some i else none)
end Exp

/-! ## hybrid: exp below the threshold, lazily allocated disjunction variables above -/

namespace Hyb

structure St where
  dv : List (Option Nat)      -- `attacker_disjunction_vars`
  next : Nat                  -- `next_free_var_id`
  out : Cnf                   -- clauses emitted so far (reverse chunks are avoided: appended)

def dvOf (st : St) (a : Nat) : Option Nat := st.dv.getD a none

/-- `product` loop: running product, stops as soon as it reaches the threshold -/
def prodCapped (thr : Nat) : List Nat → Nat → Nat
  | [], acc => acc
  | k :: ks, acc => let acc' := acc * k; if acc' ≥ thr then acc' else prodCapped thr ks acc'

/-- `encode_disjunction_var_with` for attacker `b` with variable `v` -/
def disjWith (af : AF) (b v : Nat) : Cnf :=
  [[nl (Exp.x b), nl v]] ++ (af.attackers b).map (fun c => [pl v, nl (Exp.x c)]) ++
  [nl v :: (af.attackers b).map (fun c => pl (Exp.x c))]

/-- `create_attacker_disjunction_vars_for_attackers_of` -/
def allocFor (af : AF) (st : St) : List Nat → St
  | [] => st
  | b :: bs =>
    match dvOf st b with
    | some _ => allocFor af st bs
    | none =>
      let v := st.next
      allocFor af { dv := st.dv.set b (some v), next := st.next + 1, out := st.out ++ disjWith af b v } bs

/-- the aux_var-style complete clauses of `a`, with disjunction variables given by `P` -/
def auxCl (af : AF) (a : Nat) (P : Nat → Nat) : Cnf :=
  (af.attackers a).map (fun b => [nl (Exp.x a), pl (P b)]) ++
  [pl (Exp.x a) :: (af.attackers a).map (fun b => nl (P b))]

def argStep (thr : Nat) (af : AF) (st : St) (a : Nat) : St :=
  let defs := Exp.defenders af a
  if defs.isEmpty then { st with out := st.out ++ [[pl (Exp.x a)]] }
  else if defs.any (fun d => d.isEmpty) then { st with out := st.out ++ [[nl (Exp.x a)]] }
  else if prodCapped thr (defs.map List.length) 1 < thr then
    { st with out := st.out ++ Exp.nontrivial af a defs }
  else
    let st' := allocFor af st (af.attackers a)
    { st' with out := st'.out ++ auxCl af a (fun b => (dvOf st' b).getD 0) }

def rangeStep (af : AF) (st : St) (a : Nat) : St :=
  match dvOf st a with
  | some v =>
    { st with out := st.out ++
        [[nl (Exp.x a), pl (Exp.r af.n a)], [nl v, pl (Exp.r af.n a)],
         [nl (Exp.r af.n a), pl (Exp.x a), pl v]] }
  | none => { st with out := st.out ++ Exp.range af a }

def init (af : AF) (withRange : Bool) : St :=
  { dv := List.replicate af.n none, next := 1 + (if withRange then af.n * 2 else af.n), out := [] }

def run (thr : Nat) (af : AF) : St :=
  (List.range af.n).foldl (argStep thr af) (init af false)

def runRange (thr : Nat) (af : AF) : St :=
  (List.range af.n).foldl (fun st a => rangeStep af (argStep thr af st a) a) (init af true)

def co (thr : Nat) (af : AF) : Cnf := (run thr af).out
def coRange (thr : Nat) (af : AF) : Cnf := (runRange thr af).out
end Hyb

/-! ## default stable encoder: `x_a = a+1` -/

namespace Stb
def x (a : Nat) : Nat := a + 1

def argCl (af : AF) (a : Nat) : Cnf :=
  (af.attackers a).map (fun b => if b == a then [nl (x a)] else [nl (x a), nl (x b)]) ++
  [pl (x a) :: ((af.attackers a).filter (fun b => !(b == a))).map (fun b => pl (x b))]

def enc (af : AF) : Cnf := (List.range af.n).flatMap (argCl af)

/-- decoding: `Some(true)` (or rather `unwrap_or(false)`) variables `≤ n` -/
def decode (n : Nat) (m : List (Option Bool)) : List Nat :=
  (m.zipIdx).filterMap (fun (v, i) => if v == some true && i + 1 ≤ n then some i else none)
end Stb

/-! ## the encoder interface used by the solver models -/

inductive EncKind | auxCF | auxADM | auxCO | expCF | expCO | hyb | stb
deriving Repr, DecidableEq, Inhabited

def EncKind.ofString? : String → Option EncKind
  | "aux_cf" => some .auxCF | "aux_adm" => some .auxADM | "aux_co" => some .auxCO
  | "exp_cf" => some .expCF | "exp_co" => some .expCO | "hyb" => some .hyb | "stb" => some .stb
  | _ => none

def EncKind.clauses (k : EncKind) (af : AF) : Cnf :=
  match k with
  | .auxCF => Aux.cf af | .auxADM => Aux.adm af | .auxCO => Aux.co af
  | .expCF => Exp.cf af | .expCO => Exp.co af
  | .hyb => Hyb.co Gen.hybridThreshold af | .stb => Stb.enc af

def EncKind.clausesRange (k : EncKind) (af : AF) : Cnf :=
  match k with
  | .auxCF => Aux.cfRange af | .auxADM => Aux.admRange af | .auxCO => Aux.coRange af
  | .expCF => Exp.cfRange af | .expCO => Exp.coRange af
  | .hyb => Hyb.coRange Gen.hybridThreshold af | .stb => []

/-- argument of `solver.reserve` (`none`: no call) -/
def EncKind.reserve (k : EncKind) (n : Nat) (withRange : Bool) : Option Nat :=
  match k with
  | .auxCF | .auxADM | .auxCO => some (if withRange then n * 3 else n * 2)
  | .expCF | .expCO | .hyb => some (if withRange then n * 2 else n)
  | .stb => none

def EncKind.argVar (k : EncKind) (a : Nat) : Nat :=
  match k with
  | .auxCF | .auxADM | .auxCO => Aux.x a
  | _ => a + 1

def EncKind.firstRangeVar (k : EncKind) (n : Nat) : Nat :=
  match k with
  | .auxCF | .auxADM | .auxCO => Aux.r n 0
  | _ => Exp.r n 0

def EncKind.decode (k : EncKind) (n : Nat) (m : List (Option Bool)) : List Nat :=
  match k with
  | .auxCF | .auxADM | .auxCO => Aux.decode n m
  | .stb => Stb.decode n m
  | _ => Exp.decode n m

end Crusta
