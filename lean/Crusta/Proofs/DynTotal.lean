import Crusta.Proofs.DynHistory

/-!
# The dynamic solvers never panic on a supported query about an existing argument

The query theorems of `DynQuery.lean` / `DynPR.lean` are generic in what a `crash` node of the model
counts as (`wp C`).  Instantiated with `C = False` they say that, on replies a correct SAT solver may
give, a query about an argument of the current framework reaches **no** crash node:

* `needArg` / `DState.argLit`: the label is live and (after `update_encoding`) every live argument has
  a variable (`EncInv.av_live`);
* `removeSelector`, `updateAttacksTo`, `encNewArgument` / `encRemoveArgument` / `encAttack`: the replay
  of the buffer (`wp_updateEncoding`, generic in `C`) — the buffered events are effective (`EffRun`);
* `needLabels`: ids decoded from a model are ids of the framework (`EncInv.ty_arg`, `argsWhere_live`);
* `fromCache`: a cached extension is read only when no update follows it in the buffer, and then the
  solver's framework is still the pending one (`DInv.tail_sync`) of which the cached extension is an
  extension (`CacheSound`), so its ids are live (`wp_fromCache`);
* `DMEC.block` (`splitSparse`), `computeNext` in state `none`: excluded by the loop invariant `DL`;
* the model's **fuel** in the loop of the preferred solver (an artefact: the Rust loop has none): the
  loop makes at most `3 * 2 ^ n + 2` iterations, `n` the number of argument ids of the framework
  (`wp_prLoop`: every set of arguments is blocked at most once while it lies in no blocked set, and
  at most three iterations separate two such blockings), so the statements about the preferred solver
  carry the hypothesis `3 * 2 ^ d.pending.labels.length + 2 ≤ fuel` and nothing else.

The only remaining crash nodes are the two `unimplemented!()` entry points (`query` on `.CO, .skep`
and on `.PR, .cred`), which are excluded by hypothesis.
-/

namespace Crusta.Dyn
open Crusta.Store

/-- on sound replies a program that meets `wp False` ends in one of three ways: it returns a value
meeting the postcondition, the SAT solver answered `unknown` (the query is aborted), or the recorded
reply list was too short -/
theorem wp_outcome {α : Type} (p : Prog α) : ∀ (rs : List Reply) (w : World) (Q : α → World → Prop),
    wp False p w Q → RunSound p rs w →
      (∃ a w', interp p rs w = (.done a, w') ∧ Q a w') ∨ (∃ w', interp p rs w = (.abort, w')) ∨
      (∃ w', interp p rs w = (.starved, w')) := by
  induction p with
  | pure a0 => intro rs w Q h _; exact Or.inl ⟨a0, w, rfl, h⟩
  | crash m => intro rs w Q h; exact h.elim
  | newSolver k ih => intro rs w Q h hs; exact ih _ rs _ Q h hs
  | reserve s n k ih => intro rs w Q h hs; exact ih rs _ Q h hs
  | clause s c k ih => intro rs w Q h hs; exact ih rs _ Q h hs
  | nVars s k ih => intro rs w Q h hs; exact ih _ rs _ Q h hs
  | solve s as k ih =>
    intro rs w Q h hs
    cases rs with
    | nil => exact Or.inr (Or.inr ⟨_, rfl⟩)
    | cons r rs' =>
      cases r with
      | unknown => exact Or.inr (Or.inl ⟨_, rfl⟩)
      | unsat => exact ih none rs' _ Q (h.2 hs.1) hs.2
      | sat m => exact ih (some m) rs' _ Q (h.1 m hs.1) hs.2

/-! ## the complete and the stable solver -/

/-- credulous acceptance (complete and stable solvers): no crash node is reached -/
theorem credQuery_no_crash {sem : DSem} (hsem : sem ≠ .PR) {d : DState} {w : World} (h : QInv sem d w)
    {l id : Nat} (hl : d.pending.Live id l) :
    wp False (credQuery d l) w (fun r w' => QInv sem r.1 w' ∧ r.1.pending = d.pending ∧
      CredOK sem d.pending l r.2) := wp_credQuery hsem h hl

/-- skeptical acceptance (stable solver): no crash node is reached -/
theorem stSkepQuery_no_crash {d : DState} {w : World} (h : QInv .ST d w) {l id : Nat}
    (hl : d.pending.Live id l) :
    wp False (stSkepQuery d l) w (fun r w' => QInv .ST r.1 w' ∧ r.1.pending = d.pending ∧
      SkepOK .ST d.pending l r.2) := wp_stSkepQuery h hl

/-- a supported query of the complete or the stable solver about an existing argument: total
correctness in the calculus (the complete solver offers no skeptical query: `unimplemented!()`) -/
theorem query_total {sem : DSem} (hsem : sem ≠ .PR) {fuel : Nat} {d : DState} {w : World} (h : QInv sem d w)
    (henc : d.enc.sem = sem) (q : DQuery) (hq : sem = .CO → q = .cred) {l id : Nat} (hl : d.pending.Live id l) :
    wp False (query fuel d q l) w (fun r w' => QInv sem r.1 w' ∧ r.1.pending = d.pending ∧
      AnswerOK sem d.pending q l r.2) := by
  unfold query
  rw [henc]
  cases sem with
  | PR => exact absurd rfl hsem
  | CO =>
    rw [hq rfl]
    exact credQuery_no_crash (by simp) h hl
  | ST =>
    cases q with
    | cred => exact credQuery_no_crash (by simp) h hl
    | skep => exact stSkepQuery_no_crash h hl

/-- **the complete and the stable dynamic solver never panic** on a supported query about an
argument of the current framework, whatever a correct SAT solver replies -/
theorem query_never_panics {sem : DSem} (hsem : sem ≠ .PR) {fuel : Nat} {d : DState} {w : World}
    (h : QInv sem d w) (henc : d.enc.sem = sem) (q : DQuery)
    (hq : sem = .CO → q = .cred)   -- the complete solver offers no skeptical query (`unimplemented!()` in Rust)
    {l id : Nat} (hl : d.pending.Live id l) {rs : List Reply} (hs : RunSound (query fuel d q l) rs w) :
    ∀ msg w', interp (query fuel d q l) rs w ≠ (.crashed msg, w') :=
  wp_no_crash _ rs w _ (query_total hsem h henc q hq hl) hs

/-! ## the preferred solver -/

/-- the number of iterations of the search loop of the preferred solver is bounded by this function
of the number of argument ids ever issued for the framework -/
def prFuel (st : Store) : Nat := 3 * 2 ^ st.labels.length + 2

/-- skeptical acceptance (preferred solver): no crash node is reached — in particular the model's
loop does not run out of fuel — as soon as the fuel covers `prFuel` -/
theorem prSkepQuery_no_crash {fuel : Nat} {d : DState} {w : World} (h : QInv .PR d w) {l id : Nat}
    (hl : d.pending.Live id l) (hfuel : prFuel d.pending ≤ fuel) :
    wp False (prSkepQuery fuel d l) w (fun r w' => QInv .PR r.1 w' ∧ r.1.pending = d.pending ∧
      SkepOK .PR d.pending l r.2) := wp_prSkepQuery_gen fuel h hl (Or.inr hfuel)

/-- with the fuel-exhaustion node tolerated (`C`) and nothing assumed about the fuel: the same
statement shows that the fuel node is the *only* crash node the preferred solver could reach, since
for `C = False` the hypothesis on the fuel is all that is needed -/
theorem prSkepQuery_no_other_crash {C : Prop} {fuel : Nat} {d : DState} {w : World} (h : QInv .PR d w) {l id : Nat}
    (hl : d.pending.Live id l) (hfuel : C ∨ prFuel d.pending ≤ fuel) :
    wp C (prSkepQuery fuel d l) w (fun r w' => QInv .PR r.1 w' ∧ r.1.pending = d.pending ∧
      SkepOK .PR d.pending l r.2) := wp_prSkepQuery_gen fuel h hl hfuel

theorem pr_query_total {fuel : Nat} {d : DState} {w : World} (h : QInv .PR d w) (henc : d.enc.sem = .PR)
    {l id : Nat} (hl : d.pending.Live id l) (hfuel : prFuel d.pending ≤ fuel) :
    wp False (query fuel d .skep l) w (fun r w' => QInv .PR r.1 w' ∧ r.1.pending = d.pending ∧
      AnswerOK .PR d.pending .skep l r.2) := by
  unfold query
  rw [henc]
  exact prSkepQuery_no_crash h hl hfuel

/-- **the preferred dynamic solver never panics** on a skeptical query (the only one it offers)
about an argument of the current framework: the search loop terminates within `prFuel` iterations -/
theorem pr_query_never_panics {fuel : Nat} {d : DState} {w : World} (h : QInv .PR d w) (henc : d.enc.sem = .PR)
    {l id : Nat} (hl : d.pending.Live id l) (hfuel : prFuel d.pending ≤ fuel) {rs : List Reply}
    (hs : RunSound (query fuel d .skep l) rs w) :
    ∀ msg w', interp (query fuel d .skep l) rs w ≠ (.crashed msg, w') :=
  wp_no_crash _ rs w _ (pr_query_total h henc hl hfuel) hs

/-! ## all three -/

/-- the queries a dynamic solver offers -/
def Supported : DSem → DQuery → Prop
  | .CO, .cred => True
  | .ST, _ => True
  | .PR, .skep => True
  | _, _ => False

/-- enough fuel for the model's loop (only the preferred solver has one) -/
def FuelOK (sem : DSem) (st : Store) (fuel : Nat) : Prop := sem = .PR → prFuel st ≤ fuel

theorem supported_query_total {sem : DSem} {fuel : Nat} {d : DState} {w : World} (h : QInv sem d w)
    (henc : d.enc.sem = sem) (q : DQuery) (hq : Supported sem q) (hfuel : FuelOK sem d.pending fuel)
    {l id : Nat} (hl : d.pending.Live id l) :
    wp False (query fuel d q l) w (fun r w' => QInv sem r.1 w' ∧ r.1.pending = d.pending ∧
      AnswerOK sem d.pending q l r.2) := by
  cases sem with
  | PR =>
    cases q with
    | cred => exact hq.elim
    | skep => exact pr_query_total h henc hl (hfuel rfl)
  | CO =>
    cases q with
    | cred => exact query_total (by simp) h henc .cred (fun _ => rfl) hl
    | skep => exact hq.elim
  | ST => exact query_total (by simp) h henc q (fun hh => by cases hh) hl

/-- **a supported query is answered**: on sound replies the run of the model ends with an answer — the
right one, in a state that satisfies the solver invariant again — unless the SAT solver gave up
(`unknown`: the query is aborted) or the reply list is too short; it never panics -/
theorem supported_query_outcome {sem : DSem} {fuel : Nat} {d : DState} {w : World} (h : QInv sem d w)
    (henc : d.enc.sem = sem) (q : DQuery) (hq : Supported sem q) (hfuel : FuelOK sem d.pending fuel)
    {l id : Nat} (hl : d.pending.Live id l) {rs : List Reply} (hs : RunSound (query fuel d q l) rs w) :
    (∃ d' a w', interp (query fuel d q l) rs w = (.done (d', a), w') ∧ QInv sem d' w' ∧
        d'.pending = d.pending ∧ AnswerOK sem d.pending q l a) ∨
    (∃ w', interp (query fuel d q l) rs w = (.abort, w')) ∨
    (∃ w', interp (query fuel d q l) rs w = (.starved, w')) := by
  rcases wp_outcome _ rs w _ (supported_query_total h henc q hq hfuel hl) hs with ⟨⟨d', a⟩, w', hrun, hpost⟩ | hr
  · exact Or.inl ⟨d', a, w', hrun, hpost⟩
  · exact Or.inr hr

end Crusta.Dyn
