import Crusta.Model.Solvers
import Crusta.Spec.Oracle

/-!
# Model of the command-line layer (`aa/problem.rs`, `app/solve_command.rs`, `main_iccma23.rs`)

* `readProblem` mirrors `Query::read_problem_string` (split at the first hyphen, ASCII-lowercase
  comparison); `problemStrings` mirrors `iter_problem_strings`;
* `dispatch` mirrors the three `match semantics` tables of `solve_command.rs` (which solver type and
  which default / selectable encoder answers each problem);
* `wrapperArgs` mirrors the argument translation of the ICCMA'23 wrapper.
-/

namespace Crusta.Cli
open Crusta

/-- strings are lists of code points -/
abbrev Str := List Nat

def lowerChar (c : Nat) : Nat := if 65 ≤ c ∧ c ≤ 90 then c + 32 else c
def lower (s : Str) : Str := s.map lowerChar

def s_se : Str := [115, 101]
def s_dc : Str := [100, 99]
def s_ds : Str := [100, 115]
def s_gr : Str := [103, 114]
def s_co : Str := [99, 111]
def s_pr : Str := [112, 114]
def s_st : Str := [115, 116]
def s_sst : Str := [115, 115, 116]
def s_stg : Str := [115, 116, 103]
def s_id : Str := [105, 100]

def queryOf (s : Str) : Option Task :=
  let l := lower s
  if l = s_se then some .SE else if l = s_dc then some .DC else if l = s_ds then some .DS else none

def semOf (s : Str) : Option Sem :=
  let l := lower s
  if l = s_gr then some .GR else if l = s_co then some .CO else if l = s_pr then some .PR
  else if l = s_st then some .ST else if l = s_sst then some .SST else if l = s_stg then some .STG
  else if l = s_id then some .ID else none

/-- split at the first hyphen (45) -/
def splitHyphen : Str → Option (Str × Str)
  | [] => none
  | c :: cs => if c = 45 then some ([], cs) else (splitHyphen cs).map (fun p => (c :: p.1, p.2))

/-- `Query::read_problem_string` -/
def readProblem (s : Str) : Option (Task × Sem) :=
  match splitHyphen s with
  | none => none
  | some (q, sem) =>
    match queryOf q, semOf sem with
    | some t, some σ => some (t, σ)
    | _, _ => none

def taskLower : Task → Str | .SE => s_se | .DC => s_dc | .DS => s_ds
def semLower : Sem → Str
  | .GR => s_gr | .CO => s_co | .PR => s_pr | .ST => s_st | .SST => s_sst | .STG => s_stg | .ID => s_id

def taskName : Task → String | .SE => "SE" | .DC => "DC" | .DS => "DS"
def semName : Sem → String
  | .GR => "GR" | .CO => "CO" | .PR => "PR" | .ST => "ST" | .SST => "SST" | .STG => "STG" | .ID => "ID"

def allSems : List Sem := [.GR, .CO, .PR, .ST, .SST, .STG, .ID]
def allTasks : List Task := [.SE, .DC, .DS]

/-- `iter_problem_strings`: semantics outer, query inner -/
def problemStrings : List String :=
  allSems.flatMap (fun σ => allTasks.map (fun t => taskName t ++ "-" ++ semName σ))

/-- the 21 problems in lower case, as code points -/
def problemsLower : List Str :=
  allSems.flatMap (fun σ => allTasks.map (fun t => taskLower t ++ [45] ++ semLower σ))

/-- which solver object answers a problem (`compute_one_extension`, `check_credulous_acceptance`,
`check_skeptical_acceptance`) -/
def dispatchSolver : Task → Sem → SolverKind
  | .SE, .GR | .SE, .CO => .GR
  | .SE, .PR => .PR | .SE, .ST => .ST | .SE, .SST => .SST | .SE, .STG => .STG | .SE, .ID => .ID
  | .DC, .GR => .GR
  | .DC, .CO | .DC, .PR => .CO
  | .DC, .ST => .ST | .DC, .SST => .SST | .DC, .STG => .STG | .DC, .ID => .ID
  | .DS, .GR | .DS, .CO => .GR
  | .DS, .PR => .PR | .DS, .ST => .ST | .DS, .SST => .SST | .DS, .STG => .STG | .DS, .ID => .ID

/-- `create_encoder`: `enc` is the `--encoding` option (`none` = default); `literalSEPR` says whether
the problem string is literally `SE-PR` -/
def dispatchEncoder (σ : Sem) (enc : Option String) (literalSEPR : Bool) : Option EncKind :=
  match σ with
  | .GR | .ST => none
  | .STG =>
    match enc.getD "exp" with
    | "aux_var" => some .auxCF
    | _ => some .expCF
  | .PR =>
    if literalSEPR then
      match enc.getD "aux_var" with
      | "aux_var" => some .auxADM | "exp" => some .expCO | _ => some .hyb
    else
      match enc.getD "aux_var" with
      | "aux_var" => some .auxCO | "exp" => some .expCO | _ => some .hyb
  | _ =>
    match enc.getD "aux_var" with
    | "aux_var" => some .auxCO | "exp" => some .expCO | _ => some .hyb

/-- the semantics whose extensions are valid witnesses for a problem as answered by the CLI: the
queried one, except that DC-PR is answered through the complete solver -/
def witnessSem : Task → Sem → Sem
  | .DC, .PR => .CO
  | _, σ => σ

/-- ICCMA'23 wrapper: argument translation -/
def wrapperArgs (args : List String) : List String :=
  if args.isEmpty then ["authors", "--logging-level", "off"]
  else if args == ["--problems"] then ["problems", "--logging-level", "off"]
  else ["solve"] ++ args ++ ["--logging-level", "off", "--with-certificate", "--reader", "iccma23"]

end Crusta.Cli
