/-!
# Abstract syntax of the regular expressions used by the Aspartix reader

The four patterns of `src/io/aspartix_reader.rs` are translated from the source text into values of
this type on every run (`tools/gen_from_source.py` → `Crusta/Gen/ApxPatterns.lean`); their
semantics and the proof that the reader model's scanners implement them are in
`Crusta/Proofs/RxSem.lean` / `RxApx.lean`.  Strings are lists of code points.
-/

namespace Crusta.Rx

/-- items of a bracket expression / escapes -/
inductive Atom
  | ws            -- `\s`   (Unicode White_Space, table regenerated from regex-syntax)
  | digit         -- `\d`   (Unicode Decimal_Number)
  | alpha         -- `[:alpha:]` (ASCII letters)
  | ch (c : Nat)  -- a literal code point
deriving Repr, DecidableEq

inductive Rx
  | eps
  | chr (c : Nat)                          -- a literal code point (also escaped punctuation)
  | anyNoNl                                -- `.`
  | cls (neg : Bool) (items : List Atom)   -- `[...]`, `[^...]`, and `\s` / `\d` outside brackets
  | cat (a b : Rx)
  | star (r : Rx)
  | plus (r : Rx)
  | grp (r : Rx)                           -- capturing group
deriving Repr, DecidableEq

end Crusta.Rx
