"""C19: the equivalence reduction against its Lean model and the complete-extension oracle."""
import gen
from engine import Property, Finding


class C19(Property):
    id = "C19"
    families = ["equiv"]
    rule = ("compact frameworks (ICCMA route incl. duplicate attacks; removal-free histories): exhaustive digraphs n<=2 (quick) / n<=3 (thorough), random and structured up to 8 arguments, plus sparse frameworks of 10-40 arguments with a hub (compared with the model and checked for partition / inverse maps only) "
            "(chains, hierarchies, rings, self-attacks); compared with the Lean model: classes, both mappings, reduced framework; judged: classes partition the arguments, the two maps are "
            "inverse at class level, and every merged pair has identical membership in all complete extensions (reference enumeration, <= 9 arguments); non-trivial = some class has >= 2 members")
    assumptions = ["reference enumeration of complete extensions for frameworks up to 9 arguments"]

    def cases(self, tier, rng):
        lines = []
        fws = []
        for n in range(0, 3 if tier == "quick" else 4):
            fws += list(gen.all_digraphs(n))
        for _ in range(4000 if tier == "quick" else 900000):
            fws.append(gen.random_framework(rng, 8))
        for _ in range(60 if tier == "quick" else 3000):
            fws.append(gen.medium_framework(rng, 10, 40))
        for (n, atts) in fws:
            if rng.random() < 0.7:
                spec, _ = gen.spec_iccma(rng, n, atts)
            else:
                spec, _ = gen.spec_history(rng, n, atts, junk=False)
            lines.append("equiv x fw=%s" % spec)
        return lines

    def judge(self, case_line, impl, model):
        fs = []
        if any(l.startswith("panic") for l in impl):
            fs.append(Finding("input", case_line, "EquivalencyComputer panicked: " + [l for l in impl if l.startswith("panic")][0][6:100], "equiv · panic"))
            return fs
        v = [l for l in model if l.startswith("verdict ")]
        if v and v[0].startswith("verdict BAD"):
            fs.append(Finding("input", case_line, v[0][12:], "equiv · " + v[0][12:]))
            return fs
        a = [l for l in impl if l.startswith("Q ")]
        b = [l for l in model if l.startswith("Q ")]
        if a != b:
            k = 0
            while k < min(len(a), len(b)) and a[k] == b[k]:
                k += 1
            fs.append(Finding("correspondence", case_line, "EquivalencyComputer differs from the Lean model", "equiv · model differs", {"impl": a[k:k + 1], "model": b[k:k + 1]}))
        return fs

    def same_class(self, f, cur):
        return f.signature == cur.signature

    def nontrivial(self, case_line):
        return ">" in case_line

    def shrink_candidates(self, case_line):
        import props_enc
        return props_enc.C10.shrink_candidates(self, case_line)

    def stats(self, cases, impl, model):
        merged = 0
        pairs = 0
        for c in cases:
            for l in impl.get(c.split(" ")[1], []):
                if l.startswith("Q classes="):
                    for cl in l[10:].split(","):
                        if ":" in cl:
                            k = len([x for x in cl.split(":")[1].split(".") if x])
                            if k >= 2:
                                merged += 1
                                pairs += k * (k - 1) // 2
        return {"classes_with_2plus_members": merged, "merged_pairs": pairs}
