import Crusta.Model.Prog
import Crusta.Model.Graph
import Crusta.Model.Encoders

/-!
# Model of the static solvers (`src/solvers/*`) as `Prog` programs

Each public entry point of the six SAT-based solver types (and the grounded solver) is a function
from the framework view, the encoder and the query to a `Prog`: it issues exactly the factory /
reserve / add_clause / n_vars / solve calls of the Rust code, in order.  Loops carry a fuel
argument (the theorems bound the number of iterations; the driver passes a large constant).
Answers are lists of **original ids** of the queried framework.
-/

namespace Crusta
open Prog (mkSolver doReserve addClause addClauses getNVars doSolve)

/-- result of an acceptance query: status and (for the certificate variants) the optional witness -/
structure AccAns where
  status : Bool
  cert : Option (List Nat)
deriving Repr

structure Cfg where
  enc : EncKind
  fuel : Nat := 100000

def argLit (k : EncKind) (a : Nat) : Lit := pl (k.argVar a)

def encodeInto (k : EncKind) (af : AF) (s : Nat) (withRange : Bool) : Prog Unit := do
  match k.reserve af.n withRange with
  | some r => doReserve s r
  | none => pure ()
  addClauses s (if withRange then k.clausesRange af else k.clauses af)

/-- map compact ids of a component back to original ids (`get_argument(label).unwrap()`) -/
def Comp.back (c : Comp) (l : List Nat) : List Nat := l.filterMap (fun i => c.ids[i]?)

/-- position of an original id inside a component -/
def Comp.pos (c : Comp) (a : Nat) : Option Nat := posOf c.ids a

def needComp : Option (Option Comp × CC) → Prog (Comp × CC)
  | none => .crash "this connected component was already computed"
  | some (none, _) => .crash "extract_connected_component: attack leaves the component"
  | some (some c, cc) => pure (c, cc)

def needComp' : Option Comp → Prog Comp
  | none => .crash "extract_connected_component: attack leaves the component"
  | some c => pure c

/-- positions of the queried arguments inside the (merged) component -/
def ccArgs (c : Comp) (args : List Nat) : Prog (List Nat) :=
  args.foldr (fun a acc => do
    let rest ← acc
    match c.pos a with
    | some i => pure (i :: rest)
    | none => .crash "queried argument is not in the component") (pure [])

/-! ## `MaximalExtensionComputer` -/

inductive MState | maximal | intermediate | justDiscarded | none | init
deriving Repr, DecidableEq

inductive MKind
  | preferred
  | ideal (forbidden : List Lit)
  | range
deriving Repr

structure MEC where
  af : AF
  enc : EncKind
  sid : Nat
  sel : Nat
  kind : MKind
  additional : List Lit := []
  cur : List Nat := []
  model : Option Model := none
  state : MState := .init

def MEC.new (af : AF) (enc : EncKind) (sid : Nat) (kind : MKind) : Prog MEC := do
  let nv ← getNVars sid
  pure { af := af, enc := enc, sid := sid, sel := nv + 1, kind := kind }

/-- `split_in_extension` on a compact framework -/
def splitInExt (enc : EncKind) (n : Nat) (cur : List Nat) : List Lit × List Lit :=
  let len := cur.foldl (fun m a => max m (a + 1)) n
  let ids := (List.range len).filter (fun i => decide (i < n))
  (ids.filter (fun i => cur.contains i) |>.map (argLit enc),
   ids.filter (fun i => !cur.contains i) |>.map (argLit enc))

/-- `split_in_range` -/
def splitInRange (m : MEC) : List Lit × List Lit :=
  let frv := m.enc.firstRangeVar m.af.n
  match m.model with
  | some mdl =>
    let vars := (List.range m.af.n).map (fun i => frv + i)
    (vars.filter (fun v => !(mdl.getD (v - 1) none == some false)) |>.map pl,
     vars.filter (fun v => mdl.getD (v - 1) none == some false) |>.map pl)
  | none =>
    let inR (i : Nat) : Bool := m.cur.any (fun a => a == i || (m.af.attackedOf a).contains i)
    let ids := List.range m.af.n
    (ids.filter inR |>.map (fun i => pl (frv + i)), ids.filter (fun i => !inR i) |>.map (fun i => pl (frv + i)))

/-- the blocking clause added by the increase / discard closures, and the increase assumptions -/
def MEC.blockAndAssume (m : MEC) : Clause × List Lit :=
  match m.kind with
  | .preferred =>
    let (i, o) := splitInExt m.enc m.af.n m.cur
    (o ++ [pl m.sel], i ++ [nl m.sel])
  | .ideal forb =>
    let (i, o) := splitInExt m.enc m.af.n m.cur
    (o ++ [pl m.sel], i ++ [nl m.sel] ++ forb)
  | .range =>
    let (i, o) := splitInRange m
    (o ++ [pl m.sel], i ++ [nl m.sel])

def MEC.solve (m : MEC) (assumps : List Lit) : Prog (Option (Model × List Nat)) := do
  let r ← doSolve m.sid (assumps ++ m.additional)
  pure (r.map (fun mdl => (mdl, m.enc.decode m.af.n mdl)))

def MEC.newSearch (m : MEC) : Prog MEC := do
  match ← m.solve [nl m.sel] with
  | some (mdl, ext) => pure { m with cur := ext, model := some mdl, state := .intermediate }
  | none => pure { m with state := .none }

def MEC.computeNext (m : MEC) : Prog MEC :=
  match m.state with
  | .init => pure { m with cur := groundedV m.af.view, state := .intermediate }
  | .intermediate => do
    let (cl, as) := m.blockAndAssume
    addClause m.sid cl
    match ← m.solve as with
    | some (mdl, ext) => pure { m with cur := ext, model := some mdl, state := .intermediate }
    | none => pure { m with state := .maximal }
  | .maximal => do
    addClause m.sid m.blockAndAssume.1
    m.newSearch
  | .justDiscarded => m.newSearch
  | .none => .crash "no more extensions"

def MEC.discardCurrentSearch (m : MEC) : Prog MEC := do
  addClause m.sid m.blockAndAssume.1
  pure { m with state := .justDiscarded }

/-- `Drop` -/
def MEC.drop (m : MEC) : Prog Unit := addClause m.sid [pl m.sel]

def MEC.computeMaximal : Nat → MEC → Prog (List Nat)
  | 0, _ => .crash "fuel exhausted in compute_maximal"
  | fuel + 1, m =>
    if m.state == .maximal then do
      m.drop
      pure m.cur
    else do
      let m' ← m.computeNext
      MEC.computeMaximal fuel m'

/-! ## grounded solver -/

def grSE (v : FwView) : Prog (Option (List Nat)) := pure (some (groundedV v))

def grDC (v : FwView) (args : List Nat) (_cert : Bool) : Prog AccAns :=
  let ext := groundedV v
  if args.any ext.contains then pure ⟨true, some ext⟩ else pure ⟨false, none⟩

def grDS (v : FwView) (args : List Nat) (_cert : Bool) : Prog AccAns :=
  let ext := groundedV v
  if args.any ext.contains then pure ⟨true, none⟩ else pure ⟨false, some ext⟩

/-! ## complete solver (credulous acceptance) -/

def coDC (cfg : Cfg) (v : FwView) (args : List Nat) : Prog AccAns := do
  let s ← mkSolver
  let (c, _) ← needComp (CC.mergedOf v (CC.new v) args)
  encodeInto cfg.enc c.af s false
  let nv ← getNVars s
  let sel := nv + 1
  let pos ← ccArgs c args
  addClause s (pos.map (argLit cfg.enc) ++ [nl sel])
  let r ← doSolve s [pl sel]
  addClause s [nl sel]
  pure ⟨r.isSome, none⟩

def otherCompsWith (v : FwView) (f : Comp → Prog (List Nat)) : Nat → CC → List Nat → Prog (List Nat)
  | 0, _, _ => .crash "fuel exhausted while completing a certificate"
  | fuel + 1, cc, acc =>
    match CC.nextComp v cc with
    | none => pure acc
    | some (oc, cc') => do
      let c ← needComp' oc
      let e ← f c
      otherCompsWith v f fuel cc' (acc ++ e)

def coDCcert (cfg : Cfg) (v : FwView) (args : List Nat) : Prog AccAns := do
  let (c, cc) ← needComp (CC.mergedOf v (CC.new v) args)
  let s ← mkSolver
  encodeInto cfg.enc c.af s false
  let nv ← getNVars s
  let sel := nv + 1
  let pos ← ccArgs c args
  addClause s (pos.map (argLit cfg.enc) ++ [nl sel])
  match ← doSolve s [pl sel] with
  | some mdl =>
    let merged := c.back (cfg.enc.decode c.af.n mdl)
    let all ← otherCompsWith v (fun oc => pure (oc.back (groundedV oc.af.view))) cfg.fuel cc merged
    pure ⟨true, some all⟩
  | none => pure ⟨false, none⟩

/-! ## preferred solver -/

def prMaximalOfComp (cfg : Cfg) (c : Comp) : Prog (List Nat) := do
  let s ← mkSolver
  encodeInto cfg.enc c.af s false
  let m ← MEC.new c.af cfg.enc s .preferred
  let e ← MEC.computeMaximal cfg.fuel m
  pure (c.back e)

def forEachComp (f : Comp → Prog (List Nat)) : List (Option Comp) → List Nat → Prog (List Nat)
  | [], acc => pure acc
  | oc :: rest, acc => do
    let c ← needComp' oc
    let e ← f c
    forEachComp f rest (acc ++ e)

def prSE (cfg : Cfg) (v : FwView) : Prog (Option (List Nat)) := do
  let e ← forEachComp (prMaximalOfComp cfg) (allComps v) []
  pure (some e)

/-- `is_skeptically_accepted_in_cc`, the loop after the computer has been created -/
def prSkeptLoop (allowShortcut : Bool) (pos : List Nat) : Nat → MEC → Prog (Bool × Option (List Nat))
  | 0, _ => .crash "fuel exhausted in the skeptical preferred loop"
  | fuel + 1, m => do
    let m ← m.computeNext
    match m.state with
    | .maximal =>
      if !(pos.any m.cur.contains) then do
        m.drop
        pure (false, some m.cur)
      else prSkeptLoop allowShortcut pos fuel m
    | .intermediate =>
      if pos.any m.cur.contains then do
        let m ← m.discardCurrentSearch
        prSkeptLoop allowShortcut pos fuel m
      else if allowShortcut && pos.all (fun a => (m.af.attackers a).any m.cur.contains) then do
        m.drop
        pure (false, some m.cur)
      else prSkeptLoop allowShortcut pos fuel m
    | .none => do
      m.drop
      pure (true, none)
    | _ => prSkeptLoop allowShortcut pos fuel m

def prSkeptInCc (cfg : Cfg) (c : Comp) (args : List Nat) (allowShortcut : Bool) :
    Prog (Bool × Option (List Nat)) := do
  let pos ← ccArgs c args
  let s ← mkSolver
  encodeInto cfg.enc c.af s false
  let m ← MEC.new c.af cfg.enc s .preferred
  prSkeptLoop allowShortcut pos cfg.fuel m

def prDS (cfg : Cfg) (v : FwView) (args : List Nat) : Prog AccAns := do
  let (c, _) ← needComp (CC.mergedOf v (CC.new v) args)
  let (st, _) ← prSkeptInCc cfg c args true
  pure ⟨st, none⟩

def prDScert (cfg : Cfg) (v : FwView) (args : List Nat) : Prog AccAns := do
  let (c, cc) ← needComp (CC.mergedOf v (CC.new v) args)
  match ← prSkeptInCc cfg c args false with
  | (true, _) => pure ⟨true, none⟩
  | (false, some e) =>
    let all ← otherCompsWith v (prMaximalOfComp cfg) cfg.fuel cc (c.back e)
    pure ⟨false, some all⟩
  | (false, none) => .crash "unreachable"

/-! ## stable solver -/

def stSE (v : FwView) : Prog (Option (List Nat)) :=
  let rec go : List (Option Comp) → List Nat → Prog (Option (List Nat))
    | [], acc => pure (some acc)
    | oc :: rest, acc => do
      let c ← needComp' oc
      let s ← mkSolver
      encodeInto .stb c.af s false
      match ← doSolve s [] with
      | some mdl => go rest (acc ++ c.back (Stb.decode c.af.n mdl))
      | none => pure none
  go (allComps v) []

/-- `acceptance_with_model` (after the repair of the multi-component credulous case) -/
def stAcc (v : FwView) (args : List Nat) (polarity : Bool) (statusOnUnsat : Bool) : Prog AccAns :=
  let rec go : List (Option Comp) → List Nat → Bool → Prog AccAns
    | [], acc, found =>
      if polarity && !found then pure ⟨statusOnUnsat, none⟩ else pure ⟨!statusOnUnsat, some acc⟩
    | oc :: rest, acc, found => do
      let c ← needComp' oc
      let s ← mkSolver
      encodeInto .stb c.af s false
      let inCc := args.filterMap c.pos
      if !inCc.isEmpty then
        if polarity then do
          let nv ← getNVars s
          let sel := nv + 1
          addClause s (inCc.map (argLit .stb) ++ [nl sel])
          let r ← doSolve s [pl sel]
          addClause s [nl sel]
          match r with
          | some mdl => go rest (acc ++ c.back (Stb.decode c.af.n mdl)) true
          | none =>
            match ← doSolve s [] with
            | some mdl => go rest (acc ++ c.back (Stb.decode c.af.n mdl)) found
            | none => pure ⟨statusOnUnsat, none⟩
        else do
          match ← doSolve s (inCc.map (fun a => (argLit .stb a).neg)) with
          | some mdl => go rest (acc ++ c.back (Stb.decode c.af.n mdl)) found
          | none => pure ⟨statusOnUnsat, none⟩
      else
        match ← doSolve s [] with
        | some mdl => go rest (acc ++ c.back (Stb.decode c.af.n mdl)) found
        | none => pure ⟨statusOnUnsat, none⟩
  go (allComps v) [] false

def stDC (v : FwView) (args : List Nat) : Prog AccAns := stAcc v args true false
def stDS (v : FwView) (args : List Nat) : Prog AccAns := stAcc v args false true

/-! ## semi-stable / stage solvers -/

def rgMaximalOfComp (cfg : Cfg) (c : Comp) : Prog (List Nat) := do
  let s ← mkSolver
  encodeInto cfg.enc c.af s true
  let m ← MEC.new c.af cfg.enc s .range
  let e ← MEC.computeMaximal cfg.fuel m
  pure (c.back e)

def rgSE (cfg : Cfg) (v : FwView) : Prog (Option (List Nat)) := do
  let e ← forEachComp (rgMaximalOfComp cfg) (allComps v) []
  pure (some e)

/-- `check_acceptance_in_cc` loop -/
def rgAccLoop (cred : Bool) (pos : List Nat) : Nat → MEC → Prog (Bool × Option (List Nat))
  | 0, _ => .crash "fuel exhausted in the range acceptance loop"
  | fuel + 1, m => do
    let m ← m.computeNext
    match m.state with
    | .maximal =>
      if (cred && pos.any m.cur.contains) || (!cred && pos.all (fun a => !m.cur.contains a)) then do
        m.drop
        pure (cred, some m.cur)
      else do
        let (inR, notR) := splitInRange m
        let base := inR ++ notR.map Lit.neg ++ [pl m.sel]
        if cred then do
          let nv ← getNVars m.sid
          let sel' := nv + 1
          addClause m.sid (pos.map (argLit m.enc) ++ [nl sel'])
          let r ← doSolve m.sid (base ++ [pl sel'])
          addClause m.sid [nl sel']
          match r with
          | some mdl => do
            m.drop
            pure (cred, some (m.enc.decode m.af.n mdl))
          | none => rgAccLoop cred pos fuel m
        else do
          match ← doSolve m.sid (base ++ pos.map (fun a => (argLit m.enc a).neg)) with
          | some mdl => do
            m.drop
            pure (cred, some (m.enc.decode m.af.n mdl))
          | none => rgAccLoop cred pos fuel m
    | .none => do
      m.drop
      pure (!cred, none)
    | _ => rgAccLoop cred pos fuel m

def rgAccInCc (cfg : Cfg) (c : Comp) (args : List Nat) (cred : Bool) :
    Prog (Bool × Option (List Nat)) := do
  let pos ← ccArgs c args
  let s ← mkSolver
  encodeInto cfg.enc c.af s true
  let m ← MEC.new c.af cfg.enc s .range
  rgAccLoop cred pos cfg.fuel m

def rgAcc (cfg : Cfg) (v : FwView) (args : List Nat) (cred : Bool) : Prog AccAns := do
  let (c, _) ← needComp (CC.mergedOf v (CC.new v) args)
  let (st, _) ← rgAccInCc cfg c args cred
  pure ⟨st, none⟩

def rgAccCert (cfg : Cfg) (v : FwView) (args : List Nat) (cred : Bool) : Prog AccAns := do
  let (c, cc) ← needComp (CC.mergedOf v (CC.new v) args)
  match ← rgAccInCc cfg c args cred with
  | (_, none) => pure ⟨!cred, none⟩
  | (_, some e) =>
    let all ← otherCompsWith v (rgMaximalOfComp cfg) cfg.fuel cc (c.back e)
    pure ⟨cred, some all⟩

/-! ## ideal solver -/

structure InAll where
  inAll : List Bool
  nInAll : Nat
  nPreferred : Nat

/-- `enumerate_extensions` with the ideal solver's callback -/
def idEnumLoop (grLen : Nat) : Nat → MEC → InAll → Prog InAll
  | 0, _, _ => .crash "fuel exhausted in enumerate_extensions"
  | fuel + 1, m, ia => do
    let m ← m.computeNext
    match m.state with
    | .maximal =>
      let newIn := (List.range m.af.n).map (fun i => ia.inAll.getD i false && m.cur.contains i)
      let cnt := (m.cur.filter (fun a => ia.inAll.getD a false)).length
      let ia' : InAll := ⟨newIn, cnt, ia.nPreferred + 1⟩
      if cnt != grLen then idEnumLoop grLen fuel m ia'
      else do
        m.drop
        pure ia'
    | .none => do
      m.drop
      pure ia
    | _ => idEnumLoop grLen fuel m ia

def idInAll (cfg : Cfg) (c : Comp) (grLen : Nat) (s : Nat) : Prog InAll := do
  encodeInto cfg.enc c.af s false
  let m ← MEC.new c.af cfg.enc s .preferred
  idEnumLoop grLen cfg.fuel m ⟨List.replicate c.af.n true, 0, 0⟩

def idFinish (cfg : Cfg) (c : Comp) (s : Nat) (gr : List Nat) (ia : InAll) : Prog (List Nat) :=
  if ia.nInAll == gr.length then pure gr
  else if ia.nPreferred == 1 then pure ((List.range c.af.n).filter (fun i => ia.inAll.getD i false))
  else do
    let forb := (List.range c.af.n).filter (fun i => !ia.inAll.getD i false) |>.map (fun i => (argLit cfg.enc i).neg)
    let m ← MEC.new c.af cfg.enc s (.ideal forb)
    MEC.computeMaximal cfg.fuel m

/-- `compute_one_extension_for_cc` (compact ids) -/
def idOneForCc (cfg : Cfg) (c : Comp) : Prog (List Nat) := do
  let gr := groundedV c.af.view
  let s ← mkSolver
  let ia ← idInAll cfg c gr.length s
  idFinish cfg c s gr ia

def idSE (cfg : Cfg) (v : FwView) : Prog (Option (List Nat)) := do
  let e ← forEachComp (fun c => do
    -- the throw-away solver of `compute_one_extension`
    let s0 ← mkSolver
    encodeInto cfg.enc c.af s0 false
    let e ← idOneForCc cfg c
    pure (c.back e)) (allComps v) []
  pure (some e)

/-- `check_credulous_acceptance_for_cc` -/
def idCredForCc (cfg : Cfg) (c : Comp) (pos : List Nat) : Prog (Bool × Option (List Nat)) := do
  let gr := groundedV c.af.view
  let s ← mkSolver
  let ia ← idInAll cfg c gr.length s
  if pos.all (fun a => !ia.inAll.getD a false) then pure (false, none)
  else do
    let ext ← idFinish cfg c s gr ia
    if pos.any ext.contains then pure (true, some ext) else pure (false, none)

def idDC (cfg : Cfg) (v : FwView) (args : List Nat) : Prog AccAns := do
  let (c, _) ← needComp (CC.mergedOf v (CC.new v) args)
  let pos ← ccArgs c args
  let (st, _) ← idCredForCc cfg c pos
  pure ⟨st, none⟩

def idDCcert (cfg : Cfg) (v : FwView) (args : List Nat) : Prog AccAns := do
  let (c, cc) ← needComp (CC.mergedOf v (CC.new v) args)
  let pos ← ccArgs c args
  match ← idCredForCc cfg c pos with
  | (true, some e) =>
    let all ← otherCompsWith v (fun oc => do let e ← idOneForCc cfg oc; pure (oc.back e)) cfg.fuel cc (c.back e)
    pure ⟨true, some all⟩
  | _ => pure ⟨false, none⟩

def idDScert (cfg : Cfg) (v : FwView) (args : List Nat) : Prog AccAns := do
  match ← idSE cfg v with
  | some ext => if args.any ext.contains then pure ⟨true, none⟩ else pure ⟨false, some ext⟩
  | none => .crash "unreachable"

/-! ## dispatch: one public entry point = one program -/

inductive SolverKind | GR | CO | PR | ST | SST | STG | ID
deriving Repr, DecidableEq

inductive Entry
  | se
  | dc (cert : Bool) (args : List Nat)
  | ds (cert : Bool) (args : List Nat)
deriving Repr

inductive Ans
  | ext (e : Option (List Nat))
  | acc (a : AccAns) (certVariant : Bool)
deriving Repr

def certOnly (certVariant : Bool) (p : Prog AccAns) : Prog Ans := do
  let a ← p
  pure (.acc (if certVariant then a else ⟨a.status, none⟩) certVariant)

/-- the program run by `solver.<entry>` for each solver type; `none` = entry point not offered -/
def entryProg (sk : SolverKind) (cfg : Cfg) (v : FwView) : Entry → Option (Prog Ans)
  | .se =>
    match sk with
    | .GR => some (do pure (.ext (← grSE v)))
    | .PR => some (do pure (.ext (← prSE cfg v)))
    | .ST => some (do pure (.ext (← stSE v)))
    | .SST | .STG => some (do pure (.ext (← rgSE cfg v)))
    | .ID => some (do pure (.ext (← idSE cfg v)))
    | .CO => none
  | .dc cert args =>
    match sk with
    | .GR => some (certOnly cert (grDC v args cert))
    | .CO => some (certOnly cert (if cert then coDCcert cfg v args else coDC cfg v args))
    | .ST => some (certOnly cert (stDC v args))
    | .SST | .STG => some (certOnly cert (if cert then rgAccCert cfg v args true else rgAcc cfg v args true))
    | .ID => some (certOnly cert (if cert then idDCcert cfg v args else idDC cfg v args))
    | .PR => none
  | .ds cert args =>
    match sk with
    | .GR => some (certOnly cert (grDS v args cert))
    | .PR => some (certOnly cert (if cert then prDScert cfg v args else prDS cfg v args))
    | .ST => some (certOnly cert (stDS v args))
    | .SST | .STG => some (certOnly cert (if cert then rgAccCert cfg v args false else rgAcc cfg v args false))
    | .ID => some (certOnly cert (if cert then idDScert cfg v args else idDC cfg v args))
    | .CO => none

end Crusta
