import Crusta.Proofs.SolveCO
import Crusta.Proofs.Semantics

/-!
# `MaximalExtensionComputer` on one component: what a SAT call means

`MInv m w blocked`: the solver of the computer holds the encoder's clauses plus, for every set `E`
of the ghost list `blocked`, the clause "some argument outside `E`, or the selector"; the selector is
fresh.  Under the assumption `¬selector` a call asks for a complete extension that contains the
required arguments and is not included in any blocked set: `solve_sat`, `solve_unsat`.
-/

namespace Crusta
open Prog (mkSolver doReserve addClause addClauses getNVars doSolve)

theorem range_filter_lt (n : Nat) : ∀ len, n ≤ len → (List.range len).filter (fun i => decide (i < n)) = List.range n := by
  intro len
  induction len with
  | zero => intro h; have : n = 0 := by omega
            subst this; rfl
  | succ k ih =>
    intro h
    by_cases hk : n ≤ k
    · rw [List.range_succ, List.filter_append, ih hk]
      simp; omega
    · have : n = k + 1 := by omega
      subst this
      apply List.filter_eq_self.2
      intro a ha
      simpa using List.mem_range.1 ha

def inL (enc : EncKind) (n : Nat) (cur : List Nat) : List Lit :=
  ((List.range n).filter (fun i => cur.contains i)).map (argLit enc)
def outL (enc : EncKind) (n : Nat) (cur : List Nat) : List Lit :=
  ((List.range n).filter (fun i => !cur.contains i)).map (argLit enc)

theorem foldl_max_ge (cur : List Nat) (n : Nat) : n ≤ cur.foldl (fun m a => max m (a + 1)) n := by
  induction cur generalizing n with
  | nil => exact Nat.le_refl _
  | cons a t ih => simp only [List.foldl_cons]; exact Nat.le_trans (Nat.le_max_left _ _) (ih _)

theorem splitInExt_eq (enc : EncKind) (n : Nat) (cur : List Nat) :
    splitInExt enc n cur = (inL enc n cur, outL enc n cur) := by
  unfold splitInExt inL outL
  simp only
  rw [range_filter_lt n _ (foldl_max_ge cur n)]

theorem inL_true (enc : EncKind) (af : AF) (ν : Asg) (cur : List Nat) :
    (∀ l ∈ inL enc af.n cur, litTrue ν l = true) ↔ ∀ a ∈ cur, a < af.n → enc.S af ν a = true := by
  unfold inL
  constructor
  · intro h a ha hn
    have := h (argLit enc a) (List.mem_map_of_mem (List.mem_filter.2 ⟨List.mem_range.2 hn, by simpa using ha⟩))
    rw [enc.S_lt hn]; simpa [argLit] using this
  · intro h l hl
    obtain ⟨a, ha, rfl⟩ := List.mem_map.1 hl
    obtain ⟨h1, h2⟩ := List.mem_filter.1 ha
    have hn := List.mem_range.1 h1
    have := h a (by simpa using h2) hn
    rw [enc.S_lt hn] at this
    simpa [argLit] using this

theorem outL_true (enc : EncKind) (af : AF) (ν : Asg) (cur : List Nat) :
    (∃ l ∈ outL enc af.n cur, litTrue ν l = true) ↔ ∃ a, a ∉ cur ∧ enc.S af ν a = true := by
  unfold outL
  constructor
  · rintro ⟨l, hl, ht⟩
    obtain ⟨a, ha, rfl⟩ := List.mem_map.1 hl
    obtain ⟨h1, h2⟩ := List.mem_filter.1 ha
    have hn := List.mem_range.1 h1
    refine ⟨a, by simpa using h2, ?_⟩
    rw [enc.S_lt hn]; simpa [argLit] using ht
  · rintro ⟨a, ha, hS⟩
    have hn : a < af.n := enc.S_sub af ν a hS
    refine ⟨argLit enc a, List.mem_map_of_mem (List.mem_filter.2 ⟨List.mem_range.2 hn, by simpa using ha⟩), ?_⟩
    rw [enc.S_lt hn] at hS
    simpa [argLit] using hS

theorem inL_var (enc : EncKind) (n : Nat) (cur : List Nat) : ∀ l ∈ inL enc n cur, ∃ a, a < n ∧ l = pl (enc.argVar a) := by
  intro l hl
  unfold inL at hl
  obtain ⟨a, ha, rfl⟩ := List.mem_map.1 hl
  exact ⟨a, List.mem_range.1 (List.mem_filter.1 ha).1, rfl⟩

theorem outL_var (enc : EncKind) (n : Nat) (cur : List Nat) : ∀ l ∈ outL enc n cur, ∃ a, a < n ∧ l = pl (enc.argVar a) := by
  intro l hl
  unfold outL at hl
  obtain ⟨a, ha, rfl⟩ := List.mem_map.1 hl
  exact ⟨a, List.mem_range.1 (List.mem_filter.1 ha).1, rfl⟩

/-- the solver of a computer: encoder clauses, one blocking clause per blocked set, fresh selector;
`F` is the family of sets the encoder describes (complete extensions for the default encoders,
admissible sets for the encoder the command line hands to the preferred solver for `SE-PR`) -/
structure MInvF (F : AF → ASet → Prop) (m : MEC) (w : World) (blocked : List (List Nat)) : Prop where
  wf : m.af.WF
  isF : ∀ T, m.enc.Base m.af T ↔ F m.af T
  db_sound : ∀ c ∈ w.db m.sid, c ∈ m.enc.clauses m.af ∨ ∃ E ∈ blocked, c = outL m.enc m.af.n E ++ [pl m.sel]
  db_enc : ∀ c ∈ m.enc.clauses m.af, c ∈ w.db m.sid
  db_blk : ∀ E ∈ blocked, outL m.enc m.af.n E ++ [pl m.sel] ∈ w.db m.sid
  fresh_enc : ∀ c ∈ m.enc.clauses m.af, ∀ l ∈ c, l.var ≠ m.sel
  fresh_arg : ∀ a, a < m.af.n → m.enc.argVar a ≠ m.sel
  no_add : m.additional = []

/-- the invariant for an encoder of the complete extensions -/
abbrev MInv (m : MEC) (w : World) (blocked : List (List Nat)) : Prop := MInvF Complete m w blocked

theorem MInvF.isCO {m : MEC} {w : World} {blocked : List (List Nat)} (h : MInv m w blocked) :
    ∀ T, m.enc.Base m.af T ↔ Complete m.af T := h.isF

/-- `T ⊆ E` for a set and a list -/
def SubL (T : ASet) (E : List Nat) : Prop := ∀ a, T a = true → a ∈ E

/-- a satisfying assignment under `must ∧ ¬selector` -/
theorem solve_satF {F : AF → ASet → Prop} {m : MEC} {w : World} {blocked : List (List Nat)}
    (h : MInvF F m w blocked) (must : List Nat)
    (extra : List Lit) {ν : Asg} (hΓ : cnfTrue ν (w.db m.sid) = true)
    (hA : assumpsTrue ν (inL m.enc m.af.n must ++ [nl m.sel] ++ extra) = true) :
    F m.af (m.enc.S m.af ν) ∧ (∀ a ∈ must, a < m.af.n → m.enc.S m.af ν a = true) ∧
      (∀ E ∈ blocked, ¬ SubL (m.enc.S m.af ν) E) ∧ assumpsTrue ν extra = true := by
  rw [cnfTrue_iff] at hΓ
  have henc : cnfTrue ν (m.enc.clauses m.af) = true := by
    rw [cnfTrue_iff]; intro c hc; exact hΓ c (h.db_enc c hc)
  simp only [assumpsTrue, List.all_append, Bool.and_eq_true, List.all_eq_true] at hA
  obtain ⟨⟨hin, hsel⟩, hextra⟩ := hA
  have hsel' : ν m.sel = false := by simpa using hsel (nl m.sel) (by simp)
  refine ⟨(h.isF _).1 (m.enc.sound m.af h.wf ν henc), (inL_true m.enc m.af ν must).1 hin, ?_, ?_⟩
  · intro E hE hsub
    have := hΓ _ (h.db_blk E hE)
    rw [clauseTrue_iff] at this
    obtain ⟨l, hl, hlt⟩ := this
    rcases List.mem_append.1 hl with hl | hl
    · obtain ⟨a, ha, hS⟩ := (outL_true m.enc m.af ν E).1 ⟨l, hl, hlt⟩
      exact ha (hsub a hS)
    · simp only [List.mem_singleton] at hl; subst hl
      simp [hsel'] at hlt
  · simp only [assumpsTrue, List.all_eq_true]; exact hextra

theorem solve_sat {m : MEC} {w : World} {blocked : List (List Nat)} (h : MInv m w blocked) (must : List Nat)
    (extra : List Lit) {ν : Asg} (hΓ : cnfTrue ν (w.db m.sid) = true)
    (hA : assumpsTrue ν (inL m.enc m.af.n must ++ [nl m.sel] ++ extra) = true) :
    Complete m.af (m.enc.S m.af ν) ∧ (∀ a ∈ must, a < m.af.n → m.enc.S m.af ν a = true) ∧
      (∀ E ∈ blocked, ¬ SubL (m.enc.S m.af ν) E) ∧ assumpsTrue ν extra = true :=
  solve_satF h must extra hΓ hA

/-- no satisfying assignment under `must ∧ ¬selector`: every complete extension containing `must`
(and compatible with the extra assumptions, which only mention argument variables) is inside a
blocked set -/
theorem solve_unsatF {F : AF → ASet → Prop} {m : MEC} {w : World} {blocked : List (List Nat)}
    (h : MInvF F m w blocked) (must : List Nat)
    (extra : List Lit)
    (hun : ∀ ν : Asg, ¬ (cnfTrue ν (w.db m.sid) = true ∧
      assumpsTrue ν (inL m.enc m.af.n must ++ [nl m.sel] ++ extra) = true))
    {T : ASet} (hT : F m.af T) (hmust : ∀ a ∈ must, a < m.af.n → T a = true)
    (hextra : ∀ ν, m.enc.S m.af ν = T → ν m.sel = false → assumpsTrue ν extra = true) :
    ∃ E ∈ blocked, SubL T E := by
  apply Classical.byContradiction
  intro hno
  obtain ⟨ν, hν, hS⟩ := m.enc.complete m.af h.wf T ((h.isF _).2 hT)
  have hS' : m.enc.S m.af (ν.set m.sel false) = T := by rw [m.enc.S_set_fresh m.af ν _ _ h.fresh_arg, hS]
  apply hun (ν.set m.sel false)
  constructor
  · rw [cnfTrue_iff]
    intro c hc
    rcases h.db_sound c hc with hc' | ⟨E, hE, rfl⟩
    · rw [clauseTrue_set_fresh _ _ _ (h.fresh_enc c hc')]
      exact (cnfTrue_iff _ _).1 hν c hc'
    · rw [clauseTrue_iff]
      have : ¬ SubL T E := fun hsub => hno ⟨E, hE, hsub⟩
      simp only [SubL, Classical.not_forall] at this
      obtain ⟨a, hTa, hna⟩ := this
      obtain ⟨l, hl, hlt⟩ := (outL_true m.enc m.af (ν.set m.sel false) E).2 ⟨a, hna, by rw [hS']; exact hTa⟩
      exact ⟨l, List.mem_append_left _ hl, hlt⟩
  · simp only [assumpsTrue, List.all_append, Bool.and_eq_true]
    refine ⟨⟨?_, by simp⟩, hextra _ hS' (by simp)⟩
    rw [List.all_eq_true]
    apply (inL_true m.enc m.af _ must).2
    intro a ha hn
    rw [hS']; exact hmust a ha hn

theorem solve_unsat {m : MEC} {w : World} {blocked : List (List Nat)} (h : MInv m w blocked) (must : List Nat)
    (extra : List Lit)
    (hun : ∀ ν : Asg, ¬ (cnfTrue ν (w.db m.sid) = true ∧
      assumpsTrue ν (inL m.enc m.af.n must ++ [nl m.sel] ++ extra) = true))
    {T : ASet} (hT : Complete m.af T) (hmust : ∀ a ∈ must, a < m.af.n → T a = true)
    (hextra : ∀ ν, m.enc.S m.af ν = T → ν m.sel = false → assumpsTrue ν extra = true) :
    ∃ E ∈ blocked, SubL T E :=
  solve_unsatF h must extra hun hT hmust hextra

end Crusta
