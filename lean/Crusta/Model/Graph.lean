import Crusta.Spec.AF
import Crusta.Model.Store

/-!
# Model of `utils::grounded_extension` and `ConnectedComponentsComputer`

Both run on a *view* of a framework (sparse ids, row iteration orders), instantiated for the store
model (whole framework, as given by the user) and for compact frameworks (extracted components).
-/

namespace Crusta

structure FwView where
  maxId : Option Nat
  live : List Nat                 -- live ids, id order (`ArgumentSet::iter`)
  isLive : Nat → Bool
  attFrom : Nat → List Nat        -- targets of the live attacks from an id, row order
  attTo : Nat → List Nat          -- attackers of an id, row order
  allAtts : List (Nat × Nat)      -- `iter_attacks`: live attacks, global push order

def Store.view (s : Store) : FwView :=
  { maxId := s.maxId
    live := s.liveArgs.map (·.1)
    isLive := s.hasId
    attFrom := fun a => (s.iterFrom a).map (·.2)
    attTo := fun a => (s.iterTo a).map (·.1)
    allAtts := s.iterAttacks }

def AF.view (af : AF) : FwView :=
  { maxId := if af.n == 0 then none else some (af.n - 1)
    live := List.range af.n
    isLive := fun a => decide (a < af.n)
    attFrom := af.attackedOf
    attTo := af.attackers
    allAtts := af.atts }

/-! ## grounded extension (queue based) -/

structure GrSt where
  ext : List Nat
  defeated : List Bool
  cnt : List Nat

/-- process the attacks *from* a freshly defeated argument: its targets lose one attacker -/
def grDefend (st : GrSt) : List Nat → GrSt
  | [] => st
  | d :: ds =>
    if st.cnt.getD d 0 == 1 then grDefend { st with ext := st.ext ++ [d] } ds
    else grDefend { st with cnt := st.cnt.set d (st.cnt.getD d 0 - 1) } ds

/-- process the attacks from an accepted argument -/
def grDefeat (v : FwView) (st : GrSt) : List Nat → GrSt
  | [] => st
  | t :: ts =>
    if st.defeated.getD t false then grDefeat v st ts
    else grDefeat v (grDefend { st with defeated := st.defeated.set t true } (v.attFrom t)) ts

def grLoop (v : FwView) : Nat → Nat → GrSt → GrSt
  | 0, _, st => st
  | fuel + 1, i, st =>
    match st.ext[i]? with
    | none => st
    | some a => grLoop v fuel (i + 1) (grDefeat v st (v.attFrom a))

/-- `utils::grounded_extension`: result in push order -/
def groundedV (v : FwView) : List Nat :=
  match v.maxId with
  | none => []
  | some m =>
    let cnt := (List.range (m + 1)).map (fun a => if v.isLive a then (v.attTo a).length else 0)
    let ext0 := v.live.filter (fun a => (v.attTo a).length == 0)
    (grLoop v (m + 2) 0 { ext := ext0, defeated := List.replicate (m + 1) false, cnt := cnt }).ext

/-! ## connected components -/

structure CC where
  inCC : List Bool
  next : Nat
deriving Repr

def CC.updateNext (v : FwView) (cc : CC) : CC :=
  let rec go : Nat → Nat → Nat
    | 0, n => n
    | fuel + 1, n =>
      if n < cc.inCC.length && (cc.inCC.getD n false || !v.isLive n) then go fuel (n + 1) else n
  { cc with next := go (cc.inCC.length + 1) cc.next }

def CC.new (v : FwView) : CC :=
  CC.updateNext v { inCC := List.replicate (1 + v.maxId.getD 0) false, next := 0 }

structure FindSt where
  cc : CC
  current : List Nat
  stack : List Nat

def ccVisit (v : FwView) (st : FindSt) : List Nat → FindSt
  | [] => st
  | nb :: nbs =>
    if st.cc.inCC.getD nb false then ccVisit v st nbs
    else
      let cc1 : CC := { st.cc with inCC := st.cc.inCC.set nb true }
      let cc2 := if cc1.next == nb then CC.updateNext v cc1 else cc1
      ccVisit v { cc := cc2, current := st.current ++ [nb], stack := st.stack ++ [nb] } nbs

def ccLoop (v : FwView) : Nat → FindSt → FindSt
  | 0, st => st
  | fuel + 1, st =>
    match st.stack.getLast? with
    | none => st
    | some a => ccLoop v fuel (ccVisit v { st with stack := st.stack.dropLast } (v.attFrom a ++ v.attTo a))

/-- `find_connected_component_of` -/
def CC.find (v : FwView) (cc : CC) (arg : Nat) : List Nat × CC :=
  let cc1 := CC.updateNext v { cc with inCC := cc.inCC.set arg true }
  let st := ccLoop v (cc.inCC.length + 1) { cc := cc1, current := [arg], stack := [arg] }
  (st.current, st.cc)

/-- a component: the original ids in component order, and the compact framework extracted -/
structure Comp where
  ids : List Nat
  af : AF
deriving Repr

def posOf (l : List Nat) (a : Nat) : Option Nat := l.findIdx? (fun b => b == a)

/-- `extract_connected_component`; `none` models the `unwrap` panic on an attack leaving the set -/
def extractComp (v : FwView) (ids : List Nat) : Option Comp :=
  let atts := v.allAtts.filterMap (fun p =>
    match posOf ids p.1 with
    | none => none
    | some i => some (i, posOf ids p.2))
  if atts.any (fun p => p.2.isNone) then none
  else some { ids := ids, af := ⟨ids.length, atts.map (fun p => (p.1, p.2.getD 0))⟩ }

/-- `next_connected_component` -/
def CC.nextComp (v : FwView) (cc : CC) : Option (Option Comp × CC) :=
  if v.live.isEmpty || cc.next == cc.inCC.length then none
  else
    let (ids, cc') := CC.find v cc cc.next
    some (extractComp v ids, cc')

/-- `merged_connected_components_of`; outer `none` = the "already computed" panic -/
def CC.mergedOf (v : FwView) (cc : CC) (args : List Nat) : Option (Option Comp × CC) :=
  if args.any (fun a => cc.inCC.getD a false) then none
  else
    let (ids, cc') := args.foldl (fun (acc : List Nat × CC) a =>
      if acc.2.inCC.getD a false then acc
      else let (c, cc2) := CC.find v acc.2 a; (acc.1 ++ c, cc2)) ([], cc)
    some (extractComp v ids, cc')

/-- all components in the order `iter_connected_components` yields them -/
def allComps (v : FwView) : List (Option Comp) :=
  let rec go : Nat → CC → List (Option Comp)
    | 0, _ => []
    | fuel + 1, cc =>
      match CC.nextComp v cc with
      | none => []
      | some (c, cc') => c :: go fuel cc'
  go ((v.maxId.getD 0) + 2) (CC.new v)

end Crusta
