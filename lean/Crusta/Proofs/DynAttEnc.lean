import Crusta.Proofs.DynAttLoop

/-!
# What a re-encoding of the attack-assumption encoder gives the (new) SAT solver

`EncSpec sem n c` describes, in closed form, the clauses emitted by
`update_encoding_for_{stable,complete}_semantics` for `n = n_arg_vars`: the auxiliary variable of
the cell (argument variable `i+1`, attacker variable `j+1`) of a pass started at `n_vars() = N` is
`N + i*n + 1 + j`.  `updateEncoding_wp`: after `update_encoding` (when an encoding is due) the shared
cell holds a **new** solver whose clause database is exactly `EncSpec`.
-/

namespace Crusta.DynAtt
open Crusta Prog Crusta.Dyn

/-! ## arithmetic -/

theorem mul_pred_add (n : Nat) (h : 1 ≤ n) : n * (n - 1) + n = n * n := by
  cases n with
  | zero => omega
  | succ m => simp [Nat.mul_succ]

theorem attVar_eq (n i j : Nat) : attVar n (i + 1) (j + 1) = n + n * i + j + 1 := by
  unfold attVar; simp; omega

theorem attVar_bounds {n i j : Nat} (hi : i < n) (hj : j < n) :
    n < attVar n (i + 1) (j + 1) ∧ attVar n (i + 1) (j + 1) ≤ n * (1 + n) := by
  rw [attVar_eq]
  have h1 : n * i ≤ n * (n - 1) := Nat.mul_le_mul_left n (by omega)
  have h2 := mul_pred_add n (by omega)
  have h3 : n * (1 + n) = n + n * n := by rw [Nat.mul_add]; omega
  omega

theorem disjVar_bounds {n i : Nat} (hi : i < n) :
    n * (1 + n) < disjVar n (i + 1) ∧ disjVar n (i + 1) ≤ n * (2 + n) := by
  unfold disjVar
  have h3 : n * (1 + n) = n + n * n := by rw [Nat.mul_add]; omega
  have h4 : n * (2 + n) = 2 * n + n * n := by rw [Nat.mul_add]; omega
  omega

theorem mem_range1 {n x : Nat} : x ∈ range1 n ↔ ∃ i, i < n ∧ x = i + 1 := by
  simp only [range1, List.mem_map, List.mem_range]
  constructor
  · rintro ⟨i, hi, rfl⟩; exact ⟨i, hi, rfl⟩
  · rintro ⟨i, hi, rfl⟩; exact ⟨i, hi, rfl⟩

@[simp] theorem range1_length (n : Nat) : (range1 n).length = n := by simp [range1]

theorem range1_get (n i : Nat) (h : i < (range1 n).length) : (range1 n)[i] = i + 1 := by
  simp [range1]

/-! ## closed form of one pass -/

/-- the clauses of one pass of the encoder started when `n_vars() = N` -/
def PassSpec (n N : Nat) (pre : Nat → Cnf) (head : Nat → Lit) (cell : Nat → Nat → Nat → Cnf)
    (c : Clause) : Prop :=
  ∃ i, i < n ∧ (c ∈ pre (i + 1) ∨ (∃ j, j < n ∧ c ∈ cell (i + 1) (j + 1) (N + i * n + 1 + j)) ∨
    c = head (i + 1) :: auxLits n (N + i * n))

theorem mem_rowsEmitted_range1 (n N : Nat) (pre : Nat → Cnf) (head : Nat → Lit)
    (cell : Nat → Nat → Nat → Cnf) (c : Clause) :
    c ∈ rowsEmitted n pre head cell (range1 n) N ↔ PassSpec n N pre head cell c := by
  rw [mem_rowsEmitted]
  unfold PassSpec
  constructor
  · rintro ⟨i, hi, h⟩
    have hi' : i < n := by simpa using hi
    refine ⟨i, hi', ?_⟩
    rw [range1_get] at h
    rcases h with h | h | h
    · exact Or.inl h
    · right; left
      obtain ⟨j, hj, h⟩ := (mem_emitted _ _ _ _).1 h
      rw [range1_get] at h
      exact ⟨j, by simpa using hj, h⟩
    · exact Or.inr (Or.inr h)
  · rintro ⟨i, hi, h⟩
    refine ⟨i, by simpa using hi, ?_⟩
    rw [range1_get]
    rcases h with h | ⟨j, hj, h⟩ | h
    · exact Or.inl h
    · right; left
      apply (mem_emitted _ _ _ _).2
      refine ⟨j, by simpa using hj, ?_⟩
      rw [range1_get]; exact h
    · exact Or.inr (Or.inr h)

/-- the clause database of a freshly encoded solver -/
def EncSpec (sem : DSem) (n : Nat) (c : Clause) : Prop :=
  match sem with
  | .ST => PassSpec n (n * (1 + n)) (fun _ => []) pl (stCell n) c
  | _ =>
    PassSpec n (n * (2 + n)) (fun x => [[nl x, nl (disjVar n x)]]) pl (coCell1 n) c ∨
    PassSpec n (n * (2 + n) + n * n) (fun _ => []) (fun x => nl (disjVar n x)) (coCell2 n) c

/-! ## the cells only mention the fresh auxiliary variable and reserved variables -/

theorem cellOK_st (n B : Nat) (hB : n * (1 + n) ≤ B) {x : Nat} (hx : x ∈ range1 n) :
    CellOK (stCell n x) (range1 n) B := by
  obtain ⟨i, hi, rfl⟩ := mem_range1.1 hx
  intro a ha u hu
  obtain ⟨j, hj, rfl⟩ := mem_range1.1 ha
  have hb := attVar_bounds hi hj
  have h3 : n * (1 + n) = n + n * n := by rw [Nat.mul_add]; omega
  have hnn : n ≤ n * n := Nat.le_mul_of_pos_left n (by omega)
  constructor
  · intro c hc l hl
    simp only [stCell, List.mem_cons, List.not_mem_nil, or_false] at hc
    rcases hc with rfl | rfl | rfl | rfl <;>
      simp only [List.mem_cons, List.not_mem_nil, or_false] at hl <;>
      rcases hl with rfl | rfl | rfl <;> simp [pl, nl] <;> omega
  · exact ⟨[nl (u + 1), pl (j + 1)], by simp [stCell], nl (u + 1), by simp, rfl⟩

theorem cellOK_co1 (n B : Nat) (hB : n * (2 + n) ≤ B) {x : Nat} (hx : x ∈ range1 n) :
    CellOK (coCell1 n x) (range1 n) B := by
  obtain ⟨i, hi, rfl⟩ := mem_range1.1 hx
  intro a ha u hu
  obtain ⟨j, hj, rfl⟩ := mem_range1.1 ha
  have hb := attVar_bounds hi hj
  have hd := disjVar_bounds hj
  have h3 : n * (1 + n) = n + n * n := by rw [Nat.mul_add]; omega
  have h4 : n * (2 + n) = 2 * n + n * n := by rw [Nat.mul_add]; omega
  have hnn : n ≤ n * n := Nat.le_mul_of_pos_left n (by omega)
  constructor
  · intro c hc l hl
    simp only [coCell1, List.mem_cons, List.not_mem_nil, or_false] at hc
    rcases hc with rfl | rfl | rfl | rfl <;>
      simp only [List.mem_cons, List.not_mem_nil, or_false] at hl <;>
      rcases hl with rfl | rfl | rfl <;> simp [pl, nl] <;> omega
  · exact ⟨[nl (u + 1), nl (disjVar n (j + 1))], by simp [coCell1], nl (u + 1), by simp, rfl⟩

theorem cellOK_co2 (n B : Nat) (hB : n * (2 + n) ≤ B) {x : Nat} (hx : x ∈ range1 n) :
    CellOK (coCell2 n x) (range1 n) B := by
  obtain ⟨i, hi, rfl⟩ := mem_range1.1 hx
  intro a ha u hu
  obtain ⟨j, hj, rfl⟩ := mem_range1.1 ha
  have hb := attVar_bounds hi hj
  have hd := disjVar_bounds hi
  have h3 : n * (1 + n) = n + n * n := by rw [Nat.mul_add]; omega
  have h4 : n * (2 + n) = 2 * n + n * n := by rw [Nat.mul_add]; omega
  have hnn : n ≤ n * n := Nat.le_mul_of_pos_left n (by omega)
  constructor
  · intro c hc l hl
    simp only [coCell2, List.mem_cons, List.not_mem_nil, or_false] at hc
    rcases hc with rfl | rfl | rfl | rfl <;>
      simp only [List.mem_cons, List.not_mem_nil, or_false] at hl <;>
      rcases hl with rfl | rfl | rfl <;> simp [pl, nl] <;> omega
  · exact ⟨[nl (u + 1), pl (j + 1)], by simp [coCell2], nl (u + 1), by simp, rfl⟩

/-! ## `update_encoding` -/

theorem updateEncoding_noop {C : Prop} (e : AEnc) (st : Store) (w : World) (Q : AEnc → World → Prop)
    (hsem : e.sem ≠ .PR) (hneed : e.needToEncode = false) :
    wp C (e.updateEncoding st) w Q ↔ Q e w := by
  unfold AEnc.updateEncoding
  have : (e.sem == DSem.PR) = false := by cases h : e.sem <;> simp_all
  simp [this, hneed, wp]

/-- **re-encoding**: a new solver is created and receives exactly the clauses of `EncSpec` -/
theorem updateEncoding_wp {C : Prop} (e : AEnc) (st : Store) (w : World) (Q : AEnc → World → Prop)
    (hsem : e.sem ≠ .PR) (hneed : e.needToEncode = true)
    (hfac : st.nArguments ≤ e.scaled st.nArguments)
    (h : ∀ w' : World, w'.solvers.length = w.solvers.length + 1 →
        (∀ c, c ∈ w'.db w.solvers.length ↔ EncSpec e.sem (e.scaled st.nArguments) c) →
        Q (e.reencoded st w.solvers.length) w') :
    wp C (e.updateEncoding st) w Q := by
  unfold AEnc.updateEncoding
  have hpr : (e.sem == DSem.PR) = false := by cases h : e.sem <;> simp_all
  have hlt : ¬ e.scaled st.nArguments < st.nArguments := by omega
  simp only [hpr, hneed, hlt, Bool.false_eq_true, if_false, Bool.not_true]
  simp only [wp]
  generalize hn : e.scaled st.nArguments = n at *
  generalize hk : w.solvers.length = k at *
  have hklt : k < w.onNew.solvers.length := by simp [hk]
  have hdb0 : w.onNew.db k = [] := by rw [← hk]; simp
  have hnv0 : w.onNew.nVarsOf k = 0 := by rw [← hk]; exact nVarsOf_onNew_self w
  have hxs : (List.range n).map (· + 1) = range1 n := rfl
  cases hs : e.sem with
  | PR => exact absurd hs hsem
  | ST =>
    simp only [wp, stOuter, hxs]
    rw [wp_bind]
    have hnv1 : (w.onNew.onReserve k (n * (1 + n))).nVarsOf k = n * (1 + n) := by
      rw [nVarsOf_onReserve _ _ _ hklt, hnv0]; omega
    apply rowLoop_wp k n _ _ _ (n * (1 + n))
    · simpa using hklt
    · omega
    · intro x hx
      obtain ⟨i, hi, rfl⟩ := mem_range1.1 hx
      have hnn : n ≤ n * n := Nat.le_mul_of_pos_left n (by omega)
      have h3 : n * (1 + n) = n + n * n := by rw [Nat.mul_add]; omega
      refine ⟨by simp, by simp [pl]; omega, cellOK_st n _ (Nat.le_refl _) hx⟩
    · intro w' hlen hnv hdb
      simp only [wp]
      apply h w' (by rw [hlen]; simp [← hk])
      intro c
      rw [hdb, hnv1, hs]
      simp only [db_onReserve, hdb0, List.append_nil, List.mem_reverse, EncSpec]
      exact mem_rowsEmitted_range1 _ _ _ _ _ c
  | CO =>
    simp only [wp, coOuter1, coOuter2, hxs]
    rw [wp_bind]
    have hnv1 : (w.onNew.onReserve k (n * (2 + n))).nVarsOf k = n * (2 + n) := by
      rw [nVarsOf_onReserve _ _ _ hklt, hnv0]; omega
    have hnn : n ≤ n * n ∨ n = 0 := by
      cases n with
      | zero => right; rfl
      | succ m => left; exact Nat.le_mul_of_pos_left _ (by omega)
    have h4 : n * (2 + n) = 2 * n + n * n := by rw [Nat.mul_add]; omega
    apply rowLoop_wp k n _ _ _ (n * (2 + n))
    · simpa using hklt
    · omega
    · intro x hx
      obtain ⟨i, hi, rfl⟩ := mem_range1.1 hx
      have hd := disjVar_bounds hi
      refine ⟨?_, by simp [pl]; omega, cellOK_co1 n _ (Nat.le_refl _) hx⟩
      intro c hc l hl
      simp only [List.mem_singleton] at hc
      subst hc
      simp only [List.mem_cons, List.not_mem_nil, or_false] at hl
      rcases hl with rfl | rfl <;> simp [nl] <;> omega
    · intro w1 hlen1 hnvw1 hdb1
      rw [wp_bind]
      rw [hnv1, range1_length] at hnvw1
      apply rowLoop_wp k n _ _ _ (n * (2 + n))
      · rw [hlen1]; simpa using hklt
      · omega
      · intro x hx
        obtain ⟨i, hi, rfl⟩ := mem_range1.1 hx
        have hd := disjVar_bounds hi
        refine ⟨by simp, by simp [nl]; omega, cellOK_co2 n _ (Nat.le_refl _) hx⟩
      · intro w' hlen hnv hdb
        simp only [wp]
        apply h w' (by rw [hlen, hlen1]; simp [← hk])
        intro c
        rw [hdb, hdb1, hnvw1, hnv1, hs]
        simp only [db_onReserve, hdb0, List.append_nil, List.mem_append, List.mem_reverse, EncSpec]
        rw [mem_rowsEmitted_range1, mem_rowsEmitted_range1]
        exact Or.comm

end Crusta.DynAtt
