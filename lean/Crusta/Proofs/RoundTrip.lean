import Crusta.Proofs.RoundTripAux

/-!
# Reader round trips (C13 acceptance direction, C14 framework round trip)

* (A) `read_render_iccma`: every canonically rendered ICCMA'23 file (`p af N`, one line `a b` per
  attack, ids in range, `N ≤ isize::MAX`) is accepted by `readIccma` and read back exactly;
  `read_render_iccma'`: the same with `#` comment lines before the preamble and between the
  attacks, trailing blank/comment lines, and with or without a final newline;
  `read_render_iccma_big`: the bound on `N` is necessary.
* (B) `apx_write_read`: a framework with pairwise distinct `ValidId` labels written by `writeApx`
  is read back by `readApx` with the same labels and attacks in the same order.  `ValidId` is
  exactly the label language of the reader (`matchArg_validId`); it contains non-ASCII decimal
  digits, so the proof uses the UTF-8 round trip for all scalar values.
* (C) exported small facts: `parseIsize_natToStr`, `parseUsize_natToStr` (in `RoundTripAux`),
  `splitWs_two`, `splitWs_header`, `lines_encode_flatMap`, `lines_joinLines`, `decode_encode`
  (in `RoundTripAux`), `matchArg_line`, `matchAtt_line`, `scanName_id`.
-/

namespace Crusta.IO

/-! ## character classes -/

theorem isWs_false_of (c : Nat) (h : 33 ≤ c ∧ c ≤ 132) : isWs c = false := by
  simp only [isWs, inRanges, Gen.whiteSpaceRanges, List.any_cons, List.any_nil, Bool.or_false,
    Bool.or_eq_false_iff, Bool.and_eq_false_iff, decide_eq_false_iff_not]
  omega

theorem inRanges_iff (rs : List (Nat × Nat)) (c : Nat) :
    inRanges rs c = true ↔ ∃ r ∈ rs, r.1 ≤ c ∧ c ≤ r.2 := by
  simp [inRanges, List.any_eq_true]

theorem decimalRanges_ok : ∀ r ∈ Gen.decimalRanges,
    (48 ≤ r.1 ∧ r.2 < 133) ∨ (161 ≤ r.1 ∧ r.2 < 5760) ∨ (5761 ≤ r.1 ∧ r.2 < 8192) ∨
    (12289 ≤ r.1 ∧ r.2 < 0xD800) ∨ (0xE000 ≤ r.1 ∧ r.2 < 0x110000) := by decide

theorem isWs_true_iff (c : Nat) : isWs c = true ↔
    (9 ≤ c ∧ c ≤ 13) ∨ c = 32 ∨ c = 133 ∨ c = 160 ∨ c = 5760 ∨ (8192 ≤ c ∧ c ≤ 8202) ∨
    c = 8232 ∨ c = 8233 ∨ c = 8239 ∨ c = 8287 ∨ c = 12288 := by
  simp only [isWs, inRanges, Gen.whiteSpaceRanges, List.any_cons, List.any_nil, Bool.or_false,
    Bool.or_eq_true, Bool.and_eq_true, decide_eq_true_eq]
  omega

/-- a Unicode decimal digit is a scalar value, not a blank, not a line terminator -/
theorem isDigitU_props (c : Nat) (h : isDigitU c = true) :
    Scalar c ∧ isWs c = false ∧ 48 ≤ c := by
  obtain ⟨r, hr, h1, h2⟩ := (inRanges_iff _ _).1 h
  have := decimalRanges_ok r hr
  refine ⟨⟨by omega, by omega⟩, ?_, by omega⟩
  rw [Bool.eq_false_iff, Ne, isWs_true_iff]
  omega


/-! ## (A) the ICCMA'23 reader accepts rendered files and reads them faithfully -/

theorem foldLines_append {σ : Type} (f : σ → Option Str → Except String σ) (s : σ) (a b : List (Option Str)) :
    foldLines f s (a ++ b) =
      (match foldLines f s a with | .ok s' => foldLines f s' b | .error e => .error e) := by
  induction a generalizing s with
  | nil => simp [foldLines]
  | cons x xs ih =>
    simp only [List.cons_append, foldLines]
    cases f s x with
    | ok s' => exact ih s'
    | error e => rfl

theorem splitWs_go_word_end (x : Str) (hx : ∀ c ∈ x, isWs c = false) (hne : x ≠ []) (acc : List Str) :
    splitWs.go x [] acc = (x :: acc).reverse := by
  have := splitWs_go_word x hx [] [] acc
  rw [List.append_nil, List.append_nil] at this
  rw [this]
  have he : x.reverse.isEmpty = false := by simp [hne]
  simp [splitWs.go, he]

theorem digits_not_ws (k : Nat) : ∀ c ∈ natToStr k, isWs c = false := fun c hc =>
  isWs_false_of c (by have := natToStr_digits k c hc; omega)

/-- `split_whitespace` on two rendered numbers separated by one space -/
theorem splitWs_two (a b : Nat) : splitWs (natToStr a ++ [32] ++ natToStr b) = [natToStr a, natToStr b] := by
  unfold splitWs
  rw [List.append_assoc, splitWs_go_word _ (digits_not_ws a)]
  have he : (natToStr a).reverse.isEmpty = false := by simp [natToStr_ne_nil a]
  simp only [List.append_nil, List.singleton_append, splitWs.go, isWs_space, if_true, he,
    Bool.false_eq_true, if_false, List.reverse_reverse]
  rw [splitWs_go_word_end _ (digits_not_ws b) (natToStr_ne_nil b)]
  simp

theorem strOf_p_af : strOf "p af " = [112, 32, 97, 102, 32] := by decide

/-- `split_whitespace` on the rendered preamble -/
theorem splitWs_header (n : Nat) : splitWs (strOf "p af " ++ natToStr n) = [[112], [97, 102], natToStr n] := by
  have h112 : isWs 112 = false := isWs_false_of _ (by omega)
  have h97 : isWs 97 = false := isWs_false_of _ (by omega)
  have h102 : isWs 102 = false := isWs_false_of _ (by omega)
  rw [strOf_p_af]
  unfold splitWs
  simp only [List.cons_append, List.nil_append, splitWs.go, h112, h97, h102, isWs_space, if_true,
    Bool.false_eq_true, if_false, List.isEmpty_cons, List.isEmpty_nil, List.reverse_cons, List.reverse_nil]
  rw [splitWs_go_word_end _ (digits_not_ws n) (natToStr_ne_nil n)]
  simp

theorem readPreamble_header (n : Nat) (hn : n ≤ 9223372036854775807) :
    readPreamble [[112], [97, 102], natToStr n] = .ok n := by
  have h1 : ([112] != strOf "p") = false := by decide
  have h2 : ([97, 102] != strOf "af") = false := by decide
  simp [readPreamble, h1, h2, parseIsize_natToStr n hn]

/-- the rendered preamble -/
def iccmaHeader (n : Nat) : Str := strOf "p af " ++ natToStr n
/-- a rendered attack `a+1 b+1` (0-based ids) -/
def iccmaAttLine (p : Nat × Nat) : Str := natToStr (p.1 + 1) ++ [32] ++ natToStr (p.2 + 1)

theorem iccmaLine_comment (st : IccmaSt) (t : Str) : iccmaLine st (some (35 :: t)) = .ok st := by
  simp [iccmaLine]

theorem iccmaLine_header (n : Nat) (hn : n ≤ 9223372036854775807) :
    iccmaLine {} (some (iccmaHeader n)) = .ok { af := some ⟨n, []⟩, foundEmpty := false } := by
  have hh : (iccmaHeader n).head? = some 112 := by simp [iccmaHeader, strOf_p_af]
  have he : (iccmaHeader n).isEmpty = false := by simp [iccmaHeader, strOf_p_af]
  unfold iccmaLine
  simp only [hh, he]
  unfold iccmaHeader
  simp [splitWs_header, readPreamble_header n hn]

theorem iccmaLine_att (n : Nat) (atts : List (Nat × Nat)) (p : Nat × Nat) (hp : p.1 < n ∧ p.2 < n)
    (hn : n ≤ 9223372036854775807) :
    iccmaLine { af := some ⟨n, atts⟩, foundEmpty := false } (some (iccmaAttLine p)) =
      .ok { af := some ⟨n, atts ++ [p]⟩, foundEmpty := false } := by
  obtain ⟨c, cs, hs⟩ : ∃ c cs, natToStr (p.1 + 1) = c :: cs := by
    cases h : natToStr (p.1 + 1) with
    | nil => exact absurd h (natToStr_ne_nil _)
    | cons c cs => exact ⟨c, cs, rfl⟩
  have hc := natToStr_digits (p.1 + 1) c (by rw [hs]; exact List.mem_cons_self ..)
  have hh : (iccmaAttLine p).head? ≠ some 35 := by
    simp only [iccmaAttLine, hs, List.cons_append, List.head?_cons, ne_eq, Option.some.injEq]; omega
  have he : (iccmaAttLine p).isEmpty = false := by simp [iccmaAttLine, hs]
  unfold iccmaLine
  simp only [he]
  rw [if_neg (by simpa using hh)]
  simp only [Bool.false_eq_true, if_false]
  unfold iccmaAttLine
  rw [splitWs_two]
  simp only [parseIsize_natToStr (p.1 + 1) (by omega), parseIsize_natToStr (p.2 + 1) (by omega)]
  simp
  rw [if_pos ⟨by omega, by omega⟩, if_pos ⟨by omega, by omega⟩]

theorem foldLines_atts (n : Nat) (hn : n ≤ 9223372036854775807) (atts : List (Nat × Nat))
    (h : ∀ p ∈ atts, p.1 < n ∧ p.2 < n) (pre : List (Nat × Nat)) :
    foldLines iccmaLine { af := some ⟨n, pre⟩, foundEmpty := false } ((atts.map iccmaAttLine).map some) =
      .ok { af := some ⟨n, pre ++ atts⟩, foundEmpty := false } := by
  induction atts generalizing pre with
  | nil => simp [foldLines]
  | cons p ps ih =>
    simp only [List.map_cons, foldLines]
    rw [iccmaLine_att n pre p (h p (List.mem_cons_self ..)) hn]
    simp only
    rw [ih (fun q hq => h q (List.mem_cons_of_mem _ hq))]
    simp


theorem lineOk_of_printable (l : Str) (h : ∀ c ∈ l, 32 ≤ c ∧ c < 127) : LineOk l := by
  refine ⟨fun c hc => ⟨⟨by have := h c hc; omega, by have := h c hc; omega⟩, by have := h c hc; omega⟩, ?_⟩
  intro hl
  have := h 13 (List.mem_of_getLast? hl)
  omega

theorem iccmaHeader_printable (n : Nat) : ∀ c ∈ iccmaHeader n, 32 ≤ c ∧ c < 127 := by
  intro c hc
  rw [iccmaHeader, strOf_p_af] at hc
  rcases List.mem_append.1 hc with hc | hc
  · simp at hc; omega
  · have := natToStr_digits n c hc; omega

theorem iccmaAttLine_printable (p : Nat × Nat) : ∀ c ∈ iccmaAttLine p, 32 ≤ c ∧ c < 127 := by
  intro c hc
  rw [iccmaAttLine] at hc
  rcases List.mem_append.1 hc with hc | hc
  · rcases List.mem_append.1 hc with hc | hc
    · have := natToStr_digits _ c hc; omega
    · simp at hc; omega
  · have := natToStr_digits _ c hc; omega

theorem iccmaHeader_ne_nil (n : Nat) : iccmaHeader n ≠ [] := by simp [iccmaHeader, strOf_p_af]
theorem iccmaAttLine_ne_nil (p : Nat × Nat) : iccmaAttLine p ≠ [] := by simp [iccmaAttLine]

/-- the canonical rendering of an ICCMA'23 file: preamble, then one line per attack -/
def renderIccma (n : Nat) (atts : List (Nat × Nat)) : Str :=
  strOf "p af " ++ natToStr n ++ [10] ++
    atts.flatMap (fun p => natToStr (p.1 + 1) ++ [32] ++ natToStr (p.2 + 1) ++ [10])

theorem renderIccma_eq (n : Nat) (atts : List (Nat × Nat)) :
    renderIccma n atts = (iccmaHeader n :: atts.map iccmaAttLine).flatMap (fun l => l ++ [10]) := by
  simp [renderIccma, iccmaHeader, iccmaAttLine, List.flatMap_map]

/-- **(A) acceptance and faithfulness**: every canonically rendered ICCMA'23 file with in-range
attacks is accepted, with exactly the declared number of arguments and exactly the declared
attacks, in declaration order, duplicates kept -/
theorem read_render_iccma (n : Nat) (atts : List (Nat × Nat)) (h : ∀ p ∈ atts, p.1 < n ∧ p.2 < n)
    (hn : n ≤ 9223372036854775807) :
    readIccma (encodeUtf8 (renderIccma n atts)) = .ok ⟨n, atts⟩ := by
  unfold readIccma
  rw [renderIccma_eq, lines_encode_flatMap]
  · simp only [List.map_cons, foldLines]
    rw [iccmaLine_header n hn]
    simp only
    rw [foldLines_atts n hn atts h []]
    simp
  · intro l hl
    rcases List.mem_cons.1 hl with rfl | hl
    · exact lineOk_of_printable _ (iccmaHeader_printable n)
    · obtain ⟨p, _, rfl⟩ := List.mem_map.1 hl
      exact lineOk_of_printable _ (iccmaAttLine_printable p)

/-- the bound on `n` is necessary: beyond `isize::MAX` the preamble is rejected -/
theorem read_render_iccma_big (n : Nat) (atts : List (Nat × Nat)) (hn : 9223372036854775807 < n) :
    ∃ e, readIccma (encodeUtf8 (renderIccma n atts)) = .error e := by
  unfold readIccma
  rw [renderIccma_eq, lines_encode_flatMap]
  · simp only [List.map_cons, foldLines]
    have hh : (iccmaHeader n).head? = some 112 := by simp [iccmaHeader, strOf_p_af]
    have he : (iccmaHeader n).isEmpty = false := by simp [iccmaHeader, strOf_p_af]
    have h1 : ([112] != strOf "p") = false := by decide
    have h2 : ([97, 102] != strOf "af") = false := by decide
    have : iccmaLine {} (some (iccmaHeader n)) = .error "invalid number of arguments" := by
      unfold iccmaLine
      simp only [hh, he]
      unfold iccmaHeader
      simp [splitWs_header, readPreamble, h1, h2, parseIsize_natToStr_big n hn]
    rw [this]
    exact ⟨_, rfl⟩
  · intro l hl
    rcases List.mem_cons.1 hl with rfl | hl
    · exact lineOk_of_printable _ (iccmaHeader_printable n)
    · obtain ⟨p, _, rfl⟩ := List.mem_map.1 hl
      exact lineOk_of_printable _ (iccmaAttLine_printable p)

/-! ### generalisation: comment lines anywhere, optional final newline -/

/-- a content line after the preamble -/
inductive IccmaItem where
  | att (p : Nat × Nat)        -- an attack, 0-based ids
  | comment (t : Str)          -- the line `#t`

def IccmaItem.line : IccmaItem → Str
  | .att p => iccmaAttLine p
  | .comment t => 35 :: t

def IccmaItem.Ok (n : Nat) : IccmaItem → Prop
  | .att p => p.1 < n ∧ p.2 < n
  | .comment t => LineOk (35 :: t)

def itemAtts : List IccmaItem → List (Nat × Nat)
  | [] => []
  | .att p :: r => p :: itemAtts r
  | .comment _ :: r => itemAtts r

theorem foldLines_comments (st : IccmaSt) (pre : List Str) :
    foldLines iccmaLine st ((pre.map (fun t => 35 :: t)).map some) = .ok st := by
  induction pre with
  | nil => simp [foldLines]
  | cons t ts ih => simp only [List.map_cons, foldLines, iccmaLine_comment]; exact ih

theorem foldLines_items (n : Nat) (hn : n ≤ 9223372036854775807) (items : List IccmaItem)
    (h : ∀ it ∈ items, it.Ok n) (pre : List (Nat × Nat)) :
    foldLines iccmaLine { af := some ⟨n, pre⟩, foundEmpty := false } ((items.map IccmaItem.line).map some) =
      .ok { af := some ⟨n, pre ++ itemAtts items⟩, foundEmpty := false } := by
  induction items generalizing pre with
  | nil => simp [foldLines, itemAtts]
  | cons it its ih =>
    have hit := h it (List.mem_cons_self ..)
    have ih' := fun pre => ih (fun q hq => h q (List.mem_cons_of_mem _ hq)) pre
    cases it with
    | att p =>
      simp only [List.map_cons, foldLines, IccmaItem.line, itemAtts]
      rw [iccmaLine_att n pre p hit hn]
      simp only
      rw [ih']
      simp
    | comment t =>
      simp only [List.map_cons, foldLines, IccmaItem.line, itemAtts, iccmaLine_comment]
      exact ih' pre

/-- a trailing line: blank (it ends the content) or a comment -/
def TrailOk (t : Str) : Prop := t = [] ∨ ∃ u, t = 35 :: u ∧ LineOk t

theorem foldLines_trailing (st : IccmaSt) (post : List Str) (h : ∀ t ∈ post, TrailOk t) :
    ∃ b, foldLines iccmaLine st (post.map some) = .ok { st with foundEmpty := b } := by
  induction post generalizing st with
  | nil => exact ⟨st.foundEmpty, by simp [foldLines]⟩
  | cons t ts ih =>
    have ih' := fun st => ih st (fun x hx => h x (List.mem_cons_of_mem _ hx))
    rcases h t (List.mem_cons_self ..) with rfl | ⟨u, rfl, _⟩
    · have : iccmaLine st (some []) = .ok { st with foundEmpty := true } := by simp [iccmaLine]
      simp only [List.map_cons, foldLines, this]
      obtain ⟨b, hb⟩ := ih' { st with foundEmpty := true }
      exact ⟨b, hb⟩
    · simp only [List.map_cons, foldLines, iccmaLine_comment]
      exact ih' st

/-- **(A')** comment lines before the preamble and between the attack lines, trailing blank and
comment lines, and a missing final newline, change nothing -/
theorem read_render_iccma' (n : Nat) (pre : List Str) (items : List IccmaItem) (post : List Str)
    (finalNl : Bool) (hn : n ≤ 9223372036854775807)
    (hpre : ∀ t ∈ pre, LineOk (35 :: t)) (hit : ∀ it ∈ items, it.Ok n)
    (hpost : ∀ t ∈ post, TrailOk t) (hlast : finalNl = false → post.getLast? ≠ some []) :
    readIccma (encodeUtf8 (joinLines
        (pre.map (fun t => 35 :: t) ++ (iccmaHeader n :: (items.map IccmaItem.line ++ post))) finalNl)) =
      .ok ⟨n, itemAtts items⟩ := by
  have hitem_ne : ∀ l ∈ items.map IccmaItem.line, l ≠ [] := by
    intro l hl
    obtain ⟨it, _, rfl⟩ := List.mem_map.1 hl
    cases it with
    | att p => exact iccmaAttLine_ne_nil p
    | comment t => simp [IccmaItem.line]
  unfold readIccma
  rw [lines_joinLines _ _ (by simp)]
  · rw [List.map_append, foldLines_append, foldLines_comments]
    simp only [List.map_cons, foldLines]
    rw [iccmaLine_header n hn]
    simp only
    rw [List.map_append, foldLines_append, foldLines_items n hn items hit []]
    simp only
    obtain ⟨b, hb⟩ := foldLines_trailing
      { af := some ⟨n, [] ++ itemAtts items⟩, foundEmpty := false } post hpost
    rw [hb]
    simp
  · intro l hl
    rcases List.mem_append.1 hl with hl | hl
    · obtain ⟨t, ht, rfl⟩ := List.mem_map.1 hl
      exact hpre t ht
    · rcases List.mem_cons.1 hl with rfl | hl
      · exact lineOk_of_printable _ (iccmaHeader_printable n)
      · rcases List.mem_append.1 hl with hl | hl
        · obtain ⟨it, hi, rfl⟩ := List.mem_map.1 hl
          cases it with
          | att p => exact lineOk_of_printable _ (iccmaAttLine_printable p)
          | comment t => exact hit _ hi
        · rcases hpost l hl with rfl | ⟨u, rfl, hu⟩
          · exact ⟨by simp, by simp⟩
          · exact hu
  · intro hnl hl
    rcases List.eq_nil_or_concat post with rfl | ⟨post', x, rfl⟩
    · have hm := List.mem_of_getLast? hl
      rcases List.mem_append.1 hm with hm | hm
      · obtain ⟨t, _, ht⟩ := List.mem_map.1 hm
        simp at ht
      · rcases List.mem_cons.1 hm with hm | hm
        · exact iccmaHeader_ne_nil n hm.symm
        · rw [List.append_nil] at hm
          exact hitem_ne _ hm rfl
    · have e : pre.map (fun t => 35 :: t) ++ (iccmaHeader n :: (items.map IccmaItem.line ++ post'.concat x)) =
          (pre.map (fun t => 35 :: t) ++ (iccmaHeader n :: (items.map IccmaItem.line ++ post'))) ++ [x] := by
        simp [List.concat_eq_append]
      rw [e, List.getLast?_concat] at hl
      apply hlast hnl
      rw [List.concat_eq_append, List.getLast?_concat]
      exact hl

theorem joinLines_true (hd : Str) (ls : List Str) :
    joinLines (hd :: ls) true = hd ++ [10] ++ ls.flatMap (fun l => l ++ [10]) := by
  unfold joinLines
  induction ls generalizing hd with
  | nil => simp [intercalate]
  | cons l ls ih =>
    have := ih l
    simp only [if_true, intercalate, List.flatMap_cons, List.append_assoc] at this ⊢
    rw [this]

/-- special case: comments interleaved, every line `\n`-terminated -/
theorem read_render_iccma_comments (n : Nat) (items : List IccmaItem)
    (hn : n ≤ 9223372036854775807) (hit : ∀ it ∈ items, it.Ok n) :
    readIccma (encodeUtf8 (iccmaHeader n ++ [10] ++ items.flatMap (fun it => it.line ++ [10]))) =
      .ok ⟨n, itemAtts items⟩ := by
  have := read_render_iccma' n [] items [] true hn (by simp) hit (by simp) (by simp)
  simp only [List.map_nil, List.nil_append, List.append_nil, joinLines_true, List.flatMap_map] at this
  exact this


/-! ## (B) Aspartix: written frameworks read back -/

/-- the identifiers of the Aspartix reader (`scanName`): a letter or `_`, then letters, `_` and
decimal digits (`\d` of the regex crate: every Unicode decimal digit, not only ASCII) -/
def ValidId (l : Str) : Prop :=
  (∃ c cs, l = c :: cs ∧ isIdStart c = true) ∧ ∀ c ∈ l, isIdChar c = true

theorem isIdChar_props (c : Nat) (h : isIdChar c = true) : Scalar c ∧ isWs c = false ∧ 48 ≤ c := by
  simp only [isIdChar, isAlphaA, Bool.or_eq_true, Bool.and_eq_true, decide_eq_true_eq, beq_iff_eq] at h
  rcases h with (h | h) | h
  · subst h; exact ⟨⟨by omega, by omega⟩, isWs_false_of _ (by omega), by omega⟩
  · exact ⟨⟨by omega, by omega⟩, isWs_false_of _ (by omega), by omega⟩
  · exact isDigitU_props c h

theorem isIdStart_isIdChar (c : Nat) (h : isIdStart c = true) : isIdChar c = true := by
  simp only [isIdStart, Bool.or_eq_true] at h
  simp only [isIdChar, Bool.or_eq_true]
  exact Or.inl h

theorem not_isIdChar_of_lt (c : Nat) (h : c < 48) : isIdChar c = false := by
  rw [Bool.eq_false_iff]; intro hc
  have := (isIdChar_props c hc).2.2; omega

theorem takeWhile_append_stop {p : Nat → Bool} (l : Str) (t : Nat) (rest : Str)
    (h : ∀ c ∈ l, p c = true) (ht : p t = false) : (l ++ t :: rest).takeWhile p = l := by
  induction l with
  | nil => simp [ht]
  | cons c cs ih =>
    simp only [List.cons_append, List.takeWhile_cons, h c (List.mem_cons_self ..), if_true]
    rw [ih (fun d hd => h d (List.mem_cons_of_mem _ hd))]

theorem dropWhile_append_stop {p : Nat → Bool} (l : Str) (t : Nat) (rest : Str)
    (h : ∀ c ∈ l, p c = true) (ht : p t = false) : (l ++ t :: rest).dropWhile p = t :: rest := by
  induction l with
  | nil => simp [ht]
  | cons c cs ih =>
    simp only [List.cons_append, List.dropWhile_cons, h c (List.mem_cons_self ..), if_true]
    exact ih (fun d hd => h d (List.mem_cons_of_mem _ hd))

/-- the identifier scanner on an identifier directly followed by its terminator -/
theorem scanName_id (l : Str) (hv : ValidId l) (t : Nat) (rest : Str) (ht : t < 48) (htw : isWs t = false) :
    scanName (l ++ t :: rest) t = some (l, rest) := by
  obtain ⟨⟨c, cs, rfl, hc⟩, hall⟩ := hv
  have hcw : isWs c = false := (isIdChar_props c (isIdStart_isIdChar c hc)).2.1
  have htc : isIdChar t = false := not_isIdChar_of_lt t ht
  have e1 : (c :: cs ++ t :: rest).dropWhile isWs = c :: cs ++ t :: rest := by
    simp [hcw]
  unfold scanName
  simp only [e1]
  simp only [List.cons_append, hc, Bool.not_true, Bool.false_eq_true, if_false]
  have e2 := takeWhile_append_stop (p := isIdChar) (c :: cs) t rest hall htc
  have e3 := dropWhile_append_stop (p := isIdChar) (c :: cs) t rest hall htc
  simp only [List.cons_append] at e2 e3
  rw [e2, e3]
  simp [htw]

/-- conversely, whatever the scanner returns is a `ValidId` -/
theorem scanName_validId (l : Str) (t : Nat) (id rest : Str) (h : scanName l t = some (id, rest)) :
    ValidId id := by
  unfold scanName at h
  simp only at h
  split at h
  · rename_i c r hl
    split at h
    · cases h
    · rename_i hc
      have hc : isIdStart c = true := by simpa using hc
      split at h
      · split at h
        · injection h with h; injection h with h1 h2
          subst h1
          rw [hl]
          refine ⟨⟨c, r.takeWhile isIdChar, ?_, hc⟩, ?_⟩
          · simp [isIdStart_isIdChar c hc]
          · intro d hd; exact List.all_eq_true.1 List.all_takeWhile d hd
        · cases h
      · cases h
  · cases h

def apxArgLine (l : Str) : Str := strOf "arg(" ++ l ++ strOf ")."
def apxAttLine (p : Str × Str) : Str := strOf "att(" ++ p.1 ++ [44] ++ p.2 ++ strOf ")."

theorem strOf_arg : strOf "arg(" = [97, 114, 103, 40] := by decide
theorem strOf_att : strOf "att(" = [97, 116, 116, 40] := by decide
theorem strOf_close : strOf ")." = [41, 46] := by decide
theorem strOf_close_nl : strOf ").\n" = [41, 46, 10] := by decide

theorem isWs_97 : isWs 97 = false := isWs_false_of _ (by omega)
theorem isWs_41 : isWs 41 = false := isWs_false_of _ (by omega)
theorem isWs_44 : isWs 44 = false := isWs_false_of _ (by omega)

/-- `arg(l).` matches the argument pattern and yields `l` -/
theorem matchArg_line (l : Str) (hv : ValidId l) : matchArg (apxArgLine l) = some l := by
  unfold matchArg apxArgLine
  rw [strOf_arg, strOf_close]
  have e1 : ([97, 114, 103, 40] ++ l ++ [41, 46]).dropWhile isWs = [97, 114, 103, 40] ++ l ++ [41, 46] := by
    simp [isWs_97]
  rw [e1]
  have e2 : dropPrefix [97, 114, 103, 40] ([97, 114, 103, 40] ++ l ++ [41, 46]) = some (l ++ 41 :: [46]) := by
    simp [dropPrefix]
  rw [e2]
  simp only
  rw [scanName_id l hv 41 [46] (by omega) isWs_41]
  simp [scanTail]

/-- `att(a,b).` matches the attack pattern and yields `(a, b)` -/
theorem matchAtt_line (a b : Str) (ha : ValidId a) (hb : ValidId b) :
    matchAtt (apxAttLine (a, b)) = some (a, b) := by
  unfold matchAtt apxAttLine
  rw [strOf_att, strOf_close]
  have e1 : ([97, 116, 116, 40] ++ a ++ [44] ++ b ++ [41, 46]).dropWhile isWs =
      [97, 116, 116, 40] ++ a ++ [44] ++ b ++ [41, 46] := by
    simp [isWs_97]
  rw [e1]
  have e2 : dropPrefix [97, 116, 116, 40] ([97, 116, 116, 40] ++ a ++ [44] ++ b ++ [41, 46]) =
      some (a ++ 44 :: (b ++ 41 :: [46])) := by
    simp [dropPrefix]
  rw [e2]
  simp only
  rw [scanName_id a ha 44 _ (by omega) isWs_44]
  simp only
  rw [scanName_id b hb 41 [46] (by omega) isWs_41]
  simp [scanTail]

/-- an attack line is not an argument line -/
theorem matchArg_attLine (p : Str × Str) : matchArg (apxAttLine p) = none := by
  unfold matchArg apxAttLine
  rw [strOf_att, strOf_arg]
  have e1 : ([97, 116, 116, 40] ++ p.1 ++ [44] ++ p.2 ++ strOf ").").dropWhile isWs =
      [97, 116, 116, 40] ++ p.1 ++ [44] ++ p.2 ++ strOf ")." := by
    simp [isWs_97]
  rw [e1]
  have e2 : dropPrefix [97, 114, 103, 40] ([97, 116, 116, 40] ++ p.1 ++ [44] ++ p.2 ++ strOf ").") = none := by
    simp [dropPrefix]
  rw [e2]


theorem dedup_go (l acc : List Str) (h : (acc ++ l).Nodup) :
    l.foldl (fun acc x => if acc.contains x then acc else acc ++ [x]) acc = acc ++ l := by
  induction l generalizing acc with
  | nil => simp
  | cons x xs ih =>
    have hx : acc.contains x = false := by
      rw [Bool.eq_false_iff]; intro hc
      have hm : x ∈ acc := by simpa using hc
      have := List.nodup_append.1 h
      exact this.2.2 x hm x (List.mem_cons_self ..) rfl
    simp only [List.foldl_cons, hx, Bool.false_eq_true, if_false]
    rw [ih (acc ++ [x]) (by simpa using h)]
    simp

/-- on pairwise distinct labels `dedup` is the identity -/
theorem dedup_nodup (l : List Str) (h : l.Nodup) : dedup l = l := by
  unfold dedup
  simpa using dedup_go l [] (by simpa using h)

theorem getD_mem (l : List Str) (i : Nat) (hi : i < l.length) : l.getD i [] ∈ l := by
  induction l generalizing i with
  | nil => simp at hi
  | cons x xs ih =>
    cases i with
    | zero => simp
    | succ j => simp only [List.getD_cons_succ]; exact List.mem_cons_of_mem _ (ih j (by simpa using hi))

theorem idxOf_getD (labels : List Str) (hnd : labels.Nodup) (i : Nat) (hi : i < labels.length) :
    idxOf labels (labels.getD i []) = some i := by
  unfold idxOf
  induction labels generalizing i with
  | nil => simp at hi
  | cons x xs ih =>
    have hnd' := List.nodup_cons.1 hnd
    cases i with
    | zero => simp [List.findIdx?_cons]
    | succ j =>
      have hj : j < xs.length := by simpa using hi
      have hmem : xs.getD j [] ∈ xs := getD_mem xs j hj
      have hne : (x == xs.getD j []) = false := by
        rw [beq_eq_false_iff_ne]; intro e; exact hnd'.1 (e ▸ hmem)
      simp only [List.getD_cons_succ, List.findIdx?_cons, hne, Bool.false_eq_true, if_false]
      rw [ih hnd'.2 j hj]
      rfl

theorem apxArgLine_notBlank (l : Str) : (apxArgLine l).all isWs = false := by
  simp [apxArgLine, strOf_arg, isWs_97]

theorem apxAttLine_notBlank (p : Str × Str) : (apxAttLine p).all isWs = false := by
  simp [apxAttLine, strOf_att, isWs_97]

theorem apxLine_arg (labs : List Str) (l : Str) (hv : ValidId l) :
    apxLine { labels := labs, af := none } (some (apxArgLine l)) = .ok { labels := labs ++ [l], af := none } := by
  unfold apxLine
  simp [apxArgLine_notBlank, matchArg_line l hv]

theorem foldLines_args (labels : List Str) (hv : ∀ l ∈ labels, ValidId l) (pre : List Str) :
    foldLines apxLine { labels := pre, af := none } ((labels.map apxArgLine).map some) =
      .ok { labels := pre ++ labels, af := none } := by
  induction labels generalizing pre with
  | nil => simp [foldLines]
  | cons l ls ih =>
    simp only [List.map_cons, foldLines]
    rw [apxLine_arg pre l (hv l (List.mem_cons_self ..))]
    simp only
    rw [ih (fun x hx => hv x (List.mem_cons_of_mem _ hx))]
    simp

/-- the framework a state denotes (created lazily at the first attack) -/
def ApxSt.fw (st : ApxSt) : ApxFw := match st.af with | some af => af | none => ⟨dedup st.labels, []⟩

theorem apxLine_att (st : ApxSt) (labels : List Str) (pre : List (Nat × Nat)) (p : Nat × Nat)
    (hv : ∀ l ∈ labels, ValidId l) (hnd : labels.Nodup)
    (hp : p.1 < labels.length ∧ p.2 < labels.length) (hfw : st.fw = ⟨labels, pre⟩) (hnew : p ∉ pre) :
    ∃ st', apxLine st (some (apxAttLine (labels.getD p.1 [], labels.getD p.2 []))) = .ok st' ∧
      st'.fw = ⟨labels, pre ++ [p]⟩ := by
  have hva : ValidId (labels.getD p.1 []) := hv _ (getD_mem labels _ hp.1)
  have hvb : ValidId (labels.getD p.2 []) := hv _ (getD_mem labels _ hp.2)
  have hc : pre.contains (p.1, p.2) = false := by
    rw [Bool.eq_false_iff]; intro h; exact hnew (by simpa using h)
  unfold apxLine
  simp only [apxAttLine_notBlank, matchArg_attLine, matchAtt_line _ _ hva hvb, Bool.false_eq_true, if_false]
  obtain ⟨labs, af⟩ := st
  cases af with
  | none =>
    have hfw' : (⟨dedup labs, []⟩ : ApxFw) = ⟨labels, pre⟩ := hfw
    injection hfw' with e1 e2
    subst e2
    simp only [e1, idxOf_getD labels hnd _ hp.1, idxOf_getD labels hnd _ hp.2, List.contains_nil,
      Bool.false_eq_true, if_false]
    exact ⟨_, rfl, rfl⟩
  | some af =>
    have hfw' : af = ⟨labels, pre⟩ := hfw
    subst hfw'
    simp only [idxOf_getD labels hnd _ hp.1, idxOf_getD labels hnd _ hp.2, hc, Bool.false_eq_true, if_false]
    exact ⟨_, rfl, rfl⟩

theorem foldLines_apxAtts (labels : List Str) (hv : ∀ l ∈ labels, ValidId l) (hnd : labels.Nodup)
    (atts : List (Nat × Nat)) (ha : ∀ p ∈ atts, p.1 < labels.length ∧ p.2 < labels.length)
    (pre : List (Nat × Nat)) (hand : (pre ++ atts).Nodup) (st : ApxSt) (hfw : st.fw = ⟨labels, pre⟩) :
    ∃ st', foldLines apxLine st
        (((atts.map (fun p => (labels.getD p.1 [], labels.getD p.2 []))).map apxAttLine).map some) = .ok st' ∧
      st'.fw = ⟨labels, pre ++ atts⟩ := by
  induction atts generalizing pre st with
  | nil => exact ⟨st, by simp [foldLines], by simpa using hfw⟩
  | cons p ps ih =>
    have hnew : p ∉ pre := by
      intro hm
      exact (List.nodup_append.1 hand).2.2 p hm p (List.mem_cons_self ..) rfl
    obtain ⟨st1, h1, hfw1⟩ := apxLine_att st labels pre p hv hnd (ha p (List.mem_cons_self ..)) hfw hnew
    obtain ⟨st2, h2, hfw2⟩ := ih (fun q hq => ha q (List.mem_cons_of_mem _ hq)) (pre ++ [p])
      (by simpa using hand) st1 hfw1
    refine ⟨st2, ?_, by simpa using hfw2⟩
    simp only [List.map_cons, foldLines, h1]
    exact h2

theorem validId_chars (l : Str) (hv : ValidId l) : ∀ c ∈ l, Scalar c ∧ 48 ≤ c := fun c hc =>
  ⟨(isIdChar_props c (hv.2 c hc)).1, (isIdChar_props c (hv.2 c hc)).2.2⟩

theorem lineOk_of (l : Str) (c : Nat) (h : ∀ d ∈ l ++ [c], Scalar d ∧ 32 ≤ d) : LineOk (l ++ [c]) := by
  refine ⟨fun d hd => ⟨(h d hd).1, by have := (h d hd).2; omega⟩, ?_⟩
  rw [List.getLast?_concat]
  intro e; injection e with e
  have := (h c (by simp)).2; omega

theorem scalar_ascii (c : Nat) (h : c < 128) : Scalar c := ⟨by omega, by omega⟩

theorem apxArgLine_ok (l : Str) (hv : ValidId l) : LineOk (apxArgLine l) := by
  have e : apxArgLine l = ([97, 114, 103, 40] ++ l ++ [41]) ++ [46] := by
    simp [apxArgLine, strOf_arg, strOf_close]
  rw [e]
  apply lineOk_of
  intro d hd
  simp only [List.mem_append, List.mem_cons, List.not_mem_nil, or_false] at hd
  rcases hd with ((hd | hd) | hd) | hd
  · exact ⟨scalar_ascii d (by omega), by omega⟩
  · have := validId_chars l hv d hd; exact ⟨this.1, by omega⟩
  · exact ⟨scalar_ascii d (by omega), by omega⟩
  · exact ⟨scalar_ascii d (by omega), by omega⟩

theorem apxAttLine_ok (a b : Str) (ha : ValidId a) (hb : ValidId b) : LineOk (apxAttLine (a, b)) := by
  have e : apxAttLine (a, b) = ([97, 116, 116, 40] ++ a ++ [44] ++ b ++ [41]) ++ [46] := by
    simp [apxAttLine, strOf_att, strOf_close]
  rw [e]
  apply lineOk_of
  intro d hd
  simp only [List.mem_append, List.mem_cons, List.not_mem_nil, or_false] at hd
  rcases hd with ((((hd | hd) | hd) | hd) | hd) | hd
  · exact ⟨scalar_ascii d (by omega), by omega⟩
  · have := validId_chars a ha d hd; exact ⟨this.1, by omega⟩
  · exact ⟨scalar_ascii d (by omega), by omega⟩
  · have := validId_chars b hb d hd; exact ⟨this.1, by omega⟩
  · exact ⟨scalar_ascii d (by omega), by omega⟩
  · exact ⟨scalar_ascii d (by omega), by omega⟩

theorem writeApx_eq (labels : List Str) (atts : List (Str × Str)) :
    writeApx labels atts = (labels.map apxArgLine ++ atts.map apxAttLine).flatMap (fun l => l ++ [10]) := by
  simp [writeApx, apxArgLine, apxAttLine, strOf_close_nl, strOf_close, List.flatMap_map]

/-- **(B) Aspartix write/read round trip**: a framework whose labels are pairwise distinct
identifiers, written by `writeApx`, reads back with the same labels in the same order and the same
attacks in the same order -/
theorem apx_write_read (labels : List Str) (atts : List (Nat × Nat))
    (hv : ∀ l ∈ labels, ValidId l) (hnd : labels.Nodup)
    (ha : ∀ p ∈ atts, p.1 < labels.length ∧ p.2 < labels.length) (hand : atts.Nodup) :
    readApx (encodeUtf8 (writeApx labels (atts.map (fun p => (labels.getD p.1 [], labels.getD p.2 [])))))
      = .ok ⟨labels, atts⟩ := by
  unfold readApx
  rw [writeApx_eq, lines_encode_flatMap]
  · rw [List.map_append, foldLines_append, foldLines_args labels hv []]
    simp only [List.nil_append]
    obtain ⟨st', h1, h2⟩ := foldLines_apxAtts labels hv hnd atts ha [] (by simpa using hand)
      { labels := labels, af := none } (by simp [ApxSt.fw, dedup_nodup labels hnd])
    rw [h1]
    simp only [List.nil_append] at h2
    obtain ⟨labs, af⟩ := st'
    cases af with
    | none =>
      have : (⟨dedup labs, []⟩ : ApxFw) = ⟨labels, atts⟩ := h2
      simp only [this]
    | some af =>
      have : af = ⟨labels, atts⟩ := h2
      simp only [this]
  · intro l hl
    rcases List.mem_append.1 hl with hl | hl
    · obtain ⟨x, hx, rfl⟩ := List.mem_map.1 hl
      exact apxArgLine_ok x (hv x hx)
    · obtain ⟨q, hq, rfl⟩ := List.mem_map.1 hl
      obtain ⟨p, hp, rfl⟩ := List.mem_map.1 hq
      have hp' := ha p hp
      exact apxAttLine_ok _ _ (hv _ (getD_mem labels _ hp'.1)) (hv _ (getD_mem labels _ hp'.2))


/-- every label the reader can produce is a `ValidId`: the hypothesis of the round trip is exactly
the reader's label language -/
theorem matchArg_validId (l id : Str) (h : matchArg l = some id) : ValidId id := by
  unfold matchArg at h
  split at h
  · cases h
  · split at h
    · rename_i r id' rest hs
      split at h
      · injection h with h; subst h; exact scanName_validId _ _ _ _ hs
      · cases h
    · cases h

/-- non-vacuity beyond ASCII: `a٠` (U+0061 U+0660, an Arabic-Indic digit) is an identifier -/
example : ValidId [97, 1632] := ⟨⟨97, [1632], rfl, by decide⟩, by decide⟩

example : readApx (encodeUtf8 (writeApx [[97, 1632], [98]] [([98], [97, 1632])])) =
    .ok ⟨[[97, 1632], [98]], [(1, 0)]⟩ :=
  apx_write_read [[97, 1632], [98]] [(1, 0)]
    (by
      intro l hl
      simp only [List.mem_cons, List.not_mem_nil, or_false] at hl
      rcases hl with rfl | rfl
      · exact ⟨⟨97, [1632], rfl, by decide⟩, by decide⟩
      · exact ⟨⟨98, [], rfl, by decide⟩, by decide⟩)
    (by decide) (by decide) (by decide)

end Crusta.IO
