import Crusta.Proofs.EncDecode

/-!
# One interface for the seven encoders

`EncKind.Base k af` is the family of sets encoder `k` describes, `EncKind.S k af ν` the set read off
an assignment.  `sound`, `complete`, `decode_spec`, `S_lt` are what the solver proofs use.
-/

namespace Crusta

def EncKind.S (k : EncKind) (af : AF) (ν : Asg) : ASet := setOfAsg af.n k.argVar ν

def EncKind.Base (k : EncKind) (af : AF) (T : ASet) : Prop :=
  match k with
  | .auxCF | .expCF => ConflictFree af T
  | .auxADM => Admissible af T
  | .auxCO | .expCO | .hyb => Complete af T
  | .stb => Stable af T

theorem EncKind.S_lt (k : EncKind) {af : AF} {ν : Asg} {a : Nat} (h : a < af.n) :
    k.S af ν a = ν (k.argVar a) := setOfAsg_lt h

theorem EncKind.S_sub (k : EncKind) (af : AF) (ν : Asg) : Sub af (k.S af ν) := setOfAsg_sub af _ ν

theorem EncKind.S_aux (k : EncKind) (af : AF) (ν : Asg) (h : k = .auxCF ∨ k = .auxADM ∨ k = .auxCO) :
    k.S af ν = Aux.S af ν := by
  rcases h with rfl | rfl | rfl <;> rfl

theorem EncKind.sound (k : EncKind) (af : AF) (hwf : af.WF) (ν : Asg)
    (h : cnfTrue ν (k.clauses af) = true) : k.Base af (k.S af ν) := by
  cases k with
  | auxCF => exact (Aux.cf_iff af hwf ν).1 h
  | auxADM => exact ((Aux.adm_iff af hwf ν).1 h).2
  | auxCO => exact ((Aux.co_iff af hwf ν).1 h).2
  | expCF => exact (Exp.cf_iff af hwf ν).1 h
  | expCO => exact (Exp.co_iff af hwf ν).1 h
  | hyb => exact ((Hyb.co_iff _ af hwf ν).1 h).1
  | stb => exact (Stb.enc_iff af hwf ν).1 h

theorem EncKind.complete (k : EncKind) (af : AF) (hwf : af.WF) (T : ASet) (hT : k.Base af T) :
    ∃ ν, cnfTrue ν (k.clauses af) = true ∧ k.S af ν = T := by
  cases k with
  | auxCF =>
    obtain ⟨hS, _, _⟩ := Aux.asgOf_cons af T hT.1
    exact ⟨Aux.asgOf af T, (Aux.cf_iff af hwf _).2 (hS.symm ▸ hT), hS⟩
  | auxADM =>
    obtain ⟨hS, hP, _⟩ := Aux.asgOf_cons af T hT.1.1
    exact ⟨Aux.asgOf af T, (Aux.adm_iff af hwf _).2 ⟨hP, hS.symm ▸ hT⟩, hS⟩
  | auxCO =>
    obtain ⟨hS, hP, _⟩ := Aux.asgOf_cons af T hT.1.1.1
    exact ⟨Aux.asgOf af T, (Aux.co_iff af hwf _).2 ⟨hP, hS.symm ▸ hT⟩, hS⟩
  | expCF =>
    have hS := Exp.S_asgOf af T hT.1
    exact ⟨Exp.asgOf af T, (Exp.cf_iff af hwf _).2 (hS.symm ▸ hT), hS⟩
  | expCO =>
    have hS := Exp.S_asgOf af T hT.1.1.1
    exact ⟨Exp.asgOf af T, (Exp.co_iff af hwf _).2 (hS.symm ▸ hT), hS⟩
  | hyb => exact Hyb.co_surj _ af hwf T hT
  | stb =>
    have hS : Stb.S af (Exp.asgOf af T) = T := Exp.S_asgOf af T hT.1.1
    exact ⟨Exp.asgOf af T, (Stb.enc_iff af hwf _).2 (hS.symm ▸ hT), hS⟩

theorem EncKind.decode_spec (k : EncKind) (af : AF) (m : List (Option Bool)) (a : Nat) :
    a ∈ k.decode af.n m ↔ k.S af (asgOfModel m) a = true := by
  cases k with
  | auxCF => exact Aux.decode_eq_S af m a
  | auxADM => exact Aux.decode_eq_S af m a
  | auxCO => exact Aux.decode_eq_S af m a
  | expCF => exact Exp.decode_eq_S af m a
  | expCO => exact Exp.decode_eq_S af m a
  | hyb => exact Exp.decode_eq_S af m a
  | stb => exact Stb.decode_eq_S af m a

theorem EncKind.ofList_decode (k : EncKind) (af : AF) (m : List (Option Bool)) :
    ofList (k.decode af.n m) = k.S af (asgOfModel m) := by
  funext a
  rw [Bool.eq_iff_iff]
  unfold ofList
  rw [List.contains_iff_mem]
  exact k.decode_spec af m a

end Crusta
