"""C11: invariance under presentation, locality, cross-semantics consistency (metamorphic runs)."""
import gen
from engine import Property, Finding

SEMS = ["GR", "CO", "PR", "ST", "SST", "STG", "ID"]


def big_framework(rng, n_target):
    """structured sparse frameworks: rings of rings, chains, random sparse blocks, many components"""
    parts = []
    tot = 0
    while tot < n_target:
        k = rng.choice([1, 2, 3, 4, 5, 6, 8, 10])
        k = min(k, n_target - tot) or 1
        kind = rng.choice(["cycle", "chain", "rand", "rand", "two"])
        if kind == "cycle":
            a = gen.cycle(k)
        elif kind == "chain":
            a = gen.chain(k)
        elif kind == "two" and k >= 2:
            a = gen.cycle(2) + [(1, j) for j in range(2, k)]
        else:
            _, a = gen.rand_af(rng, k, rng.choice([0.15, 0.3]), p_self=0.1)
        parts.append((k, a))
        tot += k
    # connect some parts so that components are larger than the blocks
    n, atts = gen.disjoint_union(parts)
    offs = []
    o = 0
    for (k, _) in parts:
        offs.append((o, k))
        o += k
    for i in range(len(parts) - 1):
        if rng.random() < 0.6:
            (o1, k1), (o2, k2) = offs[i], offs[i + 1]
            atts.append((o1 + rng.randrange(k1), o2 + rng.randrange(k2)))
    return n, atts


def bridged_gadgets(rng):
    """2-5 semantic gadgets (floating acceptance, cliques, odd cycles, ...) chained by bridging attacks into one or two
    components of 6-22 arguments, plus an unattacked argument attacking into it; numbered in construction order half of
    the time (so that traversal orders and declaration orders often coincide), randomly otherwise"""
    parts, offs = [], []
    tot = 0
    for _ in range(rng.randint(2, 5)):
        k, a = rng.choice(gen.GADGETS)
        if tot + k > 21:
            break
        offs.append((tot, k))
        parts.append((k, a))
        tot += k
    n, atts = gen.disjoint_union(parts)
    for i in range(len(offs) - 1):
        if rng.random() < 0.85:
            (o1, k1), (o2, k2) = offs[i], offs[i + 1]
            x, y = o1 + rng.randrange(k1), o2 + rng.randrange(k2)
            atts.append((x, y) if rng.random() < 0.7 else (y, x))
    for _ in range(rng.randint(0, 2)):
        atts.append((rng.randrange(n), rng.randrange(n)))
    if rng.random() < 0.6:
        atts.append((n, rng.randrange(n)))     # an unattacked (grounded) argument attacking into the rest
        n += 1
    atts = list(dict.fromkeys(atts))
    if rng.random() < 0.5:
        perm = list(range(n))
        rng.shuffle(perm)
        atts = [(perm[a], perm[b]) for a, b in atts]
    rng.shuffle(atts)
    return n, atts


def iccma(n, atts, labels=None):
    return "i:%d:%s" % (n, ",".join("%d>%d" % (a + 1, b + 1) for a, b in atts))


class C11(Property):
    id = "C11"
    families = ["multi"]
    rule = ("frameworks of 20-60 arguments (quick) / up to 300 (thorough), structured sparse (rings, chains, random blocks, bridges), well-founded ones (trees / sparse DAGs of 18-120 arguments, 12 arguments queried) plus small ones (random and unions of semantic gadgets, 160 per quick run) whose statuses are also "
            "judged by the reference deciders, plus 600 per quick run of dense frameworks of mutual attacks and of chains of bridged semantic gadgets (6-22 arguments, every argument queried for PR/CO/ST: many complete sets, long preferred searches, skeptically accepted arguments outside the grounded extension); for each: argument permutation + attack-line permutation and duplication, disjoint union with another framework "
            "(with and without stable extension), and the cross-semantics relations (GR in ID in PR, DS implies DC when an extension exists, ST=SST=STG when "
            "a stable extension exists) on the answers of all seven solvers; plus the two binaries on transformed input files (8-300 arguments): base file, permuted / duplicated lines, "
            "union with an unrelated framework, Aspartix presentation with shuffled declarations - same status (same extension for GR / ID), and DC-CO = DC-PR on the same file and argument; non-trivial = framework with >= 10 arguments")
    assumptions = ["relations between runs need no reference computation; small frameworks (<= 9 arguments) are additionally judged by the proved deciders"]

    def cases(self, tier, rng):
        lines = []
        self.groups = []
        nbase = 36 if tier == "quick" else 4000
        nsmall = 160 if tier == "quick" else 12000   # additional small frameworks: every status is also judged
        nmut = 600 if tier == "quick" else 12000      # dense frameworks of mutual attacks: many complete sets, long preferred searches
        for g in range(nbase + nsmall + nmut):
            mutual = g >= nbase + nsmall
            if mutual and g % 2 == 0:
                n, atts = bridged_gadgets(rng)
            elif mutual:
                n = rng.randint(7, 22)
                atts = []
                for a in range(n):
                    for b in range(a + 1, n):
                        r = rng.random()
                        if r < 0.16:
                            atts += [(a, b), (b, a)]
                        elif r < 0.22:
                            atts.append(rng.choice([(a, b), (b, a)]))
                rng.shuffle(atts)
            elif g >= nbase or g % 4 == 0:
                n, atts = gen.random_framework(rng, 8) if rng.random() < 0.5 else gen.gadget_union(rng, 8)
                if n == 0:
                    n, atts = 1, []
            elif g < nbase and g % 4 == 1:
                # well-founded frameworks (acyclic: trees, chains with branches, sparse DAGs): one large component whose
                # grounded extension is the unique extension of every semantics
                n = rng.randint(18, 60) if tier == "quick" else rng.choice([18, 30, 60, 120])
                order = list(range(n))
                rng.shuffle(order)
                atts = []
                for i in range(1, n):
                    for _ in range(1 if rng.random() < 0.8 else 2):
                        atts.append((order[rng.randrange(max(0, i - 6), i)], order[i]))
                rng.shuffle(atts)
            else:
                size = rng.randint(20, 60) if tier == "quick" else rng.choice([20, 40, 80, 150, 300])
                n, atts = big_framework(rng, size)
            heavy = n > 80
            args = rng.sample(range(n), min(n, (12 if (g < nbase and g % 4 == 1) else 4) if n > 9 else n))
            qs = []
            if mutual:
                args = list(range(n))
            for sem in (["PR", "CO", "ST"] if mutual else SEMS):
                if heavy and sem in ("SST", "STG", "ID"):
                    continue
                if sem != "CO":
                    qs.append((sem, "SE", None))
                for a in args:
                    if sem != "PR":
                        qs.append((sem, "DC", a))
                    if sem != "CO":
                        qs.append((sem, "DS", a))

            def qstr(mapper):
                return "/".join("%s:%s:%s" % (s, t, "-" if a is None else str(mapper(a))) for (s, t, a) in qs)
            base = "multi x fw=%s qs=%s" % (iccma(n, atts), qstr(lambda a: a + 1))
            # variant 1: permutation of arguments and of attack lines, duplicated lines
            perm = list(range(n))
            rng.shuffle(perm)
            patts = [(perm[a], perm[b]) for a, b in atts]
            rng.shuffle(patts)
            for _ in range(min(3, len(patts))):
                patts.insert(rng.randrange(len(patts) + 1), rng.choice(patts))
            v1 = "multi x fw=%s qs=%s" % (iccma(n, patts), qstr(lambda a: perm[a] + 1))
            # variant 2: disjoint union with an unrelated framework placed *before* (ids shift)
            k2, a2 = gen.random_framework(rng, 6)
            if rng.random() < 0.5:
                k2, a2 = rng.choice([(3, gen.cycle(3)), (1, [(0, 0)]), (2, gen.cycle(2)), (4, gen.cycle(4))])
            uatts = list(a2) + [(a + k2, b + k2) for a, b in atts]
            rng.shuffle(uatts)
            v2 = "multi x fw=%s qs=%s/ST:SE:-" % (iccma(n + k2, uatts), qstr(lambda a: a + k2 + 1))
            # the unrelated component alone, to know whether it has a stable extension
            v3 = "multi x fw=%s qs=ST:SE:-" % iccma(k2, a2)
            i0 = len(lines)
            lines += [base, v1, v2, v3]
            self.groups.append((i0, qs, n))
        return lines

    def results(self, lines):
        out = {}
        for l in lines:
            if l.startswith("r "):
                t = l.split(" ")
                out[int(t[1])] = t[5:]
        return out

    def judge(self, case_line, impl, model):
        fs = []
        for l in impl:
            if l.startswith("r ") and " PANIC" in l:
                t = l.split(" ")
                fs.append(Finding("input", case_line, "query panicked: " + " ".join(t[5:])[:100], "%s/%s · panic" % (t[2], t[3])))
        for v in model:
            if v.startswith("verdict BAD"):
                what = v.split(" ", 3)[3]
                fs.append(Finding("input", case_line, what, "%s · %s" % (what.split(":")[0], what.split(": ", 1)[-1])))
        return fs

    def judge_group(self, cases, impl, model):
        fs = []
        ids = [c.split(" ")[1] for c in cases]
        for (i0, qs, n) in getattr(self, "groups", []):
            # corpus cases are numbered first; generated cases start after them
            off = len(cases) - self.ncases if hasattr(self, "ncases") else 0
            try:
                rb = self.results(impl[ids[off + i0]])
                r1 = self.results(impl[ids[off + i0 + 1]])
                r2 = self.results(impl[ids[off + i0 + 2]])
                r3 = self.results(impl[ids[off + i0 + 3]])
            except (KeyError, IndexError):
                continue
            other_has_stable = r3.get(0, ["?"])[0] == "EXT"

            def status(r, i):
                v = r.get(i)
                if not v:
                    return None
                return v[0]
            for qi, (sem, task, a) in enumerate(qs):
                sb, s1, s2 = status(rb, qi), status(r1, qi), status(r2, qi)
                if sb is None or "PANIC" in (sb, s1, s2):
                    continue
                if task != "SE":
                    if s1 != sb:
                        fs.append(Finding("input", cases[off + i0 + 1], "status changes under argument/attack-line permutation and duplication: %s vs %s for %s-%s" % (sb, s1, task, sem),
                                          "%s/%s · not invariant under presentation" % (sem, task), {"base_case": cases[off + i0], "query_index": qi}))
                    exp = sb
                    if sem == "ST" and not other_has_stable:
                        exp = "NO" if task == "DC" else "YES"
                    if s2 != exp:
                        fs.append(Finding("input", cases[off + i0 + 2], "status changes when an unrelated component is added: %s, expected %s for %s-%s" % (s2, exp, task, sem),
                                          "%s/%s · not local to components" % (sem, task), {"base_case": cases[off + i0], "query_index": qi}))
                else:
                    if (sb == "NOEXT") != (s1 == "NOEXT"):
                        fs.append(Finding("input", cases[off + i0 + 1], "existence of an extension changes under permutation for SE-%s" % sem,
                                          "%s/SE · not invariant under presentation" % sem, {"base_case": cases[off + i0]}))
            # cross-semantics consistency on the base framework
            ext = {}
            st = {}
            for qi, (sem, task, a) in enumerate(qs):
                v = rb.get(qi)
                if not v:
                    continue
                if task == "SE":
                    ext[sem] = None if v[0] == "NOEXT" else set(x for x in v[1].split(",") if x not in ("[]", ""))
                else:
                    st[(sem, task, a)] = v[0]
            base_case = cases[off + i0]

            def viol(msg, sig):
                fs.append(Finding("input", base_case, msg, sig))
            if ext.get("GR") is not None and ext.get("ID") is not None and not ext["GR"] <= ext["ID"]:
                viol("grounded extension is not inside the ideal extension", "GR,ID/SE · GR not within ID")
            if ext.get("ID") is not None and ext.get("PR") is not None and not ext["ID"] <= ext["PR"]:
                viol("ideal extension is not inside the returned preferred extension", "ID,PR/SE · ID not within PR")
            if ext.get("GR") is not None and ext.get("PR") is not None and not ext["GR"] <= ext["PR"]:
                viol("grounded extension is not inside the returned preferred extension", "GR,PR/SE · GR not within PR")
            for (sem, task, a), v in st.items():
                if task == "DS" and v == "YES":
                    exists = ext.get(sem, 1) is not None
                    dc = st.get((sem, "DC", a)) if sem != "PR" else st.get(("CO", "DC", a))
                    if exists and dc == "NO":
                        viol("argument %s is skeptically but not credulously accepted under %s although an extension exists" % (a + 1, sem), "%s/DS,DC · skeptical without credulous" % sem)
                if sem == "ID" and task == "DC" and v == "YES" and st.get(("PR", "DS", a)) == "NO":
                    viol("argument %s is in the ideal extension but not in every preferred extension" % (a + 1), "ID,PR · ideal not within all preferred")
                if sem == "GR" and task == "DC" and v == "YES" and st.get(("ID", "DC", a)) == "NO":
                    viol("argument %s is grounded but not ideal" % (a + 1), "GR,ID · grounded not within ideal")
            if "ST" in ext and ext["ST"] is not None:
                for (sem, task, a), v in st.items():
                    if sem == "ST":
                        for other in ("SST", "STG"):
                            o = st.get((other, task, a))
                            if o is not None and o != v:
                                viol("a stable extension exists but %s-%s(%s)=%s differs from ST=%s" % (task, other, a + 1, o, v), "ST,%s/%s · differ although a stable extension exists" % (other, task))
        return fs

    # ---- the binaries on transformed inputs (the property's second observation point) ----
    needs_bins = True

    def extra(self, ctx):
        import os
        import random
        import subprocess
        from concurrent.futures import ThreadPoolExecutor
        import common
        tier, runner = ctx["tier"], ctx["runner"]
        rng = random.Random(ctx["seed"] + 11)
        crust = os.path.join(common.REPO_TARGET, "release", "crustabri")
        wrap = os.path.join(common.REPO_TARGET, "release", "crustabri_iccma23")
        d = runner.dir
        jobs = []
        groups = []
        for g in range(14 if tier == "quick" else 300):
            r = rng.random()
            if r < 0.35:
                n, atts = gen.gadget_union(rng, 8) if rng.random() < 0.5 else gen.random_framework(rng, 8)
            elif r < 0.85:
                n, atts = big_framework(rng, rng.randint(20, 60))
            else:
                n, atts = big_framework(rng, rng.choice([100, 200, 300]))
            if n == 0:
                n, atts = 1, []
            heavy = n > 80
            perm = list(range(n))
            rng.shuffle(perm)
            patts = [(perm[a], perm[b]) for a, b in atts]
            rng.shuffle(patts)
            for _ in range(min(3, len(patts))):
                patts.insert(rng.randrange(len(patts) + 1), rng.choice(patts))
            # an unrelated component WITH a stable extension, placed before (ids shift)
            k2, a2 = rng.choice([(1, []), (2, gen.cycle(2)), (4, gen.cycle(4)), (3, gen.chain(3)), (2, [(0, 1)])])
            uatts = list(a2) + [(a + k2, b + k2) for a, b in atts]
            rng.shuffle(uatts)
            # Aspartix presentation: named arguments declared in a shuffled order, attacks shuffled
            names = ["a%d_%s" % (i, rng.choice(["x", "Y", "_", "q1"])) for i in range(n)]
            decl = list(range(n))
            rng.shuffle(decl)
            satts = list(atts)
            rng.shuffle(satts)
            files = {}
            for tag, (nn, aa) in (("base", (n, atts)), ("perm", (n, patts)), ("union", (n + k2, uatts))):
                path = os.path.join(d, "meta_%d_%s.af" % (g, tag))
                open(path, "w").write("p af %d\n" % nn + "".join("%d %d\n" % (a + 1, b + 1) for a, b in aa))
                files[tag] = path
            path = os.path.join(d, "meta_%d.apx" % g)
            open(path, "w").write("".join("arg(%s).\n" % names[i] for i in decl) + "".join("att(%s,%s).\n" % (names[a], names[b]) for a, b in satts))
            files["apx"] = path
            sems = [x for x in SEMS if not (heavy and x in ("SST", "STG", "ID"))]
            for _ in range(6):
                sem = rng.choice(sems)
                task = rng.choice([t for t in ("SE", "DC", "DS") if not (sem == "CO" and t == "DS" and False)])
                a = rng.randrange(n) if task != "SE" else None
                gi = len(groups)
                groups.append(dict(sem=sem, task=task, arg=a, n=n, files=files, perm=perm, k2=k2, names=names, res={}))
                for tag in ("base", "perm", "union", "apx"):
                    prob = "%s-%s" % (task, sem)
                    if tag == "apx":
                        cmd = [crust, "solve", "-f", files[tag], "-r", "apx", "-p", prob, "--logging-level", "off", "-c"]
                        if a is not None:
                            cmd += ["-a", names[a]]
                    else:
                        arg = None if a is None else (a if tag == "base" else perm[a] if tag == "perm" else a + k2) + 1
                        if rng.random() < 0.5:
                            cmd = [wrap, "-f", files[tag], "-p", prob]
                        else:
                            cmd = [crust, "solve", "-f", files[tag], "-p", prob, "--logging-level", "off", "-c"]
                        if arg is not None:
                            cmd += ["-a", str(arg)]
                    jobs.append((gi, tag, cmd))

        # "DC-CO equals DC-PR": the two problems on the same file and argument (the command line answers DC-PR through the
        # complete solver; the two are nevertheless distinct problems with distinct dispatch arms)
        pairs = []
        seen_files = set()
        for G in list(groups):
            if G["files"]["base"] in seen_files:
                continue
            seen_files.add(G["files"]["base"])
            a = rng.randrange(G["n"])
            pi = len(pairs)
            pairs.append(dict(arg=a, file=G["files"]["base"], res={}))
            for sem in ("CO", "PR"):
                cert = ["-c"] if rng.random() < 0.5 else []
                jobs.append((("pair", pi), sem, [crust, "solve", "-f", G["files"]["base"], "-p", "DC-" + sem, "--logging-level", "off", "-a", str(a + 1)] + cert))

        def run(job):
            try:
                pr = subprocess.run(job[2], stdout=subprocess.PIPE, stderr=subprocess.PIPE, timeout=300)
                return pr.returncode, pr.stdout.decode(errors="replace")
            except subprocess.TimeoutExpired:
                return None, ""
        with ThreadPoolExecutor(max_workers=16) as ex:
            results = list(ex.map(run, jobs))
        findings = []
        for (gi, tag, cmd), (rc, out) in zip(jobs, results):
            if isinstance(gi, tuple):
                pairs[gi[1]]["res"][tag] = (rc, (out.split("\n") + [""])[0], " ".join(cmd))
                continue
            G = groups[gi]
            lines = [l for l in out.split("\n") if l]
            if rc != 0 or not lines:
                findings.append(Finding("input", None, "exit status %s / no answer on a transformed input: %s" % (rc, " ".join(cmd)[-160:]),
                                        "bin %s/%s · no answer on %s presentation" % (G["sem"], G["task"], tag), {"cmd": " ".join(cmd), "file": open(cmd[cmd.index("-f") + 1]).read()[:2000]}))
                continue
            if G["task"] == "SE":
                if lines == ["NO"]:
                    st = ("NO", None)
                else:
                    body = lines[0]
                    if tag == "apx":
                        mem = [x for x in body.strip("[]").split(",") if x]
                        back = set(G["names"].index(x) for x in mem if x in G["names"])
                    else:
                        mem = [int(x) - 1 for x in body.split(" ")[1:]]
                        if tag == "perm":
                            inv = {v: k for k, v in enumerate(G["perm"])}
                            back = set(inv[x] for x in mem)
                        elif tag == "union":
                            back = set(x - G["k2"] for x in mem if x >= G["k2"])
                        else:
                            back = set(mem)
                    st = ("EXT", frozenset(back))
            else:
                st = (lines[0], None)
            G["res"][tag] = (st, " ".join(cmd))
        for G in groups:
            if "base" not in G["res"]:
                continue
            (sb, eb), cb = G["res"]["base"]
            for tag in ("perm", "union", "apx"):
                if tag not in G["res"]:
                    continue
                (s, e), c = G["res"][tag]
                what = {"perm": "argument / attack-line permutation and duplication", "union": "disjoint union with an unrelated framework that has a stable extension",
                        "apx": "the Aspartix presentation with shuffled declarations"}[tag]
                if s != sb:
                    findings.append(Finding("input", None, "%s-%s: %s on the base file but %s under %s | %s" % (G["task"], G["sem"], sb, s, what, c[-170:]),
                                            "bin %s/%s · status not invariant (%s)" % (G["sem"], G["task"], tag), {"cmd_base": cb, "cmd": c, "file_base": open(G["files"]["base"]).read()[:3000], "file": open(G["files"][tag]).read()[:3000]}))
                elif G["task"] == "SE" and G["sem"] in ("GR", "ID") and eb is not None and e is not None and e != eb:
                    findings.append(Finding("input", None, "SE-%s: the unique extension differs under %s: %s vs %s | %s" % (G["sem"], what, sorted(eb)[:12], sorted(e)[:12], c[-170:]),
                                            "bin %s/SE · extension not invariant (%s)" % (G["sem"], tag), {"cmd_base": cb, "cmd": c, "file_base": open(G["files"]["base"]).read()[:3000], "file": open(G["files"][tag]).read()[:3000]}))
        for P in pairs:
            if "CO" in P["res"] and "PR" in P["res"]:
                (rc1, s1, c1), (rc2, s2, c2) = P["res"]["CO"], P["res"]["PR"]
                if rc1 != 0 or rc2 != 0 or s1 != s2 or s1 not in ("YES", "NO"):
                    findings.append(Finding("input", None, "DC-CO answers %r (exit %s) but DC-PR answers %r (exit %s) for argument %d | %s" % (s1, rc1, s2, rc2, P["arg"] + 1, c2[-150:]),
                                            "bin CO,PR/DC · DC-CO differs from DC-PR", {"cmd_co": c1, "cmd_pr": c2, "file": open(P["file"]).read()[:3000]}))
        return findings, {"binary_runs_on_transformed_inputs": len(jobs), "binary_query_groups": len(groups), "binary_dc_co_vs_dc_pr_pairs": len(pairs),
                          "binary_framework_sizes": sorted(set(G["n"] for G in groups))}

    def corpus(self):
        return []

    def same_class(self, f, cur):
        return False

    def shrink_candidates(self, case_line):
        return []

    def nontrivial(self, case_line):
        fw = [t for t in case_line.split(" ") if t.startswith("fw=i:")]
        return bool(fw) and int(fw[0].split(":")[1]) >= 10

    def stats(self, cases, impl, model):
        from collections import Counter
        sizes = Counter()
        calls = 0
        for c in cases:
            for l in impl.get(c.split(" ")[1], []):
                if l.startswith("size "):
                    n = int(l.split(" ")[1][2:])
                    sizes[(n // 20) * 20] += 1
                if l.startswith("r ") and "calls=" in l:
                    calls += int(l.rsplit("calls=", 1)[1])
        return {"distribution": {"n_arguments_bucket": {str(k): v for k, v in sorted(sizes.items())}}, "total_sat_calls": calls,
                "groups": len(getattr(self, "groups", []))}
