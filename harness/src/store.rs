//! Store family (C12): apply an update history, dump every observer after every operation.
use crate::fw::{self, Op};
use crate::util;
use crustabri::aa::{AAFramework, ArgumentSet};
use std::collections::HashMap;
use std::panic::{catch_unwind, AssertUnwindSafe};

pub fn dump(af: &AAFramework<usize>, universe: &[usize]) -> String {
    let args = af
        .argument_set()
        .iter()
        .map(|a| format!("{}:{}", a.id(), a.label()))
        .collect::<Vec<_>>()
        .join(",");
    let atts = af
        .iter_attacks()
        .map(|t| format!("{}>{}", t.attacker().label(), t.attacked().label()))
        .collect::<Vec<_>>()
        .join(",");
    let from = af
        .argument_set()
        .iter()
        .map(|a| {
            format!(
                "{}:{}",
                a.label(),
                af.iter_attacks_from(a)
                    .map(|t| {
                        assert!(t.attacker() == a);
                        t.attacked().label().to_string()
                    })
                    .collect::<Vec<_>>()
                    .join(".")
            )
        })
        .collect::<Vec<_>>()
        .join(",");
    let to = af
        .argument_set()
        .iter()
        .map(|a| {
            format!(
                "{}:{}",
                a.label(),
                af.iter_attacks_to(a)
                    .map(|t| {
                        assert!(t.attacked() == a);
                        t.attacker().label().to_string()
                    })
                    .collect::<Vec<_>>()
                    .join(".")
            )
        })
        .collect::<Vec<_>>()
        .join(",");
    let maxid = match af.max_argument_id() {
        Some(m) => m.to_string(),
        None => "-".to_string(),
    };
    let hi = af.max_argument_id().map(|m| m + 2).unwrap_or(2);
    let has = (0..hi)
        .map(|i| if af.argument_set().has_argument_with_id(i) { '1' } else { '0' })
        .collect::<String>();
    let lk = universe
        .iter()
        .map(|l| match af.argument_set().get_argument(l) {
            Ok(a) => format!("{}:{}", l, a.id()),
            Err(_) => format!("{}:-", l),
        })
        .collect::<Vec<_>>()
        .join(",");
    format!(
        "n={} m={} max={} empty={} args={} atts={} from={} to={} has={} lk={}",
        af.n_arguments(),
        af.n_attacks(),
        maxid,
        if af.argument_set().is_empty() { 1 } else { 0 },
        args,
        atts,
        from,
        to,
        has,
        lk
    )
}

/// `store <id> ops=<A1;R1;+1>2;-1>2;...> [init=l,l,l] [setinit=<ops on the ArgumentSet>]`
pub fn run(id: &str, p: &HashMap<String, String>, out: &mut Vec<String>) {
    let _ = id;
    let ops = fw::parse_ops(p.get("ops").map(|s| s.as_str()).unwrap_or(""));
    let mut universe: Vec<usize> = Vec::new();
    let mut note = |l: usize| {
        if !universe.contains(&l) {
            universe.push(l)
        }
    };
    for op in &ops {
        match op {
            Op::NewArg(l) | Op::RemArg(l) => note(*l),
            Op::NewAtt(a, b) | Op::RemAtt(a, b) => {
                note(*a);
                note(*b)
            }
        }
    }
    let init = util::parse_usize_list(p.get("init").map(|s| s.as_str()).unwrap_or("-"));
    for l in &init {
        note(*l)
    }
    let setops = fw::parse_ops(p.get("setinit").map(|s| s.as_str()).unwrap_or(""));
    for op in &setops {
        if let Op::NewArg(l) | Op::RemArg(l) = op {
            note(*l)
        }
    }
    universe.sort();
    let r = catch_unwind(AssertUnwindSafe(|| {
        let mut lines = Vec::new();
        let mut af = if p.contains_key("init") || p.contains_key("setinit") {
            let mut set = ArgumentSet::new_with_labels(&init);
            for op in &setops {
                match op {
                    Op::NewArg(l) => set.new_argument(*l),
                    Op::RemArg(l) => {
                        let _ = set.remove_argument(l);
                    }
                    _ => {}
                }
            }
            AAFramework::new_with_argument_set(set)
        } else {
            AAFramework::default()
        };
        lines.push(format!("st r=init {}", dump(&af, &universe)));
        for op in &ops {
            let ok = catch_unwind(AssertUnwindSafe(|| fw::apply_op(&mut af, op)));
            match ok {
                Ok(b) => lines.push(format!("st r={} {}", if b { "ok" } else { "err" }, dump(&af, &universe))),
                Err(e) => {
                    lines.push(format!("panic {}", util::panic_msg(e)));
                    break;
                }
            }
        }
        lines
    }));
    match r {
        Ok(lines) => out.extend(lines),
        Err(e) => out.push(format!("panic {}", util::panic_msg(e))),
    }
    out.push("end".to_string());
}
