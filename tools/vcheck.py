#!/usr/bin/env python3
"""./check <Cxx> [--tier quick|thorough] [--replay F]   |   ./check --setup"""
import argparse
import os
import sys

sys.path.insert(0, os.path.dirname(os.path.abspath(__file__)))
import common
import engine


def registry():
    import props_solve
    import props_store
    import props_enc
    import props_fault
    import props_meta
    import props_io
    import props_equiv
    import props_sat
    import props_dyn
    import props_cli
    props = {}
    for mod in (props_solve, props_store, props_enc, props_fault, props_meta, props_io, props_equiv, props_sat, props_dyn, props_cli):
        for name in dir(mod):
            c = getattr(mod, name)
            if isinstance(c, type) and issubclass(c, engine.Property) and getattr(c, "id", None):
                props[c.id] = c
    return props


def setup():
    common.gen_from_source()
    rc, out = common.lake_build(["Crusta", "driver"])
    print(out[-2000:])
    if rc != 0:
        return rc
    rc, out = common.harness_build()
    print(out[-1500:])
    if rc != 0:
        return rc
    rc, out = common.repo_bins_build()
    print(out[-800:])
    return rc


def main():
    ap = argparse.ArgumentParser()
    ap.add_argument("prop", nargs="?")
    ap.add_argument("--tier", default=os.environ.get("VERIF_TIER", "quick"))
    ap.add_argument("--replay")
    ap.add_argument("--setup", action="store_true")
    a = ap.parse_args()
    if a.setup:
        sys.exit(setup())
    props = registry()
    if a.prop not in props:
        print("unknown property %s; known: %s" % (a.prop, " ".join(sorted(props))))
        sys.exit(2)
    seed = int(os.environ.get("VERIF_SEED", "20260926"))
    try:
        rc = engine.run_property(props[a.prop](), a.tier, seed, replay=a.replay)
    except Exception:
        # the check itself could not be completed on this tree (e.g. output of a changed implementation that the
        # machinery cannot interpret): the property is no longer shown to hold
        import traceback
        tb = traceback.format_exc()
        path = common.write_replay(a.prop, {"kind": "correspondence", "what": "the check could not be completed: internal error of the checking machinery on this tree",
                                            "traceback": tb.splitlines()[-12:], "tier": a.tier, "seed": seed})
        print(tb)
        print("VIOLATION property=%s replay=%s no-failing-input-found" % (a.prop, path))
        rc = 1
    sys.exit(rc)


if __name__ == "__main__":
    main()
