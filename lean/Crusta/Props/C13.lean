import Crusta.Model.Readers
import Crusta.Proofs.RoundTrip
import Crusta.Proofs.ReaderWF
import Crusta.Proofs.ReaderWFApx
import Crusta.Proofs.LinesNoLf
import Crusta.Gen.IccmaTokens

/-!
# C13 — instance readers are total and faithful (property theorems)

Totality is by construction (`readIccma`, `readApx` are total functions on all byte strings);
the correspondence run turns it into "the Rust readers do not panic where the model returns".
Below: once a line is rejected nothing later repairs it, and one rejection theorem per
ill-formedness class named in the property.
-/

namespace Crusta.C13
open Crusta Crusta.IO

/-- the readers are total: every byte string yields a framework or an error -/
theorem readers_total (bs : List UInt8) :
    ((∃ fw, readIccma bs = .ok fw) ∨ (∃ e, readIccma bs = .error e)) ∧
    ((∃ fw, readApx bs = .ok fw) ∨ (∃ e, readApx bs = .error e)) := by
  constructor
  · cases h : readIccma bs with
    | ok fw => exact Or.inl ⟨fw, rfl⟩
    | error e => exact Or.inr ⟨e, rfl⟩
  · cases h : readApx bs with
    | ok fw => exact Or.inl ⟨fw, rfl⟩
    | error e => exact Or.inr ⟨e, rfl⟩

/-- an error is final: whatever follows a rejected line, the file is rejected -/
theorem error_is_final {σ : Type} (f : σ → Option Str → Except String σ) :
    ∀ (pre : List (Option Str)) (s s' : σ) (l : Option Str) (post : List (Option Str)) (e : String),
      foldLines f s pre = .ok s' → f s' l = .error e →
      foldLines f s (pre ++ l :: post) = .error e := by
  intro pre
  induction pre with
  | nil =>
    intro s s' l post e h1 h2
    simp only [foldLines] at h1; injection h1 with h1; subst h1
    simp [foldLines, h2]
  | cons p ps ih =>
    intro s s' l post e h1 h2
    simp only [foldLines, List.cons_append] at h1 ⊢
    cases hp : f s p with
    | ok s1 => rw [hp] at h1; simp only at h1 ⊢; exact ih s1 s' l post e h1 h2
    | error e1 => rw [hp] at h1; cases h1

/-- invalid UTF-8 anywhere is rejected by both readers -/
theorem invalid_utf8_rejected (st : IccmaSt) (st' : ApxSt) :
    (∃ e, iccmaLine st none = .error e) ∧ (∃ e, apxLine st' none = .error e) :=
  ⟨⟨_, rfl⟩, ⟨_, rfl⟩⟩

/-- ICCMA: a file without preamble is rejected -/
theorem iccma_missing_header : ∃ e, readIccma [] = .error e := ⟨_, rfl⟩

/-- ICCMA: content after a blank line is rejected (comments excepted) -/
theorem iccma_content_after_blank (st : IccmaSt) (l : Str) (hf : st.foundEmpty = true)
    (hc : l.head? ≠ some 35) (hne : l ≠ []) : ∃ e, iccmaLine st (some l) = .error e := by
  unfold iccmaLine
  simp only [hf]
  rw [if_neg (by simpa using hc)]
  have : l.isEmpty = false := by cases l <;> simp_all
  simp [this]

/-- ICCMA: a bad header (wrong word count, wrong keyword, non-numeric or negative size) is rejected -/
theorem iccma_bad_header (st : IccmaSt) (l : Str) (haf : st.af = none) (hf : st.foundEmpty = false)
    (hc : l.head? ≠ some 35) (hne : l ≠ []) (e0 : String) (hp : readPreamble (splitWs l) = .error e0) :
    ∃ e, iccmaLine st (some l) = .error e := by
  unfold iccmaLine
  have : l.isEmpty = false := by cases l <;> simp_all
  simp only [hf, haf, this]
  rw [if_neg (by simpa using hc)]
  simp [hp]

/-- ICCMA: an attack line that does not have exactly two words is rejected -/
theorem iccma_wrong_arity (st : IccmaSt) (af : IccmaFw) (l : Str) (haf : st.af = some af)
    (hf : st.foundEmpty = false) (hc : l.head? ≠ some 35) (hne : l ≠ [])
    (hw : (splitWs l).length ≠ 2) : ∃ e, iccmaLine st (some l) = .error e := by
  unfold iccmaLine
  have : l.isEmpty = false := by cases l <;> simp_all
  simp only [hf, haf, this]
  rw [if_neg (by simpa using hc)]
  simp only [Bool.false_eq_true, if_false]
  match hs : splitWs l with
  | [] => exact ⟨_, rfl⟩
  | [_] => exact ⟨_, rfl⟩
  | [_, _] => rw [hs] at hw; simp at hw
  | _ :: _ :: _ :: _ => exact ⟨_, rfl⟩

/-- ICCMA: an index that is non-numeric, < 1 or > n is rejected -/
theorem iccma_bad_index (st : IccmaSt) (af : IccmaFw) (l : Str) (w0 w1 : Str) (haf : st.af = some af)
    (hf : st.foundEmpty = false) (hc : l.head? ≠ some 35) (hne : l ≠ [])
    (hw : splitWs l = [w0, w1])
    (hbad : ∀ a b, parseIsize w0 = some a → parseIsize w1 = some b →
      ¬ (a ≥ 1 ∧ a.toNat ≤ af.n ∧ b ≥ 1 ∧ b.toNat ≤ af.n)) :
    ∃ e, iccmaLine st (some l) = .error e := by
  unfold iccmaLine
  have : l.isEmpty = false := by cases l <;> simp_all
  simp only [hf, haf, this, hw]
  rw [if_neg (by simpa using hc)]
  simp only [Bool.false_eq_true, if_false]
  cases h0 : parseIsize w0 with
  | none => cases h1 : parseIsize w1 <;> exact ⟨_, rfl⟩
  | some a =>
    cases h1 : parseIsize w1 with
    | none => exact ⟨_, rfl⟩
    | some b =>
      simp only
      have := hbad a b h0 h1
      split
      · split
        · rename_i ha hb
          simp only [Bool.and_eq_true, decide_eq_true_eq] at ha hb
          exact absurd ⟨ha.1, ha.2, hb.1, hb.2⟩ this
        · exact ⟨_, rfl⟩
      · exact ⟨_, rfl⟩

/-- Aspartix: an argument declared after an attack is rejected -/
theorem apx_arg_after_att (st : ApxSt) (l lab : Str) (hb : l.all isWs = false)
    (hm : matchArg l = some lab) (haf : st.af.isSome = true) : ∃ e, apxLine st (some l) = .error e := by
  unfold apxLine
  simp [hb, hm, haf]

/-- Aspartix: an attack naming an undeclared argument is rejected -/
theorem apx_undeclared (st : ApxSt) (l a b : Str) (hb : l.all isWs = false) (hna : matchArg l = none)
    (hm : matchAtt l = some (a, b))
    (hun : idxOf (match st.af with | some af => af.labels | none => dedup st.labels) a = none ∨
           idxOf (match st.af with | some af => af.labels | none => dedup st.labels) b = none) :
    ∃ e, apxLine st (some l) = .error e := by
  unfold apxLine
  simp only [hb, hna, hm, Bool.false_eq_true, if_false]
  cases hs : st.af with
  | none =>
    simp only [hs] at hun ⊢
    rcases hun with h | h
    · rw [h]; exact ⟨_, rfl⟩
    · rw [h]; cases idxOf (dedup st.labels) a <;> exact ⟨_, rfl⟩
  | some af =>
    simp only [hs] at hun ⊢
    rcases hun with h | h
    · rw [h]; exact ⟨_, rfl⟩
    · rw [h]; cases idxOf af.labels a <;> exact ⟨_, rfl⟩

/-- Aspartix: a non-blank line that is neither an argument nor an attack declaration is rejected -/
theorem apx_syntax_error (st : ApxSt) (l : Str) (hb : l.all isWs = false)
    (h1 : matchArg l = none) (h2 : matchAtt l = none) : ∃ e, apxLine st (some l) = .error e := by
  unfold apxLine
  simp [hb, h1, h2]

/-- non-vacuity: a concrete well-formed ICCMA file (`p af 2\n1 2\n`) is accepted with exactly
its content -/
example : (match readIccma [112, 32, 97, 102, 32, 50, 10, 49, 32, 50, 10] with
    | .ok fw => fw == ⟨2, [(0, 1)]⟩ | .error _ => false) = true := by decide

/-- **acceptance and faithfulness, ICCMA'23**: the canonical rendering of any framework (declared
size up to `isize::MAX`, attacks between declared arguments, duplicates kept) is accepted and read
back as exactly that framework: the declared number of arguments, the declared attacks in
declaration order -/
theorem iccma_wellformed_accepted (n : Nat) (atts : List (Nat × Nat)) (h : ∀ p ∈ atts, p.1 < n ∧ p.2 < n)
    (hn : n ≤ 9223372036854775807) :
    readIccma (encodeUtf8 (renderIccma n atts)) = .ok ⟨n, atts⟩ := read_render_iccma n atts h hn

/-- the same with comment lines before the header and between attack lines, trailing blank or
comment lines, and with or without a final newline -/
theorem iccma_wellformed_accepted_general (n : Nat) (pre : List Str) (items : List IccmaItem) (post : List Str)
    (finalNl : Bool) (hn : n ≤ 9223372036854775807)
    (hpre : ∀ t ∈ pre, LineOk (35 :: t)) (hit : ∀ it ∈ items, it.Ok n)
    (hpost : ∀ t ∈ post, TrailOk t) (hlast : finalNl = false → post.getLast? ≠ some []) :
    readIccma (encodeUtf8 (joinLines
        (pre.map (fun t => 35 :: t) ++ (iccmaHeader n :: (items.map IccmaItem.line ++ post))) finalNl)) =
      .ok ⟨n, itemAtts items⟩ := read_render_iccma' n pre items post finalNl hn hpre hit hpost hlast

/-- a declared size above `isize::MAX` is rejected, not read as something else -/
theorem iccma_oversized_rejected (n : Nat) (atts : List (Nat × Nat)) (hn : n > 9223372036854775807) :
    ∃ e, readIccma (encodeUtf8 (renderIccma n atts)) = .error e := read_render_iccma_big n atts hn

/-- **acceptance and faithfulness, Aspartix**: a file of `arg(l).` lines (valid identifiers, incl.
Unicode digits; distinct) followed by `att(a,b).` lines between declared arguments is accepted and
yields exactly the declared labels in declaration order and exactly the declared attacks -/
theorem apx_wellformed_accepted (labels : List Str) (atts : List (Nat × Nat))
    (hv : ∀ l ∈ labels, ValidId l) (hnd : labels.Nodup)
    (ha : ∀ p ∈ atts, p.1 < labels.length ∧ p.2 < labels.length) (hand : atts.Nodup) :
    readApx (encodeUtf8 (writeApx labels (atts.map (fun p => (labels.getD p.1 [], labels.getD p.2 [])))))
      = .ok ⟨labels, atts⟩ := apx_write_read labels atts hv hnd ha hand

/-- **only well-formed frameworks are accepted** (ICCMA'23): whatever the bytes, if the reader
returns a framework then every attack it holds is between declared arguments — together with the
rejection theorems above and `iccma_wellformed_accepted(_general)` this is "accepts exactly" -/
theorem iccma_accepted_is_wellformed (bs : List UInt8) (fw : IccmaFw) (h : readIccma bs = .ok fw) :
    ∀ p ∈ fw.atts, p.1 < fw.n ∧ p.2 < fw.n := readIccma_wfa bs fw h

/-- the same for the Aspartix reader: whatever the bytes, a framework that is returned has distinct
labels, attacks between declared arguments only, and no attack twice -/
theorem apx_accepted_is_wellformed (bs : List UInt8) (fw : ApxFw) (h : readApx bs = .ok fw) :
    fw.labels.Nodup ∧ (∀ p ∈ fw.atts, p.1 < fw.labels.length ∧ p.2 < fw.labels.length) ∧ fw.atts.Nodup :=
  readApx_wfa bs fw h

/-- **the reader model's scanners are the regular expressions of the source.**  `Gen.argLineName`,
`Gen.attLineNames` (and the loose `Gen.argLine`, `Gen.attLine`) are regenerated from
`src/io/aspartix_reader.rs` on every run; for every byte string and every line the reader is given
(no line contains a line feed: `lines_no_lf`), the scanner `matchArg` succeeds exactly when the
strict argument pattern matches, and returns the captured group, trimmed as `captured_arg` does —
the capture being unique, so that the regex engine's leftmost-first rule has nothing to choose —,
and likewise for `matchAtt`; the strict patterns are included in the loose ones and the argument and
attack patterns exclude each other, so the order in which the Rust code tries them is immaterial.
What remains trusted is that the `regex` crate implements this textbook semantics. -/
theorem apx_scanners_are_the_source_patterns (bs : List UInt8) (l : Str) (hl : some l ∈ lines bs) :
    (∀ lab, matchArg l = some lab ↔ ∃ g, Rx.MatchesG Gen.argLineName l [g] ∧ lab = trimWs g) ∧
    (∀ a b, matchAtt l = some (a, b) ↔
      ∃ g1 g2, Rx.MatchesG Gen.attLineNames l [g1, g2] ∧ a = trimWs g1 ∧ b = trimWs g2) ∧
    (∀ g g', Rx.MatchesG Gen.argLineName l [g] → Rx.MatchesG Gen.argLineName l [g'] → g = g') ∧
    (∀ g1 g2 g1' g2', Rx.MatchesG Gen.attLineNames l [g1, g2] → Rx.MatchesG Gen.attLineNames l [g1', g2'] →
      g1 = g1' ∧ g2 = g2') ∧
    (Rx.Matches Gen.argLineName l → Rx.Matches Gen.argLine l) ∧
    (Rx.Matches Gen.attLineNames l → Rx.Matches Gen.attLine l) ∧
    ¬ (Rx.Matches Gen.argLine l ∧ Rx.Matches Gen.attLine l) :=
  ⟨fun lab => RxApx.reader_matchArg_iff bs l hl lab, fun a b => RxApx.reader_matchAtt_iff bs l hl a b,
   fun g g' h h' => RxApx.argLineName_capture_unique l g g' h h',
   fun g1 g2 g1' g2' h h' => RxApx.attLineNames_capture_unique l g1 g2 g1' g2' h h',
   RxApx.strict_sub_loose_arg l, RxApx.strict_sub_loose_att l, RxApx.arg_att_exclusive l⟩

/-- no line handed to the readers contains a line feed, for any input bytes -/
theorem lines_have_no_line_feed (bs : List UInt8) : ∀ l, some l ∈ lines bs → ∀ c ∈ l, c ≠ 10 :=
  lines_no_lf bs

theorem strOf_p : strOf "p" = [112] := by decide
theorem strOf_af : strOf "af" = [97, 102] := by decide

/-- **the tokens of the ICCMA'23 reader are those of the source** (regenerated on every run; the
generator also insists on the shape of the line loop: comment test, empty-line flag,
`split_whitespace`, `parse::<isize>` with `n >= 0`): a line starting with the comment character is
skipped in every state; a preamble is accepted only with the source's number of words, first word
and kind; the arguments are labelled from the source's first label on -/
theorem iccma_tokens_are_the_source :
    (∀ (st : IccmaSt) (l : Str), l.head? = some Gen.iccmaComment → iccmaLine st (some l) = .ok st) ∧
    (∀ (ws : List Str) (n : Nat), readPreamble ws = .ok n →
      ws.length = Gen.iccmaPreambleWords ∧ ws[0]? = some Gen.iccmaFirstWord ∧ ws[1]? = some Gen.iccmaKind) ∧
    (∀ n : Nat, n ≤ 9223372036854775807 → readPreamble [Gen.iccmaFirstWord, Gen.iccmaKind, natToStr n] = .ok n) ∧
    (∀ (st : IccmaSt) (af : IccmaFw) (l : Str) (st' : IccmaSt), st.af = some af → st.foundEmpty = false →
      l.head? ≠ some Gen.iccmaComment → l ≠ [] → iccmaLine st (some l) = .ok st' →
      (splitWs l).length = Gen.iccmaAttackWords) ∧
    Gen.iccmaFirstLabel = 1 := by
  refine ⟨?_, ?_, ?_, ?_, rfl⟩
  · intro st l h
    simp [iccmaLine, h, Gen.iccmaComment]
  · intro ws n h
    unfold readPreamble at h
    split at h
    · rename_i w0 w1 w2
      split at h
      · cases h
      · rename_i h0
        split at h
        · cases h
        · rename_i h1
          simp only [bne_iff_ne, ne_eq, Decidable.not_not] at h0 h1
          simp [Gen.iccmaPreambleWords, Gen.iccmaFirstWord, Gen.iccmaKind, ← strOf_p, ← strOf_af, h0, h1]
    · cases h
  · intro n hn
    have hp := parseIsize_natToStr n hn
    simp [readPreamble, Gen.iccmaFirstWord, Gen.iccmaKind, ← strOf_p, ← strOf_af, hp]
  · intro st af l st' haf hfe hc hne h
    have hc' : (l.head? == some 35) = false := by
      simpa [Gen.iccmaComment] using hc
    have hne' : l.isEmpty = false := by cases l <;> simp_all
    simp only [iccmaLine, hc', hne', hfe, haf, Bool.false_eq_true, if_false] at h
    split at h
    · simp [Gen.iccmaAttackWords, *]
    · cases h

end Crusta.C13
