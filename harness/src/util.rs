use std::collections::HashMap;

pub fn kv(tokens: &[&str]) -> HashMap<String, String> {
    tokens
        .iter()
        .filter_map(|t| {
            let mut it = t.splitn(2, '=');
            let k = it.next()?;
            let v = it.next()?;
            Some((k.to_string(), v.to_string()))
        })
        .collect()
}

pub fn parse_usize_list(s: &str) -> Vec<usize> {
    if s == "-" || s.is_empty() {
        return vec![];
    }
    s.split(',').map(|t| t.parse().unwrap()).collect()
}

pub fn join<T: ToString>(v: &[T], sep: &str) -> String {
    v.iter().map(|x| x.to_string()).collect::<Vec<_>>().join(sep)
}

pub fn panic_msg(e: Box<dyn std::any::Any + Send>) -> String {
    let s = if let Some(s) = e.downcast_ref::<&str>() {
        s.to_string()
    } else if let Some(s) = e.downcast_ref::<String>() {
        s.clone()
    } else {
        "?".to_string()
    };
    s.replace('\n', " ")
}
