import Crusta.Proofs.Semantics

/-!
# Invariance under renaming / reordering of arguments (C11)

A renaming is a bijection of `Nat` that preserves the universe `{0..n-1}`.  All seven semantics
commute with it.
-/

namespace Crusta

structure Renaming (n : Nat) where
  f : Nat → Nat
  g : Nat → Nat
  gf : ∀ a, g (f a) = a
  fg : ∀ a, f (g a) = a
  lt : ∀ a, a < n ↔ f a < n

def AF.rename (af : AF) (f : Nat → Nat) : AF := ⟨af.n, af.atts.map (fun p => (f p.1, f p.2))⟩

/-- the image of a set: `a ∈ ρS ⇔ ρ⁻¹ a ∈ S` -/
def imageSet (S : ASet) (g : Nat → Nat) : ASet := fun a => S (g a)

variable {af : AF} (ρ : Renaming af.n)

theorem mem_rename_atts (b a : Nat) :
    (b, a) ∈ (af.rename ρ.f).atts ↔ (ρ.g b, ρ.g a) ∈ af.atts := by
  unfold AF.rename
  simp only [List.mem_map, Prod.mk.injEq]
  constructor
  · rintro ⟨⟨x, y⟩, hm, h1, h2⟩
    simp only at h1 h2
    subst h1; subst h2
    rw [ρ.gf, ρ.gf]; exact hm
  · intro hm
    exact ⟨(ρ.g b, ρ.g a), hm, ρ.fg b, ρ.fg a⟩

theorem lt_g (a : Nat) : ρ.g a < af.n ↔ a < af.n := by
  have := ρ.lt (ρ.g a); rw [ρ.fg] at this; exact this

theorem attackedBy_rename (S : ASet) (a : Nat) :
    AttackedBy (af.rename ρ.f) (imageSet S ρ.g) a ↔ AttackedBy af S (ρ.g a) := by
  unfold AttackedBy imageSet
  constructor
  · rintro ⟨b, hb, hs⟩; exact ⟨ρ.g b, (mem_rename_atts ρ b a).1 hb, hs⟩
  · rintro ⟨b, hb, hs⟩
    refine ⟨ρ.f b, (mem_rename_atts ρ _ a).2 (by rw [ρ.gf]; exact hb), by rw [ρ.gf]; exact hs⟩

theorem sub_rename (S : ASet) : Sub (af.rename ρ.f) (imageSet S ρ.g) ↔ Sub af S := by
  unfold Sub imageSet
  constructor
  · intro h a ha
    have := h (ρ.f a) (by rw [ρ.gf]; exact ha)
    exact (ρ.lt a).2 this
  · intro h a ha
    exact (lt_g ρ a).1 (h _ ha)

theorem cf_rename (S : ASet) : ConflictFree (af.rename ρ.f) (imageSet S ρ.g) ↔ ConflictFree af S := by
  unfold ConflictFree
  rw [sub_rename]
  constructor
  · rintro ⟨h1, h2⟩
    refine ⟨h1, fun a ha hatt => ?_⟩
    apply h2 (ρ.f a) (by unfold imageSet; rw [ρ.gf]; exact ha)
    rw [attackedBy_rename, ρ.gf]; exact hatt
  · rintro ⟨h1, h2⟩
    refine ⟨h1, fun a ha hatt => ?_⟩
    exact h2 (ρ.g a) ha ((attackedBy_rename ρ S a).1 hatt)

theorem defended_rename (S : ASet) (a : Nat) :
    Defended (af.rename ρ.f) (imageSet S ρ.g) a ↔ Defended af S (ρ.g a) := by
  unfold Defended
  constructor
  · intro h b hb
    have := h (ρ.f b) ((mem_rename_atts ρ _ a).2 (by rw [ρ.gf]; exact hb))
    rw [attackedBy_rename, ρ.gf] at this; exact this
  · intro h b hb
    rw [attackedBy_rename]
    exact h (ρ.g b) ((mem_rename_atts ρ b a).1 hb)

theorem adm_rename (S : ASet) : Admissible (af.rename ρ.f) (imageSet S ρ.g) ↔ Admissible af S := by
  unfold Admissible
  rw [cf_rename]
  constructor
  · rintro ⟨h1, h2⟩
    refine ⟨h1, fun a ha => ?_⟩
    have := h2 (ρ.f a) (by unfold imageSet; rw [ρ.gf]; exact ha)
    rw [defended_rename, ρ.gf] at this; exact this
  · rintro ⟨h1, h2⟩
    refine ⟨h1, fun a ha => ?_⟩
    rw [defended_rename]; exact h2 (ρ.g a) ha

theorem co_rename (S : ASet) : Complete (af.rename ρ.f) (imageSet S ρ.g) ↔ Complete af S := by
  unfold Complete
  rw [adm_rename]
  constructor
  · rintro ⟨h1, h2⟩
    refine ⟨h1, fun a ha hd => ?_⟩
    have := h2 (ρ.f a) ((ρ.lt a).1 ha) (by rw [defended_rename, ρ.gf]; exact hd)
    unfold imageSet at this; rw [ρ.gf] at this; exact this
  · rintro ⟨h1, h2⟩
    refine ⟨h1, fun a ha hd => ?_⟩
    exact h2 (ρ.g a) ((lt_g ρ a).2 ha) ((defended_rename ρ S a).1 hd)

theorem st_rename (S : ASet) : Stable (af.rename ρ.f) (imageSet S ρ.g) ↔ Stable af S := by
  unfold Stable
  rw [cf_rename]
  constructor
  · rintro ⟨h1, h2⟩
    refine ⟨h1, fun a ha hs => ?_⟩
    have := h2 (ρ.f a) ((ρ.lt a).1 ha) (by unfold imageSet; rw [ρ.gf]; exact hs)
    rw [attackedBy_rename, ρ.gf] at this; exact this
  · rintro ⟨h1, h2⟩
    refine ⟨h1, fun a ha hs => ?_⟩
    rw [attackedBy_rename]
    exact h2 (ρ.g a) ((lt_g ρ a).2 ha) hs

/-- every set over the renamed framework is the image of a set over the original -/
theorem imageSet_surj (T' : ASet) : imageSet (fun a => T' (ρ.f a)) ρ.g = T' := by
  funext a; unfold imageSet; simp only; rw [ρ.fg]

theorem subsetS_rename (S T : ASet) : SubsetS (imageSet S ρ.g) (imageSet T ρ.g) ↔ SubsetS S T := by
  unfold SubsetS imageSet
  constructor
  · intro h a ha; have := h (ρ.f a) (by rw [ρ.gf]; exact ha); rw [ρ.gf] at this; exact this
  · intro h a ha; exact h _ ha

theorem inRange_rename (S : ASet) (a : Nat) :
    InRange (af.rename ρ.f) (imageSet S ρ.g) a ↔ InRange af S (ρ.g a) := by
  unfold InRange; rw [attackedBy_rename]; rfl

theorem rangeSub_rename (S T : ASet) :
    RangeSub (af.rename ρ.f) (imageSet S ρ.g) (imageSet T ρ.g) ↔ RangeSub af S T := by
  unfold RangeSub
  constructor
  · intro h a ha
    have := h (ρ.f a) (by rw [inRange_rename, ρ.gf]; exact ha)
    rw [inRange_rename, ρ.gf] at this; exact this
  · intro h a ha
    rw [inRange_rename] at ha ⊢
    exact h _ ha

/-- transport of a universally quantified statement over sets -/
theorem forall_sets_rename (P : ASet → Prop) :
    (∀ T', P T') ↔ (∀ T, P (imageSet T ρ.g)) := by
  constructor
  · intro h T; exact h _
  · intro h T'; have := h (fun a => T' (ρ.f a)); rw [imageSet_surj] at this; exact this

theorem pr_rename (S : ASet) : Preferred (af.rename ρ.f) (imageSet S ρ.g) ↔ Preferred af S := by
  unfold Preferred
  rw [adm_rename, forall_sets_rename ρ (fun T' => Admissible (af.rename ρ.f) T' →
    SubsetS (imageSet S ρ.g) T' → SubsetS T' (imageSet S ρ.g))]
  constructor
  · rintro ⟨h1, h2⟩
    exact ⟨h1, fun T hT hs => (subsetS_rename ρ T S).1 (h2 T ((adm_rename ρ T).2 hT) ((subsetS_rename ρ S T).2 hs))⟩
  · rintro ⟨h1, h2⟩
    exact ⟨h1, fun T hT hs => (subsetS_rename ρ T S).2 (h2 T ((adm_rename ρ T).1 hT) ((subsetS_rename ρ S T).1 hs))⟩

/-- **all seven semantics commute with renaming / reordering the arguments** -/
theorem ext_rename (σ : Sem) (S : ASet) : σ.Ext (af.rename ρ.f) (imageSet S ρ.g) ↔ σ.Ext af S := by
  cases σ
  · show Grounded _ _ ↔ Grounded _ _
    unfold Grounded
    rw [co_rename, forall_sets_rename ρ (fun T' => Complete (af.rename ρ.f) T' → SubsetS (imageSet S ρ.g) T')]
    constructor
    · rintro ⟨h1, h2⟩; exact ⟨h1, fun T hT => (subsetS_rename ρ S T).1 (h2 T ((co_rename ρ T).2 hT))⟩
    · rintro ⟨h1, h2⟩; exact ⟨h1, fun T hT => (subsetS_rename ρ S T).2 (h2 T ((co_rename ρ T).1 hT))⟩
  · exact co_rename ρ S
  · exact pr_rename ρ S
  · exact st_rename ρ S
  · show SemiStable _ _ ↔ SemiStable _ _
    unfold SemiStable
    rw [co_rename, forall_sets_rename ρ (fun T' => Complete (af.rename ρ.f) T' →
      RangeSub (af.rename ρ.f) (imageSet S ρ.g) T' → RangeSub (af.rename ρ.f) T' (imageSet S ρ.g))]
    constructor
    · rintro ⟨h1, h2⟩
      exact ⟨h1, fun T hT hr => (rangeSub_rename ρ T S).1 (h2 T ((co_rename ρ T).2 hT) ((rangeSub_rename ρ S T).2 hr))⟩
    · rintro ⟨h1, h2⟩
      exact ⟨h1, fun T hT hr => (rangeSub_rename ρ T S).2 (h2 T ((co_rename ρ T).1 hT) ((rangeSub_rename ρ S T).1 hr))⟩
  · show Stage _ _ ↔ Stage _ _
    unfold Stage
    rw [cf_rename, forall_sets_rename ρ (fun T' => ConflictFree (af.rename ρ.f) T' →
      RangeSub (af.rename ρ.f) (imageSet S ρ.g) T' → RangeSub (af.rename ρ.f) T' (imageSet S ρ.g))]
    constructor
    · rintro ⟨h1, h2⟩
      exact ⟨h1, fun T hT hr => (rangeSub_rename ρ T S).1 (h2 T ((cf_rename ρ T).2 hT) ((rangeSub_rename ρ S T).2 hr))⟩
    · rintro ⟨h1, h2⟩
      exact ⟨h1, fun T hT hr => (rangeSub_rename ρ T S).2 (h2 T ((cf_rename ρ T).1 hT) ((rangeSub_rename ρ S T).1 hr))⟩
  · show Ideal _ _ ↔ Ideal _ _
    have hc : ∀ T, IdealCand (af.rename ρ.f) (imageSet T ρ.g) ↔ IdealCand af T := by
      intro T
      unfold IdealCand
      rw [adm_rename, forall_sets_rename ρ (fun P' => Preferred (af.rename ρ.f) P' → SubsetS (imageSet T ρ.g) P')]
      constructor
      · rintro ⟨h1, h2⟩; exact ⟨h1, fun P hP => (subsetS_rename ρ T P).1 (h2 P ((pr_rename ρ P).2 hP))⟩
      · rintro ⟨h1, h2⟩; exact ⟨h1, fun P hP => (subsetS_rename ρ T P).2 (h2 P ((pr_rename ρ P).1 hP))⟩
    unfold Ideal
    rw [hc, forall_sets_rename ρ (fun T' => IdealCand (af.rename ρ.f) T' →
      SubsetS (imageSet S ρ.g) T' → SubsetS T' (imageSet S ρ.g))]
    constructor
    · rintro ⟨h1, h2⟩
      exact ⟨h1, fun T hT hs => (subsetS_rename ρ T S).1 (h2 T ((hc T).2 hT) ((subsetS_rename ρ S T).2 hs))⟩
    · rintro ⟨h1, h2⟩
      exact ⟨h1, fun T hT hs => (subsetS_rename ρ T S).2 (h2 T ((hc T).1 hT) ((subsetS_rename ρ S T).1 hs))⟩

/-- consequence for statuses: an argument is credulously / skeptically accepted in the original
framework iff its image is in the renamed one -/
theorem status_rename (σ : Sem) (a : Nat) :
    ((∃ S, σ.Ext af S ∧ S a = true) ↔ (∃ S', σ.Ext (af.rename ρ.f) S' ∧ S' (ρ.f a) = true)) ∧
    ((∀ S, σ.Ext af S → S a = true) ↔ (∀ S', σ.Ext (af.rename ρ.f) S' → S' (ρ.f a) = true)) := by
  constructor
  · constructor
    · rintro ⟨S, hS, ha⟩
      exact ⟨imageSet S ρ.g, (ext_rename ρ σ S).2 hS, by unfold imageSet; rw [ρ.gf]; exact ha⟩
    · rintro ⟨S', hS', ha⟩
      rw [← imageSet_surj ρ S'] at hS'
      exact ⟨_, (ext_rename ρ σ _).1 hS', ha⟩
  · constructor
    · intro h S' hS'
      rw [← imageSet_surj ρ S'] at hS'
      exact h _ ((ext_rename ρ σ _).1 hS')
    · intro h S hS
      have := h (imageSet S ρ.g) ((ext_rename ρ σ S).2 hS)
      unfold imageSet at this; rw [ρ.gf] at this; exact this

end Crusta
