import Crusta.Proofs.Assemble
import Crusta.Proofs.StaticAll

/-!
# Locality: adding an unrelated component changes no status of the original framework

`DisjUnion g h g'`: the graph `g'` is the disjoint union of the well-formed graphs `g` and `h`
(no common live argument, the attacks of `g'` are those of `g` and those of `h`), and is finite.

* `DisjUnion.parts`, `restrict_left`, `restrict_right`: `[g.live, h.live]` is a partition of `g'`
  into attack-closed parts whose sub-graphs are `g` and `h` themselves;
* `DisjUnion.ext_iff`: the extensions of `g'` are the unions of an extension of `g` and an
  extension of `h` (all seven semantics);
* `DisjUnion.status_local`: if `h` has an extension, the credulous and the skeptical status of a
  query about arguments of `g` are the same in `g'` and in `g`;
* `DisjUnion.no_ext`, `DisjUnion.status_degenerate`: if `h` has no extension (possible for the
  stable semantics only: `G.exists_ext`), `g'` has none: credulous "no", skeptical "yes";
* `solver_status_local`, `solver_status_local_nonstable`, `solver_status_degenerate`,
  `solver_status_stable_none`: the same on the solver programs.
-/

namespace Crusta

/-- `g'` is the disjoint union of `g` and `h` -/
structure DisjUnion (g h g' : G) : Prop where
  live : ∀ a, g'.live a = (g.live a || h.live a)
  disj : ∀ a, ¬ (g.live a = true ∧ h.live a = true)
  att : ∀ a b, g'.att a b ↔ g.att a b ∨ h.att a b
  wfg : g.WF
  wfh : h.WF
  fin : ∃ n, ∀ a, g'.live a = true → a < n

theorem G.ext_of_eq {g1 g2 : G} (hlive : ∀ a, g1.live a = g2.live a) (hatt : ∀ a b, g1.att a b ↔ g2.att a b) :
    g1 = g2 := by
  cases g1; cases g2
  simp only [G.mk.injEq]
  exact ⟨funext hlive, funext fun a => funext fun b => propext (hatt a b)⟩

namespace DisjUnion

variable {g h g' : G}

/-- the symmetric statement -/
theorem symm (d : DisjUnion g h g') : DisjUnion h g g' where
  live a := by rw [d.live a, Bool.or_comm]
  disj a hh := d.disj a ⟨hh.2, hh.1⟩
  att a b := (d.att a b).trans Or.comm
  wfg := d.wfh
  wfh := d.wfg
  fin := d.fin

theorem live_left (d : DisjUnion g h g') {a : Nat} (ha : g.live a = true) : g'.live a = true := by
  rw [d.live a, ha]; rfl

theorem live_right (d : DisjUnion g h g') {a : Nat} (ha : h.live a = true) : g'.live a = true :=
  d.symm.live_left ha

theorem not_right_of_left (d : DisjUnion g h g') {a : Nat} (ha : g.live a = true) : h.live a = false := by
  cases hh : h.live a with
  | false => rfl
  | true => exact absurd ⟨ha, hh⟩ (d.disj a)

theorem wf (d : DisjUnion g h g') : g'.WF := by
  intro a b hab
  rcases (d.att a b).1 hab with h1 | h1
  · exact ⟨d.live_left (d.wfg a b h1).1, d.live_left (d.wfg a b h1).2⟩
  · exact ⟨d.live_right (d.wfh a b h1).1, d.live_right (d.wfh a b h1).2⟩

theorem fin_left (d : DisjUnion g h g') : ∃ n, ∀ a, g.live a = true → a < n := by
  obtain ⟨n, hn⟩ := d.fin
  exact ⟨n, fun a ha => hn a (d.live_left ha)⟩

theorem fin_right (d : DisjUnion g h g') : ∃ n, ∀ a, h.live a = true → a < n := d.symm.fin_left

/-- no attack of the union relates an argument of `g` and an argument outside `g` -/
theorem closed_left (d : DisjUnion g h g') : g'.ClosedB g.live := by
  intro a b hab
  rcases (d.att a b).1 hab with h1 | h1
  · rw [(d.wfg a b h1).1, (d.wfg a b h1).2]
  · rw [d.symm.not_right_of_left (d.wfh a b h1).1, d.symm.not_right_of_left (d.wfh a b h1).2]

/-- the two summands form a partition of the union into attack-closed parts -/
theorem parts (d : DisjUnion g h g') : Parts g' [g.live, h.live] where
  closed U hU := by
    rcases List.mem_cons.1 hU with rfl | hU
    · exact d.closed_left
    · rcases List.mem_cons.1 hU with rfl | hU
      · exact d.symm.closed_left
      · cases hU
  disjoint := by
    refine List.pairwise_cons.2 ⟨fun V hV => ?_, List.pairwise_cons.2 ⟨fun V hV => (by cases hV), List.Pairwise.nil⟩⟩
    rcases List.mem_cons.1 hV with rfl | hV
    · exact d.disj
    · cases hV
  cover a ha := by
    rw [d.live a, Bool.or_eq_true] at ha
    rcases ha with ha | ha
    · exact ⟨_, List.mem_cons_self, ha⟩
    · exact ⟨_, List.mem_cons_of_mem _ List.mem_cons_self, ha⟩

/-- the sub-graph of the union on the arguments of `g` is `g` -/
theorem restrict_left (d : DisjUnion g h g') : g'.restrict g.live = g := by
  apply G.ext_of_eq
  · intro a
    show (g'.live a && g.live a) = g.live a
    rw [d.live a]
    cases g.live a <;> simp
  · intro a b
    show (g'.att a b ∧ g.live a = true ∧ g.live b = true) ↔ g.att a b
    constructor
    · rintro ⟨hab, ha, _⟩
      rcases (d.att a b).1 hab with h1 | h1
      · exact h1
      · exact absurd ⟨ha, (d.wfh a b h1).1⟩ (d.disj a)
    · intro hab
      exact ⟨(d.att a b).2 (Or.inl hab), d.wfg a b hab⟩

/-- the sub-graph of the union on the arguments of `h` is `h` -/
theorem restrict_right (d : DisjUnion g h g') : g'.restrict h.live = h := d.symm.restrict_left

/-- **the extensions of a disjoint union are the sets whose traces on the two summands are
extensions of the summands**, for all seven semantics -/
theorem ext_iff (d : DisjUnion g h g') (σ : Sem) (S : ASet) (hS : ∀ a, S a = true → g'.live a = true) :
    g'.Ext σ S ↔ (g.Ext σ (inter S g.live) ∧ h.Ext σ (inter S h.live)) := by
  rw [ext_parts d.parts d.fin σ S hS]
  constructor
  · intro hh
    have h1 := hh g.live List.mem_cons_self
    have h2 := hh h.live (List.mem_cons_of_mem _ List.mem_cons_self)
    rw [d.restrict_left] at h1
    rw [d.restrict_right] at h2
    exact ⟨h1, h2⟩
  · rintro ⟨h1, h2⟩ U hU
    rcases List.mem_cons.1 hU with rfl | hU
    · rw [d.restrict_left]; exact h1
    · rcases List.mem_cons.1 hU with rfl | hU
      · rw [d.restrict_right]; exact h2
      · cases hU

theorem inter_union_left (d : DisjUnion g h g') {S T : ASet} (hS : ∀ a, S a = true → g.live a = true)
    (hT : ∀ a, T a = true → h.live a = true) : inter (unionS S T) g.live = S := by
  funext a
  show ((S a || T a) && g.live a) = S a
  cases hSa : S a with
  | true => simp [hS a hSa]
  | false =>
    cases hTa : T a with
    | false => simp
    | true => simp [d.symm.not_right_of_left (hT a hTa)]

theorem inter_union_right (d : DisjUnion g h g') {S T : ASet} (hS : ∀ a, S a = true → g.live a = true)
    (hT : ∀ a, T a = true → h.live a = true) : inter (unionS S T) h.live = T := by
  have hc : unionS S T = unionS T S := by
    funext a
    show (S a || T a) = (T a || S a)
    rw [Bool.or_comm]
  rw [hc]
  exact d.symm.inter_union_left hT hS

/-- the union of an extension of `g` and an extension of `h` is an extension of the disjoint union -/
theorem ext_union (d : DisjUnion g h g') (σ : Sem) {S T : ASet} (hS : g.Ext σ S) (hT : h.Ext σ T) :
    g'.Ext σ (unionS S T) := by
  have hSl := G.ext_sub_live hS
  have hTl := G.ext_sub_live hT
  refine (d.ext_iff σ _ ?_).2 ?_
  · intro a ha
    rcases unionS_true.1 ha with h1 | h1
    · exact d.live_left (hSl a h1)
    · exact d.live_right (hTl a h1)
  · rw [d.inter_union_left hSl hTl, d.inter_union_right hSl hTl]
    exact ⟨hS, hT⟩

/-- the trace on `g` of an extension of the disjoint union is an extension of `g` -/
theorem ext_left (d : DisjUnion g h g') (σ : Sem) {S : ASet} (hS : g'.Ext σ S) : g.Ext σ (inter S g.live) :=
  ((d.ext_iff σ S (G.ext_sub_live hS)).1 hS).1

theorem ext_right (d : DisjUnion g h g') (σ : Sem) {S : ASet} (hS : g'.Ext σ S) : h.Ext σ (inter S h.live) :=
  ((d.ext_iff σ S (G.ext_sub_live hS)).1 hS).2

/-- a query about arguments of `g` only sees the trace on `g` -/
theorem hitsL_inter {args : List Nat} {U : Nat → Bool} (hargs : ∀ a ∈ args, U a = true) (S : ASet) :
    HitsL args (inter S U) ↔ HitsL args S := by
  constructor
  · rintro ⟨a, ha, hSa⟩
    exact ⟨a, ha, ((inter_true S U a).1 hSa).1⟩
  · rintro ⟨a, ha, hSa⟩
    exact ⟨a, ha, (inter_true S U a).2 ⟨hSa, hargs a ha⟩⟩

theorem hitsL_union_left (d : DisjUnion g h g') {args : List Nat} (hargs : ∀ a ∈ args, g.live a = true)
    {S T : ASet} (hT : ∀ a, T a = true → h.live a = true) : HitsL args (unionS S T) ↔ HitsL args S := by
  constructor
  · rintro ⟨a, ha, hSa⟩
    refine ⟨a, ha, ?_⟩
    rcases unionS_true.1 hSa with h1 | h1
    · exact h1
    · exact absurd ⟨hargs a ha, hT a h1⟩ (d.disj a)
  · rintro ⟨a, ha, hSa⟩
    refine ⟨a, ha, ?_⟩
    show (S a || T a) = true
    rw [hSa]; rfl

/-- **locality of the statuses**: if the added component `h` has a `σ`-extension, a list of
arguments of `g` has the same credulous and the same skeptical status in `g'` and in `g` -/
theorem status_local (d : DisjUnion g h g') (σ : Sem) (hex : ∃ T, h.Ext σ T) (args : List Nat)
    (hargs : ∀ a ∈ args, g.live a = true) :
    ((∃ S, g'.Ext σ S ∧ HitsL args S) ↔ (∃ S, g.Ext σ S ∧ HitsL args S)) ∧
    ((∀ S, g'.Ext σ S → HitsL args S) ↔ (∀ S, g.Ext σ S → HitsL args S)) := by
  obtain ⟨T, hT⟩ := hex
  have hTl := G.ext_sub_live hT
  constructor
  · constructor
    · rintro ⟨S, hS, hh⟩
      exact ⟨_, d.ext_left σ hS, (hitsL_inter hargs S).2 hh⟩
    · rintro ⟨S, hS, hh⟩
      exact ⟨_, d.ext_union σ hS hT, (d.hitsL_union_left hargs hTl).2 hh⟩
  · constructor
    · intro hall S hS
      exact (d.hitsL_union_left hargs hTl).1 (hall _ (d.ext_union σ hS hT))
    · intro hall S hS
      exact (hitsL_inter hargs S).1 (hall _ (d.ext_left σ hS))

/-- if the added component has no `σ`-extension, neither has the union -/
theorem no_ext (d : DisjUnion g h g') (σ : Sem) (hno : ¬ ∃ T, h.Ext σ T) : ¬ ∃ S, g'.Ext σ S := by
  rintro ⟨S, hS⟩
  exact hno ⟨_, d.ext_right σ hS⟩

/-- the union has an extension iff both summands have one -/
theorem exists_ext_iff (d : DisjUnion g h g') (σ : Sem) :
    (∃ S, g'.Ext σ S) ↔ ((∃ S, g.Ext σ S) ∧ ∃ T, h.Ext σ T) := by
  constructor
  · rintro ⟨S, hS⟩
    exact ⟨⟨_, d.ext_left σ hS⟩, ⟨_, d.ext_right σ hS⟩⟩
  · rintro ⟨⟨S, hS⟩, ⟨T, hT⟩⟩
    exact ⟨_, d.ext_union σ hS hT⟩

/-- **the degenerate case**: if the added component has no `σ`-extension, every credulous status
in the union is "no" and every skeptical status is (vacuously) "yes" — whatever they were in `g` -/
theorem status_degenerate (d : DisjUnion g h g') (σ : Sem) (hno : ¬ ∃ T, h.Ext σ T) (args : List Nat) :
    (¬ ∃ S, g'.Ext σ S ∧ HitsL args S) ∧ (∀ S, g'.Ext σ S → HitsL args S) :=
  ⟨fun ⟨S, hS, _⟩ => d.no_ext σ hno ⟨S, hS⟩, fun S hS => absurd ⟨S, hS⟩ (d.no_ext σ hno)⟩

end DisjUnion

/-! ## existence of extensions in a finite well-formed graph (every semantics but the stable one) -/

/-- in a finite graph every member of a family of sets of live arguments lies below a ⊆-maximal one -/
theorem G.exists_subMax (g : G) (hfin : ∃ n, ∀ a, g.live a = true → a < n) (B : ASet → Prop)
    (hB : ∀ S, B S → ∀ a, S a = true → g.live a = true) (S : ASet) (hS : B S) :
    ∃ M, B M ∧ SubsetS S M ∧ ∀ T, B T → SubsetS M T → SubsetS T M := by
  obtain ⟨n, hn⟩ := hfin
  suffices H : ∀ k (S : ASet), B S → n - (List.range n).countP S < k →
      ∃ M, B M ∧ SubsetS S M ∧ ∀ T, B T → SubsetS M T → SubsetS T M from H _ S hS (Nat.lt_succ_self _)
  intro k
  induction k with
  | zero => intro S _ h; omega
  | succ k ih =>
    intro S hS hk
    by_cases hmax : ∀ T, B T → SubsetS S T → SubsetS T S
    · exact ⟨S, hS, fun _ h => h, hmax⟩
    · obtain ⟨T, hT⟩ := Classical.not_forall.1 hmax
      obtain ⟨hTB, hT⟩ := Classical.not_imp.1 hT
      obtain ⟨hST, hT⟩ := Classical.not_imp.1 hT
      obtain ⟨a, ha⟩ := Classical.not_forall.1 hT
      obtain ⟨hTa, hSa⟩ := Classical.not_imp.1 ha
      have hSa' : S a = false := by simpa using hSa
      have halt : a < n := hn a (hB T hTB a hTa)
      have hlt := countP_lt_of S T hST a hTa hSa' (List.range n) (List.mem_range.2 halt)
      have hle : (List.range n).countP T ≤ n := by
        have := List.countP_le_length (p := T) (l := List.range n)
        simpa using this
      obtain ⟨M, hM, hTM, hmaxM⟩ := ih T hTB (by omega)
      exact ⟨M, hM, fun b hb => hTM b (hST b hb), hmaxM⟩

theorem addArg_true (S : ASet) (x a : Nat) : addArg S x a = true ↔ (S a = true ∨ a = x) := by
  simp [addArg]

/-- the fundamental lemma: an admissible set stays admissible when an argument it defends is added -/
theorem G.admissible_addArg {g : G} {S : ASet} (hS : g.Admissible S) {x : Nat} (hx : g.live x = true)
    (hd : g.Defended S x) : g.Admissible (addArg S x) := by
  have hcf : ∀ c, S c = true → ¬ g.AttackedBy S c := hS.1.2
  -- nothing in `S` attacks `x`, and `x` attacks nothing in `S` nor itself
  have hnox : ¬ g.AttackedBy S x := by
    rintro ⟨c, hcx, hc⟩
    exact hcf c hc (hd c hcx)
  have hmono : ∀ a, g.AttackedBy S a → g.AttackedBy (addArg S x) a := by
    rintro a ⟨b, hba, hb⟩
    exact ⟨b, hba, (addArg_true S x b).2 (Or.inl hb)⟩
  have hxatt : ∀ a, g.att x a → (S a = true ∨ a = x) → False := by
    intro a hxa ha
    rcases ha with ha | rfl
    · exact hnox (hS.2 a ha x hxa)
    · exact hnox (hd a hxa)
  refine ⟨⟨?_, ?_⟩, ?_⟩
  · intro a ha
    rcases (addArg_true S x a).1 ha with ha | rfl
    · exact hS.1.1 a ha
    · exact hx
  · rintro a ha ⟨b, hba, hb⟩
    have ha' := (addArg_true S x a).1 ha
    rcases (addArg_true S x b).1 hb with hb' | hbx
    · rcases ha' with ha' | hax
      · exact hcf a ha' ⟨b, hba, hb'⟩
      · exact hnox ⟨b, hax ▸ hba, hb'⟩
    · exact hxatt a (hbx ▸ hba) ha'
  · intro a ha b hba
    rcases (addArg_true S x a).1 ha with ha | rfl
    · exact hmono b (hS.2 a ha b hba)
    · exact hmono b (hd b hba)

/-- every finite graph has a grounded extension: a ⊆-maximal admissible set included in every
complete extension is complete -/
theorem G.exists_grounded (g : G) (hfin : ∃ n, ∀ a, g.live a = true → a < n) : ∃ S, g.Grounded S := by
  let B : ASet → Prop := fun S => g.Admissible S ∧ ∀ T, g.Complete T → SubsetS S T
  have h0 : B (fun _ => false) := ⟨g.admissible_empty, fun _ _ a ha => by cases ha⟩
  obtain ⟨M, hM, _, hmax⟩ := g.exists_subMax hfin B (fun S h => h.1.1.1) _ h0
  refine ⟨M, ⟨hM.1, fun x hx hd => ?_⟩, hM.2⟩
  have hB' : B (addArg M x) := by
    refine ⟨G.admissible_addArg hM.1 hx hd, fun T hT a ha => ?_⟩
    rcases (addArg_true M x a).1 ha with ha | rfl
    · exact hM.2 T hT a ha
    · refine hT.2 a hx (fun b hba => ?_)
      obtain ⟨c, hcb, hc⟩ := hd b hba
      exact ⟨c, hcb, hM.2 T hT c hc⟩
  exact hmax _ hB' (fun a ha => (addArg_true M x a).2 (Or.inl ha)) x ((addArg_true M x x).2 (Or.inr rfl))

/-- every finite well-formed graph has a semi-stable extension -/
theorem G.exists_semistable_fin (g : G) (hwf : g.WF) (hfin : ∃ n, ∀ a, g.live a = true → a < n) :
    ∃ S, g.SemiStable S := by
  obtain ⟨S0, h0, _⟩ := g.exists_grounded hfin
  obtain ⟨M, hM, _, hmax⟩ := g.exists_rangeMax hwf hfin g.Complete (fun S h => h.1.1.1) _ h0
  exact ⟨M, hM, hmax⟩

/-- **a finite well-formed graph has an extension for every semantics but the stable one** -/
theorem G.exists_ext (g : G) (hwf : g.WF) (hfin : ∃ n, ∀ a, g.live a = true → a < n) (σ : Sem) (hσ : σ ≠ .ST) :
    ∃ S, g.Ext σ S := by
  cases σ with
  | GR => exact g.exists_grounded hfin
  | CO =>
    obtain ⟨S, hS, _⟩ := g.exists_grounded hfin
    exact ⟨S, hS⟩
  | PR => exact g.exists_preferred hfin
  | ST => exact absurd rfl hσ
  | SST => exact g.exists_semistable_fin hwf hfin
  | STG => exact g.exists_stage hwf hfin
  | ID => exact g.exists_ideal hfin

/-- locality without side condition for the six semantics that always have an extension -/
theorem DisjUnion.status_local_nonstable {g h g' : G} (d : DisjUnion g h g') (σ : Sem) (hσ : σ ≠ .ST)
    (args : List Nat) (hargs : ∀ a ∈ args, g.live a = true) :
    ((∃ S, g'.Ext σ S ∧ HitsL args S) ↔ (∃ S, g.Ext σ S ∧ HitsL args S)) ∧
    ((∀ S, g'.Ext σ S → HitsL args S) ↔ (∀ S, g.Ext σ S → HitsL args S)) :=
  d.status_local σ (h.exists_ext d.wfh d.fin_right σ hσ) args hargs

/-! ## on the solver programs -/

/-- two conforming answers, one on `g` and one on the disjoint union of `g` and a component that has
an extension, to the same query about arguments of `g`, have the same status -/
theorem status_determined_local (σ : Sem) {g h g' : G} (d : DisjUnion g h g') (hex : ∃ T, h.Ext σ T)
    (args : List Nat) (hargs : ∀ a ∈ args, g.live a = true) (c1 c2 : Bool) (a1 a2 : AccAns) :
    (DCOK σ g args c1 a1 → DCOK σ g' args c2 a2 → a1.status = a2.status) ∧
    (DSOK σ g args c1 a1 → DSOK σ g' args c2 a2 → a1.status = a2.status) := by
  have hst := d.status_local σ hex args hargs
  simp only [← gext_iff] at hst
  constructor
  · intro h1 h2
    cases hs1 : a1.status <;> cases hs2 : a2.status
    · rfl
    · exact absurd (hst.1.1 (h2.1 hs2).1) (h1.2 hs1).1
    · exact absurd (hst.1.2 (h1.1 hs1).1) (h2.2 hs2).1
    · rfl
  · intro h1 h2
    cases hs1 : a1.status <;> cases hs2 : a2.status
    · rfl
    · obtain ⟨S, hS, hn⟩ := (h1.2 hs1).1
      exact absurd (hst.2.1 (h2.1 hs2).1 S hS) hn
    · obtain ⟨S, hS, hn⟩ := (h2.2 hs2).1
      exact absurd (hst.2.2 (h1.1 hs1).1 S hS) hn
    · rfl

/-- **locality on the solver programs**: a view presenting `g` and a view presenting the disjoint
union `g'` of `g` and an unrelated component `h` that has an extension, both queried on the same
arguments of `g`, give the same credulous and the same skeptical status — for every solver type,
admissible encoders, sound reply lists, with or without certificate, whatever the histories of the
two views -/
theorem solver_status_local (sk : SolverKind) (v1 v2 : FwView) (g h g' : G)
    (hv1 : v1.Ok g) (hv2 : v2.Ok g') (d : DisjUnion g h g') (hex : ∃ T, h.Ext sk.sem T)
    (args : List Nat) (hargs : ∀ a ∈ args, g.live a = true)
    (cfg1 cfg2 : Cfg) (h1 : CfgOK sk cfg1) (h2 : CfgOK sk cfg2) (c1 c2 : Bool)
    (w1 w2 : World) (hb1 : w1.Bounded) (hb2 : w2.Bounded) (rs1 rs2 : List Reply)
    (a1 a2 : AccAns) (cv1 cv2 : Bool) (w1' w2' : World) :
    (∀ p1 p2, entryProg sk cfg1 v1 (.dc c1 args) = some p1 → entryProg sk cfg2 v2 (.dc c2 args) = some p2 →
      RunSound p1 rs1 w1 → RunSound p2 rs2 w2 →
      interp p1 rs1 w1 = (.done (.acc a1 cv1), w1') → interp p2 rs2 w2 = (.done (.acc a2 cv2), w2') →
      a1.status = a2.status) ∧
    (∀ p1 p2, entryProg sk cfg1 v1 (.ds c1 args) = some p1 → entryProg sk cfg2 v2 (.ds c2 args) = some p2 →
      RunSound p1 rs1 w1 → RunSound p2 rs2 w2 →
      interp p1 rs1 w1 = (.done (.acc a1 cv1), w1') → interp p2 rs2 w2 = (.done (.acc a2 cv2), w2') →
      a1.status = a2.status) := by
  have hargs2 : ∀ x ∈ args, g'.live x = true := fun x hx => d.live_left (hargs x hx)
  constructor
  · intro p1 p2 hp1 hp2 hs1 hs2 hr1 hr2
    obtain ⟨_, hd1, _⟩ := static_answers_conform sk cfg1 h1 v1 g hv1 (.dc c1 args)
      (fun x hx => hargs x hx) p1 hp1 w1 hb1 rs1 hs1 _ w1' hr1
    obtain ⟨_, hd2, _⟩ := static_answers_conform sk cfg2 h2 v2 g' hv2 (.dc c2 args)
      (fun x hx => hargs2 x hx) p2 hp2 w2 hb2 rs2 hs2 _ w2' hr2
    exact (status_determined_local sk.sem d hex args hargs c1 c2 a1 a2).1 hd1 hd2
  · intro p1 p2 hp1 hp2 hs1 hs2 hr1 hr2
    obtain ⟨_, hd1, _⟩ := static_answers_conform sk cfg1 h1 v1 g hv1 (.ds c1 args)
      (fun x hx => hargs x hx) p1 hp1 w1 hb1 rs1 hs1 _ w1' hr1
    obtain ⟨_, hd2, _⟩ := static_answers_conform sk cfg2 h2 v2 g' hv2 (.ds c2 args)
      (fun x hx => hargs2 x hx) p2 hp2 w2 hb2 rs2 hs2 _ w2' hr2
    exact (status_determined_local sk.sem d hex args hargs c1 c2 a1 a2).2 hd1 hd2

theorem SolverKind.sem_ne_st {sk : SolverKind} (h : sk ≠ .ST) : sk.sem ≠ .ST := by
  cases sk <;> first | exact absurd rfl h | (intro hh; cases hh)

/-- for the six solver types other than the stable one the added component always has an extension:
locality holds without side condition -/
theorem solver_status_local_nonstable (sk : SolverKind) (hsk : sk ≠ .ST) (v1 v2 : FwView) (g h g' : G)
    (hv1 : v1.Ok g) (hv2 : v2.Ok g') (d : DisjUnion g h g')
    (args : List Nat) (hargs : ∀ a ∈ args, g.live a = true)
    (cfg1 cfg2 : Cfg) (h1 : CfgOK sk cfg1) (h2 : CfgOK sk cfg2) (c1 c2 : Bool)
    (w1 w2 : World) (hb1 : w1.Bounded) (hb2 : w2.Bounded) (rs1 rs2 : List Reply)
    (a1 a2 : AccAns) (cv1 cv2 : Bool) (w1' w2' : World) :
    (∀ p1 p2, entryProg sk cfg1 v1 (.dc c1 args) = some p1 → entryProg sk cfg2 v2 (.dc c2 args) = some p2 →
      RunSound p1 rs1 w1 → RunSound p2 rs2 w2 →
      interp p1 rs1 w1 = (.done (.acc a1 cv1), w1') → interp p2 rs2 w2 = (.done (.acc a2 cv2), w2') →
      a1.status = a2.status) ∧
    (∀ p1 p2, entryProg sk cfg1 v1 (.ds c1 args) = some p1 → entryProg sk cfg2 v2 (.ds c2 args) = some p2 →
      RunSound p1 rs1 w1 → RunSound p2 rs2 w2 →
      interp p1 rs1 w1 = (.done (.acc a1 cv1), w1') → interp p2 rs2 w2 = (.done (.acc a2 cv2), w2') →
      a1.status = a2.status) :=
  solver_status_local sk v1 v2 g h g' hv1 hv2 d (h.exists_ext d.wfh d.fin_right sk.sem (SolverKind.sem_ne_st hsk))
    args hargs cfg1 cfg2 h1 h2 c1 c2 w1 w2 hb1 hb2 rs1 rs2 a1 a2 cv1 cv2 w1' w2'

/-- **the degenerate case on the solver programs**: if the added component has no extension, the
solver on the union answers "no" to every credulous query and "yes" to every skeptical query about
arguments of `g` (whatever the answers on `g` alone) -/
theorem solver_status_degenerate (sk : SolverKind) (v2 : FwView) (g h g' : G)
    (hv2 : v2.Ok g') (d : DisjUnion g h g') (hno : ¬ ∃ T, h.Ext sk.sem T)
    (args : List Nat) (hargs : ∀ a ∈ args, g.live a = true)
    (cfg2 : Cfg) (h2 : CfgOK sk cfg2) (c2 : Bool)
    (w2 : World) (hb2 : w2.Bounded) (rs2 : List Reply) (a2 : AccAns) (cv2 : Bool) (w2' : World) :
    (∀ p2, entryProg sk cfg2 v2 (.dc c2 args) = some p2 → RunSound p2 rs2 w2 →
      interp p2 rs2 w2 = (.done (.acc a2 cv2), w2') → a2.status = false) ∧
    (∀ p2, entryProg sk cfg2 v2 (.ds c2 args) = some p2 → RunSound p2 rs2 w2 →
      interp p2 rs2 w2 = (.done (.acc a2 cv2), w2') → a2.status = true) := by
  have hargs2 : ∀ x ∈ args, g'.live x = true := fun x hx => d.live_left (hargs x hx)
  have hnone : ¬ ∃ S, sk.sem.GExt g' S := by
    simp only [gext_iff]
    exact d.no_ext sk.sem hno
  constructor
  · intro p2 hp2 hs2 hr2
    obtain ⟨_, hd2, _⟩ := static_answers_conform sk cfg2 h2 v2 g' hv2 (.dc c2 args)
      (fun x hx => hargs2 x hx) p2 hp2 w2 hb2 rs2 hs2 _ w2' hr2
    cases hs : a2.status with
    | false => rfl
    | true =>
      obtain ⟨S, hS, _⟩ := (hd2.1 hs).1
      exact absurd ⟨S, hS⟩ hnone
  · intro p2 hp2 hs2 hr2
    obtain ⟨_, hd2, _⟩ := static_answers_conform sk cfg2 h2 v2 g' hv2 (.ds c2 args)
      (fun x hx => hargs2 x hx) p2 hp2 w2 hb2 rs2 hs2 _ w2' hr2
    cases hs : a2.status with
    | true => rfl
    | false =>
      obtain ⟨S, hS, _⟩ := (hd2.2 hs).1
      exact absurd ⟨S, hS⟩ hnone

/-- **the stable semantics**: adding a component without stable extension (an odd cycle, say) makes
the stable solver answer "no" to every credulous query and "yes" to every skeptical one -/
theorem solver_status_stable_none (v2 : FwView) (g h g' : G)
    (hv2 : v2.Ok g') (d : DisjUnion g h g') (hno : ¬ ∃ T, h.Ext .ST T)
    (args : List Nat) (hargs : ∀ a ∈ args, g.live a = true)
    (cfg2 : Cfg) (c2 : Bool)
    (w2 : World) (hb2 : w2.Bounded) (rs2 : List Reply) (a2 : AccAns) (cv2 : Bool) (w2' : World) :
    (∀ p2, entryProg .ST cfg2 v2 (.dc c2 args) = some p2 → RunSound p2 rs2 w2 →
      interp p2 rs2 w2 = (.done (.acc a2 cv2), w2') → a2.status = false) ∧
    (∀ p2, entryProg .ST cfg2 v2 (.ds c2 args) = some p2 → RunSound p2 rs2 w2 →
      interp p2 rs2 w2 = (.done (.acc a2 cv2), w2') → a2.status = true) :=
  solver_status_degenerate .ST v2 g h g' hv2 d hno args hargs cfg2 trivial c2 w2 hb2 rs2 a2 cv2 w2'

/-! ## non-vacuity of the degenerate case: adding one self-attacking argument -/

/-- the graph with the single argument `k`, attacking itself -/
def G.selfLoop (k : Nat) : G := ⟨fun a => decide (a = k), fun a b => a = k ∧ b = k⟩

/-- it has no stable extension -/
theorem G.selfLoop_no_stable (k : Nat) : ¬ ∃ T, (G.selfLoop k).Ext .ST T := by
  rintro ⟨T, hcf, hst⟩
  cases hT : T k with
  | true => exact hcf.2 k hT ⟨k, ⟨rfl, rfl⟩, hT⟩
  | false =>
    obtain ⟨b, ⟨hb, _⟩, hTb⟩ := hst k (by simp [G.selfLoop]) hT
    rw [hb, hT] at hTb
    cases hTb

/-- `g` with a fresh self-attacking argument `k` added -/
def G.addSelfLoop (g : G) (k : Nat) : G :=
  ⟨fun a => g.live a || decide (a = k), fun a b => g.att a b ∨ (a = k ∧ b = k)⟩

/-- every finite well-formed graph, with a fresh self-attacking argument added, is a disjoint union
whose second summand has no stable extension -/
theorem G.addSelfLoop_disjUnion (g : G) (hwf : g.WF) (hfin : ∃ n, ∀ a, g.live a = true → a < n) (k : Nat)
    (hk : g.live k = false) : DisjUnion g (G.selfLoop k) (g.addSelfLoop k) where
  live _ := rfl
  disj a := by
    rintro ⟨h1, h2⟩
    have : a = k := by simpa [G.selfLoop] using h2
    rw [this, hk] at h1
    cases h1
  att _ _ := Iff.rfl
  wfg := hwf
  wfh := by
    rintro a b ⟨rfl, rfl⟩
    simp [G.selfLoop]
  fin := by
    obtain ⟨n, hn⟩ := hfin
    refine ⟨max n (k + 1), fun a ha => ?_⟩
    rcases Bool.or_eq_true_iff.1 ha with h1 | h1
    · have := hn a h1
      omega
    · have : a = k := by simpa using h1
      omega

end Crusta
