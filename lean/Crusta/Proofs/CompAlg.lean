import Crusta.Proofs.ViewSpec

/-!
# Correctness of the connected-components algorithm (`ConnectedComponentsComputer`)

`CCInv` is the invariant of the marking state between two component searches.  `CC.find` (explicit
stack depth-first search over the undirected attack graph) is shown to mark exactly one union of
weakly connected components containing its start argument, `extractComp` never panics on such a set,
and the iteration `allComps` partitions the live arguments into good components.
-/

namespace Crusta

/-! ## list facts -/

theorem getD_set_true (l : List Bool) (i a : Nat) :
    (l.set i true).getD a false = true ↔ ((a = i ∧ i < l.length) ∨ l.getD a false = true) := by
  simp only [List.getD_eq_getElem?_getD, List.getElem?_set]
  by_cases hia : i = a
  · subst hia
    by_cases hl : i < l.length
    · simp [hl]
    · simp [hl]
  · have : ¬ a = i := fun h => hia h.symm
    simp [hia, this]

theorem getD_lt_of_true (l : List Bool) (a : Nat) (h : l.getD a false = true) : a < l.length := by
  by_cases hl : a < l.length
  · exact hl
  · simp [List.getD_eq_getElem?_getD, List.getElem?_eq_none (Nat.le_of_not_lt hl)] at h

theorem count_false_set (l : List Bool) (i : Nat) (hi : i < l.length) (hf : l.getD i false = false) :
    (l.set i true).count false + 1 = l.count false := by
  induction l generalizing i with
  | nil => simp at hi
  | cons x xs ih =>
    cases i with
    | zero =>
      simp at hf
      subst hf
      simp
    | succ i =>
      simp at hi hf
      have := ih i hi (by simpa [List.getD_eq_getElem?_getD] using hf)
      cases x <;> simp <;> omega

/-- pointwise more marks: fewer `false` slots -/
theorem count_false_mono : ∀ (l1 l2 : List Bool), l1.length = l2.length →
    (∀ a, l1.getD a false = true → l2.getD a false = true) → l2.count false ≤ l1.count false
  | [], [], _, _ => by simp
  | [], _ :: _, h, _ => by simp at h
  | _ :: _, [], h, _ => by simp at h
  | x :: xs, y :: ys, hl, h => by
    have ih := count_false_mono xs ys (by simpa using hl) (fun a ha => by
      have := h (a + 1) (by simpa using ha)
      simpa using this)
    have h0 := h 0
    simp at h0
    cases x <;> cases y <;> simp at h0 ⊢ <;> omega

theorem count_false_lt : ∀ (l1 l2 : List Bool), l1.length = l2.length →
    (∀ a, l1.getD a false = true → l2.getD a false = true) →
    (∃ a, l1.getD a false = false ∧ l2.getD a false = true) → l2.count false < l1.count false
  | [], [], _, _, ⟨a, _, h2⟩ => by simp at h2
  | [], _ :: _, h, _, _ => by simp at h
  | _ :: _, [], h, _, _ => by simp at h
  | x :: xs, y :: ys, hl, h, ⟨a, h1, h2⟩ => by
    have hl' : xs.length = ys.length := by simpa using hl
    have h' : ∀ a, xs.getD a false = true → ys.getD a false = true := fun a ha => by
      have := h (a + 1) (by simpa using ha)
      simpa using this
    have hm := count_false_mono xs ys hl' h'
    have h0 := h 0
    simp at h0
    cases a with
    | zero =>
      simp at h1 h2
      subst h1 h2
      simp
      omega
    | succ a =>
      have ih := count_false_lt xs ys hl' h' ⟨a, by simpa using h1, by simpa using h2⟩
      cases x <;> cases y <;> simp at h0 ⊢ <;> omega

/-! ## `posOf` -/

theorem posOf_some (l : List Nat) (a i : Nat) (h : posOf l a = some i) : l[i]? = some a := by
  induction l generalizing i with
  | nil => simp [posOf] at h
  | cons x xs ih =>
    simp only [posOf, List.findIdx?_cons] at h
    by_cases hx : (x == a) = true
    · simp [hx] at h
      subst h
      simpa using hx
    · simp [hx] at h
      obtain ⟨j, hj, rfl⟩ := h
      simpa using ih j hj

theorem posOf_of_mem (l : List Nat) (a : Nat) (h : a ∈ l) : ∃ i, posOf l a = some i := by
  induction l with
  | nil => simp at h
  | cons x xs ih =>
    simp only [posOf, List.findIdx?_cons]
    by_cases hx : (x == a) = true
    · exact ⟨0, by simp [hx]⟩
    · have hne : a ≠ x := fun e => hx (by simp [e])
      have hm : a ∈ xs := by
        rcases List.mem_cons.1 h with e | e
        · exact absurd e hne
        · exact e
      obtain ⟨j, hj⟩ := ih hm
      exact ⟨j + 1, by simp only [posOf] at hj; simp [hx, hj]⟩

theorem posOf_nodup (l : List Nat) (a i : Nat) (hnd : l.Nodup) (h : l[i]? = some a) :
    posOf l a = some i := by
  induction l generalizing i with
  | nil => simp at h
  | cons x xs ih =>
    simp only [posOf, List.findIdx?_cons]
    have hnd' := List.nodup_cons.1 hnd
    cases i with
    | zero =>
      simp at h
      simp [h]
    | succ i =>
      simp at h
      have hm : a ∈ xs := List.mem_of_getElem? h
      have hx : ¬ (x == a) = true := by
        intro e
        have : x = a := by simpa using e
        exact hnd'.1 (this ▸ hm)
      have := ih i hnd'.2 h
      simp only [posOf] at this
      simp [hx, this]

theorem mem_of_posOf (l : List Nat) (a i : Nat) (h : posOf l a = some i) : a ∈ l :=
  List.mem_of_getElem? (posOf_some l a i h)

/-! ## the pointer `next` -/

/-- every slot before `next` is marked or dead -/
structure NextW (g : G) (cc : CC) : Prop where
  next_le : cc.next ≤ cc.inCC.length
  before : ∀ i, i < cc.next → cc.inCC.getD i false = true ∨ g.live i = false

/-- … and `next` is at the end or on a live unmarked slot -/
structure NextS (g : G) (cc : CC) : Prop where
  next_le : cc.next ≤ cc.inCC.length
  before : ∀ i, i < cc.next → cc.inCC.getD i false = true ∨ g.live i = false
  at_next : cc.next < cc.inCC.length → cc.inCC.getD cc.next false = false ∧ g.live cc.next = true

theorem NextS.weak {g : G} {cc : CC} (h : NextS g cc) : NextW g cc := ⟨h.next_le, h.before⟩

theorem updateNext_go_spec (v : FwView) (g : G) (hl : ∀ a, v.isLive a = g.live a) (cc : CC) :
    ∀ fuel n, n ≤ cc.inCC.length → cc.inCC.length < n + fuel →
      n ≤ CC.updateNext.go v cc fuel n ∧ CC.updateNext.go v cc fuel n ≤ cc.inCC.length ∧
      (∀ i, n ≤ i → i < CC.updateNext.go v cc fuel n → cc.inCC.getD i false = true ∨ g.live i = false) ∧
      (CC.updateNext.go v cc fuel n < cc.inCC.length →
        cc.inCC.getD (CC.updateNext.go v cc fuel n) false = false ∧
        g.live (CC.updateNext.go v cc fuel n) = true) := by
  intro fuel
  induction fuel with
  | zero => intro n h1 h2; omega
  | succ fuel ih =>
    intro n h1 h2
    unfold CC.updateNext.go
    by_cases hc : (decide (n < cc.inCC.length) && (cc.inCC.getD n false || !v.isLive n)) = true
    · rw [if_pos hc]
      simp only [Bool.and_eq_true, decide_eq_true_eq, Bool.or_eq_true, Bool.not_eq_true', hl] at hc
      obtain ⟨r1, r2, r3, r4⟩ := ih (n + 1) (by omega) (by omega)
      refine ⟨by omega, r2, ?_, r4⟩
      intro i hi1 hi2
      by_cases hin : i = n
      · subst hin; exact hc.2
      · exact r3 i (by omega) hi2
    · rw [if_neg hc]
      refine ⟨Nat.le_refl _, h1, fun i a b => by omega, ?_⟩
      intro hlt
      simp only [Bool.and_eq_true, decide_eq_true_eq, Bool.or_eq_true, Bool.not_eq_true', hl] at hc
      have : ¬ (cc.inCC.getD n false = true ∨ g.live n = false) := fun h => hc ⟨hlt, h⟩
      constructor
      · cases hh : cc.inCC.getD n false
        · rfl
        · exact absurd (Or.inl hh) this
      · cases hh : g.live n
        · exact absurd (Or.inr hh) this
        · rfl

@[simp] theorem updateNext_inCC (v : FwView) (cc : CC) : (CC.updateNext v cc).inCC = cc.inCC := rfl

theorem updateNext_nextS (v : FwView) (g : G) (hl : ∀ a, v.isLive a = g.live a) (cc : CC)
    (h : NextW g cc) : NextS g (CC.updateNext v cc) := by
  obtain ⟨r1, r2, r3, r4⟩ := updateNext_go_spec v g hl cc (cc.inCC.length + 1) cc.next h.next_le (by omega)
  refine ⟨r2, ?_, r4⟩
  intro i hi
  by_cases hin : i < cc.next
  · exact h.before i hin
  · exact r3 i (by omega) hi

theorem set_nextW (g : G) (cc : CC) (nb : Nat) (h : NextW g cc) :
    NextW g { cc with inCC := cc.inCC.set nb true } := by
  refine ⟨by simpa using h.next_le, ?_⟩
  intro i hi
  rcases h.before i hi with h1 | h1
  · exact Or.inl ((getD_set_true _ _ _).2 (Or.inr h1))
  · exact Or.inr h1

theorem set_nextS_ne (g : G) (cc : CC) (nb : Nat) (h : NextS g cc) (hne : cc.next ≠ nb) :
    NextS g { cc with inCC := cc.inCC.set nb true } := by
  have hw := set_nextW g cc nb h.weak
  refine ⟨hw.next_le, hw.before, ?_⟩
  intro hlt
  have hlt' : cc.next < cc.inCC.length := by simpa using hlt
  obtain ⟨h1, h2⟩ := h.at_next hlt'
  refine ⟨?_, h2⟩
  cases hh : ((cc.inCC.set nb true).getD cc.next false)
  · rfl
  · rcases (getD_set_true _ _ _).1 hh with ⟨e, _⟩ | e
    · exact absurd e hne
    · exact absurd (h1.symm.trans e) (by decide)

/-- the marking step of the search keeps the pointer right -/
theorem mark_nextS (v : FwView) (g : G) (hl : ∀ a, v.isLive a = g.live a) (cc : CC) (nb : Nat)
    (h : NextS g cc) :
    NextS g (if ({ cc with inCC := cc.inCC.set nb true } : CC).next == nb
      then CC.updateNext v { cc with inCC := cc.inCC.set nb true }
      else { cc with inCC := cc.inCC.set nb true }) := by
  by_cases he : cc.next = nb
  · subst he
    simp only [beq_self_eq_true, if_true]
    exact updateNext_nextS v g hl _ (set_nextW g cc cc.next h.weak)
  · have : ¬ ((cc.next == nb) = true) := by simpa using he
    simp only [this]
    exact set_nextS_ne g cc nb h he

/-! ## the invariant between two searches -/

/-- invariant of the marking state between two component searches: `marked` is the set of marked
ids, it is closed under the attack relation (both directions), the vector has one slot per id, and
`next` points to the smallest live unmarked id (or to the end) -/
structure CCInv (v : FwView) (g : G) (cc : CC) (marked : Nat → Prop) : Prop where
  len : cc.inCC.length = 1 + v.maxId.getD 0
  mark : ∀ a, marked a ↔ cc.inCC.getD a false = true
  closed : ∀ a b, g.att a b → (marked a ↔ marked b)
  next_le : cc.next ≤ cc.inCC.length
  before : ∀ i, i < cc.next → marked i ∨ g.live i = false
  at_next : cc.next < cc.inCC.length → ¬ marked cc.next ∧ g.live cc.next = true

theorem CCInv.nextS {v : FwView} {g : G} {cc : CC} {marked : Nat → Prop} (h : CCInv v g cc marked) :
    NextS g cc := by
  refine ⟨h.next_le, ?_, ?_⟩
  · intro i hi
    rcases h.before i hi with h1 | h1
    · exact Or.inl ((h.mark i).1 h1)
    · exact Or.inr h1
  · intro hlt
    obtain ⟨h1, h2⟩ := h.at_next hlt
    refine ⟨?_, h2⟩
    cases hh : cc.inCC.getD cc.next false
    · rfl
    · exact absurd ((h.mark _).2 hh) h1

theorem live_lt_len {v : FwView} {g : G} (h : v.Ok g) {cc : CC}
    (hlen : cc.inCC.length = 1 + v.maxId.getD 0) {a : Nat} (ha : g.live a = true) :
    a < cc.inCC.length := by
  obtain ⟨m, hm, hle⟩ := h.maxId_ge a ha
  rw [hlen, hm]
  simp
  omega

theorem CC.new_inv (v : FwView) (g : G) (h : v.Ok g) : CCInv v g (CC.new v) (fun _ => False) := by
  have hs : NextS g (CC.new v) := by
    unfold CC.new
    apply updateNext_nextS v g h.isLive
    exact ⟨by simp, fun i hi => by simp at hi⟩
  have hin : (CC.new v).inCC = List.replicate (1 + v.maxId.getD 0) false := rfl
  have hget : ∀ a, (CC.new v).inCC.getD a false = false := by
    intro a
    rw [hin]
    cases hh : (List.replicate (1 + v.maxId.getD 0) false).getD a false
    · rfl
    · have hlt := getD_lt_of_true _ _ hh
      simp only [List.getD_eq_getElem?_getD, List.getElem?_replicate] at hh
      split at hh <;> simp at hh
  refine ⟨by simp [hin], ?_, fun _ _ _ => Iff.rfl, hs.next_le, ?_, ?_⟩
  · intro a; rw [hget a]; simp
  · intro i hi
    rcases hs.before i hi with h1 | h1
    · rw [hget i] at h1; cases h1
    · exact Or.inr h1
  · intro hlt
    exact ⟨fun hf => hf, (hs.at_next hlt).2⟩

/-! ## the search -/

/-- invariant of the search state, relative to the marking vector `l0` at the start of the search;
`exc a b` are the neighbour pairs that are still to be looked at -/
structure FInv (g : G) (l0 : List Bool) (s0 : Nat) (st : FindSt) (exc : Nat → Nat → Prop) : Prop where
  len : st.cc.inCC.length = l0.length
  nodup : st.current.Nodup
  mark : ∀ a, st.cc.inCC.getD a false = true ↔ (l0.getD a false = true ∨ a ∈ st.current)
  fresh : ∀ a ∈ st.current, l0.getD a false = false ∧ g.live a = true
  stack_sub : ∀ a ∈ st.stack, a ∈ st.current
  done : ∀ a ∈ st.current, a ∉ st.stack → ∀ b, (g.att a b ∨ g.att b a) →
    st.cc.inCC.getD b false = true ∨ exc a b
  next : NextS g st.cc
  has : s0 ∈ st.current

theorem ccVisit_inv (v : FwView) (g : G) (hl : ∀ a, v.isLive a = g.live a) (l0 : List Bool) (s0 x : Nat) :
    ∀ (nbs : List Nat) (st : FindSt), (∀ b ∈ nbs, g.live b = true ∧ b < l0.length) →
      FInv g l0 s0 st (fun a b => a = x ∧ b ∈ nbs) →
      FInv g l0 s0 (ccVisit v st nbs) (fun _ _ => False) ∧
      (ccVisit v st nbs).cc.inCC.count false + (ccVisit v st nbs).stack.length
        = st.cc.inCC.count false + st.stack.length := by
  intro nbs
  induction nbs with
  | nil =>
    intro st _ hI
    simp only [ccVisit]
    refine ⟨⟨hI.len, hI.nodup, hI.mark, hI.fresh, hI.stack_sub, ?_, hI.next, hI.has⟩, trivial⟩
    intro a ha hs b hab
    rcases hI.done a ha hs b hab with h1 | ⟨_, h1⟩
    · exact Or.inl h1
    · simp at h1
  | cons nb nbs ih =>
    intro st hnbs hI
    have hnbs' : ∀ b ∈ nbs, g.live b = true ∧ b < l0.length := fun b hb => hnbs b (List.mem_cons_of_mem _ hb)
    simp only [ccVisit]
    by_cases hm : st.cc.inCC.getD nb false = true
    · rw [if_pos hm]
      apply ih st hnbs'
      refine ⟨hI.len, hI.nodup, hI.mark, hI.fresh, hI.stack_sub, ?_, hI.next, hI.has⟩
      intro a ha hs b hab
      rcases hI.done a ha hs b hab with h1 | ⟨h1, h2⟩
      · exact Or.inl h1
      · rcases List.mem_cons.1 h2 with e | e
        · subst e; exact Or.inl hm
        · exact Or.inr ⟨h1, e⟩
    · rw [if_neg hm]
      have hmf : st.cc.inCC.getD nb false = false := by
        cases hh : st.cc.inCC.getD nb false
        · rfl
        · exact absurd hh hm
      obtain ⟨hnbl, hnblt⟩ := hnbs nb List.mem_cons_self
      have hnblt' : nb < st.cc.inCC.length := by rw [hI.len]; exact hnblt
      have hnotcur : nb ∉ st.current := fun hc => hm ((hI.mark nb).2 (Or.inr hc))
      have hl0 : l0.getD nb false = false := by
        cases hh : l0.getD nb false
        · rfl
        · exact absurd ((hI.mark nb).2 (Or.inl hh)) hm
      have hns := mark_nextS v g hl st.cc nb hI.next
      have hinCC : (if ({ st.cc with inCC := st.cc.inCC.set nb true } : CC).next == nb
          then CC.updateNext v { st.cc with inCC := st.cc.inCC.set nb true }
          else { st.cc with inCC := st.cc.inCC.set nb true }).inCC = st.cc.inCC.set nb true := by
        split <;> rfl
      generalize (if ({ st.cc with inCC := st.cc.inCC.set nb true } : CC).next == nb
          then CC.updateNext v { st.cc with inCC := st.cc.inCC.set nb true }
          else { st.cc with inCC := st.cc.inCC.set nb true }) = cc2 at hns hinCC ⊢
      have hmark2 : ∀ a, cc2.inCC.getD a false = true ↔ (a = nb ∨ st.cc.inCC.getD a false = true) := by
        intro a
        rw [hinCC, getD_set_true]
        constructor
        · rintro (⟨e, _⟩ | e)
          · exact Or.inl e
          · exact Or.inr e
        · rintro (e | e)
          · exact Or.inl ⟨e, hnblt'⟩
          · exact Or.inr e
      have hI2 : FInv g l0 s0 { cc := cc2, current := st.current ++ [nb], stack := st.stack ++ [nb] }
          (fun a b => a = x ∧ b ∈ nbs) := by
        refine ⟨?_, ?_, ?_, ?_, ?_, ?_, hns, List.mem_append_left _ hI.has⟩
        · show cc2.inCC.length = l0.length
          rw [hinCC, List.length_set]; exact hI.len
        · show (st.current ++ [nb]).Nodup
          rw [List.nodup_append]
          refine ⟨hI.nodup, by simp, ?_⟩
          intro a ha b hb
          simp at hb
          subst hb
          intro e
          exact hnotcur (e ▸ ha)
        · intro a
          show cc2.inCC.getD a false = true ↔ (l0.getD a false = true ∨ a ∈ st.current ++ [nb])
          rw [hmark2, hI.mark a]
          simp only [List.mem_append, List.mem_singleton]
          constructor
          · rintro (e | e | e)
            · exact Or.inr (Or.inr e)
            · exact Or.inl e
            · exact Or.inr (Or.inl e)
          · rintro (e | e | e)
            · exact Or.inr (Or.inl e)
            · exact Or.inr (Or.inr e)
            · exact Or.inl e
        · intro a ha
          show l0.getD a false = false ∧ g.live a = true
          rcases List.mem_append.1 ha with e | e
          · exact hI.fresh a e
          · simp at e; subst e; exact ⟨hl0, hnbl⟩
        · intro a ha
          show a ∈ st.current ++ [nb]
          rcases List.mem_append.1 ha with e | e
          · exact List.mem_append_left _ (hI.stack_sub a e)
          · exact List.mem_append_right _ e
        · intro a ha hs b hab
          show cc2.inCC.getD b false = true ∨ (a = x ∧ b ∈ nbs)
          have hs' : a ∉ st.stack ∧ a ≠ nb := by
            constructor
            · exact fun e => hs (List.mem_append_left _ e)
            · exact fun e => hs (List.mem_append_right _ (by simp [e]))
          have ha' : a ∈ st.current := by
            rcases List.mem_append.1 ha with e | e
            · exact e
            · simp at e; exact absurd e hs'.2
          rcases hI.done a ha' hs'.1 b hab with h1 | ⟨h1, h2⟩
          · exact Or.inl ((hmark2 b).2 (Or.inr h1))
          · rcases List.mem_cons.1 h2 with e | e
            · exact Or.inl ((hmark2 b).2 (Or.inl e))
            · exact Or.inr ⟨h1, e⟩
      obtain ⟨r1, r2⟩ := ih _ hnbs' hI2
      refine ⟨r1, ?_⟩
      rw [r2]
      show cc2.inCC.count false + (st.stack ++ [nb]).length = _
      rw [hinCC]
      have := count_false_set st.cc.inCC nb hnblt' hmf
      simp only [List.length_append, List.length_singleton]
      omega

theorem ccLoop_inv (v : FwView) (g : G) (hok : v.Ok g) (l0 : List Bool) (s0 : Nat)
    (hlen : l0.length = 1 + v.maxId.getD 0) :
    ∀ (fuel : Nat) (st : FindSt), FInv g l0 s0 st (fun _ _ => False) →
      st.cc.inCC.count false + st.stack.length ≤ fuel →
      FInv g l0 s0 (ccLoop v fuel st) (fun _ _ => False) ∧ (ccLoop v fuel st).stack = [] := by
  intro fuel
  induction fuel with
  | zero =>
    intro st hI hm
    simp only [ccLoop]
    exact ⟨hI, List.eq_nil_of_length_eq_zero (by omega)⟩
  | succ fuel ih =>
    intro st hI hm
    simp only [ccLoop]
    split
    · rename_i hn
      exact ⟨hI, List.getLast?_eq_none_iff.1 hn⟩
    · rename_i x hx
      obtain ⟨ys, hys⟩ := List.getLast?_eq_some_iff.1 hx
      have hdl : st.stack.dropLast = ys := by rw [hys, List.dropLast_concat]
      rw [hdl]
      have hxcur : x ∈ st.current := hI.stack_sub x (by rw [hys]; simp)
      have hxlive : g.live x = true := (hI.fresh x hxcur).2
      have hnbs : ∀ b ∈ v.attFrom x ++ v.attTo x, g.live b = true ∧ b < l0.length := by
        intro b hb
        have hbl : g.live b = true := by
          rcases List.mem_append.1 hb with e | e
          · exact (hok.wf _ _ ((hok.attFrom_mem x b).1 e)).2
          · exact (hok.wf _ _ ((hok.attTo_mem x b).1 e)).1
        refine ⟨hbl, ?_⟩
        obtain ⟨m, hm1, hm2⟩ := hok.maxId_ge b hbl
        rw [hlen, hm1]; simp; omega
      have hI1 : FInv g l0 s0 { st with stack := ys } (fun a b => a = x ∧ b ∈ v.attFrom x ++ v.attTo x) := by
        refine ⟨hI.len, hI.nodup, hI.mark, hI.fresh, ?_, ?_, hI.next, hI.has⟩
        · intro a ha
          exact hI.stack_sub a (by rw [hys]; exact List.mem_append_left _ ha)
        · intro a ha hs b hab
          show st.cc.inCC.getD b false = true ∨ _
          by_cases hax : a = x
          · refine Or.inr ⟨hax, ?_⟩
            subst hax
            rcases hab with e | e
            · exact List.mem_append_left _ ((hok.attFrom_mem a b).2 e)
            · exact List.mem_append_right _ ((hok.attTo_mem a b).2 e)
          · have : a ∉ st.stack := by
              rw [hys]
              intro e
              rcases List.mem_append.1 e with e | e
              · exact hs e
              · simp at e; exact hax e
            rcases hI.done a ha this b hab with h1 | h1
            · exact Or.inl h1
            · exact absurd h1 id
      obtain ⟨r1, r2⟩ := ccVisit_inv v g hok.isLive l0 s0 x _ _ hnbs hI1
      apply ih _ r1
      rw [r2]
      show st.cc.inCC.count false + ys.length ≤ fuel
      have : st.stack.length = ys.length + 1 := by rw [hys]; simp
      omega

/-- the search from an unmarked live argument: the ids found are distinct, live, unmarked before,
contain the start, and the invariant holds again with them added -/
theorem CC.find_spec (v : FwView) (g : G) (h : v.Ok g) (cc : CC) (marked : Nat → Prop)
    (hI : CCInv v g cc marked) (arg : Nat) (hlive : g.live arg = true) (hnm : ¬ marked arg) :
    (CC.find v cc arg).1.Nodup ∧ arg ∈ (CC.find v cc arg).1 ∧
    (∀ a ∈ (CC.find v cc arg).1, g.live a = true ∧ ¬ marked a) ∧
    CCInv v g (CC.find v cc arg).2 (fun a => marked a ∨ a ∈ (CC.find v cc arg).1) := by
  have hlt : arg < cc.inCC.length := live_lt_len h hI.len hlive
  have hf : cc.inCC.getD arg false = false := by
    cases hh : cc.inCC.getD arg false
    · rfl
    · exact absurd ((hI.mark arg).2 hh) hnm
  have hI0 : FInv g cc.inCC arg
      { cc := CC.updateNext v { cc with inCC := cc.inCC.set arg true }, current := [arg], stack := [arg] }
      (fun _ _ => False) := by
    refine ⟨by simp, by simp, ?_, ?_, by simp, ?_, ?_, by simp⟩
    · intro a
      show (cc.inCC.set arg true).getD a false = true ↔ _
      rw [getD_set_true]
      simp only [List.mem_singleton]
      constructor
      · rintro (⟨e, _⟩ | e)
        · exact Or.inr e
        · exact Or.inl e
      · rintro (e | e)
        · exact Or.inr e
        · exact Or.inl ⟨e, hlt⟩
    · intro a ha
      simp at ha; subst ha
      exact ⟨hf, hlive⟩
    · intro a ha hs
      exact absurd ha hs
    · exact updateNext_nextS v g h.isLive _ (set_nextW g cc arg hI.nextS.weak)
  have hmeas : (cc.inCC.set arg true).count false + 1 ≤ cc.inCC.length + 1 := by
    have := count_false_set cc.inCC arg hlt hf
    have := @List.count_le_length _ _ false cc.inCC
    omega
  obtain ⟨r1, r2⟩ := ccLoop_inv v g h cc.inCC arg hI.len (cc.inCC.length + 1) _ hI0 hmeas
  unfold CC.find
  simp only
  generalize ccLoop v (cc.inCC.length + 1)
    { cc := CC.updateNext v { cc with inCC := cc.inCC.set arg true }, current := [arg], stack := [arg] } = st
    at r1 r2
  have hfresh : ∀ a ∈ st.current, g.live a = true ∧ ¬ marked a := by
    intro a ha
    obtain ⟨h1, h2⟩ := r1.fresh a ha
    refine ⟨h2, fun hm => ?_⟩
    have := (hI.mark a).1 hm
    rw [h1] at this; cases this
  refine ⟨r1.nodup, ?_, hfresh, ?_⟩
  · exact r1.has
  · have hmk : ∀ a, (marked a ∨ a ∈ st.current) ↔ st.cc.inCC.getD a false = true := by
      intro a
      rw [r1.mark a, hI.mark a]
    refine ⟨r1.len.trans hI.len, hmk, ?_, r1.next.next_le, ?_, ?_⟩
    · intro a b hab
      constructor
      · rintro (e | e)
        · exact Or.inl ((hI.closed a b hab).1 e)
        · have hns : a ∉ st.stack := by rw [r2]; simp
          rcases r1.done a e hns b (Or.inl hab) with h1 | h1
          · exact (hmk b).2 h1
          · exact absurd h1 id
      · rintro (e | e)
        · exact Or.inl ((hI.closed a b hab).2 e)
        · have hns : b ∉ st.stack := by rw [r2]; simp
          rcases r1.done b e hns a (Or.inr hab) with h1 | h1
          · exact (hmk a).2 h1
          · exact absurd h1 id
    · intro i hi
      rcases r1.next.before i hi with h1 | h1
      · exact Or.inl ((hmk i).2 h1)
      · exact Or.inr h1
    · intro hlt
      obtain ⟨h1, h2⟩ := r1.next.at_next hlt
      refine ⟨fun hm => ?_, h2⟩
      have := (hmk _).1 hm
      rw [h1] at this; cases this

/-! ## extraction -/

/-- on a duplicate-free set of live arguments that no attack leaves or enters, the extraction does
not panic and yields a good component -/
theorem extractComp_good (v : FwView) (g : G) (h : v.Ok g) (ids : List Nat) (hnd : ids.Nodup)
    (hlive : ∀ a ∈ ids, g.live a = true) (hcl : ∀ a b, g.att a b → (a ∈ ids ↔ b ∈ ids)) :
    ∃ c, extractComp v ids = some c ∧ c.ids = ids ∧ GoodComp g c := by
  unfold extractComp
  dsimp only
  generalize hat : List.filterMap _ v.allAtts = atts
  have hmem : ∀ (p : Nat × Option Nat), p ∈ atts ↔
      ∃ a b, g.att a b ∧ posOf ids a = some p.1 ∧ posOf ids b = p.2 := by
    intro p
    rw [← hat, List.mem_filterMap]
    constructor
    · rintro ⟨⟨a, b⟩, hab, hp⟩
      refine ⟨a, b, (h.allAtts_mem a b).1 hab, ?_⟩
      simp only at hp
      split at hp
      · cases hp
      · rename_i i hi
        cases hp
        exact ⟨hi, rfl⟩
    · rintro ⟨a, b, hab, h1, h2⟩
      refine ⟨(a, b), (h.allAtts_mem a b).2 hab, ?_⟩
      simp only [h1, h2]
  have hany : atts.any (fun p => p.2.isNone) = false := by
    rw [List.any_eq_false]
    intro p hp
    obtain ⟨a, b, hab, h1, h2⟩ := (hmem p).1 hp
    have hb : b ∈ ids := (hcl a b hab).1 (mem_of_posOf ids a _ h1)
    obtain ⟨j, hj⟩ := posOf_of_mem ids b hb
    rw [← h2, hj]
    simp
  rw [hany]
  simp only [Bool.false_eq_true, if_false]
  refine ⟨_, rfl, rfl, ⟨hnd, hlive, hcl, rfl, ?_⟩⟩
  intro i j
  show (i, j) ∈ List.map _ _ ↔ _
  rw [List.mem_map]
  constructor
  · rintro ⟨p, hp, he⟩
    obtain ⟨a, b, hab, h1, h2⟩ := (hmem p).1 hp
    have hb : b ∈ ids := (hcl a b hab).1 (mem_of_posOf ids a _ h1)
    obtain ⟨j', hj⟩ := posOf_of_mem ids b hb
    have hp2 : p.2 = some j' := by rw [← h2, hj]
    have he1 : p.1 = i := congrArg Prod.fst he
    have he2 : p.2.getD 0 = j := congrArg Prod.snd he
    rw [hp2] at he2
    simp at he2
    subst he1 he2
    exact ⟨a, b, posOf_some ids a _ h1, posOf_some ids b _ hj, hab⟩
  · rintro ⟨a, b, h1, h2, hab⟩
    refine ⟨(i, some j), (hmem _).2 ⟨a, b, hab, posOf_nodup ids a i hnd h1, posOf_nodup ids b j hnd h2⟩, ?_⟩
    simp

/-! ## one step of the iteration -/

theorem CCInv.congr {v : FwView} {g : G} {cc : CC} {m m' : Nat → Prop} (hI : CCInv v g cc m)
    (he : ∀ a, m a ↔ m' a) : CCInv v g cc m' := by
  have : m = m' := funext fun a => propext (he a)
  rw [← this]; exact hI

/-- the ids found by a search are a set that no attack leaves or enters -/
theorem found_closed {v : FwView} {g : G} {cc cc' : CC} {marked : Nat → Prop} {ids : List Nat}
    (hI : CCInv v g cc marked) (hI' : CCInv v g cc' (fun a => marked a ∨ a ∈ ids))
    (hnm : ∀ a ∈ ids, ¬ marked a) : ∀ a b, g.att a b → (a ∈ ids ↔ b ∈ ids) := by
  intro a b hab
  constructor
  · intro ha
    rcases (hI'.closed a b hab).1 (Or.inr ha) with e | e
    · exact absurd ((hI.closed a b hab).2 e) (hnm a ha)
    · exact e
  · intro hb
    rcases (hI'.closed a b hab).2 (Or.inr hb) with e | e
    · exact absurd ((hI.closed a b hab).1 e) (hnm b hb)
    · exact e

/-- one step of the iteration: either every live argument is marked, or the next component is
extracted successfully (never `none`), is good, is made of unmarked arguments, is not empty, and the
invariant holds again with its ids added -/
theorem CC.nextComp_spec (v : FwView) (g : G) (h : v.Ok g) (cc : CC) (marked : Nat → Prop)
    (hI : CCInv v g cc marked) :
    (CC.nextComp v cc = none → ∀ a, g.live a = true → marked a) ∧
    (∀ oc cc', CC.nextComp v cc = some (oc, cc') →
      ∃ c, oc = some c ∧ GoodComp g c ∧ c.ids ≠ [] ∧ (∀ a ∈ c.ids, ¬ marked a) ∧
        CCInv v g cc' (fun a => marked a ∨ a ∈ c.ids)) := by
  unfold CC.nextComp
  by_cases hc : (v.live.isEmpty || cc.next == cc.inCC.length) = true
  · rw [if_pos hc]
    refine ⟨fun _ a ha => ?_, fun oc cc' he => (by cases he)⟩
    simp only [Bool.or_eq_true, List.isEmpty_iff, beq_iff_eq] at hc
    rcases hc with e | e
    · have := (h.live_mem a).2 ha
      rw [e] at this; cases this
    · have hlt : a < cc.inCC.length := live_lt_len h hI.len ha
      rcases hI.before a (by omega) with h1 | h1
      · exact h1
      · rw [ha] at h1; cases h1
  · rw [if_neg hc]
    refine ⟨fun he => (by cases he), ?_⟩
    intro oc cc' he
    simp only [Bool.or_eq_true, List.isEmpty_iff, beq_iff_eq, not_or] at hc
    have hlt : cc.next < cc.inCC.length := by have := hI.next_le; omega
    obtain ⟨hnm, hlive⟩ := hI.at_next hlt
    obtain ⟨f1, f2, f3, f4⟩ := CC.find_spec v g h cc marked hI cc.next hlive hnm
    have hnm' : ∀ a ∈ (CC.find v cc cc.next).1, ¬ marked a := fun a ha => (f3 a ha).2
    obtain ⟨c, hc1, hc2, hc3⟩ := extractComp_good v g h (CC.find v cc cc.next).1 f1
      (fun a ha => (f3 a ha).1) (found_closed hI f4 hnm')
    have he' : (extractComp v (CC.find v cc cc.next).1, (CC.find v cc cc.next).2) = (oc, cc') := by
      simpa using he
    have ho : oc = some c := by rw [← hc1]; exact (congrArg Prod.fst he').symm
    have hcc : cc' = (CC.find v cc cc.next).2 := (congrArg Prod.snd he').symm
    refine ⟨c, ho, hc3, ?_, ?_, ?_⟩
    · rw [hc2]; exact List.ne_nil_of_mem f2
    · rw [hc2]; exact hnm'
    · rw [hc2, hcc]; exact f4

/-! ## all components -/

theorem allComps_go_spec (v : FwView) (g : G) (h : v.Ok g) :
    ∀ (fuel : Nat) (cc : CC) (marked : Nat → Prop), CCInv v g cc marked →
      cc.inCC.count false < fuel →
      (∀ oc ∈ allComps.go v fuel cc, ∃ c, oc = some c ∧ GoodComp g c ∧ c.ids ≠ [] ∧
        ∀ a ∈ c.ids, ¬ marked a) ∧
      (allComps.go v fuel cc).Pairwise
        (fun x y => ∀ c c', x = some c → y = some c' → ∀ a, a ∈ c.ids → a ∉ c'.ids) ∧
      (∀ a, g.live a = true → marked a ∨ ∃ c, some c ∈ allComps.go v fuel cc ∧ a ∈ c.ids) := by
  intro fuel
  induction fuel with
  | zero => intro cc marked _ hf; omega
  | succ fuel ih =>
    intro cc marked hI hf
    obtain ⟨s1, s2⟩ := CC.nextComp_spec v g h cc marked hI
    unfold allComps.go
    cases hn : CC.nextComp v cc with
    | none =>
      simp only
      refine ⟨fun oc ho => (by cases ho), List.Pairwise.nil, fun a ha => Or.inl (s1 hn a ha)⟩
    | some r =>
      obtain ⟨oc, cc'⟩ := r
      simp only
      obtain ⟨c, ho, hg, hne, hnm, hI'⟩ := s2 oc cc' hn
      have hcnt : cc'.inCC.count false < cc.inCC.count false := by
        apply count_false_lt cc.inCC cc'.inCC (by rw [hI.len, hI'.len])
        · intro a ha
          exact (hI'.mark a).1 (Or.inl ((hI.mark a).2 ha))
        · obtain ⟨a, ha⟩ := List.exists_mem_of_ne_nil _ hne
          refine ⟨a, ?_, (hI'.mark a).1 (Or.inr ha)⟩
          cases hh : cc.inCC.getD a false
          · rfl
          · exact absurd ((hI.mark a).2 hh) (hnm a ha)
      obtain ⟨r1, r2, r3⟩ := ih cc' _ hI' (by omega)
      refine ⟨?_, ?_, ?_⟩
      · intro oc' ho'
        rcases List.mem_cons.1 ho' with e | e
        · subst e; exact ⟨c, ho, hg, hne, hnm⟩
        · obtain ⟨c', q1, q2, q3, q4⟩ := r1 oc' e
          exact ⟨c', q1, q2, q3, fun a ha hm => q4 a ha (Or.inl hm)⟩
      · rw [List.pairwise_cons]
        refine ⟨?_, r2⟩
        intro y hy c1 c2 e1 e2 a ha1 ha2
        obtain ⟨c', q1, _, _, q4⟩ := r1 y hy
        rw [ho] at e1; cases e1
        rw [q1] at e2; cases e2
        exact q4 a ha2 (Or.inr ha1)
      · intro a ha
        rcases r3 a ha with (e | e) | ⟨c', q1, q2⟩
        · exact Or.inl e
        · exact Or.inr ⟨c, by rw [ho]; exact List.mem_cons_self, e⟩
        · exact Or.inr ⟨c', List.mem_cons_of_mem _ q1, q2⟩

/-- all components: none fails to extract, each is good, they are pairwise disjoint and cover the
live arguments -/
theorem allComps_spec (v : FwView) (g : G) (h : v.Ok g) :
    (∀ oc ∈ allComps v, ∃ c, oc = some c ∧ GoodComp g c ∧ c.ids ≠ []) ∧
    (allComps v).Pairwise (fun x y => ∀ c c', x = some c → y = some c' → ∀ a, a ∈ c.ids → a ∉ c'.ids) ∧
    (∀ a, g.live a = true → ∃ c, some c ∈ allComps v ∧ a ∈ c.ids) := by
  have hI := CC.new_inv v g h
  have hcnt : (CC.new v).inCC.count false < v.maxId.getD 0 + 2 := by
    have := @List.count_le_length _ _ false (CC.new v).inCC
    rw [hI.len] at this
    omega
  obtain ⟨r1, r2, r3⟩ := allComps_go_spec v g h _ _ _ hI hcnt
  unfold allComps
  refine ⟨?_, r2, ?_⟩
  · intro oc ho
    obtain ⟨c, q1, q2, q3, _⟩ := r1 oc ho
    exact ⟨c, q1, q2, q3⟩
  · intro a ha
    rcases r3 a ha with e | e
    · exact absurd e id
    · exact e

/-! ## merged components -/

/-- the loop body of `merged_connected_components_of` -/
def mergeStep (v : FwView) (acc : List Nat × CC) (a : Nat) : List Nat × CC :=
  if acc.2.inCC.getD a false then acc
  else (acc.1 ++ (CC.find v acc.2 a).1, (CC.find v acc.2 a).2)

theorem mergedOf_eq (v : FwView) (cc : CC) (args : List Nat) :
    CC.mergedOf v cc args =
      if args.any (fun a => cc.inCC.getD a false) then none
      else some (extractComp v (args.foldl (mergeStep v) ([], cc)).1, (args.foldl (mergeStep v) ([], cc)).2) :=
  rfl

structure MergeInv (v : FwView) (g : G) (acc : List Nat × CC) : Prop where
  inv : CCInv v g acc.2 (fun a => a ∈ acc.1)
  nodup : acc.1.Nodup
  live : ∀ a ∈ acc.1, g.live a = true

theorem mergeStep_spec (v : FwView) (g : G) (h : v.Ok g) (acc : List Nat × CC) (a : Nat)
    (ha : g.live a = true) (hM : MergeInv v g acc) :
    MergeInv v g (mergeStep v acc a) ∧ (∀ b ∈ acc.1, b ∈ (mergeStep v acc a).1) ∧ a ∈ (mergeStep v acc a).1 := by
  unfold mergeStep
  by_cases hm : acc.2.inCC.getD a false = true
  · rw [if_pos hm]
    exact ⟨hM, fun b hb => hb, (hM.inv.mark a).2 hm⟩
  · rw [if_neg hm]
    have hnm : ¬ a ∈ acc.1 := fun e => hm ((hM.inv.mark a).1 e)
    obtain ⟨f1, f2, f3, f4⟩ := CC.find_spec v g h acc.2 _ hM.inv a ha hnm
    refine ⟨⟨?_, ?_, ?_⟩, fun b hb => List.mem_append_left _ hb, List.mem_append_right _ f2⟩
    · exact f4.congr (fun b => List.mem_append.symm)
    · show (acc.1 ++ (CC.find v acc.2 a).1).Nodup
      rw [List.nodup_append]
      refine ⟨hM.nodup, f1, ?_⟩
      intro x hx y hy e
      exact (f3 y hy).2 (e ▸ hx)
    · intro b hb
      rcases List.mem_append.1 hb with e | e
      · exact hM.live b e
      · exact (f3 b e).1

theorem mergeFold_spec (v : FwView) (g : G) (h : v.Ok g) :
    ∀ (args : List Nat) (acc : List Nat × CC), (∀ a ∈ args, g.live a = true) → MergeInv v g acc →
      MergeInv v g (args.foldl (mergeStep v) acc) ∧
      (∀ b ∈ acc.1, b ∈ (args.foldl (mergeStep v) acc).1) ∧
      (∀ a ∈ args, a ∈ (args.foldl (mergeStep v) acc).1) := by
  intro args
  induction args with
  | nil => intro acc _ hM; exact ⟨hM, fun b hb => hb, fun a ha => by cases ha⟩
  | cons x xs ih =>
    intro acc hl hM
    obtain ⟨s1, s2, s3⟩ := mergeStep_spec v g h acc x (hl x List.mem_cons_self) hM
    obtain ⟨r1, r2, r3⟩ := ih (mergeStep v acc x) (fun a ha => hl a (List.mem_cons_of_mem _ ha)) s1
    rw [List.foldl_cons]
    refine ⟨r1, fun b hb => r2 b (s2 b hb), ?_⟩
    intro a ha
    rcases List.mem_cons.1 ha with e | e
    · subst e; exact r2 a s3
    · exact r3 a e

/-- the merged component of a list of live arguments, from the fresh state -/
theorem CC.mergedOf_spec (v : FwView) (g : G) (h : v.Ok g) (args : List Nat)
    (hargs : ∀ a ∈ args, g.live a = true) (oc : Option Comp) (cc : CC)
    (hm : CC.mergedOf v (CC.new v) args = some (oc, cc)) :
    ∃ c, oc = some c ∧ GoodComp g c ∧ (∀ a ∈ args, a ∈ c.ids) ∧ CCInv v g cc (fun a => a ∈ c.ids) := by
  rw [mergedOf_eq] at hm
  split at hm
  · cases hm
  · have hM0 : MergeInv v g ([], CC.new v) :=
      ⟨(CC.new_inv v g h).congr (fun a => by simp), List.nodup_nil, fun a ha => by cases ha⟩
    obtain ⟨r1, _, r3⟩ := mergeFold_spec v g h args _ hargs hM0
    obtain ⟨c, hc1, hc2, hc3⟩ := extractComp_good v g h _ r1.nodup r1.live r1.inv.closed
    have he : (extractComp v (args.foldl (mergeStep v) ([], CC.new v)).1,
        (args.foldl (mergeStep v) ([], CC.new v)).2) = (oc, cc) := Option.some.inj hm
    have ho : oc = some c := by rw [← hc1]; exact (congrArg Prod.fst he).symm
    have hcc : cc = (args.foldl (mergeStep v) ([], CC.new v)).2 := (congrArg Prod.snd he).symm
    refine ⟨c, ho, hc3, ?_, ?_⟩
    · rw [hc2]; exact r3
    · rw [hc2, hcc]; exact r1.inv

end Crusta
