import Crusta.Model.Cli
import Crusta.Proofs.Oracle

/-!
# C05 — the command-line tools print exactly the right answer, or none (property theorems)
-/

namespace Crusta.C05
open Crusta Crusta.Cli

/-- exactly 21 problems are listed -/
theorem problems_21 : problemStrings.length = 21 ∧ problemsLower.length = 21 := by decide

theorem lowerChar_idem (c : Nat) : lowerChar (lowerChar c) = lowerChar c := by
  unfold lowerChar; split <;> (try split) <;> omega

theorem lower_idem (s : Str) : lower (lower s) = lower s := by
  unfold lower; rw [List.map_map]; congr 1; funext c; exact lowerChar_idem c

theorem lowerChar_hyphen (c : Nat) : lowerChar c = 45 ↔ c = 45 := by
  unfold lowerChar; split <;> omega

theorem splitHyphen_lower (s : Str) :
    splitHyphen (lower s) = (splitHyphen s).map (fun p => (lower p.1, lower p.2)) := by
  induction s with
  | nil => rfl
  | cons c cs ih =>
    simp only [lower, List.map_cons, splitHyphen]
    by_cases h : c = 45
    · subst h; simp [lowerChar]
    · have : ¬ lowerChar c = 45 := fun e => h ((lowerChar_hyphen c).1 e)
      simp only [h, this, if_false]
      have ih' := ih; unfold lower at ih'
      rw [ih']
      cases splitHyphen cs <;> simp [lower]

theorem queryOf_lower (s : Str) : queryOf (lower s) = queryOf s := by
  unfold queryOf; rw [lower_idem]

theorem semOf_lower (s : Str) : semOf (lower s) = semOf s := by
  unfold semOf; rw [lower_idem]

/-- **case-insensitive**: a problem string and its ASCII-lowercase form are parsed identically -/
theorem read_lower (s : Str) : readProblem (lower s) = readProblem s := by
  unfold readProblem
  rw [splitHyphen_lower]
  cases splitHyphen s with
  | none => rfl
  | some p => simp only [Option.map_some, queryOf_lower, semOf_lower]

theorem splitHyphen_join (q sem : Str) (hq : ∀ c ∈ q, c ≠ 45) :
    splitHyphen (q ++ [45] ++ sem) = some (q, sem) := by
  induction q with
  | nil => simp [splitHyphen]
  | cons c cs ih =>
    have hc : c ≠ 45 := hq c (List.mem_cons_self ..)
    simp only [List.cons_append, splitHyphen, hc, if_false]
    have := ih (fun d hd => hq d (List.mem_cons_of_mem _ hd))
    simp only [List.append_assoc, List.cons_append, List.nil_append] at this ⊢
    rw [this]; rfl

theorem splitHyphen_eq (s q sem : Str) (h : splitHyphen s = some (q, sem)) : s = q ++ [45] ++ sem := by
  induction s generalizing q with
  | nil => simp [splitHyphen] at h
  | cons c cs ih =>
    simp only [splitHyphen] at h
    by_cases hc : c = 45
    · subst hc; simp at h; obtain ⟨rfl, rfl⟩ := h; rfl
    · simp only [hc, if_false, Option.map_eq_some_iff] at h
      obtain ⟨⟨q', s'⟩, hp, he⟩ := h
      simp only [Prod.mk.injEq] at he
      obtain ⟨rfl, rfl⟩ := he
      rw [ih q' hp]; rfl

theorem queryOf_some (q : Str) (t : Task) (h : queryOf q = some t) : lower q = taskLower t := by
  unfold queryOf at h
  simp only at h
  split at h
  · injection h with h; subst h; assumption
  · split at h
    · injection h with h; subst h; assumption
    · split at h
      · injection h with h; subst h; assumption
      · cases h

theorem semOf_some (q : Str) (σ : Sem) (h : semOf q = some σ) : lower q = semLower σ := by
  unfold semOf at h
  simp only at h
  repeat (first | (split at h; · (injection h with h; subst h; assumption)) | cases h)

/-- **the problems accepted are exactly the 21 listed ones, case-insensitively**: a string is
accepted iff its ASCII-lowercase form is one of the 21 `query-semantics` strings -/
theorem problem_parse_iff (s : Str) : (readProblem s).isSome = true ↔ lower s ∈ problemsLower := by
  constructor
  · intro h
    unfold readProblem at h
    cases hs : splitHyphen s with
    | none => rw [hs] at h; cases h
    | some p =>
      obtain ⟨q, sem⟩ := p
      rw [hs] at h
      simp only at h
      cases hq : queryOf q with
      | none => rw [hq] at h; cases h
      | some t =>
        cases hm : semOf sem with
        | none => rw [hq, hm] at h; cases h
        | some σ =>
          have e := splitHyphen_eq s q sem hs
          have : lower s = taskLower t ++ [45] ++ semLower σ := by
            rw [e]; unfold lower
            rw [List.map_append, List.map_append]
            have h1 := queryOf_some q t hq; unfold lower at h1
            have h2 := semOf_some sem σ hm; unfold lower at h2
            rw [h1, h2]; rfl
          rw [this]
          unfold problemsLower
          simp only [List.mem_flatMap, List.mem_map]
          exact ⟨σ, by cases σ <;> simp [allSems], t, by cases t <;> simp [allTasks], rfl⟩
  · intro h
    rw [← read_lower]
    have : ∀ x ∈ problemsLower, (readProblem x).isSome = true := by decide
    exact this _ h

/-- every listed problem is routed to a solver that implements the requested query -/
theorem dispatch_total (t : Task) (σ : Sem) (cfg : Cfg) (v : FwView) (cert : Bool) (args : List Nat) :
    (entryProg (dispatchSolver t σ) cfg v
      (match t with | .SE => .se | .DC => .dc cert args | .DS => .ds cert args)).isSome = true := by
  cases t <;> cases σ <;> rfl

/-- the witnesses the CLI may print for a problem are extensions under the queried semantics,
complete extensions for DC-PR (a sufficient witness: every complete extension is in a preferred one) -/
theorem witness_semantics (t : Task) (σ : Sem) :
    witnessSem t σ = σ ∨ (t = .DC ∧ σ = .PR ∧ witnessSem t σ = .CO) := by
  cases t <;> cases σ <;> simp [witnessSem]

/-- the ICCMA'23 wrapper turns every solve invocation into `solve <args> --logging-level off
--with-certificate --reader iccma23`, and the two special invocations into `authors` / `problems` -/
theorem wrapper_translate (args : List String) :
    (args = [] → wrapperArgs args = ["authors", "--logging-level", "off"]) ∧
    (args = ["--problems"] → wrapperArgs args = ["problems", "--logging-level", "off"]) ∧
    (args ≠ [] → args ≠ ["--problems"] →
      wrapperArgs args = ["solve"] ++ args ++ ["--logging-level", "off", "--with-certificate", "--reader", "iccma23"]) := by
  refine ⟨?_, ?_, ?_⟩
  · intro h; subst h; rfl
  · intro h; subst h; rfl
  · intro h1 h2
    unfold wrapperArgs
    have : args.isEmpty = false := by cases args <;> simp_all
    simp [this, h2]

end Crusta.C05
