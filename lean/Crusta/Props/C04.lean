import Crusta.Proofs.Oracle

/-! # C04 — certificates (property theorems) -/

namespace Crusta.C04
open Crusta

/-- credulous, certificate requested: the judge accepts exactly (YES + a duplicate-free extension
containing a queried argument) or (NO + no certificate), and only with the right status -/
theorem dc_cert_judge_exact (af : AF) (hwf : af.WF) (σ : Sem) (as : List Nat) (st : Bool)
    (c : Option (List Nat)) :
    checkAnswer af ⟨σ, .DC, true, as⟩ (.acc st (some c)) = .ok () ↔
      (st = true ↔ ∃ S, σ.Ext af S ∧ ∃ a ∈ as, S a = true) ∧
      match c with
      | none => st = false
      | some e => st = true ∧ e.Nodup ∧ σ.Ext af (ofList e) ∧ ∃ a ∈ as, a ∈ e := by
  rw [checkAnswer_iff af hwf]
  cases c <;> simp [Conforms, CertConforms]

/-- skeptical, certificate requested: (NO + an extension omitting every queried argument) or
(YES + no certificate) -/
theorem ds_cert_judge_exact (af : AF) (hwf : af.WF) (σ : Sem) (as : List Nat) (st : Bool)
    (c : Option (List Nat)) :
    checkAnswer af ⟨σ, .DS, true, as⟩ (.acc st (some c)) = .ok () ↔
      (st = true ↔ ∀ S, σ.Ext af S → ∃ a ∈ as, S a = true) ∧
      match c with
      | none => st = true
      | some e => st = false ∧ e.Nodup ∧ σ.Ext af (ofList e) ∧ ¬ ∃ a ∈ as, a ∈ e := by
  rw [checkAnswer_iff af hwf]
  cases c <;> cases st <;> simp [Conforms, CertConforms]

/-- the certificate-less entry points must not produce a certificate slot -/
theorem no_cert_slot (af : AF) (q : Query) (st : Bool) (c : Option (List Nat))
    (hq : q.cert = false) (ht : q.task ≠ .SE) :
    checkAnswer af q (.acc st (some c)) ≠ .ok () := by
  obtain ⟨σ, task, cert, args⟩ := q
  simp only at hq ht; subst hq
  cases task
  · exact absurd rfl ht
  · simp only [checkAnswer]; split <;> simp
  · simp only [checkAnswer]; split <;> simp

end Crusta.C04
