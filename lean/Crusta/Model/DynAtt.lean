import Crusta.Model.Dyn

/-!
# Model of the *assumptions-on-attacks* dynamic solvers (`src/dynamics/assumptions_on_attacks/*`)

* `AEnc` — `DynamicConstraintsEncoder` (attacks variant): `arg_id_to_solver_var`, `solver_vars`,
  `n_arg_vars`, `next_dummy_arg_var`, `need_to_encode`, the solver currently held in the shared
  `Rc<RefCell<Box<dyn SatSolver>>>` (a *new* solver is obtained from the factory at every
  re-encoding), `assumptions(af)`, `new_argument`, `remove_argument`, the two
  `update_encoding_for_*_semantics`;
* `ADState` — `BufferedDynamicConstraintsEncoder` (attacks variant) together with the solver's own
  framework: event buffer with cached computations (the `Event` type and the two cache lookups are
  those of `Crusta.Dyn`: the Rust code is the same), the eagerly validated `pending_af`, the replay
  of the buffer followed by `update_encoding`;
* the query procedures of `DynamicCompleteSemanticsSolverAttacks` (credulous) and
  `DynamicStableSemanticsSolverAttacks` (credulous and skeptical).

The reservation factor `arg_factor : f64` is modelled by a rational `num / den`;
`(n_args as f64 * arg_factor) as usize` is `n_args * num / den` (floor).  For the factors exercised
(1, 3/2, 2, 37/10) this equals the `f64` computation for every `n_args ≤ 10^6` (checked by
`att_work/check_factor.py`).

Labels are naturals; answers carry **ids** of the solver's framework.
-/

namespace Crusta.DynAtt
open Prog (addClause addClauses)
open Crusta.Dyn (DSem Event UpdRes cachedCred cachedSkep foldProg needArg needLabels)

inductive AVarType
  | arg (id : Nat)
  | disj (id : Nat)
  | attack
  | ignored
deriving Repr, DecidableEq

structure AEnc where
  sem : DSem
  /-- `arg_factor` as a fraction -/
  num : Nat := 2
  den : Nat := 1
  /-- index of the solver held in the shared cell -/
  solver : Nat := 0
  argVar : List (Option Nat) := []
  vars : List AVarType := [.ignored]
  nextDummy : Nat := 0
  nArgVars : Nat := 0
  needToEncode : Bool := true
deriving Repr

/-- `(n_args as f64 * arg_factor) as usize` -/
def AEnc.scaled (e : AEnc) (nArgs : Nat) : Nat := nArgs * e.num / e.den

/-- variable of the attack `attacker → target` (both given as argument variables, 1-based) -/
def attVar (n target attacker : Nat) : Nat := 1 + n + n * (target - 1) + attacker - 1

/-- variable of the attacker disjunction of the argument variable `v` (complete semantics) -/
def disjVar (n v : Nat) : Nat := v + n * (1 + n)

/-! ## `assumptions(af)` -/

/-- position in the assumption vector of the attack `p = (attacker id, attacked id)` -/
def AEnc.attIndex (e : AEnc) (p : Nat × Nat) : Option Nat :=
  match e.argVar.getD p.2 none, e.argVar.getD p.1 none with
  | some xt, some xa =>
    if xt = 0 ∨ xa = 0 then none else some ((xt - 1) * e.nArgVars + xa - 1)
  | _, _ => none

def setAssumptions (e : AEnc) : List (Nat × Nat) → List Lit → Option (List Lit)
  | [], acc => some acc
  | p :: rest, acc =>
    match e.attIndex p with
    | none => none
    | some i => if i < acc.length then setAssumptions e rest (acc.set i (pl (1 + i + e.nArgVars))) else none

def AEnc.assumptionsOpt (e : AEnc) (st : Store) : Option (List Lit) :=
  setAssumptions e st.iterAttacks
    ((List.range (e.nArgVars * e.nArgVars)).map (fun i => nl (1 + e.nArgVars + i)))

def AEnc.assumptions (e : AEnc) (st : Store) : Prog (List Lit) :=
  match e.assumptionsOpt st with
  | some a => .pure a
  | none => .crash "assumptions: attack on an argument without a solver variable"

/-! ## updates seen by the encoder -/

/-- `DynamicConstraintsEncoder::new_argument` -/
def encNewArgument (st : Store) (e : AEnc) (l : Nat) : Prog (Store × AEnc) :=
  let st' := st.newArgument l
  if e.needToEncode || e.nextDummy ≥ e.nArgVars then .pure (st', { e with needToEncode := true })
  else
    match st'.maxId with
    | none => .crash "max_argument_id on an empty framework"
    | some id =>
      if e.nextDummy ≥ e.vars.length then .crash "index out of bounds (solver_vars)" else
      let vars := e.vars.set e.nextDummy (.arg id)
      match e.sem with
      | .CO =>
        if disjVar e.nArgVars e.nextDummy ≥ vars.length then .crash "index out of bounds (solver_vars)" else
        .pure (st', { e with argVar := e.argVar ++ [some e.nextDummy],
                             vars := vars.set (disjVar e.nArgVars e.nextDummy) (.disj id),
                             nextDummy := e.nextDummy + 1 })
      | _ =>
        .pure (st', { e with argVar := e.argVar ++ [some e.nextDummy], vars := vars,
                             nextDummy := e.nextDummy + 1 })

/-- `DynamicConstraintsEncoder::remove_argument` (the caller unwraps) -/
def encRemoveArgument (st : Store) (e : AEnc) (l : Nat) : Prog (Store × AEnc) :=
  match st.getArg l with
  | none => .crash "remove_argument: no such argument"
  | some id =>
    match st.removeArgument l with
    | .ok st' =>
      if id < e.argVar.length then
        match e.argVar.getD id none with
        | some v =>
          if v ≥ e.vars.length then .crash "index out of bounds (solver_vars)" else
          (addClause e.solver [pl v]).bind fun _ =>
          .pure (st', { e with vars := e.vars.set v .ignored, argVar := e.argVar.set id none })
        | none => .pure (st', { e with argVar := e.argVar.set id none })
      else .pure (st', e)
    | _ => .crash "remove_argument failed"

def encAttack (add : Bool) (st : Store) (e : AEnc) (a b : Nat) : Prog (Store × AEnc) :=
  match (if add then st.newAttack a b else st.removeAttack a b) with
  | .ok st' => .pure (st', e)
  | _ => .crash "attack update failed"

/-! ## (re-)encoding -/

/-- `arg_id_to_solver_var` after an encoding: the live arguments get the variables 1, 2, … in id order -/
def freshArgVar (st : Store) : List (Option Nat) :=
  (st.liveArgs.zipIdx).foldl (fun t p => t.set p.1.1 (some (p.2 + 1)))
    (List.replicate (1 + st.maxId.getD 0) none)

/-- the clauses emitted for the pair (argument variable `x`, attacker variable `a`) and the fresh
auxiliary variable `u` — stable semantics: `u ↔ a ∧ att(x,a)`, and conflict-freeness -/
def stCell (n x a u : Nat) : Cnf :=
  [[nl u, pl a], [nl u, pl (attVar n x a)], [pl u, nl a, nl (attVar n x a)],
   [nl (attVar n x a), nl x, nl a]]

/-- complete semantics, first loop: `u ↔ ¬d(a) ∧ att(x,a)`, and `x` in ⇒ its attacker `a` is attacked -/
def coCell1 (n x a u : Nat) : Cnf :=
  [[nl u, nl (disjVar n a)], [nl u, pl (attVar n x a)], [pl u, pl (disjVar n a), nl (attVar n x a)],
   [nl (attVar n x a), nl x, pl (disjVar n a)]]

/-- complete semantics, second loop: `u ↔ a ∧ att(x,a)`, and `a` in ⇒ `d(x)` -/
def coCell2 (n x a u : Nat) : Cnf :=
  [[nl u, pl a], [nl u, pl (attVar n x a)], [pl u, nl a, nl (attVar n x a)],
   [nl (attVar n x a), pl (disjVar n x), nl a]]

/-- the inner loops `(1..=n_arg_vars).for_each(|attacker_var| …)`: one `n_vars()` call per attacker
variable (the auxiliary variable is `n_vars() + 1`), then the four clauses of the cell; returns the
long clause being accumulated -/
def auxLoop (k : Nat) (cell : Nat → Nat → Cnf) : List Nat → Clause → Prog Clause
  | [], acc => .pure acc
  | a :: rest, acc =>
    .nVars k fun nv =>
      (addClauses k (cell a (nv + 1))).bind fun _ => auxLoop k cell rest (acc ++ [pl (nv + 1)])

/-- the outer loops `(1..=n_arg_vars).for_each(|arg_var| …)`: clauses emitted before the inner loop,
the inner loop started with the literal `head x`, then the long clause -/
def rowLoop (k n : Nat) (pre : Nat → Cnf) (head : Nat → Lit) (cell : Nat → Nat → Nat → Cnf) :
    List Nat → Prog Unit
  | [] => .pure ()
  | x :: rest =>
    (addClauses k (pre x)).bind fun _ =>
    (auxLoop k (cell x) ((List.range n).map (· + 1)) [head x]).bind fun c =>
    .clause k c (rowLoop k n pre head cell rest)

def stOuter (k n : Nat) (xs : List Nat) : Prog Unit :=
  rowLoop k n (fun _ => []) pl (stCell n) xs

def coOuter1 (k n : Nat) (xs : List Nat) : Prog Unit :=
  rowLoop k n (fun x => [[nl x, nl (disjVar n x)]]) pl (coCell1 n) xs

def coOuter2 (k n : Nat) (xs : List Nat) : Prog Unit :=
  rowLoop k n (fun _ => []) (fun x => nl (disjVar n x)) (coCell2 n) xs

/-- `solver_vars` after an encoding -/
def freshVars (sem : DSem) (st : Store) (n : Nat) : List AVarType :=
  let pad := List.replicate (n - st.nArguments) AVarType.ignored
  let base := [AVarType.ignored] ++ st.liveArgs.map (fun p => AVarType.arg p.1) ++ pad ++
    List.replicate (n * n) AVarType.attack
  match sem with
  | .CO => base ++ st.liveArgs.map (fun p => AVarType.disj p.1) ++ pad
  | _ => base

/-- the encoder state right after a re-encoding on solver `k` -/
def AEnc.reencoded (e : AEnc) (st : Store) (k : Nat) : AEnc :=
  { e with solver := k, needToEncode := false, nArgVars := e.scaled st.nArguments,
           vars := freshVars e.sem st (e.scaled st.nArguments), argVar := freshArgVar st,
           nextDummy := st.nArguments + 1 }

/-- `DynamicConstraintsEncoder::update_encoding` -/
def AEnc.updateEncoding (e : AEnc) (st : Store) : Prog AEnc :=
  if e.sem == .PR then .crash "update_encoding: semantics not handled" else
  if !e.needToEncode then .pure e else
  let n := e.scaled st.nArguments
  -- `n_arg_vars - n_args` on `usize`: only reachable with a factor below 1
  if n < st.nArguments then .crash "attempt to subtract with overflow (arg_factor < 1)" else
  let xs := (List.range n).map (· + 1)
  .newSolver fun k =>
    match e.sem with
    | .ST =>
      .reserve k (n * (1 + n)) <|
      (stOuter k n xs).bind fun _ => .pure (e.reencoded st k)
    | _ =>
      .reserve k (n * (2 + n)) <|
      (coOuter1 k n xs).bind fun _ =>
      (coOuter2 k n xs).bind fun _ => .pure (e.reencoded st k)

/-! ## the buffer -/

structure ADState where
  af : Store := Store.empty
  pending : Store := Store.empty
  enc : AEnc
  buffer : List Event := []
  next : Nat := 0
deriving Repr

def ADState.init (sem : DSem) (num den : Nat) : ADState := { enc := { sem := sem, num := num, den := den } }

/-- the four update entry points: validated against `pending`, buffered only when they change it -/
def ADState.update (d : ADState) : StoreOp → ADState × UpdRes
  | .newArg l =>
    let p := d.pending.newArgument l
    if p.nArguments > d.pending.nArguments then ({ d with pending := p, buffer := d.buffer ++ [.newArg l] }, .ok)
    else ({ d with pending := p }, .ok)
  | .remArg l =>
    match d.pending.removeArgument l with
    | .ok p => ({ d with pending := p, buffer := d.buffer ++ [.remArg l] }, .ok)
    | .err _ => (d, .err)
    | .panic => (d, .panic)
  | .newAtt a b =>
    match d.pending.newAttack a b with
    | .ok p =>
      if p.nAttacks > d.pending.nAttacks then ({ d with pending := p, buffer := d.buffer ++ [.newAtt a b] }, .ok)
      else ({ d with pending := p }, .ok)
    | .err _ => (d, .err)
    | .panic => (d, .panic)
  | .remAtt a b =>
    match d.pending.removeAttack a b with
    | .ok p => ({ d with pending := p, buffer := d.buffer ++ [.remAtt a b] }, .ok)
    | .err _ => (d, .err)
    | .panic => (d, .panic)

def replayEvent (r : Store × AEnc) : Event → Prog (Store × AEnc)
  | .newArg l => encNewArgument r.1 r.2 l
  | .remArg l => encRemoveArgument r.1 r.2 l
  | .newAtt a b => encAttack true r.1 r.2 a b
  | .remAtt a b => encAttack false r.1 r.2 a b
  | _ => .pure r

/-- `BufferedDynamicConstraintsEncoder::update_encoding` -/
def ADState.updateEncoding (d : ADState) : Prog ADState :=
  (foldProg replayEvent (d.buffer.drop d.next) (d.af, d.enc)).bind fun r =>
  (r.2.updateEncoding r.1).bind fun e =>
  .pure { d with af := r.1, enc := e, next := d.buffer.length }

/-! ## decoding models -/

/-- `solver_var_to_arg` -/
def AEnc.varToArg (e : AEnc) (v : Nat) : Option Nat :=
  match e.vars.getD v .ignored with
  | .arg id => some id
  | _ => none

def AEnc.argsWhere (e : AEnc) (m : Model) (p : Option Bool → Bool) : List Nat :=
  (m.zipIdx).filterMap (fun q => if p q.1 then e.varToArg (q.2 + 1) else none)

def AEnc.extension (e : AEnc) (m : Model) : List Nat := e.argsWhere m (fun b => b == some true)

/-- `arg_to_lit` -/
def ADState.argLit (d : ADState) (l : Nat) : Prog Nat :=
  match d.af.getArg l with
  | none => .crash "arg_to_lit: no such argument"
  | some id =>
    match d.enc.argVar.getD id none with
    | some x => .pure x
    | none => .crash "arg_to_lit: argument without a solver variable"

def fromCache (d : ADState) (b : Bool) (e : List Nat) : Prog (ADState × AccAns) :=
  (needLabels d.af e).bind fun _ => .pure (d, ⟨b, some e⟩)

/-! ## queries -/

/-- the SAT call of a credulous query, on an up-to-date encoding -/
def credSolve (d : ADState) (l : Nat) : Prog (ADState × AccAns) :=
  (d.enc.assumptions d.af).bind fun as =>
  (d.argLit l).bind fun x =>
  .solve d.enc.solver (as ++ [pl x]) fun r =>
    match r with
    | some m =>
      (needLabels d.af (d.enc.argsWhere m (fun b => b != some false))).bind fun acc =>
      (needLabels d.af (d.enc.extension m)).bind fun _ =>
      .pure ({ d with buffer := d.buffer ++ [.cred acc [] (some (d.enc.extension m))] },
             ⟨true, some (d.enc.extension m)⟩)
    | none => .pure ({ d with buffer := d.buffer ++ [.cred [] [l] none] }, ⟨false, none⟩)

/-- credulous acceptance (both solvers) -/
def credQuery (d : ADState) (l : Nat) : Prog (ADState × AccAns) :=
  match cachedCred d.buffer.reverse l with
  | (some b, some e) => fromCache d b e
  | _ => d.updateEncoding.bind fun d' => credSolve d' l

/-- the SAT call of a skeptical query of the stable solver, on an up-to-date encoding -/
def stSkepSolve (d : ADState) (l : Nat) : Prog (ADState × AccAns) :=
  (d.enc.assumptions d.af).bind fun as =>
  (d.argLit l).bind fun x =>
  .solve d.enc.solver (as ++ [nl x]) fun r =>
    match r with
    | some m =>
      (needLabels d.af (d.enc.argsWhere m (fun b => b != some true))).bind fun ref =>
      (needLabels d.af (d.enc.extension m)).bind fun _ =>
      .pure ({ d with buffer := d.buffer ++ [.skep [] ref (some (d.enc.extension m))] },
             ⟨false, some (d.enc.extension m)⟩)
    | none =>
      (needArg d.af l).bind fun id =>
      (needLabels d.af ((d.af.iterFrom id).map (·.2))).bind fun ref =>
      .pure ({ d with buffer := d.buffer ++ [.skep [l] ref none] }, ⟨true, none⟩)

/-- skeptical acceptance of the stable solver -/
def stSkepQuery (d : ADState) (l : Nat) : Prog (ADState × AccAns) :=
  match cachedSkep d.buffer.reverse l with
  | (some b, some e) => fromCache d b e
  | _ => d.updateEncoding.bind fun d' => stSkepSolve d' l

def query (d : ADState) (q : Crusta.Dyn.DQuery) (l : Nat) : Prog (ADState × AccAns) :=
  match d.enc.sem, q with
  | .CO, .cred => credQuery d l
  | .ST, .cred => credQuery d l
  | .ST, .skep => stSkepQuery d l
  | _, _ => .crash "not implemented"

end Crusta.DynAtt
